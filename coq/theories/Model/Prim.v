(** * Primitives shared by all box codecs (model of src/mp4box/mod.rs)

    [BoxHeader::read/write], [read_box_header_ext]/[write_box_header_ext],
    [box_start], [skip_bytes], [skip_bytes_to], [skip_box], [write_zeros], and
    the byteorder reads/writes they are built from. *)
From MP4 Require Export Types.
From MP4 Require Tables.
Open Scope string_scope.
Open Scope list_scope.
Open Scope N_scope.

Definition HEADER_SIZE : N := Tables.HEADER_SIZE.
Definition HEADER_EXT_SIZE : N := Tables.HEADER_EXT_SIZE.

(** the box type a Rust struct writes into its header ([get_type()]/[box_type()]),
    looked up in the table regenerated from the source *)
Definition box_type_of (structname : string) : boxtype :=
  match lookup_s structname Tables.box_types with
  | Some n => match of_name n with Some b => b | None => UnknownBox 0 end
  | None => UnknownBox 0
  end.

(** width predicates used by the well-formedness conditions of box values *)
Definition ufit (w : nat) (x : N) : bool := x <? 256 ^ N.of_nat w.
Definition sfit (w : nat) (z : Z) : bool := fits_signed (8 * N.of_nat w) z.

(** ** Reads *)
Definition rd_u (w : nat) : prog N := RdExact (N.of_nat w) (fun l => Ret (unbe l)).
Definition rd_u8 := rd_u 1.
Definition rd_u16 := rd_u 2.
Definition rd_u24 := rd_u 3.
Definition rd_u32 := rd_u 4.
Definition rd_u48 := rd_u 6.
Definition rd_u64 := rd_u 8.
Definition rd_i (w : nat) : prog Z :=
  RdExact (N.of_nat w) (fun l => Ret (to_signed (8 * N.of_nat w) (unbe l))).
Definition rd_i8 := rd_i 1.
Definition rd_i16 := rd_i 2.
Definition rd_i32 := rd_i 4.

(** [vec![0u8; n]] followed by [read_exact]: the allocation is requested first *)
Definition rd_vec (n : N) : prog bytes := Alloc n (RdExact n (fun l => Ret l)).
(** a fixed-size stack buffer ([u8; k]) *)
Definition rd_arr (n : N) : prog bytes := RdExact n (fun l => Ret l).

(** a counted loop collecting results in order ([for _ in 0..n { v.push(..) }]) *)
Fixpoint rd_n {A} (n : nat) (body : prog A) : prog (list A) :=
  match n with
  | O => Ret []
  | S k => x <- body ;; r <- rd_n k body ;; Ret (x :: r)
  end.

Section WithMode.
  Variable m : mode.

  Definition add64 (site : string) (a b : N) : prog N := lift (add_w m U64 site a b).
  Definition sub64 (site : string) (a b : N) : prog N := lift (sub_w m U64 site a b).
  Definition mul64 (site : string) (a b : N) : prog N := lift (mul_w m U64 site a b).
  Definition add32 (site : string) (a b : N) : prog N := lift (add_w m U32 site a b).
  Definition sub32 (site : string) (a b : N) : prog N := lift (sub_w m U32 site a b).
  Definition mul32 (site : string) (a b : N) : prog N := lift (mul_w m U32 site a b).

  (** [BoxHeader::read] *)
  Definition read_header : prog (boxtype * N) :=
    buf <- rd_arr 8 ;;
    let size := unbe (firstn 4 buf) in
    let typ := unbe (skipn 4 buf) in
    if size =? 1 then
      buf2 <- rd_arr 8 ;;
      let large := unbe buf2 in
      if large =? 0 then Ret (boxtype_of_u32 typ, 0)
      else if large <? 16 then Throw EData
      else Ret (boxtype_of_u32 typ, large - 8)
    else Ret (boxtype_of_u32 typ, size).

  (** [read_box_header_ext] *)
  Definition read_header_ext : prog (N * N) :=
    v <- rd_u8 ;; f <- rd_u24 ;; Ret (v, f).

  (** [box_start]: [stream_position()? - HEADER_SIZE] *)
  Definition box_start : prog N := p <- get_pos ;; sub64 "box_start" p HEADER_SIZE.

  (** [skip_bytes]: [seek(SeekFrom::Current(size as i64))] *)
  Definition skip_bytes (n : N) : prog unit := seek_rel (to_signed 64 (n mod U64)).
  Definition skip_bytes_to (p : N) : prog unit := seek_to p.
  (** [skip_box] *)
  Definition skip_box (size : N) : prog unit :=
    start <- box_start ;; e <- add64 "skip_box start+size" start size ;; seek_to e.
End WithMode.

(** ** Writes *)
Definition wr_u (w : nat) (x : N) : wprog unit := wr (be w x).
Definition wr_u8 := wr_u 1.
Definition wr_u16 := wr_u 2.
Definition wr_u32 := wr_u 4.
Definition wr_u64 := wr_u 8.
(** byteorder's [write_u24]/[write_u48] assert that the value fits *)
Definition wr_u24 (x : N) : wprog unit :=
  if x <? U24 then wr (be 3 x) else WCrash "byteorder write_u24: value does not fit".
Definition wr_u48 (x : N) : wprog unit :=
  if x <? U48 then wr (be 6 x) else WCrash "byteorder write_u48: value does not fit".
Definition wr_i (w : nat) (z : Z) : wprog unit := wr (be w (of_signed (8 * N.of_nat w) z)).
Definition wr_i8 := wr_i 1.
Definition wr_i16 := wr_i 2.
Definition wr_i32 := wr_i 4.

(** [write_zeros]: [size] single-byte writes *)
Fixpoint wr_zeros (n : nat) : wprog unit :=
  match n with
  | O => WRet tt
  | S k => WrAll [0] (wr_zeros k)
  end.

Open Scope wprog_scope.

(** [BoxHeader::write] *)
Definition write_header (name : boxtype) (size : N) : wprog N :=
  if U32 <=? size then
    wr_u32 1 ;;; wr_u32 (u32_of_boxtype name) ;;; wr_u64 size ;;; WRet 16
  else
    wr_u32 size ;;; wr_u32 (u32_of_boxtype name) ;;; WRet 8.

Definition write_header_ext (v f : N) : wprog N :=
  wr_u8 v ;;; wr_u24 f ;;; WRet 4.

Close Scope wprog_scope.

(** ** Final outcome and output of a pure appender *)
Fixpoint wfin {A} (p : wprog A) : res A :=
  match p with
  | WRet a => Ok a
  | WThrow e => Err e
  | WCrash s => Panic s
  | WrAll _ k => wfin k
  | WSeekTo _ k => wfin k
  | WGetPos k => wfin (k 0)
  end.

Fixpoint appender {A} (p : wprog A) : Prop :=
  match p with
  | WRet _ | WThrow _ | WCrash _ => True
  | WrAll _ k => appender k
  | WSeekTo _ _ => False
  | WGetPos _ => False
  end.

Lemma wfin_bind {A B} (p : wprog A) (f : A -> wprog B) : appender p ->
  wfin (wbind p f) = res_bind (wfin p) (fun a => wfin (f a)).
Proof.
  induction p as [a|e|x|l k IH|q k IH|k IH]; cbn [wbind wfin appender res_bind]; intros H;
    auto; try tauto.
Qed.

Lemma wout_bind {A B} (p : wprog A) (f : A -> wprog B) : appender p ->
  wout (wbind p f) = wout p ++ match wfin p with Ok a => wout (f a) | _ => [] end.
Proof.
  induction p as [a|e|x|l k IH|q k IH|k IH]; cbn [wbind wfin wout appender]; intros H;
    auto; try tauto.
  rewrite IH by exact H. now rewrite app_assoc.
Qed.

Lemma appender_bind {A B} (p : wprog A) (f : A -> wprog B) :
  appender p -> (forall a, appender (f a)) -> appender (wbind p f).
Proof.
  induction p as [a|e|x|l k IH|q k IH|k IH]; cbn [wbind appender]; intros H Hf; auto; tauto.
Qed.

Lemma write_at_end l buf : write_at (lenN buf) l buf = buf ++ l.
Proof.
  unfold write_at. rewrite N.leb_refl.
  replace (N.to_nat (lenN buf)) with (length buf) by (unfold lenN; lia).
  rewrite firstn_all. rewrite dropN_all by lia. now rewrite app_nil_r.
Qed.

(** Running an appender on a stream positioned at its end appends its output. *)
Lemma wrun_appender {A} (p : wprog A) w : appender p -> w_pos w = w_base w + lenN (w_buf w) ->
  wrun p w = (wfin p, mkW (w_base w) (w_buf w ++ wout p) (w_pos w + lenN (wout p))).
Proof.
  revert w; induction p as [a|e|x|l k IH|q k IH|k IH]; intros w Hp Hw; cbn [wrun wfin wout appender] in *;
    try tauto; try (rewrite app_nil_r, N.add_0_r; destruct w; reflexivity).
  destruct l as [|b l].
  - rewrite IH by assumption. reflexivity.
  - replace (w_pos w - w_base w) with (lenN (w_buf w)) by lia.
    rewrite write_at_end.
    rewrite IH; [| exact Hp |].
    + cbn [w_base w_buf w_pos]. rewrite <- app_assoc. f_equal. f_equal. rewrite lenN_app. lia.
    + cbn [w_base w_buf w_pos]. rewrite lenN_app. lia.
Qed.
