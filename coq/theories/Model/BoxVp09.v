(** vp09.rs *)
From MP4 Require Export Tree VlLib BoxVpcc.
Open Scope string_scope.
Open Scope list_scope.
Open Scope N_scope.

Record vp09 := mkVp09 {
  vp09_version : N;
  vp09_flags : N;
  vp09_start_code : N;
  vp09_data_reference_index : N;
  vp09_reserved0 : bytes;             (* [u8; 16] *)
  vp09_width : N;
  vp09_height : N;
  vp09_horizresolution : N * N;       (* (u16, u16) *)
  vp09_vertresolution : N * N;
  vp09_reserved1 : bytes;             (* [u8; 4] *)
  vp09_frame_count : N;
  vp09_compressorname : bytes;        (* [u8; 32] *)
  vp09_depth : N;
  vp09_end_code : N;
  vp09_vpcc : vpcc
}.

Definition vp09_DEFAULT_START_CODE : N := 0.
Definition vp09_DEFAULT_END_CODE : N := 0xFFFF.
Definition vp09_DEFAULT_DATA_REFERENCE_INDEX : N := 1.
Definition vp09_DEFAULT_HORIZRESOLUTION : N * N := (0x48, 0x00).
Definition vp09_DEFAULT_VERTRESOLUTION : N * N := (0x48, 0x00).
Definition vp09_DEFAULT_FRAME_COUNT : N := 1.
Definition vp09_DEFAULT_COMPRESSORNAME : bytes := repeat 0 32.
Definition vp09_DEFAULT_DEPTH : N := 24.

(** [#[derive(Default)]] *)
Definition vp09_default : vp09 :=
  mkVp09 0 0 0 0 (repeat 0 16) 0 0 (0, 0) (0, 0) (repeat 0 4) 0 (repeat 0 32) 0 0 vpcc_default.

(** [Vp09Box::new(&Vp9Config { width, height })] *)
Definition vp09_new (width height : N) : vp09 :=
  mkVp09 0 0 vp09_DEFAULT_START_CODE vp09_DEFAULT_DATA_REFERENCE_INDEX (repeat 0 16)
         width height vp09_DEFAULT_HORIZRESOLUTION vp09_DEFAULT_VERTRESOLUTION (repeat 0 4)
         vp09_DEFAULT_FRAME_COUNT vp09_DEFAULT_COMPRESSORNAME vp09_DEFAULT_DEPTH vp09_DEFAULT_END_CODE
         (mkVpcc vpcc_DEFAULT_VERSION 0 0 0x1F vpcc_DEFAULT_BIT_DEPTH 0 false 0 0 0 0).

(** [box_size] is the constant 0x6A *)
Definition vp09_size (v : vp09) : N := 0x6A.

Definition vp09_wf (v : vp09) : bool :=
  ufit 1 (vp09_version v) && ufit 3 (vp09_flags v)
  && ufit 2 (vp09_start_code v) && ufit 2 (vp09_data_reference_index v)
  && (lenN (vp09_reserved0 v) =? 16) && bytes_ok (vp09_reserved0 v)
  && ufit 2 (vp09_width v) && ufit 2 (vp09_height v)
  && ufit 2 (fst (vp09_horizresolution v)) && ufit 2 (snd (vp09_horizresolution v))
  && ufit 2 (fst (vp09_vertresolution v)) && ufit 2 (snd (vp09_vertresolution v))
  && (lenN (vp09_reserved1 v) =? 4) && bytes_ok (vp09_reserved1 v)
  && ufit 2 (vp09_frame_count v)
  && (lenN (vp09_compressorname v) =? 32) && bytes_ok (vp09_compressorname v)
  && ufit 2 (vp09_depth v) && ufit 2 (vp09_end_code v)
  && vpcc_wf (vp09_vpcc v).

Definition dec_vp09 (m : mode) (size : N) : prog vp09 :=
  start <- box_start m ;;
  '(version, flags) <- read_header_ext ;;
  start_code <- rd_u16 ;;
  data_reference_index <- rd_u16 ;;
  reserved0 <- rd_arr 16 ;;
  width <- rd_u16 ;;
  height <- rd_u16 ;;
  h0 <- rd_u16 ;; h1 <- rd_u16 ;;
  v0 <- rd_u16 ;; v1 <- rd_u16 ;;
  reserved1 <- rd_arr 4 ;;
  frame_count <- rd_u16 ;;
  compressorname <- rd_arr 32 ;;
  depth <- rd_u16 ;;
  end_code <- rd_u16 ;;
  '(_, hsize) <- read_header ;;                    (* the child's type is not looked at *)
  if size <? hsize then Throw EData
  else
    vpcc <- dec_vpcc m hsize ;;
    e <- add64 m "vp09 start+size" start size ;;
    skip_bytes_to e ;;;
    Ret (mkVp09 version flags start_code data_reference_index reserved0 width height
                (h0, h1) (v0, v1) reserved1 frame_count compressorname depth end_code vpcc).

Open Scope wprog_scope.
Definition enc_vp09 (v : vp09) : wprog N :=
  let size := vp09_size v in
  write_header (box_type_of "Vp09Box") size ;;;
  write_header_ext (vp09_version v) (vp09_flags v) ;;;
  wr_u16 (vp09_start_code v) ;;;
  wr_u16 (vp09_data_reference_index v) ;;;
  wr (vp09_reserved0 v) ;;;
  wr_u16 (vp09_width v) ;;;
  wr_u16 (vp09_height v) ;;;
  wr_u16 (fst (vp09_horizresolution v)) ;;;
  wr_u16 (snd (vp09_horizresolution v)) ;;;
  wr_u16 (fst (vp09_vertresolution v)) ;;;
  wr_u16 (snd (vp09_vertresolution v)) ;;;
  wr (vp09_reserved1 v) ;;;
  wr_u16 (vp09_frame_count v) ;;;
  wr (vp09_compressorname v) ;;;
  wr_u16 (vp09_depth v) ;;;
  wr_u16 (vp09_end_code v) ;;;
  enc_vpcc (vp09_vpcc v) ;;;
  WRet size.
Close Scope wprog_scope.

Definition show_vp09 (v : vp09) : tree :=
  TRec "Vp09Box" [("version", TNum (vp09_version v)); ("flags", TNum (vp09_flags v));
                  ("start_code", TNum (vp09_start_code v));
                  ("data_reference_index", TNum (vp09_data_reference_index v));
                  ("reserved0", tnums (vp09_reserved0 v));
                  ("width", TNum (vp09_width v)); ("height", TNum (vp09_height v));
                  ("horizresolution", TTuple [TNum (fst (vp09_horizresolution v));
                                              TNum (snd (vp09_horizresolution v))]);
                  ("vertresolution", TTuple [TNum (fst (vp09_vertresolution v));
                                             TNum (snd (vp09_vertresolution v))]);
                  ("reserved1", tnums (vp09_reserved1 v));
                  ("frame_count", TNum (vp09_frame_count v));
                  ("compressorname", tnums (vp09_compressorname v));
                  ("depth", TNum (vp09_depth v)); ("end_code", TNum (vp09_end_code v));
                  ("vpcc", show_vpcc (vp09_vpcc v))].

Example vp09_smoke :
  let v := vp09_new 1920 1080 in
  fst (run (h <- read_header ;; dec_vp09 Dbg (snd h)) (stream_at (wout (enc_vp09 v)) 0)) = Ok v.
Proof. vm_compute. reflexivity. Qed.
