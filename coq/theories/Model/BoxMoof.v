(** moof.rs: [MoofBox] *)
From MP4 Require Export BoxTraf BoxMfhd PrimCodecs.
Open Scope string_scope.
Open Scope list_scope.
Open Scope N_scope.

Record moof := mkMoof {
  moof_mfhd : mfhd;
  moof_trafs : list traf }.

(** [#[derive(Default)]] *)
Definition moof_default : moof := mkMoof mfhd_default [].

Definition moof_size (v : moof) : N :=
  HEADER_SIZE + mfhd_size (moof_mfhd v) + sumN (map traf_size (moof_trafs v)).

Definition moof_wf (v : moof) : bool :=
  mfhd_wf (moof_mfhd v) && forallb traf_wf (moof_trafs v).

Definition moof_acc : Type := option mfhd * list traf.

Definition moof_dispatch (m : mode) (fuel : nat) (name : boxtype) (s : N) (a : moof_acc) : prog moof_acc :=
  let '(mh, tr) := a in
  match name with
  | MfhdBox => x <- dec_mfhd m s ;; Ret (Some x, tr)
  | TrafBox => x <- dec_traf_fuel fuel m s ;; Ret (mh, tr ++ [x])
  | _ => skip_box m s ;;; Ret a
  end.

Definition dec_moof_fuel (fuel : nat) (m : mode) (size : N) : prog moof :=
  start <- box_start m ;;
  current <- get_pos ;;
  end_ <- add64 m "moof start+size" start size ;;
  a <- children_loop fuel m (Some size) true end_ (moof_dispatch m) (None, []) current ;;
  let '(mh, tr) := a in
  match mh with
  | Some h =>
      e <- add64 m "moof start+size" start size ;;
      skip_bytes_to e ;;;
      Ret (mkMoof h tr)
  | None => Throw EData                            (* BoxNotFound(MfhdBox) *)
  end.

Open Scope wprog_scope.
Definition enc_moof (v : moof) : wprog N :=
  let size := moof_size v in
  write_header (box_type_of "MoofBox") size ;;;
  enc_mfhd (moof_mfhd v) ;;;
  wr_each enc_traf (moof_trafs v) ;;;
  WRet size.
Close Scope wprog_scope.

Definition show_moof (v : moof) : tree :=
  TRec "MoofBox" [("mfhd", show_mfhd (moof_mfhd v));
                  ("trafs", TList (map show_traf (moof_trafs v)))].

Definition moof_test : moof := mkMoof (mkMfhd 0 0 7) [traf_test; traf_default].

Example moof_smoke :
  fst (run (h <- read_header ;; dec_moof_fuel 5 Dbg (snd h)) (stream_at (wout (enc_moof moof_default)) 0))
  = Ok moof_default
  /\ fst (run (h <- read_header ;; dec_moof_fuel 5 Dbg (snd h)) (stream_at (wout (enc_moof moof_test)) 0))
     = Ok moof_test.
Proof. vm_compute. split; reflexivity. Qed.
