(** udta.rs: [UdtaBox] *)
From MP4 Require Export BoxMeta.
Open Scope string_scope.
Open Scope list_scope.
Open Scope N_scope.

Record udta := mkUdta { udta_meta : option meta }.

(** [#[derive(Default)]] *)
Definition udta_default : udta := mkUdta None.

Definition udta_size (v : udta) : N :=
  HEADER_SIZE + match udta_meta v with Some x => meta_size x | None => 0 end.

Definition udta_wf (v : udta) : bool :=
  match udta_meta v with Some x => meta_wf x | None => true end.

Definition udta_dispatch (m : mode) (fuel : nat) (name : boxtype) (s : N) (a : option meta)
  : prog (option meta) :=
  match name with
  | MetaBox => x <- dec_meta_fuel fuel m s ;; Ret (Some x)
  | _ => skip_box m s ;;; Ret a
  end.

Definition dec_udta_fuel (fuel : nat) (m : mode) (size : N) : prog udta :=
  start <- box_start m ;;
  current <- get_pos ;;
  end_ <- add64 m "udta start+size" start size ;;
  a <- children_loop fuel m (Some size) true end_ (udta_dispatch m) None current ;;
  e <- add64 m "udta start+size" start size ;;
  skip_bytes_to e ;;;
  Ret (mkUdta a).

Open Scope wprog_scope.
Definition enc_udta (v : udta) : wprog N :=
  let size := udta_size v in
  write_header (box_type_of "UdtaBox") size ;;;
  match udta_meta v with Some x => enc_meta x ;;; WRet tt | None => WRet tt end ;;;
  WRet size.
Close Scope wprog_scope.

Definition show_udta (v : udta) : tree :=
  TRec "UdtaBox" [("meta", topt show_meta (udta_meta v))].

(** udta.rs's [test_udta_empty] and [test_udta] *)
Example udta_smoke :
  fst (run (h <- read_header ;; dec_udta_fuel 10 Dbg (snd h)) (stream_at (wout (enc_udta udta_default)) 0))
  = Ok udta_default
  /\ let v := mkUdta (Some meta_default) in
     fst (run (h <- read_header ;; dec_udta_fuel 10 Dbg (snd h)) (stream_at (wout (enc_udta v)) 0)) = Ok v.
Proof. vm_compute. split; reflexivity. Qed.

Example udta_smoke_mdir :
  let v := mkUdta (Some (MetaMdir (Some ilst_test))) in
  fst (run (h <- read_header ;; dec_udta_fuel 10 Dbg (snd h)) (stream_at (wout (enc_udta v)) 0)) = Ok v.
Proof. vm_compute. reflexivity. Qed.
