(** trex.rs *)
From MP4 Require Export Tree.
Open Scope string_scope.
Open Scope list_scope.
Open Scope N_scope.

Record trex := mkTrex {
  trex_version : N; trex_flags : N; trex_track_id : N; trex_default_sample_description_index : N;
  trex_default_sample_duration : N; trex_default_sample_size : N; trex_default_sample_flags : N }.

(** derived [Default] *)
Definition trex_default : trex := mkTrex 0 0 0 0 0 0 0.

Definition trex_size (v : trex) : N := HEADER_SIZE + HEADER_EXT_SIZE + 20.

Definition trex_wf (v : trex) : bool :=
  ufit 1 (trex_version v) && ufit 3 (trex_flags v) && ufit 4 (trex_track_id v)
  && ufit 4 (trex_default_sample_description_index v) && ufit 4 (trex_default_sample_duration v)
  && ufit 4 (trex_default_sample_size v) && ufit 4 (trex_default_sample_flags v).

Definition dec_trex (m : mode) (size : N) : prog trex :=
  start <- box_start m ;;
  '(version, flags) <- read_header_ext ;;
  track_id <- rd_u32 ;;
  dsdi <- rd_u32 ;;
  dsd <- rd_u32 ;;
  dss <- rd_u32 ;;
  dsf <- rd_u32 ;;
  e <- add64 m "trex start+size" start size ;;
  skip_bytes_to e ;;;
  Ret (mkTrex version flags track_id dsdi dsd dss dsf).

Open Scope wprog_scope.
Definition enc_trex (v : trex) : wprog N :=
  let size := trex_size v in
  write_header (box_type_of "TrexBox") size ;;;
  write_header_ext (trex_version v) (trex_flags v) ;;;
  wr_u32 (trex_track_id v) ;;;
  wr_u32 (trex_default_sample_description_index v) ;;;
  wr_u32 (trex_default_sample_duration v) ;;;
  wr_u32 (trex_default_sample_size v) ;;;
  wr_u32 (trex_default_sample_flags v) ;;;
  WRet size.
Close Scope wprog_scope.

Definition show_trex (v : trex) : tree :=
  TRec "TrexBox" [("version", TNum (trex_version v)); ("flags", TNum (trex_flags v));
                  ("track_id", TNum (trex_track_id v));
                  ("default_sample_description_index", TNum (trex_default_sample_description_index v));
                  ("default_sample_duration", TNum (trex_default_sample_duration v));
                  ("default_sample_size", TNum (trex_default_sample_size v));
                  ("default_sample_flags", TNum (trex_default_sample_flags v))].
