(** mp4a.rs: [Mp4aBox], [EsdsBox], [ESDescriptor], [DecoderConfigDescriptor],
    [DecoderSpecificDescriptor], [SLConfigDescriptor], [read_desc], [write_desc],
    [size_of_length].

    The write path of [DecoderSpecificDescriptor] adds [u8] values without a check, so the
    encoders of this file take the build [mode] (debug panics, release wraps). *)
From MP4 Require Export PrimCodecs.
Open Scope string_scope.
Open Scope list_scope.
Open Scope N_scope.

(** ** Descriptor helpers *)

(** the [for _ in 0..4] loop of [read_desc]; [n] iterations remain *)
Fixpoint read_desc_len (n : nat) (size : N) : prog N :=
  match n with
  | O => Ret size
  | S k =>
      b <- rd_u8 ;;
      let size' := N.lor (cast_w U32 (N.shiftl size 7)) (N.land b 127) in
      if N.land b 128 =? 0 then Ret size' else read_desc_len k size'
  end.

(** [read_desc]: tag and length *)
Definition read_desc : prog (N * N) :=
  tag <- rd_u8 ;;
  size <- read_desc_len 4 0 ;;
  Ret (tag, size).

Definition size_of_length (size : N) : N :=
  if size <=? 127 then 1
  else if size <=? 16383 then 2
  else if size <=? 2097151 then 3
  else 4.

Open Scope wprog_scope.
(** the [for i in 0..nbytes] loop of [write_desc]; [cnt] iterations remain *)
Fixpoint write_desc_len (size nbytes : N) (cnt : nat) (i : N) : wprog unit :=
  match cnt with
  | O => WRet tt
  | S c =>
      let b := N.land (cast_w U8 (N.shiftr size ((nbytes - i - 1) * 7))) 127 in
      let b := if i <? nbytes - 1 then N.lor b 128 else b in
      wr_u8 b ;;;
      write_desc_len size nbytes c (i + 1)
  end.

Definition write_desc (tag size : N) : wprog N :=
  wr_u8 tag ;;;
  if U32 - 1 <? size then WThrow EData
  else
    let nbytes := size_of_length size in
    write_desc_len size nbytes (N.to_nat nbytes) 0 ;;;
    WRet (1 + nbytes).
Close Scope wprog_scope.

(** [clamp_desc_size] (after its [stream_position] call, which the loops below make with
    [get_pos]): [min(desc_size as u64, end.saturating_sub(pos)) as u32]; the cast is the
    identity because the minimum is at most [desc_size < 2^32] *)
Definition clamp_desc_size (desc_size e pos : N) : N := N.min desc_size (e - pos).

(** ** SLConfigDescriptor (an empty struct) *)
Inductive slconfig := mkSlConfig.

Definition slconfig_default : slconfig := mkSlConfig.
Definition slconfig_new : slconfig := mkSlConfig.
Definition slconfig_desc_tag : N := 6.
Definition slconfig_desc_size : N := 1.
Definition slconfig_wf (v : slconfig) : bool := true.

Definition dec_slconfig (size : N) : prog slconfig :=
  _ <- rd_u8 ;;
  Ret mkSlConfig.

Open Scope wprog_scope.
Definition enc_slconfig (v : slconfig) : wprog N :=
  let size := slconfig_desc_size in
  write_desc slconfig_desc_tag size ;;;
  wr_u8 2 ;;;
  WRet size.
Close Scope wprog_scope.

Definition show_slconfig (v : slconfig) : tree := TRec "SLConfigDescriptor" [].

(** ** DecoderSpecificDescriptor *)
Record decspecific := mkDecSpecific {
  decspecific_profile : N;
  decspecific_freq_index : N;
  decspecific_chan_conf : N }.

Definition decspecific_default : decspecific := mkDecSpecific 0 0 0.

(** [DecoderSpecificDescriptor::new(&AacConfig)]: the enum discriminants [as u8] *)
Definition decspecific_new (profile freq_index chan_conf : string) : decspecific :=
  mkDecSpecific (cast_w U8 (aot_discr profile)) (cast_w U8 (sfi_discr freq_index))
                (cast_w U8 (chan_discr chan_conf)).

Definition decspecific_desc_tag : N := 5.
Definition decspecific_desc_size : N := 2.

(** what the two bytes written by [write_desc] can carry and [read_desc] gives back:
    object types 31 (escape) and above and frequency index 15 (explicit frequency) are not
    written in their escaped form *)
Definition decspecific_wf (v : decspecific) : bool :=
  (decspecific_profile v <? 31) && (decspecific_freq_index v <? 15) && (decspecific_chan_conf v <? 16).

Definition get_audio_object_type (byte_a byte_b : N) : N :=
  let profile := N.shiftr byte_a 3 in
  if profile =? 31 then
    32 + N.lor (cast_w U8 (N.shiftl (N.land byte_a 7) 3)) (N.shiftr byte_b 5)
  else profile.

Definition get_chan_conf (byte_b freq_index : N) (extended_profile : bool) : prog N :=
  if freq_index =? 15 then
    sample_rate <- rd_u24 ;;
    Ret (cast_w U8 (N.land (N.shiftr sample_rate 4) 15))
  else if extended_profile then
    byte_c <- rd_u8 ;;
    Ret (N.lor (cast_w U8 (N.shiftl (N.land byte_b 1) 3)) (N.shiftr byte_c 5))
  else
    Ret (N.land (N.shiftr byte_b 3) 15).

Definition dec_decspecific (size : N) : prog decspecific :=
  byte_a <- rd_u8 ;;
  byte_b <- rd_u8 ;;
  let profile := get_audio_object_type byte_a byte_b in
  if 31 <? profile then
    let freq_index := N.land (N.shiftr byte_b 1) 15 in
    chan_conf <- get_chan_conf byte_b freq_index true ;;
    Ret (mkDecSpecific profile freq_index chan_conf)
  else
    let freq_index := cast_w U8 (N.shiftl (N.land byte_a 7) 1) + N.shiftr byte_b 7 in
    chan_conf <- get_chan_conf byte_b freq_index false ;;
    Ret (mkDecSpecific profile freq_index chan_conf).

Open Scope wprog_scope.
Definition enc_decspecific (m : mode) (v : decspecific) : wprog N :=
  let size := decspecific_desc_size in
  write_desc decspecific_desc_tag size ;;;
  a <- wadd8 m "DecoderSpecificDescriptor (profile << 3) + (freq_index >> 1)"
         (cast_w U8 (N.shiftl (decspecific_profile v) 3)) (N.shiftr (decspecific_freq_index v) 1) ;;
  wr_u8 a ;;;
  b <- wadd8 m "DecoderSpecificDescriptor (freq_index << 7) + (chan_conf << 3)"
         (cast_w U8 (N.shiftl (decspecific_freq_index v) 7)) (cast_w U8 (N.shiftl (decspecific_chan_conf v) 3)) ;;
  wr_u8 b ;;;
  WRet size.
Close Scope wprog_scope.

Definition show_decspecific (v : decspecific) : tree :=
  TRec "DecoderSpecificDescriptor" [("profile", TNum (decspecific_profile v));
                                    ("freq_index", TNum (decspecific_freq_index v));
                                    ("chan_conf", TNum (decspecific_chan_conf v))].

(** ** DecoderConfigDescriptor *)
Record decconfig := mkDecConfig {
  decconfig_object_type_indication : N;
  decconfig_stream_type : N;
  decconfig_up_stream : N;
  decconfig_buffer_size_db : N;
  decconfig_max_bitrate : N;
  decconfig_avg_bitrate : N;
  decconfig_dec_specific : decspecific }.

Definition decconfig_default : decconfig := mkDecConfig 0 0 0 0 0 0 decspecific_default.

Definition decconfig_new (bitrate : N) (profile freq_index chan_conf : string) : decconfig :=
  mkDecConfig 64 5 0 0 bitrate bitrate (decspecific_new profile freq_index chan_conf).

Definition decconfig_desc_tag : N := 4.
Definition decconfig_desc_size : N :=
  13 + 1 + size_of_length decspecific_desc_size + decspecific_desc_size.

(** [up_stream] holds the masked bit ([byte & 0x02]), i.e. 0 or 2 *)
Definition decconfig_wf (v : decconfig) : bool :=
  ufit 1 (decconfig_object_type_indication v)
  && (decconfig_stream_type v <? 64)
  && ((decconfig_up_stream v =? 0) || (decconfig_up_stream v =? 2))
  && ufit 3 (decconfig_buffer_size_db v)
  && ufit 4 (decconfig_max_bitrate v) && ufit 4 (decconfig_avg_bitrate v)
  && decspecific_wf (decconfig_dec_specific v).

(** the [while current < end] loop of [DecoderConfigDescriptor::read_desc] *)
Fixpoint decconfig_loop (fuel : nat) (current e : N) (dec_specific : option decspecific)
  : prog (option decspecific) :=
  match fuel with
  | O => Spin
  | S f =>
      if current <? e then
        '(desc_tag, desc_size) <- read_desc ;;
        pos <- get_pos ;;
        let desc_size := clamp_desc_size desc_size e pos in
        if desc_tag =? 5 then
          d <- dec_decspecific desc_size ;;
          c <- get_pos ;;
          decconfig_loop f c e (Some d)
        else
          skip_bytes desc_size ;;;
          c <- get_pos ;;
          decconfig_loop f c e dec_specific
      else Ret dec_specific
  end.

Definition dec_decconfig_fuel (fuel : nat) (m : mode) (size : N) : prog decconfig :=
  start <- get_pos ;;
  object_type_indication <- rd_u8 ;;
  byte_a <- rd_u8 ;;
  let stream_type := N.shiftr (N.land byte_a 252) 2 in
  let up_stream := N.land byte_a 2 in
  buffer_size_db <- rd_u24 ;;
  max_bitrate <- rd_u32 ;;
  avg_bitrate <- rd_u32 ;;
  current <- get_pos ;;
  e <- add64 m "DecoderConfigDescriptor start+size" start size ;;
  dec_specific <- decconfig_loop fuel current e None ;;
  Ret (mkDecConfig object_type_indication stream_type up_stream buffer_size_db max_bitrate
                   avg_bitrate
                   (match dec_specific with Some d => d | None => decspecific_default end)).

Definition dec_decconfig (m : mode) (size : N) : prog decconfig :=
  dec_decconfig_fuel (N.to_nat size + 1) m size.

Open Scope wprog_scope.
Definition enc_decconfig (m : mode) (v : decconfig) : wprog N :=
  let size := decconfig_desc_size in
  write_desc decconfig_desc_tag size ;;;
  wr_u8 (decconfig_object_type_indication v) ;;;
  a <- wadd8 m "DecoderConfigDescriptor (stream_type << 2) + (up_stream & 2)"
         (cast_w U8 (N.shiftl (decconfig_stream_type v) 2)) (N.land (decconfig_up_stream v) 2) ;;
  b <- wadd8 m "DecoderConfigDescriptor (stream_type << 2) + (up_stream & 2) + 1" a 1 ;;
  wr_u8 b ;;;
  wr_u24 (decconfig_buffer_size_db v) ;;;
  wr_u32 (decconfig_max_bitrate v) ;;;
  wr_u32 (decconfig_avg_bitrate v) ;;;
  enc_decspecific m (decconfig_dec_specific v) ;;;
  WRet size.
Close Scope wprog_scope.

Definition show_decconfig (v : decconfig) : tree :=
  TRec "DecoderConfigDescriptor"
       [("object_type_indication", TNum (decconfig_object_type_indication v));
        ("stream_type", TNum (decconfig_stream_type v));
        ("up_stream", TNum (decconfig_up_stream v));
        ("buffer_size_db", TNum (decconfig_buffer_size_db v));
        ("max_bitrate", TNum (decconfig_max_bitrate v));
        ("avg_bitrate", TNum (decconfig_avg_bitrate v));
        ("dec_specific", show_decspecific (decconfig_dec_specific v))].

(** ** ESDescriptor *)
Record esdesc := mkEsDesc {
  esdesc_es_id : N;
  esdesc_dec_config : decconfig;
  esdesc_sl_config : slconfig }.

Definition esdesc_default : esdesc := mkEsDesc 0 decconfig_default slconfig_default.

Definition esdesc_new (bitrate : N) (profile freq_index chan_conf : string) : esdesc :=
  mkEsDesc 1 (decconfig_new bitrate profile freq_index chan_conf) slconfig_new.

Definition esdesc_desc_tag : N := 3.
Definition esdesc_desc_size : N :=
  3 + 1 + size_of_length decconfig_desc_size + decconfig_desc_size
  + 1 + size_of_length slconfig_desc_size + slconfig_desc_size.

Definition esdesc_wf (v : esdesc) : bool :=
  ufit 2 (esdesc_es_id v) && decconfig_wf (esdesc_dec_config v) && slconfig_wf (esdesc_sl_config v).

(** the [while current < end] loop of [ESDescriptor::read_desc] *)
Fixpoint esdesc_loop (m : mode) (fuel : nat) (current e : N)
         (dec_config : option decconfig) (sl_config : option slconfig)
  : prog (option decconfig * option slconfig) :=
  match fuel with
  | O => Spin
  | S f =>
      if current <? e then
        '(desc_tag, desc_size) <- read_desc ;;
        pos <- get_pos ;;
        let desc_size := clamp_desc_size desc_size e pos in
        if desc_tag =? 4 then
          d <- dec_decconfig m desc_size ;;
          c <- get_pos ;;
          esdesc_loop m f c e (Some d) sl_config
        else if desc_tag =? 6 then
          s <- dec_slconfig desc_size ;;
          c <- get_pos ;;
          esdesc_loop m f c e dec_config (Some s)
        else
          skip_bytes desc_size ;;;
          c <- get_pos ;;
          esdesc_loop m f c e dec_config sl_config
      else Ret (dec_config, sl_config)
  end.

Definition dec_esdesc_fuel (fuel : nat) (m : mode) (size : N) : prog esdesc :=
  start <- get_pos ;;
  es_id <- rd_u16 ;;
  _ <- rd_u8 ;;
  current <- get_pos ;;
  e <- add64 m "ESDescriptor start+size" start size ;;
  '(dec_config, sl_config) <- esdesc_loop m fuel current e None None ;;
  Ret (mkEsDesc es_id
                (match dec_config with Some d => d | None => decconfig_default end)
                (match sl_config with Some s => s | None => slconfig_default end)).

Definition dec_esdesc (m : mode) (size : N) : prog esdesc :=
  dec_esdesc_fuel (N.to_nat size + 1) m size.

Open Scope wprog_scope.
Definition enc_esdesc (m : mode) (v : esdesc) : wprog N :=
  let size := esdesc_desc_size in
  write_desc esdesc_desc_tag size ;;;
  wr_u16 (esdesc_es_id v) ;;;
  wr_u8 0 ;;;
  enc_decconfig m (esdesc_dec_config v) ;;;
  enc_slconfig (esdesc_sl_config v) ;;;
  WRet size.
Close Scope wprog_scope.

Definition show_esdesc (v : esdesc) : tree :=
  TRec "ESDescriptor" [("es_id", TNum (esdesc_es_id v));
                       ("dec_config", show_decconfig (esdesc_dec_config v));
                       ("sl_config", show_slconfig (esdesc_sl_config v))].

(** ** EsdsBox *)
Record esds := mkEsds {
  esds_version : N;
  esds_flags : N;
  esds_es_desc : esdesc }.

Definition esds_default : esds := mkEsds 0 0 esdesc_default.

(** [EsdsBox::new(&AacConfig { bitrate, profile, freq_index, chan_conf })] *)
Definition esds_new (bitrate : N) (profile freq_index chan_conf : string) : esds :=
  mkEsds 0 0 (esdesc_new bitrate profile freq_index chan_conf).

(** [box_size] does not depend on the value *)
Definition esds_size (v : esds) : N :=
  HEADER_SIZE + HEADER_EXT_SIZE + 1 + size_of_length esdesc_desc_size + esdesc_desc_size.

Definition esds_wf (v : esds) : bool :=
  ufit 1 (esds_version v) && ufit 3 (esds_flags v) && esdesc_wf (esds_es_desc v).

(** the [while current < end] loop of [EsdsBox::read_box] *)
Fixpoint esds_loop (m : mode) (fuel : nat) (current e : N) (es_desc : option esdesc)
  : prog (option esdesc) :=
  match fuel with
  | O => Spin
  | S f =>
      if current <? e then
        '(desc_tag, desc_size) <- read_desc ;;
        pos <- get_pos ;;
        let desc_size := clamp_desc_size desc_size e pos in
        if desc_tag =? 3 then
          d <- dec_esdesc m desc_size ;;
          c <- get_pos ;;
          esds_loop m f c e (Some d)
        else Ret es_desc
      else Ret es_desc
  end.

Definition dec_esds_fuel (fuel : nat) (m : mode) (size : N) : prog esds :=
  start <- box_start m ;;
  '(version, flags) <- read_header_ext ;;
  current <- get_pos ;;
  e <- add64 m "esds start+size" start size ;;
  es_desc <- esds_loop m fuel current e None ;;
  match es_desc with
  | None => Throw EData
  | Some d =>
      e2 <- add64 m "esds start+size" start size ;;
      skip_bytes_to e2 ;;;
      Ret (mkEsds version flags d)
  end.

Definition dec_esds (m : mode) (size : N) : prog esds :=
  dec_esds_fuel (N.to_nat size + 1) m size.

Open Scope wprog_scope.
Definition enc_esds (m : mode) (v : esds) : wprog N :=
  let size := esds_size v in
  write_header (box_type_of "EsdsBox") size ;;;
  write_header_ext (esds_version v) (esds_flags v) ;;;
  enc_esdesc m (esds_es_desc v) ;;;
  WRet size.
Close Scope wprog_scope.

Definition show_esds (v : esds) : tree :=
  TRec "EsdsBox" [("version", TNum (esds_version v));
                  ("flags", TNum (esds_flags v));
                  ("es_desc", show_esdesc (esds_es_desc v))].

(** ** Mp4aBox *)
Record mp4a := mkMp4a {
  mp4a_data_reference_index : N;
  mp4a_channelcount : N;
  mp4a_samplesize : N;
  mp4a_samplerate : N;   (* FixedPointU16, raw *)
  mp4a_esds : option esds }.

Definition mp4a_default : mp4a := mkMp4a 0 2 16 (fp16_new 48000) (Some esds_default).

(** [Mp4aBox::new(&AacConfig)]: [channelcount: chan_conf as u16],
    [samplerate: FixedPointU16::new(freq_index.freq() as u16)] (the cast truncates 96000 and 88200) *)
Definition mp4a_new (bitrate : N) (profile freq_index chan_conf : string) : mp4a :=
  mkMp4a 1 (cast_w U16 (chan_discr chan_conf)) 16
         (fp16_new (cast_w U16 (sfi_freq freq_index)))
         (Some (esds_new bitrate profile freq_index chan_conf)).

Definition mp4a_size (v : mp4a) : N :=
  let size := HEADER_SIZE + 8 + 20 in
  match mp4a_esds v with
  | Some esds => size + esds_size esds
  | None => size
  end.

Definition mp4a_wf (v : mp4a) : bool :=
  ufit 2 (mp4a_data_reference_index v) && ufit 2 (mp4a_channelcount v)
  && ufit 2 (mp4a_samplesize v) && ufit 4 (mp4a_samplerate v)
  && match mp4a_esds v with Some e => esds_wf e | None => true end.

(** the child search loop of [Mp4aBox::read_box]; the result is the value of [esds] at the
    [break] *)
Fixpoint mp4a_find (m : mode) (fuel : nat) (size e : N) : prog (option esds) :=
  match fuel with
  | O => Spin
  | S f =>
      current <- get_pos ;;
      if e <=? current then Ret None
      else
        '(name, s) <- read_header ;;
        if size <? s then Throw EData
        else if s =? 0 then Ret None
        else if boxtype_eqb name EsdsBox then
          x <- dec_esds m s ;;
          Ret (Some x)
        else if boxtype_eqb name WaveBox then
          mp4a_find m f size e
        else
          skip_box m s ;;;
          mp4a_find m f size e
  end.

Definition dec_mp4a_fuel (fuel : nat) (m : mode) (size : N) : prog mp4a :=
  start <- box_start m ;;
  _ <- rd_u32 ;;
  _ <- rd_u16 ;;
  data_reference_index <- rd_u16 ;;
  version <- rd_u16 ;;
  _ <- rd_u16 ;;
  _ <- rd_u32 ;;
  channelcount <- rd_u16 ;;
  samplesize <- rd_u16 ;;
  _ <- rd_u32 ;;
  samplerate <- rd_u32 ;;
  (if version =? 1 then _ <- rd_u64 ;; _ <- rd_u64 ;; Ret tt else Ret tt) ;;;
  e <- add64 m "mp4a start+size" start size ;;
  esds <- mp4a_find m fuel size e ;;
  skip_bytes_to e ;;;
  Ret (mkMp4a data_reference_index channelcount samplesize samplerate esds).

Definition dec_mp4a (m : mode) (size : N) : prog mp4a :=
  dec_mp4a_fuel (N.to_nat size + 1) m size.

Open Scope wprog_scope.
Definition enc_mp4a (m : mode) (v : mp4a) : wprog N :=
  let size := mp4a_size v in
  write_header (box_type_of "Mp4aBox") size ;;;
  wr_u32 0 ;;;
  wr_u16 0 ;;;
  wr_u16 (mp4a_data_reference_index v) ;;;
  wr_u64 0 ;;;
  wr_u16 (mp4a_channelcount v) ;;;
  wr_u16 (mp4a_samplesize v) ;;;
  wr_u32 0 ;;;
  wr_u32 (mp4a_samplerate v) ;;;
  match mp4a_esds v with
  | Some esds => enc_esds m esds ;;; WRet size
  | None => WRet size
  end.
Close Scope wprog_scope.

Definition show_mp4a (v : mp4a) : tree :=
  TRec "Mp4aBox" [("data_reference_index", TNum (mp4a_data_reference_index v));
                  ("channelcount", TNum (mp4a_channelcount v));
                  ("samplesize", TNum (mp4a_samplesize v));
                  ("samplerate", show_fp16 (mp4a_samplerate v));
                  ("esds", topt show_esds (mp4a_esds v))].

(** smoke tests *)
Definition mp4a_test : mp4a :=
  mkMp4a 1 2 16 (fp16_new 48000)
    (Some (mkEsds 0 0 (mkEsDesc 2 (mkDecConfig 64 5 0 0 67695 67695 (mkDecSpecific 2 3 1)) mkSlConfig))).

Example mp4a_smoke :
  fst (run (h <- read_header ;; dec_mp4a Dbg (snd h)) (stream_at (wout (enc_mp4a Dbg mp4a_test)) 0))
  = Ok mp4a_test.
Proof. vm_compute. reflexivity. Qed.

Example mp4a_smoke_size : wfin (enc_mp4a Dbg mp4a_test) = Ok 75 /\ lenN (wout (enc_mp4a Dbg mp4a_test)) = 75.
Proof. vm_compute. split; reflexivity. Qed.

Example mp4a_smoke_none :
  let v := mkMp4a 1 2 16 (fp16_new 48000) None in
  fst (run (h <- read_header ;; dec_mp4a Rel (snd h)) (stream_at (wout (enc_mp4a Rel v)) 0)) = Ok v.
Proof. vm_compute. reflexivity. Qed.

Example mp4a_smoke_new :
  let v := mp4a_new 128000 "AacLowComplexity" "Freq44100" "Stereo" in
  fst (run (h <- read_header ;; dec_mp4a Dbg (snd h)) (stream_at (wout (enc_mp4a Dbg v)) 0)) = Ok v.
Proof. vm_compute. reflexivity. Qed.

(** an object type of 32 or more is written without the escape and reads back as another type
    (ALS, 36, reads back as 4); a debug build panics instead when the sum overflows *)
Example decspecific_als_rel :
  fst (run (d <- read_desc ;; dec_decspecific (snd d))
           (stream_at (wout (enc_decspecific Rel (mkDecSpecific 36 3 2))) 0))
  = Ok (mkDecSpecific 4 3 2).
Proof. vm_compute. reflexivity. Qed.
