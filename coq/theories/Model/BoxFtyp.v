(** ftyp.rs *)
From MP4 Require Export Tree VlLib.
Open Scope string_scope.
Open Scope list_scope.
Open Scope N_scope.

Record ftyp := mkFtyp {
  ftyp_major_brand : N;               (* FourCC *)
  ftyp_minor_version : N;
  ftyp_compatible_brands : list N     (* Vec<FourCC> *)
}.

(** [#[derive(Default)]] *)
Definition ftyp_default : ftyp := mkFtyp 0 0 [].

(** [get_size]: [HEADER_SIZE + 8 + 4 * len] (the length of a [Vec<FourCC>] is below 2^62, no overflow) *)
Definition ftyp_size (v : ftyp) : N :=
  HEADER_SIZE + 8 + 4 * lenN (ftyp_compatible_brands v).

Definition ftyp_wf (v : ftyp) : bool :=
  ufit 4 (ftyp_major_brand v) && ufit 4 (ftyp_minor_version v)
  && forallb (ufit 4) (ftyp_compatible_brands v).

Definition dec_ftyp (m : mode) (size : N) : prog ftyp :=
  start <- box_start m ;;
  if (size <? 16) || negb (size mod 4 =? 0) then Throw EData
  else
    let brand_count := (size - 16) / 4 in
    major <- rd_u32 ;;
    minor <- rd_u32 ;;
    brands <- rd_n (N.to_nat brand_count) rd_u32 ;;
    e <- add64 m "ftyp start+size" start size ;;
    skip_bytes_to e ;;;
    Ret (mkFtyp major minor brands).

Open Scope wprog_scope.
Definition enc_ftyp (v : ftyp) : wprog N :=
  let size := ftyp_size v in
  write_header (box_type_of "FtypBox") size ;;;
  wr_u32 (ftyp_major_brand v) ;;;
  wr_u32 (ftyp_minor_version v) ;;;
  vl_wr_each wr_u32 (ftyp_compatible_brands v) ;;;
  WRet size.
Close Scope wprog_scope.

Definition show_ftyp (v : ftyp) : tree :=
  TRec "FtypBox" [("major_brand", TFourCC (ftyp_major_brand v));
                  ("minor_version", TNum (ftyp_minor_version v));
                  ("compatible_brands", TList (map TFourCC (ftyp_compatible_brands v)))].

Example ftyp_smoke :
  let v := mkFtyp 0x69736f6d 512 [0x69736f6d; 0x69736f32; 0x61766331; 0x6d703431] in
  fst (run (h <- read_header ;; dec_ftyp Dbg (snd h)) (stream_at (wout (enc_ftyp v)) 0)) = Ok v.
Proof. vm_compute. reflexivity. Qed.
