(** * The last step of the muxer: building and encoding [moov]
    (model of the [TrakBox] bookkeeping of [Mp4TrackWriter] in src/track.rs and of the end of
    [Mp4Writer::write_end] in src/writer.rs)

    [Writer.v] models the muxer as a state machine over the sample tables and stops before the
    [moov] box is encoded: [run_mux m base cfg ops = Ok (cls, f)], [f : mfinal].  This file is
    the rest:

    - [trak_of_tfinal]: the [TrakBox] that [Mp4TrackWriter::write_end] returns.  The Rust struct
      carries the [TrakBox] from [Mp4TrackWriter::new] on and mutates it in place; the fields
      [write_sample] / [write_chunk] / [write_end] mutate are exactly the ones [Writer.v] keeps in
      [tf_tables] (stsc with the writer's OWN [first_sample] values, stsz, stco xor co64, stts,
      ctts, stss), [tf_hdr] (mdhd / tkhd duration and version) and [tf_max_sample_size]; every
      other field still has the value [Mp4TrackWriter::new] gave it from the [TrackConfig].
    - [moov_of_mfinal]: [MoovBox::default()] with the traks pushed in track order and
      [mvhd.timescale / duration / version] set.
    - [mux_bytes]: everything the muxer has written when [write_end] returns:
      [mf_out f ++ wout (enc_moov m moov)] (the stream is at its end when [moov.write_box] starts
      — [update_mdat_size] seeks back to [mdat_end] — and every box encoder is an appender). *)
From MP4 Require Export Writer BoxMoov BoxFtyp.
From MP4 Require Reader.
Open Scope string_scope.
Open Scope list_scope.
Open Scope N_scope.

(** ** [Mp4TrackWriter::new]: the [TrakBox] built from the [TrackConfig] *)

(** [trak.mdia.minf.stbl.stsd] and [trak.mdia.minf.{vmhd,smhd}] and [trak.tkhd.{width,height}] per
    media configuration.  [Avc1Box::new] indexes [sps[1..=3]]: [avc1_new] is [Panic] on an SPS
    shorter than 4 bytes; [Mp4TrackWriter::new] rejects such a configuration before it gets here
    ([conf_check]), so the panic is unreachable from [run_mux] ([WriterMoov] keeps the [res]). *)
Definition stsd_of_conf (c : media_conf) : res stsd :=
  match c with
  | AvcConf w h sps pps =>
      res_bind (avc1_new w h sps pps) (fun a => Ok (mkStsd 0 0 (Some a) None None None None))
  | HevcConf w h => Ok (mkStsd 0 0 None (Some (hev1_new w h)) None None None)
  | Vp9Conf w h => Ok (mkStsd 0 0 None None (Some (vp09_new w h)) None None)
  | AacConf br p f ch => Ok (mkStsd 0 0 None None None (Some (mp4a_new br p f ch)) None)
  | TtxtConf => Ok (mkStsd 0 0 None None None None (Some tx3g_default))
  end.

(** [trak.mdia.minf.vmhd = Some(VmhdBox::default())] for avc and hevc only (not for vp9) *)
Definition vmhd_of_conf (c : media_conf) : option vmhd :=
  match c with
  | AvcConf _ _ _ _ | HevcConf _ _ => Some vmhd_default
  | _ => None
  end.

Definition smhd_of_conf (c : media_conf) : option smhd :=
  match c with
  | AacConf _ _ _ _ => Some smhd_default
  | _ => None
  end.

(** [trak.tkhd.set_width(w); trak.tkhd.set_height(h)] for the three video configurations *)
Definition tkhd_set_dims (c : media_conf) (t : tkhd) : tkhd :=
  match c with
  | AvcConf w h _ _ | HevcConf w h | Vp9Conf w h => tkhd_set_height (tkhd_set_width t w) h
  | _ => t
  end.

(** [trak.tkhd] when [write_end] returns: [track_id] from [new], [duration] / [version] from
    [update_durations] *)
Definition tkhd_of_tfinal (tf : tfinal) : tkhd :=
  let t0 := tkhd_default in
  let t1 := mkTkhd (wh_tkhd_version (tf_hdr tf)) (tkhd_flags t0) (tkhd_creation_time t0)
                   (tkhd_modification_time t0) (tf_track_id tf) (wh_tkhd_duration (tf_hdr tf))
                   (tkhd_layer t0) (tkhd_alternate_group t0) (tkhd_volume t0) (tkhd_matrix t0)
                   (tkhd_width t0) (tkhd_height t0) in
  tkhd_set_dims (tc_media (tf_conf tf)) t1.

(** [trak.mdia.mdhd]: [timescale], [language] from the configuration; [duration], [version] from
    [update_durations] *)
Definition mdhd_of_tfinal (tf : tfinal) : mdhd :=
  let d := mdhd_default in
  mkMdhd (wh_mdhd_version (tf_hdr tf)) (mdhd_flags d) (mdhd_creation_time d) (mdhd_modification_time d)
         (tc_timescale (tf_conf tf)) (wh_mdhd_duration (tf_hdr tf)) (tc_language (tf_conf tf)).

(** [trak.mdia.hdlr.handler_type = config.track_type.into()] *)
Definition hdlr_of_tfinal (tf : tfinal) : hdlr :=
  let d := hdlr_default in
  mkHdlr (hdlr_version d) (hdlr_flags d) (fourcc_of_tracktype (tc_track_type (tf_conf tf))) (hdlr_name d).

(** the writer's stsc entries, including its own (never serialised) [first_sample] *)
Definition stsc_ent_of (e : stsc_entry) : stsc_ent :=
  mkStscEnt (sc_first_chunk e) (sc_samples_per_chunk e) (sc_sample_description_index e) (sc_first_sample e).

(** [write_end]: [esds.es_desc.dec_config.buffer_size_db = max_sample_size.min(0x00FF_FFFF)] *)
Definition esds_set_buffer_size (e : esds) (b : N) : esds :=
  let ed := esds_es_desc e in
  let dc := esdesc_dec_config ed in
  mkEsds (esds_version e) (esds_flags e)
    (mkEsDesc (esdesc_es_id ed)
       (mkDecConfig (decconfig_object_type_indication dc) (decconfig_stream_type dc) (decconfig_up_stream dc)
                    b (decconfig_max_bitrate dc) (decconfig_avg_bitrate dc) (decconfig_dec_specific dc))
       (esdesc_sl_config ed)).

Definition stsd_finish (sd : stsd) (max_sample_size : N) : stsd :=
  match stsd_mp4a sd with
  | Some a =>
      let a' := match mp4a_esds a with
                | Some e => mkMp4a (mp4a_data_reference_index a) (mp4a_channelcount a) (mp4a_samplesize a)
                                   (mp4a_samplerate a)
                                   (Some (esds_set_buffer_size e (N.min max_sample_size 0xFFFFFF)))
                | None => a
                end in
      mkStsd (stsd_version sd) (stsd_flags sd) (stsd_avc1 sd) (stsd_hev1 sd) (stsd_vp09 sd) (Some a') (stsd_tx3g sd)
  | None => sd
  end.

(** [trak.mdia.minf.stbl] when [write_end] returns.  [co64 = Some(Co64Box::default())] from [new];
    [StcoBox::try_from(co64)] succeeds exactly when every offset fits u32 (decided in [tf_tables]):
    then [stco = Some(StcoBox { version: 0, flags: 0, entries })] and [co64 = None]. *)
Definition stbl_of_tfinal (sd : stsd) (tf : tfinal) : stbl :=
  let tb := tf_tables tf in
  mkStbl (stsd_finish sd (tf_max_sample_size tf))
         (mkStts 0 0 (map (fun e => mkSttsEntry (fst e) (snd e)) (t_stts tb)))
         (option_map (fun es => mkCtts 0 0 (map (fun e => mkCttsEntry (fst e) (snd e)) es)) (t_ctts tb))
         (option_map (fun l => mkStss 0 0 l) (t_stss tb))
         (mkStsc 0 0 (map stsc_ent_of (t_stsc tb)))
         (mkStsz 0 0 (t_stsz_size tb) (t_stsz_count tb) (t_stsz_sizes tb))
         (option_map (fun l => mkStco 0 0 l) (t_stco tb))
         (option_map (fun l => mkCo64 0 0 l) (t_co64 tb)).

(** the [TrakBox] [Mp4TrackWriter::write_end] returns ([self.trak.clone()]) *)
Definition trak_of_tfinal (m : mode) (tf : tfinal) : res trak :=
  let c := tc_media (tf_conf tf) in
  res_bind (stsd_of_conf c) (fun sd =>
  Ok (mkTrak (tkhd_of_tfinal tf) None None
        (mkMdia (mdhd_of_tfinal tf) (hdlr_of_tfinal tf)
           (mkMinf (vmhd_of_conf c) (smhd_of_conf c) dinf_default (stbl_of_tfinal sd tf))))).

(** ** [Mp4Writer::write_end]: [moov] *)
Fixpoint traks_of (m : mode) (tfs : list tfinal) : res (list trak) :=
  match tfs with
  | [] => Ok []
  | tf :: rest =>
      res_bind (trak_of_tfinal m tf) (fun t =>
      res_bind (traks_of m rest) (fun ts => Ok (t :: ts)))
  end.

(** [moov.mvhd.timescale = self.timescale; moov.mvhd.duration = self.duration;
     if moov.mvhd.duration > u32::MAX { moov.mvhd.version = 1 }] on [MoovBox::default()] *)
Definition mvhd_of_mfinal (f : mfinal) : mvhd :=
  let d := mvhd_default in
  mkMvhd (mf_mvhd_version f) (mvhd_flags d) (mvhd_creation_time d) (mvhd_modification_time d)
         (mf_mvhd_timescale f) (mf_mvhd_duration f) (mvhd_rate d) (mvhd_volume d) (mvhd_matrix d)
         (mvhd_next_track_id d).

Definition moov_of_mfinal (m : mode) (f : mfinal) : res moov :=
  res_bind (traks_of m (mf_tracks f)) (fun ts =>
  Ok (mkMoov (mvhd_of_mfinal f) None None ts None)).

(** the [FtypBox] [write_start] builds from the [Mp4Config] *)
Definition ftyp_of_conf (c : mp4_conf) : ftyp :=
  mkFtyp (mc_major_brand c) (mc_minor_version c) (mc_compatible_brands c).

(** ** The complete output.
    [moov.write_box(&mut self.writer)?]: the result of the encoder is the result of [write_end]
    (an encoder error or panic is propagated; the bytes are reported for an [Ok] run only). *)
Definition mux_bytes (m : mode) (base : N) (cfg : mp4_conf) (ops : list mux_op) : res (list rclass * bytes) :=
  res_bind (run_mux m base cfg ops) (fun '(cls, f) =>
  res_bind (moov_of_mfinal m f) (fun mv =>
  res_bind (wfin (enc_moov m mv)) (fun _ =>
  Ok (cls, mf_out f ++ wout (enc_moov m mv))))).

(** ** Smoke tests (executable): the two-track history of C01, muxed at stream position 0 *)
Definition wm_cfg : mp4_conf := mkMp4Conf 0x69736f6d 512 [0x69736f6d; 0x61766331] 1000.
Definition wm_video : track_conf :=
  mkTrackConf "Video" 1000 [117; 110; 100] (AvcConf 320 240 [103; 66; 0; 30] [104; 206]).
Definition wm_audio : track_conf :=
  mkTrackConf "Audio" 48000 [117; 110; 100] (AacConf 128000 "AAC-LC" "48000" "Stereo").
Definition wm_ops : list mux_op :=
  [OpWrite 1 (mkWSample 1 0%Z true [0]);                        (* rejected: no track yet *)
   OpAddTrack wm_video; OpAddTrack wm_audio;
   OpWrite 1 (mkWSample 500 0%Z true [1; 2; 3]);
   OpWrite 2 (mkWSample 24000 0%Z true [9; 9]);
   OpWrite 1 (mkWSample 500 0%Z false [4; 5; 6]);
   OpWrite 1 (mkWSample 500 0%Z false []);
   OpWrite 2 (mkWSample 24000 0%Z true [8; 8]);
   OpWrite 3 (mkWSample 1 0%Z true [7]);                        (* rejected: no such track *)
   OpWrite 1 (mkWSample 500 250%Z true [7]);
   OpWrite 2 (mkWSample 24000 0%Z true []);
   OpWrite 1 (mkWSample 300 (-20)%Z false [])].

Definition wm_open (b : bytes) : res Reader.mp4reader :=
  fst (run (Reader.open_fuel (N.to_nat (lenN b) + 2) Rel (lenN b)) (stream_at b 0)).

Example wm_smoke :
  match mux_bytes Dbg 0 wm_cfg wm_ops with
  | Ok (cls, b) =>
      cls = [CData; COk; COk; COk; COk; COk; COk; COk; CData; COk; COk; COk] /\
      match wm_open b with
      | Ok r =>
          Reader.rd_ftyp r = ftyp_of_conf wm_cfg /\
          map fst (Reader.rd_tracks r) = [1; 2] /\
          Reader.rd_moofs r = [] /\
          Reader.rd_size r = lenN b /\
          Reader.rd_sample_count r 1 = Ok 5 /\ Reader.rd_sample_count r 2 = Ok 3 /\
          Reader.rd_sample_count r 3 = Err EData /\
          map (fun k => fst (run (Reader.rd_read_sample Rel r 1 k) (stream_at b 0))) [0; 1; 4; 5; 6] =
            [Err EData;
             Ok (Some (mkSample 0 500 0 true [1; 2; 3]));
             Ok (Some (mkSample 1500 500 250 true [7]));
             Ok (Some (mkSample 2000 300 (-20) false []));
             Ok None] /\
          map (fun k => fst (run (Reader.rd_read_sample Rel r 2 k) (stream_at b 0))) [1; 2; 3; 4] =
            [Ok (Some (mkSample 0 24000 0 true [9; 9]));
             Ok (Some (mkSample 24000 24000 0 true [8; 8]));
             Ok (Some (mkSample 48000 24000 0 true []));
             Ok None]
      | _ => False
      end
  | _ => False
  end.
Proof. vm_compute. repeat split; reflexivity. Qed.

(** the bytes are: ftyp, mdat (32-bit size form, covering the [wide] placeholder and the payload), moov *)
Example wm_smoke_layout :
  match run_mux Dbg 0 wm_cfg wm_ops, mux_bytes Dbg 0 wm_cfg wm_ops with
  | Ok (_, f), Ok (_, b) =>
      match moov_of_mfinal Dbg f with
      | Ok mv =>
          b = wout (enc_ftyp (ftyp_of_conf wm_cfg))
              ++ be 4 (mf_mdat_size f) ++ be 4 0x6d646174 ++ be 4 8 ++ be 4 0x77696465
              ++ [1; 2; 3; 4; 5; 6; 9; 9; 8; 8; 7]
              ++ wout (enc_moov Dbg mv)
          /\ lenN (wout (enc_moov Dbg mv)) = moov_size mv
          /\ length (moov_traks mv) = 2%nat
      | _ => False
      end
  | _, _ => False
  end.
Proof. vm_compute. repeat split; reflexivity. Qed.

(** a short SPS never reaches [Avc1Box::new]: [add_track] rejects it *)
Example wm_smoke_short_sps :
  avc1_new 320 240 [103; 66; 0] [104] = Panic "AvcCBox::new sps[3]" /\
  match mux_bytes Dbg 0 wm_cfg [OpAddTrack (mkTrackConf "Video" 1000 [117; 110; 100] (AvcConf 320 240 [103; 66; 0] [104]))] with
  | Ok (cls, _) => cls = [CData]
  | _ => False
  end.
Proof. vm_compute. split; reflexivity. Qed.
