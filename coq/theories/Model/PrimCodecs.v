(** Small additions to [Prim] shared by the codec-configuration boxes
    (avc1.rs, hev1.rs, mp4a.rs): a write loop over a vector and mode-dependent
    u8 arithmetic on the write path. *)
From MP4 Require Export Tree.
Open Scope string_scope.
Open Scope list_scope.
Open Scope N_scope.

(** [for x in v.iter() { f(x, writer)?; }] *)
Fixpoint wr_each {A B} (f : A -> wprog B) (l : list A) : wprog unit :=
  match l with
  | [] => WRet tt
  | x :: t => wbind (f x) (fun _ => wr_each f t)
  end.

(** unchecked [u8 + u8] on the write path: panics in a debug build, wraps in release *)
Definition wadd8 (m : mode) (site : string) (a b : N) : wprog N := wlift (add_w m U8 site a b).

(** [u8::from(bool)] *)
Definition b2n (b : bool) : N := if b then 1 else 0.
