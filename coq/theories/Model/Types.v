(** * Value types and code/enumeration conversions (model of src/types.rs,
      the [boxtype!] macro of src/mp4box/mod.rs, and mdhd.rs's language codec)

    Everything table-shaped is looked up in [MP4.Gen.Tables], which the
    translator regenerates from /repo's source on every run. *)
From MP4 Require Export Prog.
From MP4 Require Tables.
From Coq Require Import Ascii.
Open Scope string_scope.
Open Scope list_scope.
Open Scope N_scope.

Inductive boxtype : Type :=
| FtypBox
| MvhdBox
| MfhdBox
| FreeBox
| MdatBox
| MoovBox
| MvexBox
| MehdBox
| TrexBox
| EmsgBox
| MoofBox
| TkhdBox
| TfhdBox
| TfdtBox
| EdtsBox
| MdiaBox
| ElstBox
| MdhdBox
| HdlrBox
| MinfBox
| VmhdBox
| StblBox
| StsdBox
| SttsBox
| CttsBox
| StssBox
| StscBox
| StszBox
| StcoBox
| Co64Box
| TrakBox
| TrafBox
| TrunBox
| UdtaBox
| MetaBox
| DinfBox
| DrefBox
| UrlBox
| SmhdBox
| Avc1Box
| AvcCBox
| Hev1Box
| HvcCBox
| Mp4aBox
| EsdsBox
| Tx3gBox
| VpccBox
| Vp09Box
| DataBox
| IlstBox
| NameBox
| DayBox
| CovrBox
| DescBox
| WideBox
| WaveBox
| UnknownBox (code : N).

Definition known_boxtypes : list boxtype := [
FtypBox; MvhdBox; MfhdBox; FreeBox; MdatBox; MoovBox; MvexBox; MehdBox; TrexBox; EmsgBox; MoofBox; TkhdBox; TfhdBox; TfdtBox; EdtsBox; MdiaBox; ElstBox; MdhdBox; HdlrBox; MinfBox; VmhdBox; StblBox; StsdBox; SttsBox; CttsBox; StssBox; StscBox; StszBox; StcoBox; Co64Box; TrakBox; TrafBox; TrunBox; UdtaBox; MetaBox; DinfBox; DrefBox; UrlBox; SmhdBox; Avc1Box; AvcCBox; Hev1Box; HvcCBox; Mp4aBox; EsdsBox; Tx3gBox; VpccBox; Vp09Box; DataBox; IlstBox; NameBox; DayBox; CovrBox; DescBox; WideBox; WaveBox
].

Definition name_of (b : boxtype) : string :=
  match b with
  | FtypBox => "FtypBox"
  | MvhdBox => "MvhdBox"
  | MfhdBox => "MfhdBox"
  | FreeBox => "FreeBox"
  | MdatBox => "MdatBox"
  | MoovBox => "MoovBox"
  | MvexBox => "MvexBox"
  | MehdBox => "MehdBox"
  | TrexBox => "TrexBox"
  | EmsgBox => "EmsgBox"
  | MoofBox => "MoofBox"
  | TkhdBox => "TkhdBox"
  | TfhdBox => "TfhdBox"
  | TfdtBox => "TfdtBox"
  | EdtsBox => "EdtsBox"
  | MdiaBox => "MdiaBox"
  | ElstBox => "ElstBox"
  | MdhdBox => "MdhdBox"
  | HdlrBox => "HdlrBox"
  | MinfBox => "MinfBox"
  | VmhdBox => "VmhdBox"
  | StblBox => "StblBox"
  | StsdBox => "StsdBox"
  | SttsBox => "SttsBox"
  | CttsBox => "CttsBox"
  | StssBox => "StssBox"
  | StscBox => "StscBox"
  | StszBox => "StszBox"
  | StcoBox => "StcoBox"
  | Co64Box => "Co64Box"
  | TrakBox => "TrakBox"
  | TrafBox => "TrafBox"
  | TrunBox => "TrunBox"
  | UdtaBox => "UdtaBox"
  | MetaBox => "MetaBox"
  | DinfBox => "DinfBox"
  | DrefBox => "DrefBox"
  | UrlBox => "UrlBox"
  | SmhdBox => "SmhdBox"
  | Avc1Box => "Avc1Box"
  | AvcCBox => "AvcCBox"
  | Hev1Box => "Hev1Box"
  | HvcCBox => "HvcCBox"
  | Mp4aBox => "Mp4aBox"
  | EsdsBox => "EsdsBox"
  | Tx3gBox => "Tx3gBox"
  | VpccBox => "VpccBox"
  | Vp09Box => "Vp09Box"
  | DataBox => "DataBox"
  | IlstBox => "IlstBox"
  | NameBox => "NameBox"
  | DayBox => "DayBox"
  | CovrBox => "CovrBox"
  | DescBox => "DescBox"
  | WideBox => "WideBox"
  | WaveBox => "WaveBox"
  | UnknownBox _ => "UnknownBox"
  end.

Definition boxtype_eqb (a b : boxtype) : bool :=
  match a, b with
  | UnknownBox x, UnknownBox y => x =? y
  | UnknownBox _, _ | _, UnknownBox _ => false
  | _, _ => String.eqb (name_of a) (name_of b)
  end.

Definition of_name (n : string) : option boxtype :=
  find (fun b => String.eqb (name_of b) n) known_boxtypes.

Fixpoint lookup_s {V} (k : string) (l : list (string * V)) : option V :=
  match l with
  | [] => None
  | (k', v) :: t => if String.eqb k k' then Some v else lookup_s k t
  end.

Fixpoint lookup_n {V} (k : N) (l : list (N * V)) : option V :=
  match l with
  | [] => None
  | (k', v) :: t => if k =? k' then Some v else lookup_n k t
  end.

(** [impl From<BoxType> for u32] *)
Definition u32_of_boxtype (b : boxtype) : N :=
  match b with
  | UnknownBox c => c
  | _ => match lookup_s (name_of b) Tables.boxtype_table with Some c => c | None => 0 end
  end.

(** [impl From<u32> for BoxType]: first matching arm wins, else [UnknownBox] *)
Definition boxtype_of_u32 (c : N) : boxtype :=
  match find (fun e => snd e =? c) Tables.boxtype_table with
  | Some (n, _) => match of_name n with Some b => b | None => UnknownBox c end
  | None => UnknownBox c
  end.

(** ** FourCC: four bytes; the model keeps the numeric code *)
Definition fourcc := N.
Definition fourcc_bytes (c : fourcc) : bytes := be 4 c.
Definition fourcc_of_u32 (c : N) : fourcc := c.
Definition u32_of_fourcc (c : fourcc) : N := c.
Definition fourcc_of_boxtype (b : boxtype) : fourcc := u32_of_boxtype b.

(** ** UTF-8 (Unicode Table 3-7, what [std::str::from_utf8] accepts) *)
Definition in_range (lo hi b : N) : bool := (lo <=? b) && (b <=? hi).
Definition is_cont (b : N) : bool := in_range 128 191 b.

(** validity and length of the sequence at the head of a non-empty list;
    for an ill-formed head the length is that of its maximal valid prefix (>= 1) *)
Definition utf8_head (l : bytes) : bool * nat :=
  match l with
  | [] => (true, 0%nat)
  | b0 :: t =>
      if b0 <? 128 then (true, 1%nat)
      else if in_range 194 223 b0 then
        match t with
        | b1 :: _ => if is_cont b1 then (true, 2%nat) else (false, 1%nat)
        | [] => (false, 1%nat)
        end
      else if in_range 224 239 b0 then
        let lo := if b0 =? 224 then 160 else 128 in
        let hi := if b0 =? 237 then 159 else 191 in
        match t with
        | b1 :: t1 =>
            if in_range lo hi b1 then
              match t1 with
              | b2 :: _ => if is_cont b2 then (true, 3%nat) else (false, 2%nat)
              | [] => (false, 2%nat)
              end
            else (false, 1%nat)
        | [] => (false, 1%nat)
        end
      else if in_range 240 244 b0 then
        let lo := if b0 =? 240 then 144 else 128 in
        let hi := if b0 =? 244 then 143 else 191 in
        match t with
        | b1 :: t1 =>
            if in_range lo hi b1 then
              match t1 with
              | b2 :: t2 =>
                  if is_cont b2 then
                    match t2 with
                    | b3 :: _ => if is_cont b3 then (true, 4%nat) else (false, 3%nat)
                    | [] => (false, 3%nat)
                    end
                  else (false, 2%nat)
              | [] => (false, 2%nat)
              end
            else (false, 1%nat)
        | [] => (false, 1%nat)
        end
      else (false, 1%nat)
  end.

Fixpoint utf8_valid_fuel (fuel : nat) (l : bytes) : bool :=
  match fuel with
  | O => true
  | S f =>
      match l with
      | [] => true
      | _ => let '(ok, n) := utf8_head l in
             ok && utf8_valid_fuel f (skipn n l)
      end
  end.
Definition utf8_valid (l : bytes) : bool := utf8_valid_fuel (S (length l)) l.

(** [String::from_utf8_lossy]: ill-formed maximal subparts become U+FFFD *)
Fixpoint utf8_lossy_fuel (fuel : nat) (l : bytes) : bytes :=
  match fuel with
  | O => []
  | S f =>
      match l with
      | [] => []
      | _ => let '(ok, n) := utf8_head l in
             (if ok then firstn n l else [239; 191; 189]) ++ utf8_lossy_fuel f (skipn n l)
      end
  end.
Definition utf8_lossy (l : bytes) : bytes := utf8_lossy_fuel (S (length l)) l.

(** code points of a VALID UTF-8 string, and its UTF-16 code units *)
Fixpoint utf8_points_fuel (fuel : nat) (l : bytes) : list N :=
  match fuel with
  | O => []
  | S f =>
      match l with
      | [] => []
      | b0 :: _ =>
          let '(_, n) := utf8_head l in
          let cp :=
            match firstn n l with
            | [a] => a
            | [a; b] => (a mod 32) * 64 + b mod 64
            | [a; b; c] => (a mod 16) * 4096 + (b mod 64) * 64 + c mod 64
            | [a; b; c; d] => (a mod 8) * 262144 + (b mod 64) * 4096 + (c mod 64) * 64 + d mod 64
            | _ => 65533
            end in
          cp :: utf8_points_fuel f (skipn n l)
      end
  end.
Definition utf8_points (l : bytes) : list N := utf8_points_fuel (S (length l)) l.

Definition utf16_units (l : bytes) : list N :=
  flat_map (fun cp => if cp <? 65536 then [cp]
                      else [55296 + (cp - 65536) / 1024; 56320 + (cp - 65536) mod 1024])
           (utf8_points l).

(** [impl FromStr for FourCC]: exactly four bytes *)
Definition fourcc_from_str (s : bytes) : res fourcc :=
  match s with
  | [_; _; _; _] => Ok (unbe s)
  | _ => Err EData
  end.
(** [impl Display for FourCC] *)
Definition fourcc_display (c : fourcc) : bytes := utf8_lossy (fourcc_bytes c).

(** ** ISO-639-2 packed language (mdhd.rs [language_string] / [language_code]) *)
Definition language_string (code : N) : bytes :=
  [ N.land (N.shiftr code 10) 31 + 96; N.land (N.shiftr code 5) 31 + 96; N.land code 31 + 96 ].

Definition language_code (s : bytes) : N :=
  let u := utf16_units s in
  let g i := match nth_error u i with Some x => x | None => 0 end in
  N.shiftl (N.land (g 0%nat) 31) 10 + N.shiftl (N.land (g 1%nat) 31) 5 + N.land (g 2%nat) 31.

(** ** Fixed-point wrappers (Ratio<uN> with a fixed denominator): the model
    keeps the raw numerator. *)
Definition fp8_new (v : N) : N := v * 256.           (* FixedPointU8::new *)
Definition fp8_value (raw : N) : N := (raw / 256) mod 256.
Definition fp16_new (v : N) : N := v * 65536.        (* FixedPointU16::new *)
Definition fp16_value (raw : N) : N := (raw / 65536) mod 65536.
Definition fpi8_new (v : Z) : Z := (v * 256)%Z.      (* FixedPointI8::new *)
Definition fpi8_value (raw : Z) : Z := Z.quot raw 256.

(** ** Enumerations: values are variant names; tables come from [Gen] *)
Definition enum_try_from (tbl : list (N * string)) (v : N) : res string :=
  match lookup_n v tbl with Some n => Ok n | None => Err EData end.
Definition enum_discr (tbl : list (string * N)) (n : string) : N :=
  match lookup_s n tbl with Some v => v | None => 0 end.

Definition aot_try_from := enum_try_from Tables.AudioObjectType_tryfrom.
Definition aot_discr := enum_discr Tables.AudioObjectType_discr.
Definition sfi_try_from := enum_try_from Tables.SampleFreqIndex_tryfrom.
Definition sfi_discr := enum_discr Tables.SampleFreqIndex_discr.
Definition sfi_freq (n : string) : N := enum_discr Tables.freq_table n.
Definition chan_try_from := enum_try_from Tables.ChannelConfig_tryfrom.
Definition chan_discr := enum_discr Tables.ChannelConfig_discr.
Definition datatype_try_from := enum_try_from Tables.DataType_tryfrom.
Definition datatype_discr := enum_discr Tables.DataType_discr.

Fixpoint bytes_of_string (s : string) : bytes :=
  match s with
  | EmptyString => []
  | String c t => N_of_ascii c :: bytes_of_string t
  end.

(** [TrackType]: TryFrom<&FourCC>, TryFrom<&str>, From<TrackType> for FourCC *)
Definition tracktype_of_fourcc (c : fourcc) : res string :=
  match find (fun e => unbe (bytes_of_string (snd e)) =? c) Tables.handler_table with
  | Some (k, _, _) => Ok k
  | None => Err EData
  end.
Definition tracktype_of_str (s : bytes) : res string :=
  match find (fun e => if list_eq_dec N.eq_dec (bytes_of_string (snd (fst e))) s then true else false)
             Tables.handler_table with
  | Some (k, _, _) => Ok k
  | None => Err EData
  end.
Definition fourcc_of_tracktype (k : string) : fourcc :=
  match find (fun e => String.eqb (fst (fst e)) k) Tables.handler_table with
  | Some (_, _, f) => unbe (bytes_of_string f)
  | None => 0
  end.
Definition mediatype_of_str (s : bytes) : res string :=
  match find (fun e => if list_eq_dec N.eq_dec (bytes_of_string (snd e)) s then true else false)
             Tables.media_table with
  | Some (k, _) => Ok k
  | None => Err EData
  end.
Definition str_of_mediatype (k : string) : bytes :=
  match lookup_s k Tables.media_table with Some s => bytes_of_string s | None => [] end.

(** [impl TryFrom<(u8, u8)> for AvcProfile] *)
Definition avc_profile_try_from (profile compat : N) : res string :=
  let flag := N.shiftr (N.land compat Tables.avc_mask) Tables.avc_shift in
  match find (fun a => let '(p, c, _) := a in
                       (p =? profile) && match c with Some c' => c' =? flag | None => true end)
             Tables.avc_arms with
  | Some (_, _, n) => Ok n
  | None => Err EData
  end.

(** [str::parse::<u32>]: optional '+', at least one digit, only digits, no overflow *)
Fixpoint parse_digits (acc : N) (l : bytes) : option N :=
  match l with
  | [] => Some acc
  | d :: t => if in_range 48 57 d then
                let acc' := acc * 10 + (d - 48) in
                if acc' <? U32 then parse_digits acc' t else None
              else None
  end.
Definition parse_u32 (s : bytes) : option N :=
  match s with
  | [] => None
  | 43 :: [] => None
  | 43 :: t => parse_digits 0 t
  | _ => parse_digits 0 s
  end.

(** [creation_time]: MP4 epoch to Unix epoch *)
Definition creation_time (t : N) : N := if 2082844800 <=? t then t - 2082844800 else t.
