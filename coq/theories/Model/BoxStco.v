(** stco.rs *)
From MP4 Require Export TblPrim BoxCo64.
Open Scope string_scope.
Open Scope list_scope.
Open Scope N_scope.

Record stco := mkStco { stco_version : N; stco_flags : N; stco_entries : list N }.

Definition stco_default : stco := mkStco 0 0 [].

Definition stco_size (v : stco) : N :=
  HEADER_SIZE + HEADER_EXT_SIZE + 4 + (4 * lenN (stco_entries v)).

Definition stco_wf (v : stco) : bool :=
  ufit 1 (stco_version v) && ufit 3 (stco_flags v)
  && ufit 4 (lenN (stco_entries v)) && forallb (ufit 4) (stco_entries v).

Definition dec_stco (m : mode) (size : N) : prog stco :=
  start <- box_start m ;;
  '(version, flags) <- read_header_ext ;;
  let header_size := HEADER_SIZE + HEADER_EXT_SIZE in
  let other_size := 4 in
  let entry_size := 4 in
  entry_count <- rd_u32 ;;
  if (size - header_size - other_size) / entry_size <? entry_count then Throw EData else
  alloc (entry_count * 4) ;;;
  entries <- rd_n (N.to_nat entry_count) rd_u32 ;;
  e <- add64 m "stco start+size" start size ;;
  skip_bytes_to e ;;;
  Ret (mkStco version flags entries).

Open Scope wprog_scope.
Definition enc_stco (v : stco) : wprog N :=
  let size := stco_size v in
  write_header (box_type_of "StcoBox") size ;;;
  write_header_ext (stco_version v) (stco_flags v) ;;;
  wr_u32 (cast_w U32 (lenN (stco_entries v))) ;;;
  tbl_wr_each wr_u32 (stco_entries v) ;;;
  WRet size.
Close Scope wprog_scope.

(** [impl TryFrom<&Co64Box> for StcoBox]: [u32::try_from] on every entry, collected into a
    [Result<Vec<_>, _>] (the first entry that does not fit makes the whole conversion fail) *)
Fixpoint stco_try_entries (l : list N) : option (list N) :=
  match l with
  | [] => Some []
  | x :: t => if x <? U32 then
                match stco_try_entries t with Some r => Some (x :: r) | None => None end
              else None
  end.

Definition stco_of_co64 (c : co64) : option stco :=
  match stco_try_entries (co64_entries c) with
  | Some es => Some (mkStco 0 0 es)
  | None => None
  end.

Definition show_stco (v : stco) : tree :=
  TRec "StcoBox" [("version", TNum (stco_version v)); ("flags", TNum (stco_flags v));
                  ("entries", tnums (stco_entries v))].

Example stco_smoke :
  let v := mkStco 0 0 [48; 1048; 4294967295] in
  fst (run (h <- read_header ;; dec_stco Dbg (snd h)) (stream_at (wout (enc_stco v)) 0)) = Ok v.
Proof. vm_compute. reflexivity. Qed.
