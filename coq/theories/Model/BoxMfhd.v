(** mfhd.rs *)
From MP4 Require Export Tree.
Open Scope string_scope.
Open Scope list_scope.
Open Scope N_scope.

Record mfhd := mkMfhd { mfhd_version : N; mfhd_flags : N; mfhd_sequence_number : N }.

Definition mfhd_default : mfhd := mkMfhd 0 0 1.

Definition mfhd_size (v : mfhd) : N := HEADER_SIZE + HEADER_EXT_SIZE + 4.

Definition mfhd_wf (v : mfhd) : bool :=
  ufit 1 (mfhd_version v) && ufit 3 (mfhd_flags v) && ufit 4 (mfhd_sequence_number v).

Definition dec_mfhd (m : mode) (size : N) : prog mfhd :=
  start <- box_start m ;;
  '(version, flags) <- read_header_ext ;;
  sequence_number <- rd_u32 ;;
  e <- add64 m "mfhd start+size" start size ;;
  skip_bytes_to e ;;;
  Ret (mkMfhd version flags sequence_number).

Open Scope wprog_scope.
Definition enc_mfhd (v : mfhd) : wprog N :=
  let size := mfhd_size v in
  write_header (box_type_of "MfhdBox") size ;;;
  write_header_ext (mfhd_version v) (mfhd_flags v) ;;;
  wr_u32 (mfhd_sequence_number v) ;;;
  WRet size.
Close Scope wprog_scope.

Definition show_mfhd (v : mfhd) : tree :=
  TRec "MfhdBox" [("version", TNum (mfhd_version v)); ("flags", TNum (mfhd_flags v));
                  ("sequence_number", TNum (mfhd_sequence_number v))].
