(** * Helper shared by the sample-table box models (stts, ctts, stsc, stsz, stss, stco, co64, elst):
      the write loop [for x in v.iter() { write(x)?; }] (one stream call per written field, in order). *)
From MP4 Require Export Tree.
Open Scope string_scope.
Open Scope list_scope.
Open Scope N_scope.

Fixpoint tbl_wr_each {A} (f : A -> wprog unit) (l : list A) : wprog unit :=
  match l with
  | [] => WRet tt
  | x :: t => wbind (f x) (fun _ => tbl_wr_each f t)
  end.
