(** hdlr.rs *)
From MP4 Require Export Tree VlLib.
Open Scope string_scope.
Open Scope list_scope.
Open Scope N_scope.

Record hdlr := mkHdlr {
  hdlr_version : N;
  hdlr_flags : N;
  hdlr_handler_type : N;     (* FourCC *)
  hdlr_name : bytes          (* String *)
}.

(** [#[derive(Default)]] *)
Definition hdlr_default : hdlr := mkHdlr 0 0 0 [].

Definition hdlr_size (v : hdlr) : N :=
  HEADER_SIZE + HEADER_EXT_SIZE + 20 + lenN (hdlr_name v) + 1.

(** the name is written followed by one NUL and read back up to the first NUL, through
    [String::from_utf8] *)
Definition hdlr_wf (v : hdlr) : bool :=
  ufit 1 (hdlr_version v) && ufit 3 (hdlr_flags v) && ufit 4 (hdlr_handler_type v)
  && vl_str_ok (hdlr_name v).

Definition dec_hdlr (m : mode) (size : N) : prog hdlr :=
  start <- box_start m ;;
  '(version, flags) <- read_header_ext ;;
  _ <- rd_u32 ;;                                   (* pre-defined *)
  handler <- rd_u32 ;;
  skip_bytes 12 ;;;                                (* reserved *)
  match checked_sub size (HEADER_SIZE + HEADER_EXT_SIZE + 20) with
  | None => Throw EData
  | Some buf_size =>
      buf <- rd_vec buf_size ;;
      let handler_string := vl_utf8_or_default (vl_trim_nul buf) in
      e <- add64 m "hdlr start+size" start size ;;
      skip_bytes_to e ;;;
      Ret (mkHdlr version flags handler handler_string)
  end.

Open Scope wprog_scope.
Definition enc_hdlr (v : hdlr) : wprog N :=
  let size := hdlr_size v in
  write_header (box_type_of "HdlrBox") size ;;;
  write_header_ext (hdlr_version v) (hdlr_flags v) ;;;
  wr_u32 0 ;;;                                     (* pre-defined *)
  wr_u32 (hdlr_handler_type v) ;;;
  wr_u32 0 ;;; wr_u32 0 ;;; wr_u32 0 ;;;           (* for _ in 0..3 *)
  wr (hdlr_name v) ;;;
  wr_u8 0 ;;;
  WRet size.
Close Scope wprog_scope.

Definition show_hdlr (v : hdlr) : tree :=
  TRec "HdlrBox" [("version", TNum (hdlr_version v)); ("flags", TNum (hdlr_flags v));
                  ("handler_type", TFourCC (hdlr_handler_type v));
                  ("name", TStr (hdlr_name v))].

Example hdlr_smoke :
  let v := mkHdlr 0 0 0x76696465 [86; 105; 100; 101; 111] in
  fst (run (h <- read_header ;; dec_hdlr Dbg (snd h)) (stream_at (wout (enc_hdlr v)) 0)) = Ok v.
Proof. vm_compute. reflexivity. Qed.
