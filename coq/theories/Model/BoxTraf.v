(** traf.rs: [TrafBox] *)
From MP4 Require Export Loop BoxTfhd BoxTfdt BoxTrun.
Open Scope string_scope.
Open Scope list_scope.
Open Scope N_scope.

Record traf := mkTraf {
  traf_tfhd : tfhd;
  traf_tfdt : option tfdt;
  traf_trun : option trun }.

(** [#[derive(Default)]] *)
Definition traf_default : traf := mkTraf tfhd_default None None.

Definition traf_size (v : traf) : N :=
  HEADER_SIZE + tfhd_size (traf_tfhd v)
  + match traf_tfdt v with Some x => tfdt_size x | None => 0 end
  + match traf_trun v with Some x => trun_size x | None => 0 end.

Definition traf_wf (v : traf) : bool :=
  tfhd_wf (traf_tfhd v)
  && match traf_tfdt v with Some x => tfdt_wf x | None => true end
  && match traf_trun v with Some x => trun_wf x | None => true end.

Definition traf_acc : Type := option tfhd * option tfdt * option trun.

Definition traf_dispatch (m : mode) (fuel : nat) (name : boxtype) (s : N) (a : traf_acc) : prog traf_acc :=
  let '(fh, fd, ru) := a in
  match name with
  | TfhdBox => x <- dec_tfhd m s ;; Ret (Some x, fd, ru)
  | TfdtBox => x <- dec_tfdt m s ;; Ret (fh, Some x, ru)
  | TrunBox => x <- dec_trun m s ;; Ret (fh, fd, Some x)
  | _ => skip_box m s ;;; Ret a
  end.

Definition dec_traf_fuel (fuel : nat) (m : mode) (size : N) : prog traf :=
  start <- box_start m ;;
  current <- get_pos ;;
  end_ <- add64 m "traf start+size" start size ;;
  a <- children_loop fuel m (Some size) true end_ (traf_dispatch m) (None, None, None) current ;;
  let '(fh, fd, ru) := a in
  match fh with
  | Some h =>
      e <- add64 m "traf start+size" start size ;;
      skip_bytes_to e ;;;
      Ret (mkTraf h fd ru)
  | None => Throw EData                            (* BoxNotFound(TfhdBox) *)
  end.

Open Scope wprog_scope.
Definition enc_traf (v : traf) : wprog N :=
  let size := traf_size v in
  write_header (box_type_of "TrafBox") size ;;;
  enc_tfhd (traf_tfhd v) ;;;
  match traf_tfdt v with Some x => enc_tfdt x ;;; WRet tt | None => WRet tt end ;;;
  match traf_trun v with Some x => enc_trun x ;;; WRet tt | None => WRet tt end ;;;
  WRet size.
Close Scope wprog_scope.

Definition show_traf (v : traf) : tree :=
  TRec "TrafBox" [("tfhd", show_tfhd (traf_tfhd v));
                  ("tfdt", topt show_tfdt (traf_tfdt v));
                  ("trun", topt show_trun (traf_trun v))].

Definition traf_test : traf :=
  mkTraf (mkTfhd 0 (tfhd_FLAG_DEFAULT_SAMPLE_DURATION + tfhd_FLAG_DEFAULT_BASE_IS_MOOF) 1
                 None None (Some 1000) None None)
         (Some (mkTfdt 1 0 5000))
         (Some (mkTrun 0 (trun_FLAG_DATA_OFFSET + trun_FLAG_SAMPLE_SIZE) 2 (Some 100%Z) None [] [10; 20] [] [])).

Example traf_smoke :
  fst (run (h <- read_header ;; dec_traf_fuel 5 Dbg (snd h)) (stream_at (wout (enc_traf traf_default)) 0))
  = Ok traf_default
  /\ fst (run (h <- read_header ;; dec_traf_fuel 5 Dbg (snd h)) (stream_at (wout (enc_traf traf_test)) 0))
     = Ok traf_test.
Proof. vm_compute. split; reflexivity. Qed.
