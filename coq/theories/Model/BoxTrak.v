(** trak.rs: [TrakBox] *)
From MP4 Require Export BoxMdia BoxEdts BoxMeta BoxTkhd.
Open Scope string_scope.
Open Scope list_scope.
Open Scope N_scope.

Record trak := mkTrak {
  trak_tkhd : tkhd;
  trak_edts : option edts;
  trak_meta : option meta;
  trak_mdia : mdia }.

(** [#[derive(Default)]] *)
Definition trak_default : trak := mkTrak tkhd_default None None mdia_default.

(** [get_size] adds tkhd, edts, mdia, meta (the order [write_box] uses) *)
Definition trak_size (v : trak) : N :=
  HEADER_SIZE
  + tkhd_size (trak_tkhd v)
  + match trak_edts v with Some x => edts_size x | None => 0 end
  + mdia_size (trak_mdia v)
  + match trak_meta v with Some x => meta_size x | None => 0 end.

Definition trak_wf (v : trak) : bool :=
  tkhd_wf (trak_tkhd v)
  && match trak_edts v with Some x => edts_wf x | None => true end
  && match trak_meta v with Some x => meta_wf x | None => true end
  && mdia_wf (trak_mdia v).

Definition trak_acc : Type := option tkhd * option edts * option meta * option mdia.

Definition trak_dispatch (m : mode) (fuel : nat) (name : boxtype) (s : N) (a : trak_acc) : prog trak_acc :=
  let '(tk, ed, me, md) := a in
  match name with
  | TkhdBox => x <- dec_tkhd m s ;; Ret (Some x, ed, me, md)
  | EdtsBox => x <- dec_edts_fuel fuel m s ;; Ret (tk, Some x, me, md)
  | MetaBox => x <- dec_meta_fuel fuel m s ;; Ret (tk, ed, Some x, md)
  | MdiaBox => x <- dec_mdia_fuel fuel m s ;; Ret (tk, ed, me, Some x)
  | _ => skip_box m s ;;; Ret a
  end.

Definition dec_trak_fuel (fuel : nat) (m : mode) (size : N) : prog trak :=
  start <- box_start m ;;
  current <- get_pos ;;
  end_ <- add64 m "trak start+size" start size ;;
  a <- children_loop fuel m (Some size) true end_ (trak_dispatch m) (None, None, None, None) current ;;
  let '(tk, ed, me, md) := a in
  match tk, md with
  | Some t, Some d =>
      e <- add64 m "trak start+size" start size ;;
      skip_bytes_to e ;;;
      Ret (mkTrak t ed me d)
  | _, _ => Throw EData                            (* BoxNotFound(TkhdBox / MdiaBox) *)
  end.

Open Scope wprog_scope.
Definition enc_trak (m : mode) (v : trak) : wprog N :=
  let size := trak_size v in
  write_header (box_type_of "TrakBox") size ;;;
  enc_tkhd (trak_tkhd v) ;;;
  match trak_edts v with Some x => enc_edts x ;;; WRet tt | None => WRet tt end ;;;
  enc_mdia m (trak_mdia v) ;;;
  match trak_meta v with Some x => enc_meta x ;;; WRet tt | None => WRet tt end ;;;
  WRet size.
Close Scope wprog_scope.

Definition show_trak (v : trak) : tree :=
  TRec "TrakBox" [("tkhd", show_tkhd (trak_tkhd v));
                  ("edts", topt show_edts (trak_edts v));
                  ("meta", topt show_meta (trak_meta v));
                  ("mdia", show_mdia (trak_mdia v))].

Definition trak_test : trak :=
  mkTrak (mkTkhd 0 tkhd_TrackEnabled 0 0 1 300 0 0 (fp8_new 1) matrix_default (fp16_new 320) (fp16_new 240))
         (Some (mkEdts (Some (mkElst 0 0 [mkElstEntry 300 0 1 0]))))
         None mdia_test.

Example trak_smoke :
  fst (run (h <- read_header ;; dec_trak_fuel 20 Dbg (snd h)) (stream_at (wout (enc_trak Dbg trak_test)) 0))
  = Ok trak_test.
Proof. vm_compute. reflexivity. Qed.

Example trak_smoke_meta :
  let v := mkTrak (trak_tkhd trak_test) None (Some meta_default) mdia_test in
  fst (run (h <- read_header ;; dec_trak_fuel 20 Rel (snd h)) (stream_at (wout (enc_trak Rel v)) 0)) = Ok v.
Proof. vm_compute. reflexivity. Qed.
