(** edts.rs: [EdtsBox] (one optional child; no child loop) *)
From MP4 Require Export Loop BoxElst.
Open Scope string_scope.
Open Scope list_scope.
Open Scope N_scope.

Record edts := mkEdts { edts_elst : option elst }.

(** [#[derive(Default)]] and [EdtsBox::new()] *)
Definition edts_default : edts := mkEdts None.
Definition edts_new : edts := edts_default.

Definition edts_size (v : edts) : N :=
  HEADER_SIZE + match edts_elst v with Some x => elst_size x | None => 0 end.

Definition edts_wf (v : edts) : bool :=
  match edts_elst v with Some x => elst_wf x | None => true end.

(** no loop, hence no fuel is consumed; the parameter keeps the container signature uniform *)
Definition dec_edts_fuel (fuel : nat) (m : mode) (size : N) : prog edts :=
  start <- box_start m ;;
  p <- get_pos ;;
  lhs <- add64 m "edts position+HEADER_SIZE" p HEADER_SIZE ;;
  rhs <- add64 m "edts start+size" start size ;;
  el <- (if lhs <=? rhs then
           '(name, s) <- read_header ;;
           if size <? s then Throw EData
           else
             match name with
             | ElstBox => x <- dec_elst m s ;; Ret (Some x)
             | _ => Ret None
             end
         else Ret None) ;;
  e <- add64 m "edts start+size" start size ;;
  skip_bytes_to e ;;;
  Ret (mkEdts el).

Open Scope wprog_scope.
Definition enc_edts (v : edts) : wprog N :=
  let size := edts_size v in
  write_header (box_type_of "EdtsBox") size ;;;
  match edts_elst v with Some x => enc_elst x ;;; WRet tt | None => WRet tt end ;;;
  WRet size.
Close Scope wprog_scope.

Definition show_edts (v : edts) : tree :=
  TRec "EdtsBox" [("elst", topt show_elst (edts_elst v))].

Example edts_smoke_empty :
  fst (run (h <- read_header ;; dec_edts_fuel 0 Dbg (snd h)) (stream_at (wout (enc_edts edts_default)) 0))
  = Ok edts_default.
Proof. vm_compute. reflexivity. Qed.

Example edts_smoke :
  let v := mkEdts (Some (mkElst 0 0 [mkElstEntry 1000 0 1 0])) in
  fst (run (h <- read_header ;; dec_edts_fuel 0 Dbg (snd h)) (stream_at (wout (enc_edts v)) 0)) = Ok v.
Proof. vm_compute. reflexivity. Qed.
