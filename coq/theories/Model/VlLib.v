(** Small helpers shared by the box models of ftyp, hdlr, emsg, data, dinf/dref/url, trun
    (worker [varleaf]).  Everything is prefixed [vl_]. *)
From MP4 Require Export Tree.
Open Scope string_scope.
Open Scope list_scope.
Open Scope N_scope.

(** [if let Some(end) = buf.iter().position(|&b| b == 0) { buf.truncate(end) }]:
    the bytes before the first NUL (structural in the buffer that was read) *)
Fixpoint vl_trim_nul (l : bytes) : bytes :=
  match l with
  | [] => []
  | b :: t => if b =? 0 then [] else b :: vl_trim_nul t
  end.

(** [String::from_utf8(buf).unwrap_or_default()] *)
Definition vl_utf8_or_default (l : bytes) : bytes := if utf8_valid l then l else [].

(** no NUL byte inside a string *)
Definition vl_no_nul (l : bytes) : bool := forallb (fun b => negb (b =? 0)) l.

(** a Rust [String] the decoders of these boxes can return: valid UTF-8 (in particular every
    element is a byte; stated separately so that nobody has to derive it) without a NUL *)
Definition vl_str_ok (l : bytes) : bool := bytes_ok l && utf8_valid l && vl_no_nul l.

(** [for x in v.iter() { f(x)?; }] on the write side *)
Fixpoint vl_wr_each {A} (f : A -> wprog unit) (l : list A) : wprog unit :=
  match l with
  | [] => WRet tt
  | x :: t => wbind (f x) (fun _ => vl_wr_each f t)
  end.
