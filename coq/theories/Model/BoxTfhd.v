(** tfhd.rs *)
From MP4 Require Export Tree.
From MP4 Require Tables.
Open Scope string_scope.
Open Scope list_scope.
Open Scope N_scope.

Record tfhd := mkTfhd {
  tfhd_version : N; tfhd_flags : N; tfhd_track_id : N;
  tfhd_base_data_offset : option N;
  tfhd_sample_description_index : option N;
  tfhd_default_sample_duration : option N;
  tfhd_default_sample_size : option N;
  tfhd_default_sample_flags : option N }.

(** the associated constants [TfhdBox::FLAG_*], as regenerated from the source *)
Definition tfhd_flag (name : string) : N :=
  match lookup_s name Tables.TfhdBox_flags with Some v => v | None => 0 end.
Definition tfhd_FLAG_BASE_DATA_OFFSET : N := tfhd_flag "FLAG_BASE_DATA_OFFSET".
Definition tfhd_FLAG_SAMPLE_DESCRIPTION_INDEX : N := tfhd_flag "FLAG_SAMPLE_DESCRIPTION_INDEX".
Definition tfhd_FLAG_DEFAULT_SAMPLE_DURATION : N := tfhd_flag "FLAG_DEFAULT_SAMPLE_DURATION".
Definition tfhd_FLAG_DEFAULT_SAMPLE_SIZE : N := tfhd_flag "FLAG_DEFAULT_SAMPLE_SIZE".
Definition tfhd_FLAG_DEFAULT_SAMPLE_FLAGS : N := tfhd_flag "FLAG_DEFAULT_SAMPLE_FLAGS".
Definition tfhd_FLAG_DURATION_IS_EMPTY : N := tfhd_flag "FLAG_DURATION_IS_EMPTY".
Definition tfhd_FLAG_DEFAULT_BASE_IS_MOOF : N := tfhd_flag "FLAG_DEFAULT_BASE_IS_MOOF".

(** [FLAG & flags > 0] *)
Definition tfhd_has (flag flags : N) : bool := 0 <? N.land flag flags.

(** derived [Default] *)
Definition tfhd_default : tfhd := mkTfhd 0 0 0 None None None None None.

Definition tfhd_size (v : tfhd) : N :=
  HEADER_SIZE + HEADER_EXT_SIZE + 4
  + (if tfhd_has tfhd_FLAG_BASE_DATA_OFFSET (tfhd_flags v) then 8 else 0)
  + (if tfhd_has tfhd_FLAG_SAMPLE_DESCRIPTION_INDEX (tfhd_flags v) then 4 else 0)
  + (if tfhd_has tfhd_FLAG_DEFAULT_SAMPLE_DURATION (tfhd_flags v) then 4 else 0)
  + (if tfhd_has tfhd_FLAG_DEFAULT_SAMPLE_SIZE (tfhd_flags v) then 4 else 0)
  + (if tfhd_has tfhd_FLAG_DEFAULT_SAMPLE_FLAGS (tfhd_flags v) then 4 else 0).

(** an optional field is present exactly when its flag bit is set, and fits its width *)
Definition tfhd_opt_wf (flag flags : N) (w : nat) (o : option N) : bool :=
  match o with
  | Some x => tfhd_has flag flags && ufit w x
  | None => negb (tfhd_has flag flags)
  end.

Definition tfhd_wf (v : tfhd) : bool :=
  ufit 1 (tfhd_version v) && ufit 3 (tfhd_flags v) && ufit 4 (tfhd_track_id v)
  && tfhd_opt_wf tfhd_FLAG_BASE_DATA_OFFSET (tfhd_flags v) 8 (tfhd_base_data_offset v)
  && tfhd_opt_wf tfhd_FLAG_SAMPLE_DESCRIPTION_INDEX (tfhd_flags v) 4 (tfhd_sample_description_index v)
  && tfhd_opt_wf tfhd_FLAG_DEFAULT_SAMPLE_DURATION (tfhd_flags v) 4 (tfhd_default_sample_duration v)
  && tfhd_opt_wf tfhd_FLAG_DEFAULT_SAMPLE_SIZE (tfhd_flags v) 4 (tfhd_default_sample_size v)
  && tfhd_opt_wf tfhd_FLAG_DEFAULT_SAMPLE_FLAGS (tfhd_flags v) 4 (tfhd_default_sample_flags v).

(** [if FLAG & flags > 0 { Some(read()?) } else { None }] *)
Definition tfhd_rd_opt (flag flags : N) (rd : prog N) : prog (option N) :=
  if tfhd_has flag flags then x <- rd ;; Ret (Some x) else Ret None.

Definition dec_tfhd (m : mode) (size : N) : prog tfhd :=
  start <- box_start m ;;
  '(version, flags) <- read_header_ext ;;
  track_id <- rd_u32 ;;
  bdo <- tfhd_rd_opt tfhd_FLAG_BASE_DATA_OFFSET flags rd_u64 ;;
  sdi <- tfhd_rd_opt tfhd_FLAG_SAMPLE_DESCRIPTION_INDEX flags rd_u32 ;;
  dsd <- tfhd_rd_opt tfhd_FLAG_DEFAULT_SAMPLE_DURATION flags rd_u32 ;;
  dss <- tfhd_rd_opt tfhd_FLAG_DEFAULT_SAMPLE_SIZE flags rd_u32 ;;
  dsf <- tfhd_rd_opt tfhd_FLAG_DEFAULT_SAMPLE_FLAGS flags rd_u32 ;;
  e <- add64 m "tfhd start+size" start size ;;
  skip_bytes_to e ;;;
  Ret (mkTfhd version flags track_id bdo sdi dsd dss dsf).

(** [if let Some(x) = field { write(x)? }] *)
Definition tfhd_wr_opt (w : nat) (o : option N) : wprog unit :=
  match o with Some x => wr_u w x | None => WRet tt end.

Open Scope wprog_scope.
Definition enc_tfhd (v : tfhd) : wprog N :=
  let size := tfhd_size v in
  write_header (box_type_of "TfhdBox") size ;;;
  write_header_ext (tfhd_version v) (tfhd_flags v) ;;;
  wr_u32 (tfhd_track_id v) ;;;
  tfhd_wr_opt 8 (tfhd_base_data_offset v) ;;;
  tfhd_wr_opt 4 (tfhd_sample_description_index v) ;;;
  tfhd_wr_opt 4 (tfhd_default_sample_duration v) ;;;
  tfhd_wr_opt 4 (tfhd_default_sample_size v) ;;;
  tfhd_wr_opt 4 (tfhd_default_sample_flags v) ;;;
  WRet size.
Close Scope wprog_scope.

Definition show_tfhd (v : tfhd) : tree :=
  TRec "TfhdBox" [("version", TNum (tfhd_version v)); ("flags", TNum (tfhd_flags v));
                  ("track_id", TNum (tfhd_track_id v));
                  ("base_data_offset", topt TNum (tfhd_base_data_offset v));
                  ("sample_description_index", topt TNum (tfhd_sample_description_index v));
                  ("default_sample_duration", topt TNum (tfhd_default_sample_duration v));
                  ("default_sample_size", topt TNum (tfhd_default_sample_size v));
                  ("default_sample_flags", topt TNum (tfhd_default_sample_flags v))].
