(** ctts.rs *)
From MP4 Require Export TblPrim.
Open Scope string_scope.
Open Scope list_scope.
Open Scope N_scope.

Record ctts_entry := mkCttsEntry { ctts_e_sample_count : N; ctts_e_sample_offset : Z }.

Record ctts := mkCtts { ctts_version : N; ctts_flags : N; ctts_entries : list ctts_entry }.

Definition ctts_entry_default : ctts_entry := mkCttsEntry 0 0%Z.
Definition ctts_default : ctts := mkCtts 0 0 [].

Definition ctts_size (v : ctts) : N :=
  HEADER_SIZE + HEADER_EXT_SIZE + 4 + (8 * lenN (ctts_entries v)).

Definition ctts_entry_wf (e : ctts_entry) : bool :=
  ufit 4 (ctts_e_sample_count e) && sfit 4 (ctts_e_sample_offset e).

Definition ctts_wf (v : ctts) : bool :=
  ufit 1 (ctts_version v) && ufit 3 (ctts_flags v)
  && ufit 4 (lenN (ctts_entries v)) && forallb ctts_entry_wf (ctts_entries v).

Definition ctts_rd_entry : prog ctts_entry :=
  c <- rd_u32 ;; o <- rd_i32 ;; Ret (mkCttsEntry c o).

Definition dec_ctts (m : mode) (size : N) : prog ctts :=
  start <- box_start m ;;
  '(version, flags) <- read_header_ext ;;
  let header_size := HEADER_SIZE + HEADER_EXT_SIZE in
  entry_count <- rd_u32 ;;
  let entry_size := 4 + 4 in
  let other_size := 4 in
  if (size - header_size - other_size) / entry_size <? entry_count then Throw EData else
  alloc (entry_count * 8) ;;;
  entries <- rd_n (N.to_nat entry_count) ctts_rd_entry ;;
  e <- add64 m "ctts start+size" start size ;;
  skip_bytes_to e ;;;
  Ret (mkCtts version flags entries).

Open Scope wprog_scope.
Definition ctts_wr_entry (e : ctts_entry) : wprog unit :=
  wr_u32 (ctts_e_sample_count e) ;;; wr_i32 (ctts_e_sample_offset e).

Definition enc_ctts (v : ctts) : wprog N :=
  let size := ctts_size v in
  write_header (box_type_of "CttsBox") size ;;;
  write_header_ext (ctts_version v) (ctts_flags v) ;;;
  wr_u32 (cast_w U32 (lenN (ctts_entries v))) ;;;
  tbl_wr_each ctts_wr_entry (ctts_entries v) ;;;
  WRet size.
Close Scope wprog_scope.

Definition show_ctts_entry (e : ctts_entry) : tree :=
  TRec "CttsEntry" [("sample_count", TNum (ctts_e_sample_count e));
                    ("sample_offset", TInt (ctts_e_sample_offset e))].

Definition show_ctts (v : ctts) : tree :=
  TRec "CttsBox" [("version", TNum (ctts_version v)); ("flags", TNum (ctts_flags v));
                  ("entries", TList (map show_ctts_entry (ctts_entries v)))].

Example ctts_smoke :
  let v := mkCtts 1 0 [mkCttsEntry 3 (-1000)%Z; mkCttsEntry 1 512%Z] in
  fst (run (h <- read_header ;; dec_ctts Dbg (snd h)) (stream_at (wout (enc_ctts v)) 0)) = Ok v.
Proof. vm_compute. reflexivity. Qed.
