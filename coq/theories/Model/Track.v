(** * Sample lookup (model of the read side of src/track.rs, after the fix: commits)

    [Mp4Track]'s lookup functions only look at a handful of fields of the
    parsed boxes; the model works on that view ([tables] for the sample-table
    boxes, [fragrun] for one track fragment).  [Reader.v] builds the views
    from the parsed box records. *)
From MP4 Require Export Prim.
Open Scope string_scope.
Open Scope list_scope.
Open Scope N_scope.

Record stsc_entry := mkStsc {
  sc_first_chunk : N; sc_samples_per_chunk : N; sc_sample_description_index : N; sc_first_sample : N }.

Record tables := mkTables {
  t_stsc : list stsc_entry;
  t_stsz_size : N;            (* stsz.sample_size *)
  t_stsz_count : N;           (* stsz.sample_count *)
  t_stsz_sizes : list N;      (* stsz.sample_sizes *)
  t_stco : option (list N);
  t_co64 : option (list N);
  t_stts : list (N * N);      (* (sample_count, sample_delta) *)
  t_ctts : option (list (N * Z));  (* (sample_count, sample_offset) *)
  t_stss : option (list N)
}.

(** one [TrafBox] as the lookups see it, with the offset of its moof *)
Record fragrun := mkFragrun {
  fr_moof_offset : N;
  fr_base_data_offset : option N;          (* tfhd.base_data_offset *)
  fr_default_duration : option N;          (* tfhd.default_sample_duration *)
  fr_tfdt : option N;                      (* tfdt.base_media_decode_time *)
  fr_has_trun : bool;
  fr_flags : N;                            (* trun.flags *)
  fr_sample_count : N;                     (* trun.sample_count *)
  fr_data_offset : option Z;               (* trun.data_offset *)
  fr_durations : list N;
  fr_sizes : list N;
  fr_cts : list N
}.

Record track := mkTrack {
  tr_id : N;
  tr_tables : tables;
  tr_frags : list fragrun;            (* trafs with moof_offsets, in file order *)
  tr_default_sample_duration : N      (* from mvex/trex *)
}.

Record sample := mkSample {
  sm_start_time : N; sm_duration : N; sm_rendering_offset : Z; sm_is_sync : bool; sm_bytes : bytes }.

Definition FLAG_SAMPLE_DURATION : N :=
  match lookup_s "FLAG_SAMPLE_DURATION" Tables.TrunBox_flags with Some v => v | None => 0 end.

Section WithMode.
  Variable m : mode.

  (** ** [sample_count] *)
  Definition frag_sample_count (fs : list fragrun) : N :=
    fold_left (fun acc f => if fr_has_trun f then sat_add U32 acc (fr_sample_count f) else acc) fs 0.

  Definition sample_count (t : track) : N :=
    match tr_frags t with
    | [] => t_stsz_count (tr_tables t)
    | fs => frag_sample_count fs
    end.

  (** ** [stsc_index] *)
  Fixpoint stsc_index_from (es : list stsc_entry) (i last : N) (sid : N) : res N :=
    match es with
    | [] => Ok last
    | e :: t =>
        if sid <? sc_first_sample e then (if i =? 0 then Err EData else Ok (i - 1))
        else stsc_index_from t (i + 1) i sid
    end.
  Definition stsc_index (tb : tables) (sid : N) : res N :=
    match t_stsc tb with
    | [] => Err EData
    | es => stsc_index_from es 0 0 sid
    end.

  (** ** [chunk_offset] *)
  Definition chunk_offset (tb : tables) (chunk_id : N) : res N :=
    match t_stco tb, t_co64 tb with
    | None, None => Err EData
    | Some stco, _ =>
        match checked_sub chunk_id 1 with
        | Some i => match nthN stco i with Some o => Ok o | None => Err ENotFound end
        | None => Err ENotFound
        end
    | None, Some co64 =>
        match checked_sub chunk_id 1 with
        | Some i => match nthN co64 i with Some o => Ok o | None => Err ENotFound end
        | None => Err ENotFound
        end
    end.

  (** ** [ctts_index] *)
  Fixpoint ctts_index_from (es : list (N * Z)) (i : N) (sample_count : N) (sid : N) : res (N * N) :=
    match es with
    | [] => Err ENotFound
    | (cnt, _) :: t =>
        match checked_add U32 sample_count cnt with
        | None => Err EData
        | Some next => if sid <? next then Ok (i, sample_count) else ctts_index_from t (i + 1) next sid
        end
    end.

  (** ** [find_traf_idx_and_sample_idx] *)
  Fixpoint find_traf_from (fs : list fragrun) (idx : N) (offset : N) (global_idx : N) : option (N * N) :=
    match fs with
    | [] => None
    | f :: t =>
        if fr_has_trun f then
          (* [global_idx - offset] cannot underflow: offset <= global_idx is a loop invariant *)
          if global_idx - offset <? fr_sample_count f then Some (idx, global_idx - offset)
          else match checked_add U32 offset (fr_sample_count f) with
               | Some o => find_traf_from t (idx + 1) o global_idx
               | None => None
               end
        else find_traf_from t (idx + 1) offset global_idx
    end.
  Definition find_traf (t : track) (sid : N) : option (N * N) :=
    match checked_sub sid 1 with
    | Some g => find_traf_from (tr_frags t) 0 0 g
    | None => None
    end.

  (** ** [sample_size] *)
  Definition sample_size (t : track) (sid : N) : res N :=
    match tr_frags t with
    | [] =>
        let tb := tr_tables t in
        if 0 <? t_stsz_size tb then Ok (t_stsz_size tb)
        else match checked_sub sid 1 with
             | Some i => match nthN (t_stsz_sizes tb) i with Some s => Ok s | None => Err ENotFound end
             | None => Err ENotFound
             end
    | fs =>
        match find_traf t sid with
        | Some (ti, si) =>
            match nthN fs ti with
            | Some f => match nthN (fr_sizes f) si with
                        | Some s => Ok s
                        | None => Err EData   (* EntryInTrunNotFound *)
                        end
            | None => Panic "trafs index"
            end
        | None => Err EData                  (* BoxInTrafNotFound *)
        end
    end.

  (** the loop [for i in first..sample_id { offset += sample_size(i)? }] over the per-sample table *)
  Fixpoint sum_sizes (l : list N) (cnt : N) (acc : N) : res N :=
    if cnt =? 0 then Ok acc
    else match l with
         | [] => Err ENotFound
         | x :: t => sum_sizes t (cnt - 1) (acc + x)
         end.

  (** the loop over [trun.sample_sizes] in the fragmented branch *)
  Fixpoint sum_run_sizes (l : list N) (cnt : N) (acc : N) : res N :=
    if cnt =? 0 then Ok acc
    else match l with
         | [] => Err EData                    (* EntryInTrunNotFound *)
         | x :: t => match checked_add U64 acc x with
                     | Some a => sum_run_sizes t (cnt - 1) a
                     | None => Err EData
                     end
         end.

  (** ** [sample_offset] *)
  Definition sample_offset (t : track) (sid : N) : res N :=
    match tr_frags t with
    | [] =>
        let tb := tr_tables t in
        res_bind (stsc_index tb sid) (fun idx =>
        match nthN (t_stsc tb) idx with
        | None => Panic "stsc entries.get(stsc_index).unwrap()"
        | Some e =>
            let first_chunk := sc_first_chunk e in
            let first_sample := sc_first_sample e in
            let spc := sc_samples_per_chunk e in
            if spc =? 0 then Err EData else
            match checked_sub sid first_sample with
            | None => Err EData
            | Some d =>
                match checked_add U32 (d / spc) first_chunk with
                | None => Err EData
                | Some chunk_id =>
                    res_bind (chunk_offset tb chunk_id) (fun coff =>
                    res_bind (sub_w m U32 "sample_id - first_sample" sid first_sample) (fun d' =>
                    res_bind (sub_w m U32 "sample_id - rem" sid (d' mod spc)) (fun fsic =>
                    res_bind (if 0 <? t_stsz_size tb
                              then res_bind (sub_w m U32 "sample_id - first_in_chunk" sid fsic) (fun k =>
                                   mul_w m U64 "in-chunk offset" k (t_stsz_size tb))
                              else match checked_sub fsic 1 with
                                   | Some skip => sum_sizes (dropN skip (t_stsz_sizes tb)) (sid - fsic) 0
                                   | None => if sid - fsic =? 0 then Ok 0 else Err ENotFound
                                   end) (fun inchunk =>
                    match checked_add U64 coff inchunk with
                    | Some o => Ok o
                    | None => Err EData
                    end))))
                end
            end
        end)
    | fs =>
        match find_traf t sid with
        | None => Err EData
        | Some (ti, si) =>
            match nthN fs ti with
            | None => Panic "trafs index"
            | Some f =>
                let base := match fr_base_data_offset f with Some b => b | None => fr_moof_offset f end in
                res_bind
                  (match (if fr_has_trun f then fr_data_offset f else None) with
                   | Some d =>
                       let s := (Z.of_N base + d)%Z in
                       if ((s <? 0) || (Z.of_N U64 <=? s))%Z then Err EData else Ok (Z.to_N s)
                   | None => Ok base
                   end) (fun off =>
                res_bind (sub_w m U32 "sample_id - sample_idx" sid (cast_w U32 si)) (fun _ =>
                sum_run_sizes (if fr_has_trun f then fr_sizes f else []) si off))
            end
        end
    end.

  (** ** [sample_time] *)
  Fixpoint stts_scan (es : list (N * N)) (sample_count elapsed : N) (sid : N) : res (N * N) :=
    match es with
    | [] => Err ENotFound
    | (cnt, delta) :: t =>
        match checked_add U32 sample_count cnt with
        | None => Err EData
        | Some next =>
            if sid <? next then
              res_bind (sub_w m U32 "sample_id - sample_count" sid sample_count) (fun k =>
              res_bind (mul_w m U64 "k * delta" k delta) (fun kd =>
              res_bind (add_w m U64 "start_time" kd elapsed) (fun st => Ok (st, delta))))
            else
              res_bind (mul_w m U64 "count * delta" cnt delta) (fun cd =>
              res_bind (add_w m U64 "elapsed" elapsed cd) (fun e' => stts_scan t next e' sid))
        end
    end.

  (** [for d in &sample_durations[..sample_idx]]: the slice expression panics first if it is out of range *)
  Fixpoint sum_durations_go (l : list N) (cnt : N) (acc : N) : res N :=
    if cnt =? 0 then Ok acc
    else match l with
         | [] => Ok acc
         | x :: t => match checked_add U64 acc x with
                     | Some a => sum_durations_go t (cnt - 1) a
                     | None => Err EData
                     end
         end.
  Definition sum_durations (l : list N) (cnt : N) (acc : N) : res N :=
    if lenN l <? cnt then Panic "sample_durations[..sample_idx]" else sum_durations_go l cnt acc.

  Definition sample_time (t : track) (sid : N) : res (N * N) :=
    match tr_frags t with
    | [] => stts_scan (t_stts (tr_tables t)) 1 0 sid
    | fs =>
        let found := find_traf t sid in
        let idx_in_run := match found with Some (_, si) => si | None => sid - 1 (* saturating *) end in
        let frag := match found with Some (ti, _) => nthN fs ti | None => None end in
        match found, frag with
        | Some _, None => Panic "trafs index"
        | _, _ =>
          let base := match frag with Some f => match fr_tfdt f with Some b => b | None => 0 end | None => 0 end in
          let dflt := match frag with
                      | Some f => match fr_default_duration f with Some d => d | None => tr_default_sample_duration t end
                      | None => tr_default_sample_duration t
                      end in
          let per_sample := match frag with
                            | Some f => fr_has_trun f && negb (N.land FLAG_SAMPLE_DURATION (fr_flags f) =? 0)
                            | None => false
                            end in
          if per_sample then
            match frag with
            | Some f =>
                res_bind (sum_durations (fr_durations f) idx_in_run 0) (fun so =>
                match nthN (fr_durations f) idx_in_run with
                | None => Panic "sample_durations[sample_idx]"
                | Some d =>
                    match checked_add U64 base so with
                    | Some st => Ok (st, d)
                    | None => Err EData
                    end
                end)
            | None => Panic "unreachable"
            end
          else
            res_bind (mul_w m U64 "idx_in_run * default" idx_in_run dflt) (fun so =>
            match checked_add U64 base so with
            | Some st => Ok (st, dflt)
            | None => Err EData
            end)
        end
    end.

  (** ** [sample_rendering_offset] *)
  Definition sample_rendering_offset (t : track) (sid : N) : Z :=
    match tr_frags t with
    | [] =>
        match t_ctts (tr_tables t) with
        | Some es =>
            match ctts_index_from es 0 1 sid with
            | Ok (i, _) => match nthN es i with Some (_, o) => o | None => 0%Z end
            | _ => 0%Z
            end
        | None => 0%Z
        end
    | fs =>
        match find_traf t sid with
        | Some (ti, si) =>
            match nthN fs ti with
            | Some f => match (if fr_has_trun f then nthN (fr_cts f) si else None) with
                        | Some c => to_signed 32 c     (* [*cts as i32] *)
                        | None => 0%Z
                        end
            | None => 0%Z
            end
        | None => 0%Z
        end
    end.

  (** ** [is_sync_sample]; [slice::binary_search] as implemented in the toolchain's core library
      (branchless halving, one final comparison) *)
  Fixpoint bsearch_loop (fuel : nat) (l : list N) (base size : N) (x : N) : N :=
    match fuel with
    | O => base
    | S f =>
        if size <=? 1 then base
        else
          let half := size / 2 in
          let mid := base + half in
          let base' := match nthN l mid with
                       | Some y => if x <? y then base else mid
                       | None => base
                       end in
          bsearch_loop f l base' (size - half) x
    end.
  Definition binary_search_ok (l : list N) (x : N) : bool :=
    match l with
    | [] => false
    | _ => let b := bsearch_loop (S (length l)) l 0 (lenN l) x in
           match nthN l b with Some y => y =? x | None => false end
    end.

  Definition is_sync_sample (t : track) (sid : N) : res bool :=
    match tr_frags t with
    | [] =>
        match t_stss (tr_tables t) with
        | Some es => Ok (binary_search_ok es sid)
        | None => Ok true
        end
    | fs =>
        let c := sample_count t / cast_w U32 (lenN fs) in   (* trafs non-empty: no division by zero *)
        if c =? 0 then Ok (sid =? 1)
        else Ok ((sid =? 1) || (sid mod c =? 0))
    end.

  (** ** [read_sample] *)
  Definition read_sample (t : track) (sid : N) : prog (option sample) :=
    match sample_offset t sid with
    | Err ENotFound => Ret None
    | Err e => Throw e
    | Panic s => Crash s
    | OutOfFuel => Spin
    | Ok off =>
        match sample_size t sid with
        | Err ENotFound => Ret None
        | Err e => Throw e
        | Panic s => Crash s
        | OutOfFuel => Spin
        | Ok sz =>
            seek_to off ;;;
            (* [take(size).read_to_end]: the buffer grows with the data actually delivered *)
            buf <- rd_exact sz ;;
            alloc (2 * sz + 32) ;;;
            '(st, dur) <- lift (sample_time t sid) ;;
            sync <- lift (is_sync_sample t sid) ;;
            Ret (Some (mkSample st dur (sample_rendering_offset t sid) sync buf))
        end
    end.
End WithMode.
