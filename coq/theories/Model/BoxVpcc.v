(** vpcc.rs *)
From MP4 Require Export Tree VlLib.
Open Scope string_scope.
Open Scope list_scope.
Open Scope N_scope.

Record vpcc := mkVpcc {
  vpcc_version : N;
  vpcc_flags : N;
  vpcc_profile : N;
  vpcc_level : N;
  vpcc_bit_depth : N;
  vpcc_chroma_subsampling : N;
  vpcc_video_full_range_flag : bool;
  vpcc_color_primaries : N;
  vpcc_transfer_characteristics : N;
  vpcc_matrix_coefficients : N;
  vpcc_codec_initialization_data_size : N
}.

Definition vpcc_DEFAULT_VERSION : N := 1.
Definition vpcc_DEFAULT_BIT_DEPTH : N := 8.

(** [#[derive(Default)]] *)
Definition vpcc_default : vpcc := mkVpcc 0 0 0 0 0 0 false 0 0 0 0.

Definition vpcc_size (v : vpcc) : N := HEADER_SIZE + HEADER_EXT_SIZE + 8.

(** bit_depth is a 4-bit field, chroma_subsampling a 3-bit field of one byte *)
Definition vpcc_wf (v : vpcc) : bool :=
  ufit 1 (vpcc_version v) && ufit 3 (vpcc_flags v)
  && ufit 1 (vpcc_profile v) && ufit 1 (vpcc_level v)
  && (vpcc_bit_depth v <? 16) && (vpcc_chroma_subsampling v <? 8)
  && ufit 1 (vpcc_color_primaries v) && ufit 1 (vpcc_transfer_characteristics v)
  && ufit 1 (vpcc_matrix_coefficients v) && ufit 2 (vpcc_codec_initialization_data_size v).

Definition dec_vpcc (m : mode) (size : N) : prog vpcc :=
  start <- box_start m ;;
  '(version, flags) <- read_header_ext ;;
  profile <- rd_u8 ;;
  level <- rd_u8 ;;
  b <- rd_u8 ;;
  let bit_depth := N.shiftr b 4 in
  let chroma_subsampling := N.shiftr (cast_w U8 (N.shiftl b 4)) 5 in    (* b << 4 >> 5 on u8 *)
  let video_full_range_flag := N.land b 1 =? 1 in
  color_primaries <- rd_u8 ;;
  transfer_characteristics <- rd_u8 ;;
  matrix_coefficients <- rd_u8 ;;
  codec_initialization_data_size <- rd_u16 ;;
  e <- add64 m "vpcc start+size" start size ;;
  skip_bytes_to e ;;;
  Ret (mkVpcc version flags profile level bit_depth chroma_subsampling video_full_range_flag
              color_primaries transfer_characteristics matrix_coefficients
              codec_initialization_data_size).

(** [(bit_depth << 4) | (chroma_subsampling << 1) | (flag as u8)] on u8 (shifts drop the high bits) *)
Definition vpcc_packed (v : vpcc) : N :=
  N.lor (N.lor (cast_w U8 (N.shiftl (vpcc_bit_depth v) 4))
               (cast_w U8 (N.shiftl (vpcc_chroma_subsampling v) 1)))
        (if vpcc_video_full_range_flag v then 1 else 0).

Open Scope wprog_scope.
Definition enc_vpcc (v : vpcc) : wprog N :=
  let size := vpcc_size v in
  write_header (box_type_of "VpccBox") size ;;;
  write_header_ext (vpcc_version v) (vpcc_flags v) ;;;
  wr_u8 (vpcc_profile v) ;;;
  wr_u8 (vpcc_level v) ;;;
  wr_u8 (vpcc_packed v) ;;;
  wr_u8 (vpcc_color_primaries v) ;;;
  wr_u8 (vpcc_transfer_characteristics v) ;;;
  wr_u8 (vpcc_matrix_coefficients v) ;;;
  wr_u16 (vpcc_codec_initialization_data_size v) ;;;
  WRet size.
Close Scope wprog_scope.

Definition show_vpcc (v : vpcc) : tree :=
  TRec "VpccBox" [("version", TNum (vpcc_version v)); ("flags", TNum (vpcc_flags v));
                  ("profile", TNum (vpcc_profile v)); ("level", TNum (vpcc_level v));
                  ("bit_depth", TNum (vpcc_bit_depth v));
                  ("chroma_subsampling", TNum (vpcc_chroma_subsampling v));
                  ("video_full_range_flag", TBool (vpcc_video_full_range_flag v));
                  ("color_primaries", TNum (vpcc_color_primaries v));
                  ("transfer_characteristics", TNum (vpcc_transfer_characteristics v));
                  ("matrix_coefficients", TNum (vpcc_matrix_coefficients v));
                  ("codec_initialization_data_size", TNum (vpcc_codec_initialization_data_size v))].

Example vpcc_smoke :
  let v := mkVpcc 1 0 2 31 10 3 true 9 16 9 0 in
  fst (run (h <- read_header ;; dec_vpcc Dbg (snd h)) (stream_at (wout (enc_vpcc v)) 0)) = Ok v.
Proof. vm_compute. reflexivity. Qed.
