(** * The demuxer (model of src/reader.rs and of the read-side accessors of [Mp4Track] in src/track.rs)

    [open_fuel] is [Mp4Reader::read_header], [open_fragment_fuel] is
    [Mp4Reader::read_fragment_header].  The sample lookups themselves are modelled in [Track.v]
    on a view of the parsed boxes; [track_view] builds that view from an [mp4track].

    [Mp4Reader::tracks] is a [HashMap<u32, Mp4Track>]: the model is an association list in which
    a later insert of a key replaces the earlier binding; no accessor depends on the order. *)
From MP4 Require Export BoxMoov BoxMoof BoxFtyp BoxEmsg.
From MP4 Require Track.
Open Scope string_scope.
Open Scope list_scope.
Open Scope N_scope.

(** ** [Mp4Track] *)
Record mp4track := mkMp4Track {
  mt_trak : trak;
  mt_trafs : list traf;
  mt_moof_offsets : list N;
  mt_default_sample_duration : N }.

(** [Mp4Track::from(&TrakBox)] *)
Definition mp4track_from (t : trak) : mp4track := mkMp4Track t [] [] 0.

(** ** [Mp4Reader] (without the stream it owns) *)
Record mp4reader := mkReader {
  rd_ftyp : ftyp;
  rd_moov : moov;
  rd_moofs : list moof;
  rd_emsgs : list emsg;
  rd_tracks : list (N * mp4track);
  rd_size : N }.

(** [HashMap::insert] / [get] / the update through [get_mut] *)
Definition tracks_insert (k : N) (v : mp4track) (l : list (N * mp4track)) : list (N * mp4track) :=
  filter (fun p => negb (fst p =? k)) l ++ [(k, v)].

Fixpoint tracks_get (k : N) (l : list (N * mp4track)) : option mp4track :=
  match l with
  | [] => None
  | (k', v) :: t =>
      match tracks_get k t with
      | Some v' => Some v'
      | None => if k' =? k then Some v else None
      end
  end.

Definition tracks_update (k : N) (f : mp4track -> mp4track) (l : list (N * mp4track)) : list (N * mp4track) :=
  map (fun p => if fst p =? k then (fst p, f (snd p)) else p) l.

(** [moov.traks.iter().map(|trak| (trak.tkhd.track_id, Mp4Track::from(trak))).collect()] *)
Definition tracks_collect (ts : list trak) : list (N * mp4track) :=
  fold_left (fun acc t => tracks_insert (tkhd_track_id (trak_tkhd t)) (mp4track_from t) acc) ts [].

(** [for traf in moof.trafs.iter() { if let Some(track) = tracks.get_mut(&track_id) { .. }
    else { return Err(TrakNotFound(track_id)) } }] *)
Fixpoint attach_trafs (dsd : N) (off : N) (trafs : list traf) (tracks : list (N * mp4track))
  : res (list (N * mp4track)) :=
  match trafs with
  | [] => Ok tracks
  | tf :: rest =>
      let track_id := tfhd_track_id (traf_tfhd tf) in
      match tracks_get track_id tracks with
      | Some _ =>
          attach_trafs dsd off rest
            (tracks_update track_id
               (fun t => mkMp4Track (mt_trak t) (mt_trafs t ++ [tf]) (mt_moof_offsets t ++ [off]) dsd)
               tracks)
      | None => Err EData                          (* TrakNotFound(track_id) *)
      end
  end.

(** [for (moof, moof_offset) in moofs.iter().zip(moof_offsets) { .. }] *)
Fixpoint attach_moofs (dsd : N) (ms : list (moof * N)) (tracks : list (N * mp4track))
  : res (list (N * mp4track)) :=
  match ms with
  | [] => Ok tracks
  | (mf, off) :: rest =>
      res_bind (attach_trafs dsd off (moof_trafs mf) tracks) (attach_moofs dsd rest)
  end.

(** [mvex.trex.default_sample_duration], 0 without an mvex box *)
Definition moov_default_sample_duration (v : moov) : N :=
  match moov_mvex v with
  | Some x => trex_default_sample_duration (mvex_trex x)
  | None => 0
  end.

(** ** [Mp4Reader::read_header] *)

(** [ftyp, moov, moofs, moof_offsets, emsgs] *)
Definition open_acc : Type := option ftyp * option moov * list moof * list N * list emsg.

(** the top-level [match name { .. }]; guards of the loop: [s > size] yes (against the [size]
    ARGUMENT, a position, not a box size), [s == 0] yes *)
Definition open_dispatch (m : mode) (fuel : nat) (current : N) (name : boxtype) (s : N) (a : open_acc)
  : prog open_acc :=
  let '(ft, mv, moofs, offs, emsgs) := a in
  match name with
  | FtypBox => x <- dec_ftyp m s ;; Ret (Some x, mv, moofs, offs, emsgs)
  | FreeBox => skip_box m s ;;; Ret a
  | MdatBox => skip_box m s ;;; Ret a
  | MoovBox => x <- dec_moov_fuel fuel m s ;; Ret (ft, Some x, moofs, offs, emsgs)
  | MoofBox =>
      let moof_offset := current in
      x <- dec_moof_fuel fuel m s ;;
      Ret (ft, mv, moofs ++ [x], offs ++ [moof_offset], emsgs)
  | EmsgBox => x <- dec_emsg m s ;; Ret (ft, mv, moofs, offs, emsgs ++ [x])
  | _ => skip_box m s ;;; Ret a
  end.

Definition open_fuel (fuel : nat) (m : mode) (size : N) : prog mp4reader :=
  start <- get_pos ;;
  r <- children_loop_at fuel m (Some size) true size (open_dispatch m) (None, None, [], [], []) start ;;
  let '((ft, mv, moofs, offs, emsgs), current) := r in
  match ft, mv with
  | Some f, Some v =>
      sz <- sub64 m "read_header current-start" current start ;;
      if existsb (fun t => tkhd_track_id (trak_tkhd t) =? 0) (moov_traks v)
      then Throw EData                             (* "illegal track id 0" *)
      else
        let tracks := tracks_collect (moov_traks v) in
        tracks' <- (match moofs with
                    | [] => Ret tracks
                    | _ => lift (attach_moofs (moov_default_sample_duration v) (combine moofs offs) tracks)
                    end) ;;
        Ret (mkReader f v moofs emsgs tracks' sz)
  | _, _ => Throw EData                            (* BoxNotFound(FtypBox / MoovBox) *)
  end.

(** ** [Mp4Reader::read_fragment_header] *)
Definition frag_acc : Type := list moof * list N.

Definition frag_dispatch (m : mode) (fuel : nat) (current : N) (name : boxtype) (s : N) (a : frag_acc)
  : prog frag_acc :=
  let '(moofs, offs) := a in
  match name with
  | MdatBox => skip_box m s ;;; Ret a
  | MoofBox =>
      let moof_offset := current in
      x <- dec_moof_fuel fuel m s ;;
      Ret (moofs ++ [x], offs ++ [moof_offset])
  | _ => skip_box m s ;;; Ret a
  end.

Definition open_fragment_fuel (fuel : nat) (m : mode) (r : mp4reader) (size : N) : prog mp4reader :=
  start <- get_pos ;;
  x <- children_loop_at fuel m (Some size) true size (frag_dispatch m) ([], []) start ;;
  let '((moofs, offs), current) := x in
  match moofs with
  | [] => Throw EData                              (* BoxNotFound(MoofBox) *)
  | _ =>
      sz <- sub64 m "read_fragment_header current-start" current start ;;
      let tracks := tracks_collect (moov_traks (rd_moov r)) in
      tracks' <- lift (attach_moofs (moov_default_sample_duration (rd_moov r)) (combine moofs offs) tracks) ;;
      Ret (mkReader (rd_ftyp r) (rd_moov r) moofs [] tracks' sz)
  end.

(** ** The lookup view of a track *)
Definition stbl_tables (s : stbl) : Track.tables :=
  Track.mkTables
    (map (fun e => Track.mkStsc (stsc_e_first_chunk e) (stsc_e_samples_per_chunk e)
                                (stsc_e_sample_description_index e) (stsc_e_first_sample e))
         (stsc_entries (stbl_stsc s)))
    (stsz_sample_size (stbl_stsz s))
    (stsz_sample_count (stbl_stsz s))
    (stsz_sample_sizes (stbl_stsz s))
    (option_map stco_entries (stbl_stco s))
    (option_map co64_entries (stbl_co64 s))
    (map (fun e => (stts_e_sample_count e, stts_e_sample_delta e)) (stts_entries (stbl_stts s)))
    (option_map (fun c => map (fun e => (ctts_e_sample_count e, ctts_e_sample_offset e)) (ctts_entries c))
                (stbl_ctts s))
    (option_map stss_entries (stbl_stss s)).

Definition traf_fragrun (t : traf) (moof_offset : N) : Track.fragrun :=
  let ru := traf_trun t in
  Track.mkFragrun
    moof_offset
    (tfhd_base_data_offset (traf_tfhd t))
    (tfhd_default_sample_duration (traf_tfhd t))
    (option_map tfdt_base_media_decode_time (traf_tfdt t))
    (match ru with Some _ => true | None => false end)
    (match ru with Some x => trun_flags x | None => 0 end)
    (match ru with Some x => trun_sample_count x | None => 0 end)
    (match ru with Some x => trun_data_offset x | None => None end)
    (match ru with Some x => trun_sample_durations x | None => [] end)
    (match ru with Some x => trun_sample_sizes x | None => [] end)
    (match ru with Some x => trun_sample_cts x | None => [] end).

(** [trafs[i]] with [moof_offsets[i]]; the two vectors are pushed together by the reader, so they
    have the same length in every value [open_fuel] returns (a missing offset reads as 0 here) *)
Fixpoint frag_views (trafs : list traf) (offs : list N) : list Track.fragrun :=
  match trafs with
  | [] => []
  | t :: ts => traf_fragrun t (hd 0 offs) :: frag_views ts (tl offs)
  end.

Definition track_view (t : mp4track) : Track.track :=
  Track.mkTrack (tkhd_track_id (trak_tkhd (mt_trak t)))
                (stbl_tables (minf_stbl (mdia_minf (trak_mdia (mt_trak t)))))
                (frag_views (mt_trafs t) (mt_moof_offsets t))
                (mt_default_sample_duration t).

(** ** [Mp4Reader] accessors *)
Definition rd_get_size (r : mp4reader) : N := rd_size r.
Definition rd_major_brand (r : mp4reader) : N := ftyp_major_brand (rd_ftyp r).
Definition rd_minor_version (r : mp4reader) : N := ftyp_minor_version (rd_ftyp r).
Definition rd_compatible_brands (r : mp4reader) : list N := ftyp_compatible_brands (rd_ftyp r).

(** [u64::try_from(x as u128 * k / timescale as u128).unwrap_or(u64::MAX)], 0 for a zero timescale *)
Definition scaled_duration (duration timescale k : N) : N :=
  if timescale =? 0 then 0
  else let v := duration * k / timescale in
       if v <? U64 then v else U64 - 1.

(** [duration()], in milliseconds ([Duration::from_millis]) *)
Definition rd_duration_ms (r : mp4reader) : N :=
  scaled_duration (mvhd_duration (moov_mvhd (rd_moov r))) (mvhd_timescale (moov_mvhd (rd_moov r))) 1000.
Definition rd_timescale (r : mp4reader) : N := mvhd_timescale (moov_mvhd (rd_moov r)).
Definition rd_is_fragmented (r : mp4reader) : bool :=
  match rd_moofs r with [] => false | _ => true end.

Definition rd_sample_count (r : mp4reader) (tid : N) : res N :=
  match tracks_get tid (rd_tracks r) with
  | Some t => Ok (Track.sample_count (track_view t))
  | None => Err EData                              (* TrakNotFound *)
  end.

Definition rd_sample_offset (m : mode) (r : mp4reader) (tid sid : N) : res N :=
  match tracks_get tid (rd_tracks r) with
  | Some t => Track.sample_offset m (track_view t) sid
  | None => Err EData
  end.

Definition rd_read_sample (m : mode) (r : mp4reader) (tid sid : N) : prog (option Track.sample) :=
  match tracks_get tid (rd_tracks r) with
  | Some t => Track.read_sample m (track_view t) sid
  | None => Throw EData
  end.

(** ** [Mp4Track] accessors (enum results by variant name) *)
Definition mt_stsd (t : mp4track) : stsd := stbl_stsd (minf_stbl (mdia_minf (trak_mdia (mt_trak t)))).
Definition mt_mdhd (t : mp4track) : mdhd := mdia_mdhd (trak_mdia (mt_trak t)).

Definition mt_track_id (t : mp4track) : N := tkhd_track_id (trak_tkhd (mt_trak t)).

Definition mt_track_type (t : mp4track) : res string :=
  tracktype_of_fourcc (hdlr_handler_type (mdia_hdlr (trak_mdia (mt_trak t)))).

Definition mt_media_type (t : mp4track) : res string :=
  let sd := mt_stsd t in
  match stsd_avc1 sd, stsd_hev1 sd, stsd_vp09 sd, stsd_mp4a sd, stsd_tx3g sd with
  | Some _, _, _, _, _ => Ok "H264"
  | None, Some _, _, _, _ => Ok "H265"
  | None, None, Some _, _, _ => Ok "VP9"
  | None, None, None, Some _, _ => Ok "AAC"
  | None, None, None, None, Some _ => Ok "TTXT"
  | None, None, None, None, None => Err EData
  end.

Definition mt_box_type (t : mp4track) : res fourcc :=
  let sd := mt_stsd t in
  match stsd_avc1 sd, stsd_hev1 sd, stsd_vp09 sd, stsd_mp4a sd, stsd_tx3g sd with
  | Some _, _, _, _, _ => Ok (fourcc_of_boxtype Avc1Box)
  | None, Some _, _, _, _ => Ok (fourcc_of_boxtype Hev1Box)
  | None, None, Some _, _, _ => Ok (fourcc_of_boxtype Vp09Box)
  | None, None, None, Some _, _ => Ok (fourcc_of_boxtype Mp4aBox)
  | None, None, None, None, Some _ => Ok (fourcc_of_boxtype Tx3gBox)
  | None, None, None, None, None => Err EData
  end.

(** [avc1.width] or [tkhd.width.value()] (the integer part of the 16.16 value) *)
Definition mt_width (t : mp4track) : N :=
  match stsd_avc1 (mt_stsd t) with
  | Some a => avc1_width a
  | None => fp16_value (tkhd_width (trak_tkhd (mt_trak t)))
  end.
Definition mt_height (t : mp4track) : N :=
  match stsd_avc1 (mt_stsd t) with
  | Some a => avc1_height a
  | None => fp16_value (tkhd_height (trak_tkhd (mt_trak t)))
  end.

Definition mt_language (t : mp4track) : bytes := mdhd_language (mt_mdhd t).
Definition mt_timescale (t : mp4track) : N := mdhd_timescale (mt_mdhd t).
(** [duration()], in microseconds ([Duration::from_micros]) *)
Definition mt_duration_us (t : mp4track) : N :=
  scaled_duration (mdhd_duration (mt_mdhd t)) (mdhd_timescale (mt_mdhd t)) 1000000.

Definition mt_sample_count (t : mp4track) : N := Track.sample_count (track_view t).

(** [bitrate()]: [esds.es_desc.dec_config.avg_bitrate] for an mp4a entry (0 without esds);
    otherwise 0 for a zero duration and a floating-point computation (not modelled: [None]) *)
Definition mt_bitrate (t : mp4track) : option N :=
  match stsd_mp4a (mt_stsd t) with
  | Some a =>
      match mp4a_esds a with
      | Some e => Some (decconfig_avg_bitrate (esdesc_dec_config (esds_es_desc e)))
      | None => Some 0
      end
  | None => if mt_duration_us t =? 0 then Some 0 else None
  end.

Definition mt_video_profile (t : mp4track) : res string :=
  match stsd_avc1 (mt_stsd t) with
  | Some a => avc_profile_try_from (avcc_avc_profile_indication (avc1_avcc a))
                                   (avcc_profile_compatibility (avc1_avcc a))
  | None => Err EData                              (* BoxInStblNotFound(Avc1Box) *)
  end.

Definition mt_sequence_parameter_set (t : mp4track) : res bytes :=
  match stsd_avc1 (mt_stsd t) with
  | Some a =>
      match avcc_sequence_parameter_sets (avc1_avcc a) with
      | nal :: _ => Ok (nalunit_bytes nal)
      | [] => Err ENotFound                        (* EntryInStblNotFound(AvcCBox, 0) *)
      end
  | None => Err EData
  end.

Definition mt_picture_parameter_set (t : mp4track) : res bytes :=
  match stsd_avc1 (mt_stsd t) with
  | Some a =>
      match avcc_picture_parameter_sets (avc1_avcc a) with
      | nal :: _ => Ok (nalunit_bytes nal)
      | [] => Err ENotFound
      end
  | None => Err EData
  end.

(** the three accessors that look into [mp4a.esds.es_desc.dec_config.dec_specific] *)
Definition mt_dec_specific (t : mp4track) : res decspecific :=
  match stsd_mp4a (mt_stsd t) with
  | Some a =>
      match mp4a_esds a with
      | Some e => Ok (decconfig_dec_specific (esdesc_dec_config (esds_es_desc e)))
      | None => Err EData                          (* BoxInStblNotFound(EsdsBox) *)
      end
  | None => Err EData                              (* BoxInStblNotFound(Mp4aBox) *)
  end.

Definition mt_audio_profile (t : mp4track) : res string :=
  res_bind (mt_dec_specific t) (fun d => aot_try_from (decspecific_profile d)).
Definition mt_sample_freq_index (t : mp4track) : res string :=
  res_bind (mt_dec_specific t) (fun d => sfi_try_from (decspecific_freq_index d)).
Definition mt_channel_config (t : mp4track) : res string :=
  res_bind (mt_dec_specific t) (fun d => chan_try_from (decspecific_chan_conf d)).

(** ** [Mp4Reader::metadata] and [impl Metadata for Option<&IlstBox>] *)
Definition rd_metadata (r : mp4reader) : option ilst :=
  match moov_udta (rd_moov r) with
  | Some u =>
      match udta_meta u with
      | Some (MetaMdir il) => il
      | _ => None
      end
  | None => None
  end.

Definition md_title (o : option ilst) : option bytes :=
  match o with Some i => ilst_title i | None => None end.
Definition md_year (o : option ilst) : option N :=
  match o with Some i => ilst_year i | None => None end.
Definition md_poster (o : option ilst) : option bytes :=
  match o with Some i => ilst_poster i | None => None end.
Definition md_summary (o : option ilst) : option bytes :=
  match o with Some i => ilst_summary i | None => None end.

(** ** Smoke tests *)

(** a file: ftyp, moov with one trak (three samples of 10, 20, 30 bytes at offset 48), mdat *)
Definition reader_test_moov : moov :=
  mkMoov mvhd_default None None [trak_test] (Some (mkUdta (Some (MetaMdir (Some ilst_test))))).
Definition reader_test_file : bytes :=
  wout (enc_ftyp (mkFtyp 0x69736f6d 512 [0x69736f6d; 0x61766331]))
  ++ wout (enc_moov Dbg reader_test_moov)
  ++ be 4 16 ++ be 4 0x6d646174 ++ [1; 2; 3; 4; 5; 6; 7; 8].

Example reader_smoke_open :
  match fst (run (open_fuel 2000 Dbg (lenN reader_test_file)) (stream_at reader_test_file 0)) with
  | Ok r =>
      rd_moov r = reader_test_moov
      /\ rd_size r = lenN reader_test_file
      /\ map fst (rd_tracks r) = [1]
      /\ rd_is_fragmented r = false
      /\ rd_sample_count r 1 = Ok 3
      /\ rd_sample_offset Dbg r 1 3 = Ok 78
      /\ rd_sample_count r 2 = Err EData
      /\ md_year (rd_metadata r) = Some 2024
      /\ option_map mt_media_type (tracks_get 1 (rd_tracks r)) = Some (Ok "H264")
      /\ option_map mt_video_profile (tracks_get 1 (rd_tracks r)) = Some (Ok "AvcHigh")
      /\ match fst (run (rd_read_sample Dbg r 1 2) (stream_at reader_test_file 0)) with
         | Ok (Some s) => Track.sm_bytes s = firstn 20 (skipn 58 reader_test_file)
                          /\ Track.sm_start_time s = 100 /\ Track.sm_is_sync s = false
         | _ => False
         end
  | _ => False
  end.
Proof. vm_compute. repeat split; reflexivity. Qed.

(** a fragmented file: ftyp, moov with mvex, two moofs for track 1 *)
Definition reader_test_frag_moov : moov :=
  mkMoov mvhd_default None (Some (mkMvex None (mkTrex 0 0 1 1 512 0 0))) [trak_test] None.
Definition reader_test_frag_head : bytes :=
  wout (enc_ftyp ftyp_default) ++ wout (enc_moov Dbg reader_test_frag_moov).
Definition reader_test_frag_file : bytes :=
  reader_test_frag_head
  ++ wout (enc_moof (mkMoof (mkMfhd 0 0 1) [traf_test]))
  ++ be 4 8 ++ be 4 0x6d646174
  ++ wout (enc_moof (mkMoof (mkMfhd 0 0 2) [traf_test])).

Example reader_smoke_fragmented :
  let off1 := lenN reader_test_frag_head in
  let off2 := off1 + moof_size (mkMoof (mkMfhd 0 0 1) [traf_test]) + 8 in
  match fst (run (open_fuel 2000 Dbg (lenN reader_test_frag_file)) (stream_at reader_test_frag_file 0)) with
  | Ok r =>
      rd_is_fragmented r = true
      /\ option_map mt_moof_offsets (tracks_get 1 (rd_tracks r)) = Some [off1; off2]
      /\ option_map mt_default_sample_duration (tracks_get 1 (rd_tracks r)) = Some 512
      /\ rd_sample_count r 1 = Ok 4
      /\ rd_sample_offset Dbg r 1 4 = Ok (off2 + 100 + 10)
      (* the same moofs read through [read_fragment_header] from the end of the moov *)
      /\ match fst (run (open_fragment_fuel 2000 Dbg r (lenN reader_test_frag_file))
                        (stream_at reader_test_frag_file off1)) with
         | Ok r2 => rd_tracks r2 = rd_tracks r /\ rd_size r2 = lenN reader_test_frag_file - off1
                    /\ rd_moofs r2 = rd_moofs r
         | _ => False
         end
  | _ => False
  end.
Proof. vm_compute. repeat split; reflexivity. Qed.

(** a traf for a track the moov does not have is TrakNotFound; no fuel is [OutOfFuel] *)
Example reader_smoke_errors :
  let bad := reader_test_frag_head
             ++ wout (enc_moof (mkMoof (mkMfhd 0 0 1) [mkTraf (mkTfhd 0 0 9 None None None None None) None None])) in
  fst (run (open_fuel 2000 Dbg (lenN bad)) (stream_at bad 0)) = Err EData
  /\ fst (run (open_fuel 1 Dbg (lenN reader_test_file)) (stream_at reader_test_file 0)) = OutOfFuel.
Proof. vm_compute. split; reflexivity. Qed.
