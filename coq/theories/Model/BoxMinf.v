(** minf.rs: [MinfBox]; also the fuelled form of [DinfBox::read_box] (dinf.rs), whose child
    loop is the same [while current < end] loop and must run on the caller's fuel *)
From MP4 Require Export BoxStbl BoxVmhd BoxSmhd BoxDinf.
Open Scope string_scope.
Open Scope list_scope.
Open Scope N_scope.

(** ** [DinfBox::read_box] on the shared loop (guards in dinf.rs: [s > size] yes, [s == 0] yes,
    unknown child: [skip_box]) *)
Definition dinf_dispatch (m : mode) (fuel : nat) (name : boxtype) (s : N) (d : option dref)
  : prog (option dref) :=
  match name with
  | DrefBox => x <- dec_dref m s ;; Ret (Some x)
  | _ => skip_box m s ;;; Ret d
  end.

Definition dec_dinf_fuel (fuel : nat) (m : mode) (size : N) : prog dinf :=
  start <- box_start m ;;
  current <- get_pos ;;
  end_ <- add64 m "dinf start+size" start size ;;
  d <- children_loop fuel m (Some size) true end_ (dinf_dispatch m) None current ;;
  match d with
  | None => Throw EData                            (* BoxNotFound(DrefBox) *)
  | Some x =>
      e <- add64 m "dinf start+size" start size ;;
      skip_bytes_to e ;;;
      Ret (mkDinf x)
  end.

(** ** MinfBox *)
Record minf := mkMinf {
  minf_vmhd : option vmhd;
  minf_smhd : option smhd;
  minf_dinf : dinf;
  minf_stbl : stbl }.

(** [#[derive(Default)]] *)
Definition minf_default : minf := mkMinf None None dinf_default stbl_default.

Definition minf_size (v : minf) : N :=
  HEADER_SIZE
  + match minf_vmhd v with Some x => vmhd_size x | None => 0 end
  + match minf_smhd v with Some x => smhd_size x | None => 0 end
  + dinf_size (minf_dinf v)
  + stbl_size (minf_stbl v).

Definition minf_wf (v : minf) : bool :=
  match minf_vmhd v with Some x => vmhd_wf x | None => true end
  && match minf_smhd v with Some x => smhd_wf x | None => true end
  && dinf_wf (minf_dinf v) && stbl_wf (minf_stbl v).

Definition minf_acc : Type := option vmhd * option smhd * option dinf * option stbl.

Definition minf_dispatch (m : mode) (fuel : nat) (name : boxtype) (s : N) (a : minf_acc) : prog minf_acc :=
  let '(vm, sm, di, st) := a in
  match name with
  | VmhdBox => x <- dec_vmhd m s ;; Ret (Some x, sm, di, st)
  | SmhdBox => x <- dec_smhd m s ;; Ret (vm, Some x, di, st)
  | DinfBox => x <- dec_dinf_fuel fuel m s ;; Ret (vm, sm, Some x, st)
  | StblBox => x <- dec_stbl_fuel fuel m s ;; Ret (vm, sm, di, Some x)
  | _ => skip_box m s ;;; Ret a
  end.

Definition dec_minf_fuel (fuel : nat) (m : mode) (size : N) : prog minf :=
  start <- box_start m ;;
  current <- get_pos ;;
  end_ <- add64 m "minf start+size" start size ;;
  a <- children_loop fuel m (Some size) true end_ (minf_dispatch m) (None, None, None, None) current ;;
  let '(vm, sm, di, st) := a in
  match di, st with
  | Some d, Some t =>
      e <- add64 m "minf start+size" start size ;;
      skip_bytes_to e ;;;
      Ret (mkMinf vm sm d t)
  | _, _ => Throw EData                            (* BoxNotFound(DinfBox / StblBox) *)
  end.

Open Scope wprog_scope.
Definition enc_minf (m : mode) (v : minf) : wprog N :=
  let size := minf_size v in
  write_header (box_type_of "MinfBox") size ;;;
  match minf_vmhd v with Some x => enc_vmhd x ;;; WRet tt | None => WRet tt end ;;;
  match minf_smhd v with Some x => enc_smhd x ;;; WRet tt | None => WRet tt end ;;;
  enc_dinf (minf_dinf v) ;;;
  enc_stbl m (minf_stbl v) ;;;
  WRet size.
Close Scope wprog_scope.

Definition show_minf (v : minf) : tree :=
  TRec "MinfBox" [("vmhd", topt show_vmhd (minf_vmhd v));
                  ("smhd", topt show_smhd (minf_smhd v));
                  ("dinf", show_dinf (minf_dinf v));
                  ("stbl", show_stbl (minf_stbl v))].

Definition minf_test : minf := mkMinf (Some vmhd_default) None dinf_default stbl_test.

Example dinf_fuel_smoke :
  fst (run (h <- read_header ;; dec_dinf_fuel 3 Dbg (snd h)) (stream_at (wout (enc_dinf dinf_default)) 0))
  = Ok dinf_default.
Proof. vm_compute. reflexivity. Qed.

Example minf_smoke :
  fst (run (h <- read_header ;; dec_minf_fuel 20 Dbg (snd h)) (stream_at (wout (enc_minf Dbg minf_test)) 0))
  = Ok minf_test.
Proof. vm_compute. reflexivity. Qed.
