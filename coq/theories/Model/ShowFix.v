(** * Corrected [show_xxx] functions (comparison with Rust's derived [Debug])

    Every [show_xxx] of the box files was checked against the struct declarations in
    [/repo/src/mp4box/*.rs] (type names, field names, field order, signedness, Option/Vec/String/
    array/tuple/enum shapes) and against the real [{:?}] output of the harness binary.  One
    deviation was found:

    - [BoxMeta.show_meta], variant [Unknown { hdlr, data : Vec<(BoxType, Vec<u8>)> }]: the first
      component of each pair is a [BoxType], not a [FourCC].  [impl fmt::Debug for BoxType]
      (types.rs:75) prints only the four characters ([write!(f, "{fourcc}")] with [FourCC]'s
      [Display], i.e. [String::from_utf8_lossy(&value)]), e.g. [(free, [1, 2])], whereas [FourCC]'s
      own [Debug] prints [free / 0x66726565].  [show_meta] uses [TFourCC code] for it, which is the
      tree of the second form.  [show_meta_fixed] uses [TEnum name] where [name] is the string of
      the four raw bytes of the code (a bare word in the [Debug] output, exactly like an enum
      variant; for bytes that are not valid UTF-8 Rust prints U+FFFD, so the comparison has to
      apply [from_utf8_lossy] to [name]).

    [meta] is nested in [udta], [trak] and [moov], so these three get a [_fixed] form too; they
    are the owner's functions with [show_meta] replaced by [show_meta_fixed] and nothing else. *)
From MP4 Require Export BoxMoov.
From Coq Require Import Ascii.
Open Scope string_scope.
Open Scope list_scope.
Open Scope N_scope.

(** the string with the given bytes (byte values are [< 256]; [ascii_of_N] truncates otherwise) *)
Fixpoint string_of_bytes (l : bytes) : string :=
  match l with
  | [] => EmptyString
  | b :: t => String (ascii_of_N b) (string_of_bytes t)
  end.

(** [{:?}] of a [BoxType]: the four characters of its code *)
Definition show_boxtype (t : boxtype) : tree :=
  TEnum (string_of_bytes (be 4 (u32_of_boxtype t))).

Definition show_meta_fixed (v : meta) : tree :=
  match v with
  | MetaMdir il => TRec "Mdir" [("ilst", topt show_ilst il)]
  | MetaUnknown h d =>
      TRec "Unknown" [("hdlr", show_hdlr h);
                      ("data", TList (map (fun p => TTuple [show_boxtype (fst p); tnums (snd p)]) d))]
  end.

Definition show_udta_fixed (v : udta) : tree :=
  TRec "UdtaBox" [("meta", topt show_meta_fixed (udta_meta v))].

Definition show_trak_fixed (v : trak) : tree :=
  TRec "TrakBox" [("tkhd", show_tkhd (trak_tkhd v));
                  ("edts", topt show_edts (trak_edts v));
                  ("meta", topt show_meta_fixed (trak_meta v));
                  ("mdia", show_mdia (trak_mdia v))].

Definition show_moov_fixed (v : moov) : tree :=
  TRec "MoovBox" [("mvhd", show_mvhd (moov_mvhd v));
                  ("meta", topt show_meta_fixed (moov_meta v));
                  ("mvex", topt show_mvex (moov_mvex v));
                  ("traks", TList (map show_trak_fixed (moov_traks v)));
                  ("udta", topt show_udta_fixed (moov_udta v))].

(** the fixed forms differ from the owner's only below an [Unknown] meta *)
Lemma show_meta_fixed_mdir : forall il, show_meta_fixed (MetaMdir il) = show_meta (MetaMdir il).
Proof. reflexivity. Qed.

Example show_boxtype_smoke :
  show_boxtype FreeBox = TEnum "free"
  /\ show_boxtype (UnknownBox 0x61626364) = TEnum "abcd"
  /\ show_meta_fixed (MetaUnknown hdlr_default [(FreeBox, [1; 2])])
     = TRec "Unknown" [("hdlr", show_hdlr hdlr_default);
                       ("data", TList [TTuple [TEnum "free"; TList [TNum 1; TNum 2]]])].
Proof. vm_compute. repeat split; reflexivity. Qed.
