(** meta.rs: [enum MetaBox { Mdir { ilst }, Unknown { hdlr, data } }]

    [read_box] runs the child loop up to three times over the same bytes: once to find the
    hdlr box, then (after seeking back) once more, in the form chosen by the handler type.
    All three loops have both guards ([s > size], [s == 0]).  Unlike every other container,
    [read_box] does not finish with [skip_bytes_to(start + size)]. *)
From MP4 Require Export BoxIlst BoxHdlr.
Open Scope string_scope.
Open Scope list_scope.
Open Scope N_scope.

Inductive meta :=
| MetaMdir (il : option ilst)
| MetaUnknown (h : hdlr) (d : list (boxtype * bytes)).

(** [const MDIR: FourCC = FourCC { value: *b"mdir" }] *)
Definition meta_MDIR : N := 0x6d646972.

(** [impl Default for MetaBox] *)
Definition meta_default : meta := MetaUnknown hdlr_default [].

Definition meta_size (v : meta) : N :=
  HEADER_SIZE + HEADER_EXT_SIZE
  + match v with
    | MetaMdir il =>
        hdlr_size hdlr_default + match il with Some i => ilst_size i | None => 0 end
    | MetaUnknown h d =>
        hdlr_size h + sumN (map (fun p => lenN (snd p) + HEADER_SIZE) d)
    end.

Definition meta_wf (v : meta) : bool :=
  match v with
  | MetaMdir il => match il with Some i => ilst_wf i | None => true end
  | MetaUnknown h d =>
      hdlr_wf h && negb (hdlr_handler_type h =? meta_MDIR)
      && forallb (fun p => ufit 4 (u32_of_boxtype (fst p)) && bytes_ok (snd p)
                           && negb (boxtype_eqb (fst p) HdlrBox)) d
  end.

(** first loop: find the hdlr box (the last one wins) *)
Definition meta_find_hdlr (m : mode) (fuel : nat) (name : boxtype) (s : N) (a : option hdlr)
  : prog (option hdlr) :=
  match name with
  | HdlrBox => x <- dec_hdlr m s ;; Ret (Some x)
  | _ => skip_box m s ;;; Ret a
  end.

(** second loop, handler type mdir *)
Definition meta_mdir_dispatch (m : mode) (fuel : nat) (name : boxtype) (s : N) (a : option ilst)
  : prog (option ilst) :=
  match name with
  | IlstBox => x <- dec_ilst_fuel fuel m s ;; Ret (Some x)
  | _ => skip_box m s ;;; Ret a
  end.

(** second loop, any other handler type: every child but hdlr is kept as raw bytes *)
Definition meta_unknown_dispatch (m : mode) (fuel : nat) (name : boxtype) (s : N)
           (a : list (boxtype * bytes)) : prog (list (boxtype * bytes)) :=
  match name with
  | HdlrBox => skip_box m s ;;; Ret a
  | _ =>
      match checked_sub s HEADER_SIZE with
      | None => Throw EData                        (* "meta child box size too small" *)
      | Some box_data_size =>
          box_data <- rd_vec box_data_size ;;
          Ret (a ++ [(name, box_data)])
      end
  end.

Definition dec_meta_fuel (fuel : nat) (m : mode) (size : N) : prog meta :=
  start <- box_start m ;;
  extended_header <- rd_u32 ;;
  (if negb (extended_header =? 0) then
     possible_hdlr <- rd_u32 ;;
     match boxtype_of_u32 possible_hdlr with
     | HdlrBox => seek_rel (-8)                    (* the file skipped the extended header *)
     | _ => Throw EData                            (* UnsupportedBoxVersion *)
     end
   else Ret tt) ;;;
  current <- get_pos ;;
  end_ <- add64 m "meta start+size" start size ;;
  let content_start := current in
  hd <- children_loop fuel m (Some size) true end_ (meta_find_hdlr m) None current ;;
  match hd with
  | None => Throw EData                            (* BoxNotFound(HdlrBox) *)
  | Some h =>
      seek_to content_start ;;;
      current <- get_pos ;;
      if hdlr_handler_type h =? meta_MDIR then
        il <- children_loop fuel m (Some size) true end_ (meta_mdir_dispatch m) None current ;;
        e <- add64 m "meta start+size (final seek)" start size ;;
        skip_bytes_to e ;;;
        Ret (MetaMdir il)
      else
        d <- children_loop fuel m (Some size) true end_ (meta_unknown_dispatch m) [] current ;;
        e <- add64 m "meta start+size (final seek)" start size ;;
        skip_bytes_to e ;;;
        Ret (MetaUnknown h d)
  end.

Open Scope wprog_scope.
Definition enc_meta_raw (p : boxtype * bytes) : wprog unit :=
  write_header (fst p) (lenN (snd p) + HEADER_SIZE) ;;;
  wr (snd p).

Definition enc_meta (v : meta) : wprog N :=
  let size := meta_size v in
  write_header (box_type_of "MetaBox") size ;;;
  write_header_ext 0 0 ;;;
  let h := match v with
           | MetaMdir _ => mkHdlr (hdlr_version hdlr_default) (hdlr_flags hdlr_default) meta_MDIR
                                  (hdlr_name hdlr_default)
           | MetaUnknown h _ => h
           end in
  enc_hdlr h ;;;
  match v with
  | MetaMdir il => match il with Some i => enc_ilst i ;;; WRet tt | None => WRet tt end
  | MetaUnknown _ d => wr_each enc_meta_raw d
  end ;;;
  WRet size.
Close Scope wprog_scope.

(** derived [Debug]: struct variants; [BoxType]'s [Debug] prints the four characters *)
Definition show_meta (v : meta) : tree :=
  match v with
  | MetaMdir il => TRec "Mdir" [("ilst", topt show_ilst il)]
  | MetaUnknown h d =>
      TRec "Unknown" [("hdlr", show_hdlr h);
                      ("data", TList (map (fun p => TTuple [TFourCC (u32_of_boxtype (fst p)); tnums (snd p)]) d))]
  end.

(** smoke tests: meta.rs's [test_meta_mdir], [test_meta_unknown], and [test_meta_hdrl_non_first]
    (hdlr after ilst; the ilst holds an unsupported item) *)
Example meta_smoke_mdir :
  let v := MetaMdir (Some ilst_test) in
  fst (run (h <- read_header ;; dec_meta_fuel 10 Dbg (snd h)) (stream_at (wout (enc_meta v)) 0)) = Ok v.
Proof. vm_compute. reflexivity. Qed.

Example meta_smoke_unknown :
  let v := MetaUnknown (mkHdlr 0 0 0x74657374 []) [(UnknownBox 0x42494241, [49; 50; 51])] in
  fst (run (h <- read_header ;; dec_meta_fuel 10 Dbg (snd h)) (stream_at (wout (enc_meta v)) 0)) = Ok v
  /\ fst (run (h <- read_header ;; dec_meta_fuel 10 Dbg (snd h)) (stream_at (wout (enc_meta meta_default)) 0))
     = Ok meta_default.
Proof. vm_compute. split; reflexivity. Qed.

Example meta_smoke_hdlr_non_first :
  let too := be 4 17 ++ [169; 116; 111; 111] ++ be 4 9 ++ be 4 0x64617461 ++ [0] in
  let il := be 4 (8 + 17) ++ be 4 0x696c7374 ++ too in
  let hd := wout (enc_hdlr (mkHdlr 0 0 meta_MDIR [])) in
  let bytes := be 4 (12 + lenN il + lenN hd) ++ be 4 0x6d657461 ++ be 4 0 ++ il ++ hd in
  fst (run (h <- read_header ;; dec_meta_fuel 10 Dbg (snd h)) (stream_at bytes 0))
  = Ok (MetaMdir (Some ilst_default)).
Proof. vm_compute. reflexivity. Qed.

(** [read_box] ends at [start + size] (fix: "leave the stream at the end of the meta box"): spare bytes after a
    zero-size child header stay inside the meta box *)
Example meta_smoke_final_seek :
  let hd := wout (enc_hdlr (mkHdlr 0 0 0x74657374 [])) in
  let payload := be 4 0 ++ hd ++ be 4 0 ++ be 4 0x66726565 ++ wout (enc_meta (MetaMdir None)) in
  let bytes := be 4 (8 + lenN payload) ++ be 4 0x6d657461 ++ payload in
  let r := run (h <- read_header ;; dec_meta_fuel 10 Dbg (snd h)) (stream_at bytes 0) in
  fst r = Ok (MetaUnknown (mkHdlr 0 0 0x74657374 []) []) /\ s_pos (snd r) = 98 /\ lenN bytes = 98.
Proof. vm_compute. repeat split; reflexivity. Qed.
