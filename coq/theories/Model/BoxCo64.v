(** co64.rs *)
From MP4 Require Export TblPrim.
Open Scope string_scope.
Open Scope list_scope.
Open Scope N_scope.

Record co64 := mkCo64 { co64_version : N; co64_flags : N; co64_entries : list N }.

Definition co64_default : co64 := mkCo64 0 0 [].

Definition co64_size (v : co64) : N :=
  HEADER_SIZE + HEADER_EXT_SIZE + 4 + (8 * lenN (co64_entries v)).

Definition co64_wf (v : co64) : bool :=
  ufit 1 (co64_version v) && ufit 3 (co64_flags v)
  && ufit 4 (lenN (co64_entries v)) && forallb (ufit 8) (co64_entries v).

Definition dec_co64 (m : mode) (size : N) : prog co64 :=
  start <- box_start m ;;
  '(version, flags) <- read_header_ext ;;
  let header_size := HEADER_SIZE + HEADER_EXT_SIZE in
  let other_size := 4 in
  let entry_size := 8 in
  entry_count <- rd_u32 ;;
  if (size - header_size - other_size) / entry_size <? entry_count then Throw EData else
  alloc (entry_count * 8) ;;;
  entries <- rd_n (N.to_nat entry_count) rd_u64 ;;
  e <- add64 m "co64 start+size" start size ;;
  skip_bytes_to e ;;;
  Ret (mkCo64 version flags entries).

Open Scope wprog_scope.
Definition enc_co64 (v : co64) : wprog N :=
  let size := co64_size v in
  write_header (box_type_of "Co64Box") size ;;;
  write_header_ext (co64_version v) (co64_flags v) ;;;
  wr_u32 (cast_w U32 (lenN (co64_entries v))) ;;;
  tbl_wr_each wr_u64 (co64_entries v) ;;;
  WRet size.
Close Scope wprog_scope.

Definition show_co64 (v : co64) : tree :=
  TRec "Co64Box" [("version", TNum (co64_version v)); ("flags", TNum (co64_flags v));
                  ("entries", tnums (co64_entries v))].

Example co64_smoke :
  let v := mkCo64 0 0 [48; 4294967296; 18446744073709551615] in
  fst (run (h <- read_header ;; dec_co64 Dbg (snd h)) (stream_at (wout (enc_co64 v)) 0)) = Ok v.
Proof. vm_compute. reflexivity. Qed.
