(** emsg.rs *)
From MP4 Require Export Tree VlLib.
Open Scope string_scope.
Open Scope list_scope.
Open Scope N_scope.

Record emsg := mkEmsg {
  emsg_version : N;
  emsg_flags : N;
  emsg_timescale : N;
  emsg_presentation_time : option N;          (* Option<u64> *)
  emsg_presentation_time_delta : option N;    (* Option<u32> *)
  emsg_event_duration : N;
  emsg_id : N;
  emsg_scheme_id_uri : bytes;                 (* String *)
  emsg_value : bytes;                         (* String *)
  emsg_message_data : bytes                   (* Vec<u8> *)
}.

(** [#[derive(Default)]] *)
Definition emsg_default : emsg := mkEmsg 0 0 0 None None 0 0 [] [] [].

(** [time_size]: 12 / 16; for any other version it PANICS ("version must be 0 or 1").
    [emsg_time_size_ok] says whether it returns; where it does not, the callers below crash. *)
Definition emsg_time_size_ok (version : N) : bool := (version =? 0) || (version =? 1).
Definition emsg_time_size (version : N) : N :=
  if version =? 0 then 12 else if version =? 1 then 16 else 0.

(** [size_without_message] (string lengths are far below 2^63: the additions cannot overflow) *)
Definition emsg_size_without_message (version : N) (scheme_id_uri value : bytes) : N :=
  HEADER_SIZE + HEADER_EXT_SIZE + 4 + emsg_time_size version
  + (lenN scheme_id_uri + 1) + (lenN value + 1).

(** [box_size] (meaningful when [emsg_time_size_ok (emsg_version v)]; otherwise Rust panics) *)
Definition emsg_size (v : emsg) : N :=
  emsg_size_without_message (emsg_version v) (emsg_scheme_id_uri v) (emsg_value v)
  + lenN (emsg_message_data v).

Definition emsg_wf (v : emsg) : bool :=
  (emsg_version v <? 2) && ufit 3 (emsg_flags v) && ufit 4 (emsg_timescale v)
  && (if emsg_version v =? 1
      then match emsg_presentation_time v, emsg_presentation_time_delta v with
           | Some t, None => ufit 8 t
           | _, _ => false
           end
      else match emsg_presentation_time v, emsg_presentation_time_delta v with
           | None, Some t => ufit 4 t
           | _, _ => false
           end)
  && ufit 4 (emsg_event_duration v) && ufit 4 (emsg_id v)
  && vl_str_ok (emsg_scheme_id_uri v) && vl_str_ok (emsg_value v)
  && bytes_ok (emsg_message_data v).

(** [read_null_terminated_utf8_string]'s loop: [remaining] is [limit - bytes.len()], the number of
    bytes the string may still take (structural in it; [limit] is what is left of the box) *)
Fixpoint emsg_rd_cstr_loop (remaining : nat) (acc : bytes) : prog bytes :=
  match remaining with
  | O => Throw EData                               (* bytes.len() >= limit: not terminated *)
  | S r =>
      byte <- rd_u8 ;;
      let acc' := acc ++ [byte] in
      if byte =? 0 then Ret acc' else emsg_rd_cstr_loop r acc'
  end.

(** [CStr::from_bytes_with_nul_unchecked(&bytes).to_str()]: the bytes without the final NUL must
    be valid UTF-8 *)
Definition emsg_rd_cstr (limit : N) : prog bytes :=
  bytes <- emsg_rd_cstr_loop (N.to_nat limit) [] ;;
  let s := removelast bytes in
  if utf8_valid s then Ret s else Throw EData.

(** [let limit = (start + size).saturating_sub(reader.stream_position()?);
     read_null_terminated_utf8_string(reader, limit)?] *)
Definition emsg_rd_string (m : mode) (start size : N) : prog bytes :=
  e <- add64 m "emsg start+size" start size ;;
  p <- get_pos ;;
  emsg_rd_cstr (e - p).

Definition dec_emsg (m : mode) (size : N) : prog emsg :=
  start <- box_start m ;;
  '(version, flags) <- read_header_ext ;;
  '(timescale, presentation_time, presentation_time_delta, event_duration, id, scheme_id_uri, value) <-
    (if version =? 0 then
       scheme_id_uri <- emsg_rd_string m start size ;;
       value <- emsg_rd_string m start size ;;
       ts <- rd_u32 ;;
       delta <- rd_u32 ;;
       dur <- rd_u32 ;;
       id <- rd_u32 ;;
       Ret (ts, @None N, Some delta, dur, id, scheme_id_uri, value)
     else if version =? 1 then
       ts <- rd_u32 ;;
       pt <- rd_u64 ;;
       dur <- rd_u32 ;;
       id <- rd_u32 ;;
       scheme_id_uri <- emsg_rd_string m start size ;;
       value <- emsg_rd_string m start size ;;
       Ret (ts, Some pt, @None N, dur, id, scheme_id_uri, value)
     else Throw EData) ;;
  (* version is 0 or 1 here, [time_size] returns *)
  match checked_sub size (emsg_size_without_message version scheme_id_uri value) with
  | None => Throw EData
  | Some message_size =>
      alloc (message_size * 1) ;;;
      message_data <- rd_n (N.to_nat message_size) rd_u8 ;;
      e <- add64 m "emsg start+size" start size ;;
      skip_bytes_to e ;;;
      Ret (mkEmsg version flags timescale presentation_time presentation_time_delta
                  event_duration id scheme_id_uri value message_data)
  end.

Open Scope wprog_scope.
(** [write_null_terminated_str]: byte by byte, then a NUL *)
Definition emsg_wr_cstr (s : bytes) : wprog unit :=
  vl_wr_each wr_u8 s ;;; wr_u8 0.

Definition enc_emsg (v : emsg) : wprog N :=
  (* [self.box_size()] is evaluated first and panics in [time_size] unless version is 0 or 1
     (the [Err] arm of the [match self.version] below is therefore unreachable) *)
  if negb (emsg_time_size_ok (emsg_version v)) then WCrash "emsg time_size: version must be 0 or 1"
  else
  let size := emsg_size v in
  write_header (box_type_of "EmsgBox") size ;;;
  write_header_ext (emsg_version v) (emsg_flags v) ;;;
  (if emsg_version v =? 0 then
     emsg_wr_cstr (emsg_scheme_id_uri v) ;;;
     emsg_wr_cstr (emsg_value v) ;;;
     wr_u32 (emsg_timescale v) ;;;
     match emsg_presentation_time_delta v with
     | Some d => wr_u32 d
     | None => WCrash "emsg write_box: presentation_time_delta.unwrap()"
     end ;;;
     wr_u32 (emsg_event_duration v) ;;;
     wr_u32 (emsg_id v)
   else if emsg_version v =? 1 then
     wr_u32 (emsg_timescale v) ;;;
     match emsg_presentation_time v with
     | Some t => wr_u64 t
     | None => WCrash "emsg write_box: presentation_time.unwrap()"
     end ;;;
     wr_u32 (emsg_event_duration v) ;;;
     wr_u32 (emsg_id v) ;;;
     emsg_wr_cstr (emsg_scheme_id_uri v) ;;;
     emsg_wr_cstr (emsg_value v)
   else WThrow EData) ;;;
  vl_wr_each wr_u8 (emsg_message_data v) ;;;
  WRet size.
Close Scope wprog_scope.

Definition show_emsg (v : emsg) : tree :=
  TRec "EmsgBox" [("version", TNum (emsg_version v)); ("flags", TNum (emsg_flags v));
                  ("timescale", TNum (emsg_timescale v));
                  ("presentation_time", topt TNum (emsg_presentation_time v));
                  ("presentation_time_delta", topt TNum (emsg_presentation_time_delta v));
                  ("event_duration", TNum (emsg_event_duration v)); ("id", TNum (emsg_id v));
                  ("scheme_id_uri", TStr (emsg_scheme_id_uri v)); ("value", TStr (emsg_value v));
                  ("message_data", tnums (emsg_message_data v))].

Example emsg_smoke0 :
  let v := mkEmsg 0 0 48000 None (Some 100) 200 8 [102; 111; 111] [102; 111; 111] [1; 2; 3] in
  fst (run (h <- read_header ;; dec_emsg Dbg (snd h)) (stream_at (wout (enc_emsg v)) 0)) = Ok v.
Proof. vm_compute. reflexivity. Qed.
Example emsg_smoke1 :
  let v := mkEmsg 1 0 48000 (Some 50000) None 200 8 [102; 111; 111] [98; 97; 114] [3; 2; 1] in
  fst (run (h <- read_header ;; dec_emsg Dbg (snd h)) (stream_at (wout (enc_emsg v)) 0)) = Ok v.
Proof. vm_compute. reflexivity. Qed.
