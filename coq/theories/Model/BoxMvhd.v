(** mvhd.rs *)
From MP4 Require Export Tree.
Open Scope string_scope.
Open Scope list_scope.
Open Scope N_scope.

Record matrix := mkMatrix {
  mx_a : Z; mx_b : Z; mx_u : Z; mx_c : Z; mx_d : Z; mx_v : Z; mx_x : Z; mx_y : Z; mx_w : Z }.

Definition matrix_default : matrix := mkMatrix 65536 0 0 0 65536 0 0 0 1073741824.

Definition matrix_wf (x : matrix) : bool :=
  sfit 4 (mx_a x) && sfit 4 (mx_b x) && sfit 4 (mx_u x)
  && sfit 4 (mx_c x) && sfit 4 (mx_d x) && sfit 4 (mx_v x)
  && sfit 4 (mx_x x) && sfit 4 (mx_y x) && sfit 4 (mx_w x).

Record mvhd := mkMvhd {
  mvhd_version : N; mvhd_flags : N; mvhd_creation_time : N; mvhd_modification_time : N;
  mvhd_timescale : N; mvhd_duration : N; mvhd_rate : N; mvhd_volume : N;
  mvhd_matrix : matrix; mvhd_next_track_id : N }.

Definition mvhd_default : mvhd :=
  mkMvhd 0 0 0 0 1000 0 (fp16_new 1) (fp8_new 1) matrix_default 1.

Definition mvhd_size (v : mvhd) : N :=
  HEADER_SIZE + HEADER_EXT_SIZE
  + (if mvhd_version v =? 1 then 28 else if mvhd_version v =? 0 then 16 else 0) + 80.

Definition mvhd_wf (v : mvhd) : bool :=
  (mvhd_version v <? 2) && ufit 3 (mvhd_flags v)
  && (if mvhd_version v =? 1
      then ufit 8 (mvhd_creation_time v) && ufit 8 (mvhd_modification_time v) && ufit 8 (mvhd_duration v)
      else ufit 4 (mvhd_creation_time v) && ufit 4 (mvhd_modification_time v) && ufit 4 (mvhd_duration v))
  && ufit 4 (mvhd_timescale v) && ufit 4 (mvhd_rate v) && ufit 2 (mvhd_volume v)
  && matrix_wf (mvhd_matrix v) && ufit 4 (mvhd_next_track_id v).

Definition rd_matrix : prog matrix :=
  a <- rd_i32 ;; b <- rd_i32 ;; u <- rd_i32 ;; c <- rd_i32 ;; d <- rd_i32 ;;
  v <- rd_i32 ;; x <- rd_i32 ;; y <- rd_i32 ;; w <- rd_i32 ;;
  Ret (mkMatrix a b u c d v x y w).

Definition dec_mvhd (m : mode) (size : N) : prog mvhd :=
  start <- box_start m ;;
  '(version, flags) <- read_header_ext ;;
  '(ct, mt, ts, dur) <-
     (if version =? 1 then
        a <- rd_u64 ;; b <- rd_u64 ;; c <- rd_u32 ;; d <- rd_u64 ;; Ret (a, b, c, d)
      else if version =? 0 then
        a <- rd_u32 ;; b <- rd_u32 ;; c <- rd_u32 ;; d <- rd_u32 ;; Ret (a, b, c, d)
      else Throw EData) ;;
  rate <- rd_u32 ;;
  volume <- rd_u16 ;;
  _ <- rd_u16 ;;
  _ <- rd_u64 ;;
  mx <- rd_matrix ;;
  skip_bytes 24 ;;;
  next <- rd_u32 ;;
  e <- add64 m "mvhd start+size" start size ;;
  skip_bytes_to e ;;;
  Ret (mkMvhd version flags ct mt ts dur rate volume mx next).

Open Scope wprog_scope.
Definition wr_matrix (x : matrix) : wprog unit :=
  wr_i32 (mx_a x) ;;; wr_i32 (mx_b x) ;;; wr_i32 (mx_u x) ;;; wr_i32 (mx_c x) ;;; wr_i32 (mx_d x) ;;;
  wr_i32 (mx_v x) ;;; wr_i32 (mx_x x) ;;; wr_i32 (mx_y x) ;;; wr_i32 (mx_w x).

Definition enc_mvhd (v : mvhd) : wprog N :=
  let size := mvhd_size v in
  write_header (box_type_of "MvhdBox") size ;;;
  write_header_ext (mvhd_version v) (mvhd_flags v) ;;;
  (if mvhd_version v =? 1 then
     wr_u64 (mvhd_creation_time v) ;;; wr_u64 (mvhd_modification_time v) ;;;
     wr_u32 (mvhd_timescale v) ;;; wr_u64 (mvhd_duration v)
   else if mvhd_version v =? 0 then
     wr_u32 (cast_w U32 (mvhd_creation_time v)) ;;; wr_u32 (cast_w U32 (mvhd_modification_time v)) ;;;
     wr_u32 (mvhd_timescale v) ;;; wr_u32 (cast_w U32 (mvhd_duration v))
   else WThrow EData) ;;;
  wr_u32 (mvhd_rate v) ;;; wr_u16 (mvhd_volume v) ;;; wr_u16 0 ;;; wr_u64 0 ;;;
  wr_matrix (mvhd_matrix v) ;;;
  wr_zeros 24 ;;;
  wr_u32 (mvhd_next_track_id v) ;;;
  WRet size.
Close Scope wprog_scope.

Definition show_matrix (x : matrix) : tree :=
  TRec "Matrix" [("a", TInt (mx_a x)); ("b", TInt (mx_b x)); ("u", TInt (mx_u x));
                 ("c", TInt (mx_c x)); ("d", TInt (mx_d x)); ("v", TInt (mx_v x));
                 ("x", TInt (mx_x x)); ("y", TInt (mx_y x)); ("w", TInt (mx_w x))].

Definition show_mvhd (v : mvhd) : tree :=
  TRec "MvhdBox" [("version", TNum (mvhd_version v)); ("flags", TNum (mvhd_flags v));
                  ("creation_time", TNum (mvhd_creation_time v));
                  ("modification_time", TNum (mvhd_modification_time v));
                  ("timescale", TNum (mvhd_timescale v)); ("duration", TNum (mvhd_duration v));
                  ("rate", show_fp16 (mvhd_rate v)); ("volume", show_fp8 (mvhd_volume v));
                  ("matrix", show_matrix (mvhd_matrix v));
                  ("next_track_id", TNum (mvhd_next_track_id v))].
