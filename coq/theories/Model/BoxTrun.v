(** trun.rs *)
From MP4 Require Export Tree VlLib.
From MP4 Require Tables.
Open Scope string_scope.
Open Scope list_scope.
Open Scope N_scope.

Record trun := mkTrun {
  trun_version : N;
  trun_flags : N;
  trun_sample_count : N;
  trun_data_offset : option Z;            (* Option<i32> *)
  trun_first_sample_flags : option N;
  trun_sample_durations : list N;
  trun_sample_sizes : list N;
  trun_sample_flags : list N;
  trun_sample_cts : list N
}.

Definition trun_flag_const (name : string) : N :=
  match lookup_s name Tables.TrunBox_flags with Some v => v | None => 0 end.
Definition trun_FLAG_DATA_OFFSET : N := trun_flag_const "FLAG_DATA_OFFSET".
Definition trun_FLAG_FIRST_SAMPLE_FLAGS : N := trun_flag_const "FLAG_FIRST_SAMPLE_FLAGS".
Definition trun_FLAG_SAMPLE_DURATION : N := trun_flag_const "FLAG_SAMPLE_DURATION".
Definition trun_FLAG_SAMPLE_SIZE : N := trun_flag_const "FLAG_SAMPLE_SIZE".
Definition trun_FLAG_SAMPLE_FLAGS : N := trun_flag_const "FLAG_SAMPLE_FLAGS".
Definition trun_FLAG_SAMPLE_CTS : N := trun_flag_const "FLAG_SAMPLE_CTS".

(** [TrunBox::FLAG_X & flags > 0] *)
Definition trun_has (flag flags : N) : bool := 0 <? N.land flag flags.

(** [#[derive(Default)]] *)
Definition trun_default : trun := mkTrun 0 0 0 None None [] [] [] [].

(** [get_size]: sums of at most [4 * u32] terms, far below 2^64 *)
Definition trun_size (v : trun) : N :=
  let f := trun_flags v in
  HEADER_SIZE + HEADER_EXT_SIZE + 4
  + (if trun_has trun_FLAG_DATA_OFFSET f then 4 else 0)
  + (if trun_has trun_FLAG_FIRST_SAMPLE_FLAGS f then 4 else 0)
  + (if trun_has trun_FLAG_SAMPLE_DURATION f then 4 * trun_sample_count v else 0)
  + (if trun_has trun_FLAG_SAMPLE_SIZE f then 4 * trun_sample_count v else 0)
  + (if trun_has trun_FLAG_SAMPLE_FLAGS f then 4 * trun_sample_count v else 0)
  + (if trun_has trun_FLAG_SAMPLE_CTS f then 4 * trun_sample_count v else 0).

(** a per-sample vector is present (with [sample_count] 32-bit entries) exactly when its flag is set *)
Definition trun_vec_wf (present : bool) (count : N) (l : list N) : bool :=
  if present then (lenN l =? count) && forallb (ufit 4) l
  else match l with [] => true | _ => false end.

Definition trun_wf (v : trun) : bool :=
  let f := trun_flags v in
  ufit 1 (trun_version v) && ufit 3 f && ufit 4 (trun_sample_count v)
  && match trun_data_offset v with
     | Some z => trun_has trun_FLAG_DATA_OFFSET f && sfit 4 z
     | None => negb (trun_has trun_FLAG_DATA_OFFSET f)
     end
  && match trun_first_sample_flags v with
     | Some x => trun_has trun_FLAG_FIRST_SAMPLE_FLAGS f && ufit 4 x
     | None => negb (trun_has trun_FLAG_FIRST_SAMPLE_FLAGS f)
     end
  && trun_vec_wf (trun_has trun_FLAG_SAMPLE_DURATION f) (trun_sample_count v) (trun_sample_durations v)
  && trun_vec_wf (trun_has trun_FLAG_SAMPLE_SIZE f) (trun_sample_count v) (trun_sample_sizes v)
  && trun_vec_wf (trun_has trun_FLAG_SAMPLE_FLAGS f) (trun_sample_count v) (trun_sample_flags v)
  && trun_vec_wf (trun_has trun_FLAG_SAMPLE_CTS f) (trun_sample_count v) (trun_sample_cts v).

(** one optional 32-bit per-sample field: [if FLAG & flags > 0 { let x = read_u32()?; vec.push(x) }] *)
Definition trun_rd_opt (present : bool) : prog (option N) :=
  if present then x <- rd_u32 ;; Ret (Some x) else Ret None.

Definition trun_olist {A} (o : option A) : list A :=
  match o with Some x => [x] | None => [] end.

(** one iteration of the per-sample loop: what it pushes onto the four vectors *)
Definition trun_row : Type := option N * option N * option N * option N.
Definition trun_rd_row (flags : N) : prog trun_row :=
  d <- trun_rd_opt (trun_has trun_FLAG_SAMPLE_DURATION flags) ;;
  s <- trun_rd_opt (trun_has trun_FLAG_SAMPLE_SIZE flags) ;;
  f <- trun_rd_opt (trun_has trun_FLAG_SAMPLE_FLAGS flags) ;;
  c <- trun_rd_opt (trun_has trun_FLAG_SAMPLE_CTS flags) ;;
  Ret (d, s, f, c).

Definition trun_row_d (r : trun_row) : option N := fst (fst (fst r)).
Definition trun_row_s (r : trun_row) : option N := snd (fst (fst r)).
Definition trun_row_f (r : trun_row) : option N := snd (fst r).
Definition trun_row_c (r : trun_row) : option N := snd r.

Definition dec_trun (m : mode) (size : N) : prog trun :=
  start <- box_start m ;;
  '(version, flags) <- read_header_ext ;;
  let header_size := HEADER_SIZE + HEADER_EXT_SIZE in
  let other_size := 4 + (if trun_has trun_FLAG_DATA_OFFSET flags then 4 else 0)
                      + (if trun_has trun_FLAG_FIRST_SAMPLE_FLAGS flags then 4 else 0) in
  let sample_size := (if trun_has trun_FLAG_SAMPLE_DURATION flags then 4 else 0)
                     + (if trun_has trun_FLAG_SAMPLE_SIZE flags then 4 else 0)
                     + (if trun_has trun_FLAG_SAMPLE_FLAGS flags then 4 else 0)
                     + (if trun_has trun_FLAG_SAMPLE_CTS flags then 4 else 0) in
  sample_count <- rd_u32 ;;
  data_offset <- (if trun_has trun_FLAG_DATA_OFFSET flags
                  then x <- rd_i32 ;; Ret (Some x) else Ret None) ;;
  first_sample_flags <- (if trun_has trun_FLAG_FIRST_SAMPLE_FLAGS flags
                         then x <- rd_u32 ;; Ret (Some x) else Ret None) ;;
  (* u64::from(sample_count) * sample_size as u64 <= 2^32 * 16: no overflow;
     both [saturating_sub]s are truncated subtractions *)
  if (size - header_size - other_size) <? sample_count * sample_size then Throw EData
  else
    (if trun_has trun_FLAG_SAMPLE_DURATION flags then alloc (sample_count * 4) else Ret tt) ;;;
    (if trun_has trun_FLAG_SAMPLE_SIZE flags then alloc (sample_count * 4) else Ret tt) ;;;
    (if trun_has trun_FLAG_SAMPLE_FLAGS flags then alloc (sample_count * 4) else Ret tt) ;;;
    (if trun_has trun_FLAG_SAMPLE_CTS flags then alloc (sample_count * 4) else Ret tt) ;;;
    (* Without any per-sample field there is nothing to read. *)
    let entry_count := if 0 <? sample_size then sample_count else 0 in
    rows <- rd_n (N.to_nat entry_count) (trun_rd_row flags) ;;
    e <- add64 m "trun start+size" start size ;;
    skip_bytes_to e ;;;
    Ret (mkTrun version flags sample_count data_offset first_sample_flags
                (flat_map (fun r => trun_olist (trun_row_d r)) rows)
                (flat_map (fun r => trun_olist (trun_row_s r)) rows)
                (flat_map (fun r => trun_olist (trun_row_f r)) rows)
                (flat_map (fun r => trun_olist (trun_row_c r)) rows)).

(** [self.sample_xxx[i]]: an index out of bounds panics *)
Definition trun_wr_at (present : bool) (l : list N) (i : nat) : wprog unit :=
  if present then
    match nth_error l i with
    | Some x => wr_u32 x
    | None => WCrash "trun write_box: index out of bounds"
    end
  else WRet tt.

Open Scope wprog_scope.
Definition trun_wr_row (v : trun) (i : nat) : wprog unit :=
  let f := trun_flags v in
  trun_wr_at (trun_has trun_FLAG_SAMPLE_DURATION f) (trun_sample_durations v) i ;;;
  trun_wr_at (trun_has trun_FLAG_SAMPLE_SIZE f) (trun_sample_sizes v) i ;;;
  trun_wr_at (trun_has trun_FLAG_SAMPLE_FLAGS f) (trun_sample_flags v) i ;;;
  trun_wr_at (trun_has trun_FLAG_SAMPLE_CTS f) (trun_sample_cts v) i.

Definition enc_trun (v : trun) : wprog N :=
  let size := trun_size v in
  let f := trun_flags v in
  write_header (box_type_of "TrunBox") size ;;;
  write_header_ext (trun_version v) f ;;;
  wr_u32 (trun_sample_count v) ;;;
  match trun_data_offset v with Some z => wr_i32 z | None => WRet tt end ;;;
  match trun_first_sample_flags v with Some x => wr_u32 x | None => WRet tt end ;;;
  let sample_count := trun_sample_count v in
  if (trun_has trun_FLAG_SAMPLE_DURATION f && negb (lenN (trun_sample_durations v) =? sample_count))
     || (trun_has trun_FLAG_SAMPLE_SIZE f && negb (lenN (trun_sample_sizes v) =? sample_count))
     || (trun_has trun_FLAG_SAMPLE_FLAGS f && negb (lenN (trun_sample_flags v) =? sample_count))
     || (trun_has trun_FLAG_SAMPLE_CTS f && negb (lenN (trun_sample_cts v) =? sample_count))
  then WThrow EData
  else
    vl_wr_each (trun_wr_row v) (seq 0 (N.to_nat sample_count)) ;;;   (* for i in 0..sample_count *)
    WRet size.
Close Scope wprog_scope.

(** the four vectors are [#[serde(skip_serializing)]] but derived [Debug] prints them *)
Definition show_trun (v : trun) : tree :=
  TRec "TrunBox" [("version", TNum (trun_version v)); ("flags", TNum (trun_flags v));
                  ("sample_count", TNum (trun_sample_count v));
                  ("data_offset", topt TInt (trun_data_offset v));
                  ("first_sample_flags", topt TNum (trun_first_sample_flags v));
                  ("sample_durations", tnums (trun_sample_durations v));
                  ("sample_sizes", tnums (trun_sample_sizes v));
                  ("sample_flags", tnums (trun_sample_flags v));
                  ("sample_cts", tnums (trun_sample_cts v))].

Example trun_smoke :
  let v := mkTrun 0 0xB05 2 (Some (-7)%Z) (Some 9) [10; 11] [20; 21] [] [30; 31] in
  fst (run (h <- read_header ;; dec_trun Dbg (snd h)) (stream_at (wout (enc_trun v)) 0)) = Ok v.
Proof. vm_compute. reflexivity. Qed.
