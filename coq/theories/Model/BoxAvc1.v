(** avc1.rs: [Avc1Box], [AvcCBox], [NalUnit] *)
From MP4 Require Export PrimCodecs.
Open Scope string_scope.
Open Scope list_scope.
Open Scope N_scope.

(** ** NalUnit *)
Record nalunit := mkNalUnit { nalunit_bytes : bytes }.

Definition nalunit_default : nalunit := mkNalUnit [].

(** [NalUnit::size]: [2 + self.bytes.len()] *)
Definition nalunit_size (u : nalunit) : N := 2 + lenN (nalunit_bytes u).

Definition nalunit_wf (u : nalunit) : bool :=
  ufit 2 (lenN (nalunit_bytes u)) && bytes_ok (nalunit_bytes u).

(** [NalUnit::read] *)
Definition dec_nalunit : prog nalunit :=
  length <- rd_u16 ;;
  bytes <- rd_vec length ;;
  Ret (mkNalUnit bytes).

Open Scope wprog_scope.
(** [NalUnit::write] *)
Definition enc_nalunit (u : nalunit) : wprog N :=
  wr_u16 (cast_w U16 (lenN (nalunit_bytes u))) ;;;
  wr (nalunit_bytes u) ;;;
  WRet (nalunit_size u).
Close Scope wprog_scope.

Definition show_nalunit (u : nalunit) : tree :=
  TRec "NalUnit" [("bytes", tnums (nalunit_bytes u))].

(** ** AvcCBox *)
Record avcc := mkAvcC {
  avcc_configuration_version : N;
  avcc_avc_profile_indication : N;
  avcc_profile_compatibility : N;
  avcc_avc_level_indication : N;
  avcc_length_size_minus_one : N;
  avcc_sequence_parameter_sets : list nalunit;
  avcc_picture_parameter_sets : list nalunit }.

Definition avcc_default : avcc := mkAvcC 0 0 0 0 0 [] [].

(** [AvcCBox::new(sps, pps)]: indexes [sps[1]], [sps[2]], [sps[3]] (panics on a short SPS);
    note [length_size_minus_one: 0xff]. *)
Definition avcc_new (sps pps : bytes) : res avcc :=
  match nth_error sps 1 with
  | None => Panic "AvcCBox::new sps[1]"
  | Some a =>
      match nth_error sps 2 with
      | None => Panic "AvcCBox::new sps[2]"
      | Some b =>
          match nth_error sps 3 with
          | None => Panic "AvcCBox::new sps[3]"
          | Some c => Ok (mkAvcC 1 a b c 255 [mkNalUnit sps] [mkNalUnit pps])
          end
      end
  end.

(** [box_size]: [HEADER_SIZE + 7] plus the sizes of all parameter sets *)
Definition avcc_size (v : avcc) : N :=
  fold_left (fun size u => size + nalunit_size u) (avcc_picture_parameter_sets v)
    (fold_left (fun size u => size + nalunit_size u) (avcc_sequence_parameter_sets v)
       (HEADER_SIZE + 7)).

Definition avcc_wf (v : avcc) : bool :=
  ufit 1 (avcc_configuration_version v) && ufit 1 (avcc_avc_profile_indication v)
  && ufit 1 (avcc_profile_compatibility v) && ufit 1 (avcc_avc_level_indication v)
  && (avcc_length_size_minus_one v <? 4)
  && (lenN (avcc_sequence_parameter_sets v) <? 32)
  && forallb nalunit_wf (avcc_sequence_parameter_sets v)
  && (lenN (avcc_picture_parameter_sets v) <? 256)
  && forallb nalunit_wf (avcc_picture_parameter_sets v).

Definition dec_avcc (m : mode) (size : N) : prog avcc :=
  start <- box_start m ;;
  configuration_version <- rd_u8 ;;
  avc_profile_indication <- rd_u8 ;;
  profile_compatibility <- rd_u8 ;;
  avc_level_indication <- rd_u8 ;;
  b <- rd_u8 ;;
  let length_size_minus_one := N.land b 3 in
  b <- rd_u8 ;;
  let num_of_spss := N.land b 31 in
  alloc (num_of_spss * 24) ;;;
  sequence_parameter_sets <- rd_n (N.to_nat num_of_spss) dec_nalunit ;;
  num_of_ppss <- rd_u8 ;;
  alloc (num_of_ppss * 24) ;;;
  picture_parameter_sets <- rd_n (N.to_nat num_of_ppss) dec_nalunit ;;
  e <- add64 m "avcC start+size" start size ;;
  skip_bytes_to e ;;;
  Ret (mkAvcC configuration_version avc_profile_indication profile_compatibility
              avc_level_indication length_size_minus_one
              sequence_parameter_sets picture_parameter_sets).

Open Scope wprog_scope.
Definition enc_avcc (v : avcc) : wprog N :=
  let size := avcc_size v in
  write_header (box_type_of "AvcCBox") size ;;;
  wr_u8 (avcc_configuration_version v) ;;;
  wr_u8 (avcc_avc_profile_indication v) ;;;
  wr_u8 (avcc_profile_compatibility v) ;;;
  wr_u8 (avcc_avc_level_indication v) ;;;
  wr_u8 (N.lor (avcc_length_size_minus_one v) 252) ;;;
  wr_u8 (N.lor (cast_w U8 (lenN (avcc_sequence_parameter_sets v))) 224) ;;;
  wr_each enc_nalunit (avcc_sequence_parameter_sets v) ;;;
  wr_u8 (cast_w U8 (lenN (avcc_picture_parameter_sets v))) ;;;
  wr_each enc_nalunit (avcc_picture_parameter_sets v) ;;;
  WRet size.
Close Scope wprog_scope.

Definition show_avcc (v : avcc) : tree :=
  TRec "AvcCBox" [("configuration_version", TNum (avcc_configuration_version v));
                  ("avc_profile_indication", TNum (avcc_avc_profile_indication v));
                  ("profile_compatibility", TNum (avcc_profile_compatibility v));
                  ("avc_level_indication", TNum (avcc_avc_level_indication v));
                  ("length_size_minus_one", TNum (avcc_length_size_minus_one v));
                  ("sequence_parameter_sets", TList (map show_nalunit (avcc_sequence_parameter_sets v)));
                  ("picture_parameter_sets", TList (map show_nalunit (avcc_picture_parameter_sets v)))].

(** ** Avc1Box *)
Record avc1 := mkAvc1 {
  avc1_data_reference_index : N;
  avc1_width : N;
  avc1_height : N;
  avc1_horizresolution : N;   (* FixedPointU16, raw *)
  avc1_vertresolution : N;    (* FixedPointU16, raw *)
  avc1_frame_count : N;
  avc1_depth : N;
  avc1_avcc : avcc }.

Definition avc1_default : avc1 :=
  mkAvc1 0 0 0 (fp16_new 72) (fp16_new 72) 1 24 avcc_default.

(** [Avc1Box::new(&AvcConfig { width, height, seq_param_set, pic_param_set })] *)
Definition avc1_new (width height : N) (sps pps : bytes) : res avc1 :=
  res_bind (avcc_new sps pps) (fun c =>
  Ok (mkAvc1 1 width height (fp16_new 72) (fp16_new 72) 1 24 c)).

Definition avc1_size (v : avc1) : N := HEADER_SIZE + 8 + 70 + avcc_size (avc1_avcc v).

Definition avc1_wf (v : avc1) : bool :=
  ufit 2 (avc1_data_reference_index v) && ufit 2 (avc1_width v) && ufit 2 (avc1_height v)
  && ufit 4 (avc1_horizresolution v) && ufit 4 (avc1_vertresolution v)
  && ufit 2 (avc1_frame_count v) && ufit 2 (avc1_depth v)
  && avcc_wf (avc1_avcc v).

(** the child search loop of [Avc1Box::read_box]; one unit of fuel per iteration *)
Fixpoint avc1_find (m : mode) (fuel : nat) (start size e : N) : prog avcc :=
  match fuel with
  | O => Spin
  | S f =>
      current <- get_pos ;;
      if e <=? current then Throw EData
      else
        '(name, s) <- read_header ;;
        if size <? s then Throw EData
        else if s =? 0 then Throw EData
        else if boxtype_eqb name AvcCBox then
          avcc <- dec_avcc m s ;;
          e2 <- add64 m "avc1 start+size" start size ;;
          skip_bytes_to e2 ;;;
          Ret avcc
        else
          skip_box m s ;;;
          avc1_find m f start size e
  end.

Definition dec_avc1_fuel (fuel : nat) (m : mode) (size : N) : prog avc1 :=
  start <- box_start m ;;
  _ <- rd_u32 ;;
  _ <- rd_u16 ;;
  data_reference_index <- rd_u16 ;;
  _ <- rd_u32 ;;
  _ <- rd_u64 ;;
  _ <- rd_u32 ;;
  width <- rd_u16 ;;
  height <- rd_u16 ;;
  horizresolution <- rd_u32 ;;
  vertresolution <- rd_u32 ;;
  _ <- rd_u32 ;;
  frame_count <- rd_u16 ;;
  skip_bytes 32 ;;;
  depth <- rd_u16 ;;
  _ <- rd_i16 ;;
  e <- add64 m "avc1 start+size" start size ;;
  avcc <- avc1_find m fuel start size e ;;
  Ret (mkAvc1 data_reference_index width height horizresolution vertresolution
              frame_count depth avcc).

Definition dec_avc1 (m : mode) (size : N) : prog avc1 :=
  dec_avc1_fuel (N.to_nat size + 1) m size.

Open Scope wprog_scope.
Definition enc_avc1 (v : avc1) : wprog N :=
  let size := avc1_size v in
  write_header (box_type_of "Avc1Box") size ;;;
  wr_u32 0 ;;;
  wr_u16 0 ;;;
  wr_u16 (avc1_data_reference_index v) ;;;
  wr_u32 0 ;;;
  wr_u64 0 ;;;
  wr_u32 0 ;;;
  wr_u16 (avc1_width v) ;;;
  wr_u16 (avc1_height v) ;;;
  wr_u32 (avc1_horizresolution v) ;;;
  wr_u32 (avc1_vertresolution v) ;;;
  wr_u32 0 ;;;
  wr_u16 (avc1_frame_count v) ;;;
  wr_zeros 32 ;;;
  wr_u16 (avc1_depth v) ;;;
  wr_i16 (-1) ;;;
  enc_avcc (avc1_avcc v) ;;;
  WRet size.
Close Scope wprog_scope.

Definition show_avc1 (v : avc1) : tree :=
  TRec "Avc1Box" [("data_reference_index", TNum (avc1_data_reference_index v));
                  ("width", TNum (avc1_width v));
                  ("height", TNum (avc1_height v));
                  ("horizresolution", show_fp16 (avc1_horizresolution v));
                  ("vertresolution", show_fp16 (avc1_vertresolution v));
                  ("frame_count", TNum (avc1_frame_count v));
                  ("depth", TNum (avc1_depth v));
                  ("avcc", show_avcc (avc1_avcc v))].

(** smoke tests *)
Definition avc1_test : avc1 :=
  mkAvc1 1 320 240 (fp16_new 72) (fp16_new 72) 1 24
    (mkAvcC 1 100 0 13 3 [mkNalUnit [103; 100; 0; 13; 172; 217]] [mkNalUnit [104; 235; 227]; mkNalUnit []]).

Example avcc_smoke :
  fst (run (h <- read_header ;; dec_avcc Dbg (snd h)) (stream_at (wout (enc_avcc (avc1_avcc avc1_test))) 0))
  = Ok (avc1_avcc avc1_test).
Proof. vm_compute. reflexivity. Qed.

Example avc1_smoke :
  fst (run (h <- read_header ;; dec_avc1 Dbg (snd h)) (stream_at (wout (enc_avc1 avc1_test)) 0))
  = Ok avc1_test.
Proof. vm_compute. reflexivity. Qed.

Example avc1_smoke_default :
  fst (run (h <- read_header ;; dec_avc1 Rel (snd h)) (stream_at (wout (enc_avc1 avc1_default)) 0))
  = Ok avc1_default.
Proof. vm_compute. reflexivity. Qed.
