(** stts.rs *)
From MP4 Require Export TblPrim.
Open Scope string_scope.
Open Scope list_scope.
Open Scope N_scope.

Record stts_entry := mkSttsEntry { stts_e_sample_count : N; stts_e_sample_delta : N }.

Record stts := mkStts { stts_version : N; stts_flags : N; stts_entries : list stts_entry }.

Definition stts_entry_default : stts_entry := mkSttsEntry 0 0.
Definition stts_default : stts := mkStts 0 0 [].

Definition stts_size (v : stts) : N :=
  HEADER_SIZE + HEADER_EXT_SIZE + 4 + (8 * lenN (stts_entries v)).

Definition stts_entry_wf (e : stts_entry) : bool :=
  ufit 4 (stts_e_sample_count e) && ufit 4 (stts_e_sample_delta e).

Definition stts_wf (v : stts) : bool :=
  ufit 1 (stts_version v) && ufit 3 (stts_flags v)
  && ufit 4 (lenN (stts_entries v)) && forallb stts_entry_wf (stts_entries v).

Definition stts_rd_entry : prog stts_entry :=
  c <- rd_u32 ;; d <- rd_u32 ;; Ret (mkSttsEntry c d).

Definition dec_stts (m : mode) (size : N) : prog stts :=
  start <- box_start m ;;
  '(version, flags) <- read_header_ext ;;
  let header_size := HEADER_SIZE + HEADER_EXT_SIZE in
  let other_size := 4 in
  let entry_size := 4 + 4 in
  entry_count <- rd_u32 ;;
  if (size - header_size - other_size) / entry_size <? entry_count then Throw EData else
  alloc (entry_count * 8) ;;;
  entries <- rd_n (N.to_nat entry_count) stts_rd_entry ;;
  e <- add64 m "stts start+size" start size ;;
  skip_bytes_to e ;;;
  Ret (mkStts version flags entries).

Open Scope wprog_scope.
Definition stts_wr_entry (e : stts_entry) : wprog unit :=
  wr_u32 (stts_e_sample_count e) ;;; wr_u32 (stts_e_sample_delta e).

Definition enc_stts (v : stts) : wprog N :=
  let size := stts_size v in
  write_header (box_type_of "SttsBox") size ;;;
  write_header_ext (stts_version v) (stts_flags v) ;;;
  wr_u32 (cast_w U32 (lenN (stts_entries v))) ;;;
  tbl_wr_each stts_wr_entry (stts_entries v) ;;;
  WRet size.
Close Scope wprog_scope.

Definition show_stts_entry (e : stts_entry) : tree :=
  TRec "SttsEntry" [("sample_count", TNum (stts_e_sample_count e));
                    ("sample_delta", TNum (stts_e_sample_delta e))].

Definition show_stts (v : stts) : tree :=
  TRec "SttsBox" [("version", TNum (stts_version v)); ("flags", TNum (stts_flags v));
                  ("entries", TList (map show_stts_entry (stts_entries v)))].

Example stts_smoke :
  let v := mkStts 0 0 [mkSttsEntry 3 1000; mkSttsEntry 1 512] in
  fst (run (h <- read_header ;; dec_stts Dbg (snd h)) (stream_at (wout (enc_stts v)) 0)) = Ok v.
Proof. vm_compute. reflexivity. Qed.
