(** stsz.rs *)
From MP4 Require Export TblPrim.
Open Scope string_scope.
Open Scope list_scope.
Open Scope N_scope.

Record stsz := mkStsz {
  stsz_version : N; stsz_flags : N; stsz_sample_size : N; stsz_sample_count : N;
  stsz_sample_sizes : list N }.

Definition stsz_default : stsz := mkStsz 0 0 0 0 [].

(** [get_size] counts [sample_sizes] whatever [sample_size] is *)
Definition stsz_size (v : stsz) : N :=
  HEADER_SIZE + HEADER_EXT_SIZE + 8 + (4 * lenN (stsz_sample_sizes v)).

(** with [sample_size = 0] the table is on the wire and [sample_count] is its length;
    with [sample_size <> 0] there is no table *)
Definition stsz_wf (v : stsz) : bool :=
  ufit 1 (stsz_version v) && ufit 3 (stsz_flags v)
  && ufit 4 (stsz_sample_size v) && ufit 4 (stsz_sample_count v)
  && (if stsz_sample_size v =? 0
      then (stsz_sample_count v =? lenN (stsz_sample_sizes v)) && forallb (ufit 4) (stsz_sample_sizes v)
      else match stsz_sample_sizes v with [] => true | _ => false end).

Definition dec_stsz (m : mode) (size : N) : prog stsz :=
  start <- box_start m ;;
  '(version, flags) <- read_header_ext ;;
  let header_size := HEADER_SIZE + HEADER_EXT_SIZE in
  let other_size := 4 + 4 in
  sample_size <- rd_u32 ;;
  let stsz_item_size := if sample_size =? 0 then 4 else 0 in
  sample_count <- rd_u32 ;;
  sample_sizes <-
    (if sample_size =? 0 then
       q <- lift (div_w "stsz: / stsz_item_size" (size - header_size - other_size) stsz_item_size) ;;
       if q <? sample_count then Throw EData else
       alloc (sample_count * 4) ;;;
       rd_n (N.to_nat sample_count) rd_u32
     else Ret []) ;;
  e <- add64 m "stsz start+size" start size ;;
  skip_bytes_to e ;;;
  Ret (mkStsz version flags sample_size sample_count sample_sizes).

Open Scope wprog_scope.
Definition enc_stsz (v : stsz) : wprog N :=
  let size := stsz_size v in
  write_header (box_type_of "StszBox") size ;;;
  write_header_ext (stsz_version v) (stsz_flags v) ;;;
  wr_u32 (stsz_sample_size v) ;;;
  wr_u32 (stsz_sample_count v) ;;;
  (if stsz_sample_size v =? 0 then
     if negb (stsz_sample_count v =? cast_w U32 (lenN (stsz_sample_sizes v))) then WThrow EData
     else tbl_wr_each wr_u32 (stsz_sample_sizes v)
   else WRet tt) ;;;
  WRet size.
Close Scope wprog_scope.

Definition show_stsz (v : stsz) : tree :=
  TRec "StszBox" [("version", TNum (stsz_version v)); ("flags", TNum (stsz_flags v));
                  ("sample_size", TNum (stsz_sample_size v));
                  ("sample_count", TNum (stsz_sample_count v));
                  ("sample_sizes", tnums (stsz_sample_sizes v))].

Example stsz_smoke :
  let v := mkStsz 0 0 0 3 [100; 200; 4294967295] in
  fst (run (h <- read_header ;; dec_stsz Dbg (snd h)) (stream_at (wout (enc_stsz v)) 0)) = Ok v.
Proof. vm_compute. reflexivity. Qed.
Example stsz_smoke_fixed :
  let v := mkStsz 0 0 512 77 [] in
  fst (run (h <- read_header ;; dec_stsz Dbg (snd h)) (stream_at (wout (enc_stsz v)) 0)) = Ok v.
Proof. vm_compute. reflexivity. Qed.
