(** * Generic value trees (for the comparison with Rust's derived [Debug] output)

    [show_X : X -> tree] mirrors what [{:?}] prints for the Rust value:
    struct name and public field names in declaration order; [Vec<T>], arrays
    and [Bytes] are lists; [String] is [TStr] (its UTF-8 bytes); [Option] is
    [TNone]/[TSome]; a unit enum variant is [TEnum]; a tuple struct such as
    [FixedPointU16(Ratio{numer,denom})] is a record with fields "0", "1", ... *)
From MP4 Require Export Prim.
Open Scope string_scope.
Open Scope list_scope.
Open Scope N_scope.

Inductive tree : Type :=
| TNum (n : N)
| TInt (z : Z)
| TBool (b : bool)
| TStr (s : bytes)
| TFourCC (c : N)
| TList (l : list tree)
| TNone
| TSome (t : tree)
| TEnum (name : string)
| TRec (name : string) (fields : list (string * tree))
| TTuple (l : list tree).

Definition tnums (l : list N) : tree := TList (map TNum l).
Definition topt {A} (f : A -> tree) (o : option A) : tree :=
  match o with Some a => TSome (f a) | None => TNone end.

(** [FixedPointU8(Ratio { numer, denom })] etc.; the model keeps the raw numerator *)
Definition show_fp8 (raw : N) : tree :=
  TRec "FixedPointU8" [("0", TRec "Ratio" [("numer", TNum raw); ("denom", TNum 256)])].
Definition show_fp16 (raw : N) : tree :=
  TRec "FixedPointU16" [("0", TRec "Ratio" [("numer", TNum raw); ("denom", TNum 65536)])].
Definition show_fpi8 (raw : Z) : tree :=
  TRec "FixedPointI8" [("0", TRec "Ratio" [("numer", TInt raw); ("denom", TInt 256)])].
