(** stss.rs *)
From MP4 Require Export TblPrim.
Open Scope string_scope.
Open Scope list_scope.
Open Scope N_scope.

Record stss := mkStss { stss_version : N; stss_flags : N; stss_entries : list N }.

Definition stss_default : stss := mkStss 0 0 [].

Definition stss_size (v : stss) : N :=
  HEADER_SIZE + HEADER_EXT_SIZE + 4 + (4 * lenN (stss_entries v)).

Definition stss_wf (v : stss) : bool :=
  ufit 1 (stss_version v) && ufit 3 (stss_flags v)
  && ufit 4 (lenN (stss_entries v)) && forallb (ufit 4) (stss_entries v).

Definition dec_stss (m : mode) (size : N) : prog stss :=
  start <- box_start m ;;
  '(version, flags) <- read_header_ext ;;
  let header_size := HEADER_SIZE + HEADER_EXT_SIZE in
  let other_size := 4 in
  let entry_size := 4 in
  entry_count <- rd_u32 ;;
  if (size - header_size - other_size) / entry_size <? entry_count then Throw EData else
  alloc (entry_count * 4) ;;;
  entries <- rd_n (N.to_nat entry_count) rd_u32 ;;
  e <- add64 m "stss start+size" start size ;;
  skip_bytes_to e ;;;
  Ret (mkStss version flags entries).

Open Scope wprog_scope.
Definition enc_stss (v : stss) : wprog N :=
  let size := stss_size v in
  write_header (box_type_of "StssBox") size ;;;
  write_header_ext (stss_version v) (stss_flags v) ;;;
  wr_u32 (cast_w U32 (lenN (stss_entries v))) ;;;
  tbl_wr_each wr_u32 (stss_entries v) ;;;
  WRet size.
Close Scope wprog_scope.

Definition show_stss (v : stss) : tree :=
  TRec "StssBox" [("version", TNum (stss_version v)); ("flags", TNum (stss_flags v));
                  ("entries", tnums (stss_entries v))].

Example stss_smoke :
  let v := mkStss 0 0 [1; 25; 49] in
  fst (run (h <- read_header ;; dec_stss Dbg (snd h)) (stream_at (wout (enc_stss v)) 0)) = Ok v.
Proof. vm_compute. reflexivity. Qed.
