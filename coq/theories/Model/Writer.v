(** * The muxer (model of [Mp4TrackWriter] in src/track.rs and [Mp4Writer] in src/writer.rs)

    The model follows the Rust state machine field by field.  The sample
    tables a track writer accumulates are kept in the same shape the lookup
    model ([Track.v]) reads, so that "what the muxer wrote" and "what the
    reader looks up" meet in one type.  The output stream is an in-memory
    buffer that starts at an arbitrary position [base] (C13: output that
    starts at a non-zero stream position).  The bytes of the [moov] box are
    produced by the box encoders; this file produces everything else: table
    contents, chunk placement, header versions and durations, the mdat size
    form. Unchecked Rust arithmetic is written with [add_w]/[sub_w]/... so that
    the totality theorem (C17) is about the real overflow sites. *)
From MP4 Require Export Track.
Open Scope string_scope.
Open Scope list_scope.
Open Scope N_scope.

(** [Mp4Sample] as the writer reads it ([start_time] is ignored by the muxer) *)
Record wsample := mkWSample {
  ws_duration : N; ws_rendering_offset : Z; ws_is_sync : bool; ws_bytes : bytes }.

Inductive media_conf :=
| AvcConf (width height : N) (sps pps : bytes)
| HevcConf (width height : N)
| Vp9Conf (width height : N)
| AacConf (bitrate : N) (profile freq_index chan_conf : string)
| TtxtConf.

Record track_conf := mkTrackConf {
  tc_track_type : string;      (* "Video" | "Audio" | "Subtitle" *)
  tc_timescale : N;
  tc_language : bytes;
  tc_media : media_conf }.

Record mp4_conf := mkMp4Conf {
  mc_major_brand : N; mc_minor_version : N; mc_compatible_brands : list N; mc_timescale : N }.

(** trak.mdia.minf.stbl.{stsc,stsz,co64,stts,ctts,stss} *)
Record wtables := mkWt {
  wt_stsc : list stsc_entry;
  wt_stsz_size : N; wt_stsz_count : N; wt_stsz_sizes : list N;
  wt_co64 : list N;
  wt_stts : list (N * N);
  wt_ctts : option (list (N * Z));
  wt_stss : option (list N) }.

(** trak.mdia.mdhd.{duration,version}, trak.tkhd.{duration,version} *)
Record whdr := mkWh { wh_mdhd_duration : N; wh_mdhd_version : N; wh_tkhd_duration : N; wh_tkhd_version : N }.

(** the writer's own mutable fields *)
Record wchunk := mkWc {
  wc_sample_id : N;
  wc_fixed_sample_size : N;
  wc_is_fixed_sample_size : bool;
  wc_chunk_samples : N;
  wc_chunk_duration : N;
  wc_chunk_buffer : bytes }.

Record twriter := mkTw {
  tw_conf : track_conf;
  tw_track_id : N;
  tw_samples_per_chunk : N;
  tw_duration_per_chunk : N;
  tw_t : wtables;
  tw_h : whdr;
  tw_c : wchunk }.

Definition U32MAX : N := U32 - 1.
Definition U64MAX : N := U64 - 1.

(** [Mp4TrackWriter::new] *)
Definition conf_check (c : track_conf) : res unit :=
  if tc_timescale c =? 0 then Err EData else
  match tc_media c with
  | AvcConf _ _ sps pps =>
      if lenN sps <? 4 then Err EData
      else if 65535 <? lenN sps then Err EData
      else if 65535 <? lenN pps then Err EData
      else Ok tt
  | _ => Ok tt
  end.

Definition tw_new (track_id : N) (c : track_conf) : res twriter :=
  res_bind (conf_check c) (fun _ =>
  Ok (mkTw c track_id 0 (tc_timescale c)
        (mkWt [] 0 0 [] [] [] None None)
        (mkWh 0 0 0 0)
        (mkWc 1 0 false 0 0 []))).

Section WithMode.
  Variable m : mode.

  (** [update_sample_sizes]; returns the tables and the two flags it touches *)
  Definition update_sample_sizes (t : wtables) (c : wchunk) (size : N) : res (wtables * wchunk) :=
    let '(ssize, sizes, fixed, isfixed) :=
      if wt_stsz_count t =? 0 then
        if size =? 0 then (0, wt_stsz_sizes t ++ [0], wc_fixed_sample_size c, false)
        else (size, wt_stsz_sizes t, size, true)
      else if wc_is_fixed_sample_size c then
        if negb (wc_fixed_sample_size c =? size) then
          let sizes1 := if 0 <? wt_stsz_size t
                        then wt_stsz_sizes t ++ repeatN (wc_fixed_sample_size c) (wt_stsz_count t)
                        else wt_stsz_sizes t in
          (0, sizes1 ++ [size], wc_fixed_sample_size c, false)
        else (wt_stsz_size t, wt_stsz_sizes t, wc_fixed_sample_size c, true)
      else (wt_stsz_size t, wt_stsz_sizes t ++ [size], wc_fixed_sample_size c, false) in
    res_bind (add_w m U32 "stsz.sample_count += 1" (wt_stsz_count t) 1) (fun cnt =>
    Ok (mkWt (wt_stsc t) ssize cnt sizes (wt_co64 t) (wt_stts t) (wt_ctts t) (wt_stss t),
        mkWc (wc_sample_id c) fixed isfixed (wc_chunk_samples c) (wc_chunk_duration c) (wc_chunk_buffer c))).

  (** push onto a run-length list: extend the last run if its value is [v], else append [(1, v)] *)
  Definition rl_push {V} (eqb : V -> V -> bool) (site : string) (l : list (N * V)) (v : V) : res (list (N * V)) :=
    match rev l with
    | (cnt, v') :: before =>
        if eqb v' v then res_bind (add_w m U32 site cnt 1) (fun c' => Ok (rev before ++ [(c', v')]))
        else Ok (l ++ [(1, v)])
    | [] => Ok (l ++ [(1, v)])
    end.

  (** [update_sample_times] *)
  Definition update_sample_times (t : wtables) (dur : N) : res wtables :=
    res_bind (rl_push N.eqb "stts entry.sample_count += 1" (wt_stts t) dur) (fun stts =>
    Ok (mkWt (wt_stsc t) (wt_stsz_size t) (wt_stsz_count t) (wt_stsz_sizes t) (wt_co64 t) stts (wt_ctts t) (wt_stss t))).

  (** [update_rendering_offsets] *)
  Definition update_rendering_offsets (t : wtables) (sample_id : N) (offset : Z) : res wtables :=
    let with_ctts (es : list (N * Z)) :=
      res_bind (rl_push Z.eqb "ctts entry.sample_count += 1" es offset) (fun es' =>
      Ok (mkWt (wt_stsc t) (wt_stsz_size t) (wt_stsz_count t) (wt_stsz_sizes t) (wt_co64 t) (wt_stts t)
               (Some es') (wt_stss t))) in
    match wt_ctts t with
    | Some es => with_ctts es
    | None =>
        if (offset =? 0)%Z then Ok t
        else if 1 <? sample_id
             then res_bind (sub_w m U32 "sample_id - 1" sample_id 1) (fun k => with_ctts [(k, 0%Z)])
             else with_ctts []
    end.

  (** [update_sync_samples] *)
  Definition update_sync_samples (t : wtables) (sample_id : N) (is_sync : bool) : wtables :=
    mkWt (wt_stsc t) (wt_stsz_size t) (wt_stsz_count t) (wt_stsz_sizes t) (wt_co64 t) (wt_stts t) (wt_ctts t)
         (Some (match wt_stss t with
                | Some l => if is_sync then l ++ [sample_id] else l
                | None => if is_sync then [sample_id] else []      (* created on the first sample *)
                end)).

  Definition is_chunk_full (w : twriter) (c : wchunk) : bool :=
    if 0 <? tw_samples_per_chunk w then tw_samples_per_chunk w <=? wc_chunk_samples c
    else tw_duration_per_chunk w <=? wc_chunk_duration c.

  (** [update_durations] *)
  Definition update_durations (w : twriter) (h : whdr) (dur movie_timescale : N) : res whdr :=
    res_bind (add_w m U64 "mdhd.duration += dur" (wh_mdhd_duration h) dur) (fun md =>
    let mv := if U32MAX <? md then 1 else wh_mdhd_version h in
    res_bind (div_w "tkhd duration / timescale" (md * movie_timescale) (tc_timescale (tw_conf w))) (fun q =>
    let td := if q <? U64 then q else U64MAX in
    let tv := if U32MAX <? td then 1 else wh_tkhd_version h in
    Ok (mkWh md mv td tv))).

  (** [write_chunk]: returns the tables, the chunk state, and the chunk written (offset, bytes) if any.
      [pos] is the writer's stream position. *)
  Definition write_chunk (t : wtables) (c : wchunk) (pos : N)
    : res (wtables * wchunk * option (N * bytes)) :=
    if wc_chunk_samples c =? 0 then Ok (t, c, None) else
    (* update_sample_to_chunk(self.chunk_count() + 1) *)
    res_bind (add_w m U32 "chunk_count() + 1" (cast_w U32 (lenN (wt_co64 t))) 1) (fun chunk_id =>
    res_bind
      (match rev (wt_stsc t) with
       | e :: _ => if sc_samples_per_chunk e =? wc_chunk_samples c then Ok (wt_stsc t) else
           res_bind (sub_w m U32 "sample_id - chunk_samples" (wc_sample_id c) (wc_chunk_samples c)) (fun d =>
           res_bind (add_w m U32 "sample_id - chunk_samples + 1" d 1) (fun fs =>
           Ok (wt_stsc t ++ [mkStsc chunk_id (wc_chunk_samples c) 1 fs])))
       | [] =>
           res_bind (sub_w m U32 "sample_id - chunk_samples" (wc_sample_id c) (wc_chunk_samples c)) (fun d =>
           res_bind (add_w m U32 "sample_id - chunk_samples + 1" d 1) (fun fs =>
           Ok (wt_stsc t ++ [mkStsc chunk_id (wc_chunk_samples c) 1 fs])))
       end) (fun stsc =>
    Ok (mkWt stsc (wt_stsz_size t) (wt_stsz_count t) (wt_stsz_sizes t) (wt_co64 t ++ [pos]) (wt_stts t)
             (wt_ctts t) (wt_stss t),
        mkWc (wc_sample_id c) (wc_fixed_sample_size c) (wc_is_fixed_sample_size c) 0 0 [],
        Some (pos, wc_chunk_buffer c)))).

  (** [Mp4TrackWriter::write_sample]: result = (new writer, chunk written if any, tkhd duration) *)
  Definition tw_write_sample (w : twriter) (pos : N) (s : wsample) (movie_timescale : N)
    : res (twriter * option (N * bytes) * N) :=
    if U32MAX <? lenN (ws_bytes s) then Err EData else
    if wc_sample_id (tw_c w) =? U32MAX then Err EData else
    let c0 := tw_c w in
    res_bind (add_w m U32 "chunk_samples += 1" (wc_chunk_samples c0) 1) (fun cs =>
    let c1 := mkWc (wc_sample_id c0) (wc_fixed_sample_size c0) (wc_is_fixed_sample_size c0) cs
                   (sat_add U32 (wc_chunk_duration c0) (ws_duration s)) (wc_chunk_buffer c0 ++ ws_bytes s) in
    res_bind (update_sample_sizes (tw_t w) c1 (cast_w U32 (lenN (ws_bytes s)))) (fun '(t1, c2) =>
    res_bind (update_sample_times t1 (ws_duration s)) (fun t2 =>
    res_bind (update_rendering_offsets t2 (wc_sample_id c2) (ws_rendering_offset s)) (fun t3 =>
    let t4 := update_sync_samples t3 (wc_sample_id c2) (ws_is_sync s) in
    res_bind (if is_chunk_full w c2 then write_chunk t4 c2 pos else Ok (t4, c2, None)) (fun '(t5, c3, wrote) =>
    res_bind (update_durations w (tw_h w) (ws_duration s) movie_timescale) (fun h1 =>
    res_bind (add_w m U32 "sample_id += 1" (wc_sample_id c3) 1) (fun sid =>
    let c4 := mkWc sid (wc_fixed_sample_size c3) (wc_is_fixed_sample_size c3) (wc_chunk_samples c3)
                   (wc_chunk_duration c3) (wc_chunk_buffer c3) in
    Ok (mkTw (tw_conf w) (tw_track_id w) (tw_samples_per_chunk w) (tw_duration_per_chunk w) t5 h1 c4,
        wrote, wh_tkhd_duration h1)))))))).

  (** what [Mp4TrackWriter::write_end] leaves in the [TrakBox] it returns *)
  Record tfinal := mkTf {
    tf_conf : track_conf; tf_track_id : N;
    tf_tables : tables;                 (* stco xor co64 decided; stsc with the writer's first_sample values *)
    tf_hdr : whdr;
    tf_max_sample_size : N              (* esds buffer_size_db before the 24-bit clamp *) }.

  Definition max_sample_size (t : wtables) : N :=
    if 0 <? wt_stsz_size t then wt_stsz_size t else fold_left N.max (wt_stsz_sizes t) 0.

  Definition tw_write_end (w : twriter) (pos : N) : res (twriter * option (N * bytes) * tfinal) :=
    res_bind (write_chunk (tw_t w) (tw_c w) pos) (fun '(t1, c1, wrote) =>
    let fits := forallb (fun o => o <=? U32MAX) (wt_co64 t1) in
    let tb := mkTables (wt_stsc t1) (wt_stsz_size t1) (wt_stsz_count t1) (wt_stsz_sizes t1)
                       (if fits then Some (wt_co64 t1) else None)
                       (if fits then None else Some (wt_co64 t1))
                       (wt_stts t1) (wt_ctts t1) (wt_stss t1) in
    Ok (mkTw (tw_conf w) (tw_track_id w) (tw_samples_per_chunk w) (tw_duration_per_chunk w) t1 (tw_h w) c1,
        wrote,
        mkTf (tw_conf w) (tw_track_id w) tb (tw_h w) (max_sample_size t1))).

  (** ** [Mp4Writer] *)
  Record mwriter := mkMw {
    mw_base : N;                 (* stream position at write_start *)
    mw_out : bytes;              (* bytes written from [mw_base] on *)
    mw_pos : N;                  (* current stream position (always mw_base + |mw_out| between calls) *)
    mw_tracks : list twriter;
    mw_mdat_pos : N;
    mw_timescale : N;
    mw_duration : N }.

  (** the [ftyp] box [write_start] emits (proved equal to [enc_ftyp] in the codec layer) *)
  Definition ftyp_bytes (c : mp4_conf) : bytes :=
    be 4 (cast_w U32 (16 + 4 * lenN (mc_compatible_brands c))) ++ be 4 0x66747970 ++
    be 4 (mc_major_brand c) ++ be 4 (mc_minor_version c) ++ flat_map (be 4) (mc_compatible_brands c).

  Definition mdat_wide_headers : bytes := be 4 8 ++ be 4 0x6d646174 ++ be 4 8 ++ be 4 0x77696465.

  Definition mw_write_start (base : N) (c : mp4_conf) : mwriter :=
    let f := ftyp_bytes c in
    let out := f ++ mdat_wide_headers in
    mkMw base out (base + lenN out) [] (base + lenN f) (mc_timescale c) 0.

  Definition mw_add_track (w : mwriter) (c : track_conf) : res mwriter :=
    let track_id := cast_w U32 (lenN (mw_tracks w)) in
    res_bind (add_w m U32 "tracks.len() as u32 + 1" track_id 1) (fun id =>
    res_bind (tw_new id c) (fun t =>
    Ok (mkMw (mw_base w) (mw_out w) (mw_pos w) (mw_tracks w ++ [t]) (mw_mdat_pos w) (mw_timescale w) (mw_duration w)))).

  Fixpoint replace_nth {A} (l : list A) (i : nat) (x : A) : list A :=
    match l, i with
    | [], _ => []
    | _ :: t, O => x :: t
    | h :: t, S j => h :: replace_nth t j x
    end.

  Definition emit (w : mwriter) (tracks : list twriter) (wrote : option (N * bytes)) (dur : N) : mwriter :=
    match wrote with
    | Some (_, b) => mkMw (mw_base w) (mw_out w ++ b) (mw_pos w + lenN b) tracks (mw_mdat_pos w) (mw_timescale w) dur
    | None => mkMw (mw_base w) (mw_out w) (mw_pos w) tracks (mw_mdat_pos w) (mw_timescale w) dur
    end.

  Definition mw_write_sample (w : mwriter) (track_id : N) (s : wsample) : res mwriter :=
    if track_id =? 0 then Err EData else
    match nthN (mw_tracks w) (track_id - 1) with
    | None => Err EData
    | Some t =>
        res_bind (tw_write_sample t (mw_pos w) s (mw_timescale w)) (fun '(t', wrote, td) =>
        Ok (emit w (replace_nth (mw_tracks w) (N.to_nat (track_id - 1)) t') wrote
                 (if mw_duration w <? td then td else mw_duration w)))
    end.

  (** [write_end] up to (not including) the encoding of [moov] *)
  Record mfinal := mkMf {
    mf_base : N;
    mf_out : bytes;                (* ftyp, mdat header (patched), wide / largesize, payload: everything before moov *)
    mf_mdat_pos : N;
    mf_mdat_size : N;
    mf_tracks : list tfinal;
    mf_mvhd_timescale : N; mf_mvhd_duration : N; mf_mvhd_version : N }.

  Fixpoint end_tracks (ts : list twriter) (w : mwriter) (acc : list tfinal) : res (mwriter * list tfinal) :=
    match ts with
    | [] => Ok (w, acc)
    | t :: rest =>
        res_bind (tw_write_end t (mw_pos w)) (fun '(_, wrote, tf) =>
        end_tracks rest (emit w (mw_tracks w) wrote (mw_duration w)) (acc ++ [tf]))
    end.

  (** overwrite [l] at offset [off] of [buf] (the two seeks + writes of [update_mdat_size]) *)
  Definition patch (buf : bytes) (off : N) (l : bytes) : bytes := write_at off l buf.

  Definition mw_write_end (w : mwriter) : res mfinal :=
    res_bind (end_tracks (mw_tracks w) w []) (fun '(w1, tfs) =>
    let mdat_end := mw_pos w1 in
    res_bind (sub_w m U64 "mdat_end - mdat_pos" mdat_end (mw_mdat_pos w1)) (fun mdat_size =>
    let off := mw_mdat_pos w1 - mw_base w1 in
    res_bind
      (if U32MAX <? mdat_size then
         res_bind (add_w m U64 "mdat_pos + 8" (mw_mdat_pos w1) 8) (fun _ =>
         Ok (patch (patch (mw_out w1) off (be 4 1)) (off + 8) (be 8 mdat_size)))
       else Ok (patch (mw_out w1) off (be 4 (cast_w U32 mdat_size)))) (fun out =>
    Ok (mkMf (mw_base w1) out (mw_mdat_pos w1) mdat_size tfs (mw_timescale w1) (mw_duration w1)
             (if U32MAX <? mw_duration w1 then 1 else 0))))).
End WithMode.

(** ** Histories *)
Inductive mux_op :=
| OpAddTrack (c : track_conf)
| OpWrite (track_id : N) (s : wsample).

(** run a history; each call's outcome class is recorded; a failing call leaves the writer unchanged
    (the Rust methods return before mutating anything when they fail on an in-memory stream) *)
Fixpoint run_ops (m : mode) (w : mwriter) (ops : list mux_op) (acc : list rclass) : res (mwriter * list rclass) :=
  match ops with
  | [] => Ok (w, acc)
  | op :: rest =>
      let r := match op with
               | OpAddTrack c => mw_add_track m w c
               | OpWrite id s => mw_write_sample m w id s
               end in
      match r with
      | Ok w' => run_ops m w' rest (acc ++ [COk])
      | Err e => run_ops m w rest (acc ++ [class_of (@Err unit e)])
      | Panic s => Panic s
      | OutOfFuel => OutOfFuel
      end
  end.

Definition run_mux (m : mode) (base : N) (c : mp4_conf) (ops : list mux_op) : res (list rclass * mfinal) :=
  res_bind (run_ops m (mw_write_start base c) ops []) (fun '(w, cls) =>
  res_bind (mw_write_end m w) (fun f => Ok (cls, f))).
