(** mdhd.rs *)
From MP4 Require Export Tree.
Open Scope string_scope.
Open Scope list_scope.
Open Scope N_scope.

Record mdhd := mkMdhd {
  mdhd_version : N; mdhd_flags : N; mdhd_creation_time : N; mdhd_modification_time : N;
  mdhd_timescale : N; mdhd_duration : N; mdhd_language : bytes }.

(** [String::from("und")] *)
Definition mdhd_default : mdhd := mkMdhd 0 0 0 0 1000 0 [117; 110; 100].

Definition mdhd_size (v : mdhd) : N :=
  HEADER_SIZE + HEADER_EXT_SIZE
  + (if mdhd_version v =? 1 then 28 else if mdhd_version v =? 0 then 16 else 0) + 4.

(** the strings [language_string] can produce: three characters, each 0x60 + a 5-bit value *)
Definition mdhd_lang_wf (s : bytes) : bool :=
  match s with
  | [a; b; c] => in_range 96 127 a && in_range 96 127 b && in_range 96 127 c
  | _ => false
  end.

Definition mdhd_wf (v : mdhd) : bool :=
  (mdhd_version v <? 2) && ufit 3 (mdhd_flags v)
  && (if mdhd_version v =? 1
      then ufit 8 (mdhd_creation_time v) && ufit 8 (mdhd_modification_time v) && ufit 8 (mdhd_duration v)
      else ufit 4 (mdhd_creation_time v) && ufit 4 (mdhd_modification_time v) && ufit 4 (mdhd_duration v))
  && ufit 4 (mdhd_timescale v) && mdhd_lang_wf (mdhd_language v).

Definition dec_mdhd (m : mode) (size : N) : prog mdhd :=
  start <- box_start m ;;
  '(version, flags) <- read_header_ext ;;
  '(ct, mt, ts, dur) <-
     (if version =? 1 then
        a <- rd_u64 ;; b <- rd_u64 ;; c <- rd_u32 ;; d <- rd_u64 ;; Ret (a, b, c, d)
      else if version =? 0 then
        a <- rd_u32 ;; b <- rd_u32 ;; c <- rd_u32 ;; d <- rd_u32 ;; Ret (a, b, c, d)
      else Throw EData) ;;
  code <- rd_u16 ;;
  let language := language_string code in
  e <- add64 m "mdhd start+size" start size ;;
  skip_bytes_to e ;;;
  Ret (mkMdhd version flags ct mt ts dur language).

Open Scope wprog_scope.
Definition enc_mdhd (v : mdhd) : wprog N :=
  let size := mdhd_size v in
  write_header (box_type_of "MdhdBox") size ;;;
  write_header_ext (mdhd_version v) (mdhd_flags v) ;;;
  (if mdhd_version v =? 1 then
     wr_u64 (mdhd_creation_time v) ;;; wr_u64 (mdhd_modification_time v) ;;;
     wr_u32 (mdhd_timescale v) ;;; wr_u64 (mdhd_duration v)
   else if mdhd_version v =? 0 then
     wr_u32 (cast_w U32 (mdhd_creation_time v)) ;;; wr_u32 (cast_w U32 (mdhd_modification_time v)) ;;;
     wr_u32 (mdhd_timescale v) ;;; wr_u32 (cast_w U32 (mdhd_duration v))
   else WThrow EData) ;;;
  wr_u16 (language_code (mdhd_language v)) ;;;
  wr_u16 0 ;;;
  WRet size.
Close Scope wprog_scope.

Definition show_mdhd (v : mdhd) : tree :=
  TRec "MdhdBox" [("version", TNum (mdhd_version v)); ("flags", TNum (mdhd_flags v));
                  ("creation_time", TNum (mdhd_creation_time v));
                  ("modification_time", TNum (mdhd_modification_time v));
                  ("timescale", TNum (mdhd_timescale v)); ("duration", TNum (mdhd_duration v));
                  ("language", TStr (mdhd_language v))].
