(** mvex.rs: [MvexBox] *)
From MP4 Require Export Loop BoxMehd BoxTrex.
Open Scope string_scope.
Open Scope list_scope.
Open Scope N_scope.

Record mvex := mkMvex {
  mvex_mehd : option mehd;
  mvex_trex : trex }.

(** [#[derive(Default)]] *)
Definition mvex_default : mvex := mkMvex None trex_default.

Definition mvex_size (v : mvex) : N :=
  HEADER_SIZE + match mvex_mehd v with Some x => mehd_size x | None => 0 end + trex_size (mvex_trex v).

Definition mvex_wf (v : mvex) : bool :=
  match mvex_mehd v with Some x => mehd_wf x | None => true end && trex_wf (mvex_trex v).

Definition mvex_acc : Type := option mehd * option trex.

Definition mvex_dispatch (m : mode) (fuel : nat) (name : boxtype) (s : N) (a : mvex_acc) : prog mvex_acc :=
  let '(me, tr) := a in
  match name with
  | MehdBox => x <- dec_mehd m s ;; Ret (Some x, tr)
  | TrexBox => x <- dec_trex m s ;; Ret (me, Some x)
  | _ => skip_box m s ;;; Ret a
  end.

Definition dec_mvex_fuel (fuel : nat) (m : mode) (size : N) : prog mvex :=
  start <- box_start m ;;
  current <- get_pos ;;
  end_ <- add64 m "mvex start+size" start size ;;
  a <- children_loop fuel m (Some size) true end_ (mvex_dispatch m) (None, None) current ;;
  let '(me, tr) := a in
  match tr with
  | Some t =>
      e <- add64 m "mvex start+size" start size ;;
      skip_bytes_to e ;;;
      Ret (mkMvex me t)
  | None => Throw EData                            (* BoxNotFound(TrexBox) *)
  end.

Open Scope wprog_scope.
Definition enc_mvex (v : mvex) : wprog N :=
  let size := mvex_size v in
  write_header (box_type_of "MvexBox") size ;;;
  match mvex_mehd v with Some x => enc_mehd x ;;; WRet tt | None => WRet tt end ;;;
  enc_trex (mvex_trex v) ;;;
  WRet size.
Close Scope wprog_scope.

Definition show_mvex (v : mvex) : tree :=
  TRec "MvexBox" [("mehd", topt show_mehd (mvex_mehd v)); ("trex", show_trex (mvex_trex v))].

Example mvex_smoke :
  fst (run (h <- read_header ;; dec_mvex_fuel 5 Dbg (snd h)) (stream_at (wout (enc_mvex mvex_default)) 0))
  = Ok mvex_default
  /\ let v := mkMvex (Some (mkMehd 1 0 5000000000)) (mkTrex 0 0 1 1 1000 0 0) in
     fst (run (h <- read_header ;; dec_mvex_fuel 5 Dbg (snd h)) (stream_at (wout (enc_mvex v)) 0)) = Ok v.
Proof. vm_compute. split; reflexivity. Qed.
