(** mdia.rs: [MdiaBox] *)
From MP4 Require Export BoxMinf BoxMdhd BoxHdlr.
Open Scope string_scope.
Open Scope list_scope.
Open Scope N_scope.

Record mdia := mkMdia {
  mdia_mdhd : mdhd;
  mdia_hdlr : hdlr;
  mdia_minf : minf }.

(** [#[derive(Default)]] *)
Definition mdia_default : mdia := mkMdia mdhd_default hdlr_default minf_default.

Definition mdia_size (v : mdia) : N :=
  HEADER_SIZE + mdhd_size (mdia_mdhd v) + hdlr_size (mdia_hdlr v) + minf_size (mdia_minf v).

Definition mdia_wf (v : mdia) : bool :=
  mdhd_wf (mdia_mdhd v) && hdlr_wf (mdia_hdlr v) && minf_wf (mdia_minf v).

Definition mdia_acc : Type := option mdhd * option hdlr * option minf.

Definition mdia_dispatch (m : mode) (fuel : nat) (name : boxtype) (s : N) (a : mdia_acc) : prog mdia_acc :=
  let '(md, hd, mi) := a in
  match name with
  | MdhdBox => x <- dec_mdhd m s ;; Ret (Some x, hd, mi)
  | HdlrBox => x <- dec_hdlr m s ;; Ret (md, Some x, mi)
  | MinfBox => x <- dec_minf_fuel fuel m s ;; Ret (md, hd, Some x)
  | _ => skip_box m s ;;; Ret a
  end.

Definition dec_mdia_fuel (fuel : nat) (m : mode) (size : N) : prog mdia :=
  start <- box_start m ;;
  current <- get_pos ;;
  end_ <- add64 m "mdia start+size" start size ;;
  a <- children_loop fuel m (Some size) true end_ (mdia_dispatch m) (None, None, None) current ;;
  let '(md, hd, mi) := a in
  match md, hd, mi with
  | Some d, Some h, Some i =>
      e <- add64 m "mdia start+size" start size ;;
      skip_bytes_to e ;;;
      Ret (mkMdia d h i)
  | _, _, _ => Throw EData                         (* BoxNotFound(MdhdBox / HdlrBox / MinfBox) *)
  end.

Open Scope wprog_scope.
Definition enc_mdia (m : mode) (v : mdia) : wprog N :=
  let size := mdia_size v in
  write_header (box_type_of "MdiaBox") size ;;;
  enc_mdhd (mdia_mdhd v) ;;;
  enc_hdlr (mdia_hdlr v) ;;;
  enc_minf m (mdia_minf v) ;;;
  WRet size.
Close Scope wprog_scope.

Definition show_mdia (v : mdia) : tree :=
  TRec "MdiaBox" [("mdhd", show_mdhd (mdia_mdhd v));
                  ("hdlr", show_hdlr (mdia_hdlr v));
                  ("minf", show_minf (mdia_minf v))].

Definition mdia_test : mdia :=
  mkMdia mdhd_default (mkHdlr 0 0 0x76696465 [86; 105; 100; 101; 111]) minf_test.

Example mdia_smoke :
  fst (run (h <- read_header ;; dec_mdia_fuel 20 Dbg (snd h)) (stream_at (wout (enc_mdia Dbg mdia_test)) 0))
  = Ok mdia_test.
Proof. vm_compute. reflexivity. Qed.
