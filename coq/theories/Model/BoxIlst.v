(** ilst.rs: [IlstBox], [IlstItemBox], and the [Metadata] impl for [IlstBox]

    [IlstBox::items] is a [HashMap<MetadataKey, IlstItemBox>].  The model is an association
    list in insertion order in which a key occurs at most once: [ilst_insert] removes an earlier
    binding of the key ([HashMap::insert] overwrites).  The iteration order of a [HashMap] is
    unspecified; [enc_ilst] writes the items in list order (any order is a possible behaviour
    of the Rust code) and [show_ilst] lists them in the fixed key order Title, Year, Poster,
    Summary, which is how the comparison harness normalises the [Debug] output. *)
From MP4 Require Export Loop PrimCodecs BoxData.
Open Scope string_scope.
Open Scope list_scope.
Open Scope N_scope.

(** [enum MetadataKey] (types.rs) *)
Inductive mkey := KTitle | KYear | KPoster | KSummary.

Definition mkey_eqb (a b : mkey) : bool :=
  match a, b with
  | KTitle, KTitle | KYear, KYear | KPoster, KPoster | KSummary, KSummary => true
  | _, _ => false
  end.
Definition mkey_name (k : mkey) : string :=
  match k with KTitle => "Title" | KYear => "Year" | KPoster => "Poster" | KSummary => "Summary" end.
Definition mkey_all : list mkey := [KTitle; KYear; KPoster; KSummary].

(** the box type [write_box] gives an item, and the one [read_box] recognises *)
Definition mkey_boxtype (k : mkey) : boxtype :=
  match k with KTitle => NameBox | KYear => DayBox | KPoster => CovrBox | KSummary => DescBox end.

(** ** IlstItemBox *)
Record ilst_item := mkIlstItem { ilst_item_data : data }.

Definition ilst_item_default : ilst_item := mkIlstItem data_default.

Definition ilst_item_size (v : ilst_item) : N := HEADER_SIZE + data_size (ilst_item_data v).

Definition ilst_item_wf (v : ilst_item) : bool := data_wf (ilst_item_data v).

Definition ilst_item_dispatch (m : mode) (fuel : nat) (name : boxtype) (s : N) (d : option data)
  : prog (option data) :=
  match name with
  | DataBox => x <- dec_data m s ;; Ret (Some x)
  | _ => skip_box m s ;;; Ret d
  end.

Definition dec_ilst_item_fuel (fuel : nat) (m : mode) (size : N) : prog ilst_item :=
  start <- box_start m ;;
  current <- get_pos ;;
  end_ <- add64 m "ilst item start+size" start size ;;
  d <- children_loop fuel m (Some size) true end_ (ilst_item_dispatch m) None current ;;
  match d with
  | None => Throw EData                            (* BoxNotFound(DataBox) *)
  | Some x =>
      e <- add64 m "ilst item start+size" start size ;;
      skip_bytes_to e ;;;
      Ret (mkIlstItem x)
  end.

Definition show_ilst_item (v : ilst_item) : tree :=
  TRec "IlstItemBox" [("data", show_data (ilst_item_data v))].

(** ** IlstBox *)
Record ilst := mkIlst { ilst_items : list (mkey * ilst_item) }.

(** [#[derive(Default)]]: the empty map *)
Definition ilst_default : ilst := mkIlst [].

(** [HashMap::insert] *)
Definition ilst_insert (k : mkey) (v : ilst_item) (l : list (mkey * ilst_item)) : list (mkey * ilst_item) :=
  filter (fun p => negb (mkey_eqb (fst p) k)) l ++ [(k, v)].

(** [HashMap::get]: with duplicate-free lists any occurrence is the one; for the record, the
    binding inserted last wins *)
Fixpoint ilst_get (k : mkey) (l : list (mkey * ilst_item)) : option ilst_item :=
  match l with
  | [] => None
  | (k', v) :: t =>
      match ilst_get k t with
      | Some v' => Some v'
      | None => if mkey_eqb k' k then Some v else None
      end
  end.

(** [get_size]: [for item in self.items.values() { size += item.get_size() }] *)
Definition ilst_size (v : ilst) : N :=
  HEADER_SIZE + sumN (map (fun p => ilst_item_size (snd p)) (ilst_items v)).

(** a list that is a map (each key at most once) with representable items *)
Fixpoint ilst_keys_nodup (l : list (mkey * ilst_item)) : bool :=
  match l with
  | [] => true
  | (k, _) :: t => negb (existsb (fun p => mkey_eqb (fst p) k) t) && ilst_keys_nodup t
  end.
Definition ilst_wf (v : ilst) : bool :=
  ilst_keys_nodup (ilst_items v) && forallb (fun p => ilst_item_wf (snd p)) (ilst_items v).

Definition ilst_dispatch (m : mode) (fuel : nat) (name : boxtype) (s : N) (l : list (mkey * ilst_item))
  : prog (list (mkey * ilst_item)) :=
  match name with
  | NameBox => x <- dec_ilst_item_fuel fuel m s ;; Ret (ilst_insert KTitle x l)
  | DayBox => x <- dec_ilst_item_fuel fuel m s ;; Ret (ilst_insert KYear x l)
  | CovrBox => x <- dec_ilst_item_fuel fuel m s ;; Ret (ilst_insert KPoster x l)
  | DescBox => x <- dec_ilst_item_fuel fuel m s ;; Ret (ilst_insert KSummary x l)
  | _ => skip_box m s ;;; Ret l
  end.

Definition dec_ilst_fuel (fuel : nat) (m : mode) (size : N) : prog ilst :=
  start <- box_start m ;;
  current <- get_pos ;;
  end_ <- add64 m "ilst start+size" start size ;;
  l <- children_loop fuel m (Some size) true end_ (ilst_dispatch m) [] current ;;
  e <- add64 m "ilst start+size" start size ;;
  skip_bytes_to e ;;;
  Ret (mkIlst l).

Open Scope wprog_scope.
(** [for (key, value) in &self.items { BoxHeader::new(name, value.get_size()).write(writer)?;
    value.data.write_box(writer)?; }] *)
Definition enc_ilst_entry (p : mkey * ilst_item) : wprog N :=
  write_header (mkey_boxtype (fst p)) (ilst_item_size (snd p)) ;;;
  enc_data (ilst_item_data (snd p)).

Definition enc_ilst (v : ilst) : wprog N :=
  let size := ilst_size v in
  write_header (box_type_of "IlstBox") size ;;;
  wr_each enc_ilst_entry (ilst_items v) ;;;
  WRet size.
Close Scope wprog_scope.

(** derived [Debug] of the map, in the fixed key order *)
Definition show_ilst (v : ilst) : tree :=
  TRec "IlstBox"
       [("items",
         TList (flat_map (fun k => match ilst_get k (ilst_items v) with
                                   | Some it => [TTuple [TEnum (mkey_name k); show_ilst_item it]]
                                   | None => []
                                   end) mkey_all))].

(** ** [impl Metadata for IlstBox] *)
Definition item_to_bytes (it : ilst_item) : bytes := data_data (ilst_item_data it).
(** [String::from_utf8_lossy] *)
Definition item_to_str (it : ilst_item) : bytes := utf8_lossy (data_data (ilst_item_data it)).
(** [DataType::Binary if len == 4 => Some(BigEndian::read_u32(..))],
    [DataType::Text => from_utf8_lossy(..).parse::<u32>().ok()], [_ => None] *)
Definition item_to_u32 (it : ilst_item) : option N :=
  let d := ilst_item_data it in
  if String.eqb (data_data_type d) "Binary" then
    (if lenN (data_data d) =? 4 then Some (unbe (data_data d)) else None)
  else if String.eqb (data_data_type d) "Text" then parse_u32 (utf8_lossy (data_data d))
  else None.

Definition ilst_title (v : ilst) : option bytes := option_map item_to_str (ilst_get KTitle (ilst_items v)).
Definition ilst_year (v : ilst) : option N :=
  match ilst_get KYear (ilst_items v) with Some it => item_to_u32 it | None => None end.
Definition ilst_poster (v : ilst) : option bytes := option_map item_to_bytes (ilst_get KPoster (ilst_items v)).
Definition ilst_summary (v : ilst) : option bytes := option_map item_to_str (ilst_get KSummary (ilst_items v)).

(** smoke tests (the second is ilst.rs's [test_ilst]; a repeated key keeps the later item) *)
Definition ilst_test : ilst :=
  mkIlst [(KTitle, ilst_item_default);
          (KYear, mkIlstItem (mkData [50; 48; 50; 52] "Text"));
          (KPoster, ilst_item_default);
          (KSummary, mkIlstItem (mkData [104; 105] "Text"))].

Example ilst_smoke :
  fst (run (h <- read_header ;; dec_ilst_fuel 10 Dbg (snd h)) (stream_at (wout (enc_ilst ilst_test)) 0))
  = Ok ilst_test
  /\ ilst_year ilst_test = Some 2024 /\ ilst_summary ilst_test = Some [104; 105].
Proof. vm_compute. repeat split; reflexivity. Qed.

Example ilst_smoke_overwrite :
  let a := mkIlstItem (mkData [1] "Binary") in
  let b := mkIlstItem (mkData [2] "Binary") in
  fst (run (h <- read_header ;; dec_ilst_fuel 10 Dbg (snd h))
           (stream_at (wout (enc_ilst (mkIlst [(KTitle, a); (KYear, a); (KTitle, b)]))) 0))
  = Ok (mkIlst [(KYear, a); (KTitle, b)]).
Proof. vm_compute. reflexivity. Qed.
