(** stbl.rs: [StblBox] *)
From MP4 Require Export BoxStsd BoxStts BoxCtts BoxStss BoxStsc BoxStsz BoxStco BoxCo64.
Open Scope string_scope.
Open Scope list_scope.
Open Scope N_scope.

Record stbl := mkStbl {
  stbl_stsd : stsd;
  stbl_stts : stts;
  stbl_ctts : option ctts;
  stbl_stss : option stss;
  stbl_stsc : stsc;
  stbl_stsz : stsz;
  stbl_stco : option stco;
  stbl_co64 : option co64 }.

(** [#[derive(Default)]] *)
Definition stbl_default : stbl :=
  mkStbl stsd_default stts_default None None stsc_default stsz_default None None.

Definition stbl_size (v : stbl) : N :=
  HEADER_SIZE
  + stsd_size (stbl_stsd v)
  + stts_size (stbl_stts v)
  + match stbl_ctts v with Some x => ctts_size x | None => 0 end
  + match stbl_stss v with Some x => stss_size x | None => 0 end
  + stsc_size (stbl_stsc v)
  + stsz_size (stbl_stsz v)
  + match stbl_stco v with Some x => stco_size x | None => 0 end
  + match stbl_co64 v with Some x => co64_size x | None => 0 end.

Definition stbl_wf (v : stbl) : bool :=
  stsd_wf (stbl_stsd v) && stts_wf (stbl_stts v)
  && match stbl_ctts v with Some x => ctts_wf x | None => true end
  && match stbl_stss v with Some x => stss_wf x | None => true end
  && stsc_wf (stbl_stsc v) && stsz_wf (stbl_stsz v)
  && match stbl_stco v with Some x => stco_wf x | None => true end
  && match stbl_co64 v with Some x => co64_wf x | None => true end.

(** the eight [let mut xxx = None;] of [read_box] *)
Record stbl_acc := mkStblAcc {
  sa_stsd : option stsd; sa_stts : option stts; sa_ctts : option ctts; sa_stss : option stss;
  sa_stsc : option stsc; sa_stsz : option stsz; sa_stco : option stco; sa_co64 : option co64 }.

Definition stbl_acc0 : stbl_acc := mkStblAcc None None None None None None None None.

(** the [match name { .. }] of the loop; [s > size] and [s == 0] are both guarded in stbl.rs *)
Definition stbl_dispatch (m : mode) (fuel : nat) (name : boxtype) (s : N) (a : stbl_acc) : prog stbl_acc :=
  match name with
  | StsdBox => x <- dec_stsd_fuel fuel m s ;;
      Ret (mkStblAcc (Some x) (sa_stts a) (sa_ctts a) (sa_stss a) (sa_stsc a) (sa_stsz a) (sa_stco a) (sa_co64 a))
  | SttsBox => x <- dec_stts m s ;;
      Ret (mkStblAcc (sa_stsd a) (Some x) (sa_ctts a) (sa_stss a) (sa_stsc a) (sa_stsz a) (sa_stco a) (sa_co64 a))
  | CttsBox => x <- dec_ctts m s ;;
      Ret (mkStblAcc (sa_stsd a) (sa_stts a) (Some x) (sa_stss a) (sa_stsc a) (sa_stsz a) (sa_stco a) (sa_co64 a))
  | StssBox => x <- dec_stss m s ;;
      Ret (mkStblAcc (sa_stsd a) (sa_stts a) (sa_ctts a) (Some x) (sa_stsc a) (sa_stsz a) (sa_stco a) (sa_co64 a))
  | StscBox => x <- dec_stsc m s ;;
      Ret (mkStblAcc (sa_stsd a) (sa_stts a) (sa_ctts a) (sa_stss a) (Some x) (sa_stsz a) (sa_stco a) (sa_co64 a))
  | StszBox => x <- dec_stsz m s ;;
      Ret (mkStblAcc (sa_stsd a) (sa_stts a) (sa_ctts a) (sa_stss a) (sa_stsc a) (Some x) (sa_stco a) (sa_co64 a))
  | StcoBox => x <- dec_stco m s ;;
      Ret (mkStblAcc (sa_stsd a) (sa_stts a) (sa_ctts a) (sa_stss a) (sa_stsc a) (sa_stsz a) (Some x) (sa_co64 a))
  | Co64Box => x <- dec_co64 m s ;;
      Ret (mkStblAcc (sa_stsd a) (sa_stts a) (sa_ctts a) (sa_stss a) (sa_stsc a) (sa_stsz a) (sa_stco a) (Some x))
  | _ => skip_box m s ;;; Ret a
  end.

Definition dec_stbl_fuel (fuel : nat) (m : mode) (size : N) : prog stbl :=
  start <- box_start m ;;
  current <- get_pos ;;
  end_ <- add64 m "stbl start+size" start size ;;
  a <- children_loop fuel m (Some size) true end_ (stbl_dispatch m) stbl_acc0 current ;;
  match sa_stsd a, sa_stts a, sa_stsc a, sa_stsz a with
  | Some sd, Some ts, Some sc, Some sz =>
      match sa_stco a, sa_co64 a with
      | None, None => Throw EData                  (* Box2NotFound(StcoBox, Co64Box) *)
      | _, _ =>
          e <- add64 m "stbl start+size" start size ;;
          skip_bytes_to e ;;;
          Ret (mkStbl sd ts (sa_ctts a) (sa_stss a) sc sz (sa_stco a) (sa_co64 a))
      end
  | _, _, _, _ => Throw EData                      (* BoxNotFound(..) *)
  end.

Open Scope wprog_scope.
Definition enc_stbl (m : mode) (v : stbl) : wprog N :=
  let size := stbl_size v in
  write_header (box_type_of "StblBox") size ;;;
  enc_stsd m (stbl_stsd v) ;;;
  enc_stts (stbl_stts v) ;;;
  match stbl_ctts v with Some x => enc_ctts x ;;; WRet tt | None => WRet tt end ;;;
  match stbl_stss v with Some x => enc_stss x ;;; WRet tt | None => WRet tt end ;;;
  enc_stsc (stbl_stsc v) ;;;
  enc_stsz (stbl_stsz v) ;;;
  match stbl_stco v with Some x => enc_stco x ;;; WRet tt | None => WRet tt end ;;;
  match stbl_co64 v with Some x => enc_co64 x ;;; WRet tt | None => WRet tt end ;;;
  WRet size.
Close Scope wprog_scope.

Definition show_stbl (v : stbl) : tree :=
  TRec "StblBox" [("stsd", show_stsd (stbl_stsd v));
                  ("stts", show_stts (stbl_stts v));
                  ("ctts", topt show_ctts (stbl_ctts v));
                  ("stss", topt show_stss (stbl_stss v));
                  ("stsc", show_stsc (stbl_stsc v));
                  ("stsz", show_stsz (stbl_stsz v));
                  ("stco", topt show_stco (stbl_stco v));
                  ("co64", topt show_co64 (stbl_co64 v))].

(** a sample table that decodes: the default one has neither stco nor co64 and is rejected *)
Definition stbl_test : stbl :=
  mkStbl (mkStsd 0 0 (Some avc1_test) None None None None)
         (mkStts 0 0 [mkSttsEntry 3 100])
         (Some (mkCtts 0 0 [mkCttsEntry 3 0%Z]))
         (Some (mkStss 0 0 [1]))
         (mkStsc 0 0 [mkStscEnt 1 3 1 1])
         (mkStsz 0 0 0 3 [10; 20; 30])
         (Some (mkStco 0 0 [48]))
         None.

Example stbl_smoke :
  fst (run (h <- read_header ;; dec_stbl_fuel 20 Dbg (snd h)) (stream_at (wout (enc_stbl Dbg stbl_test)) 0))
  = Ok stbl_test.
Proof. vm_compute. reflexivity. Qed.

Example stbl_smoke_default_rejected :
  fst (run (h <- read_header ;; dec_stbl_fuel 20 Dbg (snd h)) (stream_at (wout (enc_stbl Dbg stbl_default)) 0))
  = Err EData.
Proof. vm_compute. reflexivity. Qed.
