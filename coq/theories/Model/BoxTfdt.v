(** tfdt.rs *)
From MP4 Require Export Tree.
Open Scope string_scope.
Open Scope list_scope.
Open Scope N_scope.

Record tfdt := mkTfdt { tfdt_version : N; tfdt_flags : N; tfdt_base_media_decode_time : N }.

(** derived [Default] *)
Definition tfdt_default : tfdt := mkTfdt 0 0 0.

(** NB: [get_size] has a plain [else] (4 for every version other than 1), unlike mehd/mvhd *)
Definition tfdt_size (v : tfdt) : N :=
  HEADER_SIZE + HEADER_EXT_SIZE + (if tfdt_version v =? 1 then 8 else 4).

Definition tfdt_wf (v : tfdt) : bool :=
  (tfdt_version v <? 2) && ufit 3 (tfdt_flags v)
  && (if tfdt_version v =? 1 then ufit 8 (tfdt_base_media_decode_time v)
      else ufit 4 (tfdt_base_media_decode_time v)).

Definition dec_tfdt (m : mode) (size : N) : prog tfdt :=
  start <- box_start m ;;
  '(version, flags) <- read_header_ext ;;
  t <- (if version =? 1 then rd_u64
        else if version =? 0 then rd_u32
        else Throw EData) ;;
  e <- add64 m "tfdt start+size" start size ;;
  skip_bytes_to e ;;;
  Ret (mkTfdt version flags t).

Open Scope wprog_scope.
Definition enc_tfdt (v : tfdt) : wprog N :=
  let size := tfdt_size v in
  write_header (box_type_of "TfdtBox") size ;;;
  write_header_ext (tfdt_version v) (tfdt_flags v) ;;;
  (if tfdt_version v =? 1 then wr_u64 (tfdt_base_media_decode_time v)
   else if tfdt_version v =? 0 then wr_u32 (cast_w U32 (tfdt_base_media_decode_time v))
   else WThrow EData) ;;;
  WRet size.
Close Scope wprog_scope.

Definition show_tfdt (v : tfdt) : tree :=
  TRec "TfdtBox" [("version", TNum (tfdt_version v)); ("flags", TNum (tfdt_flags v));
                  ("base_media_decode_time", TNum (tfdt_base_media_decode_time v))].
