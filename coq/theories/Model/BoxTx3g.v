(** tx3g.rs *)
From MP4 Require Export Tree VlLib.
Open Scope string_scope.
Open Scope list_scope.
Open Scope N_scope.

Record rgba := mkRgba { rgba_red : N; rgba_green : N; rgba_blue : N; rgba_alpha : N }.

(** [#[derive(Default)]] of [RgbaColor] *)
Definition rgba_default : rgba := mkRgba 0 0 0 0.

Definition rgba_wf (c : rgba) : bool :=
  ufit 1 (rgba_red c) && ufit 1 (rgba_green c) && ufit 1 (rgba_blue c) && ufit 1 (rgba_alpha c).

Record tx3g := mkTx3g {
  tx3g_data_reference_index : N;
  tx3g_display_flags : N;
  tx3g_horizontal_justification : Z;
  tx3g_vertical_justification : Z;
  tx3g_bg_color_rgba : rgba;
  tx3g_box_record : list Z;       (* [i16; 4] *)
  tx3g_style_record : bytes       (* [u8; 12] *)
}.

(** [impl Default for Tx3gBox] *)
Definition tx3g_default : tx3g :=
  mkTx3g 0 0 1 (-1) (mkRgba 0 0 0 255) [0; 0; 0; 0]%Z [0; 0; 0; 0; 0; 1; 0; 16; 255; 255; 255; 255].

Definition tx3g_size (v : tx3g) : N := HEADER_SIZE + 6 + 32.

Definition tx3g_wf (v : tx3g) : bool :=
  ufit 2 (tx3g_data_reference_index v) && ufit 4 (tx3g_display_flags v)
  && sfit 1 (tx3g_horizontal_justification v) && sfit 1 (tx3g_vertical_justification v)
  && rgba_wf (tx3g_bg_color_rgba v)
  && (lenN (tx3g_box_record v) =? 4) && forallb (sfit 2) (tx3g_box_record v)
  && (lenN (tx3g_style_record v) =? 12) && forallb (ufit 1) (tx3g_style_record v).

Definition dec_tx3g (m : mode) (size : N) : prog tx3g :=
  start <- box_start m ;;
  _ <- rd_u32 ;;                                   (* reserved *)
  _ <- rd_u16 ;;                                   (* reserved *)
  data_reference_index <- rd_u16 ;;
  display_flags <- rd_u32 ;;
  horizontal_justification <- rd_i8 ;;
  vertical_justification <- rd_i8 ;;
  red <- rd_u8 ;; green <- rd_u8 ;; blue <- rd_u8 ;; alpha <- rd_u8 ;;
  b0 <- rd_i16 ;; b1 <- rd_i16 ;; b2 <- rd_i16 ;; b3 <- rd_i16 ;;
  s0 <- rd_u8 ;; s1 <- rd_u8 ;; s2 <- rd_u8 ;; s3 <- rd_u8 ;;
  s4 <- rd_u8 ;; s5 <- rd_u8 ;; s6 <- rd_u8 ;; s7 <- rd_u8 ;;
  s8 <- rd_u8 ;; s9 <- rd_u8 ;; s10 <- rd_u8 ;; s11 <- rd_u8 ;;
  e <- add64 m "tx3g start+size" start size ;;
  skip_bytes_to e ;;;
  Ret (mkTx3g data_reference_index display_flags horizontal_justification vertical_justification
              (mkRgba red green blue alpha) [b0; b1; b2; b3]
              [s0; s1; s2; s3; s4; s5; s6; s7; s8; s9; s10; s11]).

(** [self.box_record[n]] / [self.style_record[n]] index fixed-size arrays with [n] below their
    length: they cannot panic; a model list that is too short reads as 0 *)
Definition tx3g_box_at (v : tx3g) (n : nat) : Z := nth n (tx3g_box_record v) 0%Z.
Definition tx3g_style_at (v : tx3g) (n : nat) : N := nth n (tx3g_style_record v) 0.

Open Scope wprog_scope.
Definition enc_tx3g (v : tx3g) : wprog N :=
  let size := tx3g_size v in
  write_header (box_type_of "Tx3gBox") size ;;;
  wr_u32 0 ;;;                                     (* reserved *)
  wr_u16 0 ;;;                                     (* reserved *)
  wr_u16 (tx3g_data_reference_index v) ;;;
  wr_u32 (tx3g_display_flags v) ;;;
  wr_i8 (tx3g_horizontal_justification v) ;;;
  wr_i8 (tx3g_vertical_justification v) ;;;
  wr_u8 (rgba_red (tx3g_bg_color_rgba v)) ;;;
  wr_u8 (rgba_green (tx3g_bg_color_rgba v)) ;;;
  wr_u8 (rgba_blue (tx3g_bg_color_rgba v)) ;;;
  wr_u8 (rgba_alpha (tx3g_bg_color_rgba v)) ;;;
  vl_wr_each (fun n => wr_i16 (tx3g_box_at v n)) (seq 0 4) ;;;       (* for n in 0..4 *)
  vl_wr_each (fun n => wr_u8 (tx3g_style_at v n)) (seq 0 12) ;;;     (* for n in 0..12 *)
  WRet size.
Close Scope wprog_scope.

Definition show_rgba (c : rgba) : tree :=
  TRec "RgbaColor" [("red", TNum (rgba_red c)); ("green", TNum (rgba_green c));
                    ("blue", TNum (rgba_blue c)); ("alpha", TNum (rgba_alpha c))].

Definition show_tx3g (v : tx3g) : tree :=
  TRec "Tx3gBox" [("data_reference_index", TNum (tx3g_data_reference_index v));
                  ("display_flags", TNum (tx3g_display_flags v));
                  ("horizontal_justification", TInt (tx3g_horizontal_justification v));
                  ("vertical_justification", TInt (tx3g_vertical_justification v));
                  ("bg_color_rgba", show_rgba (tx3g_bg_color_rgba v));
                  ("box_record", TList (map TInt (tx3g_box_record v)));
                  ("style_record", tnums (tx3g_style_record v))].

Example tx3g_smoke :
  fst (run (h <- read_header ;; dec_tx3g Dbg (snd h)) (stream_at (wout (enc_tx3g tx3g_default)) 0))
  = Ok tx3g_default.
Proof. vm_compute. reflexivity. Qed.
