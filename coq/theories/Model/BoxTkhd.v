(** tkhd.rs ([Matrix] is shared with mvhd.rs and lives in BoxMvhd.v) *)
From MP4 Require Export BoxMvhd.
Open Scope string_scope.
Open Scope list_scope.
Open Scope N_scope.

(** [enum TrackFlag] (the other two variants are commented out in the source) *)
Definition tkhd_TrackEnabled : N := 0x000001.

Record tkhd := mkTkhd {
  tkhd_version : N; tkhd_flags : N; tkhd_creation_time : N; tkhd_modification_time : N;
  tkhd_track_id : N; tkhd_duration : N; tkhd_layer : N; tkhd_alternate_group : N;
  tkhd_volume : N; tkhd_matrix : matrix; tkhd_width : N; tkhd_height : N }.

Definition tkhd_default : tkhd :=
  mkTkhd 0 tkhd_TrackEnabled 0 0 0 0 0 0 (fp8_new 1) matrix_default (fp16_new 0) (fp16_new 0).

Definition tkhd_size (v : tkhd) : N :=
  HEADER_SIZE + HEADER_EXT_SIZE
  + (if tkhd_version v =? 1 then 32 else if tkhd_version v =? 0 then 20 else 0) + 60.

(** [set_width]/[set_height] take a [u16]; [FixedPointU16::new] multiplies in [u32], which cannot overflow *)
Definition tkhd_set_width (v : tkhd) (width : N) : tkhd :=
  mkTkhd (tkhd_version v) (tkhd_flags v) (tkhd_creation_time v) (tkhd_modification_time v)
         (tkhd_track_id v) (tkhd_duration v) (tkhd_layer v) (tkhd_alternate_group v)
         (tkhd_volume v) (tkhd_matrix v) (fp16_new width) (tkhd_height v).
Definition tkhd_set_height (v : tkhd) (height : N) : tkhd :=
  mkTkhd (tkhd_version v) (tkhd_flags v) (tkhd_creation_time v) (tkhd_modification_time v)
         (tkhd_track_id v) (tkhd_duration v) (tkhd_layer v) (tkhd_alternate_group v)
         (tkhd_volume v) (tkhd_matrix v) (tkhd_width v) (fp16_new height).

Definition tkhd_wf (v : tkhd) : bool :=
  (tkhd_version v <? 2) && ufit 3 (tkhd_flags v)
  && (if tkhd_version v =? 1
      then ufit 8 (tkhd_creation_time v) && ufit 8 (tkhd_modification_time v) && ufit 8 (tkhd_duration v)
      else ufit 4 (tkhd_creation_time v) && ufit 4 (tkhd_modification_time v) && ufit 4 (tkhd_duration v))
  && ufit 4 (tkhd_track_id v) && ufit 2 (tkhd_layer v) && ufit 2 (tkhd_alternate_group v)
  && ufit 2 (tkhd_volume v) && matrix_wf (tkhd_matrix v)
  && ufit 4 (tkhd_width v) && ufit 4 (tkhd_height v).

Definition dec_tkhd (m : mode) (size : N) : prog tkhd :=
  start <- box_start m ;;
  '(version, flags) <- read_header_ext ;;
  '(ct, mt, tid, dur) <-
     (if version =? 1 then
        a <- rd_u64 ;; b <- rd_u64 ;; c <- rd_u32 ;; _ <- rd_u32 ;; d <- rd_u64 ;; Ret (a, b, c, d)
      else if version =? 0 then
        a <- rd_u32 ;; b <- rd_u32 ;; c <- rd_u32 ;; _ <- rd_u32 ;; d <- rd_u32 ;; Ret (a, b, c, d)
      else Throw EData) ;;
  _ <- rd_u64 ;;
  layer <- rd_u16 ;;
  alternate_group <- rd_u16 ;;
  volume <- rd_u16 ;;
  _ <- rd_u16 ;;
  mx <- rd_matrix ;;
  width <- rd_u32 ;;
  height <- rd_u32 ;;
  e <- add64 m "tkhd start+size" start size ;;
  skip_bytes_to e ;;;
  Ret (mkTkhd version flags ct mt tid dur layer alternate_group volume mx width height).

Open Scope wprog_scope.
Definition enc_tkhd (v : tkhd) : wprog N :=
  let size := tkhd_size v in
  write_header (box_type_of "TkhdBox") size ;;;
  write_header_ext (tkhd_version v) (tkhd_flags v) ;;;
  (if tkhd_version v =? 1 then
     wr_u64 (tkhd_creation_time v) ;;; wr_u64 (tkhd_modification_time v) ;;;
     wr_u32 (tkhd_track_id v) ;;; wr_u32 0 ;;; wr_u64 (tkhd_duration v)
   else if tkhd_version v =? 0 then
     wr_u32 (cast_w U32 (tkhd_creation_time v)) ;;; wr_u32 (cast_w U32 (tkhd_modification_time v)) ;;;
     wr_u32 (tkhd_track_id v) ;;; wr_u32 0 ;;; wr_u32 (cast_w U32 (tkhd_duration v))
   else WThrow EData) ;;;
  wr_u64 0 ;;;
  wr_u16 (tkhd_layer v) ;;; wr_u16 (tkhd_alternate_group v) ;;; wr_u16 (tkhd_volume v) ;;;
  wr_u16 0 ;;;
  wr_matrix (tkhd_matrix v) ;;;
  wr_u32 (tkhd_width v) ;;; wr_u32 (tkhd_height v) ;;;
  WRet size.
Close Scope wprog_scope.

Definition show_tkhd (v : tkhd) : tree :=
  TRec "TkhdBox" [("version", TNum (tkhd_version v)); ("flags", TNum (tkhd_flags v));
                  ("creation_time", TNum (tkhd_creation_time v));
                  ("modification_time", TNum (tkhd_modification_time v));
                  ("track_id", TNum (tkhd_track_id v)); ("duration", TNum (tkhd_duration v));
                  ("layer", TNum (tkhd_layer v)); ("alternate_group", TNum (tkhd_alternate_group v));
                  ("volume", show_fp8 (tkhd_volume v)); ("matrix", show_matrix (tkhd_matrix v));
                  ("width", show_fp16 (tkhd_width v)); ("height", show_fp16 (tkhd_height v))].
