(** dinf.rs: [DinfBox], [DrefBox], [UrlBox] *)
From MP4 Require Export Tree VlLib.
Open Scope string_scope.
Open Scope list_scope.
Open Scope N_scope.

(** ** UrlBox *)
Record url := mkUrl {
  url_version : N;
  url_flags : N;
  url_location : bytes      (* String *)
}.

(** [impl Default for UrlBox] *)
Definition url_default : url := mkUrl 0 1 [].

Definition url_size (v : url) : N :=
  HEADER_SIZE + HEADER_EXT_SIZE
  + match url_location v with [] => 0 | _ => lenN (url_location v) + 1 end.

(** ISO/IEC 14496-12 8.7.2: flag bit 0 ("self-contained") set means that NO location string is
    present (not even an empty one); with the bit clear a NUL-terminated string is present.  The
    record can express the first only as an empty [location]; the library writes a string exactly
    when [location] is non-empty (whatever the flags), so bit 0 and "location is empty" must agree. *)
Definition url_self_contained (v : url) : bool := N.odd (url_flags v).

Definition url_wf (v : url) : bool :=
  ufit 1 (url_version v) && ufit 3 (url_flags v) && vl_str_ok (url_location v)
  && Bool.eqb (url_self_contained v) (match url_location v with [] => true | _ => false end).

Definition dec_url (m : mode) (size : N) : prog url :=
  start <- box_start m ;;
  '(version, flags) <- read_header_ext ;;
  match checked_sub size (HEADER_SIZE + HEADER_EXT_SIZE) with
  | None => Throw EData
  | Some buf_size =>
      buf <- rd_vec buf_size ;;
      let location := vl_utf8_or_default (vl_trim_nul buf) in
      e <- add64 m "url start+size" start size ;;
      skip_bytes_to e ;;;
      Ret (mkUrl version flags location)
  end.

Open Scope wprog_scope.
Definition enc_url (v : url) : wprog N :=
  let size := url_size v in
  write_header (box_type_of "UrlBox") size ;;;
  write_header_ext (url_version v) (url_flags v) ;;;
  match url_location v with
  | [] => WRet tt
  | _ => wr (url_location v) ;;; wr_u8 0
  end ;;;
  WRet size.
Close Scope wprog_scope.

Definition show_url (v : url) : tree :=
  TRec "UrlBox" [("version", TNum (url_version v)); ("flags", TNum (url_flags v));
                 ("location", TStr (url_location v))].

(** ** DrefBox *)
Record dref := mkDref {
  dref_version : N;
  dref_flags : N;
  dref_url : option url
}.

(** [impl Default for DrefBox] *)
Definition dref_default : dref := mkDref 0 0 (Some url_default).

Definition dref_size (v : dref) : N :=
  HEADER_SIZE + HEADER_EXT_SIZE + 4
  + match dref_url v with Some u => url_size u | None => 0 end.

Definition dref_wf (v : dref) : bool :=
  ufit 1 (dref_version v) && ufit 3 (dref_flags v)
  && match dref_url v with Some u => url_wf u | None => true end.

(** [for _i in 0..entry_count { if current >= end { break } .. }]: structural in the counter *)
Fixpoint dref_loop (m : mode) (n : nat) (size end_ : N) (u : option url) (current : N)
  : prog (option url) :=
  match n with
  | O => Ret u
  | S n' =>
      if end_ <=? current then Ret u
      else
        '(name, s) <- read_header ;;
        if size <? s then Throw EData
        else if s =? 0 then Ret u                  (* break *)
        else
          u' <- (if boxtype_eqb name UrlBox
                 then x <- dec_url m s ;; Ret (Some x)
                 else skip_box m s ;;; Ret u) ;;
          current' <- get_pos ;;
          dref_loop m n' size end_ u' current'
  end.

Definition dec_dref (m : mode) (size : N) : prog dref :=
  start <- box_start m ;;
  '(version, flags) <- read_header_ext ;;
  end_ <- add64 m "dref start+size" start size ;;
  entry_count <- rd_u32 ;;
  current <- get_pos ;;
  u <- dref_loop m (N.to_nat entry_count) size end_ None current ;;
  e <- add64 m "dref start+size" start size ;;
  skip_bytes_to e ;;;
  Ret (mkDref version flags u).

Open Scope wprog_scope.
Definition enc_dref (v : dref) : wprog N :=
  let size := dref_size v in
  write_header (box_type_of "DrefBox") size ;;;
  write_header_ext (dref_version v) (dref_flags v) ;;;
  wr_u32 (match dref_url v with Some _ => 1 | None => 0 end) ;;;
  match dref_url v with
  | Some u => enc_url u ;;; WRet tt
  | None => WRet tt
  end ;;;
  WRet size.
Close Scope wprog_scope.

Definition show_dref (v : dref) : tree :=
  TRec "DrefBox" [("version", TNum (dref_version v)); ("flags", TNum (dref_flags v));
                  ("url", topt show_url (dref_url v))].

(** ** DinfBox (its one field is private in Rust; [Debug] still prints it) *)
Record dinf := mkDinf { dinf_dref : dref }.

(** [#[derive(Default)]] *)
Definition dinf_default : dinf := mkDinf dref_default.

Definition dinf_size (v : dinf) : N := HEADER_SIZE + dref_size (dinf_dref v).

Definition dinf_wf (v : dinf) : bool := dref_wf (dinf_dref v).

(** [while current < end { .. }]: every iteration that continues has moved the stream forward,
    so [end - current] (the bytes still available to the box) bounds the number of iterations;
    that is the fuel, [Spin] when it runs out *)
Fixpoint dinf_loop (m : mode) (fuel : nat) (size end_ : N) (d : option dref) (current : N)
  : prog (option dref) :=
  if current <? end_ then
    match fuel with
    | O => Spin
    | S fuel' =>
        '(name, s) <- read_header ;;
        if size <? s then Throw EData
        else if s =? 0 then Ret d                  (* break *)
        else
          d' <- (if boxtype_eqb name DrefBox
                 then x <- dec_dref m s ;; Ret (Some x)
                 else skip_box m s ;;; Ret d) ;;
          current' <- get_pos ;;
          dinf_loop m fuel' size end_ d' current'
    end
  else Ret d.

Definition dec_dinf (m : mode) (size : N) : prog dinf :=
  start <- box_start m ;;
  current <- get_pos ;;
  end_ <- add64 m "dinf start+size" start size ;;
  d <- dinf_loop m (N.to_nat (end_ - current)) size end_ None current ;;
  match d with
  | None => Throw EData                            (* BoxNotFound(DrefBox) *)
  | Some x =>
      e <- add64 m "dinf start+size" start size ;;
      skip_bytes_to e ;;;
      Ret (mkDinf x)
  end.

Open Scope wprog_scope.
Definition enc_dinf (v : dinf) : wprog N :=
  let size := dinf_size v in
  write_header (box_type_of "DinfBox") size ;;;
  enc_dref (dinf_dref v) ;;;
  WRet size.
Close Scope wprog_scope.

Definition show_dinf (v : dinf) : tree :=
  TRec "DinfBox" [("dref", show_dref (dinf_dref v))].

Example url_smoke :
  let v := mkUrl 0 0 [104; 116; 116; 112] in
  fst (run (h <- read_header ;; dec_url Dbg (snd h)) (stream_at (wout (enc_url v)) 0)) = Ok v.
Proof. vm_compute. reflexivity. Qed.
Example dref_smoke :
  fst (run (h <- read_header ;; dec_dref Dbg (snd h)) (stream_at (wout (enc_dref dref_default)) 0))
  = Ok dref_default.
Proof. vm_compute. reflexivity. Qed.
Example dinf_smoke :
  fst (run (h <- read_header ;; dec_dinf Dbg (snd h)) (stream_at (wout (enc_dinf dinf_default)) 0))
  = Ok dinf_default.
Proof. vm_compute. reflexivity. Qed.
