(** smhd.rs *)
From MP4 Require Export Tree.
Open Scope string_scope.
Open Scope list_scope.
Open Scope N_scope.

(** [balance] is a [FixedPointI8]: the raw [i16] numerator *)
Record smhd := mkSmhd { smhd_version : N; smhd_flags : N; smhd_balance : Z }.

(** [FixedPointI8::new_raw(0)] *)
Definition smhd_default : smhd := mkSmhd 0 0 0%Z.

Definition smhd_size (v : smhd) : N := HEADER_SIZE + HEADER_EXT_SIZE + 4.

Definition smhd_wf (v : smhd) : bool :=
  ufit 1 (smhd_version v) && ufit 3 (smhd_flags v) && sfit 2 (smhd_balance v).

(** the reserved u16 after [balance] is not read; [skip_bytes_to] steps over it *)
Definition dec_smhd (m : mode) (size : N) : prog smhd :=
  start <- box_start m ;;
  '(version, flags) <- read_header_ext ;;
  balance <- rd_i16 ;;
  e <- add64 m "smhd start+size" start size ;;
  skip_bytes_to e ;;;
  Ret (mkSmhd version flags balance).

Open Scope wprog_scope.
Definition enc_smhd (v : smhd) : wprog N :=
  let size := smhd_size v in
  write_header (box_type_of "SmhdBox") size ;;;
  write_header_ext (smhd_version v) (smhd_flags v) ;;;
  wr_i16 (smhd_balance v) ;;;
  wr_u16 0 ;;;
  WRet size.
Close Scope wprog_scope.

Definition show_smhd (v : smhd) : tree :=
  TRec "SmhdBox" [("version", TNum (smhd_version v)); ("flags", TNum (smhd_flags v));
                  ("balance", show_fpi8 (smhd_balance v))].
