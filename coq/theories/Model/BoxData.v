(** data.rs *)
From MP4 Require Export Tree VlLib.
Open Scope string_scope.
Open Scope list_scope.
Open Scope N_scope.

Record data := mkData {
  data_data : bytes;          (* Vec<u8> *)
  data_data_type : string     (* DataType, by variant name *)
}.

(** [#[derive(Default)]]: [DataType::default() = Binary] *)
Definition data_default : data := mkData [] "Binary".

Definition data_size (v : data) : N :=
  HEADER_SIZE + 4 + 4 + lenN (data_data v).

(** the type is one of the enum's variants; the payload is bytes *)
Definition data_wf (v : data) : bool :=
  bytes_ok (data_data v)
  && match datatype_try_from (datatype_discr (data_data_type v)) with
     | Ok n => String.eqb n (data_data_type v)
     | _ => false
     end.

Definition dec_data (m : mode) (size : N) : prog data :=
  start <- box_start m ;;
  x <- rd_u32 ;;
  data_type <- lift (datatype_try_from x) ;;
  _ <- rd_u32 ;;                                   (* reserved = 0 *)
  current <- get_pos ;;
  e <- add64 m "data start+size" start size ;;
  match checked_sub e current with
  | None => Throw EData
  | Some data_size =>
      d <- rd_vec data_size ;;
      Ret (mkData d data_type)
  end.

Open Scope wprog_scope.
Definition enc_data (v : data) : wprog N :=
  let size := data_size v in
  write_header (box_type_of "DataBox") size ;;;
  wr_u32 (datatype_discr (data_data_type v)) ;;;
  wr_u32 0 ;;;                                     (* reserved = 0 *)
  wr (data_data v) ;;;
  WRet size.
Close Scope wprog_scope.

Definition show_data (v : data) : tree :=
  TRec "DataBox" [("data", tnums (data_data v)); ("data_type", TEnum (data_data_type v))].

Example data_smoke :
  let v := mkData [116; 101; 115; 116] "Text" in
  fst (run (h <- read_header ;; dec_data Dbg (snd h)) (stream_at (wout (enc_data v)) 0)) = Ok v.
Proof. vm_compute. reflexivity. Qed.
