(** vmhd.rs *)
From MP4 Require Export Tree.
Open Scope string_scope.
Open Scope list_scope.
Open Scope N_scope.

(** [RgbColor] *)
Record vmhd_rgb := mkVmhdRgb { vmhd_rgb_red : N; vmhd_rgb_green : N; vmhd_rgb_blue : N }.

Record vmhd := mkVmhd { vmhd_version : N; vmhd_flags : N; vmhd_graphics_mode : N; vmhd_op_color : vmhd_rgb }.

(** derived [Default] for both *)
Definition vmhd_rgb_default : vmhd_rgb := mkVmhdRgb 0 0 0.
Definition vmhd_default : vmhd := mkVmhd 0 0 0 vmhd_rgb_default.

Definition vmhd_size (v : vmhd) : N := HEADER_SIZE + HEADER_EXT_SIZE + 8.

Definition vmhd_rgb_wf (c : vmhd_rgb) : bool :=
  ufit 2 (vmhd_rgb_red c) && ufit 2 (vmhd_rgb_green c) && ufit 2 (vmhd_rgb_blue c).

Definition vmhd_wf (v : vmhd) : bool :=
  ufit 1 (vmhd_version v) && ufit 3 (vmhd_flags v) && ufit 2 (vmhd_graphics_mode v)
  && vmhd_rgb_wf (vmhd_op_color v).

Definition dec_vmhd (m : mode) (size : N) : prog vmhd :=
  start <- box_start m ;;
  '(version, flags) <- read_header_ext ;;
  graphics_mode <- rd_u16 ;;
  red <- rd_u16 ;;
  green <- rd_u16 ;;
  blue <- rd_u16 ;;
  e <- add64 m "vmhd start+size" start size ;;
  skip_bytes_to e ;;;
  Ret (mkVmhd version flags graphics_mode (mkVmhdRgb red green blue)).

Open Scope wprog_scope.
Definition enc_vmhd (v : vmhd) : wprog N :=
  let size := vmhd_size v in
  write_header (box_type_of "VmhdBox") size ;;;
  write_header_ext (vmhd_version v) (vmhd_flags v) ;;;
  wr_u16 (vmhd_graphics_mode v) ;;;
  wr_u16 (vmhd_rgb_red (vmhd_op_color v)) ;;;
  wr_u16 (vmhd_rgb_green (vmhd_op_color v)) ;;;
  wr_u16 (vmhd_rgb_blue (vmhd_op_color v)) ;;;
  WRet size.
Close Scope wprog_scope.

Definition show_vmhd_rgb (c : vmhd_rgb) : tree :=
  TRec "RgbColor" [("red", TNum (vmhd_rgb_red c)); ("green", TNum (vmhd_rgb_green c));
                   ("blue", TNum (vmhd_rgb_blue c))].

Definition show_vmhd (v : vmhd) : tree :=
  TRec "VmhdBox" [("version", TNum (vmhd_version v)); ("flags", TNum (vmhd_flags v));
                  ("graphics_mode", TNum (vmhd_graphics_mode v));
                  ("op_color", show_vmhd_rgb (vmhd_op_color v))].
