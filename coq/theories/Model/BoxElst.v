(** elst.rs *)
From MP4 Require Export TblPrim.
Open Scope string_scope.
Open Scope list_scope.
Open Scope N_scope.

Record elst_entry := mkElstEntry {
  elst_e_segment_duration : N; elst_e_media_time : N;
  elst_e_media_rate : N; elst_e_media_rate_fraction : N }.

Record elst := mkElst { elst_version : N; elst_flags : N; elst_entries : list elst_entry }.

Definition elst_entry_default : elst_entry := mkElstEntry 0 0 0 0.
Definition elst_default : elst := mkElst 0 0 [].

Definition elst_size (v : elst) : N :=
  HEADER_SIZE + HEADER_EXT_SIZE + 4
  + (if elst_version v =? 1 then lenN (elst_entries v) * 20 else lenN (elst_entries v) * 12).

Definition elst_entry_wf (version : N) (e : elst_entry) : bool :=
  (if version =? 1
   then ufit 8 (elst_e_segment_duration e) && ufit 8 (elst_e_media_time e)
   else ufit 4 (elst_e_segment_duration e) && ufit 4 (elst_e_media_time e))
  && ufit 2 (elst_e_media_rate e) && ufit 2 (elst_e_media_rate_fraction e).

Definition elst_wf (v : elst) : bool :=
  ufit 1 (elst_version v) && ufit 3 (elst_flags v)
  && ufit 4 (lenN (elst_entries v)) && forallb (elst_entry_wf (elst_version v)) (elst_entries v).

Definition elst_rd_entry (version : N) : prog elst_entry :=
  '(segment_duration, media_time) <-
     (if version =? 1 then a <- rd_u64 ;; b <- rd_u64 ;; Ret (a, b)
      else a <- rd_u32 ;; b <- rd_u32 ;; Ret (a, b)) ;;
  r <- rd_u16 ;; f <- rd_u16 ;;
  Ret (mkElstEntry segment_duration media_time r f).

Definition dec_elst (m : mode) (size : N) : prog elst :=
  start <- box_start m ;;
  '(version, flags) <- read_header_ext ;;
  let header_size := HEADER_SIZE + HEADER_EXT_SIZE in
  entry_count <- rd_u32 ;;
  let other_size := 4 in
  let entry_size := (if version =? 1 then 8 + 8 else 4 + 4) + (2 + 2) in
  if (size - header_size - other_size) / entry_size <? entry_count then Throw EData else
  alloc (entry_count * 24) ;;;
  entries <- rd_n (N.to_nat entry_count) (elst_rd_entry version) ;;
  e <- add64 m "elst start+size" start size ;;
  skip_bytes_to e ;;;
  Ret (mkElst version flags entries).

Open Scope wprog_scope.
Definition elst_wr_entry (version : N) (e : elst_entry) : wprog unit :=
  (if version =? 1 then
     wr_u64 (elst_e_segment_duration e) ;;; wr_u64 (elst_e_media_time e)
   else
     wr_u32 (cast_w U32 (elst_e_segment_duration e)) ;;; wr_u32 (cast_w U32 (elst_e_media_time e))) ;;;
  wr_u16 (elst_e_media_rate e) ;;; wr_u16 (elst_e_media_rate_fraction e).

Definition enc_elst (v : elst) : wprog N :=
  let size := elst_size v in
  write_header (box_type_of "ElstBox") size ;;;
  write_header_ext (elst_version v) (elst_flags v) ;;;
  wr_u32 (cast_w U32 (lenN (elst_entries v))) ;;;
  tbl_wr_each (elst_wr_entry (elst_version v)) (elst_entries v) ;;;
  WRet size.
Close Scope wprog_scope.

Definition show_elst_entry (e : elst_entry) : tree :=
  TRec "ElstEntry" [("segment_duration", TNum (elst_e_segment_duration e));
                    ("media_time", TNum (elst_e_media_time e));
                    ("media_rate", TNum (elst_e_media_rate e));
                    ("media_rate_fraction", TNum (elst_e_media_rate_fraction e))].

Definition show_elst (v : elst) : tree :=
  TRec "ElstBox" [("version", TNum (elst_version v)); ("flags", TNum (elst_flags v));
                  ("entries", TList (map show_elst_entry (elst_entries v)))].

Example elst_smoke0 :
  let v := mkElst 0 0 [mkElstEntry 1000 4294967295 1 0; mkElstEntry 5 0 1 0] in
  fst (run (h <- read_header ;; dec_elst Dbg (snd h)) (stream_at (wout (enc_elst v)) 0)) = Ok v.
Proof. vm_compute. reflexivity. Qed.
Example elst_smoke1 :
  let v := mkElst 1 0 [mkElstEntry 1000 18446744073709551615 1 0] in
  fst (run (h <- read_header ;; dec_elst Dbg (snd h)) (stream_at (wout (enc_elst v)) 0)) = Ok v.
Proof. vm_compute. reflexivity. Qed.
