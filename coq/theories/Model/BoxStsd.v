(** stsd.rs: [StsdBox] (one optional sample entry; no child loop) *)
From MP4 Require Export Loop BoxAvc1 BoxHev1 BoxVp09 BoxMp4a BoxTx3g.
Open Scope string_scope.
Open Scope list_scope.
Open Scope N_scope.

Record stsd := mkStsd {
  stsd_version : N;
  stsd_flags : N;
  stsd_avc1 : option avc1;
  stsd_hev1 : option hev1;
  stsd_vp09 : option vp09;
  stsd_mp4a : option mp4a;
  stsd_tx3g : option tx3g }.

(** [#[derive(Default)]] *)
Definition stsd_default : stsd := mkStsd 0 0 None None None None None.

(** [get_size]: an [if let .. else if let ..] chain, only the first entry present counts *)
Definition stsd_size (v : stsd) : N :=
  HEADER_SIZE + HEADER_EXT_SIZE + 4
  + match stsd_avc1 v with
    | Some a => avc1_size a
    | None =>
      match stsd_hev1 v with
      | Some h => hev1_size h
      | None =>
        match stsd_vp09 v with
        | Some p => vp09_size p
        | None =>
          match stsd_mp4a v with
          | Some a => mp4a_size a
          | None =>
            match stsd_tx3g v with
            | Some t => tx3g_size t
            | None => 0
            end
          end
        end
      end
    end.

Definition stsd_wf (v : stsd) : bool :=
  ufit 1 (stsd_version v) && ufit 3 (stsd_flags v)
  && match stsd_avc1 v with Some a => avc1_wf a | None => true end
  && match stsd_hev1 v with Some a => hev1_wf a | None => true end
  && match stsd_vp09 v with Some a => vp09_wf a | None => true end
  && match stsd_mp4a v with Some a => mp4a_wf a | None => true end
  && match stsd_tx3g v with Some a => tx3g_wf a | None => true end.

(** [read_box]: the fuel is only handed on to the sample entries that loop over children *)
Definition dec_stsd_fuel (fuel : nat) (m : mode) (size : N) : prog stsd :=
  start <- box_start m ;;
  '(version, flags) <- read_header_ext ;;
  _ <- rd_u32 ;;                                   (* XXX entry_count *)
  p <- get_pos ;;
  lhs <- add64 m "stsd position+HEADER_SIZE" p HEADER_SIZE ;;
  rhs <- add64 m "stsd start+size" start size ;;
  '(a, h, p9, a4, t) <-
    (if lhs <=? rhs then
       '(name, s) <- read_header ;;
       if size <? s then Throw EData
       else
         match name with
         | Avc1Box => x <- dec_avc1_fuel fuel m s ;; Ret (Some x, None, None, None, None)
         | Hev1Box => x <- dec_hev1 m s ;; Ret (None, Some x, None, None, None)
         | Vp09Box => x <- dec_vp09 m s ;; Ret (None, None, Some x, None, None)
         | Mp4aBox => x <- dec_mp4a_fuel fuel m s ;; Ret (None, None, None, Some x, None)
         | Tx3gBox => x <- dec_tx3g m s ;; Ret (None, None, None, None, Some x)
         | _ => Ret (None, None, None, None, None)
         end
     else Ret (None, None, None, None, None)) ;;
  e <- add64 m "stsd start+size" start size ;;
  skip_bytes_to e ;;;
  Ret (mkStsd version flags a h p9 a4 t).

Open Scope wprog_scope.
Definition enc_stsd (m : mode) (v : stsd) : wprog N :=
  let size := stsd_size v in
  write_header (box_type_of "StsdBox") size ;;;
  write_header_ext (stsd_version v) (stsd_flags v) ;;;
  wr_u32 (match stsd_avc1 v, stsd_hev1 v, stsd_vp09 v, stsd_mp4a v, stsd_tx3g v with
          | None, None, None, None, None => 0
          | _, _, _, _, _ => 1
          end) ;;;                                 (* entry_count *)
  match stsd_avc1 v with
  | Some a => enc_avc1 a ;;; WRet tt
  | None =>
    match stsd_hev1 v with
    | Some h => enc_hev1 h ;;; WRet tt
    | None =>
      match stsd_vp09 v with
      | Some p => enc_vp09 p ;;; WRet tt
      | None =>
        match stsd_mp4a v with
        | Some a => enc_mp4a m a ;;; WRet tt
        | None =>
          match stsd_tx3g v with
          | Some t => enc_tx3g t ;;; WRet tt
          | None => WRet tt
          end
        end
      end
    end
  end ;;;
  WRet size.
Close Scope wprog_scope.

Definition show_stsd (v : stsd) : tree :=
  TRec "StsdBox" [("version", TNum (stsd_version v)); ("flags", TNum (stsd_flags v));
                  ("avc1", topt show_avc1 (stsd_avc1 v));
                  ("hev1", topt show_hev1 (stsd_hev1 v));
                  ("vp09", topt show_vp09 (stsd_vp09 v));
                  ("mp4a", topt show_mp4a (stsd_mp4a v));
                  ("tx3g", topt show_tx3g (stsd_tx3g v))].

(** smoke tests: an empty stsd, one with an avc1 entry, one with an mp4a entry *)
Example stsd_smoke_empty :
  fst (run (h <- read_header ;; dec_stsd_fuel 10 Dbg (snd h)) (stream_at (wout (enc_stsd Dbg stsd_default)) 0))
  = Ok stsd_default.
Proof. vm_compute. reflexivity. Qed.

Example stsd_smoke_avc1 :
  let v := mkStsd 0 0 (Some avc1_test) None None None None in
  fst (run (h <- read_header ;; dec_stsd_fuel 10 Dbg (snd h)) (stream_at (wout (enc_stsd Dbg v)) 0)) = Ok v.
Proof. vm_compute. reflexivity. Qed.

Example stsd_smoke_mp4a :
  let v := mkStsd 0 0 None None None (Some mp4a_test) None in
  fst (run (h <- read_header ;; dec_stsd_fuel 10 Dbg (snd h)) (stream_at (wout (enc_stsd Dbg v)) 0)) = Ok v.
Proof. vm_compute. reflexivity. Qed.
