(** moov.rs: [MoovBox] *)
From MP4 Require Export BoxTrak BoxMvex BoxUdta BoxMvhd.
Open Scope string_scope.
Open Scope list_scope.
Open Scope N_scope.

(** field order as declared in the struct (and printed by [Debug]) *)
Record moov := mkMoov {
  moov_mvhd : mvhd;
  moov_meta : option meta;
  moov_mvex : option mvex;
  moov_traks : list trak;
  moov_udta : option udta }.

(** [#[derive(Default)]] *)
Definition moov_default : moov := mkMoov mvhd_default None None [] None.

(** [get_size] adds mvhd, traks, mvex, meta, udta (the order [write_box] uses) *)
Definition moov_size (v : moov) : N :=
  HEADER_SIZE + mvhd_size (moov_mvhd v)
  + sumN (map trak_size (moov_traks v))
  + match moov_mvex v with Some x => mvex_size x | None => 0 end
  + match moov_meta v with Some x => meta_size x | None => 0 end
  + match moov_udta v with Some x => udta_size x | None => 0 end.

Definition moov_wf (v : moov) : bool :=
  mvhd_wf (moov_mvhd v)
  && match moov_meta v with Some x => meta_wf x | None => true end
  && match moov_mvex v with Some x => mvex_wf x | None => true end
  && forallb trak_wf (moov_traks v)
  && match moov_udta v with Some x => udta_wf x | None => true end.

(** [mvhd, meta, udta, mvex, traks] of [read_box] *)
Definition moov_acc : Type := option mvhd * option meta * option udta * option mvex * list trak.

Definition moov_dispatch (m : mode) (fuel : nat) (name : boxtype) (s : N) (a : moov_acc) : prog moov_acc :=
  let '(mh, me, ud, mx, tr) := a in
  match name with
  | MvhdBox => x <- dec_mvhd m s ;; Ret (Some x, me, ud, mx, tr)
  | MetaBox => x <- dec_meta_fuel fuel m s ;; Ret (mh, Some x, ud, mx, tr)
  | MvexBox => x <- dec_mvex_fuel fuel m s ;; Ret (mh, me, ud, Some x, tr)
  | TrakBox => x <- dec_trak_fuel fuel m s ;; Ret (mh, me, ud, mx, tr ++ [x])
  | UdtaBox => x <- dec_udta_fuel fuel m s ;; Ret (mh, me, Some x, mx, tr)
  | _ => skip_box m s ;;; Ret a
  end.

Definition dec_moov_fuel (fuel : nat) (m : mode) (size : N) : prog moov :=
  start <- box_start m ;;
  current <- get_pos ;;
  end_ <- add64 m "moov start+size" start size ;;
  a <- children_loop fuel m (Some size) true end_ (moov_dispatch m) (None, None, None, None, []) current ;;
  let '(mh, me, ud, mx, tr) := a in
  match mh with
  | Some h =>
      e <- add64 m "moov start+size" start size ;;
      skip_bytes_to e ;;;
      Ret (mkMoov h me mx tr ud)
  | None => Throw EData                            (* BoxNotFound(MvhdBox) *)
  end.

Open Scope wprog_scope.
Definition enc_moov (m : mode) (v : moov) : wprog N :=
  let size := moov_size v in
  write_header (box_type_of "MoovBox") size ;;;
  enc_mvhd (moov_mvhd v) ;;;
  wr_each (enc_trak m) (moov_traks v) ;;;
  match moov_mvex v with Some x => enc_mvex x ;;; WRet tt | None => WRet tt end ;;;
  match moov_meta v with Some x => enc_meta x ;;; WRet tt | None => WRet tt end ;;;
  match moov_udta v with Some x => enc_udta x ;;; WRet tt | None => WRet tt end ;;;
  WRet size.
Close Scope wprog_scope.

Definition show_moov (v : moov) : tree :=
  TRec "MoovBox" [("mvhd", show_mvhd (moov_mvhd v));
                  ("meta", topt show_meta (moov_meta v));
                  ("mvex", topt show_mvex (moov_mvex v));
                  ("traks", TList (map show_trak (moov_traks v)));
                  ("udta", topt show_udta (moov_udta v))].

Definition moov_test : moov :=
  mkMoov mvhd_default None None [trak_test] None.

(** moov.rs's [test_moov_empty] / [test_moov], and a moov with one trak and an mvex *)
Example moov_smoke_default :
  fst (run (h <- read_header ;; dec_moov_fuel 30 Dbg (snd h)) (stream_at (wout (enc_moov Dbg moov_default)) 0))
  = Ok moov_default
  /\ let v := mkMoov mvhd_default (Some meta_default) None [] (Some udta_default) in
     fst (run (h <- read_header ;; dec_moov_fuel 30 Dbg (snd h)) (stream_at (wout (enc_moov Dbg v)) 0)) = Ok v.
Proof. vm_compute. split; reflexivity. Qed.

Example moov_smoke_trak :
  let v := mkMoov mvhd_default None (Some mvex_default) [trak_test]
                  (Some (mkUdta (Some (MetaMdir (Some ilst_test))))) in
  fst (run (h <- read_header ;; dec_moov_fuel 30 Dbg (snd h)) (stream_at (wout (enc_moov Dbg v)) 0)) = Ok v
  /\ wfin (enc_moov Dbg v) = Ok (lenN (wout (enc_moov Dbg v))).
Proof. vm_compute. split; reflexivity. Qed.
