(** * One sum type over the 43 exported box types (model of the harness command [cmd_box])

    The Rust test harness ([/verif/harness/src/bin/run.rs], [cmd_box] and the macro [box_case!])
    reads one box header with [BoxHeader::read], dispatches on the box type to
    [T::read_box(reader, size)] for one of 43 exported types [T], prints [{:?}] of the value,
    [box_size()], [box_type()], then [write_box].  This file is the same thing for the model:
    [dec_any] is the [match h.name { .. }] of [cmd_box], [enc_any]/[size_any]/[type_any]/[show_any]
    are [write_box]/[box_size]/[box_type]/[{:?}] of the decoded value.

    Decoders: the fuelled form [dec_xxx_fuel fuel m size] is used wherever the model has one
    (all containers, and [avc1]/[mp4a] whose descriptor/child loops are fuelled; [DinfBox] has
    both [BoxDinf.dec_dinf] (own fuel) and [BoxMinf.dec_dinf_fuel] (caller's fuel), the latter is
    used); leaves use [dec_xxx m size].
    Encoders: [enc_moov], [enc_trak], [enc_mdia], [enc_minf], [enc_stbl], [enc_stsd], [enc_mp4a]
    take the arithmetic [mode] first (unchecked u8 arithmetic in the AAC decoder-specific
    descriptor); the other encoders do not depend on it.

    [show_any]: the [show_xxx] of the box files, except that [meta] and its three parents
    ([udta], [trak], [moov]) use the [_fixed] forms of [ShowFix.v] ([BoxType]'s [Debug] inside
    [MetaBox::Unknown.data] prints the bare four characters, not [FourCC]'s [xxxx / 0x...]).
    Two conventions of the owners' show functions that a comparison with the [{:?}] text has to
    know: [IlstBox.items] (a [HashMap], printed [{Key: Value, ..}] in arbitrary order) is a
    [TList] of [TTuple [TEnum key; value]] in the fixed key order Title, Year, Poster, Summary;
    the field-less struct [SLConfigDescriptor] is [TRec "SLConfigDescriptor" []] and is printed
    by Rust without braces. *)
From MP4 Require Export BoxFtyp BoxMoov BoxMoof BoxEmsg ShowFix.
Open Scope string_scope.
Open Scope list_scope.
Open Scope N_scope.

Inductive anybox : Type :=
| AFtyp (v : ftyp)
| AMvhd (v : mvhd)
| AMfhd (v : mfhd)
| AMoov (v : moov)
| AMvex (v : mvex)
| AMehd (v : mehd)
| ATrex (v : trex)
| AEmsg (v : emsg)
| AMoof (v : moof)
| ATkhd (v : tkhd)
| ATfhd (v : tfhd)
| ATfdt (v : tfdt)
| AEdts (v : edts)
| AMdia (v : mdia)
| AElst (v : elst)
| AMdhd (v : mdhd)
| AHdlr (v : hdlr)
| AMinf (v : minf)
| AVmhd (v : vmhd)
| AStbl (v : stbl)
| AStsd (v : stsd)
| AStts (v : stts)
| ACtts (v : ctts)
| AStss (v : stss)
| AStsc (v : stsc)
| AStsz (v : stsz)
| AStco (v : stco)
| ACo64 (v : co64)
| ATrak (v : trak)
| ATraf (v : traf)
| ATrun (v : trun)
| AUdta (v : udta)
| AMeta (v : meta)
| ADinf (v : dinf)
| ASmhd (v : smhd)
| AAvc1 (v : avc1)
| AHev1 (v : hev1)
| AMp4a (v : mp4a)
| ATx3g (v : tx3g)
| AVpcc (v : vpcc)
| AVp09 (v : vp09)
| AData (v : data)
| AIlst (v : ilst).

(** run a decoder and wrap its result *)
Definition any_of {A} (c : A -> anybox) (p : prog A) : prog (option anybox) :=
  x <- p ;; Ret (Some (c x)).

(** [match h.name { BoxType::FtypBox => box_case!(FtypBox, ..), .. , _ => "unsupported" }] *)
Definition dec_any (fuel : nat) (m : mode) (name : boxtype) (size : N) : prog (option anybox) :=
  match name with
  | FtypBox => any_of AFtyp (dec_ftyp m size)
  | MvhdBox => any_of AMvhd (dec_mvhd m size)
  | MfhdBox => any_of AMfhd (dec_mfhd m size)
  | MoovBox => any_of AMoov (dec_moov_fuel fuel m size)
  | MvexBox => any_of AMvex (dec_mvex_fuel fuel m size)
  | MehdBox => any_of AMehd (dec_mehd m size)
  | TrexBox => any_of ATrex (dec_trex m size)
  | EmsgBox => any_of AEmsg (dec_emsg m size)
  | MoofBox => any_of AMoof (dec_moof_fuel fuel m size)
  | TkhdBox => any_of ATkhd (dec_tkhd m size)
  | TfhdBox => any_of ATfhd (dec_tfhd m size)
  | TfdtBox => any_of ATfdt (dec_tfdt m size)
  | EdtsBox => any_of AEdts (dec_edts_fuel fuel m size)
  | MdiaBox => any_of AMdia (dec_mdia_fuel fuel m size)
  | ElstBox => any_of AElst (dec_elst m size)
  | MdhdBox => any_of AMdhd (dec_mdhd m size)
  | HdlrBox => any_of AHdlr (dec_hdlr m size)
  | MinfBox => any_of AMinf (dec_minf_fuel fuel m size)
  | VmhdBox => any_of AVmhd (dec_vmhd m size)
  | StblBox => any_of AStbl (dec_stbl_fuel fuel m size)
  | StsdBox => any_of AStsd (dec_stsd_fuel fuel m size)
  | SttsBox => any_of AStts (dec_stts m size)
  | CttsBox => any_of ACtts (dec_ctts m size)
  | StssBox => any_of AStss (dec_stss m size)
  | StscBox => any_of AStsc (dec_stsc m size)
  | StszBox => any_of AStsz (dec_stsz m size)
  | StcoBox => any_of AStco (dec_stco m size)
  | Co64Box => any_of ACo64 (dec_co64 m size)
  | TrakBox => any_of ATrak (dec_trak_fuel fuel m size)
  | TrafBox => any_of ATraf (dec_traf_fuel fuel m size)
  | TrunBox => any_of ATrun (dec_trun m size)
  | UdtaBox => any_of AUdta (dec_udta_fuel fuel m size)
  | MetaBox => any_of AMeta (dec_meta_fuel fuel m size)
  | DinfBox => any_of ADinf (dec_dinf_fuel fuel m size)
  | SmhdBox => any_of ASmhd (dec_smhd m size)
  | Avc1Box => any_of AAvc1 (dec_avc1_fuel fuel m size)
  | Hev1Box => any_of AHev1 (dec_hev1 m size)
  | Mp4aBox => any_of AMp4a (dec_mp4a_fuel fuel m size)
  | Tx3gBox => any_of ATx3g (dec_tx3g m size)
  | VpccBox => any_of AVpcc (dec_vpcc m size)
  | Vp09Box => any_of AVp09 (dec_vp09 m size)
  | DataBox => any_of AData (dec_data m size)
  | IlstBox => any_of AIlst (dec_ilst_fuel fuel m size)
  | _ => Ret None                                  (* "unsupported": nothing more is read *)
  end.

(** [BoxHeader::read] then the dispatch; the header's name and size are reported too *)
Definition dec_box_any (fuel : nat) (m : mode) : prog (boxtype * N * option anybox) :=
  '(name, size) <- read_header ;;
  r <- dec_any fuel m name size ;;
  Ret (name, size, r).

(** [v.write_box(&mut w)] *)
Definition enc_any (m : mode) (b : anybox) : wprog N :=
  match b with
  | AFtyp v => enc_ftyp v
  | AMvhd v => enc_mvhd v
  | AMfhd v => enc_mfhd v
  | AMoov v => enc_moov m v
  | AMvex v => enc_mvex v
  | AMehd v => enc_mehd v
  | ATrex v => enc_trex v
  | AEmsg v => enc_emsg v
  | AMoof v => enc_moof v
  | ATkhd v => enc_tkhd v
  | ATfhd v => enc_tfhd v
  | ATfdt v => enc_tfdt v
  | AEdts v => enc_edts v
  | AMdia v => enc_mdia m v
  | AElst v => enc_elst v
  | AMdhd v => enc_mdhd v
  | AHdlr v => enc_hdlr v
  | AMinf v => enc_minf m v
  | AVmhd v => enc_vmhd v
  | AStbl v => enc_stbl m v
  | AStsd v => enc_stsd m v
  | AStts v => enc_stts v
  | ACtts v => enc_ctts v
  | AStss v => enc_stss v
  | AStsc v => enc_stsc v
  | AStsz v => enc_stsz v
  | AStco v => enc_stco v
  | ACo64 v => enc_co64 v
  | ATrak v => enc_trak m v
  | ATraf v => enc_traf v
  | ATrun v => enc_trun v
  | AUdta v => enc_udta v
  | AMeta v => enc_meta v
  | ADinf v => enc_dinf v
  | ASmhd v => enc_smhd v
  | AAvc1 v => enc_avc1 v
  | AHev1 v => enc_hev1 v
  | AMp4a v => enc_mp4a m v
  | ATx3g v => enc_tx3g v
  | AVpcc v => enc_vpcc v
  | AVp09 v => enc_vp09 v
  | AData v => enc_data v
  | AIlst v => enc_ilst v
  end.

(** [v.box_size()] *)
Definition size_any (b : anybox) : N :=
  match b with
  | AFtyp v => ftyp_size v
  | AMvhd v => mvhd_size v
  | AMfhd v => mfhd_size v
  | AMoov v => moov_size v
  | AMvex v => mvex_size v
  | AMehd v => mehd_size v
  | ATrex v => trex_size v
  | AEmsg v => emsg_size v
  | AMoof v => moof_size v
  | ATkhd v => tkhd_size v
  | ATfhd v => tfhd_size v
  | ATfdt v => tfdt_size v
  | AEdts v => edts_size v
  | AMdia v => mdia_size v
  | AElst v => elst_size v
  | AMdhd v => mdhd_size v
  | AHdlr v => hdlr_size v
  | AMinf v => minf_size v
  | AVmhd v => vmhd_size v
  | AStbl v => stbl_size v
  | AStsd v => stsd_size v
  | AStts v => stts_size v
  | ACtts v => ctts_size v
  | AStss v => stss_size v
  | AStsc v => stsc_size v
  | AStsz v => stsz_size v
  | AStco v => stco_size v
  | ACo64 v => co64_size v
  | ATrak v => trak_size v
  | ATraf v => traf_size v
  | ATrun v => trun_size v
  | AUdta v => udta_size v
  | AMeta v => meta_size v
  | ADinf v => dinf_size v
  | ASmhd v => smhd_size v
  | AAvc1 v => avc1_size v
  | AHev1 v => hev1_size v
  | AMp4a v => mp4a_size v
  | ATx3g v => tx3g_size v
  | AVpcc v => vpcc_size v
  | AVp09 v => vp09_size v
  | AData v => data_size v
  | AIlst v => ilst_size v
  end.

(** the Rust struct name of the value *)
Definition struct_name_any (b : anybox) : string :=
  match b with
  | AFtyp _ => "FtypBox" | AMvhd _ => "MvhdBox" | AMfhd _ => "MfhdBox" | AMoov _ => "MoovBox"
  | AMvex _ => "MvexBox" | AMehd _ => "MehdBox" | ATrex _ => "TrexBox" | AEmsg _ => "EmsgBox"
  | AMoof _ => "MoofBox" | ATkhd _ => "TkhdBox" | ATfhd _ => "TfhdBox" | ATfdt _ => "TfdtBox"
  | AEdts _ => "EdtsBox" | AMdia _ => "MdiaBox" | AElst _ => "ElstBox" | AMdhd _ => "MdhdBox"
  | AHdlr _ => "HdlrBox" | AMinf _ => "MinfBox" | AVmhd _ => "VmhdBox" | AStbl _ => "StblBox"
  | AStsd _ => "StsdBox" | AStts _ => "SttsBox" | ACtts _ => "CttsBox" | AStss _ => "StssBox"
  | AStsc _ => "StscBox" | AStsz _ => "StszBox" | AStco _ => "StcoBox" | ACo64 _ => "Co64Box"
  | ATrak _ => "TrakBox" | ATraf _ => "TrafBox" | ATrun _ => "TrunBox" | AUdta _ => "UdtaBox"
  | AMeta _ => "MetaBox" | ADinf _ => "DinfBox" | ASmhd _ => "SmhdBox" | AAvc1 _ => "Avc1Box"
  | AHev1 _ => "Hev1Box" | AMp4a _ => "Mp4aBox" | ATx3g _ => "Tx3gBox" | AVpcc _ => "VpccBox"
  | AVp09 _ => "Vp09Box" | AData _ => "DataBox" | AIlst _ => "IlstBox"
  end.

(** [v.box_type()]: every one of the 43 impls returns [BoxType::XxxBox] for its own struct name
    [XxxBox] (looked up in the table regenerated from the source) *)
Definition type_any (b : anybox) : boxtype := box_type_of (struct_name_any b).

(** [format!("{:?}", v)] *)
Definition show_any (b : anybox) : tree :=
  match b with
  | AFtyp v => show_ftyp v
  | AMvhd v => show_mvhd v
  | AMfhd v => show_mfhd v
  | AMoov v => show_moov_fixed v
  | AMvex v => show_mvex v
  | AMehd v => show_mehd v
  | ATrex v => show_trex v
  | AEmsg v => show_emsg v
  | AMoof v => show_moof v
  | ATkhd v => show_tkhd v
  | ATfhd v => show_tfhd v
  | ATfdt v => show_tfdt v
  | AEdts v => show_edts v
  | AMdia v => show_mdia v
  | AElst v => show_elst v
  | AMdhd v => show_mdhd v
  | AHdlr v => show_hdlr v
  | AMinf v => show_minf v
  | AVmhd v => show_vmhd v
  | AStbl v => show_stbl v
  | AStsd v => show_stsd v
  | AStts v => show_stts v
  | ACtts v => show_ctts v
  | AStss v => show_stss v
  | AStsc v => show_stsc v
  | AStsz v => show_stsz v
  | AStco v => show_stco v
  | ACo64 v => show_co64 v
  | ATrak v => show_trak_fixed v
  | ATraf v => show_traf v
  | ATrun v => show_trun v
  | AUdta v => show_udta_fixed v
  | AMeta v => show_meta_fixed v
  | ADinf v => show_dinf v
  | ASmhd v => show_smhd v
  | AAvc1 v => show_avc1 v
  | AHev1 v => show_hev1 v
  | AMp4a v => show_mp4a v
  | ATx3g v => show_tx3g v
  | AVpcc v => show_vpcc v
  | AVp09 v => show_vp09 v
  | AData v => show_data v
  | AIlst v => show_ilst v
  end.

(** the [#[derive(Default)]]/[impl Default] value of each of the 43 types, in [cmd_box]'s order *)
Definition any_defaults : list anybox :=
  [AFtyp ftyp_default; AMvhd mvhd_default; AMfhd mfhd_default; AMoov moov_default;
   AMvex mvex_default; AMehd mehd_default; ATrex trex_default; AEmsg emsg_default;
   AMoof moof_default; ATkhd tkhd_default; ATfhd tfhd_default; ATfdt tfdt_default;
   AEdts edts_default; AMdia mdia_default; AElst elst_default; AMdhd mdhd_default;
   AHdlr hdlr_default; AMinf minf_default; AVmhd vmhd_default; AStbl stbl_default;
   AStsd stsd_default; AStts stts_default; ACtts ctts_default; AStss stss_default;
   AStsc stsc_default; AStsz stsz_default; AStco stco_default; ACo64 co64_default;
   ATrak trak_default; ATraf traf_default; ATrun trun_default; AUdta udta_default;
   AMeta meta_default; ADinf dinf_default; ASmhd smhd_default; AAvc1 avc1_default;
   AHev1 hev1_default; AMp4a mp4a_default; ATx3g tx3g_default; AVpcc vpcc_default;
   AVp09 vp09_default; AData data_default; AIlst ilst_default].

(** ** Smoke tests *)

(** encode with [enc_any], decode the bytes with [dec_box_any]: the header carries [type_any] and
    [size_any], the decoded value is of the same constructor and shows the same tree, and the
    encoder returns [size_any] and writes that many bytes *)
Definition any_roundtrip_ok (fuel : nat) (m : mode) (b : anybox) : bool :=
  match wfin (enc_any m b) with
  | Ok n =>
      (n =? size_any b) && (lenN (wout (enc_any m b)) =? size_any b)
      && match fst (run (dec_box_any fuel m) (stream_at (wout (enc_any m b)) 0)) with
         | Ok (name, size, Some b') =>
             boxtype_eqb name (type_any b) && (size =? size_any b)
             && String.eqb (struct_name_any b') (struct_name_any b)
         | _ => false
         end
  | _ => false
  end.

Definition any_redecode (fuel : nat) (m : mode) (b : anybox) : option tree :=
  match fst (run (dec_box_any fuel m) (stream_at (wout (enc_any m b)) 0)) with
  | Ok (_, _, Some b') => Some (show_any b')
  | _ => None
  end.

Example any_smoke_mvhd :
  any_redecode 10 Dbg (AMvhd mvhd_default) = Some (show_any (AMvhd mvhd_default)).
Proof. vm_compute. reflexivity. Qed.

Example any_smoke_stts :
  let v := AStts (mkStts 0 0 [mkSttsEntry 29726 1024; mkSttsEntry 1 512]) in
  any_redecode 10 Dbg v = Some (show_any v).
Proof. vm_compute. reflexivity. Qed.

Example any_smoke_moov :
  any_redecode 20 Dbg (AMoov moov_default) = Some (show_any (AMoov moov_default)).
Proof. vm_compute. reflexivity. Qed.

(** the derived defaults: [EmsgBox::default()] (version 0 with [presentation_time_delta = None])
    makes [write_box] panic on [unwrap()]; the four containers whose default holds a [StblBox]
    without stco/co64 ([MdiaBox], [MinfBox], [StblBox], [TrakBox]) encode but are rejected by the
    decoder (the Rust harness agrees on all five); the other 38 round-trip and re-decode to a
    value with the same tree *)
Example any_smoke_defaults :
  map (any_roundtrip_ok 40 Dbg) any_defaults
  = [true; true; true; true; true; true; true; false; true; true; true; true; true; false; true;
     true; true; false; true; false; true; true; true; true; true; true; true; true; false; true;
     true; true; true; true; true; true; true; true; true; true; true; true; true]
  /\ let ok := filter (any_roundtrip_ok 40 Dbg) any_defaults in
     map (any_redecode 40 Dbg) ok = map (fun b => Some (show_any b)) ok.
Proof. vm_compute. split; reflexivity. Qed.

(** a box type outside the 43 ([free]): header only, [None] *)
Example any_smoke_unsupported :
  fst (run (dec_box_any 10 Dbg) (stream_at [0; 0; 0; 8; 0x66; 0x72; 0x65; 0x65] 0))
  = Ok (FreeBox, 8, None).
Proof. vm_compute. reflexivity. Qed.

(** [type_any] is the dispatch key of [dec_any]: the 43 types are pairwise distinct and none is
    [UnknownBox] *)
Example any_smoke_types :
  map (fun b => u32_of_boxtype (type_any b)) any_defaults
  = [0x66747970; 0x6d766864; 0x6d666864; 0x6d6f6f76; 0x6d766578; 0x6d656864; 0x74726578;
     0x656d7367; 0x6d6f6f66; 0x746b6864; 0x74666864; 0x74666474; 0x65647473; 0x6d646961;
     0x656c7374; 0x6d646864; 0x68646c72; 0x6d696e66; 0x766d6864; 0x7374626c; 0x73747364;
     0x73747473; 0x63747473; 0x73747373; 0x73747363; 0x7374737A; 0x7374636F; 0x636F3634;
     0x7472616b; 0x74726166; 0x7472756E; 0x75647461; 0x6d657461; 0x64696e66; 0x736d6864;
     0x61766331; 0x68657631; 0x6d703461; 0x74783367; 0x76706343; 0x76703039; 0x64617461;
     0x696c7374].
Proof. vm_compute. reflexivity. Qed.
