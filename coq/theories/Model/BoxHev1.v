(** hev1.rs: [Hev1Box], [HvcCBox], [HvcCArray], [HvcCArrayNalu] *)
From MP4 Require Export PrimCodecs.
Open Scope string_scope.
Open Scope list_scope.
Open Scope N_scope.

(** ** HvcCArrayNalu / HvcCArray *)
Record hvccnalu := mkHvcCNalu { hvccnalu_size : N; hvccnalu_data : bytes }.
Record hvccarray := mkHvcCArray {
  hvccarray_completeness : bool;
  hvccarray_nal_unit_type : N;
  hvccarray_nalus : list hvccnalu }.

Definition hvccnalu_default : hvccnalu := mkHvcCNalu 0 [].
Definition hvccarray_default : hvccarray := mkHvcCArray false 0 [].

Definition hvccnalu_wf (u : hvccnalu) : bool :=
  ufit 2 (hvccnalu_size u) && (lenN (hvccnalu_data u) =? hvccnalu_size u) && bytes_ok (hvccnalu_data u).

Definition hvccarray_wf (a : hvccarray) : bool :=
  (hvccarray_nal_unit_type a <? 64) && ufit 2 (lenN (hvccarray_nalus a))
  && forallb hvccnalu_wf (hvccarray_nalus a).

Definition show_hvccnalu (u : hvccnalu) : tree :=
  TRec "HvcCArrayNalu" [("size", TNum (hvccnalu_size u)); ("data", tnums (hvccnalu_data u))].
Definition show_hvccarray (a : hvccarray) : tree :=
  TRec "HvcCArray" [("completeness", TBool (hvccarray_completeness a));
                    ("nal_unit_type", TNum (hvccarray_nal_unit_type a));
                    ("nalus", TList (map show_hvccnalu (hvccarray_nalus a)))].

(** ** HvcCBox *)
Record hvcc := mkHvcC {
  hvcc_configuration_version : N;
  hvcc_general_profile_space : N;
  hvcc_general_tier_flag : bool;
  hvcc_general_profile_idc : N;
  hvcc_general_profile_compatibility_flags : N;
  hvcc_general_constraint_indicator_flag : N;
  hvcc_general_level_idc : N;
  hvcc_min_spatial_segmentation_idc : N;
  hvcc_parallelism_type : N;
  hvcc_chroma_format_idc : N;
  hvcc_bit_depth_luma_minus8 : N;
  hvcc_bit_depth_chroma_minus8 : N;
  hvcc_avg_frame_rate : N;
  hvcc_constant_frame_rate : N;
  hvcc_num_temporal_layers : N;
  hvcc_temporal_id_nested : bool;
  hvcc_length_size_minus_one : N;
  hvcc_arrays : list hvccarray }.

Definition hvcc_default : hvcc :=
  mkHvcC 0 0 false 0 0 0 0 0 0 0 0 0 0 0 0 false 0 [].

(** [HvcCBox::new()]: [configuration_version: 1, ..Default::default()] *)
Definition hvcc_new : hvcc :=
  mkHvcC 1 0 false 0 0 0 0 0 0 0 0 0 0 0 0 false 0 [].

(** [box_size]: [HEADER_SIZE + 23 + sum over arrays (3 + sum over nalus (2 + data.len()))] *)
Definition hvccarray_size (a : hvccarray) : N :=
  3 + sumN (map (fun x => 2 + lenN (hvccnalu_data x)) (hvccarray_nalus a)).
Definition hvcc_size (v : hvcc) : N :=
  HEADER_SIZE + 23 + sumN (map hvccarray_size (hvcc_arrays v)).

Definition hvcc_wf (v : hvcc) : bool :=
  ufit 1 (hvcc_configuration_version v)
  && (hvcc_general_profile_space v <? 4)
  && (hvcc_general_profile_idc v <? 32)
  && ufit 4 (hvcc_general_profile_compatibility_flags v)
  && ufit 6 (hvcc_general_constraint_indicator_flag v)
  && ufit 1 (hvcc_general_level_idc v)
  && (hvcc_min_spatial_segmentation_idc v <? 4096)
  && (hvcc_parallelism_type v <? 4)
  && (hvcc_chroma_format_idc v <? 4)
  && (hvcc_bit_depth_luma_minus8 v <? 8)
  && (hvcc_bit_depth_chroma_minus8 v <? 8)
  && ufit 2 (hvcc_avg_frame_rate v)
  && (hvcc_constant_frame_rate v <? 4)
  && (hvcc_num_temporal_layers v <? 8)
  && (hvcc_length_size_minus_one v <? 4)
  && ufit 1 (lenN (hvcc_arrays v))
  && forallb hvccarray_wf (hvcc_arrays v).

(** body of the inner [for _ in 0..num_nalus] loop *)
Definition dec_hvccnalu (m : mode) (e : N) : prog hvccnalu :=
  size <- rd_u16 ;;
  pos <- get_pos ;;
  t <- add64 m "hvcC position+size" pos size ;;
  if e <? t then Throw EData
  else
    data <- rd_vec size ;;
    Ret (mkHvcCNalu size data).

(** body of the outer [for _ in 0..num_of_arrays] loop *)
Definition dec_hvccarray (m : mode) (e : N) : prog hvccarray :=
  params <- rd_u8 ;;
  num_nalus <- rd_u16 ;;
  (* fix: every nal unit takes at least the two bytes of its length field:
     [if u64::from(num_nalus) * 2 > end.saturating_sub(reader.stream_position()?)]
     ([num_nalus] is a u16, the product cannot overflow; [-] on [N] saturates) *)
  pos <- get_pos ;;
  if e - pos <? num_nalus * 2 then Throw EData
  else
  alloc (num_nalus * 32) ;;;
  nalus <- rd_n (N.to_nat num_nalus) (dec_hvccnalu m e) ;;
  Ret (mkHvcCArray (0 <? N.land params 128) (N.land params 63) nalus).

Definition dec_hvcc (m : mode) (size : N) : prog hvcc :=
  start <- box_start m ;;
  e <- add64 m "hvcC start+size" start size ;;
  configuration_version <- rd_u8 ;;
  params <- rd_u8 ;;
  let general_profile_space := N.shiftr (N.land params 192) 6 in
  let general_tier_flag := 0 <? N.shiftr (N.land params 32) 5 in
  let general_profile_idc := N.land params 31 in
  general_profile_compatibility_flags <- rd_u32 ;;
  general_constraint_indicator_flag <- rd_u48 ;;
  general_level_idc <- rd_u8 ;;
  x <- rd_u16 ;;
  let min_spatial_segmentation_idc := N.land x 4095 in
  x <- rd_u8 ;;
  let parallelism_type := N.land x 3 in
  x <- rd_u8 ;;
  let chroma_format_idc := N.land x 3 in
  x <- rd_u8 ;;
  let bit_depth_luma_minus8 := N.land x 7 in
  x <- rd_u8 ;;
  let bit_depth_chroma_minus8 := N.land x 7 in
  avg_frame_rate <- rd_u16 ;;
  params <- rd_u8 ;;
  let constant_frame_rate := N.shiftr (N.land params 192) 6 in
  let num_temporal_layers := N.shiftr (N.land params 56) 3 in
  let temporal_id_nested := 0 <? N.shiftr (N.land params 4) 2 in
  let length_size_minus_one := N.land params 3 in
  num_of_arrays <- rd_u8 ;;
  alloc (num_of_arrays * 32) ;;;
  arrays <- rd_n (N.to_nat num_of_arrays) (dec_hvccarray m e) ;;
  e2 <- add64 m "hvcC start+size" start size ;;
  skip_bytes_to e2 ;;;
  Ret (mkHvcC configuration_version general_profile_space general_tier_flag general_profile_idc
              general_profile_compatibility_flags general_constraint_indicator_flag
              general_level_idc min_spatial_segmentation_idc parallelism_type chroma_format_idc
              bit_depth_luma_minus8 bit_depth_chroma_minus8 avg_frame_rate constant_frame_rate
              num_temporal_layers temporal_id_nested length_size_minus_one arrays).

Open Scope wprog_scope.
Definition enc_hvccnalu (u : hvccnalu) : wprog unit :=
  wr_u16 (hvccnalu_size u) ;;;
  wr (hvccnalu_data u).

Definition enc_hvccarray (a : hvccarray) : wprog unit :=
  wr_u8 (N.lor (N.land (hvccarray_nal_unit_type a) 63)
               (cast_w U8 (N.shiftl (b2n (hvccarray_completeness a)) 7))) ;;;
  wr_u16 (cast_w U16 (lenN (hvccarray_nalus a))) ;;;
  wr_each enc_hvccnalu (hvccarray_nalus a).

Definition enc_hvcc (v : hvcc) : wprog N :=
  let size := hvcc_size v in
  write_header (box_type_of "HvcCBox") size ;;;
  wr_u8 (hvcc_configuration_version v) ;;;
  let general_profile_space := cast_w U8 (N.shiftl (N.land (hvcc_general_profile_space v) 3) 6) in
  let general_tier_flag := cast_w U8 (N.shiftl (b2n (hvcc_general_tier_flag v)) 5) in
  let general_profile_idc := N.land (hvcc_general_profile_idc v) 31 in
  wr_u8 (N.lor (N.lor general_profile_space general_tier_flag) general_profile_idc) ;;;
  wr_u32 (hvcc_general_profile_compatibility_flags v) ;;;
  wr_u48 (hvcc_general_constraint_indicator_flag v) ;;;
  wr_u8 (hvcc_general_level_idc v) ;;;
  wr_u16 (N.lor 61440 (N.land (hvcc_min_spatial_segmentation_idc v) 4095)) ;;;
  wr_u8 (N.lor 252 (N.land (hvcc_parallelism_type v) 3)) ;;;
  wr_u8 (N.lor 252 (N.land (hvcc_chroma_format_idc v) 3)) ;;;
  wr_u8 (N.lor 248 (N.land (hvcc_bit_depth_luma_minus8 v) 7)) ;;;
  wr_u8 (N.lor 248 (N.land (hvcc_bit_depth_chroma_minus8 v) 7)) ;;;
  wr_u16 (hvcc_avg_frame_rate v) ;;;
  let constant_frame_rate := cast_w U8 (N.shiftl (N.land (hvcc_constant_frame_rate v) 3) 6) in
  let num_temporal_layers := cast_w U8 (N.shiftl (N.land (hvcc_num_temporal_layers v) 7) 3) in
  let temporal_id_nested := cast_w U8 (N.shiftl (b2n (hvcc_temporal_id_nested v)) 2) in
  let length_size_minus_one := N.land (hvcc_length_size_minus_one v) 3 in
  wr_u8 (N.lor (N.lor (N.lor constant_frame_rate num_temporal_layers) temporal_id_nested)
               length_size_minus_one) ;;;
  wr_u8 (cast_w U8 (lenN (hvcc_arrays v))) ;;;
  wr_each enc_hvccarray (hvcc_arrays v) ;;;
  WRet size.
Close Scope wprog_scope.

Definition show_hvcc (v : hvcc) : tree :=
  TRec "HvcCBox" [("configuration_version", TNum (hvcc_configuration_version v));
                  ("general_profile_space", TNum (hvcc_general_profile_space v));
                  ("general_tier_flag", TBool (hvcc_general_tier_flag v));
                  ("general_profile_idc", TNum (hvcc_general_profile_idc v));
                  ("general_profile_compatibility_flags", TNum (hvcc_general_profile_compatibility_flags v));
                  ("general_constraint_indicator_flag", TNum (hvcc_general_constraint_indicator_flag v));
                  ("general_level_idc", TNum (hvcc_general_level_idc v));
                  ("min_spatial_segmentation_idc", TNum (hvcc_min_spatial_segmentation_idc v));
                  ("parallelism_type", TNum (hvcc_parallelism_type v));
                  ("chroma_format_idc", TNum (hvcc_chroma_format_idc v));
                  ("bit_depth_luma_minus8", TNum (hvcc_bit_depth_luma_minus8 v));
                  ("bit_depth_chroma_minus8", TNum (hvcc_bit_depth_chroma_minus8 v));
                  ("avg_frame_rate", TNum (hvcc_avg_frame_rate v));
                  ("constant_frame_rate", TNum (hvcc_constant_frame_rate v));
                  ("num_temporal_layers", TNum (hvcc_num_temporal_layers v));
                  ("temporal_id_nested", TBool (hvcc_temporal_id_nested v));
                  ("length_size_minus_one", TNum (hvcc_length_size_minus_one v));
                  ("arrays", TList (map show_hvccarray (hvcc_arrays v)))].

(** ** Hev1Box *)
Record hev1 := mkHev1 {
  hev1_data_reference_index : N;
  hev1_width : N;
  hev1_height : N;
  hev1_horizresolution : N;   (* FixedPointU16, raw *)
  hev1_vertresolution : N;    (* FixedPointU16, raw *)
  hev1_frame_count : N;
  hev1_depth : N;
  hev1_hvcc : hvcc }.

Definition hev1_default : hev1 :=
  mkHev1 0 0 0 (fp16_new 72) (fp16_new 72) 1 24 hvcc_default.

(** [Hev1Box::new(&HevcConfig { width, height })] *)
Definition hev1_new (width height : N) : hev1 :=
  mkHev1 1 width height (fp16_new 72) (fp16_new 72) 1 24 hvcc_new.

Definition hev1_size (v : hev1) : N := HEADER_SIZE + 8 + 70 + hvcc_size (hev1_hvcc v).

Definition hev1_wf (v : hev1) : bool :=
  ufit 2 (hev1_data_reference_index v) && ufit 2 (hev1_width v) && ufit 2 (hev1_height v)
  && ufit 4 (hev1_horizresolution v) && ufit 4 (hev1_vertresolution v)
  && ufit 2 (hev1_frame_count v) && ufit 2 (hev1_depth v)
  && hvcc_wf (hev1_hvcc v).

Definition dec_hev1 (m : mode) (size : N) : prog hev1 :=
  start <- box_start m ;;
  _ <- rd_u32 ;;
  _ <- rd_u16 ;;
  data_reference_index <- rd_u16 ;;
  _ <- rd_u32 ;;
  _ <- rd_u64 ;;
  _ <- rd_u32 ;;
  width <- rd_u16 ;;
  height <- rd_u16 ;;
  horizresolution <- rd_u32 ;;
  vertresolution <- rd_u32 ;;
  _ <- rd_u32 ;;
  frame_count <- rd_u16 ;;
  skip_bytes 32 ;;;
  depth <- rd_u16 ;;
  _ <- rd_i16 ;;
  '(name, s) <- read_header ;;
  if size <? s then Throw EData
  else if boxtype_eqb name HvcCBox then
    hvcc <- dec_hvcc m s ;;
    e <- add64 m "hev1 start+size" start size ;;
    skip_bytes_to e ;;;
    Ret (mkHev1 data_reference_index width height horizresolution vertresolution
                frame_count depth hvcc)
  else Throw EData.

Open Scope wprog_scope.
Definition enc_hev1 (v : hev1) : wprog N :=
  let size := hev1_size v in
  write_header (box_type_of "Hev1Box") size ;;;
  wr_u32 0 ;;;
  wr_u16 0 ;;;
  wr_u16 (hev1_data_reference_index v) ;;;
  wr_u32 0 ;;;
  wr_u64 0 ;;;
  wr_u32 0 ;;;
  wr_u16 (hev1_width v) ;;;
  wr_u16 (hev1_height v) ;;;
  wr_u32 (hev1_horizresolution v) ;;;
  wr_u32 (hev1_vertresolution v) ;;;
  wr_u32 0 ;;;
  wr_u16 (hev1_frame_count v) ;;;
  wr_zeros 32 ;;;
  wr_u16 (hev1_depth v) ;;;
  wr_i16 (-1) ;;;
  enc_hvcc (hev1_hvcc v) ;;;
  WRet size.
Close Scope wprog_scope.

Definition show_hev1 (v : hev1) : tree :=
  TRec "Hev1Box" [("data_reference_index", TNum (hev1_data_reference_index v));
                  ("width", TNum (hev1_width v));
                  ("height", TNum (hev1_height v));
                  ("horizresolution", show_fp16 (hev1_horizresolution v));
                  ("vertresolution", show_fp16 (hev1_vertresolution v));
                  ("frame_count", TNum (hev1_frame_count v));
                  ("depth", TNum (hev1_depth v));
                  ("hvcc", show_hvcc (hev1_hvcc v))].

(** smoke tests *)
Definition hev1_test : hev1 :=
  mkHev1 1 320 240 (fp16_new 72) (fp16_new 72) 1 24
    (mkHvcC 1 2 true 17 1610612736 158329674399744 93 2748 1 2 5 6 6000 2 5 true 3
       [mkHvcCArray true 32 [mkHvcCNalu 3 [64; 1; 12]];
        mkHvcCArray false 33 [mkHvcCNalu 2 [66; 1]; mkHvcCNalu 0 []];
        mkHvcCArray true 34 []]).

Example hvcc_smoke :
  fst (run (h <- read_header ;; dec_hvcc Dbg (snd h)) (stream_at (wout (enc_hvcc (hev1_hvcc hev1_test))) 0))
  = Ok (hev1_hvcc hev1_test).
Proof. vm_compute. reflexivity. Qed.

Example hev1_smoke :
  fst (run (h <- read_header ;; dec_hev1 Dbg (snd h)) (stream_at (wout (enc_hev1 hev1_test)) 0))
  = Ok hev1_test.
Proof. vm_compute. reflexivity. Qed.

Example hev1_smoke_new :
  fst (run (h <- read_header ;; dec_hev1 Rel (snd h)) (stream_at (wout (enc_hev1 (hev1_new 640 480))) 0))
  = Ok (hev1_new 640 480).
Proof. vm_compute. reflexivity. Qed.
