(** * The child-box loop shared by every container box and by the reader

    Every container's [read_box] (and [Mp4Reader::read_header] /
    [read_fragment_header]) contains the loop

    <<
      let mut current = reader.stream_position()?;          // done by the caller
      let end = start + size;                               // done by the caller
      while current < end {
          let header = BoxHeader::read(reader)?;
          let BoxHeader { name, size: s } = header;
          if s > size { return Err(InvalidData(..)) }       // [check_size = Some size]
          if s == 0 { break; }                              // [check_zero = true]
          match name { .. }                                 // [dispatch]
          current = reader.stream_position()?;
      }
    >>

    [children_loop_gen] is that loop, nothing else: one unit of fuel per
    iteration, [Spin] when an iteration is due and the fuel is gone.  The
    remaining fuel is handed to [dispatch] so that a nested container runs
    its own loop on it; fuel never comes from a size field (a header can
    claim 2^64), it comes from the caller and ultimately from [open_fuel].

    [dispatch] also receives [current], the stream position at which the
    child's header starts ([Mp4Reader::read_header] records it as the moof
    offset).  [children_loop] is the instance for the containers, which do not
    look at it; [children_loop_at] is the instance for the reader, which also
    needs the value of [current] when the loop ends.

    The first [current] is an argument: the Rust code reads it with
    [stream_position()] BEFORE it evaluates [start + size] (and the reader
    uses the same call for [start]), so the caller issues that [get_pos]. *)
From MP4 Require Export Tree.
Open Scope string_scope.
Open Scope list_scope.
Open Scope N_scope.

(** the loop; [fin acc current] is what it returns when it ends (the reader needs the final
    [current], the containers only the accumulator) *)
Fixpoint children_loop_gen {Acc R : Type} (fuel : nat) (m : mode)
         (check_size : option N) (check_zero : bool) (end_ : N)
         (dispatch : nat -> N -> boxtype -> N -> Acc -> prog Acc)
         (fin : Acc -> N -> R)
         (acc : Acc) (current : N) {struct fuel} : prog R :=
  if current <? end_ then
    match fuel with
    | O => Spin
    | S f =>
        '(name, s) <- read_header ;;
        if match check_size with Some size => size <? s | None => false end then Throw EData
        else if check_zero && (s =? 0) then Ret (fin acc current)    (* break *)
        else
          acc' <- dispatch f current name s acc ;;
          current' <- get_pos ;;
          children_loop_gen f m check_size check_zero end_ dispatch fin acc' current'
    end
  else Ret (fin acc current).

(** the form every container box uses *)
Definition children_loop {Acc : Type} (fuel : nat) (m : mode)
           (check_size : option N (* Some parent size when the [s > size] guard exists *))
           (check_zero : bool) (end_ : N)
           (dispatch : nat (* remaining fuel *) -> boxtype -> N (* s *) -> Acc -> prog Acc)
           (acc : Acc) (current : N) : prog Acc :=
  children_loop_gen fuel m check_size check_zero end_ (fun f _ => dispatch f) (fun a _ => a) acc current.

(** the form of [Mp4Reader::read_header]: [dispatch] sees the position of the child's header,
    and the final [current] is returned with the accumulator *)
Definition children_loop_at {Acc : Type} (fuel : nat) (m : mode)
           (check_size : option N) (check_zero : bool) (end_ : N)
           (dispatch : nat -> N (* current *) -> boxtype -> N -> Acc -> prog Acc)
           (acc : Acc) (current : N) : prog (Acc * N) :=
  children_loop_gen fuel m check_size check_zero end_ dispatch pair acc current.

(** the unfolding equation, for the proofs *)
Lemma children_loop_gen_eq {Acc R : Type} fuel m cs cz end_
      (dispatch : nat -> N -> boxtype -> N -> Acc -> prog Acc) (fin : Acc -> N -> R) acc current :
  children_loop_gen fuel m cs cz end_ dispatch fin acc current =
  if current <? end_ then
    match fuel with
    | O => Spin
    | S f =>
        '(name, s) <- read_header ;;
        if match cs with Some size => size <? s | None => false end then Throw EData
        else if cz && (s =? 0) then Ret (fin acc current)
        else
          acc' <- dispatch f current name s acc ;;
          current' <- get_pos ;;
          children_loop_gen f m cs cz end_ dispatch fin acc' current'
    end
  else Ret (fin acc current).
Proof. destruct fuel; reflexivity. Qed.

Lemma children_loop_gen_done {Acc R : Type} fuel m cs cz end_
      (dispatch : nat -> N -> boxtype -> N -> Acc -> prog Acc) (fin : Acc -> N -> R) acc current :
  end_ <= current -> children_loop_gen fuel m cs cz end_ dispatch fin acc current = Ret (fin acc current).
Proof.
  intros H. rewrite children_loop_gen_eq.
  destruct (N.ltb_spec current end_); [lia | reflexivity].
Qed.

(** the "remember the last one" and "push" accumulators used by the containers *)
Definition opt_get {A} (e : err) (o : option A) : prog A :=
  match o with Some a => Ret a | None => Throw e end.

(** smoke tests: two unknown children are skipped; a zero-size header breaks; no fuel spins *)
Example children_loop_smoke_skip :
  let bytes := be 4 8 ++ be 4 0x66726565 ++ be 4 12 ++ be 4 0x66726565 ++ [1; 2; 3; 4] in
  run (children_loop 5 Dbg (Some 20) true 20
         (fun _ _ s n => skip_box Dbg s ;;; Ret (n + 1)) 0 0) (stream_at bytes 0)
  = (Ok 2, stream_at bytes 20).
Proof. vm_compute. reflexivity. Qed.

Example children_loop_smoke_break_and_spin :
  let bytes := be 4 0 ++ be 4 0x66726565 in
  fst (run (children_loop 5 Dbg (Some 8) true 8 (fun _ _ _ n => Ret (n + 1)) 0 0) (stream_at bytes 0)) = Ok 0
  /\ fst (run (children_loop 0 Dbg (Some 8) true 8 (fun _ _ _ n => Ret (n + 1)) 0 0) (stream_at bytes 0))
     = OutOfFuel.
Proof. vm_compute. split; reflexivity. Qed.
