(** mehd.rs *)
From MP4 Require Export Tree.
Open Scope string_scope.
Open Scope list_scope.
Open Scope N_scope.

Record mehd := mkMehd { mehd_version : N; mehd_flags : N; mehd_fragment_duration : N }.

(** derived [Default] *)
Definition mehd_default : mehd := mkMehd 0 0 0.

Definition mehd_size (v : mehd) : N :=
  HEADER_SIZE + HEADER_EXT_SIZE
  + (if mehd_version v =? 1 then 8 else if mehd_version v =? 0 then 4 else 0).

Definition mehd_wf (v : mehd) : bool :=
  (mehd_version v <? 2) && ufit 3 (mehd_flags v)
  && (if mehd_version v =? 1 then ufit 8 (mehd_fragment_duration v) else ufit 4 (mehd_fragment_duration v)).

Definition dec_mehd (m : mode) (size : N) : prog mehd :=
  start <- box_start m ;;
  '(version, flags) <- read_header_ext ;;
  dur <- (if version =? 1 then rd_u64
          else if version =? 0 then rd_u32
          else Throw EData) ;;
  e <- add64 m "mehd start+size" start size ;;
  skip_bytes_to e ;;;
  Ret (mkMehd version flags dur).

Open Scope wprog_scope.
Definition enc_mehd (v : mehd) : wprog N :=
  let size := mehd_size v in
  write_header (box_type_of "MehdBox") size ;;;
  write_header_ext (mehd_version v) (mehd_flags v) ;;;
  (if mehd_version v =? 1 then wr_u64 (mehd_fragment_duration v)
   else if mehd_version v =? 0 then wr_u32 (cast_w U32 (mehd_fragment_duration v))
   else WThrow EData) ;;;
  WRet size.
Close Scope wprog_scope.

Definition show_mehd (v : mehd) : tree :=
  TRec "MehdBox" [("version", TNum (mehd_version v)); ("flags", TNum (mehd_flags v));
                  ("fragment_duration", TNum (mehd_fragment_duration v))].
