(** stsc.rs *)
From MP4 Require Export TblPrim.
Open Scope string_scope.
Open Scope list_scope.
Open Scope N_scope.

(** [StscEntry]; [first_sample] is not on the wire, [read_box] derives it in a second pass *)
Record stsc_ent := mkStscEnt {
  stsc_e_first_chunk : N; stsc_e_samples_per_chunk : N;
  stsc_e_sample_description_index : N; stsc_e_first_sample : N }.

Record stsc := mkStsc { stsc_version : N; stsc_flags : N; stsc_entries : list stsc_ent }.

Definition stsc_ent_default : stsc_ent := mkStscEnt 0 0 0 0.
Definition stsc_default : stsc := mkStsc 0 0 [].

Definition stsc_size (v : stsc) : N :=
  HEADER_SIZE + HEADER_EXT_SIZE + 4 + (12 * lenN (stsc_entries v)).

(** the value [sample_id] takes for the entry after [e] (whose successor is [nx]):
    [nx.first_chunk.checked_sub(e.first_chunk).and_then(|n| n.checked_mul(e.samples_per_chunk))
       .and_then(|n| n.checked_add(sample_id))], all on [u32] *)
Definition stsc_next_id (e nx : stsc_ent) (sample_id : N) : option N :=
  match checked_sub (stsc_e_first_chunk nx) (stsc_e_first_chunk e) with
  | None => None
  | Some a =>
      match checked_mul U32 a (stsc_e_samples_per_chunk e) with
      | None => None
      | Some b => checked_add U32 b sample_id
      end
  end.

(** the second loop of [read_box]: [for i in 0..entry_count { entries[i].first_sample = sample_id;
    if i < entry_count - 1 { sample_id = ..checked..ok_or(InvalidData)? } }] — one model step per
    iteration (it touches no stream) *)
Fixpoint stsc_fill (es : list stsc_ent) (sample_id : N) : prog (list stsc_ent) :=
  match es with
  | [] => Ret []
  | e :: t =>
      step ;;;
      let e' := mkStscEnt (stsc_e_first_chunk e) (stsc_e_samples_per_chunk e)
                          (stsc_e_sample_description_index e) sample_id in
      match t with
      | [] => Ret [e']
      | nx :: _ =>
          match stsc_next_id e nx sample_id with
          | None => Throw EData
          | Some sid => r <- stsc_fill t sid ;; Ret (e' :: r)
          end
      end
  end.

(** the [first_sample] fields of a value are the derived ones (and deriving them does not overflow) *)
Fixpoint stsc_first_ok (es : list stsc_ent) (sample_id : N) : bool :=
  match es with
  | [] => true
  | e :: t =>
      (stsc_e_first_sample e =? sample_id)
      && match t with
         | [] => true
         | nx :: _ =>
             match stsc_next_id e nx sample_id with
             | None => false
             | Some sid => stsc_first_ok t sid
             end
         end
  end.

Definition stsc_ent_wf (e : stsc_ent) : bool :=
  ufit 4 (stsc_e_first_chunk e) && ufit 4 (stsc_e_samples_per_chunk e)
  && ufit 4 (stsc_e_sample_description_index e).

Definition stsc_wf (v : stsc) : bool :=
  ufit 1 (stsc_version v) && ufit 3 (stsc_flags v)
  && ufit 4 (lenN (stsc_entries v)) && forallb stsc_ent_wf (stsc_entries v)
  && stsc_first_ok (stsc_entries v) 1.

Definition stsc_rd_entry : prog stsc_ent :=
  a <- rd_u32 ;; b <- rd_u32 ;; c <- rd_u32 ;; Ret (mkStscEnt a b c 0).

Definition dec_stsc (m : mode) (size : N) : prog stsc :=
  start <- box_start m ;;
  '(version, flags) <- read_header_ext ;;
  let header_size := HEADER_SIZE + HEADER_EXT_SIZE in
  let other_size := 4 in
  let entry_size := 4 + 4 + 4 in
  entry_count <- rd_u32 ;;
  if (size - header_size - other_size) / entry_size <? entry_count then Throw EData else
  alloc (entry_count * 16) ;;;
  entries <- rd_n (N.to_nat entry_count) stsc_rd_entry ;;
  entries <- stsc_fill entries 1 ;;
  e <- add64 m "stsc start+size" start size ;;
  skip_bytes_to e ;;;
  Ret (mkStsc version flags entries).

Open Scope wprog_scope.
Definition stsc_wr_entry (e : stsc_ent) : wprog unit :=
  wr_u32 (stsc_e_first_chunk e) ;;; wr_u32 (stsc_e_samples_per_chunk e) ;;;
  wr_u32 (stsc_e_sample_description_index e).

Definition enc_stsc (v : stsc) : wprog N :=
  let size := stsc_size v in
  write_header (box_type_of "StscBox") size ;;;
  write_header_ext (stsc_version v) (stsc_flags v) ;;;
  wr_u32 (cast_w U32 (lenN (stsc_entries v))) ;;;
  tbl_wr_each stsc_wr_entry (stsc_entries v) ;;;
  WRet size.
Close Scope wprog_scope.

Definition show_stsc_ent (e : stsc_ent) : tree :=
  TRec "StscEntry" [("first_chunk", TNum (stsc_e_first_chunk e));
                    ("samples_per_chunk", TNum (stsc_e_samples_per_chunk e));
                    ("sample_description_index", TNum (stsc_e_sample_description_index e));
                    ("first_sample", TNum (stsc_e_first_sample e))].

Definition show_stsc (v : stsc) : tree :=
  TRec "StscBox" [("version", TNum (stsc_version v)); ("flags", TNum (stsc_flags v));
                  ("entries", TList (map show_stsc_ent (stsc_entries v)))].

Example stsc_smoke :
  let v := mkStsc 0 0 [mkStscEnt 1 3 1 1; mkStscEnt 5 2 1 13; mkStscEnt 6 7 1 15] in
  stsc_wf v = true /\
  fst (run (h <- read_header ;; dec_stsc Dbg (snd h)) (stream_at (wout (enc_stsc v)) 0)) = Ok v.
Proof. vm_compute. split; reflexivity. Qed.

(** first_chunk going backwards is rejected, in every build *)
Example stsc_smoke_err :
  let v := mkStsc 0 0 [mkStscEnt 5 3 1 0; mkStscEnt 1 2 1 0] in
  fst (run (h <- read_header ;; dec_stsc Rel (snd h)) (stream_at (wout (enc_stsc v)) 0)) = Err EData.
Proof. vm_compute. reflexivity. Qed.
