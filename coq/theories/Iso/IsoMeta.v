(** * iTunes-style metadata in the user-data box: an independent reference renderer

    Written from the layout documents, not from the library:

    - ISO/IEC 14496-12 4.2: a box is [size : u32] [type : u32] [payload], [size] counts the
      8 header bytes ([iso_box]); 8.10.1 [udta] is a plain container; 8.11.1 [meta] is a
      FullBox (one version/flags word, 0) holding a [hdlr] (8.4.3) and handler-specific boxes.
    - QuickTime File Format, "Metadata": the QuickTime form of [meta] has NO version/flags
      word — its payload starts directly with the [hdlr] atom.  The QuickTime [hdlr] carries
      a component type ('mhlr') where ISO has [pre_defined = 0], a manufacturer ('appl')
      and flag words where ISO has [reserved = 0], and a counted (Pascal) name.
    - iTunes metadata (handler type 'mdir'): the item list [ilst] holds one box per item;
      the box type is the item key: '©nam' (0xA96E616D) title, '©day' (0xA9646179) release
      date / year, 'covr' cover art (poster), 'desc' description (summary).  Each item holds
      a 'data' box: type indicator (u8 type set = 0, u24 well-known type), locale indicator
      (u16 country, u16 language), then the value up to the end of the box.
      Well-known types: 0 binary (implicit), 1 UTF-8, 2 UTF-16, 13 JPEG, 14 PNG,
      21 BE signed integer, 22 BE unsigned integer, 27 BMP.

    Nothing here mentions the model's [enc_*]/[dec_*]; only [Bytes] ([be], [lenN]) is used. *)
From MP4 Require Import Bytes.
Open Scope list_scope.
Open Scope N_scope.

(** ** Boxes *)
Definition iso_box (code : N) (payload : bytes) : bytes :=
  be 4 (8 + lenN payload) ++ be 4 code ++ payload.

(** a sequence of child boxes, each given as (type code, payload) *)
Definition iso_boxes (cs : list (N * bytes)) : bytes :=
  flat_map (fun c => iso_box (fst c) (snd c)) cs.

(** four-character codes *)
Definition cc_udta : N := 0x75647461.   (* 'udta' *)
Definition cc_meta : N := 0x6d657461.   (* 'meta' *)
Definition cc_hdlr : N := 0x68646c72.   (* 'hdlr' *)
Definition cc_ilst : N := 0x696c7374.   (* 'ilst' *)
Definition cc_data : N := 0x64617461.   (* 'data' *)
Definition cc_nam  : N := 0xA96E616D.   (* '©nam' title *)
Definition cc_day  : N := 0xA9646179.   (* '©day' year *)
Definition cc_covr : N := 0x636f7672.   (* 'covr' poster *)
Definition cc_desc : N := 0x64657363.   (* 'desc' summary *)
Definition cc_mdir : N := 0x6d646972.   (* handler type 'mdir' *)

(** well-known value types *)
Definition wk_binary : N := 0.
Definition wk_utf8 : N := 1.
Definition wk_jpeg : N := 13.
Definition wk_png : N := 14.
Definition wk_bmp : N := 27.

(** ** The value atom and an item *)
Definition iso_data_payload (ty locale : N) (value : bytes) : bytes :=
  be 4 ty ++ be 4 locale ++ value.

(** payload of an item box: exactly one 'data' box *)
Definition iso_item_payload (ty locale : N) (value : bytes) : bytes :=
  iso_box cc_data (iso_data_payload ty locale value).

(** ** Handler reference *)
Definition iso_hdlr_payload (predef handler : N) (reserved name : bytes) : bytes :=
  be 1 0 ++ be 3 0 ++ be 4 predef ++ be 4 handler ++ reserved ++ name.

(** ** Decimal text of a number (most significant digit first, no sign, no padding) *)
Fixpoint iso_digits_le (fuel : nat) (n : N) : bytes :=
  match fuel with
  | O => []
  | S f => (48 + n mod 10) :: (if n / 10 =? 0 then [] else iso_digits_le f (n / 10))
  end.
(** 20 digits are enough for every 64-bit number *)
Definition iso_decimal (n : N) : bytes := rev (iso_digits_le 20 n).

(** ** The abstract value *)
Inductive year_enc :=
| YText (n : N)      (* UTF-8 decimal text, e.g. "2024" *)
| YBin (n : N).      (* 4 bytes, big-endian, value type binary *)

Record tags := mkTags {
  tg_title : option bytes;
  tg_year : option year_enc;
  tg_poster : option bytes;
  tg_summary : option bytes }.

Definition tags_none : tags := mkTags None None None None.

Inductive tag_key := TTitle | TYear | TPoster | TSummary.

(** the item list is written slot by slot: a slot is one of the four known items (written only
    when the tag is present) or an unrelated item: any other type code with any payload *)
Inductive slot :=
| SKey (k : tag_key)
| SNoise (code : N) (payload : bytes).

Record opts := mkOpts {
  o_full_meta : bool;           (* true: ISO FullBox form; false: QuickTime form, no version/flags *)
  o_hdlr_last : bool;           (* hdlr written after ilst instead of before it *)
  o_handler : N;                (* handler type; 'mdir' for iTunes metadata *)
  o_hdlr_predef : N;            (* ISO: 0; QuickTime: component type *)
  o_hdlr_reserved : bytes;      (* 12 bytes. ISO: 0; QuickTime: manufacturer, flags, flags mask *)
  o_hdlr_name : bytes;          (* the rest of the hdlr box: the name in either convention *)
  o_locale : N;                 (* locale indicator of the value atoms *)
  o_poster_type : N;            (* value type of the cover art: 13 JPEG, 14 PNG, 27 BMP *)
  o_layout : list slot;         (* order of the items, with unrelated items in between *)
  o_meta_a : list (N * bytes);  (* other boxes in meta: before, between and after hdlr / ilst *)
  o_meta_b : list (N * bytes);
  o_meta_c : list (N * bytes);
  o_udta_pre : list (N * bytes);   (* other boxes in udta, before and after meta *)
  o_udta_post : list (N * bytes) }.

Definition iso_year_child (o : opts) (y : year_enc) : N * bytes :=
  match y with
  | YText n => (cc_day, iso_item_payload wk_utf8 (o_locale o) (iso_decimal n))
  | YBin n => (cc_day, iso_item_payload wk_binary (o_locale o) (be 4 n))
  end.

Definition iso_slot_children (o : opts) (t : tags) (s : slot) : list (N * bytes) :=
  match s with
  | SKey TTitle =>
      match tg_title t with Some v => [(cc_nam, iso_item_payload wk_utf8 (o_locale o) v)] | None => [] end
  | SKey TYear =>
      match tg_year t with Some y => [iso_year_child o y] | None => [] end
  | SKey TPoster =>
      match tg_poster t with Some v => [(cc_covr, iso_item_payload (o_poster_type o) (o_locale o) v)] | None => [] end
  | SKey TSummary =>
      match tg_summary t with Some v => [(cc_desc, iso_item_payload wk_utf8 (o_locale o) v)] | None => [] end
  | SNoise c p => [(c, p)]
  end.

Definition iso_ilst_children (o : opts) (t : tags) : list (N * bytes) :=
  flat_map (iso_slot_children o t) (o_layout o).

Definition iso_hdlr_child (o : opts) : N * bytes :=
  (cc_hdlr, iso_hdlr_payload (o_hdlr_predef o) (o_handler o) (o_hdlr_reserved o) (o_hdlr_name o)).

Definition iso_ilst_child (o : opts) (t : tags) : N * bytes :=
  (cc_ilst, iso_boxes (iso_ilst_children o t)).

Definition iso_meta_children (o : opts) (t : tags) : list (N * bytes) :=
  if o_hdlr_last o
  then o_meta_a o ++ [iso_ilst_child o t] ++ o_meta_b o ++ [iso_hdlr_child o] ++ o_meta_c o
  else o_meta_a o ++ [iso_hdlr_child o] ++ o_meta_b o ++ [iso_ilst_child o t] ++ o_meta_c o.

Definition iso_meta_payload (o : opts) (t : tags) : bytes :=
  (if o_full_meta o then be 4 0 else []) ++ iso_boxes (iso_meta_children o t).

Definition iso_udta_children (o : opts) (t : tags) : list (N * bytes) :=
  o_udta_pre o ++ [(cc_meta, iso_meta_payload o t)] ++ o_udta_post o.

(** the whole user-data box *)
Definition iso_udta (o : opts) (t : tags) : bytes :=
  iso_box cc_udta (iso_boxes (iso_udta_children o t)).

(** a user-data box without a meta box *)
Definition iso_udta_plain (others : list (N * bytes)) : bytes :=
  iso_box cc_udta (iso_boxes others).

(** the plainest options: ISO form, hdlr first, ISO hdlr with an empty name, items in the order
    title, year, poster, summary, JPEG cover, nothing else anywhere *)
Definition opts_plain : opts :=
  mkOpts true false cc_mdir 0 (be 4 0 ++ be 4 0 ++ be 4 0) [0] 0 wk_jpeg
         [SKey TTitle; SKey TYear; SKey TPoster; SKey TSummary] [] [] [] [] [].

(** ** What a reader must answer (the value of the year in either encoding) *)
Definition year_value (y : year_enc) : N := match y with YText n => n | YBin n => n end.
