(** Track Fragment Header Box, ISO/IEC 14496-12 8.8.7:
    aligned(8) class TrackFragmentHeaderBox extends FullBox('tfhd', 0, tf_flags) {
      unsigned int(32) track_ID;
      // all the following are optional fields
      unsigned int(64) base_data_offset;
      unsigned int(32) sample_description_index;
      unsigned int(32) default_sample_duration;
      unsigned int(32) default_sample_size;
      unsigned int(32) default_sample_flags; }
    tf_flags: 0x000001 base-data-offset-present, 0x000002 sample-description-index-present,
    0x000008 default-sample-duration-present, 0x000010 default-sample-size-present,
    0x000020 default-sample-flags-present, 0x010000 duration-is-empty, 0x020000 default-base-is-moof.
    An optional field occupies bytes exactly when its flag bit is set. *)
From MP4 Require Import BoxTfhd.
Open Scope list_scope.
Open Scope N_scope.

Definition iso_tfhd_present (mask flags : N) : bool := negb (N.land flags mask =? 0).

Definition iso_tfhd_opt (mask flags : N) (w : nat) (o : option N) : bytes :=
  if iso_tfhd_present mask flags then be w (match o with Some x => x | None => 0 end) else [].

Definition iso_tfhd_payload (v : tfhd) : bytes :=
  be 1 (tfhd_version v) ++ be 3 (tfhd_flags v) ++
  be 4 (tfhd_track_id v) ++
  iso_tfhd_opt 0x000001 (tfhd_flags v) 8 (tfhd_base_data_offset v) ++
  iso_tfhd_opt 0x000002 (tfhd_flags v) 4 (tfhd_sample_description_index v) ++
  iso_tfhd_opt 0x000008 (tfhd_flags v) 4 (tfhd_default_sample_duration v) ++
  iso_tfhd_opt 0x000010 (tfhd_flags v) 4 (tfhd_default_sample_size v) ++
  iso_tfhd_opt 0x000020 (tfhd_flags v) 4 (tfhd_default_sample_flags v).
