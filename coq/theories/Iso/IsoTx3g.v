(** 3GPP TS 26.245, 5.16 Sample Description Format (with ISO/IEC 14496-12, 8.5.2.2 SampleEntry):
    class TextSampleEntry() extends SampleEntry ('tx3g') {
      // SampleEntry: const unsigned int(8)[6] reserved = 0; unsigned int(16) data_reference_index;
      unsigned int(32) displayFlags;
      signed int(8)    horizontal-justification;
      signed int(8)    vertical-justification;
      unsigned int(8)  background-color-rgba[4];
      BoxRecord        default-text-box;   // signed int(16) top, left, bottom, right
      StyleRecord      default-style;      // 12 bytes: startChar(16) endChar(16) font-ID(16)
                                           //           face-style-flags(8) font-size(8) text-color-rgba(8)[4]
      FontTableBox     font-table;         // mandatory in the standard
    }
    The library keeps the BoxRecord as four 16-bit integers and the StyleRecord as its twelve
    bytes, and has NO font table: it neither writes the mandatory FontTableBox nor keeps one that it
    reads (reported as a deviation).  The layout below is the standard's, without the font table. *)
From MP4 Require Import BoxTx3g.
Open Scope list_scope.
Open Scope N_scope.

Definition iso_tx3g_i8 (z : Z) : bytes := be 1 (of_signed 8 z).
Definition iso_tx3g_i16 (z : Z) : bytes := be 2 (of_signed 16 z).

Definition iso_tx3g_payload (v : tx3g) : bytes :=
  repeat 0 6 ++ be 2 (tx3g_data_reference_index v) ++
  be 4 (tx3g_display_flags v) ++
  iso_tx3g_i8 (tx3g_horizontal_justification v) ++
  iso_tx3g_i8 (tx3g_vertical_justification v) ++
  be 1 (rgba_red (tx3g_bg_color_rgba v)) ++ be 1 (rgba_green (tx3g_bg_color_rgba v)) ++
  be 1 (rgba_blue (tx3g_bg_color_rgba v)) ++ be 1 (rgba_alpha (tx3g_bg_color_rgba v)) ++
  flat_map iso_tx3g_i16 (tx3g_box_record v) ++
  flat_map (be 1) (tx3g_style_record v).
