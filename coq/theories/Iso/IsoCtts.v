(** ISO/IEC 14496-12, 8.6.1.3 CompositionOffsetBox:
    aligned(8) class CompositionOffsetBox extends FullBox('ctts', version, 0) {
      unsigned int(32) entry_count;
      if (version == 0) for (..) { unsigned int(32) sample_count; unsigned int(32) sample_offset; }
      else if (version == 1) for (..) { unsigned int(32) sample_count; signed int(32) sample_offset; } }
    The record keeps [sample_offset] as the signed reading of the 32-bit field in both versions
    (for version 0 the standard's unsigned value is [of_signed 32] of it), so the bytes are the same
    expression for both versions. *)
From MP4 Require Import BoxCtts.
Open Scope list_scope.
Open Scope N_scope.

Definition iso_ctts_entry (e : ctts_entry) : bytes :=
  be 4 (ctts_e_sample_count e) ++ be 4 (of_signed (8 * N.of_nat 4) (ctts_e_sample_offset e)).

Definition iso_ctts_payload (v : ctts) : bytes :=
  be 1 (ctts_version v) ++ be 3 (ctts_flags v) ++
  be 4 (lenN (ctts_entries v)) ++ flat_map iso_ctts_entry (ctts_entries v).
