(** * An independent ISO-BMFF file parser and validator (ISO/IEC 14496-12)

    Written from the standard, over plain byte lists; it shares no definition
    with the library model ([Model/]) except the plain data record [tables]
    (the sample-table view of [Track.v], which mirrors ISO's own tables) and
    [Base/Bytes].  Used as the oracle for the muxer properties (C02, C13) and
    to read the real muxer's output back for the comparison with the model. *)
From MP4 Require Export Track.
Open Scope list_scope.
Open Scope N_scope.

Record ibox := mkIbox {
  ib_type : N;          (* four-character code *)
  ib_off : N;           (* absolute offset of the first header byte *)
  ib_hdr : N;           (* header length: 8, or 16 for the 64-bit size form *)
  ib_size : N;          (* total box size *)
  ib_payload : bytes }.

Definition takeN {A} (n : N) (l : list A) : list A := firstn (N.to_nat n) l.

(** split a byte range into boxes; [None] unless the boxes tile the range exactly *)
Fixpoint iso_boxes (fuel : nat) (off : N) (l : bytes) : option (list ibox) :=
  match fuel with
  | O => None
  | S f =>
      match l with
      | [] => Some []
      | _ =>
          if lenN l <? 8 then None else
          let size32 := unbe (takeN 4 l) in
          let typ := unbe (takeN 4 (dropN 4 l)) in
          let '(hdr, size) :=
            if size32 =? 1 then (16, unbe (takeN 8 (dropN 8 l)))
            else if size32 =? 0 then (8, lenN l)
            else (8, size32) in
          if (size <? hdr) || (lenN l <? size) then None else
          match iso_boxes f (off + size) (dropN size l) with
          | Some rest => Some (mkIbox typ off hdr size (takeN (size - hdr) (dropN hdr l)) :: rest)
          | None => None
          end
      end
  end.

Definition iso_parse (off : N) (l : bytes) : option (list ibox) := iso_boxes (S (length l)) off l.

Definition children (b : ibox) : option (list ibox) := iso_parse (ib_off b + ib_hdr b) (ib_payload b).
(** children of a full box whose payload starts with [skip] bytes of fields *)
Definition children_after (skip : N) (b : ibox) : option (list ibox) :=
  iso_parse (ib_off b + ib_hdr b + skip) (dropN skip (ib_payload b)).

Definition find_all (t : N) (l : list ibox) : list ibox := filter (fun b => ib_type b =? t) l.
Definition find_one (t : N) (l : list ibox) : option ibox :=
  match find_all t l with [b] => Some b | _ => None end.
Definition find_opt (t : N) (l : list ibox) : option (option ibox) :=
  match find_all t l with [] => Some None | [b] => Some (Some b) | _ => None end.

Definition cc4 (a b c d : N) : N := unbe [a; b; c; d].
Definition FTYP := 0x66747970. Definition MOOV := 0x6d6f6f76. Definition MDAT := 0x6d646174.
Definition MVHD := 0x6d766864. Definition TRAK := 0x7472616b. Definition TKHD := 0x746b6864.
Definition MDIA := 0x6d646961. Definition MDHD := 0x6d646864. Definition HDLR := 0x68646c72.
Definition MINF := 0x6d696e66. Definition STBL := 0x7374626c. Definition STSD := 0x73747364.
Definition STTS := 0x73747473. Definition CTTS := 0x63747473. Definition STSC := 0x73747363.
Definition STSZ := 0x7374737a. Definition STCO := 0x7374636f. Definition CO64 := 0x636f3634.
Definition STSS := 0x73747373. Definition DINF := 0x64696e66. Definition WIDE := 0x77696465.
Definition FREE := 0x66726565. Definition VMHD := 0x766d6864. Definition SMHD := 0x736d6864.

(** big-endian field [w] bytes wide at offset [o] of a payload; [None] when out of range *)
Definition fld (p : bytes) (o : N) (w : N) : option N :=
  if lenN p <? o + w then None else Some (unbe (takeN w (dropN o p))).

(** [count] fixed-size records starting at offset [o]; the payload must end exactly after them *)
Fixpoint records (n : nat) (w : N) (p : bytes) : option (list bytes) :=
  match n with
  | O => match p with [] => Some [] | _ => None end
  | S k => if lenN p <? w then None else
           match records k w (dropN w p) with
           | Some r => Some (takeN w p :: r)
           | None => None
           end
  end.

Definition table_of (b : ibox) (w : N) : option (N * N * list bytes) :=   (* version, flags, entries *)
  match fld (ib_payload b) 0 1, fld (ib_payload b) 1 3, fld (ib_payload b) 4 4 with
  | Some v, Some f, Some cnt =>
      if lenN (ib_payload b) - 8 <? cnt * w then None else
      match records (N.to_nat cnt) w (dropN 8 (ib_payload b)) with
      | Some r => Some (v, f, r)
      | None => None
      end
  | _, _, _ => None
  end.

Definition u32_at (r : bytes) (o : N) : N := unbe (takeN 4 (dropN o r)).
Definition u64_at (r : bytes) (o : N) : N := unbe (takeN 8 (dropN o r)).

Record itrack := mkItrack {
  it_track_id : N;
  it_tkhd_version : N; it_tkhd_duration : N; it_width : N; it_height : N;   (* 16.16 raw *)
  it_mdhd_version : N; it_timescale : N; it_mdhd_duration : N; it_language : N;  (* packed *)
  it_handler : N;
  it_entry_type : N;                  (* four-cc of the single sample entry *)
  it_entry : bytes;                   (* its payload *)
  it_tables : tables;
  it_containers_ok : bool }.

Definition opt_bind {A B} (o : option A) (f : A -> option B) : option B :=
  match o with Some a => f a | None => None end.
Notation "x <-? o ;; k" := (opt_bind o (fun x => k)) (at level 61, o at next level, right associativity).
Notation "' pat <-? o ;; k" := (opt_bind o (fun x => match x with pat => k end))
  (at level 61, pat pattern, o at next level, right associativity).
Notation "o ;;; k" := (opt_bind o (fun _ => k)) (at level 61, right associativity).
Fixpoint list_eqb (a b : list N) : bool :=
  match a, b with
  | [], [] => true
  | x :: a', y :: b' => (x =? y) && list_eqb a' b'
  | _, _ => false
  end.

(** a container's declared size equals its header plus its children: that is what [children] checks
    (it fails unless the children tile the payload exactly) *)

Definition parse_stbl (stbl : ibox) : option (N * bytes * tables) :=
  cs <-? children stbl ;;
  stsd <-? find_one STSD cs ;;
  stts <-? find_one STTS cs ;;
  stsc <-? find_one STSC cs ;;
  stsz <-? find_one STSZ cs ;;
  ctts <-? find_opt CTTS cs ;;
  stss <-? find_opt STSS cs ;;
  stco <-? find_opt STCO cs ;;
  co64 <-? find_opt CO64 cs ;;
  (* stsd: full box header, entry_count, then the entries as boxes *)
  n_entries <-? fld (ib_payload stsd) 4 4 ;;
  entries <-? children_after 8 stsd ;;
  entry <-? (match entries with [e] => if n_entries =? 1 then Some e else None | _ => None end) ;;
  '(_, _, stts_r) <-? table_of stts 8 ;;
  '(_, _, stsc_r) <-? table_of stsc 12 ;;
  (* stsz: sample_size, sample_count, then per-sample sizes iff sample_size = 0 *)
  ssize <-? fld (ib_payload stsz) 4 4 ;;
  scount <-? fld (ib_payload stsz) 8 4 ;;
  sizes <-? (if ssize =? 0
             then records (N.to_nat scount) 4 (dropN 12 (ib_payload stsz))
             else match dropN 12 (ib_payload stsz) with [] => Some [] | _ => None end) ;;
  ctts_t <-? (match ctts with
              | Some b => '(_, _, r) <-? table_of b 8 ;;
                          Some (Some (map (fun e => (u32_at e 0, to_signed 32 (u32_at e 4))) r))
              | None => Some None end) ;;
  stss_t <-? (match stss with
              | Some b => '(_, _, r) <-? table_of b 4 ;; Some (Some (map (fun e => u32_at e 0) r))
              | None => Some None end) ;;
  stco_t <-? (match stco with
              | Some b => '(_, _, r) <-? table_of b 4 ;; Some (Some (map (fun e => u32_at e 0) r))
              | None => Some None end) ;;
  co64_t <-? (match co64 with
              | Some b => '(_, _, r) <-? table_of b 8 ;; Some (Some (map (fun e => u64_at e 0) r))
              | None => Some None end) ;;
  Some (ib_type entry, ib_payload entry,
        mkTables (map (fun e => mkStsc (u32_at e 0) (u32_at e 4) (u32_at e 8) 0) stsc_r)
                 ssize scount (map (fun e => u32_at e 0) sizes)
                 stco_t co64_t
                 (map (fun e => (u32_at e 0, u32_at e 4)) stts_r)
                 ctts_t stss_t).

Definition parse_trak (trak : ibox) : option itrack :=
  cs <-? children trak ;;
  tkhd <-? find_one TKHD cs ;;
  mdia <-? find_one MDIA cs ;;
  mcs <-? children mdia ;;
  mdhd <-? find_one MDHD mcs ;;
  hdlr <-? find_one HDLR mcs ;;
  minf <-? find_one MINF mcs ;;
  ics <-? children minf ;;
  stbl <-? find_one STBL ics ;;
  dinf_ok <-? (match find_opt DINF ics with
               | Some (Some d) => match children d with Some _ => Some true | None => None end
               | Some None => Some true
               | None => None end) ;;
  '(etype, entry, tb) <-? parse_stbl stbl ;;
  tv <-? fld (ib_payload tkhd) 0 1 ;;
  mv <-? fld (ib_payload mdhd) 0 1 ;;
  (* tkhd: v0: ctime4 mtime4 id4 res4 dur4 | v1: ctime8 mtime8 id4 res4 dur8; then 8 reserved, layer2 altgrp2 vol2 res2, matrix36, w4 h4 *)
  tid <-? fld (ib_payload tkhd) (if tv =? 1 then 20 else 12) 4 ;;
  tdur <-? (if tv =? 1 then fld (ib_payload tkhd) 28 8 else fld (ib_payload tkhd) 20 4) ;;
  w <-? fld (ib_payload tkhd) (if tv =? 1 then 88 else 76) 4 ;;
  h <-? fld (ib_payload tkhd) (if tv =? 1 then 92 else 80) 4 ;;
  (if lenN (ib_payload tkhd) =? (if tv =? 1 then 96 else 84) then Some tt else None) ;;;
  (* mdhd: v0: ctime4 mtime4 ts4 dur4 | v1: ctime8 mtime8 ts4 dur8; lang2 pre2 *)
  ts <-? fld (ib_payload mdhd) (if mv =? 1 then 20 else 12) 4 ;;
  mdur <-? (if mv =? 1 then fld (ib_payload mdhd) 24 8 else fld (ib_payload mdhd) 16 4) ;;
  lang <-? fld (ib_payload mdhd) (if mv =? 1 then 32 else 20) 2 ;;
  (if lenN (ib_payload mdhd) =? (if mv =? 1 then 36 else 24) then Some tt else None) ;;;
  handler <-? fld (ib_payload hdlr) 8 4 ;;
  Some (mkItrack tid tv tdur w h mv ts mdur lang handler etype entry tb dinf_ok).

Record ifile := mkIfile {
  if_ftyp : ibox;
  if_mdat : list ibox;
  if_mvhd_version : N; if_mvhd_timescale : N; if_mvhd_duration : N;
  if_tracks : list itrack;
  if_top : list ibox }.

Fixpoint all_some {A} (l : list (option A)) : option (list A) :=
  match l with
  | [] => Some []
  | Some a :: t => match all_some t with Some r => Some (a :: r) | None => None end
  | None :: _ => None
  end.

(** [base]: the stream position of the first byte of [l] *)
Definition iso_file (base : N) (l : bytes) : option ifile :=
  top <-? iso_parse base l ;;
  ftyp <-? (match top with b :: _ => if ib_type b =? FTYP then Some b else None | [] => None end) ;;
  moov <-? find_one MOOV top ;;
  cs <-? children moov ;;
  mvhd <-? find_one MVHD cs ;;
  v <-? fld (ib_payload mvhd) 0 1 ;;
  ts <-? fld (ib_payload mvhd) (if v =? 1 then 20 else 12) 4 ;;
  dur <-? (if v =? 1 then fld (ib_payload mvhd) 24 8 else fld (ib_payload mvhd) 16 4) ;;
  (if lenN (ib_payload mvhd) =? (if v =? 1 then 112 else 100) then Some tt else None) ;;;
  tracks <-? all_some (map parse_trak (find_all TRAK cs)) ;;
  Some (mkIfile ftyp (find_all MDAT top) v ts dur tracks top).

(** ** Validity of a muxed file (property C02) *)

(** per-chunk sample counts from the sample-to-chunk runs (ISO 8.7.4) *)
Fixpoint iso_chunk_counts (runs : list stsc_entry) (nchunks : N) : list N :=
  match runs with
  | [] => []
  | e :: t =>
      let stop := match t with [] => nchunks + 1 | e' :: _ => sc_first_chunk e' end in
      repeatN (sc_samples_per_chunk e) (stop - sc_first_chunk e) ++ iso_chunk_counts t nchunks
  end.

Fixpoint stsc_runs_ok (runs : list stsc_entry) (expect : option N) (nchunks : N) : bool :=
  match runs with
  | [] => true
  | e :: t =>
      (match expect with Some f => sc_first_chunk e =? f | None => true end)
      && (1 <=? sc_samples_per_chunk e) && (sc_first_chunk e <=? nchunks)
      && (match t with [] => true | e' :: _ => sc_first_chunk e <? sc_first_chunk e' end)
      && stsc_runs_ok t None nchunks
  end.

Definition offsets_of (tb : tables) : list N :=
  match t_stco tb, t_co64 tb with
  | Some l, None => l
  | None, Some l => l
  | _, _ => []
  end.

Definition sizes_of (tb : tables) : list N :=
  if t_stsz_size tb =? 0 then t_stsz_sizes tb else repeatN (t_stsz_size tb) (t_stsz_count tb).

(** byte extents [(start, length)] of the chunks of one track *)
Fixpoint chunk_extents (offs counts sizes : list N) : list (N * N) :=
  match offs, counts with
  | o :: os, n :: cs => (o, sumN (takeN n sizes)) :: chunk_extents os cs (dropN n sizes)
  | _, _ => []
  end.

Fixpoint increasing (prev : N) (l : list N) : bool :=
  match l with [] => true | x :: t => (prev <? x) && increasing x t end.

Fixpoint disjoint_from (e : N * N) (l : list (N * N)) : bool :=
  match l with
  | [] => true
  | (s, n) :: t =>
      ((fst e + snd e <=? s) || (s + n <=? fst e) || (snd e =? 0) || (n =? 0)) && disjoint_from e t
  end.
Fixpoint pairwise_disjoint (l : list (N * N)) : bool :=
  match l with [] => true | e :: t => disjoint_from e t && pairwise_disjoint t end.

Definition run_total {V} (l : list (N * V)) : N := sumN (map fst l).
Definition dur_total (l : list (N * N)) : N := sumN (map (fun e => fst e * snd e) l).

(** one track's tables are mutually consistent and account for exactly [n] samples of total duration [d] *)
Definition track_tables_ok (tb : tables) (n d : N) : bool :=
  let offs := offsets_of tb in
  let counts := iso_chunk_counts (t_stsc tb) (lenN offs) in
  (match t_stco tb, t_co64 tb with Some _, None => true | None, Some _ => true | _, _ => false end)
  && (t_stsz_count tb =? n)
  && (lenN (sizes_of tb) =? n)
  && (run_total (t_stts tb) =? n) && (dur_total (t_stts tb) =? d)
  && (match t_ctts tb with Some es => run_total es =? n | None => true end)
  && stsc_runs_ok (t_stsc tb) (Some 1) (lenN offs)
  && (match t_stsc tb with [] => (lenN offs =? 0) | _ => true end)
  && (sumN counts =? n) && (lenN counts =? lenN offs)
  && (match t_stss tb with Some l => increasing 0 l && forallb (fun x => x <=? n) l | None => true end).

Definition within (lo hi : N) (e : N * N) : bool := (lo <=? fst e) && (fst e + snd e <=? hi).

(** expected per-track facts taken from the history: (sample count, summed durations) in track order *)
Definition iso_check_file (base : N) (expect : list (N * N)) (l : bytes) : bool :=
  match iso_file base l with
  | None => false
  | Some f =>
      match if_mdat f with
      | [mdat] =>
          let lo := ib_off mdat + ib_hdr mdat in
          let hi := ib_off mdat + ib_size mdat in
          let exts := map (fun t => chunk_extents (offsets_of (it_tables t))
                                       (iso_chunk_counts (t_stsc (it_tables t)) (lenN (offsets_of (it_tables t))))
                                       (sizes_of (it_tables t))) (if_tracks f) in
          (lenN (if_tracks f) =? lenN expect)
          && forallb (fun p => track_tables_ok (it_tables (fst p)) (fst (snd p)) (snd (snd p))
                               && (it_mdhd_duration (fst p) =? snd (snd p))
                               && it_containers_ok (fst p))
                     (combine (if_tracks f) expect)
          && forallb (forallb (within lo hi)) exts
          && pairwise_disjoint (concat exts)
          (* header durations: track and movie durations equal the media duration converted to the
             movie timescale to within one tick; movie duration = longest track *)
          && forallb (fun t =>
                        let exact_num := it_mdhd_duration t * if_mvhd_timescale f in
                        (0 <? it_timescale t)
                        && (if U64 - 1 <=? exact_num / it_timescale t
                            then it_tkhd_duration t =? U64 - 1     (* not representable in the 64-bit field: saturated *)
                            else (it_tkhd_duration t * it_timescale t <=? exact_num + it_timescale t)
                                 && (exact_num <=? (it_tkhd_duration t + 1) * it_timescale t))) (if_tracks f)
          && (if_mvhd_duration f =? fold_left N.max (map it_tkhd_duration (if_tracks f)) 0)
          && ((if_mvhd_version f =? 1) || (if_mvhd_duration f <? U32))
          && forallb (fun t => ((it_tkhd_version t =? 1) || (it_tkhd_duration t <? U32))
                               && ((it_mdhd_version t =? 1) || (it_mdhd_duration t <? U32))) (if_tracks f)
          && list_eqb (map it_track_id (if_tracks f)) (map N.of_nat (seq 1 (length (if_tracks f))))
      | _ => false
      end
  end.
