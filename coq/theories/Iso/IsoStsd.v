(** ISO/IEC 14496-12, 8.5.2 Sample Description Box:

      aligned(8) class SampleDescriptionBox (unsigned int(32) handler_type)
        extends FullBox('stsd', version, 0) {
        int i;
        unsigned int(32) entry_count;
        for (i = 1; i <= entry_count; i++) { SampleEntry(); }   // a box per entry
      }

    The library's [StsdBox] has one optional field per sample-entry format it knows ('avc1',
    'hev1', 'vp09', 'mp4a', 'tx3g'); the entries present are rendered in that order and
    [entry_count] is their number. *)
From MP4 Require Import BoxStsd IsoCont IsoAvc1 IsoHev1 IsoVp09 IsoMp4a IsoTx3g.
Open Scope list_scope.
Open Scope N_scope.

Definition iso_present {X} (o : option X) : N := match o with Some _ => 1 | None => 0 end.

Definition iso_stsd_payload (v : stsd) : bytes :=
  be 1 (stsd_version v) ++ be 3 (stsd_flags v) ++
  be 4 (iso_present (stsd_avc1 v) + iso_present (stsd_hev1 v) + iso_present (stsd_vp09 v)
        + iso_present (stsd_mp4a v) + iso_present (stsd_tx3g v)) ++
  iso_opt (fun x => iso_box 0x61766331 (iso_avc1_payload x)) (stsd_avc1 v) ++
  iso_opt (fun x => iso_box 0x68657631 (iso_hev1_payload x)) (stsd_hev1 v) ++
  iso_opt (fun x => iso_box 0x76703039 (iso_vp09_payload x)) (stsd_vp09 v) ++
  iso_opt (fun x => iso_box 0x6d703461 (iso_mp4a_payload x)) (stsd_mp4a v) ++
  iso_opt (fun x => iso_box 0x74783367 (iso_tx3g_payload x)) (stsd_tx3g v).
