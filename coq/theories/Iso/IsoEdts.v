(** ISO/IEC 14496-12, 8.6.5 Edit Box:

      aligned(8) class EditBox extends Box('edts') { }

    a pure container for at most one Edit List Box 'elst' (8.6.6). *)
From MP4 Require Import BoxEdts IsoCont IsoElst.
Open Scope list_scope.
Open Scope N_scope.

Definition iso_edts_payload (v : edts) : bytes :=
  iso_opt (fun x => iso_box 0x656c7374 (iso_elst_payload x)) (edts_elst v).
