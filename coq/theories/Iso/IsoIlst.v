(** iTunes-style metadata (QuickTime File Format, "Metadata" / the 'ilst' atom of the
    'mdir' handler; not part of ISO/IEC 14496-12):

      'ilst' : a container; one child atom per metadata item, named by the item's key:
               0xA9 'nam' title, 0xA9 'day' year/date, 'covr' cover art, 'desc' description;
      item   : a container holding one value atom 'data' (IsoData.v).

    The library keeps the items in a [HashMap]; the model is the list of bindings in the order
    they are written, each key at most once. *)
From MP4 Require Import BoxIlst IsoCont IsoData.
Open Scope list_scope.
Open Scope N_scope.

Definition iso_mkey_code (k : mkey) : N :=
  match k with
  | KTitle => 0xa96e616d
  | KYear => 0xa9646179
  | KPoster => 0x636f7672
  | KSummary => 0x64657363
  end.

Definition iso_ilst_item_payload (it : ilst_item) : bytes :=
  iso_box 0x64617461 (iso_data_payload (ilst_item_data it)).

Definition iso_ilst_payload (v : ilst) : bytes :=
  iso_all (fun p => iso_box (iso_mkey_code (fst p)) (iso_ilst_item_payload (snd p))) (ilst_items v).
