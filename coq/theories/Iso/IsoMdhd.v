(** Media Header Box, ISO/IEC 14496-12 8.4.2:
    aligned(8) class MediaHeaderBox extends FullBox('mdhd', version, 0) {
      if (version==1) {
        unsigned int(64) creation_time;  unsigned int(64) modification_time;
        unsigned int(32) timescale;      unsigned int(64) duration;
      } else { // version==0
        unsigned int(32) creation_time;  unsigned int(32) modification_time;
        unsigned int(32) timescale;      unsigned int(32) duration;
      }
      bit(1) pad = 0;
      unsigned int(5)[3] language;   // ISO-639-2/T language code, each character minus 0x60
      unsigned int(16) pre_defined = 0; } *)
From MP4 Require Import BoxMdhd.
From MP4 Require Import IsoTables.
Open Scope list_scope.
Open Scope N_scope.

(** pad bit and the three packed characters as one 16-bit value *)
Definition iso_mdhd_lang (s : bytes) : N :=
  match s with
  | [a; b; c] => iso_lang_pack a b c
  | _ => 0
  end.

Definition iso_mdhd_payload (v : mdhd) : bytes :=
  be 1 (mdhd_version v) ++ be 3 (mdhd_flags v) ++
  (if mdhd_version v =? 1 then
     be 8 (mdhd_creation_time v) ++ be 8 (mdhd_modification_time v) ++
     be 4 (mdhd_timescale v) ++ be 8 (mdhd_duration v)
   else
     be 4 (mdhd_creation_time v) ++ be 4 (mdhd_modification_time v) ++
     be 4 (mdhd_timescale v) ++ be 4 (mdhd_duration v)) ++
  be 2 (iso_mdhd_lang (mdhd_language v)) ++
  be 2 0.
