(** ISO/IEC 14496-12, 8.7.1 Data Information Box and 8.7.2 Data Reference Box:
    aligned(8) class DataInformationBox extends Box('dinf') { }          // contains one 'dref'
    aligned(8) class DataEntryUrlBox (bit(24) flags) extends FullBox('url ', version = 0, flags) {
      string location; }    // flags & 1 ("self-contained"): no string at all, the box ends after the
                            // flags; otherwise a NUL-terminated UTF-8 string
    aligned(8) class DataReferenceBox extends FullBox('dref', version = 0, 0) {
      unsigned int(32) entry_count;
      for (i=1; i <= entry_count; i++) { DataEntryBox(entry_version, entry_flags) data_entry; } }
    and 4.2: aligned(8) class Box { unsigned int(32) size; unsigned int(32) type; ... }.
    The library's [DrefBox] holds at most one entry, a 'url ' one. *)
From MP4 Require Import BoxDinf.
Open Scope list_scope.
Open Scope N_scope.

(** a box with a 32-bit size: size (header included), type, payload *)
Definition iso_dinf_box (code : N) (payload : bytes) : bytes :=
  be 4 (8 + lenN payload) ++ be 4 code ++ payload.

Definition iso_url_payload (v : url) : bytes :=
  be 1 (url_version v) ++ be 3 (url_flags v) ++
  (if N.odd (url_flags v) then [] else url_location v ++ [0]).

Definition iso_dref_payload (v : dref) : bytes :=
  be 1 (dref_version v) ++ be 3 (dref_flags v) ++
  be 4 (match dref_url v with Some _ => 1 | None => 0 end) ++
  match dref_url v with
  | Some u => iso_dinf_box 0x75726c20 (iso_url_payload u)
  | None => []
  end.

Definition iso_dinf_payload (v : dinf) : bytes :=
  iso_dinf_box 0x64726566 (iso_dref_payload (dinf_dref v)).
