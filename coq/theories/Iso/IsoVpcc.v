(** VP Codec ISO Media File Format Binding v1.0, "VP Codec Configuration Box":
    class VPCodecConfigurationBox extends FullBox('vpcC', version = 1, 0) {
      VPCodecConfigurationRecord() vpcConfig; }
    aligned (8) class VPCodecConfigurationRecord {
      unsigned int (8)  profile;
      unsigned int (8)  level;
      unsigned int (4)  bitDepth;
      unsigned int (3)  chromaSubsampling;
      unsigned int (1)  videoFullRangeFlag;
      unsigned int (8)  colourPrimaries;
      unsigned int (8)  transferCharacteristics;
      unsigned int (8)  matrixCoefficients;
      unsigned int (16) codecIntializationDataSize;
      unsigned int (8)[] codecIntializationData;   // codecIntializationDataSize bytes; 0 for VP8/VP9
    }
    The library keeps [codec_initialization_data_size] but not the data: for a non-zero size the
    box it writes lacks the announced bytes (reported as a deviation); the layout below has none. *)
From MP4 Require Import BoxVpcc.
Open Scope list_scope.
Open Scope N_scope.

Definition iso_vpcc_payload (v : vpcc) : bytes :=
  be 1 (vpcc_version v) ++ be 3 (vpcc_flags v) ++
  be 1 (vpcc_profile v) ++ be 1 (vpcc_level v) ++
  be 1 (vpcc_bit_depth v * 16 + vpcc_chroma_subsampling v * 2
        + (if vpcc_video_full_range_flag v then 1 else 0)) ++
  be 1 (vpcc_color_primaries v) ++ be 1 (vpcc_transfer_characteristics v) ++
  be 1 (vpcc_matrix_coefficients v) ++
  be 2 (vpcc_codec_initialization_data_size v).
