(** * Defining tables, typed from the standards (independent of the Rust source)

    - four-character codes: ISO/IEC 14496-12 (box types), 14496-15 (avc1, avcC,
      hev1, hvcC), 14496-14 (mp4a, esds), 3GPP TS 26.245 (tx3g), the VP codec
      ISO-BMFF binding (vp09, vpcC), ISO/IEC 23009-1 (emsg), QuickTime file
      format (wide, wave, the iTunes item list codes);
    - ISO/IEC 14496-3 Table 1.17 (audio object types), Table 1.18 (sampling
      frequency index), Table 1.19 (channel configuration);
    - ISO/IEC 14496-10 Annex A profile_idc values and constraint_set1_flag;
    - iTunes metadata well-known data types.

    This file must not import anything from [MP4.Model] or [MP4.Gen]. *)
From Coq Require Import List NArith String Ascii.
Import ListNotations.
Open Scope N_scope.

Definition code_of_bytes (b : list N) : N :=
  fold_left (fun acc x => acc * 256 + x) b 0.

Fixpoint bytes_of_string (s : string) : list N :=
  match s with
  | EmptyString => []
  | String c t => N_of_ascii c :: bytes_of_string t
  end.

Definition cc (s : string) : N := code_of_bytes (bytes_of_string s).

Open Scope string_scope.

(** name used by the library for the box type, four-character code *)
Definition iso_boxtype_table : list (string * N) := [
  ("FtypBox", cc "ftyp"); ("MvhdBox", cc "mvhd"); ("MfhdBox", cc "mfhd");
  ("FreeBox", cc "free"); ("MdatBox", cc "mdat"); ("MoovBox", cc "moov");
  ("MvexBox", cc "mvex"); ("MehdBox", cc "mehd"); ("TrexBox", cc "trex");
  ("EmsgBox", cc "emsg"); ("MoofBox", cc "moof"); ("TkhdBox", cc "tkhd");
  ("TfhdBox", cc "tfhd"); ("TfdtBox", cc "tfdt"); ("EdtsBox", cc "edts");
  ("MdiaBox", cc "mdia"); ("ElstBox", cc "elst"); ("MdhdBox", cc "mdhd");
  ("HdlrBox", cc "hdlr"); ("MinfBox", cc "minf"); ("VmhdBox", cc "vmhd");
  ("StblBox", cc "stbl"); ("StsdBox", cc "stsd"); ("SttsBox", cc "stts");
  ("CttsBox", cc "ctts"); ("StssBox", cc "stss"); ("StscBox", cc "stsc");
  ("StszBox", cc "stsz"); ("StcoBox", cc "stco"); ("Co64Box", cc "co64");
  ("TrakBox", cc "trak"); ("TrafBox", cc "traf"); ("TrunBox", cc "trun");
  ("UdtaBox", cc "udta"); ("MetaBox", cc "meta"); ("DinfBox", cc "dinf");
  ("DrefBox", cc "dref"); ("UrlBox", cc "url "); ("SmhdBox", cc "smhd");
  ("Avc1Box", cc "avc1"); ("AvcCBox", cc "avcC"); ("Hev1Box", cc "hev1");
  ("HvcCBox", cc "hvcC"); ("Mp4aBox", cc "mp4a"); ("EsdsBox", cc "esds");
  ("Tx3gBox", cc "tx3g"); ("VpccBox", cc "vpcC"); ("Vp09Box", cc "vp09");
  ("DataBox", cc "data"); ("IlstBox", cc "ilst");
  (* (c)nam and (c)day: 0xA9 is the MacRoman copyright sign *)
  ("NameBox", code_of_bytes (169 :: bytes_of_string "nam"));
  ("DayBox", code_of_bytes (169 :: bytes_of_string "day"));
  ("CovrBox", cc "covr"); ("DescBox", cc "desc");
  ("WideBox", cc "wide"); ("WaveBox", cc "wave")
]%N.

(** which Rust struct encodes which box *)
Definition iso_box_types : list (string * string) := [
  ("Avc1Box", "Avc1Box"); ("AvcCBox", "AvcCBox"); ("Co64Box", "Co64Box");
  ("CttsBox", "CttsBox"); ("DataBox", "DataBox"); ("DinfBox", "DinfBox");
  ("DrefBox", "DrefBox"); ("UrlBox", "UrlBox"); ("EdtsBox", "EdtsBox");
  ("ElstBox", "ElstBox"); ("EmsgBox", "EmsgBox"); ("FtypBox", "FtypBox");
  ("HdlrBox", "HdlrBox"); ("Hev1Box", "Hev1Box"); ("HvcCBox", "HvcCBox");
  ("IlstBox", "IlstBox"); ("MdhdBox", "MdhdBox"); ("MdiaBox", "MdiaBox");
  ("MehdBox", "MehdBox"); ("MetaBox", "MetaBox"); ("MfhdBox", "MfhdBox");
  ("MinfBox", "MinfBox"); ("MoofBox", "MoofBox"); ("MoovBox", "MoovBox");
  ("EsdsBox", "EsdsBox"); ("Mp4aBox", "Mp4aBox"); ("MvexBox", "MvexBox");
  ("MvhdBox", "MvhdBox"); ("SmhdBox", "SmhdBox"); ("StblBox", "StblBox");
  ("StcoBox", "StcoBox"); ("StscBox", "StscBox"); ("StsdBox", "StsdBox");
  ("StssBox", "StssBox"); ("StszBox", "StszBox"); ("SttsBox", "SttsBox");
  ("TfdtBox", "TfdtBox"); ("TfhdBox", "TfhdBox"); ("TkhdBox", "TkhdBox");
  ("TrafBox", "TrafBox"); ("TrakBox", "TrakBox"); ("TrexBox", "TrexBox");
  ("TrunBox", "TrunBox"); ("Tx3gBox", "Tx3gBox"); ("UdtaBox", "UdtaBox");
  ("VmhdBox", "VmhdBox"); ("Vp09Box", "Vp09Box"); ("VpccBox", "VpccBox")
].

(** ISO/IEC 14496-3 Table 1.17 — audio object types the library names
    (0, 10, 11, 18 are reserved/unsupported, 31 is the escape value). *)
Definition iso_audio_object_types : list (N * string) := [
  (1, "AacMain"); (2, "AacLowComplexity"); (3, "AacScalableSampleRate");
  (4, "AacLongTermPrediction"); (5, "SpectralBandReplication"); (6, "AACScalable");
  (7, "TwinVQ"); (8, "CodeExcitedLinearPrediction"); (9, "HarmonicVectorExcitationCoding");
  (12, "TextToSpeechtInterface"); (13, "MainSynthetic"); (14, "WavetableSynthesis");
  (15, "GeneralMIDI"); (16, "AlgorithmicSynthesis"); (17, "ErrorResilientAacLowComplexity");
  (19, "ErrorResilientAacLongTermPrediction"); (20, "ErrorResilientAacScalable");
  (21, "ErrorResilientAacTwinVQ"); (22, "ErrorResilientAacBitSlicedArithmeticCoding");
  (23, "ErrorResilientAacLowDelay"); (24, "ErrorResilientCodeExcitedLinearPrediction");
  (25, "ErrorResilientHarmonicVectorExcitationCoding");
  (26, "ErrorResilientHarmonicIndividualLinesNoise"); (27, "ErrorResilientParametric");
  (28, "SinuSoidalCoding"); (29, "ParametricStereo"); (30, "MpegSurround");
  (32, "MpegLayer1"); (33, "MpegLayer2"); (34, "MpegLayer3"); (35, "DirectStreamTransfer");
  (36, "AudioLosslessCoding"); (37, "ScalableLosslessCoding");
  (38, "ScalableLosslessCodingNoneCore"); (39, "ErrorResilientAacEnhancedLowDelay");
  (40, "SymbolicMusicRepresentationSimple"); (41, "SymbolicMusicRepresentationMain");
  (42, "UnifiedSpeechAudioCoding"); (43, "SpatialAudioObjectCoding");
  (44, "LowDelayMpegSurround"); (45, "SpatialAudioObjectCodingDialogueEnhancement");
  (46, "AudioSync")
]%N.

(** ISO/IEC 14496-3 Table 1.18 — sampling frequency index -> Hz *)
Definition iso_sample_freq : list (N * string * N) := [
  (0, "Freq96000", 96000); (1, "Freq88200", 88200); (2, "Freq64000", 64000);
  (3, "Freq48000", 48000); (4, "Freq44100", 44100); (5, "Freq32000", 32000);
  (6, "Freq24000", 24000); (7, "Freq22050", 22050); (8, "Freq16000", 16000);
  (9, "Freq12000", 12000); (10, "Freq11025", 11025); (11, "Freq8000", 8000);
  (12, "Freq7350", 7350)
]%N.

(** ISO/IEC 14496-3 Table 1.19 — channel configuration *)
Definition iso_channel_config : list (N * string) := [
  (1, "Mono"); (2, "Stereo"); (3, "Three"); (4, "Four"); (5, "Five");
  (6, "FiveOne"); (7, "SevenOne")
]%N.

(** iTunes metadata "well-known" data types the library names *)
Definition iso_data_type : list (N * string) := [
  (0, "Binary"); (1, "Text"); (13, "Image"); (21, "TempoCpil")
]%N.

(** ISO/IEC 14496-10 Annex A: profile_idc; constraint_set1_flag is bit 6
    (mask 0x40) of the byte that follows profile_idc. *)
Definition iso_avc_profile (profile compat : N) : option string :=
  let cs1 := N.land (N.shiftr compat 6) 1 in
  if (profile =? 66)%N then Some (if (cs1 =? 1)%N then "AvcConstrainedBaseline" else "AvcBaseline")
  else if (profile =? 77)%N then Some "AvcMain"
  else if (profile =? 88)%N then Some "AvcExtended"
  else if (profile =? 100)%N then Some "AvcHigh"
  else None.

(** ISO/IEC 14496-12 8.4.3: handler types; the library's media kinds *)
Definition iso_handlers : list (string * string) := [
  ("Video", "vide"); ("Audio", "soun"); ("Subtitle", "sbtl")
].
Definition iso_media : list (string * string) := [
  ("H264", "h264"); ("H265", "h265"); ("VP9", "vp9"); ("AAC", "aac"); ("TTXT", "ttxt")
].

(** ISO-639-2/T packed language (14496-12 8.4.2.3): three 5-bit values, each
    the character minus 0x60, most significant first, in the low 15 bits. *)
Definition iso_lang_pack (a b c : N) : N := (a - 96) * 1024 + (b - 96) * 32 + (c - 96).
Definition iso_lang_unpack (code : N) : list N :=
  [ (code / 1024) mod 32 + 96; (code / 32) mod 32 + 96; code mod 32 + 96 ].

(** movie-fragment flag bits, 14496-12 8.8.7 (tfhd) and 8.8.8 (trun) *)
Definition iso_tfhd_flags : list (string * N) := [
  ("FLAG_BASE_DATA_OFFSET", 1); ("FLAG_SAMPLE_DESCRIPTION_INDEX", 2);
  ("FLAG_DEFAULT_SAMPLE_DURATION", 8); ("FLAG_DEFAULT_SAMPLE_SIZE", 16);
  ("FLAG_DEFAULT_SAMPLE_FLAGS", 32); ("FLAG_DURATION_IS_EMPTY", 65536);
  ("FLAG_DEFAULT_BASE_IS_MOOF", 131072)
]%N.
Definition iso_trun_flags : list (string * N) := [
  ("FLAG_DATA_OFFSET", 1); ("FLAG_FIRST_SAMPLE_FLAGS", 4);
  ("FLAG_SAMPLE_DURATION", 256); ("FLAG_SAMPLE_SIZE", 512);
  ("FLAG_SAMPLE_FLAGS", 1024); ("FLAG_SAMPLE_CTS", 2048)
]%N.
