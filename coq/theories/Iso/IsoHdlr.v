(** ISO/IEC 14496-12, 8.4.3 Handler Reference Box:
    aligned(8) class HandlerBox extends FullBox('hdlr', version = 0, 0) {
      unsigned int(32) pre_defined = 0;
      unsigned int(32) handler_type;
      const unsigned int(32)[3] reserved = 0;
      string name;      // null-terminated UTF-8
    } *)
From MP4 Require Import BoxHdlr.
Open Scope list_scope.
Open Scope N_scope.

Definition iso_hdlr_payload (v : hdlr) : bytes :=
  be 1 (hdlr_version v) ++ be 3 (hdlr_flags v) ++
  be 4 0 ++
  be 4 (hdlr_handler_type v) ++
  (be 4 0 ++ be 4 0 ++ be 4 0) ++
  hdlr_name v ++ [0].
