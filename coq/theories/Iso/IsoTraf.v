(** ISO/IEC 14496-12, 8.8.6 Track Fragment Box:

      aligned(8) class TrackFragmentBox extends Box('traf') { }

    a pure container: the Track Fragment Header 'tfhd' (8.8.7) first, then optionally the Track
    Fragment Base Media Decode Time 'tfdt' (8.8.12, "shall be positioned after the tfhd and
    before the first trun"), then zero or more Track Run boxes 'trun' (8.8.8).  The library's
    struct holds at most one trun. *)
From MP4 Require Import BoxTraf IsoCont IsoTfhd IsoTfdt IsoTrun.
Open Scope list_scope.
Open Scope N_scope.

Definition iso_traf_payload (v : traf) : bytes :=
  iso_box 0x74666864 (iso_tfhd_payload (traf_tfhd v)) ++
  iso_opt (fun x => iso_box 0x74666474 (iso_tfdt_payload x)) (traf_tfdt v) ++
  iso_opt (fun x => iso_box 0x7472756e (iso_trun_payload x)) (traf_trun v).
