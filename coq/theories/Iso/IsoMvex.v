(** ISO/IEC 14496-12, 8.8.1 Movie Extends Box:

      aligned(8) class MovieExtendsBox extends Box('mvex') { }

    a pure container: an optional Movie Extends Header 'mehd' (8.8.2) followed by one Track
    Extends Box 'trex' (8.8.3) PER TRACK of the movie.  The library's struct holds exactly one
    trex; the order mehd, trex is that of Table 1. *)
From MP4 Require Import BoxMvex IsoCont IsoMehd IsoTrex.
Open Scope list_scope.
Open Scope N_scope.

Definition iso_mvex_payload (v : mvex) : bytes :=
  iso_opt (fun x => iso_box 0x6d656864 (iso_mehd_payload x)) (mvex_mehd v) ++
  iso_box 0x74726578 (iso_trex_payload (mvex_trex v)).
