(** ISO/IEC 14496-12, 8.5.1 Sample Table Box:

      aligned(8) class SampleTableBox extends Box('stbl') { }

    a pure container.  Table 1 lists its children as stsd, stts, ctts, (cslg,) stsc, stsz/stz2,
    stco/co64, stss, ...; the standard does not mandate an order inside 'stbl'.  The library
    writes stsd, stts, ctts?, stss?, stsc, stsz, stco?, co64? (stss before stsc); that is the
    order rendered here.  Exactly one of stco/co64 is required by 8.7.5; the library's struct
    can hold both and then writes both. *)
From MP4 Require Import BoxStbl IsoCont IsoStsd IsoStts IsoCtts IsoStss IsoStsc IsoStsz IsoStco IsoCo64.
Open Scope list_scope.
Open Scope N_scope.

Definition iso_stbl_payload (v : stbl) : bytes :=
  iso_box 0x73747364 (iso_stsd_payload (stbl_stsd v)) ++
  iso_box 0x73747473 (iso_stts_payload (stbl_stts v)) ++
  iso_opt (fun x => iso_box 0x63747473 (iso_ctts_payload x)) (stbl_ctts v) ++
  iso_opt (fun x => iso_box 0x73747373 (iso_stss_payload x)) (stbl_stss v) ++
  iso_box 0x73747363 (iso_stsc_payload (stbl_stsc v)) ++
  iso_box 0x7374737a (iso_stsz_payload (stbl_stsz v)) ++
  iso_opt (fun x => iso_box 0x7374636f (iso_stco_payload x)) (stbl_stco v) ++
  iso_opt (fun x => iso_box 0x636f3634 (iso_co64_payload x)) (stbl_co64 v).
