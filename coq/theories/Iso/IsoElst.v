(** ISO/IEC 14496-12, 8.6.6 EditListBox:
    aligned(8) class EditListBox extends FullBox('elst', version, 0) {
      unsigned int(32) entry_count;
      for (i = 1; i <= entry_count; i++) {
        if (version == 1) { unsigned int(64) segment_duration; int(64) media_time; }
        else { unsigned int(32) segment_duration; int(32) media_time; }   // version == 0
        int(16) media_rate_integer; int(16) media_rate_fraction = 0; } }
    The Rust record holds [media_time], [media_rate] and [media_rate_fraction] as the UNSIGNED readings
    of fields the standard declares signed; the bytes are those of the unsigned reading. *)
From MP4 Require Import BoxElst.
Open Scope list_scope.
Open Scope N_scope.

Definition iso_elst_entry (version : N) (e : elst_entry) : bytes :=
  (if version =? 1
   then be 8 (elst_e_segment_duration e) ++ be 8 (elst_e_media_time e)
   else be 4 (elst_e_segment_duration e) ++ be 4 (elst_e_media_time e)) ++
  be 2 (elst_e_media_rate e) ++ be 2 (elst_e_media_rate_fraction e).

Definition iso_elst_payload (v : elst) : bytes :=
  be 1 (elst_version v) ++ be 3 (elst_flags v) ++
  be 4 (lenN (elst_entries v)) ++ flat_map (iso_elst_entry (elst_version v)) (elst_entries v).
