(** ISO/IEC 14496-12, 4.2 Object structure, as used by every container box:

      aligned(8) class Box (unsigned int(32) boxtype, ...) {
        unsigned int(32) size;            // the whole box, header included
        unsigned int(32) type = boxtype;
        if (size == 1) { unsigned int(64) largesize; } ...
      }

    A container box is a [Box] whose payload is nothing but a sequence of complete child
    boxes.  [iso_box] renders one child with the compact 32-bit size (what the library always
    writes below 4 GiB), [iso_opt] an optional child, [iso_all] a repeated child. *)
From MP4 Require Import Bytes.
From Coq Require Import List NArith.
Import ListNotations.
Open Scope list_scope.
Open Scope N_scope.

Definition iso_box (code : N) (payload : bytes) : bytes :=
  be 4 (8 + lenN payload) ++ be 4 code ++ payload.

Definition iso_opt {X} (render : X -> bytes) (o : option X) : bytes :=
  match o with Some x => render x | None => [] end.

Definition iso_all {X} (render : X -> bytes) (l : list X) : bytes := flat_map render l.
