(** ISO/IEC 14496-12, 8.7.5 ChunkOffsetBox:
    aligned(8) class ChunkOffsetBox extends FullBox('stco', version = 0, 0) {
      unsigned int(32) entry_count;
      for (i = 1; i <= entry_count; i++) { unsigned int(32) chunk_offset; } } *)
From MP4 Require Import BoxStco.
Open Scope list_scope.
Open Scope N_scope.

Definition iso_stco_payload (v : stco) : bytes :=
  be 1 (stco_version v) ++ be 3 (stco_flags v) ++
  be 4 (lenN (stco_entries v)) ++ flat_map (be 4) (stco_entries v).
