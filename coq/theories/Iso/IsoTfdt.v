(** Track Fragment Base Media Decode Time Box, ISO/IEC 14496-12 8.8.12:
    aligned(8) class TrackFragmentBaseMediaDecodeTimeBox extends FullBox('tfdt', version, 0) {
      if (version==1) { unsigned int(64) baseMediaDecodeTime; }
      else            { unsigned int(32) baseMediaDecodeTime; } } *)
From MP4 Require Import BoxTfdt.
Open Scope list_scope.
Open Scope N_scope.

Definition iso_tfdt_payload (v : tfdt) : bytes :=
  be 1 (tfdt_version v) ++ be 3 (tfdt_flags v) ++
  (if tfdt_version v =? 1 then be 8 (tfdt_base_media_decode_time v)
   else be 4 (tfdt_base_media_decode_time v)).
