(** QuickTime File Format / iTunes metadata, the value atom of a metadata item ('data'):
      type indicator   : unsigned int(8) type set = 0; unsigned int(24) well-known type;
      locale indicator : unsigned int(16) country = 0; unsigned int(16) language = 0;
      value            : unsigned int(8)[]  to the end of the atom.
    Well-known types the library names (IsoTables.iso_data_type): 0 reserved/binary, 1 UTF-8,
    13 JPEG, 21 big-endian signed integer. *)
From MP4 Require Import BoxData.
From MP4 Require IsoTables.
Open Scope list_scope.
Open Scope N_scope.

Definition iso_data_type_code (name : string) : N :=
  match find (fun e => String.eqb (snd e) name) IsoTables.iso_data_type with
  | Some (c, _) => c
  | None => 0
  end.

Definition iso_data_payload (v : data) : bytes :=
  be 1 0 ++ be 3 (iso_data_type_code (data_data_type v)) ++
  be 2 0 ++ be 2 0 ++
  data_data v.
