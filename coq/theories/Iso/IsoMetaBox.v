(** ISO/IEC 14496-12, 8.11.1 The Meta Box:

      aligned(8) class MetaBox (handler_type) extends FullBox('meta', version = 0, 0) {
        HandlerBox(handler_type) theHandler;
        PrimaryItemBox  primary_resource;   // optional
        ...                                  // optional: dinf, iloc, ipro, iinf, ..., other boxes
      }

    (in QuickTime files 'meta' is a plain atom without the FullBox word; the library reads both
    and always writes the ISO form).  The library distinguishes two shapes by the handler type:
    'mdir' (iTunes metadata: the handler followed by an optional 'ilst', IsoIlst.v) and anything
    else (the handler followed by the other children kept as raw boxes: type and payload).
    For 'mdir' the library does not keep the handler box: it is rendered as the one the library
    writes (version 0, flags 0, empty name). *)
From MP4 Require Import BoxMeta IsoCont IsoHdlr IsoIlst.
Open Scope list_scope.
Open Scope N_scope.

Definition iso_meta_mdir_hdlr : hdlr := mkHdlr 0 0 0x6d646972 [].

Definition iso_meta_children (v : meta) : bytes :=
  match v with
  | MetaMdir il =>
      iso_box 0x68646c72 (iso_hdlr_payload iso_meta_mdir_hdlr) ++
      iso_opt (fun x => iso_box 0x696c7374 (iso_ilst_payload x)) il
  | MetaUnknown h d =>
      iso_box 0x68646c72 (iso_hdlr_payload h) ++
      iso_all (fun p => iso_box (u32_of_boxtype (fst p)) (snd p)) d
  end.

Definition iso_meta_payload (v : meta) : bytes :=
  be 1 0 ++ be 3 0 ++ iso_meta_children v.
