(** ISO/IEC 14496-12, 8.7.4 SampleToChunkBox:
    aligned(8) class SampleToChunkBox extends FullBox('stsc', version = 0, 0) {
      unsigned int(32) entry_count;
      for (i = 1; i <= entry_count; i++) {
        unsigned int(32) first_chunk; unsigned int(32) samples_per_chunk;
        unsigned int(32) sample_description_index; } }
    ([first_sample] of the Rust record is not part of the format.) *)
From MP4 Require Import BoxStsc.
Open Scope list_scope.
Open Scope N_scope.

Definition iso_stsc_entry (e : stsc_ent) : bytes :=
  be 4 (stsc_e_first_chunk e) ++ be 4 (stsc_e_samples_per_chunk e) ++
  be 4 (stsc_e_sample_description_index e).

Definition iso_stsc_payload (v : stsc) : bytes :=
  be 1 (stsc_version v) ++ be 3 (stsc_flags v) ++
  be 4 (lenN (stsc_entries v)) ++ flat_map iso_stsc_entry (stsc_entries v).
