(** Movie Extends Header Box, ISO/IEC 14496-12 8.8.2:
    aligned(8) class MovieExtendsHeaderBox extends FullBox('mehd', version, 0) {
      if (version==1) { unsigned int(64) fragment_duration; }
      else            { unsigned int(32) fragment_duration; } } *)
From MP4 Require Import BoxMehd.
Open Scope list_scope.
Open Scope N_scope.

Definition iso_mehd_payload (v : mehd) : bytes :=
  be 1 (mehd_version v) ++ be 3 (mehd_flags v) ++
  (if mehd_version v =? 1 then be 8 (mehd_fragment_duration v)
   else be 4 (mehd_fragment_duration v)).
