(** ISO/IEC 23009-1, 5.10.3.3 Event message box:
    aligned(8) class DASHEventMessageBox extends FullBox('emsg', version, flags = 0) {
      if (version == 0) {
        string scheme_id_uri;  string value;
        unsigned int(32) timescale;  unsigned int(32) presentation_time_delta;
        unsigned int(32) event_duration;  unsigned int(32) id;
      } else if (version == 1) {
        unsigned int(32) timescale;  unsigned int(64) presentation_time;
        unsigned int(32) event_duration;  unsigned int(32) id;
        string scheme_id_uri;  string value;
      }
      unsigned int(8) message_data[];
    }
    (strings are NUL-terminated UTF-8) *)
From MP4 Require Import BoxEmsg.
Open Scope list_scope.
Open Scope N_scope.

Definition iso_emsg_payload (v : emsg) : bytes :=
  be 1 (emsg_version v) ++ be 3 (emsg_flags v) ++
  (if emsg_version v =? 0 then
     emsg_scheme_id_uri v ++ [0] ++ emsg_value v ++ [0] ++
     be 4 (emsg_timescale v) ++
     be 4 (match emsg_presentation_time_delta v with Some x => x | None => 0 end) ++
     be 4 (emsg_event_duration v) ++ be 4 (emsg_id v)
   else
     be 4 (emsg_timescale v) ++
     be 8 (match emsg_presentation_time v with Some x => x | None => 0 end) ++
     be 4 (emsg_event_duration v) ++ be 4 (emsg_id v) ++
     emsg_scheme_id_uri v ++ [0] ++ emsg_value v ++ [0]) ++
  emsg_message_data v.
