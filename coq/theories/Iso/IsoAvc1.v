(** ISO/IEC 14496-15, 5.3.3.1 (2004 edition; 5.2.4.1 in later ones) AVCDecoderConfigurationRecord,
    carried by the AVCConfigurationBox 'avcC':
      unsigned int(8) configurationVersion = 1;
      unsigned int(8) AVCProfileIndication;
      unsigned int(8) profile_compatibility;
      unsigned int(8) AVCLevelIndication;
      bit(6) reserved = '111111'b;  unsigned int(2) lengthSizeMinusOne;
      bit(3) reserved = '111'b;     unsigned int(5) numOfSequenceParameterSets;
      for (i = 0; i < numOfSequenceParameterSets; i++) {
        unsigned int(16) sequenceParameterSetLength; bit(8*sequenceParameterSetLength) sequenceParameterSetNALUnit; }
      unsigned int(8) numOfPictureParameterSets;
      for (i = 0; i < numOfPictureParameterSets; i++) {
        unsigned int(16) pictureParameterSetLength; bit(8*pictureParameterSetLength) pictureParameterSetNALUnit; }
    (Later editions append chroma_format / bit_depth / SPS-extension fields when
    AVCProfileIndication is 100, 110, 122 or 144; the library's record has no such fields, so the
    first-edition layout is written here.)

    ISO/IEC 14496-12, 8.5.2 (12.1.3) VisualSampleEntry, extended by 14496-15 AVCSampleEntry 'avc1':
      const unsigned int(8)[6] reserved = 0;  unsigned int(16) data_reference_index;
      unsigned int(16) pre_defined = 0;  const unsigned int(16) reserved = 0;
      unsigned int(32)[3] pre_defined = 0;
      unsigned int(16) width;  unsigned int(16) height;
      template unsigned int(32) horizresolution = 0x00480000;
      template unsigned int(32) vertresolution = 0x00480000;
      const unsigned int(32) reserved = 0;
      template unsigned int(16) frame_count = 1;
      string[32] compressorname;
      template unsigned int(16) depth = 0x0018;
      int(16) pre_defined = -1;
      AVCConfigurationBox config; *)
From MP4 Require Import BoxAvc1.
Open Scope list_scope.
Open Scope N_scope.

Definition iso_nalunit (u : nalunit) : bytes :=
  be 2 (lenN (nalunit_bytes u)) ++ nalunit_bytes u.

Definition iso_avcc_payload (v : avcc) : bytes :=
  be 1 (avcc_configuration_version v) ++
  be 1 (avcc_avc_profile_indication v) ++
  be 1 (avcc_profile_compatibility v) ++
  be 1 (avcc_avc_level_indication v) ++
  be 1 (63 * 4 + avcc_length_size_minus_one v) ++
  be 1 (7 * 32 + lenN (avcc_sequence_parameter_sets v)) ++
  flat_map iso_nalunit (avcc_sequence_parameter_sets v) ++
  be 1 (lenN (avcc_picture_parameter_sets v)) ++
  flat_map iso_nalunit (avcc_picture_parameter_sets v).

(** a box: 32-bit size, type, payload *)
Definition iso_avc1_box (code : N) (payload : bytes) : bytes :=
  be 4 (8 + lenN payload) ++ be 4 code ++ payload.

Definition iso_avc1_payload (v : avc1) : bytes :=
  be 6 0 ++ be 2 (avc1_data_reference_index v) ++
  be 2 0 ++ be 2 0 ++ be 4 0 ++ be 4 0 ++ be 4 0 ++
  be 2 (avc1_width v) ++ be 2 (avc1_height v) ++
  be 4 (avc1_horizresolution v) ++ be 4 (avc1_vertresolution v) ++
  be 4 0 ++
  be 2 (avc1_frame_count v) ++
  repeat 0 32 ++
  be 2 (avc1_depth v) ++
  be 2 65535 ++
  iso_avc1_box 0x61766343 (iso_avcc_payload (avc1_avcc v)).
