(** ISO/IEC 14496-12, 8.6.1.2 TimeToSampleBox:
    aligned(8) class TimeToSampleBox extends FullBox('stts', version = 0, 0) {
      unsigned int(32) entry_count;
      for (i = 0; i < entry_count; i++) { unsigned int(32) sample_count; unsigned int(32) sample_delta; } } *)
From MP4 Require Import BoxStts.
Open Scope list_scope.
Open Scope N_scope.

Definition iso_stts_entry (e : stts_entry) : bytes :=
  be 4 (stts_e_sample_count e) ++ be 4 (stts_e_sample_delta e).

Definition iso_stts_payload (v : stts) : bytes :=
  be 1 (stts_version v) ++ be 3 (stts_flags v) ++
  be 4 (lenN (stts_entries v)) ++ flat_map iso_stts_entry (stts_entries v).
