(** Track Extends Box, ISO/IEC 14496-12 8.8.3:
    aligned(8) class TrackExtendsBox extends FullBox('trex', 0, 0) {
      unsigned int(32) track_ID;
      unsigned int(32) default_sample_description_index;
      unsigned int(32) default_sample_duration;
      unsigned int(32) default_sample_size;
      unsigned int(32) default_sample_flags; } *)
From MP4 Require Import BoxTrex.
Open Scope list_scope.
Open Scope N_scope.

Definition iso_trex_payload (v : trex) : bytes :=
  be 1 (trex_version v) ++ be 3 (trex_flags v) ++
  be 4 (trex_track_id v) ++
  be 4 (trex_default_sample_description_index v) ++
  be 4 (trex_default_sample_duration v) ++
  be 4 (trex_default_sample_size v) ++
  be 4 (trex_default_sample_flags v).
