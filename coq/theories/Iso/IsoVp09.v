(** VP Codec ISO Media File Format Binding v1.0 ("VP Codec Sample Entry Box") with
    ISO/IEC 14496-12 8.5.2.2 (SampleEntry) and 12.1.3 (VisualSampleEntry):
    class VP9SampleEntry extends VisualSampleEntry('vp09') { VPCodecConfigurationBox config; }
    class VisualSampleEntry(codingname) extends SampleEntry(codingname) {
      // SampleEntry: const unsigned int(8)[6] reserved = 0; unsigned int(16) data_reference_index;
      unsigned int(16) pre_defined = 0;
      const unsigned int(16) reserved = 0;
      unsigned int(32)[3] pre_defined = 0;
      unsigned int(16) width;
      unsigned int(16) height;
      template unsigned int(32) horizresolution = 0x00480000;   // 72 dpi, 16.16
      template unsigned int(32) vertresolution = 0x00480000;
      const unsigned int(32) reserved = 0;
      template unsigned int(16) frame_count = 1;
      string[32] compressorname;
      template unsigned int(16) depth = 0x0018;
      int(16) pre_defined = -1;
    }
    The library reads the six reserved bytes of SampleEntry as a FullBox header plus a 16-bit
    "start_code" (version, flags, start_code), the 16 bytes pre_defined/reserved/pre_defined[3] as
    [reserved0], each 16.16 resolution as a pair of 16-bit halves, the reserved 32 bits as
    [reserved1], and the final pre_defined = -1 as [end_code] (0xFFFF); it stores whatever it finds
    there and writes it back.  Below, every field of the standard is filled from the part of the
    record that occupies its position. *)
From MP4 Require Import BoxVpcc BoxVp09 IsoVpcc.
Open Scope list_scope.
Open Scope N_scope.

(** a box with a 32-bit size (ISO/IEC 14496-12 4.2): size (header included), type, payload *)
Definition iso_vp09_box (code : N) (payload : bytes) : bytes :=
  be 4 (8 + lenN payload) ++ be 4 code ++ payload.

Definition iso_vp09_payload (v : vp09) : bytes :=
  (be 1 (vp09_version v) ++ be 3 (vp09_flags v) ++ be 2 (vp09_start_code v)) ++   (* reserved[6] *)
  be 2 (vp09_data_reference_index v) ++
  vp09_reserved0 v ++                       (* pre_defined(16) reserved(16) pre_defined(32)[3] *)
  be 2 (vp09_width v) ++ be 2 (vp09_height v) ++
  be 4 (fst (vp09_horizresolution v) * 65536 + snd (vp09_horizresolution v)) ++
  be 4 (fst (vp09_vertresolution v) * 65536 + snd (vp09_vertresolution v)) ++
  vp09_reserved1 v ++                       (* reserved(32) *)
  be 2 (vp09_frame_count v) ++
  vp09_compressorname v ++
  be 2 (vp09_depth v) ++
  be 2 (vp09_end_code v) ++                 (* pre_defined = -1 *)
  iso_vp09_box 0x76706343 (iso_vpcc_payload (vp09_vpcc v)).
