(** ISO/IEC 14496-12, 8.3.1 Track Box:

      aligned(8) class TrackBox extends Box('trak') { }

    a pure container.  Table 1 lists its children as tkhd, tref, trgr, edts, meta, mdia, udta;
    no order is mandated except that the header comes first by recommendation (6.2.3).  The
    library writes tkhd, edts?, mdia, meta? (meta AFTER mdia); that is the order rendered here. *)
From MP4 Require Import BoxTrak IsoCont IsoTkhd IsoEdts IsoMdia IsoMetaBox.
Open Scope list_scope.
Open Scope N_scope.

Definition iso_trak_payload (v : trak) : bytes :=
  iso_box 0x746b6864 (iso_tkhd_payload (trak_tkhd v)) ++
  iso_opt (fun x => iso_box 0x65647473 (iso_edts_payload x)) (trak_edts v) ++
  iso_box 0x6d646961 (iso_mdia_payload (trak_mdia v)) ++
  iso_opt (fun x => iso_box 0x6d657461 (iso_meta_payload x)) (trak_meta v).
