(** ISO/IEC 14496-12, 8.4.1 Media Box:

      aligned(8) class MediaBox extends Box('mdia') { }

    a pure container holding, in the order of Table 1 (which the library follows), the media
    header 'mdhd', the handler reference 'hdlr' and the media information 'minf'. *)
From MP4 Require Import BoxMdia IsoCont IsoMdhd IsoHdlr IsoMinf.
Open Scope list_scope.
Open Scope N_scope.

Definition iso_mdia_payload (v : mdia) : bytes :=
  iso_box 0x6d646864 (iso_mdhd_payload (mdia_mdhd v)) ++
  iso_box 0x68646c72 (iso_hdlr_payload (mdia_hdlr v)) ++
  iso_box 0x6d696e66 (iso_minf_payload (mdia_minf v)).
