(** ISO/IEC 14496-12, 8.8.4 Movie Fragment Box:

      aligned(8) class MovieFragmentBox extends Box('moof') { }

    a pure container: the Movie Fragment Header 'mfhd' (8.8.5) first, then zero or more Track
    Fragment boxes 'traf' (8.8.6). *)
From MP4 Require Import BoxMoof IsoCont IsoMfhd IsoTraf.
Open Scope list_scope.
Open Scope N_scope.

Definition iso_moof_payload (v : moof) : bytes :=
  iso_box 0x6d666864 (iso_mfhd_payload (moof_mfhd v)) ++
  iso_all (fun x => iso_box 0x74726166 (iso_traf_payload x)) (moof_trafs v).
