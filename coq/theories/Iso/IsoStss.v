(** ISO/IEC 14496-12, 8.6.2 SyncSampleBox:
    aligned(8) class SyncSampleBox extends FullBox('stss', version = 0, 0) {
      unsigned int(32) entry_count;
      for (i = 0; i < entry_count; i++) { unsigned int(32) sample_number; } } *)
From MP4 Require Import BoxStss.
Open Scope list_scope.
Open Scope N_scope.

Definition iso_stss_payload (v : stss) : bytes :=
  be 1 (stss_version v) ++ be 3 (stss_flags v) ++
  be 4 (lenN (stss_entries v)) ++ flat_map (be 4) (stss_entries v).
