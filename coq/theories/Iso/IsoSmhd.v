(** Sound Media Header Box, ISO/IEC 14496-12 12.2.2:
    aligned(8) class SoundMediaHeaderBox extends FullBox('smhd', version = 0, 0) {
      template int(16) balance = 0;         // signed 8.8 fixed point
      const unsigned int(16) reserved = 0; } *)
From MP4 Require Import BoxSmhd.
Open Scope list_scope.
Open Scope N_scope.

Definition iso_smhd_payload (v : smhd) : bytes :=
  be 1 (smhd_version v) ++ be 3 (smhd_flags v) ++
  be 2 (of_signed 16 (smhd_balance v)) ++
  be 2 0.
