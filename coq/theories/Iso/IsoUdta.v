(** ISO/IEC 14496-12, 8.10.1 User Data Box:

      aligned(8) class UserDataBox extends Box('udta') { }

    a pure container for user-data boxes (copyright 'cprt', track selection 'tsel', ...) and, as
    iTunes writes it, a 'meta' box.  The library's struct keeps only the meta box; any other child
    is skipped on reading and never written. *)
From MP4 Require Import BoxUdta IsoCont IsoMetaBox.
Open Scope list_scope.
Open Scope N_scope.

Definition iso_udta_payload (v : udta) : bytes :=
  iso_opt (fun x => iso_box 0x6d657461 (iso_meta_payload x)) (udta_meta v).
