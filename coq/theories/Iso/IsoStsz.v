(** ISO/IEC 14496-12, 8.7.3.2 SampleSizeBox:
    aligned(8) class SampleSizeBox extends FullBox('stsz', version = 0, 0) {
      unsigned int(32) sample_size; unsigned int(32) sample_count;
      if (sample_size == 0) { for (i = 1; i <= sample_count; i++) { unsigned int(32) entry_size; } } } *)
From MP4 Require Import BoxStsz.
Open Scope list_scope.
Open Scope N_scope.

Definition iso_stsz_payload (v : stsz) : bytes :=
  be 1 (stsz_version v) ++ be 3 (stsz_flags v) ++
  be 4 (stsz_sample_size v) ++ be 4 (stsz_sample_count v) ++
  (if stsz_sample_size v =? 0 then flat_map (be 4) (stsz_sample_sizes v) else []).
