(** ISO/IEC 14496-12, 8.8.8 Track Fragment Run Box:
    aligned(8) class TrackRunBox extends FullBox('trun', version, tr_flags) {
      unsigned int(32) sample_count;
      // the following are optional fields
      signed int(32)   data_offset;                        // tr_flags & 0x000001
      unsigned int(32) first_sample_flags;                 // tr_flags & 0x000004
      // all fields in the following array are optional
      { unsigned int(32) sample_duration;                  // tr_flags & 0x000100
        unsigned int(32) sample_size;                      // tr_flags & 0x000200
        unsigned int(32) sample_flags;                     // tr_flags & 0x000400
        if (version == 0) { unsigned int(32) sample_composition_time_offset; }   // tr_flags & 0x000800
        else              { signed int(32)   sample_composition_time_offset; }
      }[ sample_count ]
    }
    The library keeps the composition time offsets as unsigned 32-bit values in both versions
    (the standard's signed reading for version 1 is [to_signed 32] of them; same four bytes). *)
From MP4 Require Import BoxTrun.
Open Scope list_scope.
Open Scope N_scope.

Definition iso_trun_has (mask flags : N) : bool := negb (N.land flags mask =? 0).
Definition iso_trun_opt (present : bool) (field : bytes) : bytes := if present then field else [].

(** the i-th element of the sample array *)
Definition iso_trun_sample (v : trun) (i : nat) : bytes :=
  let f := trun_flags v in
  iso_trun_opt (iso_trun_has 0x100 f) (be 4 (nth i (trun_sample_durations v) 0)) ++
  iso_trun_opt (iso_trun_has 0x200 f) (be 4 (nth i (trun_sample_sizes v) 0)) ++
  iso_trun_opt (iso_trun_has 0x400 f) (be 4 (nth i (trun_sample_flags v) 0)) ++
  iso_trun_opt (iso_trun_has 0x800 f) (be 4 (nth i (trun_sample_cts v) 0)).

Definition iso_trun_payload (v : trun) : bytes :=
  let f := trun_flags v in
  be 1 (trun_version v) ++ be 3 f ++
  be 4 (trun_sample_count v) ++
  iso_trun_opt (iso_trun_has 0x1 f)
    (be 4 (of_signed 32 (match trun_data_offset v with Some z => z | None => 0%Z end))) ++
  iso_trun_opt (iso_trun_has 0x4 f)
    (be 4 (match trun_first_sample_flags v with Some x => x | None => 0 end)) ++
  flat_map (iso_trun_sample v) (seq 0 (N.to_nat (trun_sample_count v))).
