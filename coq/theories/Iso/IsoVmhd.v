(** Video Media Header Box, ISO/IEC 14496-12 12.1.2:
    aligned(8) class VideoMediaHeaderBox extends FullBox('vmhd', version = 0, 1) {
      template unsigned int(16) graphicsmode = 0;   // copy, see below
      template unsigned int(16)[3] opcolor = {0, 0, 0}; }
    (the standard fixes flags = 1; the layout below carries whatever the value holds) *)
From MP4 Require Import BoxVmhd.
Open Scope list_scope.
Open Scope N_scope.

Definition iso_vmhd_payload (v : vmhd) : bytes :=
  be 1 (vmhd_version v) ++ be 3 (vmhd_flags v) ++
  be 2 (vmhd_graphics_mode v) ++
  be 2 (vmhd_rgb_red (vmhd_op_color v)) ++
  be 2 (vmhd_rgb_green (vmhd_op_color v)) ++
  be 2 (vmhd_rgb_blue (vmhd_op_color v)).
