(** Movie Fragment Header Box, ISO/IEC 14496-12 8.8.5:
    aligned(8) class MovieFragmentHeaderBox extends FullBox('mfhd', 0, 0) {
      unsigned int(32) sequence_number; } *)
From MP4 Require Import BoxMfhd.
Open Scope list_scope.
Open Scope N_scope.

Definition iso_mfhd_payload (v : mfhd) : bytes :=
  be 1 (mfhd_version v) ++ be 3 (mfhd_flags v) ++
  be 4 (mfhd_sequence_number v).
