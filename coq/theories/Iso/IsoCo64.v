(** ISO/IEC 14496-12, 8.7.5 ChunkLargeOffsetBox:
    aligned(8) class ChunkLargeOffsetBox extends FullBox('co64', version = 0, 0) {
      unsigned int(32) entry_count;
      for (i = 1; i <= entry_count; i++) { unsigned int(64) chunk_offset; } } *)
From MP4 Require Import BoxCo64.
Open Scope list_scope.
Open Scope N_scope.

Definition iso_co64_payload (v : co64) : bytes :=
  be 1 (co64_version v) ++ be 3 (co64_flags v) ++
  be 4 (lenN (co64_entries v)) ++ flat_map (be 8) (co64_entries v).
