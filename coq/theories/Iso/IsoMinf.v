(** ISO/IEC 14496-12, 8.4.4 Media Information Box:

      aligned(8) class MediaInformationBox extends Box('minf') { }

    a pure container: one media header box by handler type ('vmhd' for video, 'smhd' for sound,
    ...), then 'dinf', then 'stbl' (the order of Table 1, which the library follows).  The
    library's struct has optional fields for vmhd and smhd. *)
From MP4 Require Import BoxMinf IsoCont IsoVmhd IsoSmhd IsoDinf IsoStbl.
Open Scope list_scope.
Open Scope N_scope.

Definition iso_minf_payload (v : minf) : bytes :=
  iso_opt (fun x => iso_box 0x766d6864 (iso_vmhd_payload x)) (minf_vmhd v) ++
  iso_opt (fun x => iso_box 0x736d6864 (iso_smhd_payload x)) (minf_smhd v) ++
  iso_box 0x64696e66 (iso_dinf_payload (minf_dinf v)) ++
  iso_box 0x7374626c (iso_stbl_payload (minf_stbl v)).
