(** ISO/IEC 14496-12, 4.3 File Type Box:
    aligned(8) class FileTypeBox extends Box('ftyp') {
      unsigned int(32) major_brand;
      unsigned int(32) minor_version;
      unsigned int(32) compatible_brands[];   // to end of the box
    } *)
From MP4 Require Import Bytes BoxFtyp.
Open Scope list_scope.

Definition iso_ftyp_payload (v : ftyp) : bytes :=
  be 4 (ftyp_major_brand v) ++ be 4 (ftyp_minor_version v) ++
  flat_map (be 4) (ftyp_compatible_brands v).
