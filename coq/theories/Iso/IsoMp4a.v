(** ISO/IEC 14496-12, 8.5.2 (12.2.3) AudioSampleEntry, specialised by ISO/IEC 14496-14, 5.6.1
    MP4AudioSampleEntry 'mp4a':
      const unsigned int(8)[6] reserved = 0;  unsigned int(16) data_reference_index;
      const unsigned int(32)[2] reserved = 0;
      template unsigned int(16) channelcount = 2;
      template unsigned int(16) samplesize = 16;
      unsigned int(16) pre_defined = 0;  const unsigned int(16) reserved = 0;
      template unsigned int(32) samplerate = { default samplerate of media } << 16;
      ESDBox ES;
    (the library's value has an optional ESDBox; nothing is written for [None])

    ISO/IEC 14496-14, 5.6.1:
      aligned(8) class ESDBox extends FullBox('esds', version = 0, 0) { ES_Descriptor ES; }

    ISO/IEC 14496-1, 8.3.3 (expandable classes): a descriptor is
      bit(8) tag;  sizeOfInstance: groups of 7 bits, most significant first, each byte but the
      last with its top bit (nextByte) set;  then sizeOfInstance bytes.
    (the shortest size encoding is written here; the standard allows padding with 0x80 bytes)

    7.2.6.5 ES_Descriptor (tag 0x03):
      bit(16) ES_ID; bit(1) streamDependenceFlag; bit(1) URL_Flag; bit(1) OCRstreamFlag;
      bit(5) streamPriority;  [dependsOn_ES_ID, URL, OCR_ES_Id when flagged]
      DecoderConfigDescriptor decConfigDescr;  SLConfigDescriptor slConfigDescr;  ...
    (the library's value has no flags and no priority: all zero)
    7.2.6.6 DecoderConfigDescriptor (tag 0x04):
      bit(8) objectTypeIndication; bit(6) streamType; bit(1) upStream; const bit(1) reserved = 1;
      bit(24) bufferSizeDB; bit(32) maxBitrate; bit(32) avgBitrate;
      DecoderSpecificInfo decSpecificInfo[0 .. 1]; ...
    (the library keeps [upStream] as the masked bit, value 0 or 2: the flag is [up_stream / 2])
    7.2.6.7 DecoderSpecificInfo (tag 0x05), for objectTypeIndication 0x40 the
    AudioSpecificConfig of ISO/IEC 14496-3, 1.6.2.1:
      audioObjectType: 5 bits (31 escapes to 6 more bits); samplingFrequencyIndex: 4 bits
      (15 escapes to a 24-bit samplingFrequency); channelConfiguration: 4 bits;
      GASpecificConfig (object types 1-4, 6, 7, ...): frameLengthFlag(1) dependsOnCoreCoder(1)
      extensionFlag(1), all 0 here.
    (written here for the unescaped case, which is all the library's encoder can produce)
    7.3.2.3 SLConfigDescriptor (tag 0x06): bit(8) predefined; predefined = 2 ("reserved for use
    in MP4 files") has no further fields. *)
From MP4 Require Import BoxMp4a.
Open Scope list_scope.
Open Scope N_scope.

Definition iso_size_of_instance (n : N) : bytes :=
  if n <? 128 then be 1 n
  else if n <? 128 * 128 then be 1 (128 + n / 128) ++ be 1 (n mod 128)
  else if n <? 128 * 128 * 128 then
    be 1 (128 + n / (128 * 128)) ++ be 1 (128 + (n / 128) mod 128) ++ be 1 (n mod 128)
  else
    be 1 (128 + n / (128 * 128 * 128)) ++ be 1 (128 + (n / (128 * 128)) mod 128) ++
    be 1 (128 + (n / 128) mod 128) ++ be 1 (n mod 128).

Definition iso_descriptor (tag : N) (body : bytes) : bytes :=
  be 1 tag ++ iso_size_of_instance (lenN body) ++ body.

Definition iso_audio_specific_config (v : decspecific) : bytes :=
  be 2 (decspecific_profile v * 2048 + decspecific_freq_index v * 128 + decspecific_chan_conf v * 8).

Definition iso_decspecific (v : decspecific) : bytes :=
  iso_descriptor 5 (iso_audio_specific_config v).

Definition iso_decconfig (v : decconfig) : bytes :=
  iso_descriptor 4
    (be 1 (decconfig_object_type_indication v) ++
     be 1 (decconfig_stream_type v * 4 + (decconfig_up_stream v / 2) * 2 + 1) ++
     be 3 (decconfig_buffer_size_db v) ++
     be 4 (decconfig_max_bitrate v) ++
     be 4 (decconfig_avg_bitrate v) ++
     iso_decspecific (decconfig_dec_specific v)).

Definition iso_slconfig (v : slconfig) : bytes := iso_descriptor 6 (be 1 2).

Definition iso_esdesc (v : esdesc) : bytes :=
  iso_descriptor 3
    (be 2 (esdesc_es_id v) ++ be 1 0 ++
     iso_decconfig (esdesc_dec_config v) ++
     iso_slconfig (esdesc_sl_config v)).

Definition iso_esds_payload (v : esds) : bytes :=
  be 1 (esds_version v) ++ be 3 (esds_flags v) ++ iso_esdesc (esds_es_desc v).

Definition iso_mp4a_box (code : N) (payload : bytes) : bytes :=
  be 4 (8 + lenN payload) ++ be 4 code ++ payload.

Definition iso_mp4a_payload (v : mp4a) : bytes :=
  be 6 0 ++ be 2 (mp4a_data_reference_index v) ++
  be 4 0 ++ be 4 0 ++
  be 2 (mp4a_channelcount v) ++ be 2 (mp4a_samplesize v) ++
  be 2 0 ++ be 2 0 ++
  be 4 (mp4a_samplerate v) ++
  match mp4a_esds v with
  | Some e => iso_mp4a_box 0x65736473 (iso_esds_payload e)
  | None => []
  end.
