(** ISO/IEC 14496-15, 8.3.3.1.2 HEVCDecoderConfigurationRecord, carried by the
    HEVCConfigurationBox 'hvcC':
      unsigned int(8) configurationVersion = 1;
      unsigned int(2) general_profile_space; unsigned int(1) general_tier_flag;
      unsigned int(5) general_profile_idc;
      unsigned int(32) general_profile_compatibility_flags;
      unsigned int(48) general_constraint_indicator_flags;
      unsigned int(8) general_level_idc;
      bit(4) reserved = '1111'b;   unsigned int(12) min_spatial_segmentation_idc;
      bit(6) reserved = '111111'b; unsigned int(2) parallelismType;
      bit(6) reserved = '111111'b; unsigned int(2) chromaFormat;
      bit(5) reserved = '11111'b;  unsigned int(3) bitDepthLumaMinus8;
      bit(5) reserved = '11111'b;  unsigned int(3) bitDepthChromaMinus8;
      bit(16) avgFrameRate;
      bit(2) constantFrameRate; bit(3) numTemporalLayers; bit(1) temporalIdNested;
      unsigned int(2) lengthSizeMinusOne;
      unsigned int(8) numOfArrays;
      for (j = 0; j < numOfArrays; j++) {
        bit(1) array_completeness; unsigned int(1) reserved = 0; unsigned int(6) NAL_unit_type;
        unsigned int(16) numNalus;
        for (i = 0; i < numNalus; i++) { unsigned int(16) nalUnitLength; bit(8*nalUnitLength) nalUnit; } }

    ISO/IEC 14496-12 VisualSampleEntry (see IsoAvc1.v), extended by 14496-15 HEVCSampleEntry
    'hev1' with [HEVCConfigurationBox config]. *)
From MP4 Require Import BoxHev1.
Open Scope list_scope.
Open Scope N_scope.

Definition iso_bit (b : bool) : N := if b then 1 else 0.

(** nalUnitLength is the number of bytes of the NAL unit *)
Definition iso_hvccnalu (u : hvccnalu) : bytes :=
  be 2 (lenN (hvccnalu_data u)) ++ hvccnalu_data u.

Definition iso_hvccarray (a : hvccarray) : bytes :=
  be 1 (iso_bit (hvccarray_completeness a) * 128 + 0 * 64 + hvccarray_nal_unit_type a) ++
  be 2 (lenN (hvccarray_nalus a)) ++
  flat_map iso_hvccnalu (hvccarray_nalus a).

Definition iso_hvcc_payload (v : hvcc) : bytes :=
  be 1 (hvcc_configuration_version v) ++
  be 1 (hvcc_general_profile_space v * 64 + iso_bit (hvcc_general_tier_flag v) * 32
        + hvcc_general_profile_idc v) ++
  be 4 (hvcc_general_profile_compatibility_flags v) ++
  be 6 (hvcc_general_constraint_indicator_flag v) ++
  be 1 (hvcc_general_level_idc v) ++
  be 2 (15 * 4096 + hvcc_min_spatial_segmentation_idc v) ++
  be 1 (63 * 4 + hvcc_parallelism_type v) ++
  be 1 (63 * 4 + hvcc_chroma_format_idc v) ++
  be 1 (31 * 8 + hvcc_bit_depth_luma_minus8 v) ++
  be 1 (31 * 8 + hvcc_bit_depth_chroma_minus8 v) ++
  be 2 (hvcc_avg_frame_rate v) ++
  be 1 (hvcc_constant_frame_rate v * 64 + hvcc_num_temporal_layers v * 8
        + iso_bit (hvcc_temporal_id_nested v) * 4 + hvcc_length_size_minus_one v) ++
  be 1 (lenN (hvcc_arrays v)) ++
  flat_map iso_hvccarray (hvcc_arrays v).

Definition iso_hev1_box (code : N) (payload : bytes) : bytes :=
  be 4 (8 + lenN payload) ++ be 4 code ++ payload.

Definition iso_hev1_payload (v : hev1) : bytes :=
  be 6 0 ++ be 2 (hev1_data_reference_index v) ++
  be 2 0 ++ be 2 0 ++ be 4 0 ++ be 4 0 ++ be 4 0 ++
  be 2 (hev1_width v) ++ be 2 (hev1_height v) ++
  be 4 (hev1_horizresolution v) ++ be 4 (hev1_vertresolution v) ++
  be 4 0 ++
  be 2 (hev1_frame_count v) ++
  repeat 0 32 ++
  be 2 (hev1_depth v) ++
  be 2 65535 ++
  iso_hev1_box 0x68766343 (iso_hvcc_payload (hev1_hvcc v)).
