(** ISO/IEC 14496-12, 8.2.1 Movie Box and 8.2.2 Movie Header Box:

      aligned(8) class MovieBox extends Box('moov') { }

      aligned(8) class MovieHeaderBox extends FullBox('mvhd', version, 0) {
        if (version == 1) { unsigned int(64) creation_time; unsigned int(64) modification_time;
                            unsigned int(32) timescale;     unsigned int(64) duration; }
        else              { unsigned int(32) creation_time; unsigned int(32) modification_time;
                            unsigned int(32) timescale;     unsigned int(32) duration; }
        template int(32) rate = 0x00010000;  template int(16) volume = 0x0100;
        const bit(16) reserved = 0;          const unsigned int(32)[2] reserved = 0;
        template int(32)[9] matrix = { 0x00010000,0,0,0,0x00010000,0,0,0,0x40000000 };   // a b u c d v x y w
        bit(32)[6] pre_defined = 0;          unsigned int(32) next_track_ID;
      }

    'moov' is a pure container.  Table 1 lists its children as mvhd, meta, trak*, mvex, ..., udta
    (6.2.3 recommends the header first).  The library writes mvhd, trak*, mvex?, meta?, udta?
    (meta AFTER the tracks and mvex); that is the order rendered here. *)
From MP4 Require Import BoxMoov IsoCont IsoTrak IsoMvex IsoMetaBox IsoUdta.
Open Scope list_scope.
Open Scope N_scope.

Definition iso_i32 (z : Z) : bytes := be 4 (of_signed 32 z).

Definition iso_mvhd_payload (v : mvhd) : bytes :=
  be 1 (mvhd_version v) ++ be 3 (mvhd_flags v) ++
  (if mvhd_version v =? 1
   then be 8 (mvhd_creation_time v) ++ be 8 (mvhd_modification_time v) ++
        be 4 (mvhd_timescale v) ++ be 8 (mvhd_duration v)
   else be 4 (mvhd_creation_time v) ++ be 4 (mvhd_modification_time v) ++
        be 4 (mvhd_timescale v) ++ be 4 (mvhd_duration v)) ++
  be 4 (mvhd_rate v) ++ be 2 (mvhd_volume v) ++
  be 2 0 ++ (be 4 0 ++ be 4 0) ++
  (iso_i32 (mx_a (mvhd_matrix v)) ++ iso_i32 (mx_b (mvhd_matrix v)) ++ iso_i32 (mx_u (mvhd_matrix v)) ++
   iso_i32 (mx_c (mvhd_matrix v)) ++ iso_i32 (mx_d (mvhd_matrix v)) ++ iso_i32 (mx_v (mvhd_matrix v)) ++
   iso_i32 (mx_x (mvhd_matrix v)) ++ iso_i32 (mx_y (mvhd_matrix v)) ++ iso_i32 (mx_w (mvhd_matrix v))) ++
  (be 4 0 ++ be 4 0 ++ be 4 0 ++ be 4 0 ++ be 4 0 ++ be 4 0) ++
  be 4 (mvhd_next_track_id v).

Definition iso_moov_payload (v : moov) : bytes :=
  iso_box 0x6d766864 (iso_mvhd_payload (moov_mvhd v)) ++
  iso_all (fun x => iso_box 0x7472616b (iso_trak_payload x)) (moov_traks v) ++
  iso_opt (fun x => iso_box 0x6d766578 (iso_mvex_payload x)) (moov_mvex v) ++
  iso_opt (fun x => iso_box 0x6d657461 (iso_meta_payload x)) (moov_meta v) ++
  iso_opt (fun x => iso_box 0x75647461 (iso_udta_payload x)) (moov_udta v).
