(** Track Header Box, ISO/IEC 14496-12 8.3.2:
    aligned(8) class TrackHeaderBox extends FullBox('tkhd', version, flags) {
      if (version==1) {
        unsigned int(64) creation_time;  unsigned int(64) modification_time;
        unsigned int(32) track_ID;       const unsigned int(32) reserved = 0;
        unsigned int(64) duration;
      } else { // version==0
        unsigned int(32) creation_time;  unsigned int(32) modification_time;
        unsigned int(32) track_ID;       const unsigned int(32) reserved = 0;
        unsigned int(32) duration;
      }
      const unsigned int(32)[2] reserved = 0;
      template int(16) layer = 0;
      template int(16) alternate_group = 0;
      template int(16) volume = {if track_is_audio 0x0100 else 0};
      const unsigned int(16) reserved = 0;
      template int(32)[9] matrix = { 0x00010000,0,0,0,0x00010000,0,0,0,0x40000000 };
      unsigned int(32) width;   // 16.16 fixed point
      unsigned int(32) height; }
    [layer], [alternate_group] and [volume] are signed in the standard; the library keeps them as
    unsigned 16-bit values, which occupy the same two bytes. *)
From MP4 Require Import BoxTkhd.
Open Scope list_scope.
Open Scope N_scope.

Definition iso_tkhd_i32 (z : Z) : bytes := be 4 (of_signed 32 z).

Definition iso_tkhd_matrix (x : matrix) : bytes :=
  iso_tkhd_i32 (mx_a x) ++ iso_tkhd_i32 (mx_b x) ++ iso_tkhd_i32 (mx_u x) ++
  iso_tkhd_i32 (mx_c x) ++ iso_tkhd_i32 (mx_d x) ++ iso_tkhd_i32 (mx_v x) ++
  iso_tkhd_i32 (mx_x x) ++ iso_tkhd_i32 (mx_y x) ++ iso_tkhd_i32 (mx_w x).

Definition iso_tkhd_payload (v : tkhd) : bytes :=
  be 1 (tkhd_version v) ++ be 3 (tkhd_flags v) ++
  (if tkhd_version v =? 1 then
     be 8 (tkhd_creation_time v) ++ be 8 (tkhd_modification_time v) ++
     be 4 (tkhd_track_id v) ++ be 4 0 ++ be 8 (tkhd_duration v)
   else
     be 4 (tkhd_creation_time v) ++ be 4 (tkhd_modification_time v) ++
     be 4 (tkhd_track_id v) ++ be 4 0 ++ be 4 (tkhd_duration v)) ++
  (be 4 0 ++ be 4 0) ++
  be 2 (tkhd_layer v) ++ be 2 (tkhd_alternate_group v) ++ be 2 (tkhd_volume v) ++
  be 2 0 ++
  iso_tkhd_matrix (tkhd_matrix v) ++
  be 4 (tkhd_width v) ++ be 4 (tkhd_height v).
