(** * C07/C08, composition (4): avc1, stsd *)
From MP4 Require Import Cost CostLeaf CostLeaf3 CostLoop CostCont CostTree CostTree2 CostTree3 CostMp4a.
From MP4 Require Import BoxAvc1 BoxStsd BoxMp4a BoxHev1 BoxVp09 BoxTx3g.
From Coq Require Import ZArith ZifyN ZifyNat ZifyBool Lia.
Open Scope N_scope.

Section Tree4.
  Variable d : bytes.
  Hypothesis Hd : bytes_ok d = true.
  Hypothesis Hlen : lenN d < 2 ^ 62.

  Lemma avc1_ok m : fok d 1 (fun f s => dec_avc1_fuel f m s).
  Proof.
    intros f p s H8 Hp Hs Hf. apply ispec_of_csat, csat_of_cacc. unfold dec_avc1_fuel.
    repeat cacc_step.
    eapply cacc_bind; [apply (avc1_find_ok d Hd Hlen m f _ (p - 8) s); [|assumption|carith]|carith|carith|].
    - destruct Hf as [Hf1 Hf2]. unfold fuel_ok. sat_consts. lia.
    - cbn beta. intros ? ? ->. cacc_go.
  Qed.

  Lemma stsd_ok m : fok d 2 (fun f s => dec_stsd_fuel f m s).
  Proof.
    intros f p s H8 Hp Hs Hf. apply ispec_of_csat, csat_of_cacc. unfold dec_stsd_fuel.
    repeat cacc_step.
    match goal with
    | |- cacc ?d0 ?p0 ?w0 ?a0 (bind (match ?b0 with FtypBox => _ | _ => _ end) ?k0) ?W0 ?Al0 ?Q0 =>
        assert (Hdflt : cacc d0 p0 w0 a0
                  (bind (Ret (@None avc1, @None hev1, @None vp09, @None mp4a, @None tx3g)) k0) W0 Al0 Q0)
          by cacc_go
    end.
    destruct b; try exact Hdflt; clear Hdflt; apply cacc_assoc.
    - cacc_kid (avc1_ok m). cacc_go.
    - cacc_kid (hev1_ok d Hd Hlen m). cacc_go.
    - cacc_kid (mp4a_ok d Hd Hlen m). cacc_go.
    - cacc_kid (tx3g_ok d Hd Hlen m). cacc_go.
    - cacc_kid (vp09_ok d Hd Hlen m). cacc_go.
  Qed.
End Tree4.
