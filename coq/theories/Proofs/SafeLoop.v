(** * C06, container layer (0): the child-box loop never panics

    The generic rule for [children_loop_gen] (Model/Loop.v): if every call of [dispatch], started
    right after a successful [read_header] (so at a position at least 8 and inside the data),
    with a child size that passed the guards of the loop, is [sat] and re-establishes the loop
    invariant, then the whole loop is [sat] — for ALL fuel: running out of fuel is [Spin].

    Nothing has to be known about the POSITION between two iterations: a child of declared size
    [s] ends at [child_start + s], which may lie beyond the end of the data ([SeekTo] accepts
    any position); the next [read_header]
    then simply fails with [Err EIo] (or reads whatever is there).  What the loop needs is an
    invariant [I acc current] on the accumulator and the value of [current].

    Also here: the contract [cont_sat] of a container decoder (a leaf contract without a claim
    about the final position, with a claim [R] about the decoded VALUE), and the small rules
    used by every [xxx_dispatch] proof. *)
From MP4 Require Import Hoare Loop.
From Coq Require Import ZArith ZifyN ZifyNat ZifyBool Lia.
Open Scope N_scope.

(** ** two postconditions at once *)
Lemma sat_and {A} d p (c : prog A) (Q1 Q2 : A -> N -> Prop) :
  sat d p c Q1 -> sat d p c Q2 -> sat d p c (fun a p' => Q1 a p' /\ Q2 a p').
Proof.
  unfold sat. destruct (run c (stream_at d p)) as [[a|e|x|] s']; cbn; auto.
  intros (p1 & E1 & H1) (p2 & E2 & H2). exists p1. split; [exact E1|]. split; [exact H1|].
  rewrite E1 in E2. injection E2 as E2 _. now rewrite E2.
Qed.

Lemma sat_no_panic {A} d p (c : prog A) Q : sat d p c Q -> is_panic (fst (run c (stream_at d p))) = false.
Proof. intros H. exact (outcome_no_panic _ _ H). Qed.

(** what a successful run from a [sat] program returns *)
Lemma sat_run_ok {A} d p (c : prog A) Q a s' :
  sat d p c Q -> run c (stream_at d p) = (Ok a, s') -> exists p', s' = stream_at d p' /\ Q a p'.
Proof. unfold sat. intros H E. rewrite E in H. exact H. Qed.

(** ** The generic loop rule

    [I acc current] is the loop invariant.  The loop is entered with the stream AT [current]
    (every caller has just executed [stream_position()]).  [dispatch] is called at [p'], 8 or 16
    bytes after [current], inside the data; [s] satisfies the guards. *)
Lemma sat_children_loop_gen {Acc R : Type} d m cs cz end_
      (dispatch : nat -> N -> boxtype -> N -> Acc -> prog Acc) (fin : Acc -> N -> R)
      (I : Acc -> N -> Prop) :
  bytes_ok d = true ->
  (forall f name s acc p p',
      I acc p ->
      (p' = p + 8 /\ s < U32) \/ (p' = p + 16 /\ s < U64 - 8) ->
      p' <= lenN d ->
      (forall size, cs = Some size -> s <= size) ->
      (cz = true -> s <> 0) ->
      sat d p' (dispatch f p name s acc) (fun acc' p'' => I acc' p'')) ->
  forall fuel acc p, I acc p ->
    sat d p (children_loop_gen fuel m cs cz end_ dispatch fin acc p)
        (fun r _ => exists acc' c', r = fin acc' c' /\ I acc' c').
Proof.
  intros Hd Hdisp. induction fuel as [|fuel IH]; intros acc p HI; rewrite children_loop_gen_eq.
  - destruct (p <? end_); [apply sat_spin|]. apply sat_ret. eauto.
  - destruct (p <? end_); [|apply sat_ret; eauto].
    apply sat_read_header; [exact Hd|]. intros name s p' Hh Hp'.
    destruct (match cs with Some size => size <? s | None => false end) eqn:Ecs; [apply sat_throw|].
    destruct (cz && (s =? 0)) eqn:Ecz; [apply sat_ret; eauto|].
    eapply sat_bind.
    + apply (Hdisp fuel name s acc p p' HI Hh Hp').
      * intros size ->. apply N.ltb_ge in Ecs. exact Ecs.
      * intros ->. cbn [andb] in Ecz. now apply N.eqb_neq in Ecz.
    + cbn beta. intros acc' p'' HI'. unfold get_pos. cbn [bind]. apply sat_GetPos.
      now apply IH.
Qed.

(** ** The contract of a container decoder

    Like [leaf_sat], but the postcondition is about the decoded value only: [R v].  The
    preconditions are exactly the facts a call site has: the header of the box has just been
    read (position at least 8, inside the data) and the size passed the [s > size] guard of the
    parent, hence is below the length of the file. *)
Definition cont_sat {A} (dec : N -> prog A) (R : A -> Prop) : Prop :=
  forall d p size, bytes_ok d = true -> lenN d < 2 ^ 62 ->
    8 <= p -> p <= lenN d -> size < 2 ^ 62 ->
    sat d p (dec size) (fun v _ => R v).

Lemma cont_sat_of_leaf {A} (dec : N -> prog A) : leaf_sat dec -> cont_sat dec (fun _ => True).
Proof.
  intros H d p size Hd Hl H8 Hp Hs. eapply sat_conseq; [|apply H; auto]. cbn beta. auto.
Qed.

Lemma cont_sat_weaken {A} (dec : N -> prog A) (R R' : A -> Prop) :
  (forall v, R v -> R' v) -> cont_sat dec R -> cont_sat dec R'.
Proof.
  intros HR H d p size Hd Hl H8 Hp Hs. eapply sat_conseq; [|apply H; auto]. cbn beta. auto.
Qed.

Lemma cont_sat_no_panic {A} (dec : N -> prog A) R : cont_sat dec R ->
  forall d p size, bytes_ok d = true -> lenN d < 2 ^ 62 -> 8 <= p -> p <= lenN d -> size < 2 ^ 62 ->
    is_panic (fst (run (dec size) (stream_at d p))) = false.
Proof. intros H d p size Hd Hl H8 Hp Hs. exact (sat_no_panic _ _ _ _ (H d p size Hd Hl H8 Hp Hs)). Qed.

(** the bind form: a call of a container (or leaf) decoder inside a [dispatch] *)
Lemma sat_cont_bind {A B} (dec : N -> prog A) R d p size (k : A -> prog B) Q :
  cont_sat dec R -> bytes_ok d = true -> lenN d < 2 ^ 62 -> 8 <= p -> p <= lenN d -> size < 2 ^ 62 ->
  (forall a p', R a -> sat d p' (k a) Q) ->
  sat d p (bind (dec size) k) Q.
Proof.
  intros H Hb Hl H1 H2 H3 Hk. eapply sat_bind; [apply H; auto|].
  cbn beta. intros a p' HR. now apply Hk.
Qed.

(** a branch [x <- dec s ;; Ret (f x)] of a dispatch *)
Lemma sat_cont_ret {A B} (dec : N -> prog A) R d p size (f : A -> B) (Q : B -> N -> Prop) :
  cont_sat dec R -> bytes_ok d = true -> lenN d < 2 ^ 62 -> 8 <= p -> p <= lenN d -> size < 2 ^ 62 ->
  (forall a p', R a -> Q (f a) p') ->
  sat d p (bind (dec size) (fun x => Ret (f x))) Q.
Proof.
  intros H Hb Hl H1 H2 H3 Hk. eapply sat_cont_bind; eauto. intros a p' HR. apply sat_ret. auto.
Qed.

(** a branch [skip_box s ;;; Ret a] of a dispatch *)
Lemma sat_skip_ret {B} d p m s (a : B) (Q : B -> N -> Prop) :
  8 <= p -> p - 8 + s < U64 -> Q a (p - 8 + s) -> sat d p (bind (skip_box m s) (fun _ => Ret a)) Q.
Proof. intros H8 Hs HQ. apply sat_skip_box; auto. now apply sat_ret. Qed.

(** ** The loop as the containers use it: both guards, invariant on the accumulator only *)
Lemma sat_children_loop {Acc : Type} d m size end_
      (dispatch : nat -> boxtype -> N -> Acc -> prog Acc) (IA : Acc -> Prop) :
  bytes_ok d = true ->
  (forall f name s acc p, IA acc -> 8 <= p -> p <= lenN d -> s <= size -> s <> 0 ->
      sat d p (dispatch f name s acc) (fun acc' _ => IA acc')) ->
  forall fuel acc p, IA acc ->
    sat d p (children_loop fuel m (Some size) true end_ dispatch acc p) (fun acc' _ => IA acc').
Proof.
  intros Hd Hdisp fuel acc p HI. unfold children_loop.
  eapply sat_conseq;
    [|apply (sat_children_loop_gen d m (Some size) true end_ (fun f _ => dispatch f) (fun a _ => a)
               (fun a _ => IA a) Hd)].
  - cbn beta. intros r _ (acc' & c' & -> & H). exact H.
  - intros f name s acc0 p0 p' HI0 Hh Hp' Hcs Hcz. apply Hdisp;
      [exact HI0 | clear - Hh; lia | exact Hp' | apply Hcs; reflexivity | apply Hcz; reflexivity].
  - exact HI.
Qed.

(** the bind form *)
Lemma sat_children_loop_bind {Acc B : Type} d m size end_
      (dispatch : nat -> boxtype -> N -> Acc -> prog Acc) (IA : Acc -> Prop)
      fuel acc p (k : Acc -> prog B) Q :
  bytes_ok d = true ->
  (forall f name s acc p, IA acc -> 8 <= p -> p <= lenN d -> s <= size -> s <> 0 ->
      sat d p (dispatch f name s acc) (fun acc' _ => IA acc')) ->
  IA acc ->
  (forall acc' p', IA acc' -> sat d p' (k acc') Q) ->
  sat d p (bind (children_loop fuel m (Some size) true end_ dispatch acc p) k) Q.
Proof.
  intros Hd Hdisp HI Hk. eapply sat_bind; [exact (sat_children_loop d m size end_ dispatch IA Hd Hdisp fuel acc p HI)|].
  cbn beta. intros acc' p' H. now apply Hk.
Qed.

(** ** the common prologue [box_start; stream_position; start + size] of a container *)
Lemma sat_container_prologue {B} d p m site size (k : N -> N -> N -> prog B) Q :
  8 <= p -> p <= lenN d -> lenN d < 2 ^ 62 -> size < 2 ^ 62 ->
  sat d p (k (p - 8) p (p - 8 + size)) Q ->
  sat d p (bind (box_start m) (fun start => bind get_pos (fun current =>
             bind (add64 m site start size) (fun end_ => k start current end_)))) Q.
Proof.
  intros H8 Hp Hl Hs H. apply sat_box_start; [exact H8|]. unfold get_pos. cbn [bind].
  apply sat_GetPos. apply sat_add64; [unfold U64; lia|exact H].
Qed.

(** the common epilogue [skip_bytes_to(start + size); Ok(..)] *)
Lemma sat_container_epilogue {B} d p m site start size (v : B) (Q : B -> N -> Prop) :
  start + size < U64 -> Q v (start + size) ->
  sat d p (bind (add64 m site start size) (fun e => bind (skip_bytes_to e) (fun _ => Ret v))) Q.
Proof.
  intros Hs HQ. apply sat_add64; [exact Hs|]. apply sat_skip_bytes_to. now apply sat_ret.
Qed.
