(** * Layout independence over box trees (property C12): the levels of the box hierarchy

    [LayoutTreeKit.v] instantiated bottom-up: stbl, dinf, minf, mdia, udta, mvex, trak, moov and the
    top level.  [sem_open m t it]: the top-level tree [t] decodes to the reader item [it] for a
    structural reason (see [LayoutTreeKit.v]); [strip_xxx] forgets the chunk offsets. *)
From MP4 Require Import LayoutKit LayoutProofs LayoutMore LayoutOpen LayoutOpenS Reader.
From MP4 Require Import C12 LayoutTreeKit.
From MP4 Require Import IsoStco IsoCo64.
From MP4 Require Import LayoutTreeMono LayoutShift.
From MP4 Require Track.
From Coq Require Import Relations Lia ZifyN ZifyNat ZifyBool.
Open Scope string_scope.
Open Scope list_scope.
Open Scope N_scope.

(** ** Forgetting the chunk offsets *)
Definition strip_stco (x : stco) : stco := mkStco (stco_version x) (stco_flags x) [].
Definition strip_co64 (x : co64) : co64 := mkCo64 (co64_version x) (co64_flags x) [].
Definition strip_stbl (s : stbl) : stbl :=
  mkStbl (stbl_stsd s) (stbl_stts s) (stbl_ctts s) (stbl_stss s) (stbl_stsc s) (stbl_stsz s)
         (option_map strip_stco (stbl_stco s)) (option_map strip_co64 (stbl_co64 s)).
Definition strip_minf (mi : minf) : minf :=
  mkMinf (minf_vmhd mi) (minf_smhd mi) (minf_dinf mi) (strip_stbl (minf_stbl mi)).
Definition strip_mdia (md : mdia) : mdia :=
  mkMdia (mdia_mdhd md) (mdia_hdlr md) (strip_minf (mdia_minf md)).
Definition strip_trak (t : trak) : trak :=
  mkTrak (trak_tkhd t) (trak_edts t) (trak_meta t) (strip_mdia (trak_mdia t)).
Definition strip_moov (v : moov) : moov :=
  mkMoov (moov_mvhd v) (moov_meta v) (moov_mvex v) (map strip_trak (moov_traks v)) (moov_udta v).

Lemma strip_moov_eq v : strip_moov v = strip_chunk_offsets v.
Proof. reflexivity. Qed.

(** ** Generic facts *)
Lemma run_bind_ok_inv {A B} (p : prog A) (f : A -> prog B) s b s' :
  run (bind p f) s = (Ok b, s') -> exists a s1, run p s = (Ok a, s1) /\ run (f a) s1 = (Ok b, s').
Proof. rewrite run_bind. destruct (run p s) as [[a| | |] s1]; intros H; try discriminate H. eauto. Qed.

(** the version and flags a chunk-offset table decodes to are its first four bytes *)
Lemma dec_stco_hdr m size d l p b1 b3 rest x st' :
  lenN b1 = 1 -> lenN b3 = 3 ->
  run (dec_stco m size) (mkStream d l p (b1 ++ b3 ++ rest)) = (Ok x, st') ->
  stco_version x = unbe b1 /\ stco_flags x = unbe b3.
Proof.
  intros H1 H3 H. unfold dec_stco, box_start, sub64 in H.
  cbn [bind get_pos run s_pos] in H. rewrite run_bind, run_lift in H.
  destruct (sub_w m U64 "box_start" p HEADER_SIZE) as [start| | |]; try discriminate H.
  unfold read_header_ext, rd_u8, rd_u24, rd_u in H. cbn [bind] in H.
  rewrite (run_RdExact_app _ d l p b1 _ 1) in H by (first [exact H1 | discriminate]).
  cbn [bind] in H.
  rewrite (run_RdExact_app _ d l (p + 1) b3 _ 3) in H by (first [exact H3 | discriminate]).
  cbn [bind] in H.
  apply run_bind_ok_inv in H as (ec & s1 & _ & H).
  destruct (_ <? ec); [cbn [run] in H; discriminate H|].
  apply run_bind_ok_inv in H as (u & s2 & _ & H).
  apply run_bind_ok_inv in H as (es & s3 & _ & H).
  apply run_bind_ok_inv in H as (e & s4 & _ & H).
  apply run_bind_ok_inv in H as (u' & s5 & _ & H).
  cbn [run] in H. inversion H. split; reflexivity.
Qed.

Lemma dec_co64_hdr m size d l p b1 b3 rest x st' :
  lenN b1 = 1 -> lenN b3 = 3 ->
  run (dec_co64 m size) (mkStream d l p (b1 ++ b3 ++ rest)) = (Ok x, st') ->
  co64_version x = unbe b1 /\ co64_flags x = unbe b3.
Proof.
  intros H1 H3 H. unfold dec_co64, box_start, sub64 in H.
  cbn [bind get_pos run s_pos] in H. rewrite run_bind, run_lift in H.
  destruct (sub_w m U64 "box_start" p HEADER_SIZE) as [start| | |]; try discriminate H.
  unfold read_header_ext, rd_u8, rd_u24, rd_u in H. cbn [bind] in H.
  rewrite (run_RdExact_app _ d l p b1 _ 1) in H by (first [exact H1 | discriminate]).
  cbn [bind] in H.
  rewrite (run_RdExact_app _ d l (p + 1) b3 _ 3) in H by (first [exact H3 | discriminate]).
  cbn [bind] in H.
  apply run_bind_ok_inv in H as (ec & s1 & _ & H).
  destruct (_ <? ec); [cbn [run] in H; discriminate H|].
  apply run_bind_ok_inv in H as (u & s2 & _ & H).
  apply run_bind_ok_inv in H as (es & s3 & _ & H).
  apply run_bind_ok_inv in H as (e & s4 & _ & H).
  apply run_bind_ok_inv in H as (u' & s5 & _ & H).
  cbn [run] in H. inversion H. split; reflexivity.
Qed.

(** a child on the stream [decodes_to_s_det] uses *)
Lemma decodes_to_s_at {Item} (body : nat -> boxtype -> N -> prog Item) F c it :
  decodes_to_s body F c it -> c_s c < 2 ^ 63 ->
  exists d l st', run (body F (boxtype_of_u32 (c_code c)) (c_s c)) (mkStream d l (0 + 8) (c_payload c ++ []))
                  = (Ok it, st').
Proof.
  intros H Hs.
  assert (Hd : dropN (0 + 8) (repeat 0 8 ++ c_payload c ++ []) = c_payload c ++ [])
    by (apply dropN_app_n; reflexivity).
  pose proof (H F (repeat 0 8 ++ c_payload c ++ []) 0 0 [] (Nat.le_refl F) Hs Hd) as E.
  eauto.
Qed.

(** ** stbl *)
Section WithMode.
Variable m : mode.

Definition strip_SI (i : stbl_item) : stbl_item :=
  match i with
  | SI_stco x => SI_stco (strip_stco x)
  | SI_co64 x => SI_co64 (strip_co64 x)
  | _ => i
  end.
Definition strip_sa (a : stbl_acc) : stbl_acc :=
  mkStblAcc (sa_stsd a) (sa_stts a) (sa_ctts a) (sa_stss a) (sa_stsc a) (sa_stsz a)
            (option_map strip_stco (sa_stco a)) (option_map strip_co64 (sa_co64 a)).

Definition no_sub {Item} (t : btree) (it : Item) : Prop := False.

Definition sem_stbl := sem (stbl_body m) stbl_known SI_skip no_sub.

Lemma stbl_chunk c c' it it' F F' :
  chunk_rewrite c c' -> stbl_known (boxtype_of_u32 (c_code c)) = true ->
  decodes_to_s (stbl_body m) F c it -> decodes_to_s (stbl_body m) F' c' it' ->
  c_s c < 2 ^ 63 -> c_s c' < 2 ^ 63 -> strip_SI it = strip_SI it'.
Proof.
  intros Hcr _ Hd Hd' Hs Hs'.
  destruct (decodes_to_s_at _ _ _ _ Hd Hs) as (d & l & st1 & E).
  destruct (decodes_to_s_at _ _ _ _ Hd' Hs') as (d' & l' & st1' & E').
  destruct Hcr as [w v v' spare Hv Hf Hl|w v v' spare Hv Hf Hl]; cbn [c_code c_payload] in E, E'.
  - rewrite bt_stco in E, E'. cbn [stbl_body] in E, E'.
    apply run_bind_ok_inv in E as (x & s1 & Hx & Hr). cbn [run] in Hr. inversion Hr; subst it.
    apply run_bind_ok_inv in E' as (x' & s1' & Hx' & Hr'). cbn [run] in Hr'. inversion Hr'; subst it'.
    unfold iso_stco_payload in Hx, Hx'. rewrite <- !app_assoc in Hx, Hx'.
    apply dec_stco_hdr in Hx as [Hxv Hxf]; [|apply lenN_be..].
    apply dec_stco_hdr in Hx' as [Hxv' Hxf']; [|apply lenN_be..].
    cbn [strip_SI]. unfold strip_stco. now rewrite Hxv, Hxf, Hxv', Hxf', Hv, Hf.
  - rewrite bt_co64 in E, E'. cbn [stbl_body] in E, E'.
    apply run_bind_ok_inv in E as (x & s1 & Hx & Hr). cbn [run] in Hr. inversion Hr; subst it.
    apply run_bind_ok_inv in E' as (x' & s1' & Hx' & Hr'). cbn [run] in Hr'. inversion Hr'; subst it'.
    unfold iso_co64_payload in Hx, Hx'. rewrite <- !app_assoc in Hx, Hx'.
    apply dec_co64_hdr in Hx as [Hxv Hxf]; [|apply lenN_be..].
    apply dec_co64_hdr in Hx' as [Hxv' Hxf']; [|apply lenN_be..].
    cbn [strip_SI]. unfold strip_co64. now rewrite Hxv, Hxf, Hxv', Hxf', Hv, Hf.
Qed.


(** tactics for the side conditions of [lstep_put] *)
Ltac kind0_tac := intros i; destruct i; cbn; intros H; first [reflexivity | discriminate H].
Ltac known_kind_tac := intros n; destruct n; cbn; intros H; first [reflexivity | discriminate H].
Ltac name_kind_tac :=
  intros n1 n2; destruct n1; cbn; intros H; try (right; reflexivity);
  destruct n2; cbn in H; try discriminate H; left; reflexivity.
Ltac no_chunk_tac :=
  intros c c' it it' F F' Hcr Hk; exfalso; destruct Hcr; cbn [c_code] in Hk;
  first [rewrite bt_stco in Hk | rewrite bt_co64 in Hk]; discriminate Hk.
(* two nodes of different types are not related by a layout step *)
Ltac cross_tac Hab H H' :=
  exfalso; unfold node in H, H';
  destruct H as (?w & ?kids & ?items & ?v & -> & _);
  destruct H' as (?w & ?kids & ?items & ?v & -> & _);
  destruct Hab as [E|Hst];
  [ inversion E | apply tstep_code in Hst; cbn [bt_child c_code] in Hst; discriminate Hst ].

Lemma stbl_lstep kids kids' items items' :
  (kids = kids' \/ lstep stbl_known kids kids') ->
  Forall2 sem_stbl kids items -> Forall2 sem_stbl kids' items' ->
  forall a, put_all stbl_put (map strip_SI items) a = put_all stbl_put (map strip_SI items') a.
Proof.
  apply (lstep_put (stbl_body m) stbl_known SI_skip stbl_put stbl_kind stbl_name_kind strip_SI no_sub).
  - exact (stbl_body_kind m).
  - kind0_tac.
  - reflexivity.
  - known_kind_tac.
  - name_kind_tac.
  - exact stbl_put_comm.
  - intros a; reflexivity.
  - intros i; destruct i; reflexivity.
  - intros t it [].
  - intros t it [].
  - intros a b it it' _ [].
  - exact stbl_chunk.
Qed.

Definition strip_NI (i : minf_item) : minf_item :=
  match i with NI_stbl x => NI_stbl (strip_stbl x) | _ => i end.
Definition strip_na (a : minf_acc) : minf_acc :=
  let '(vm, sm, di, st) := a in (vm, sm, di, option_map strip_stbl st).

Definition node_stbl :=
  node (stbl_body m) stbl_known SI_skip stbl_put no_sub stbl_acc0 stbl_finish 0x7374626c NI_stbl.

Lemma dec_stbl_children_s fuel cs items F0 d l p rest :
  Forall2 (decodes_to_s (stbl_body m) F0) cs items -> Forall child_wf cs ->
  (F0 + length cs <= fuel)%nat -> p + 8 + total_len cs < 2 ^ 63 ->
  dropN (p + 8) d = render cs ++ rest ->
  run (dec_stbl_fuel fuel m (8 + total_len cs)) (mkStream d l (p + 8) (render cs ++ rest))
  = (opt_res_data (stbl_finish (put_all stbl_put items stbl_acc0)),
     mkStream d l (p + 8 + total_len cs) rest).
Proof.
  intros H2 Hwf Hf Hp Hd.
  exact (container_children_s m "stbl start+size" (stbl_dispatch m) (stbl_body m) stbl_put stbl_acc0
           (stbl_K m) stbl_finish (stbl_shape m) (stbl_K_ok m) fuel cs items F0 d l p rest H2 Hwf Hf Hp Hd).
Qed.

Lemma node_stbl_dec t it : node_stbl t it ->
  c_s (bt_child t) < 2 ^ 63 /\ exists F, decodes_to_s (minf_body m) F (bt_child t) it.
Proof.
  apply (node_dec (stbl_body m) stbl_known SI_skip stbl_put no_sub stbl_acc0 stbl_finish m dec_stbl_fuel
                  0x7374626c (minf_body m) NI_stbl).
  - exact dec_stbl_children_s.
  - intros f s st. rewrite bt_stbl. reflexivity.
  - exact (stbl_child_skip m).
  - intros t' it' [].
Qed.

Lemma node_stbl_step a b it it' :
  (a = b \/ tstep a b) -> node_stbl a it -> node_stbl b it' -> strip_NI it = strip_NI it'.
Proof.
  apply (node_step (stbl_body m) stbl_known SI_skip stbl_put strip_SI no_sub stbl_acc0 stbl_finish
                   strip_sa strip_stbl 0x7374626c NI_stbl strip_NI).
  - vm_compute. reflexivity.
  - intros i x. destruct i; reflexivity.
  - reflexivity.
  - intros x. unfold stbl_finish, strip_sa. cbn [sa_stsd sa_stts sa_ctts sa_stss sa_stsc sa_stsz sa_stco sa_co64].
    destruct (sa_stsd x), (sa_stts x), (sa_stsc x), (sa_stsz x); try reflexivity.
    destruct (sa_stco x), (sa_co64 x); reflexivity.
  - intros v. reflexivity.
  - exact (stbl_child_skip m).
  - exact stbl_lstep.
Qed.

(** ** dinf *)
Definition sem_dinf := sem (dinf_body m) dinf_known FI_skip no_sub.

Lemma dinf_lstep kids kids' items items' :
  (kids = kids' \/ lstep dinf_known kids kids') ->
  Forall2 sem_dinf kids items -> Forall2 sem_dinf kids' items' ->
  forall a, put_all dinf_put (map (fun i => i) items) a = put_all dinf_put (map (fun i => i) items') a.
Proof.
  apply (lstep_put (dinf_body m) dinf_known FI_skip dinf_put dinf_kind dinf_name_kind (fun i => i) no_sub).
  - exact (dinf_body_kind m).
  - kind0_tac.
  - reflexivity.
  - known_kind_tac.
  - name_kind_tac.
  - exact dinf_put_comm.
  - intros a; reflexivity.
  - intros i; reflexivity.
  - intros t it [].
  - intros t it [].
  - intros a b it it' _ [].
  - no_chunk_tac.
Qed.

Definition node_dinf :=
  node (dinf_body m) dinf_known FI_skip dinf_put no_sub (@None dref) dinf_finish 0x64696e66 NI_dinf.

Lemma dec_dinf_children_s fuel cs items F0 d l p rest :
  Forall2 (decodes_to_s (dinf_body m) F0) cs items -> Forall child_wf cs ->
  (F0 + length cs <= fuel)%nat -> p + 8 + total_len cs < 2 ^ 63 ->
  dropN (p + 8) d = render cs ++ rest ->
  run (dec_dinf_fuel fuel m (8 + total_len cs)) (mkStream d l (p + 8) (render cs ++ rest))
  = (opt_res_data (dinf_finish (put_all dinf_put items None)),
     mkStream d l (p + 8 + total_len cs) rest).
Proof.
  intros H2 Hwf Hf Hp Hd.
  exact (container_children_s m "dinf start+size" (dinf_dispatch m) (dinf_body m) dinf_put None
           (dinf_K m) dinf_finish (dinf_shape m) (dinf_K_ok m) fuel cs items F0 d l p rest H2 Hwf Hf Hp Hd).
Qed.

Lemma node_dinf_dec t it : node_dinf t it ->
  c_s (bt_child t) < 2 ^ 63 /\ exists F, decodes_to_s (minf_body m) F (bt_child t) it.
Proof.
  apply (node_dec (dinf_body m) dinf_known FI_skip dinf_put no_sub None dinf_finish m dec_dinf_fuel
                  0x64696e66 (minf_body m) NI_dinf).
  - exact dec_dinf_children_s.
  - intros f s st. rewrite bt_dinf. reflexivity.
  - exact (dinf_child_skip m).
  - intros t' it' [].
Qed.

Lemma node_dinf_step a b it it' :
  (a = b \/ tstep a b) -> node_dinf a it -> node_dinf b it' -> strip_NI it = strip_NI it'.
Proof.
  apply (node_step (dinf_body m) dinf_known FI_skip dinf_put (fun i => i) no_sub None dinf_finish
                   (fun x => x) (fun x => x) 0x64696e66 NI_dinf strip_NI).
  - vm_compute. reflexivity.
  - intros i x. reflexivity.
  - reflexivity.
  - intros x. destruct (dinf_finish x); reflexivity.
  - intros v. reflexivity.
  - exact (dinf_child_skip m).
  - exact dinf_lstep.
Qed.

(** ** minf *)
Definition sub_minf (t : btree) (it : minf_item) : Prop := node_stbl t it \/ node_dinf t it.
Definition sem_minf := sem (minf_body m) minf_known NI_skip sub_minf.

Lemma sub_minf_dec t it : sub_minf t it ->
  c_s (bt_child t) < 2 ^ 63 /\ exists F, decodes_to_s (minf_body m) F (bt_child t) it.
Proof. intros [H|H]; [exact (node_stbl_dec _ _ H) | exact (node_dinf_dec _ _ H)]. Qed.

Lemma minf_lstep kids kids' items items' :
  (kids = kids' \/ lstep minf_known kids kids') ->
  Forall2 sem_minf kids items -> Forall2 sem_minf kids' items' ->
  forall a, put_all minf_put (map strip_NI items) a = put_all minf_put (map strip_NI items') a.
Proof.
  apply (lstep_put (minf_body m) minf_known NI_skip minf_put minf_kind minf_name_kind strip_NI sub_minf).
  - exact (minf_body_kind m).
  - kind0_tac.
  - reflexivity.
  - known_kind_tac.
  - name_kind_tac.
  - exact minf_put_comm.
  - intros [[[vm sm] di] st]; reflexivity.
  - intros i; destruct i; reflexivity.
  - intros t it [H|H]; unfold node_stbl, node_dinf, node in H;
      destruct H as (w & kids0 & items0 & v & -> & _);
      [exists w, 0x7374626c, kids0, stbl_known | exists w, 0x64696e66, kids0, dinf_known];
      repeat split; vm_compute; reflexivity.
  - exact sub_minf_dec.
  - intros a b it it' Hab [H|H] [H'|H'].
    + exact (node_stbl_step a b it it' Hab H H').
    + cross_tac Hab H H'.
    + cross_tac Hab H H'.
    + exact (node_dinf_step a b it it' Hab H H').
  - no_chunk_tac.
Qed.

Definition strip_DI (i : mdia_item) : mdia_item :=
  match i with DI_minf x => DI_minf (strip_minf x) | _ => i end.
Definition strip_da (a : mdia_acc) : mdia_acc :=
  let '(md, hd, mi) := a in (md, hd, option_map strip_minf mi).

Definition node_minf :=
  node (minf_body m) minf_known NI_skip minf_put sub_minf (@None vmhd, @None smhd, @None dinf, @None stbl)
       minf_finish 0x6d696e66 DI_minf.

Lemma dec_minf_children_s fuel cs items F0 d l p rest :
  Forall2 (decodes_to_s (minf_body m) F0) cs items -> Forall child_wf cs ->
  (F0 + length cs <= fuel)%nat -> p + 8 + total_len cs < 2 ^ 63 ->
  dropN (p + 8) d = render cs ++ rest ->
  run (dec_minf_fuel fuel m (8 + total_len cs)) (mkStream d l (p + 8) (render cs ++ rest))
  = (opt_res_data (minf_finish (put_all minf_put items (None, None, None, None))),
     mkStream d l (p + 8 + total_len cs) rest).
Proof.
  intros H2 Hwf Hf Hp Hd.
  exact (container_children_s m "minf start+size" (minf_dispatch m) (minf_body m) minf_put (None, None, None, None)
           (minf_K m) minf_finish (minf_shape m) (minf_K_ok m) fuel cs items F0 d l p rest H2 Hwf Hf Hp Hd).
Qed.

Lemma node_minf_dec t it : node_minf t it ->
  c_s (bt_child t) < 2 ^ 63 /\ exists F, decodes_to_s (mdia_body m) F (bt_child t) it.
Proof.
  apply (node_dec (minf_body m) minf_known NI_skip minf_put sub_minf (None, None, None, None) minf_finish m
                  dec_minf_fuel 0x6d696e66 (mdia_body m) DI_minf).
  - exact dec_minf_children_s.
  - intros f s st. rewrite bt_minf. reflexivity.
  - exact (minf_child_skip m).
  - exact sub_minf_dec.
Qed.

Lemma node_minf_step a b it it' :
  (a = b \/ tstep a b) -> node_minf a it -> node_minf b it' -> strip_DI it = strip_DI it'.
Proof.
  apply (node_step (minf_body m) minf_known NI_skip minf_put strip_NI sub_minf (None, None, None, None)
                   minf_finish strip_na strip_minf 0x6d696e66 DI_minf strip_DI).
  - vm_compute. reflexivity.
  - intros i [[[vm sm] di] st]. destruct i; reflexivity.
  - reflexivity.
  - intros [[[vm sm] [di|]] [st|]]; reflexivity.
  - intros v. reflexivity.
  - exact (minf_child_skip m).
  - exact minf_lstep.
Qed.

(** ** mdia *)
Definition sem_mdia := sem (mdia_body m) mdia_known DI_skip node_minf.

Lemma mdia_lstep kids kids' items items' :
  (kids = kids' \/ lstep mdia_known kids kids') ->
  Forall2 sem_mdia kids items -> Forall2 sem_mdia kids' items' ->
  forall a, put_all mdia_put (map strip_DI items) a = put_all mdia_put (map strip_DI items') a.
Proof.
  apply (lstep_put (mdia_body m) mdia_known DI_skip mdia_put mdia_kind mdia_name_kind strip_DI node_minf).
  - exact (mdia_body_kind m).
  - kind0_tac.
  - reflexivity.
  - known_kind_tac.
  - name_kind_tac.
  - exact mdia_put_comm.
  - intros [[md hd] mi]; reflexivity.
  - intros i; destruct i; reflexivity.
  - intros t it H; unfold node_minf, node in H; destruct H as (w & kids0 & items0 & v & -> & _).
    exists w, 0x6d696e66, kids0, minf_known. repeat split; vm_compute; reflexivity.
  - exact node_minf_dec.
  - exact node_minf_step.
  - no_chunk_tac.
Qed.

Definition strip_TI (i : trak_item) : trak_item :=
  match i with TI_mdia x => TI_mdia (strip_mdia x) | _ => i end.
Definition strip_ta (a : trak_acc) : trak_acc :=
  let '(tk, ed, me, md) := a in (tk, ed, me, option_map strip_mdia md).

Definition node_mdia :=
  node (mdia_body m) mdia_known DI_skip mdia_put node_minf (@None mdhd, @None hdlr, @None minf)
       mdia_finish 0x6d646961 TI_mdia.

Lemma dec_mdia_children_s fuel cs items F0 d l p rest :
  Forall2 (decodes_to_s (mdia_body m) F0) cs items -> Forall child_wf cs ->
  (F0 + length cs <= fuel)%nat -> p + 8 + total_len cs < 2 ^ 63 ->
  dropN (p + 8) d = render cs ++ rest ->
  run (dec_mdia_fuel fuel m (8 + total_len cs)) (mkStream d l (p + 8) (render cs ++ rest))
  = (opt_res_data (mdia_finish (put_all mdia_put items (None, None, None))),
     mkStream d l (p + 8 + total_len cs) rest).
Proof.
  intros H2 Hwf Hf Hp Hd.
  exact (container_children_s m "mdia start+size" (mdia_dispatch m) (mdia_body m) mdia_put (None, None, None)
           (mdia_K m) mdia_finish (mdia_shape m) (mdia_K_ok m) fuel cs items F0 d l p rest H2 Hwf Hf Hp Hd).
Qed.

Lemma node_mdia_dec t it : node_mdia t it ->
  c_s (bt_child t) < 2 ^ 63 /\ exists F, decodes_to_s (trak_body m) F (bt_child t) it.
Proof.
  apply (node_dec (mdia_body m) mdia_known DI_skip mdia_put node_minf (None, None, None) mdia_finish m
                  dec_mdia_fuel 0x6d646961 (trak_body m) TI_mdia).
  - exact dec_mdia_children_s.
  - intros f s st. rewrite bt_mdia. reflexivity.
  - exact (mdia_child_skip m).
  - exact node_minf_dec.
Qed.

Lemma node_mdia_step a b it it' :
  (a = b \/ tstep a b) -> node_mdia a it -> node_mdia b it' -> strip_TI it = strip_TI it'.
Proof.
  apply (node_step (mdia_body m) mdia_known DI_skip mdia_put strip_DI node_minf (None, None, None)
                   mdia_finish strip_da strip_mdia 0x6d646961 TI_mdia strip_TI).
  - vm_compute. reflexivity.
  - intros i [[md hd] mi]. destruct i; reflexivity.
  - reflexivity.
  - intros [[[md|] [hd|]] [mi|]]; reflexivity.
  - intros v. reflexivity.
  - exact (mdia_child_skip m).
  - exact mdia_lstep.
Qed.


(** ** udta and mvex (children of moov) *)
Definition strip_VI (i : moov_item) : moov_item :=
  match i with VI_trak x => VI_trak (strip_trak x) | _ => i end.
Definition strip_va (a : moov_acc) : moov_acc :=
  let '(mh, me, ud, mx, tr) := a in (mh, me, ud, mx, map strip_trak tr).

Definition sem_udta := sem (udta_body m) udta_known UI_skip no_sub.

Lemma udta_lstep kids kids' items items' :
  (kids = kids' \/ lstep udta_known kids kids') ->
  Forall2 sem_udta kids items -> Forall2 sem_udta kids' items' ->
  forall a, put_all udta_put (map (fun i => i) items) a = put_all udta_put (map (fun i => i) items') a.
Proof.
  apply (lstep_put (udta_body m) udta_known UI_skip udta_put udta_kind udta_name_kind (fun i => i) no_sub).
  - exact (udta_body_kind m).
  - kind0_tac.
  - reflexivity.
  - known_kind_tac.
  - name_kind_tac.
  - exact udta_put_comm.
  - intros a; reflexivity.
  - intros i; reflexivity.
  - intros t it [].
  - intros t it [].
  - intros a b it it' _ [].
  - no_chunk_tac.
Qed.

Definition node_udta :=
  node (udta_body m) udta_known UI_skip udta_put no_sub (@None meta) udta_finish 0x75647461 VI_udta.

Lemma dec_udta_children_s fuel cs items F0 d l p rest :
  Forall2 (decodes_to_s (udta_body m) F0) cs items -> Forall child_wf cs ->
  (F0 + length cs <= fuel)%nat -> p + 8 + total_len cs < 2 ^ 63 ->
  dropN (p + 8) d = render cs ++ rest ->
  run (dec_udta_fuel fuel m (8 + total_len cs)) (mkStream d l (p + 8) (render cs ++ rest))
  = (opt_res_data (udta_finish (put_all udta_put items None)),
     mkStream d l (p + 8 + total_len cs) rest).
Proof.
  intros H2 Hwf Hf Hp Hd.
  exact (container_children_s m "udta start+size" (udta_dispatch m) (udta_body m) udta_put None
           (udta_K m) udta_finish (udta_shape m) (udta_K_ok m) fuel cs items F0 d l p rest H2 Hwf Hf Hp Hd).
Qed.

Lemma node_udta_dec t it : node_udta t it ->
  c_s (bt_child t) < 2 ^ 63 /\ exists F, decodes_to_s (moov_body m) F (bt_child t) it.
Proof.
  apply (node_dec (udta_body m) udta_known UI_skip udta_put no_sub None udta_finish m dec_udta_fuel
                  0x75647461 (moov_body m) VI_udta).
  - exact dec_udta_children_s.
  - intros f s st. rewrite bt_udta. reflexivity.
  - exact (udta_child_skip m).
  - intros t' it' [].
Qed.

Lemma node_udta_step a b it it' :
  (a = b \/ tstep a b) -> node_udta a it -> node_udta b it' -> strip_VI it = strip_VI it'.
Proof.
  apply (node_step (udta_body m) udta_known UI_skip udta_put (fun i => i) no_sub None udta_finish
                   (fun x => x) (fun x => x) 0x75647461 VI_udta strip_VI).
  - vm_compute. reflexivity.
  - intros i x. reflexivity.
  - reflexivity.
  - intros x. reflexivity.
  - intros v. reflexivity.
  - exact (udta_child_skip m).
  - exact udta_lstep.
Qed.

Definition sem_mvex := sem (mvex_body m) mvex_known XI_skip no_sub.

Lemma mvex_lstep kids kids' items items' :
  (kids = kids' \/ lstep mvex_known kids kids') ->
  Forall2 sem_mvex kids items -> Forall2 sem_mvex kids' items' ->
  forall a, put_all mvex_put (map (fun i => i) items) a = put_all mvex_put (map (fun i => i) items') a.
Proof.
  apply (lstep_put (mvex_body m) mvex_known XI_skip mvex_put mvex_kind mvex_name_kind (fun i => i) no_sub).
  - exact (mvex_body_kind m).
  - kind0_tac.
  - reflexivity.
  - known_kind_tac.
  - name_kind_tac.
  - exact mvex_put_comm.
  - intros [me tr]; reflexivity.
  - intros i; reflexivity.
  - intros t it [].
  - intros t it [].
  - intros a b it it' _ [].
  - no_chunk_tac.
Qed.

Definition node_mvex :=
  node (mvex_body m) mvex_known XI_skip mvex_put no_sub (@None mehd, @None trex) mvex_finish 0x6d766578 VI_mvex.

Lemma dec_mvex_children_s fuel cs items F0 d l p rest :
  Forall2 (decodes_to_s (mvex_body m) F0) cs items -> Forall child_wf cs ->
  (F0 + length cs <= fuel)%nat -> p + 8 + total_len cs < 2 ^ 63 ->
  dropN (p + 8) d = render cs ++ rest ->
  run (dec_mvex_fuel fuel m (8 + total_len cs)) (mkStream d l (p + 8) (render cs ++ rest))
  = (opt_res_data (mvex_finish (put_all mvex_put items (None, None))),
     mkStream d l (p + 8 + total_len cs) rest).
Proof.
  intros H2 Hwf Hf Hp Hd.
  exact (container_children_s m "mvex start+size" (mvex_dispatch m) (mvex_body m) mvex_put (None, None)
           (mvex_K m) mvex_finish (mvex_shape m) (mvex_K_ok m) fuel cs items F0 d l p rest H2 Hwf Hf Hp Hd).
Qed.

Lemma node_mvex_dec t it : node_mvex t it ->
  c_s (bt_child t) < 2 ^ 63 /\ exists F, decodes_to_s (moov_body m) F (bt_child t) it.
Proof.
  apply (node_dec (mvex_body m) mvex_known XI_skip mvex_put no_sub (None, None) mvex_finish m dec_mvex_fuel
                  0x6d766578 (moov_body m) VI_mvex).
  - exact dec_mvex_children_s.
  - intros f s st. rewrite bt_mvex. reflexivity.
  - exact (mvex_child_skip m).
  - intros t' it' [].
Qed.

Lemma node_mvex_step a b it it' :
  (a = b \/ tstep a b) -> node_mvex a it -> node_mvex b it' -> strip_VI it = strip_VI it'.
Proof.
  apply (node_step (mvex_body m) mvex_known XI_skip mvex_put (fun i => i) no_sub (None, None) mvex_finish
                   (fun x => x) (fun x => x) 0x6d766578 VI_mvex strip_VI).
  - vm_compute. reflexivity.
  - intros i x. reflexivity.
  - reflexivity.
  - intros x. destruct (mvex_finish x); reflexivity.
  - intros v. reflexivity.
  - exact (mvex_child_skip m).
  - exact mvex_lstep.
Qed.

(** ** trak *)
Definition sem_trak := sem (trak_body m) trak_known TI_skip node_mdia.

Lemma trak_lstep kids kids' items items' :
  (kids = kids' \/ lstep trak_known kids kids') ->
  Forall2 sem_trak kids items -> Forall2 sem_trak kids' items' ->
  forall a, put_all trak_put (map strip_TI items) a = put_all trak_put (map strip_TI items') a.
Proof.
  apply (lstep_put (trak_body m) trak_known TI_skip trak_put trak_kind trak_name_kind strip_TI node_mdia).
  - exact (trak_body_kind m).
  - kind0_tac.
  - reflexivity.
  - known_kind_tac.
  - name_kind_tac.
  - exact trak_put_comm.
  - intros [[[tk ed] me] md]; reflexivity.
  - intros i; destruct i; reflexivity.
  - intros t it H; unfold node_mdia, node in H; destruct H as (w & kids0 & items0 & v & -> & _).
    exists w, 0x6d646961, kids0, mdia_known. repeat split; vm_compute; reflexivity.
  - exact node_mdia_dec.
  - exact node_mdia_step.
  - no_chunk_tac.
Qed.

Definition node_trak :=
  node (trak_body m) trak_known TI_skip trak_put node_mdia (@None tkhd, @None edts, @None meta, @None mdia)
       trak_finish 0x7472616b VI_trak.

Lemma dec_trak_children_s fuel cs items F0 d l p rest :
  Forall2 (decodes_to_s (trak_body m) F0) cs items -> Forall child_wf cs ->
  (F0 + length cs <= fuel)%nat -> p + 8 + total_len cs < 2 ^ 63 ->
  dropN (p + 8) d = render cs ++ rest ->
  run (dec_trak_fuel fuel m (8 + total_len cs)) (mkStream d l (p + 8) (render cs ++ rest))
  = (opt_res_data (trak_finish (put_all trak_put items (None, None, None, None))),
     mkStream d l (p + 8 + total_len cs) rest).
Proof.
  intros H2 Hwf Hf Hp Hd.
  exact (container_children_s m "trak start+size" (trak_dispatch m) (trak_body m) trak_put (None, None, None, None)
           (trak_K m) trak_finish (trak_shape m) (trak_K_ok m) fuel cs items F0 d l p rest H2 Hwf Hf Hp Hd).
Qed.

Lemma node_trak_dec t it : node_trak t it ->
  c_s (bt_child t) < 2 ^ 63 /\ exists F, decodes_to_s (moov_body m) F (bt_child t) it.
Proof.
  apply (node_dec (trak_body m) trak_known TI_skip trak_put node_mdia (None, None, None, None) trak_finish m
                  dec_trak_fuel 0x7472616b (moov_body m) VI_trak).
  - exact dec_trak_children_s.
  - intros f s st. rewrite bt_trak. reflexivity.
  - exact (trak_child_skip m).
  - exact node_mdia_dec.
Qed.

Lemma node_trak_step a b it it' :
  (a = b \/ tstep a b) -> node_trak a it -> node_trak b it' -> strip_VI it = strip_VI it'.
Proof.
  apply (node_step (trak_body m) trak_known TI_skip trak_put strip_TI node_mdia (None, None, None, None)
                   trak_finish strip_ta strip_trak 0x7472616b VI_trak strip_VI).
  - vm_compute. reflexivity.
  - intros i [[[tk ed] me] md]. destruct i; reflexivity.
  - reflexivity.
  - intros [[[[tk|] ed] me] [md|]]; reflexivity.
  - intros v. reflexivity.
  - exact (trak_child_skip m).
  - exact trak_lstep.
Qed.

(** ** moov *)
Definition sub_moov (t : btree) (it : moov_item) : Prop := node_trak t it \/ node_udta t it \/ node_mvex t it.
Definition sem_moov := sem (moov_body m) moov_known VI_skip sub_moov.

Lemma sub_moov_dec t it : sub_moov t it ->
  c_s (bt_child t) < 2 ^ 63 /\ exists F, decodes_to_s (moov_body m) F (bt_child t) it.
Proof.
  intros [H|[H|H]]; [exact (node_trak_dec _ _ H) | exact (node_udta_dec _ _ H) | exact (node_mvex_dec _ _ H)].
Qed.

Lemma moov_lstep kids kids' items items' :
  (kids = kids' \/ lstep moov_known kids kids') ->
  Forall2 sem_moov kids items -> Forall2 sem_moov kids' items' ->
  forall a, put_all moov_put (map strip_VI items) a = put_all moov_put (map strip_VI items') a.
Proof.
  apply (lstep_put (moov_body m) moov_known VI_skip moov_put moov_kind moov_name_kind strip_VI sub_moov).
  - exact (moov_body_kind m).
  - kind0_tac.
  - reflexivity.
  - known_kind_tac.
  - name_kind_tac.
  - exact moov_put_comm.
  - intros [[[[mh me] ud] mx] tr]; reflexivity.
  - intros i; destruct i; reflexivity.
  - intros t it [H|[H|H]]; unfold node_trak, node_udta, node_mvex, node in H;
      destruct H as (w & kids0 & items0 & v & -> & _);
      [exists w, 0x7472616b, kids0, trak_known | exists w, 0x75647461, kids0, udta_known
       | exists w, 0x6d766578, kids0, mvex_known];
      repeat split; vm_compute; reflexivity.
  - exact sub_moov_dec.
  - intros a b it it' Hab [H|[H|H]] [H'|[H'|H']].
    + exact (node_trak_step a b it it' Hab H H').
    + cross_tac Hab H H'.
    + cross_tac Hab H H'.
    + cross_tac Hab H H'.
    + exact (node_udta_step a b it it' Hab H H').
    + cross_tac Hab H H'.
    + cross_tac Hab H H'.
    + cross_tac Hab H H'.
    + exact (node_mvex_step a b it it' Hab H H').
  - no_chunk_tac.
Qed.

Definition strip_OI (i : open_item) : open_item :=
  match i with OI_moov x => OI_moov (strip_moov x) | _ => i end.
Definition strip_oa (a : open_acc) : open_acc :=
  let '(ft, mv, moofs, offs, emsgs) := a in (ft, option_map strip_moov mv, moofs, offs, emsgs).

Definition node_moov :=
  node (moov_body m) moov_known VI_skip moov_put sub_moov
       (@None mvhd, @None meta, @None udta, @None mvex, @nil trak) moov_finish 0x6d6f6f76 OI_moov.

Lemma dec_moov_children_s fuel cs items F0 d l p rest :
  Forall2 (decodes_to_s (moov_body m) F0) cs items -> Forall child_wf cs ->
  (F0 + length cs <= fuel)%nat -> p + 8 + total_len cs < 2 ^ 63 ->
  dropN (p + 8) d = render cs ++ rest ->
  run (dec_moov_fuel fuel m (8 + total_len cs)) (mkStream d l (p + 8) (render cs ++ rest))
  = (opt_res_data (moov_finish (put_all moov_put items (None, None, None, None, []))),
     mkStream d l (p + 8 + total_len cs) rest).
Proof.
  intros H2 Hwf Hf Hp Hd.
  exact (container_children_s m "moov start+size" (moov_dispatch m) (moov_body m) moov_put
           (None, None, None, None, [])
           (moov_K m) moov_finish (moov_shape m) (moov_K_ok m) fuel cs items F0 d l p rest H2 Hwf Hf Hp Hd).
Qed.

Lemma node_moov_dec t it : node_moov t it ->
  c_s (bt_child t) < 2 ^ 63 /\ exists F, decodes_to_s (open_body m) F (bt_child t) it.
Proof.
  apply (node_dec (moov_body m) moov_known VI_skip moov_put sub_moov (None, None, None, None, []) moov_finish m
                  dec_moov_fuel 0x6d6f6f76 (open_body m) OI_moov).
  - exact dec_moov_children_s.
  - intros f s st. rewrite bt_moov. reflexivity.
  - exact (moov_child_skip m).
  - exact sub_moov_dec.
Qed.

Lemma node_moov_step a b it it' :
  (a = b \/ tstep a b) -> node_moov a it -> node_moov b it' -> strip_OI it = strip_OI it'.
Proof.
  apply (node_step (moov_body m) moov_known VI_skip moov_put strip_VI sub_moov (None, None, None, None, [])
                   moov_finish strip_va strip_moov 0x6d6f6f76 OI_moov strip_OI).
  - vm_compute. reflexivity.
  - intros i [[[[mh me] ud] mx] tr]. destruct i; try reflexivity.
    cbn [strip_va moov_put strip_VI]. now rewrite map_app.
  - reflexivity.
  - intros [[[[[mh|] me] ud] mx] tr]; reflexivity.
  - intros v. reflexivity.
  - exact (moov_child_skip m).
  - exact moov_lstep.
Qed.


(** ** The top level *)
Definition open_name_kind (n : boxtype) : nat :=
  match n with FtypBox => 1 | MoovBox => 2 | MoofBox => 3 | EmsgBox => 4 | _ => 0 end%nat.

Lemma open_body_kind f n s st i st' :
  run (open_body m f n s) st = (Ok i, st') -> open_kind i = open_name_kind n.
Proof. intros R. destruct n; cbn [open_body] in R; body_kind_tac R st. Qed.

Definition sem_open := sem (open_body m) open_known OI_skip node_moov.

Lemma open_lstep kids kids' items items' :
  (kids = kids' \/ lstep open_known kids kids') ->
  Forall2 sem_open kids items -> Forall2 sem_open kids' items' ->
  forall a, put_all (open_put 0) (map strip_OI items) a = put_all (open_put 0) (map strip_OI items') a.
Proof.
  apply (lstep_put (open_body m) open_known OI_skip (open_put 0) open_kind open_name_kind strip_OI node_moov).
  - exact open_body_kind.
  - kind0_tac.
  - reflexivity.
  - known_kind_tac.
  - name_kind_tac.
  - exact open_put_comm.
  - intros [[[[ft mv] moofs] offs] emsgs]; reflexivity.
  - intros i; destruct i; reflexivity.
  - intros t it H; unfold node_moov, node in H; destruct H as (w & kids0 & items0 & v & -> & _).
    exists w, 0x6d6f6f76, kids0, moov_known. repeat split; vm_compute; reflexivity.
  - exact node_moov_dec.
  - exact node_moov_step.
  - no_chunk_tac.
Qed.

(** a list of top-level trees is canonical when every tree has a [sem_open]; [good]: it is also
    representable and shorter than 2^63 bytes; [cstep]: one layout step between good lists *)
Definition canon (T : list btree) : Prop := exists items, Forall2 sem_open T items.
Definition good (T : list btree) : Prop :=
  Forall bt_wf T /\ lenN (file_of T) < 2 ^ 63 /\ canon T.
Definition cstep (T T' : list btree) : Prop := good T /\ good T' /\ lstep open_known T T'.

Lemma bt_wf_child t : bt_wf t -> child_wf (bt_child t).
Proof. intros H. inversion H; subst; assumption. Qed.

Definition open_acc0 : open_acc := (None, None, [], [], []).

(** a canonical file opens to the fold of its items, with any fuel from some bound on *)
Lemma open_canon T items :
  Forall bt_wf T -> lenN (file_of T) < 2 ^ 63 -> Forall2 sem_open T items ->
  exists F, forall fuel, (F <= fuel)%nat ->
    fst (run (open_fuel fuel m (lenN (file_of T))) (stream_at (file_of T) 0))
    = open_result (open_put_all 0 (map bt_child T) items open_acc0) (lenN (file_of T)).
Proof.
  intros Hwf Hlen Hsem.
  destruct (sems_dec (open_body m) open_known OI_skip node_moov (open_child_skip m) node_moov_dec T items Hsem)
    as (F0 & H2).
  exists (F0 + length (map bt_child T))%nat. intros fuel Hf.
  assert (Hw : Forall child_wf (map bt_child T)).
  { clear -Hwf. induction Hwf; cbn [map]; constructor; auto. now apply bt_wf_child. }
  unfold file_of in *. rewrite lenN_render in *.
  pose proof (open_fuel_children_s m fuel (map bt_child T) items F0 (render (map bt_child T))
                (total_len (map bt_child T)) 0 [] H2 Hw Hf) as E.
  rewrite N.add_0_l, app_nil_r in E. unfold stream_at. rewrite dropN_0, lenN_render.
  rewrite E; [reflexivity | exact Hlen | apply dropN_0].
Qed.

Lemma cstep_rel T T' : clos_refl_sym_trans _ cstep T T' ->
  (good T <-> good T') /\
  (good T -> forall items items', Forall2 sem_open T items -> Forall2 sem_open T' items' ->
     forall a, put_all (open_put 0) (map strip_OI items) a = put_all (open_put 0) (map strip_OI items') a).
Proof.
  induction 1 as [x y (gx & gy & Hl)|x|x y _ [Iff R]|x y z _ [Iff1 R1] _ [Iff2 R2]].
  - split; [tauto|]. intros _ items items'. apply open_lstep. now right.
  - split; [tauto|]. intros _ items items'. apply open_lstep. now left.
  - split; [tauto|]. intros gy items items' Hy Hx a. symmetry. apply R; tauto.
  - split; [tauto|]. intros gx items items'' Hx Hz a.
    assert (gy : good y) by tauto. destruct gy as (Wy & Ly & (items' & Hy)).
    rewrite (R1 gx items items' Hx Hy a). apply R2; [|assumption..]. exact (conj Wy (conj Ly (ex_intro _ items' Hy))).
Qed.

(** *** files without moof boxes *)
Definition moofs_in (items : list open_item) : list moof :=
  flat_map (fun i => match i with OI_moof x => [x] | _ => [] end) items.
Definition oa_moofs (a : open_acc) : list moof := let '(_, _, moofs, _, _) := a in moofs.

Lemma oa_moofs_put_all_at cs : forall p items a, length cs = length items ->
  oa_moofs (open_put_all p cs items a) = oa_moofs a ++ moofs_in items.
Proof.
  induction cs as [|c cs IH]; intros p [|i items] a Hl; try discriminate Hl; cbn [open_put_all moofs_in flat_map].
  - now rewrite app_nil_r.
  - rewrite IH by (cbn [length] in Hl; lia). fold (moofs_in items).
    destruct a as [[[[ft mv] moofs] offs] emsgs]. destruct i; cbn [open_put oa_moofs app]; try reflexivity.
    now rewrite <- app_assoc.
Qed.

Lemma oa_moofs_put_all items : forall a,
  oa_moofs (put_all (open_put 0) items a) = oa_moofs a ++ moofs_in items.
Proof.
  induction items as [|i items IH]; intros a; cbn [moofs_in flat_map].
  - now rewrite app_nil_r.
  - rewrite put_all_cons, IH. fold (moofs_in items).
    destruct a as [[[[ft mv] moofs] offs] emsgs]. destruct i; cbn [open_put oa_moofs app]; try reflexivity.
    now rewrite <- app_assoc.
Qed.

Lemma moofs_in_static items : moofs_in items = [] -> Forall open_static items.
Proof.
  induction items as [|i items IH]; intros H; constructor.
  - destruct i; cbn in H; try discriminate H; exact I.
  - apply IH. destruct i; cbn in H; try discriminate H; exact H.
Qed.

Lemma moofs_in_strip items : moofs_in (map strip_OI items) = moofs_in items.
Proof.
  induction items as [|i items IH]; [reflexivity|]. cbn [map].
  change (moofs_in (strip_OI i :: map strip_OI items))
    with ((match strip_OI i with OI_moof y => [y] | _ => [] end) ++ moofs_in (map strip_OI items)).
  rewrite IH. destruct i; reflexivity.
Qed.

Lemma strip_oa_put_all items : forall a,
  strip_oa (put_all (open_put 0) items a) = put_all (open_put 0) (map strip_OI items) (strip_oa a).
Proof.
  induction items as [|i items IH]; intros a; [reflexivity|].
  cbn [map]. rewrite !put_all_cons, IH. f_equal.
  destruct a as [[[[ft mv] moofs] offs] emsgs]. destruct i; reflexivity.
Qed.

Lemma oa_moofs_strip a : oa_moofs (strip_oa a) = oa_moofs a.
Proof. destruct a as [[[[ft mv] moofs] offs] emsgs]. reflexivity. Qed.

Definition zero_id (t : trak) : bool := tkhd_track_id (trak_tkhd t) =? 0.

Lemma open_result_ok a n r : open_result a n = Ok r -> oa_moofs a = [] ->
  exists f v offs emsgs,
    a = (Some f, Some v, [], offs, emsgs) /\ existsb zero_id (moov_traks v) = false /\
    r = mkReader f v [] emsgs (tracks_collect (moov_traks v)) n.
Proof.
  destruct a as [[[[[f|] [v|]] moofs] offs] emsgs]; cbn [oa_moofs]; intros H E; subst moofs;
    cbn [open_result] in H; try discriminate H.
  fold zero_id in H. destruct (existsb zero_id (moov_traks v)) eqn:Ez; [discriminate H|].
  cbn [res_bind] in H. inversion H. exists f, v, offs, emsgs. auto.
Qed.

Lemma open_result_mk f v offs emsgs n : existsb zero_id (moov_traks v) = false ->
  open_result (Some f, Some v, [], offs, emsgs) n = Ok (mkReader f v [] emsgs (tracks_collect (moov_traks v)) n).
Proof. intros H. cbn [open_result]. fold zero_id. now rewrite H. Qed.

Lemma existsb_zero_id_strip l : existsb zero_id (map strip_trak l) = existsb zero_id l.
Proof. induction l as [|t l IH]; [reflexivity|]. cbn [map existsb]. now rewrite IH. Qed.


Lemma open_result_moofs a n r : open_result a n = Ok r -> rd_moofs r = oa_moofs a.
Proof.
  destruct a as [[[[[f|] [v|]] moofs] offs] emsgs]; cbn [oa_moofs open_result]; intros H; try discriminate H.
  destruct (existsb _ (moov_traks v)); [discriminate H|].
  destruct (match moofs with [] => _ | _ => _ end); try discriminate H.
  cbn [res_bind] in H. inversion H. reflexivity.
Qed.

(** *** the tracks of two movies that differ in their chunk offsets only *)
Definition strip_mt (t : mp4track) : mp4track :=
  mkMp4Track (strip_trak (mt_trak t)) (mt_trafs t) (mt_moof_offsets t) (mt_default_sample_duration t).
Definition strip_ent (p : N * mp4track) : N * mp4track := (fst p, strip_mt (snd p)).

Lemma tracks_insert_strip k v l :
  tracks_insert k (strip_mt v) (map strip_ent l) = map strip_ent (tracks_insert k v l).
Proof.
  unfold tracks_insert. rewrite map_app. f_equal.
  induction l as [|[k' v'] l IH]; [reflexivity|]. cbn [map filter strip_ent fst snd].
  destruct (negb (k' =? k)); cbn [map strip_ent fst snd]; now rewrite IH.
Qed.

Definition tracks_step (acc : list (N * mp4track)) (t : trak) : list (N * mp4track) :=
  tracks_insert (tkhd_track_id (trak_tkhd t)) (mp4track_from t) acc.

Lemma tracks_fold_strip ts : forall acc,
  fold_left tracks_step (map strip_trak ts) (map strip_ent acc) = map strip_ent (fold_left tracks_step ts acc).
Proof.
  induction ts as [|t ts IH]; intros acc; [reflexivity|].
  cbn [map fold_left]. rewrite <- IH. f_equal.
  exact (tracks_insert_strip (tkhd_track_id (trak_tkhd t)) (mp4track_from t) acc).
Qed.

Lemma tracks_collect_strip ts : tracks_collect (map strip_trak ts) = map strip_ent (tracks_collect ts).
Proof. exact (tracks_fold_strip ts []). Qed.

Lemma tracks_get_strip k l : tracks_get k (map strip_ent l) = option_map strip_mt (tracks_get k l).
Proof.
  induction l as [|[k' v] l IH]; [reflexivity|]. cbn [map strip_ent fst snd tracks_get]. rewrite IH.
  destruct (tracks_get k l); cbn [option_map]; [reflexivity|]. destruct (k' =? k); reflexivity.
Qed.

Lemma map_fst_strip l : map fst (map strip_ent l) = map fst l.
Proof. rewrite map_map. apply map_ext. intros [k v]. reflexivity. Qed.

Lemma tracks_get_In k l t : tracks_get k l = Some t -> In (k, t) l.
Proof.
  induction l as [|[k' v] l IH]; cbn [tracks_get]; [discriminate|].
  destruct (tracks_get k l) eqn:E.
  - intros H. inversion H; subst. right. now apply IH.
  - destruct (N.eqb_spec k' k) as [->|]; [|discriminate]. intros H. inversion H. now left.
Qed.

Lemma tracks_fold_from ts : forall acc,
  (forall p, In p acc -> exists tr, snd p = mp4track_from tr) ->
  forall p, In p (fold_left tracks_step ts acc) -> exists tr, snd p = mp4track_from tr.
Proof.
  induction ts as [|t ts IH]; intros acc Hacc p Hp; [now apply Hacc|].
  cbn [fold_left] in Hp. apply (IH (tracks_step acc t)); [|exact Hp].
  intros q Hq. unfold tracks_step, tracks_insert in Hq. apply in_app_or in Hq as [Hq|[<-|[]]].
  - apply filter_In in Hq as [Hq _]. now apply Hacc.
  - now exists t.
Qed.

Lemma tracks_collect_from ts k t : tracks_get k (tracks_collect ts) = Some t -> exists tr, t = mp4track_from tr.
Proof.
  intros H. apply tracks_get_In in H.
  exact (tracks_fold_from ts [] (fun p (F : In p []) => match F with end) (k, t) H).
Qed.

(** the lookup view with other chunk offsets *)
Definition with_offs (t : Track.track) (x y : option (list N)) : Track.track :=
  let tb := Track.tr_tables t in
  Track.mkTrack (Track.tr_id t)
    (Track.mkTables (Track.t_stsc tb) (Track.t_stsz_size tb) (Track.t_stsz_count tb) (Track.t_stsz_sizes tb)
                    x y (Track.t_stts tb) (Track.t_ctts tb) (Track.t_stss tb))
    (Track.tr_frags t) (Track.tr_default_sample_duration t).

Lemma track_view_strip ta tb : strip_mt ta = strip_mt tb ->
  exists x y, track_view tb = with_offs (track_view ta) x y.
Proof.
  destruct ta as [[tk ed me [mdh hd [vm sm di [sd ts ct ss sc sz co c6]]]] trf offs dsd].
  destruct tb as [[tk' ed' me' [mdh' hd' [vm' sm' di' [sd' ts' ct' ss' sc' sz' co' c6']]]] trf' offs' dsd'].
  unfold strip_mt, strip_trak, strip_mdia, strip_minf, strip_stbl.
  cbn [mt_trak mt_trafs mt_moof_offsets mt_default_sample_duration trak_tkhd trak_edts trak_meta trak_mdia
       mdia_mdhd mdia_hdlr mdia_minf minf_vmhd minf_smhd minf_dinf minf_stbl
       stbl_stsd stbl_stts stbl_ctts stbl_stss stbl_stsc stbl_stsz stbl_stco stbl_co64].
  intros H. inversion H; subst.
  exists (option_map stco_entries co'), (option_map co64_entries c6'). reflexivity.
Qed.

Lemma with_offs_lookups t x y :
  Track.sample_count (with_offs t x y) = Track.sample_count t /\
  forall sid,
    Track.sample_size (with_offs t x y) sid = Track.sample_size t sid /\
    Track.sample_time m (with_offs t x y) sid = Track.sample_time m t sid /\
    Track.sample_rendering_offset (with_offs t x y) sid = Track.sample_rendering_offset t sid /\
    Track.is_sync_sample (with_offs t x y) sid = Track.is_sync_sample t sid.
Proof. repeat split; reflexivity. Qed.

(** ** The theorem *)

(** the conclusion of [C12_statement], for the two files [A] and [B] *)
Definition C12_conclusion (A B : bytes) (ra : mp4reader) : Prop :=
  exists rb,
    opens m B rb /\
    rd_ftyp rb = rd_ftyp ra /\ rd_emsgs rb = rd_emsgs ra /\ rd_moofs rb = [] /\
    rd_metadata rb = rd_metadata ra /\
    strip_chunk_offsets (rd_moov rb) = strip_chunk_offsets (rd_moov ra) /\
    map fst (rd_tracks rb) = map fst (rd_tracks ra) /\
    rd_size ra = lenN A /\ rd_size rb = lenN B /\
    forall tid ta tb,
      tracks_get tid (rd_tracks ra) = Some ta -> tracks_get tid (rd_tracks rb) = Some tb ->
      Track.sample_count (track_view tb) = Track.sample_count (track_view ta) /\
      (forall sid,
         Track.sample_size (track_view tb) sid = Track.sample_size (track_view ta) sid /\
         Track.sample_time m (track_view tb) sid = Track.sample_time m (track_view ta) sid /\
         Track.sample_rendering_offset (track_view tb) sid = Track.sample_rendering_offset (track_view ta) sid /\
         Track.is_sync_sample (track_view tb) sid = Track.is_sync_sample (track_view ta) sid) /\
      (forall delta,
         Track.tr_tables (track_view tb) = shift_tables delta (Track.tr_tables (track_view ta)) ->
         forall sid o, Track.sample_offset m (track_view ta) sid = Ok o -> o + delta < U64 ->
           Track.sample_offset m (track_view tb) sid = Ok (o + delta) /\
           forall sz h,
             Track.sample_size (track_view ta) sid = Ok sz ->
             (sz = 0 \/ (exists r, splitN sz (dropN o A) = Some (h, r)) /\
                        (exists r', splitN sz (dropN (o + delta) B) = Some (h, r'))) ->
             fst (run (rd_read_sample m ra tid sid) (stream_at A 0))
             = fst (run (rd_read_sample m rb tid sid) (stream_at B 0))).

Theorem C12_layout_independence_canonical TA TB ra :
  good TA -> clos_refl_sym_trans _ cstep TA TB ->
  opens m (file_of TA) ra -> rd_moofs ra = [] ->
  C12_conclusion (file_of TA) (file_of TB) ra.
Proof.
  intros gA Hc [f0 Hopen] Hmoofs.
  destruct (cstep_rel TA TB Hc) as [Iff R]. assert (gB : good TB) by tauto.
  specialize (R gA).
  destruct gA as (WA & LA & (iA & SA)). destruct gB as (WB & LB & (iB & SB)).
  specialize (R iA iB SA SB).
  destruct (open_canon TA iA WA LA SA) as (FA & HA). destruct (open_canon TB iB WB LB SB) as (FB & HB).
  set (A := file_of TA) in *. set (B := file_of TB) in *.
  (* [ra] is the fold of the items of A *)
  assert (EA : open_result (open_put_all 0 (map bt_child TA) iA open_acc0) (lenN A) = Ok ra).
  { rewrite <- (HA (Nat.max f0 FA) (Nat.le_max_r _ _)).
    rewrite (open_fuel_more m _ f0 (Nat.max f0 FA) _ (Nat.le_max_l _ _)); [exact Hopen|].
    rewrite Hopen. discriminate. }
  assert (LenA : length (map bt_child TA) = length iA)
    by (rewrite map_length; exact (Forall2_len _ _ _ SA)).
  assert (LenB : length (map bt_child TB) = length iB)
    by (rewrite map_length; exact (Forall2_len _ _ _ SB)).
  (* no moof among the items of A *)
  assert (MA : moofs_in iA = []).
  { pose proof (oa_moofs_put_all_at (map bt_child TA) 0 iA open_acc0 LenA) as E.
    rewrite <- (open_result_moofs _ _ _ EA), Hmoofs in E. exact (eq_sym E). }
  rewrite (open_put_all_static 0 _ iA _ LenA (moofs_in_static _ MA)) in EA.
  assert (ES : strip_oa (put_all (open_put 0) iA open_acc0) = strip_oa (put_all (open_put 0) iB open_acc0))
    by (rewrite !strip_oa_put_all; exact (R (strip_oa open_acc0))).
  (* ... nor of B *)
  assert (MB : moofs_in iB = []).
  { pose proof (oa_moofs_put_all iB open_acc0) as E. cbn [oa_moofs open_acc0 app] in E.
    rewrite <- E, <- oa_moofs_strip, <- ES, oa_moofs_strip, oa_moofs_put_all, MA. reflexivity. }
  rewrite (open_put_all_static 0 _ iB _ LenB (moofs_in_static _ MB)) in HB.
  assert (HmA : oa_moofs (put_all (open_put 0) iA open_acc0) = [])
    by (rewrite oa_moofs_put_all, MA; reflexivity).
  destruct (open_result_ok _ _ ra EA HmA) as (f & vA & offs & emsgs & EaccA & ZA & Era).
  rewrite EaccA in ES.
  destruct (put_all (open_put 0) iB open_acc0) as [[[[ftB mvB] moofsB] offsB] emsgsB] eqn:EaccB.
  cbn [strip_oa option_map] in ES. inversion ES as [[Hf Hv Hmf Hof Hem]]. clear ES.
  destruct mvB as [vB|]; [|discriminate Hv]. cbn [option_map] in Hv.
  pose proof (f_equal (fun o => match o with Some x => x | None => strip_moov vA end) Hv) as Hs.
  cbn beta iota in Hs. clear Hv.
  subst ftB moofsB offsB emsgsB.
  assert (ZB : existsb zero_id (moov_traks vB) = false).
  { rewrite <- existsb_zero_id_strip. change (map strip_trak (moov_traks vB)) with (moov_traks (strip_moov vB)).
    rewrite <- Hs. cbn [strip_moov moov_traks]. now rewrite existsb_zero_id_strip. }
  assert (Htr : map strip_ent (tracks_collect (moov_traks vA)) = map strip_ent (tracks_collect (moov_traks vB))).
  { rewrite <- !tracks_collect_strip.
    change (map strip_trak (moov_traks vA)) with (moov_traks (strip_moov vA)).
    change (map strip_trak (moov_traks vB)) with (moov_traks (strip_moov vB)). now rewrite Hs. }
  exists (mkReader f vB [] emsgs (tracks_collect (moov_traks vB)) (lenN B)).
  subst ra. cbn [rd_ftyp rd_moov rd_moofs rd_emsgs rd_tracks rd_size].
  split; [|split; [|split; [|split; [|split; [|split; [|split; [|split; [|split]]]]]]]]; try reflexivity.
  - exists FB. rewrite (HB FB (Nat.le_refl _)). now apply open_result_mk.
  - unfold rd_metadata. cbn [rd_moov].
    assert (E : moov_udta (strip_moov vB) = moov_udta (strip_moov vA)) by (now rewrite Hs).
    cbn [strip_moov moov_udta] in E. now rewrite E.
  - rewrite <- (strip_moov_eq vA), <- (strip_moov_eq vB). now rewrite Hs.
  - rewrite <- (map_fst_strip (tracks_collect (moov_traks vB))), <- Htr. apply map_fst_strip.
  - intros tid ta tb Hta Htb.
    assert (Hst : strip_mt ta = strip_mt tb).
    { assert (E : option_map strip_mt (tracks_get tid (tracks_collect (moov_traks vA)))
                  = option_map strip_mt (tracks_get tid (tracks_collect (moov_traks vB))))
        by (rewrite <- (tracks_get_strip tid (tracks_collect (moov_traks vA))),
                    <- (tracks_get_strip tid (tracks_collect (moov_traks vB))), Htr; reflexivity).
      rewrite Hta, Htb in E. cbn [option_map] in E.
      exact (f_equal (fun o => match o with Some x => x | None => strip_mt ta end) E). }
    destruct (tracks_collect_from _ _ _ Hta) as (tra & ->).
    destruct (track_view_strip _ _ Hst) as (x & y & EV).
    assert (Hfr : Track.tr_frags (track_view (mp4track_from tra)) = []) by reflexivity.
    set (va := track_view (mp4track_from tra)) in *.
    rewrite EV. split; [|split].
    + apply with_offs_lookups.
    + apply with_offs_lookups.
    + intros delta Htab sid o Hoff Hod.
      assert (Esh : with_offs va x y = shift_track delta va).
      { unfold with_offs, shift_track. cbn [with_offs Track.tr_tables] in Htab. now rewrite Htab. }
      rewrite Esh. split; [now apply sample_offset_shift|].
      intros sz h Hsz Hbytes. unfold rd_read_sample. cbn [rd_tracks]. rewrite Hta, Htb, EV, Esh.
      apply (read_sample_shift m delta va sid (stream_at A 0) (stream_at B 0) o sz h);
        first [assumption | apply stream_at_wf].
Qed.

End WithMode.

(** [C12_conclusion] is, word for word, the conclusion of [C12_statement] *)
Lemma C12_statement_unfolded :
  C12_statement <->
  (forall m TA TB ra,
     Forall bt_wf TA -> Forall bt_wf TB ->
     Forall (bt_leaves meta_tight) TA -> Forall (bt_leaves meta_tight) TB ->
     clos_refl_sym_trans _ (lstep open_known) TA TB ->
     opens m (file_of TA) ra -> rd_moofs ra = [] ->
     C12_conclusion m (file_of TA) (file_of TB) ra).
Proof. split; intros H; exact H. Qed.

Print Assumptions C12_layout_independence_canonical.
Print Assumptions C12_statement_unfolded.
