(** Round trip of [SmhdBox] *)
From MP4 Require Import Kit BoxSmhd IsoSmhd.
From Coq Require Import ZifyN ZifyNat ZifyBool.
Open Scope string_scope.
Open Scope list_scope.
Open Scope N_scope.

Lemma smhd_code : u32_of_boxtype (box_type_of "SmhdBox") = 0x736d6864.
Proof. vm_compute. reflexivity. Qed.

Lemma smhd_size_eq v : smhd_size v = 16.
Proof. reflexivity. Qed.

Lemma smhd_enc v : smhd_wf v = true ->
  wfin (enc_smhd v) = Ok (smhd_size v) /\
  wout (enc_smhd v) = be 4 (smhd_size v) ++ be 4 0x736d6864 ++ iso_smhd_payload v.
Proof.
  intros H. unfold enc_smhd, iso_smhd_payload.
  unfold smhd_wf in H. split_andb.
  rewrite write_header_small by (rewrite smhd_size_eq; reflexivity).
  rewrite smhd_code.
  rewrite write_header_ext_small by assumption.
  enc_norm. split; [reflexivity|].
  rewrite <- ?app_assoc. reflexivity.
Qed.

Lemma smhd_dec m v d l p post : smhd_wf v = true -> p + smhd_size v < 2^63 ->
  run (dec_smhd m (smhd_size v)) (mkStream d l (p + 8) (iso_smhd_payload v ++ post))
  = (Ok v, mkStream d l (p + smhd_size v) post).
Proof.
  intros H Hp. unfold dec_smhd, iso_smhd_payload.
  unfold smhd_wf in H. split_andb.
  pose proof (smhd_size_eq v) as Hsz.
  change (of_signed 16) with (of_signed (8 * N.of_nat 2)).
  rewrite <- !app_assoc.
  prog_norm. cbn [run s_pos].
  rewrite run_sub64_ok by (clear; unfold HEADER_SIZE, Tables.HEADER_SIZE; lia).
  do 3 rd_step.
  rewrite run_add64_ok by (clear -Hsz Hp; unfold HEADER_SIZE, Tables.HEADER_SIZE, U64; lia).
  prog_norm.
  (* the reserved u16 is stepped over by [skip_bytes_to] *)
  rewrite run_SeekTo_fwd by (clear -Hsz; unfold HEADER_SIZE, Tables.HEADER_SIZE; lia).
  rewrite (dropN_app_n _ (be 2 0) post)
    by (rewrite lenN_be; clear -Hsz; unfold HEADER_SIZE, Tables.HEADER_SIZE; lia).
  cbn [run]. f_equal.
  - destruct v; reflexivity.
  - f_equal. clear -Hsz. unfold HEADER_SIZE, Tables.HEADER_SIZE. lia.
Qed.

Lemma smhd_payload_len v : lenN (iso_smhd_payload v) + 8 = smhd_size v.
Proof.
  rewrite smhd_size_eq. unfold iso_smhd_payload.
  rewrite ?lenN_app, ?lenN_be. reflexivity.
Qed.

Lemma smhd_appender v : smhd_wf v = true -> smhd_size v < U32 -> appender (enc_smhd v).
Proof.
  intros H Hs. unfold enc_smhd. rewrite write_header_small by exact Hs.
  unfold smhd_wf in H. split_andb.
  rewrite write_header_ext_small by assumption.
  cbn [wbind appender wr wr_u8 wr_u16 wr_u32 wr_u64 wr_u wr_i16 wr_i32 wr_i]. exact I.
Qed.

Theorem smhd_roundtrip : leaf_roundtrip smhd_wf smhd_size 0x736d6864 enc_smhd dec_smhd iso_smhd_payload.
Proof.
  intros v H Hs. destruct (smhd_enc v H) as [H1 H2].
  split; [exact H1|]. split; [now apply smhd_appender|]. split; [exact H2|].
  split; [now apply smhd_payload_len|].
  intros m d l p post Hp. now apply smhd_dec.
Qed.

Print Assumptions smhd_roundtrip.
