(** * Sample lookup from BYTES, for any movie whose sample tables are mutually consistent
    (property C03 at the level of files)

    [Props/C03.v] starts from a table set [tb] with [consistent tb = true] and speaks of the lookup model on the
    track [track_of tb].  This file starts from the BYTES of a file

        ftyp ; moov ; mdat        or        ftyp ; mdat ; moov

    (each box in either header form, any media payload) whose [moov] is the ISO rendering of ANY movie value [v]
    that the wire format can carry ([moov_rt_wf], [moov_size v < 2^32]), with distinct non-zero track ids and
    [consistent] sample tables in every track.  It proves that [open_fuel] (the model of [Mp4Reader::read_header])
    on those bytes returns a reader whose movie IS [v], whose track map lists exactly the track ids of [v], and whose
    calls [sample_count], [sample_offset], [read_sample] return, for every track, what the sample-table specification
    [Spec/SampleTable.v] defines on the tables of that track, with the sample bytes cut from the file.

    The bridge between the two levels: [moov_rt_wf v] contains [stsc_first_ok] for every stsc box, i.e. the
    [first_sample] fields of [v] are the ones the decoder derives, so [derive_first_samples] is the identity on
    them and the view [track_view (mp4track_from t)] is [track_of tb] up to the track id (which no lookup reads). *)
From MP4 Require Import MuxMoovDefs MuxMoovTables MuxOpenKit LayoutOpenS LookupProofs.
From MP4 Require Import LayoutKit LayoutProofs LayoutMore LayoutOpen KitCont RtMoov RtFtyp IsoFtyp IsoMoov RtStbl RtMinf RtMdia RtTrak RtIlst RtMeta RtUdta.
From Coq Require Import Lia ZifyN ZifyNat ZifyBool.
Open Scope string_scope.
Open Scope list_scope.
Open Scope N_scope.

(** ** The stsc entries of a well-formed movie carry the derived [first_sample] values *)
Definition entry_of_ent (e : stsc_ent) : stsc_entry :=
  Track.mkStsc (stsc_e_first_chunk e) (stsc_e_samples_per_chunk e)
               (stsc_e_sample_description_index e) (stsc_e_first_sample e).

Lemma stbl_tables_stsc s : t_stsc (stbl_tables s) = map entry_of_ent (stsc_entries (stbl_stsc s)).
Proof. reflexivity. Qed.

Lemma first_ok_derive : forall es sid, stsc_first_ok es sid = true ->
  derive_first_samples (map entry_of_ent es) sid = Some (map entry_of_ent es).
Proof.
  induction es as [|e t IH]; intros sid H; [reflexivity|].
  destruct t as [|nx t'].
  - cbn [stsc_first_ok] in H. rewrite andb_true_r in H. apply N.eqb_eq in H.
    cbn [map derive_first_samples]. unfold entry_of_ent. cbn [sc_first_chunk sc_samples_per_chunk sc_sample_description_index].
    rewrite H. reflexivity.
  - rewrite stsc_first_ok_cons2 in H. apply andb_true_iff in H as [H1 H2]. apply N.eqb_eq in H1.
    destruct (stsc_next_id e nx sid) as [sid'|] eqn:En; [|discriminate H2].
    specialize (IH sid' H2).
    unfold stsc_next_id in En.
    change (map entry_of_ent (e :: nx :: t')) with (entry_of_ent e :: entry_of_ent nx :: map entry_of_ent t').
    rewrite lk_derive_cons2.
    change (sc_first_chunk (entry_of_ent nx)) with (stsc_e_first_chunk nx).
    change (sc_first_chunk (entry_of_ent e)) with (stsc_e_first_chunk e).
    change (sc_samples_per_chunk (entry_of_ent e)) with (stsc_e_samples_per_chunk e).
    destruct (checked_sub (stsc_e_first_chunk nx) (stsc_e_first_chunk e)) as [a|]; [|discriminate En].
    destruct (checked_mul U32 a (stsc_e_samples_per_chunk e)) as [b|]; [|discriminate En].
    rewrite En.
    change (entry_of_ent nx :: map entry_of_ent t') with (map entry_of_ent (nx :: t')).
    rewrite IH. unfold lk_with_fs, entry_of_ent at 1.
    cbn [sc_first_chunk sc_samples_per_chunk sc_sample_description_index]. rewrite <- H1. reflexivity.
Qed.

Lemma trak_rt_wf_first_ok t : trak_rt_wf t = true ->
  stsc_first_ok (stsc_entries (stbl_stsc (minf_stbl (mdia_minf (trak_mdia t))))) 1 = true.
Proof.
  intros H. unfold trak_rt_wf in H. apply andb_true_iff in H as [_ H].
  unfold mdia_rt_wf in H. apply andb_true_iff in H as [_ H].
  unfold minf_rt_wf in H. apply andb_true_iff in H as [_ H].
  rewrite stbl_rt_wf_split in H. apply andb_true_iff in H as [_ H].
  unfold stbl_tables_wf in H.
  do 4 (apply andb_true_iff in H; destruct H as [H _]).
  apply andb_true_iff in H as [_ H].
  unfold stsc_wf in H. apply andb_true_iff in H as [_ H]. exact H.
Qed.

Lemma lk_tables_of_self tb : lk_tables_of tb (t_stsc tb) = tb.
Proof. destruct tb; reflexivity. Qed.

(** the tables of a trak as the lookups see them *)
Definition trak_tables (t : trak) : tables := stbl_tables (minf_stbl (mdia_minf (trak_mdia t))).

(** the reader's view of a trak of a well-formed movie is the track C03 speaks of, up to the id *)
Lemma trak_view_is_track_of t : trak_rt_wf t = true ->
  lk_track_of (trak_tables t) = Some (mkTrack 1 (trak_tables t) [] 0) /\
  track_view (mp4track_from t) = with_id (trak_id t) (mkTrack 1 (trak_tables t) [] 0).
Proof.
  intros H. split; [|reflexivity].
  unfold lk_track_of. unfold trak_tables at 1. rewrite stbl_tables_stsc.
  rewrite (first_ok_derive _ 1 (trak_rt_wf_first_ok t H)).
  rewrite <- stbl_tables_stsc. fold (trak_tables t). rewrite lk_tables_of_self. reflexivity.
Qed.

(** ** One track: every lookup on the reader's view follows the specification *)
Lemma trak_lookup m t : trak_rt_wf t = true -> consistent (trak_tables t) = true ->
  let tb := trak_tables t in
  let tv := track_view (mp4track_from t) in
  sample_count tv = t_stsz_count tb /\
  (forall k, 1 <= k <= t_stsz_count tb ->
     exists off sz dl ct,
       spec_offset tb k = Some off /\ spec_size tb k = Some sz /\
       spec_delta tb k = Some dl /\ spec_cts tb k = Some ct /\
       sample_offset m tv k = Ok off /\ sample_size tv k = Ok sz /\
       sample_time m tv k = Ok (spec_start tb k, dl) /\
       sample_rendering_offset tv k = ct /\
       is_sync_sample tv k = Ok (spec_sync tb k) /\
       forall data pos, off + sz <= lenN data ->
         exists s',
           run (read_sample m tv k) (stream_at data pos) =
             (Ok (Some (mkSample (spec_start tb k) dl ct (spec_sync tb k)
                                 (firstn (N.to_nat sz) (skipn (N.to_nat off) data)))), s')
           /\ s_data s' = data /\ s_pos s' = off + sz) /\
  (forall k, k = 0 \/ t_stsz_count tb < k ->
     forall s, match fst (run (read_sample m tv k) s) with
               | Ok (Some _) => False
               | Panic _ => False
               | _ => True
               end).
Proof.
  intros Hw Hc tb tv.
  destruct (trak_view_is_track_of t Hw) as (Htr & Hview).
  destruct (lk_lookup_sound m (trak_tables t) Hc) as (t0 & Ht0 & Hcnt & Hin & Hout).
  rewrite Htr in Ht0. injection Ht0 as <-.
  unfold tv. rewrite Hview. fold tb in Hcnt, Hin, Hout |- *.
  split; [rewrite sample_count_with_id; exact Hcnt|]. split.
  - intros k Hk.
    destruct (Hin k Hk) as (off & sz & dl & ct & H1 & H2 & H3 & H4 & H5 & H6 & H7 & H8 & H9).
    exists off, sz, dl, ct.
    rewrite sample_offset_with_id, sample_size_with_id, sample_time_with_id, sample_rendering_offset_with_id,
      is_sync_sample_with_id.
    repeat (split; [assumption|]).
    intros data pos Hlen. rewrite read_sample_with_id. subst ct. now apply lk_run_read.
  - intros k Hk s. rewrite read_sample_with_id. exact (Hout k Hk s).
Qed.

(** ** The reader [open_fuel] returns for a non-fragmented file *)
Definition reader_of (ft : ftyp) (v : moov) (emsgs : list emsg) (size : N) : mp4reader :=
  mkReader ft v [] emsgs (map (fun t => (trak_id t, mp4track_from t)) (moov_traks v)) size.

Lemma reader_of_get ft v emsgs size : NoDup (map trak_id (moov_traks v)) ->
  forall t, In t (moov_traks v) ->
    tracks_get (trak_id t) (rd_tracks (reader_of ft v emsgs size)) = Some (mp4track_from t).
Proof.
  intros Hnd t Hin. apply In_nth_error in Hin as (i & Hi). unfold reader_of. cbn [rd_tracks].
  exact (tracks_get_map_nodup _ Hnd i t Hi).
Qed.

Lemma reader_of_ids ft v emsgs size :
  map fst (rd_tracks (reader_of ft v emsgs size)) = map trak_id (moov_traks v).
Proof. unfold reader_of. cbn [rd_tracks]. rewrite map_map. reflexivity. Qed.

(** any top-level layout whose children decode to one ftyp, one moov, no moof: [open_fuel] on exactly the
    rendered bytes returns [reader_of] and leaves the stream at the end *)
Lemma open_rendered m fuel cs items F0 ft v emsgs :
  Forall2 (decodes_to_s (open_body m) F0) cs items -> Forall child_wf cs ->
  (F0 + length cs <= fuel)%nat -> lenN (render cs) < 2 ^ 63 ->
  open_put_all 0 cs items (None, None, [], [], []) = (Some ft, Some v, [], [], emsgs) ->
  NoDup (map trak_id (moov_traks v)) -> ~ In 0 (map trak_id (moov_traks v)) ->
  let b := render cs in
  run (open_fuel fuel m (lenN b)) (stream_at b 0)
  = (Ok (reader_of ft v emsgs (lenN b)), stream_at b (lenN b)).
Proof.
  intros H2 Hwf Hf Hlen Hput Hnd Hn0 b.
  pose proof (open_fuel_children_s m fuel cs items F0 b (lenN b) 0 [] H2 Hwf Hf) as Hopen.
  rewrite N.add_0_l, app_nil_r in Hopen. unfold b in Hopen at 1 3 5. rewrite lenN_render in Hlen. 
  rewrite <- lenN_render in Hopen. fold b in Hopen.
  unfold stream_at. rewrite dropN_0. rewrite Hopen; clear Hopen.
  - f_equal.
    + rewrite Hput. cbn [open_result].
      assert (Hex : existsb (fun t => tkhd_track_id (trak_tkhd t) =? 0) (moov_traks v) = false).
      { apply Bool.not_true_is_false. intros E. apply existsb_exists in E as (t & Hin & Et).
        apply N.eqb_eq in Et. apply Hn0. rewrite <- Et. apply (in_map trak_id). exact Hin. }
      rewrite Hex. cbn [res_bind]. rewrite tracks_collect_nodup by exact Hnd. reflexivity.
    + f_equal. symmetry. apply dropN_all. lia.
  - unfold b. rewrite lenN_render. exact Hlen.
  - rewrite dropN_0. reflexivity.
Qed.

(** ** The two usual layouts: ftyp, then moov and mdat in either order, each box in either header form *)
Definition file_children (mdat_first wf wv wd : bool) (ft : ftyp) (v : moov) (media : bytes) : list child :=
  let cf := mkChild wf 0x66747970 (iso_ftyp_payload ft) in
  let cv := mkChild wv 0x6d6f6f76 (iso_moov_payload v) in
  let cd := mkChild wd 0x6d646174 media in
  if mdat_first then [cf; cd; cv] else [cf; cv; cd].

Definition file_items (mdat_first : bool) (ft : ftyp) (v : moov) : list open_item :=
  if mdat_first then [OI_ftyp ft; OI_skip; OI_moov v] else [OI_ftyp ft; OI_moov v; OI_skip].

Lemma file_children_decode m mdat_first wf wv wd ft v media :
  ftyp_wf ft = true -> ftyp_size ft < U32 -> moov_rt_wf v = true -> moov_size v < U32 ->
  child_wf (mkChild wd 0x6d646174 media) ->
  Forall2 (decodes_to_s (open_body m) (moov_fuel v)) (file_children mdat_first wf wv wd ft v media) (file_items mdat_first ft v)
  /\ Forall child_wf (file_children mdat_first wf wv wd ft v media)
  /\ length (file_children mdat_first wf wv wd ft v media) = 3%nat
  /\ open_put_all 0 (file_children mdat_first wf wv wd ft v media) (file_items mdat_first ft v) (None, None, [], [], [])
     = (Some ft, Some v, [], [], []).
Proof.
  intros Fw Fs Vw Vs Hd.
  destruct (ftyp_roundtrip ft Fw Fs) as (_ & _ & _ & Fplen & _).
  destruct (moov_roundtrip m v Vw Vs) as (_ & _ & _ & Vplen & _).
  assert (Df : decodes_to_s (open_body m) (moov_fuel v) (mkChild wf 0x66747970 (iso_ftyp_payload ft)) (OI_ftyp ft)).
  { apply decodes_to_s_mono with (F0 := 0%nat); [lia|]. apply decodes_to_s_of. now apply open_child_ftyp. }
  assert (Dd : decodes_to_s (open_body m) (moov_fuel v) (mkChild wd 0x6d646174 media) OI_skip).
  { apply decodes_to_s_mono with (F0 := 0%nat); [lia|]. apply decodes_to_s_of. apply open_child_mdat. }
  assert (Dv : decodes_to_s (open_body m) (moov_fuel v) (mkChild wv 0x6d6f6f76 (iso_moov_payload v)) (OI_moov v)).
  { apply (open_child_moov_rt m wv m); assumption. }
  assert (Wf : child_wf (mkChild wf 0x66747970 (iso_ftyp_payload ft))).
  { unfold child_wf. cbn [c_w64 c_code c_payload]. split; [vm_compute; reflexivity|].
    unfold U32, U64 in *. destruct wf; clear -Fplen Fs; lia. }
  assert (Wv : child_wf (mkChild wv 0x6d6f6f76 (iso_moov_payload v))).
  { unfold child_wf. cbn [c_w64 c_code c_payload]. split; [vm_compute; reflexivity|].
    unfold U32, U64 in *. destruct wv; clear -Vplen Vs; lia. }
  unfold file_children, file_items. destruct mdat_first.
  - split; [repeat (constructor; [assumption|]); constructor|].
    split; [repeat (constructor; [assumption|]); constructor|].
    split; reflexivity.
  - split; [repeat (constructor; [assumption|]); constructor|].
    split; [repeat (constructor; [assumption|]); constructor|].
    split; reflexivity.
Qed.

(** ** From bytes to the specification *)
Theorem file_lookup m m' (mdat_first wf wv wd : bool) (ft : ftyp) (v : moov) (media : bytes) :
  ftyp_wf ft = true -> ftyp_size ft < U32 -> moov_rt_wf v = true -> moov_size v < U32 ->
  NoDup (map trak_id (moov_traks v)) -> ~ In 0 (map trak_id (moov_traks v)) ->
  (forall t, In t (moov_traks v) -> consistent (trak_tables t) = true) ->
  let b := render (file_children mdat_first wf wv wd ft v media) in
  lenN b < 2 ^ 63 -> child_wf (mkChild wd 0x6d646174 media) ->
  exists r,
    (forall fuel, (moov_fuel v + 3 <= fuel)%nat ->
       run (open_fuel fuel m (lenN b)) (stream_at b 0) = (Ok r, stream_at b (lenN b))) /\
    rd_ftyp r = ft /\ rd_moov r = v /\ rd_moofs r = [] /\ rd_emsgs r = [] /\ rd_size r = lenN b /\
    map fst (rd_tracks r) = map trak_id (moov_traks v) /\
    (forall tid, ~ In tid (map trak_id (moov_traks v)) -> rd_sample_count r tid = Err EData) /\
    forall t, In t (moov_traks v) ->
      let tb := trak_tables t in
      rd_sample_count r (trak_id t) = Ok (t_stsz_count tb) /\
      (forall k, 1 <= k <= t_stsz_count tb ->
         exists off sz dl ct,
           spec_offset tb k = Some off /\ spec_size tb k = Some sz /\
           spec_delta tb k = Some dl /\ spec_cts tb k = Some ct /\
           rd_sample_offset m' r (trak_id t) k = Ok off /\
           forall pos, off + sz <= lenN b ->
             fst (run (rd_read_sample m' r (trak_id t) k) (stream_at b pos)) =
               Ok (Some (mkSample (spec_start tb k) dl ct (spec_sync tb k)
                                  (firstn (N.to_nat sz) (skipn (N.to_nat off) b))))) /\
      (forall k, k = 0 \/ t_stsz_count tb < k ->
         forall st, match fst (run (rd_read_sample m' r (trak_id t) k) st) with
                    | Ok (Some _) => False
                    | Panic _ => False
                    | _ => True
                    end).
Proof.
  intros Fw Fs Vw Vs Hnd Hn0 Hcons b Hlen Hd.
  destruct (file_children_decode m mdat_first wf wv wd ft v media Fw Fs Vw Vs Hd) as (H2 & Hwf & Hl3 & Hput).
  exists (reader_of ft v [] (lenN b)).
  split.
  { intros fuel Hfuel. apply (open_rendered m fuel _ (file_items mdat_first ft v) (moov_fuel v) ft v []); try assumption.
    rewrite Hl3. lia. }
  split; [reflexivity|]. split; [reflexivity|]. split; [reflexivity|]. split; [reflexivity|]. split; [reflexivity|].
  split; [apply reader_of_ids|].
  split.
  { intros tid Hnin. unfold rd_sample_count, reader_of. cbn [rd_tracks].
    rewrite (tracks_get_map_none _ _ Hnin). reflexivity. }
  intros t Hin tb.
  pose proof (reader_of_get ft v [] (lenN b) Hnd t Hin) as Hget.
  assert (Hw : trak_rt_wf t = true).
  { unfold moov_rt_wf in Vw. apply andb_true_iff in Vw as [Vw _]. apply andb_true_iff in Vw as [_ Vw].
    rewrite forallb_forall in Vw. exact (Vw t Hin). }
  destruct (trak_lookup m' t Hw (Hcons t Hin)) as (Hcnt & Hk & Hout). fold tb in Hcnt, Hk, Hout.
  unfold rd_sample_count, rd_sample_offset, rd_read_sample. rewrite Hget.
  split; [rewrite Hcnt; reflexivity|]. split.
  - intros k Hr. destruct (Hk k Hr) as (off & sz & dl & ct & H1 & H3 & H4 & H5 & H6 & _ & _ & _ & _ & Hread).
    exists off, sz, dl, ct. repeat (split; [assumption|]).
    intros pos Hfit. destruct (Hread b pos Hfit) as (s' & E & _). rewrite E. reflexivity.
  - exact Hout.
Qed.

(** ** The fuel the drivers hand to [open_fuel] ([|data| + 2]) is enough: the fuel a movie needs is bounded by its
    size (every box counted by a fuel term is at least 8 bytes long) *)
Lemma sumN_len_le {A} (f : A -> N) c l : (forall x, c <= f x) -> c * lenN l <= sumN (map f l).
Proof.
  intros H. induction l as [|x l IH]; [unfold lenN; cbn [length map]; change (sumN []) with 0; lia|].
  cbn [map]. change (sumN (f x :: map f l)) with (f x + sumN (map f l)).
  replace (lenN (x :: l)) with (1 + lenN l) by (unfold lenN; cbn [length]; lia).
  specialize (H x). lia.
Qed.

Lemma meta_fuel_le_size x : N.of_nat (meta_fuel x) + 9 <= meta_size x.
Proof.
  unfold meta_fuel, meta_size. hdr_consts. destruct x as [[i|]|h d].
  - unfold ilst_fuel, ilst_size. hdr_consts.
    pose proof (sumN_len_le (fun p : mkey * ilst_item => ilst_item_size (snd p)) 8 (ilst_items i)) as H.
    assert (H8 : forall x : mkey * ilst_item, 8 <= ilst_item_size (snd x)).
    { intros x. unfold ilst_item_size. hdr_consts. lia. }
    specialize (H H8). unfold lenN in H. lia.
  - lia.
  - pose proof (sumN_len_le (fun p : boxtype * bytes => lenN (snd p) + 8) 8 d) as H.
    assert (H8 : forall x : boxtype * bytes, 8 <= lenN (snd x) + 8) by (intros x; lia).
    specialize (H H8). unfold lenN in H at 1.
    match goal with |- context [sumN ?l] => assert (H' : 8 * N.of_nat (length d) <= sumN l) by exact H end.
    clear H. lia.
Qed.

Lemma trak_fuel_le_size t : N.of_nat (trak_fuel t) + 1 <= trak_size t.
Proof.
  unfold trak_fuel, trak_size, tkhd_size. hdr_consts.
  destruct (trak_meta t) as [x|].
  - pose proof (meta_fuel_le_size x). lia.
  - lia.
Qed.

Lemma traks_fuel_le_size ts :
  N.of_nat (length ts + list_max (map trak_fuel ts)) <= sumN (map trak_size ts).
Proof.
  induction ts as [|t ts IH]; [cbn [length map list_max fold_right]; change (sumN []) with 0; lia|].
  cbn [map list_max length fold_right]. change (sumN (trak_size t :: map trak_size ts)) with (trak_size t + sumN (map trak_size ts)).
  pose proof (trak_fuel_le_size t). change (fold_right Nat.max 0%nat (map trak_fuel ts)) with (list_max (map trak_fuel ts)) in *.
  lia.
Qed.

Lemma moov_fuel_le_size v : N.of_nat (moov_fuel v) <= moov_size v.
Proof.
  unfold moov_fuel, moov_size, mvhd_size. hdr_consts.
  pose proof (traks_fuel_le_size (moov_traks v)) as Ht.
  assert (Hm : N.of_nat (match moov_meta v with Some x => meta_fuel x | None => 0 end)
               <= match moov_meta v with Some x => meta_size x | None => 0 end).
  { destruct (moov_meta v) as [x|]; [pose proof (meta_fuel_le_size x)|]; lia. }
  assert (Hu : N.of_nat (match moov_udta v with Some x => udta_fuel x | None => 0 end)
               <= match moov_udta v with Some x => udta_size x | None => 0 end).
  { destruct (moov_udta v) as [x|]; [|lia]. unfold udta_fuel, udta_size. hdr_consts.
    destruct (udta_meta x) as [y|]; [pose proof (meta_fuel_le_size y)|]; lia. }
  lia.
Qed.

Lemma file_fuel_enough mdat_first wf wv wd ft v media : moov_rt_wf v = true -> moov_size v < U32 ->
  (moov_fuel v + 3 <= N.to_nat (lenN (render (file_children mdat_first wf wv wd ft v media))) + 2)%nat.
Proof.
  intros Vw Vs. pose proof (moov_payload_len v Vw Vs) as Hp. pose proof (moov_fuel_le_size v) as Hf.
  rewrite lenN_render. unfold file_children, total_len.
  destruct mdat_first; cbn [map]; unfold c_len, c_hlen; cbn [c_w64 c_payload];
    repeat match goal with |- context [sumN (?a :: ?l)] => change (sumN (a :: l)) with (a + sumN l) end;
    change (sumN []) with 0; destruct wf, wv, wd; clear -Hp Hf; lia.
Qed.

Print Assumptions first_ok_derive.
Print Assumptions trak_lookup.
Print Assumptions file_lookup.

(** ** The statement with the fuel of the drivers *)
Theorem consistent_file_lookup m m' (mdat_first wf wv wd : bool) (ft : ftyp) (v : moov) (media : bytes) :
  ftyp_wf ft = true -> ftyp_size ft < U32 -> moov_rt_wf v = true -> moov_size v < U32 ->
  NoDup (map trak_id (moov_traks v)) -> ~ In 0 (map trak_id (moov_traks v)) ->
  (forall t, In t (moov_traks v) -> consistent (trak_tables t) = true) ->
  let b := render (file_children mdat_first wf wv wd ft v media) in
  lenN b < 2 ^ 63 -> child_wf (mkChild wd 0x6d646174 media) ->
  exists r,
    (forall fuel, (N.to_nat (lenN b) + 2 <= fuel)%nat ->
       run (open_fuel fuel m (lenN b)) (stream_at b 0) = (Ok r, stream_at b (lenN b))) /\
    rd_ftyp r = ft /\ rd_moov r = v /\ rd_moofs r = [] /\ rd_emsgs r = [] /\ rd_size r = lenN b /\
    map fst (rd_tracks r) = map trak_id (moov_traks v) /\
    (forall tid, ~ In tid (map trak_id (moov_traks v)) -> rd_sample_count r tid = Err EData) /\
    forall t, In t (moov_traks v) ->
      let tb := trak_tables t in
      rd_sample_count r (trak_id t) = Ok (t_stsz_count tb) /\
      (forall k, 1 <= k <= t_stsz_count tb ->
         exists off sz dl ct,
           spec_offset tb k = Some off /\ spec_size tb k = Some sz /\
           spec_delta tb k = Some dl /\ spec_cts tb k = Some ct /\
           rd_sample_offset m' r (trak_id t) k = Ok off /\
           forall pos, off + sz <= lenN b ->
             fst (run (rd_read_sample m' r (trak_id t) k) (stream_at b pos)) =
               Ok (Some (mkSample (spec_start tb k) dl ct (spec_sync tb k)
                                  (firstn (N.to_nat sz) (skipn (N.to_nat off) b))))) /\
      (forall k, k = 0 \/ t_stsz_count tb < k ->
         forall st, match fst (run (rd_read_sample m' r (trak_id t) k) st) with
                    | Ok (Some _) => False
                    | Panic _ => False
                    | _ => True
                    end).
Proof.
  intros Fw Fs Vw Vs Hnd Hn0 Hcons b Hlen Hd.
  destruct (file_lookup m m' mdat_first wf wv wd ft v media Fw Fs Vw Vs Hnd Hn0 Hcons Hlen Hd) as (r & Hopen & Hrest).
  exists r. split; [|exact Hrest].
  intros fuel Hfuel. apply Hopen.
  pose proof (file_fuel_enough mdat_first wf wv wd ft v media Vw Vs) as Hfe. fold b in Hfe. lia.
Qed.
Print Assumptions consistent_file_lookup.
