(** * Decoded values are well formed; re-encoding is a fixpoint (C04, second half) — group G3:
      avcC, avc1, hvcC, hev1, the MPEG-4 descriptors, esds, mp4a *)
From MP4 Require Import DecWfKitG3 BoxAvc1 BoxHev1 BoxMp4a RtAvc1 RtHev1 RtMp4a.
From Coq Require Import ZifyN ZifyNat ZifyBool.
Open Scope string_scope.
Open Scope list_scope.
Open Scope N_scope.

(** ** bit fields *)
Lemma land_ones_lt x k : N.land x (N.ones k) < 2 ^ k.
Proof. rewrite N.land_ones. apply N.mod_lt. apply N.pow_nonzero. discriminate. Qed.

Lemma land3_lt x : N.land x 3 < 4.   Proof. exact (land_ones_lt x 2). Qed.
Lemma land7_lt x : N.land x 7 < 8.   Proof. exact (land_ones_lt x 3). Qed.
Lemma land15_lt x : N.land x 15 < 16. Proof. exact (land_ones_lt x 4). Qed.
Lemma land31_lt x : N.land x 31 < 32. Proof. exact (land_ones_lt x 5). Qed.
Lemma land63_lt x : N.land x 63 < 64. Proof. exact (land_ones_lt x 6). Qed.
Lemma land4095_lt x : N.land x 4095 < 4096. Proof. exact (land_ones_lt x 12). Qed.

Ltac ltb_true := apply N.ltb_lt.

(** ** avcC *)
Lemma dec_nalunit_post : post dec_nalunit (fun u => nalunit_wf u = true).
Proof.
  unfold dec_nalunit. pstep. intros len Hlen. pstep. intros l [Hl Hok]. apply post_ret.
  unfold nalunit_wf. cbn [nalunit_bytes]. rewrite Hl, Hok, (ufit_of_lt 2 len Hlen). reflexivity.
Qed.

Lemma dec_avcc_post m size : post (dec_avcc m size) (fun v => avcc_wf v = true).
Proof.
  unfold dec_avcc. pskip. intros start.
  pstep. intros cv Hcv. pstep. intros pi Hpi. pstep. intros pc Hpc. pstep. intros li Hli.
  pstep. intros b1 _. pstep. intros b2 _. cbv zeta. pskip. intros _.
  eapply post_bind; [apply (post_rd_n _ _ nalunit_wf), dec_nalunit_post|]. cbv beta. intros sps [Hsl Hsw].
  pstep. intros np Hnp. pskip. intros _.
  eapply post_bind; [apply (post_rd_n _ _ nalunit_wf), dec_nalunit_post|]. cbv beta. intros pps [Hpl Hpw].
  pskip. intros e. pskip. intros _. apply post_ret.
  unfold avcc_wf.
  cbn [avcc_configuration_version avcc_avc_profile_indication avcc_profile_compatibility
       avcc_avc_level_indication avcc_length_size_minus_one avcc_sequence_parameter_sets
       avcc_picture_parameter_sets].
  rewrite (ufit_of_lt 1 cv Hcv), (ufit_of_lt 1 pi Hpi), (ufit_of_lt 1 pc Hpc), (ufit_of_lt 1 li Hli).
  rewrite Hsw, Hpw, (lenN_of_length _ _ Hsl), (lenN_of_length _ _ Hpl).
  replace (N.land b1 3 <? 4) with true by (symmetry; ltb_true; apply land3_lt).
  replace (N.land b2 31 <? 32) with true by (symmetry; ltb_true; apply land31_lt).
  replace (np <? 256) with true by (symmetry; ltb_true; rewrite <- pow256_1; exact Hnp).
  reflexivity.
Qed.

Lemma dec_avcc_wf : forall m size s v s', run (dec_avcc m size) s = (Ok v, s') ->
  bytes_ok (s_view s) = true -> bytes_ok (s_data s) = true -> avcc_wf v = true.
Proof. intros m size. exact (post_elim _ _ (dec_avcc_post m size)). Qed.

Theorem avcc_reencode_fixpoint : forall m size s v s', run (dec_avcc m size) s = (Ok v, s') ->
  bytes_ok (s_view s) = true -> bytes_ok (s_data s) = true -> avcc_size v < U32 ->
  reencode_fixpoint_for avcc_size enc_avcc dec_avcc v.
Proof.
  intros m size s v s' E Hv Hd Hsz.
  exact (reencode_fixpoint_of_wf _ _ _ _ _ _ avcc_roundtrip v (dec_avcc_wf m size s v s' E Hv Hd) Hsz).
Qed.

(** ** avc1: the child search, for every amount of fuel *)
Lemma avc1_find_post m fuel start size e : post (avc1_find m fuel start size e) (fun v => avcc_wf v = true).
Proof.
  induction fuel as [|f IH]; cbn [avc1_find]; [apply post_spin|].
  pskip. intros current. pif; [apply post_throw|].
  pskip. intros [name s]. pif; [apply post_throw|]. pif; [apply post_throw|]. pif.
  - eapply post_bind; [apply dec_avcc_post|]. cbv beta. intros v Hv.
    pskip. intros e2. pskip. intros _. apply post_ret. exact Hv.
  - pskip. intros _. exact IH.
Qed.

Lemma dec_avc1_fuel_post fuel m size : post (dec_avc1_fuel fuel m size) (fun v => avc1_wf v = true).
Proof.
  unfold dec_avc1_fuel. pskip. intros start.
  pstep. intros _ _. pstep. intros _ _. pstep. intros dri Hdri. pstep. intros _ _. pstep. intros _ _.
  pstep. intros _ _. pstep. intros w Hw. pstep. intros h Hh. pstep. intros hr Hhr. pstep. intros vr Hvr.
  pstep. intros _ _. pstep. intros fc Hfc. pskip. intros _. pstep. intros dp Hdp. pskip. intros _.
  pskip. intros e.
  eapply post_bind; [apply avc1_find_post|]. cbv beta. intros c Hc. apply post_ret.
  unfold avc1_wf.
  cbn [avc1_data_reference_index avc1_width avc1_height avc1_horizresolution avc1_vertresolution
       avc1_frame_count avc1_depth avc1_avcc].
  rewrite (ufit_of_lt 2 dri Hdri), (ufit_of_lt 2 w Hw), (ufit_of_lt 2 h Hh), (ufit_of_lt 4 hr Hhr),
    (ufit_of_lt 4 vr Hvr), (ufit_of_lt 2 fc Hfc), (ufit_of_lt 2 dp Hdp), Hc.
  reflexivity.
Qed.

Lemma dec_avc1_fuel_wf : forall fuel m size s v s', run (dec_avc1_fuel fuel m size) s = (Ok v, s') ->
  bytes_ok (s_view s) = true -> bytes_ok (s_data s) = true -> avc1_wf v = true.
Proof. intros fuel m size. exact (post_elim _ _ (dec_avc1_fuel_post fuel m size)). Qed.

Lemma dec_avc1_wf : forall m size s v s', run (dec_avc1 m size) s = (Ok v, s') ->
  bytes_ok (s_view s) = true -> bytes_ok (s_data s) = true -> avc1_wf v = true.
Proof. intros m size. unfold dec_avc1. apply dec_avc1_fuel_wf. Qed.

Theorem avc1_reencode_fixpoint : forall m size s v s', run (dec_avc1 m size) s = (Ok v, s') ->
  bytes_ok (s_view s) = true -> bytes_ok (s_data s) = true -> avc1_size v < U32 ->
  reencode_fixpoint_for avc1_size enc_avc1 dec_avc1 v.
Proof.
  intros m size s v s' E Hv Hd Hsz.
  exact (reencode_fixpoint_of_wf _ _ _ _ _ _ avc1_roundtrip v (dec_avc1_wf m size s v s' E Hv Hd) Hsz).
Qed.

(** ** hvcC *)
Lemma hvcc_bits_hi p : p < 256 ^ N.of_nat 1 -> N.shiftr (N.land p 192) 6 <? 4 = true.
Proof. rewrite pow256_1. apply (forall_below (fun p => N.shiftr (N.land p 192) 6 <? 4) 256). vm_compute. reflexivity. Qed.
Lemma hvcc_bits_mid p : p < 256 ^ N.of_nat 1 -> N.shiftr (N.land p 56) 3 <? 8 = true.
Proof. rewrite pow256_1. apply (forall_below (fun p => N.shiftr (N.land p 56) 3 <? 8) 256). vm_compute. reflexivity. Qed.

Lemma dec_hvccnalu_post m e : post (dec_hvccnalu m e) (fun u => hvccnalu_wf u = true).
Proof.
  unfold dec_hvccnalu. pstep. intros size Hsize. pskip. intros pos. pskip. intros t.
  pif; [apply post_throw|]. pstep. intros data [Hl Hok]. apply post_ret.
  unfold hvccnalu_wf. cbn [hvccnalu_size hvccnalu_data].
  rewrite (ufit_of_lt 2 size Hsize), Hl, Hok, N.eqb_refl. reflexivity.
Qed.

Lemma dec_hvccarray_post m e : post (dec_hvccarray m e) (fun a => hvccarray_wf a = true).
Proof.
  unfold dec_hvccarray. pstep. intros params _. pstep. intros num Hnum. pskip. intros pos.
  pif; [apply post_throw|]. pskip. intros _.
  eapply post_bind; [apply (post_rd_n _ _ hvccnalu_wf), dec_hvccnalu_post|]. cbv beta. intros nalus [Hl Hw].
  apply post_ret. unfold hvccarray_wf. cbn [hvccarray_nal_unit_type hvccarray_nalus].
  rewrite Hw, (lenN_of_length _ _ Hl), (ufit_of_lt 2 num Hnum).
  replace (N.land params 63 <? 64) with true by (symmetry; ltb_true; apply land63_lt).
  reflexivity.
Qed.

Lemma dec_hvcc_post m size : post (dec_hvcc m size) (fun v => hvcc_wf v = true).
Proof.
  unfold dec_hvcc. pskip. intros start. pskip. intros e.
  pstep. intros cv Hcv. pstep. intros p1 Hp1. cbv zeta.
  pstep. intros cf Hcf. pstep. intros ci Hci. pstep. intros lv Hlv.
  pstep. intros x1 _. pstep. intros x2 _. pstep. intros x3 _. pstep. intros x4 _. pstep. intros x5 _.
  pstep. intros fr Hfr. pstep. intros p2 Hp2. pstep. intros na Hna. pskip. intros _.
  eapply post_bind; [apply (post_rd_n _ _ hvccarray_wf), dec_hvccarray_post|]. cbv beta. intros arrays [Hl Hw].
  pskip. intros e2. pskip. intros _. apply post_ret.
  unfold hvcc_wf.
  cbn [hvcc_configuration_version hvcc_general_profile_space hvcc_general_tier_flag hvcc_general_profile_idc
       hvcc_general_profile_compatibility_flags hvcc_general_constraint_indicator_flag hvcc_general_level_idc
       hvcc_min_spatial_segmentation_idc hvcc_parallelism_type hvcc_chroma_format_idc
       hvcc_bit_depth_luma_minus8 hvcc_bit_depth_chroma_minus8 hvcc_avg_frame_rate hvcc_constant_frame_rate
       hvcc_num_temporal_layers hvcc_temporal_id_nested hvcc_length_size_minus_one hvcc_arrays].
  rewrite (ufit_of_lt 1 cv Hcv), (ufit_of_lt 4 cf Hcf), (ufit_of_lt 6 ci Hci), (ufit_of_lt 1 lv Hlv),
    (ufit_of_lt 2 fr Hfr), Hw, (lenN_of_length _ _ Hl), (ufit_of_lt 1 na Hna).
  rewrite (hvcc_bits_hi p1 Hp1), (hvcc_bits_hi p2 Hp2), (hvcc_bits_mid p2 Hp2).
  replace (N.land p1 31 <? 32) with true by (symmetry; ltb_true; apply land31_lt).
  replace (N.land x1 4095 <? 4096) with true by (symmetry; ltb_true; apply land4095_lt).
  replace (N.land x2 3 <? 4) with true by (symmetry; ltb_true; apply land3_lt).
  replace (N.land x3 3 <? 4) with true by (symmetry; ltb_true; apply land3_lt).
  replace (N.land x4 7 <? 8) with true by (symmetry; ltb_true; apply land7_lt).
  replace (N.land x5 7 <? 8) with true by (symmetry; ltb_true; apply land7_lt).
  replace (N.land p2 3 <? 4) with true by (symmetry; ltb_true; apply land3_lt).
  reflexivity.
Qed.

Lemma dec_hvcc_wf : forall m size s v s', run (dec_hvcc m size) s = (Ok v, s') ->
  bytes_ok (s_view s) = true -> bytes_ok (s_data s) = true -> hvcc_wf v = true.
Proof. intros m size. exact (post_elim _ _ (dec_hvcc_post m size)). Qed.

Theorem hvcc_reencode_fixpoint : forall m size s v s', run (dec_hvcc m size) s = (Ok v, s') ->
  bytes_ok (s_view s) = true -> bytes_ok (s_data s) = true -> hvcc_size v < U32 ->
  reencode_fixpoint_for hvcc_size enc_hvcc dec_hvcc v.
Proof.
  intros m size s v s' E Hv Hd Hsz.
  exact (reencode_fixpoint_of_wf _ _ _ _ _ _ hvcc_roundtrip v (dec_hvcc_wf m size s v s' E Hv Hd) Hsz).
Qed.

(** ** hev1 *)
Lemma dec_hev1_post m size : post (dec_hev1 m size) (fun v => hev1_wf v = true).
Proof.
  unfold dec_hev1. pskip. intros start.
  pstep. intros _ _. pstep. intros _ _. pstep. intros dri Hdri. pstep. intros _ _. pstep. intros _ _.
  pstep. intros _ _. pstep. intros w Hw. pstep. intros h Hh. pstep. intros hr Hhr. pstep. intros vr Hvr.
  pstep. intros _ _. pstep. intros fc Hfc. pskip. intros _. pstep. intros dp Hdp. pskip. intros _.
  pskip. intros [name s]. pif; [apply post_throw|]. pif; [|apply post_throw].
  eapply post_bind; [apply dec_hvcc_post|]. cbv beta. intros c Hc.
  pskip. intros e. pskip. intros _. apply post_ret.
  unfold hev1_wf.
  cbn [hev1_data_reference_index hev1_width hev1_height hev1_horizresolution hev1_vertresolution
       hev1_frame_count hev1_depth hev1_hvcc].
  rewrite (ufit_of_lt 2 dri Hdri), (ufit_of_lt 2 w Hw), (ufit_of_lt 2 h Hh), (ufit_of_lt 4 hr Hhr),
    (ufit_of_lt 4 vr Hvr), (ufit_of_lt 2 fc Hfc), (ufit_of_lt 2 dp Hdp), Hc.
  reflexivity.
Qed.

Lemma dec_hev1_wf : forall m size s v s', run (dec_hev1 m size) s = (Ok v, s') ->
  bytes_ok (s_view s) = true -> bytes_ok (s_data s) = true -> hev1_wf v = true.
Proof. intros m size. exact (post_elim _ _ (dec_hev1_post m size)). Qed.

Theorem hev1_reencode_fixpoint : forall m size s v s', run (dec_hev1 m size) s = (Ok v, s') ->
  bytes_ok (s_view s) = true -> bytes_ok (s_data s) = true -> hev1_size v < U32 ->
  reencode_fixpoint_for hev1_size enc_hev1 dec_hev1 v.
Proof.
  intros m size s v s' E Hv Hd Hsz.
  exact (reencode_fixpoint_of_wf _ _ _ _ _ _ hev1_roundtrip v (dec_hev1_wf m size s v s' E Hv Hd) Hsz).
Qed.

(** ** MPEG-4 descriptors, esds, mp4a

    [decspecific_wf] is FALSE for some decoded values: an audio object type of 32 or more
    (finding D80) and frequency index 15 (explicit 24-bit frequency; see the examples at the
    end of this section: the encoder does not write the three frequency bytes, so re-encoding
    is not a fixpoint).  The lemmas therefore carry the hypothesis [aac_plain]. *)
Definition aac_plain (d : decspecific) : Prop :=
  decspecific_profile d < 31 /\ decspecific_freq_index d <> 15.

(** what [dec_decspecific] guarantees unconditionally *)
Definition ds_weak (d : decspecific) : Prop :=
  decspecific_freq_index d < 16 /\ decspecific_chan_conf d < 16.

Lemma ds_weak_wf d : ds_weak d -> aac_plain d -> decspecific_wf d = true.
Proof.
  intros [Hf Hc] [Hp Hn]. unfold decspecific_wf.
  replace (decspecific_profile d <? 31) with true by (symmetry; ltb_true; exact Hp).
  replace (decspecific_freq_index d <? 15) with true by (symmetry; ltb_true; clear -Hf Hn; lia).
  replace (decspecific_chan_conf d <? 16) with true by (symmetry; ltb_true; exact Hc).
  reflexivity.
Qed.

Definition optP {A} (P : A -> Prop) (o : option A) : Prop :=
  match o with Some x => P x | None => True end.

Lemma aot_plain_lt a b : a < 256 ^ N.of_nat 1 -> b < 256 ^ N.of_nat 1 ->
  (31 <? get_audio_object_type a b) = false -> get_audio_object_type a b < 31.
Proof.
  rewrite pow256_1. intros Ha Hb H.
  pose proof (forall_below2 (fun a b => (31 <? get_audio_object_type a b) || (get_audio_object_type a b <? 31))
                256 256 ltac:(vm_compute; reflexivity) a b Ha Hb) as P.
  cbv beta in P. rewrite H in P. cbn [orb] in P. now apply N.ltb_lt in P.
Qed.

Lemma freq_plain_lt a b : a < 256 ^ N.of_nat 1 -> b < 256 ^ N.of_nat 1 ->
  cast_w U8 (N.shiftl (N.land a 7) 1) + N.shiftr b 7 < 16.
Proof.
  rewrite pow256_1. intros Ha Hb. apply N.ltb_lt.
  exact (forall_below2 (fun a b => cast_w U8 (N.shiftl (N.land a 7) 1) + N.shiftr b 7 <? 16)
           256 256 ltac:(vm_compute; reflexivity) a b Ha Hb).
Qed.

Lemma chan_ext_lt b c : b < 256 ^ N.of_nat 1 -> c < 256 ^ N.of_nat 1 ->
  N.lor (cast_w U8 (N.shiftl (N.land b 1) 3)) (N.shiftr c 5) < 16.
Proof.
  rewrite pow256_1. intros Hb Hc. apply N.ltb_lt.
  exact (forall_below2 (fun b c => N.lor (cast_w U8 (N.shiftl (N.land b 1) 3)) (N.shiftr c 5) <? 16)
           256 256 ltac:(vm_compute; reflexivity) b c Hb Hc).
Qed.

Lemma get_chan_conf_post b f ext : b < 256 ^ N.of_nat 1 -> post (get_chan_conf b f ext) (fun c => c < 16).
Proof.
  intros Hb. unfold get_chan_conf. pif.
  - pstep. intros sr _. apply post_ret. unfold cast_w, U8.
    pose proof (land15_lt (N.shiftr sr 4)) as L. rewrite N.mod_small; [exact L|]. clear -L. lia.
  - destruct ext.
    + pstep. intros c Hc. apply post_ret. now apply chan_ext_lt.
    + apply post_ret. apply land15_lt.
Qed.

Lemma dec_decspecific_post size : post (dec_decspecific size) ds_weak.
Proof.
  unfold dec_decspecific. pstep. intros a Ha. pstep. intros b Hb. cbv zeta. pif.
  - eapply post_bind; [apply get_chan_conf_post; exact Hb|]. cbv beta. intros c Hc. apply post_ret.
    split; cbn [decspecific_freq_index decspecific_chan_conf]; [apply land15_lt | exact Hc].
  - eapply post_bind; [apply get_chan_conf_post; exact Hb|]. cbv beta. intros c Hc. apply post_ret.
    split; cbn [decspecific_freq_index decspecific_chan_conf]; [now apply freq_plain_lt | exact Hc].
Qed.

(** the audio object type of a decoded value is never 31 (so [profile < 31] is [profile <= 31]) *)
Lemma dec_decspecific_wf : forall size s d s', run (dec_decspecific size) s = (Ok d, s') ->
  bytes_ok (s_view s) = true -> bytes_ok (s_data s) = true ->
  aac_plain d -> decspecific_wf d = true.
Proof.
  intros size s d s' E Hv Hd Hp. apply ds_weak_wf; [|exact Hp].
  exact (post_elim _ _ (dec_decspecific_post size) s d s' E Hv Hd).
Qed.

Lemma dec_slconfig_wf : forall size s v s', run (dec_slconfig size) s = (Ok v, s') ->
  bytes_ok (s_view s) = true -> bytes_ok (s_data s) = true -> slconfig_wf v = true.
Proof. reflexivity. Qed.

(** *** DecoderConfigDescriptor *)
Lemma decconfig_loop_post fuel : forall current e acc, optP ds_weak acc ->
  post (decconfig_loop fuel current e acc) (optP ds_weak).
Proof.
  induction fuel as [|f IH]; intros current e acc Hacc; cbn [decconfig_loop]; [apply post_spin|].
  pif; [|apply post_ret; exact Hacc].
  pskip. intros [tag sz]. pskip. intros pos. cbv zeta. pif.
  - eapply post_bind; [apply dec_decspecific_post|]. cbv beta. intros d Hd.
    pskip. intros c. apply IH. exact Hd.
  - pskip. intros _. pskip. intros c. apply IH. exact Hacc.
Qed.

Lemma decconfig_st_lt b : b < 256 ^ N.of_nat 1 -> N.shiftr (N.land b 252) 2 <? 64 = true.
Proof. rewrite pow256_1. apply (forall_below (fun b => N.shiftr (N.land b 252) 2 <? 64) 256). vm_compute. reflexivity. Qed.
Lemma decconfig_up_ok b : b < 256 ^ N.of_nat 1 -> (N.land b 2 =? 0) || (N.land b 2 =? 2) = true.
Proof. rewrite pow256_1. apply (forall_below (fun b => (N.land b 2 =? 0) || (N.land b 2 =? 2)) 256). vm_compute. reflexivity. Qed.

Definition decconfig_plain (c : decconfig) : Prop := aac_plain (decconfig_dec_specific c).

Lemma dec_decconfig_fuel_post fuel m size :
  post (dec_decconfig_fuel fuel m size) (fun c => decconfig_plain c -> decconfig_wf c = true).
Proof.
  unfold dec_decconfig_fuel. pskip. intros start. pstep. intros ot Hot. pstep. intros ba Hba. cbv zeta.
  pstep. intros bs Hbs. pstep. intros mb Hmb. pstep. intros ab Hab. pskip. intros current. pskip. intros e.
  eapply post_bind; [apply decconfig_loop_post; exact I|]. cbv beta. intros o Ho. apply post_ret.
  unfold decconfig_plain, decconfig_wf.
  cbn [decconfig_object_type_indication decconfig_stream_type decconfig_up_stream decconfig_buffer_size_db
       decconfig_max_bitrate decconfig_avg_bitrate decconfig_dec_specific].
  intros Hp.
  rewrite (ufit_of_lt 1 ot Hot), (ufit_of_lt 3 bs Hbs), (ufit_of_lt 4 mb Hmb), (ufit_of_lt 4 ab Hab),
    (decconfig_st_lt ba Hba), (decconfig_up_ok ba Hba).
  destruct o as [d|]; [|reflexivity]. cbn [optP] in Ho. rewrite (ds_weak_wf d Ho Hp). reflexivity.
Qed.

Lemma dec_decconfig_post m size :
  post (dec_decconfig m size) (fun c => decconfig_plain c -> decconfig_wf c = true).
Proof. unfold dec_decconfig. apply dec_decconfig_fuel_post. Qed.

Lemma dec_decconfig_fuel_wf : forall fuel m size s c s', run (dec_decconfig_fuel fuel m size) s = (Ok c, s') ->
  bytes_ok (s_view s) = true -> bytes_ok (s_data s) = true ->
  decconfig_plain c -> decconfig_wf c = true.
Proof. intros fuel m size. exact (post_elim _ _ (dec_decconfig_fuel_post fuel m size)). Qed.

Lemma dec_decconfig_wf : forall m size s c s', run (dec_decconfig m size) s = (Ok c, s') ->
  bytes_ok (s_view s) = true -> bytes_ok (s_data s) = true ->
  decconfig_plain c -> decconfig_wf c = true.
Proof. intros m size. unfold dec_decconfig. apply dec_decconfig_fuel_wf. Qed.

(** *** ESDescriptor *)
Definition esdesc_plain (v : esdesc) : Prop := decconfig_plain (esdesc_dec_config v).

Lemma esdesc_loop_post m fuel : forall current e dc sl,
  optP (fun c => decconfig_plain c -> decconfig_wf c = true) dc ->
  post (esdesc_loop m fuel current e dc sl)
       (fun r => optP (fun c => decconfig_plain c -> decconfig_wf c = true) (fst r)).
Proof.
  induction fuel as [|f IH]; intros current e dc sl Hdc; cbn [esdesc_loop]; [apply post_spin|].
  pif; [|apply post_ret; exact Hdc].
  pskip. intros [tag sz]. pskip. intros pos. cbv zeta. pif; [|pif].
  - eapply post_bind; [apply dec_decconfig_post|]. cbv beta. intros d Hd.
    pskip. intros c. apply IH. exact Hd.
  - pskip. intros s. pskip. intros c. apply IH. exact Hdc.
  - pskip. intros _. pskip. intros c. apply IH. exact Hdc.
Qed.

Lemma dec_esdesc_fuel_post fuel m size :
  post (dec_esdesc_fuel fuel m size) (fun v => esdesc_plain v -> esdesc_wf v = true).
Proof.
  unfold dec_esdesc_fuel. pskip. intros start. pstep. intros id Hid. pstep. intros _ _.
  pskip. intros current. pskip. intros e.
  eapply post_bind; [apply esdesc_loop_post; exact I|]. cbv beta. intros [dc sl] Hdc. cbn [fst] in Hdc.
  apply post_ret. unfold esdesc_plain, esdesc_wf. cbn [esdesc_es_id esdesc_dec_config esdesc_sl_config].
  intros Hp. rewrite (ufit_of_lt 2 id Hid). unfold slconfig_wf. rewrite andb_true_r. cbn [andb].
  destruct dc as [c|]; [exact (Hdc Hp) | reflexivity].
Qed.

Lemma dec_esdesc_post m size :
  post (dec_esdesc m size) (fun v => esdesc_plain v -> esdesc_wf v = true).
Proof. unfold dec_esdesc. apply dec_esdesc_fuel_post. Qed.

Lemma dec_esdesc_fuel_wf : forall fuel m size s v s', run (dec_esdesc_fuel fuel m size) s = (Ok v, s') ->
  bytes_ok (s_view s) = true -> bytes_ok (s_data s) = true ->
  esdesc_plain v -> esdesc_wf v = true.
Proof. intros fuel m size. exact (post_elim _ _ (dec_esdesc_fuel_post fuel m size)). Qed.

Lemma dec_esdesc_wf : forall m size s v s', run (dec_esdesc m size) s = (Ok v, s') ->
  bytes_ok (s_view s) = true -> bytes_ok (s_data s) = true ->
  esdesc_plain v -> esdesc_wf v = true.
Proof. intros m size. unfold dec_esdesc. apply dec_esdesc_fuel_wf. Qed.

(** *** EsdsBox *)
Definition esds_plain (v : esds) : Prop := esdesc_plain (esds_es_desc v).

Lemma esds_loop_post m fuel : forall current e acc,
  optP (fun v => esdesc_plain v -> esdesc_wf v = true) acc ->
  post (esds_loop m fuel current e acc) (optP (fun v => esdesc_plain v -> esdesc_wf v = true)).
Proof.
  induction fuel as [|f IH]; intros current e acc Hacc; cbn [esds_loop]; [apply post_spin|].
  pif; [|apply post_ret; exact Hacc].
  pskip. intros [tag sz]. pskip. intros pos. cbv zeta. pif; [|apply post_ret; exact Hacc].
  eapply post_bind; [apply dec_esdesc_post|]. cbv beta. intros d Hd.
  pskip. intros c. apply IH. exact Hd.
Qed.

Lemma read_header_ext_post :
  post read_header_ext (fun vf => fst vf < 256 ^ N.of_nat 1 /\ snd vf < 256 ^ N.of_nat 3).
Proof.
  unfold read_header_ext. pstep. intros v Hv. pstep. intros f Hf. apply post_ret. cbn [fst snd]. auto.
Qed.

Lemma dec_esds_fuel_post fuel m size :
  post (dec_esds_fuel fuel m size) (fun v => esds_plain v -> esds_wf v = true).
Proof.
  unfold dec_esds_fuel. pskip. intros start.
  eapply post_bind; [apply read_header_ext_post|]. cbv beta. intros [version flags] [Hver Hfl].
  cbn [fst snd] in Hver, Hfl.
  pskip. intros current. pskip. intros e.
  eapply post_bind; [apply esds_loop_post; exact I|]. cbv beta. intros o Ho.
  destruct o as [d|]; [|apply post_throw]. cbn [optP] in Ho.
  pskip. intros e2. pskip. intros _. apply post_ret.
  unfold esds_plain, esds_wf. cbn [esds_version esds_flags esds_es_desc]. intros Hp.
  rewrite (ufit_of_lt 1 version Hver), (ufit_of_lt 3 flags Hfl), (Ho Hp). reflexivity.
Qed.

Lemma dec_esds_post m size : post (dec_esds m size) (fun v => esds_plain v -> esds_wf v = true).
Proof. unfold dec_esds. apply dec_esds_fuel_post. Qed.

Lemma dec_esds_fuel_wf : forall fuel m size s v s', run (dec_esds_fuel fuel m size) s = (Ok v, s') ->
  bytes_ok (s_view s) = true -> bytes_ok (s_data s) = true ->
  esds_plain v -> esds_wf v = true.
Proof. intros fuel m size. exact (post_elim _ _ (dec_esds_fuel_post fuel m size)). Qed.

Lemma dec_esds_wf : forall m size s v s', run (dec_esds m size) s = (Ok v, s') ->
  bytes_ok (s_view s) = true -> bytes_ok (s_data s) = true ->
  esds_plain v -> esds_wf v = true.
Proof. intros m size. unfold dec_esds. apply dec_esds_fuel_wf. Qed.

Theorem esds_reencode_fixpoint : forall m0 m size s v s', run (dec_esds m size) s = (Ok v, s') ->
  bytes_ok (s_view s) = true -> bytes_ok (s_data s) = true -> esds_plain v -> esds_size v < U32 ->
  reencode_fixpoint_for esds_size (enc_esds m0) dec_esds v.
Proof.
  intros m0 m size s v s' E Hv Hd Hp Hsz.
  exact (reencode_fixpoint_of_wf _ _ _ _ _ _ (esds_roundtrip m0) v (dec_esds_wf m size s v s' E Hv Hd Hp) Hsz).
Qed.

(** *** Mp4aBox *)
Definition mp4a_plain (v : mp4a) : Prop := optP esds_plain (mp4a_esds v).

Lemma mp4a_find_post m fuel size e :
  post (mp4a_find m fuel size e) (optP (fun v => esds_plain v -> esds_wf v = true)).
Proof.
  induction fuel as [|f IH]; cbn [mp4a_find]; [apply post_spin|].
  pskip. intros current. pif; [apply post_ret; exact I|].
  pskip. intros [name s]. pif; [apply post_throw|]. pif; [apply post_ret; exact I|]. pif; [|pif].
  - eapply post_bind; [apply dec_esds_post|]. cbv beta. intros x Hx. apply post_ret. exact Hx.
  - exact IH.
  - pskip. intros _. exact IH.
Qed.

Lemma dec_mp4a_fuel_post fuel m size :
  post (dec_mp4a_fuel fuel m size) (fun v => mp4a_plain v -> mp4a_wf v = true).
Proof.
  unfold dec_mp4a_fuel. pskip. intros start.
  pstep. intros _ _. pstep. intros _ _. pstep. intros dri Hdri. pstep. intros version _. pstep. intros _ _.
  pstep. intros _ _. pstep. intros cc Hcc. pstep. intros ss Hss. pstep. intros _ _. pstep. intros sr Hsr.
  pskip. intros _. pskip. intros e.
  eapply post_bind; [apply mp4a_find_post|]. cbv beta. intros o Ho.
  pskip. intros _. apply post_ret.
  unfold mp4a_plain, mp4a_wf.
  cbn [mp4a_data_reference_index mp4a_channelcount mp4a_samplesize mp4a_samplerate mp4a_esds].
  intros Hp.
  rewrite (ufit_of_lt 2 dri Hdri), (ufit_of_lt 2 cc Hcc), (ufit_of_lt 2 ss Hss), (ufit_of_lt 4 sr Hsr).
  destruct o as [x|]; [exact (Ho Hp) | reflexivity].
Qed.

Lemma dec_mp4a_fuel_wf : forall fuel m size s v s', run (dec_mp4a_fuel fuel m size) s = (Ok v, s') ->
  bytes_ok (s_view s) = true -> bytes_ok (s_data s) = true ->
  mp4a_plain v -> mp4a_wf v = true.
Proof. intros fuel m size. exact (post_elim _ _ (dec_mp4a_fuel_post fuel m size)). Qed.

Lemma dec_mp4a_wf : forall m size s v s', run (dec_mp4a m size) s = (Ok v, s') ->
  bytes_ok (s_view s) = true -> bytes_ok (s_data s) = true ->
  mp4a_plain v -> mp4a_wf v = true.
Proof. intros m size. unfold dec_mp4a. apply dec_mp4a_fuel_wf. Qed.

Theorem mp4a_reencode_fixpoint : forall m0 m size s v s', run (dec_mp4a m size) s = (Ok v, s') ->
  bytes_ok (s_view s) = true -> bytes_ok (s_data s) = true -> mp4a_plain v -> mp4a_size v < U32 ->
  reencode_fixpoint_for mp4a_size (enc_mp4a m0) dec_mp4a v.
Proof.
  intros m0 m size s v s' E Hv Hd Hp Hsz.
  exact (reencode_fixpoint_of_wf _ _ _ _ _ _ (mp4a_roundtrip m0) v (dec_mp4a_wf m size s v s' E Hv Hd Hp) Hsz).
Qed.

(** *** the descriptors on their own: the fixpoint in the shape of [desc_roundtrip] *)
Definition desc_reencode_fixpoint_for {X} (tag size : N) (enc : X -> wprog N) (dec : mode -> N -> prog X)
           (v : X) : Prop :=
  wfin (enc v) = Ok size /\
  forall m d l p post0, p + lenN (wout (enc v)) < 2 ^ 63 ->
    run (h <- read_desc ;; x <- dec m (snd h) ;; Ret (fst h, x)) (mkStream d l p (wout (enc v) ++ post0))
    = (Ok (tag, v), mkStream d l (p + lenN (wout (enc v))) post0).

Lemma desc_reencode_fixpoint_of_wf {X} (wf : X -> bool) (tag size : N)
      (enc : X -> wprog N) (dec : mode -> N -> prog X) (iso : X -> bytes) :
  desc_roundtrip wf tag size enc dec iso ->
  forall v, wf v = true -> desc_reencode_fixpoint_for tag size enc dec v.
Proof.
  intros Hrt v Hwf. destruct (Hrt v Hwf) as (H1 & _ & H3 & _ & H5).
  split; [exact H1|]. rewrite H3. exact H5.
Qed.

Theorem slconfig_reencode_fixpoint : forall (v : slconfig),
  desc_reencode_fixpoint_for 6 1 enc_slconfig (fun _ => dec_slconfig) v.
Proof. intros v. exact (desc_reencode_fixpoint_of_wf _ _ _ _ _ _ slconfig_roundtrip v eq_refl). Qed.

Theorem decspecific_reencode_fixpoint : forall m0 size s v s', run (dec_decspecific size) s = (Ok v, s') ->
  bytes_ok (s_view s) = true -> bytes_ok (s_data s) = true -> aac_plain v ->
  desc_reencode_fixpoint_for 5 2 (enc_decspecific m0) (fun _ => dec_decspecific) v.
Proof.
  intros m0 size s v s' E Hv Hd Hp.
  exact (desc_reencode_fixpoint_of_wf _ _ _ _ _ _ (decspecific_roundtrip m0) v
           (dec_decspecific_wf size s v s' E Hv Hd Hp)).
Qed.

Theorem decconfig_reencode_fixpoint : forall m0 m size s v s', run (dec_decconfig m size) s = (Ok v, s') ->
  bytes_ok (s_view s) = true -> bytes_ok (s_data s) = true -> decconfig_plain v ->
  desc_reencode_fixpoint_for 4 17 (enc_decconfig m0) dec_decconfig v.
Proof.
  intros m0 m size s v s' E Hv Hd Hp.
  exact (desc_reencode_fixpoint_of_wf _ _ _ _ _ _ (decconfig_roundtrip m0) v
           (dec_decconfig_wf m size s v s' E Hv Hd Hp)).
Qed.

Theorem esdesc_reencode_fixpoint : forall m0 m size s v s', run (dec_esdesc m size) s = (Ok v, s') ->
  bytes_ok (s_view s) = true -> bytes_ok (s_data s) = true -> esdesc_plain v ->
  desc_reencode_fixpoint_for 3 25 (enc_esdesc m0) dec_esdesc v.
Proof.
  intros m0 m size s v s' E Hv Hd Hp.
  exact (desc_reencode_fixpoint_of_wf _ _ _ _ _ _ (esdesc_roundtrip m0) v
           (dec_esdesc_wf m size s v s' E Hv Hd Hp)).
Qed.

(** *** the hypothesis [aac_plain] is needed: concrete bytes

    (1) frequency index 15.  The decoder accepts an AudioSpecificConfig with frequency index 15
    and reads three more bytes; the encoder writes [freq_index] into the two config bytes and
    never writes those three bytes.  The decoded value is not [esds_wf]; re-encoding SUCCEEDS
    (both build modes) and decoding the re-encoded bytes gives a DIFFERENT value (the re-decoder
    takes the SLConfigDescriptor [06 01 02] for the frequency: channel configuration 1 becomes 0
    — the sl_config it then no longer finds is replaced by the default, which is equal). *)
Definition esds_f15_bytes : bytes :=
  be 4 42 ++ be 4 0x65736473 ++
  [0;0;0;0; 3;28; 0;2;0; 4;20; 64;21;0;0;0; 0;1;8;111; 0;1;8;111; 5;5;23;128;0;0;16; 6;1;2].
Definition esds_f15_v (chan : N) : esds :=
  mkEsds 0 0 (mkEsDesc 2 (mkDecConfig 64 5 0 0 67695 67695 (mkDecSpecific 2 15 chan)) mkSlConfig).

Example esds_f15_input_ok : bytes_ok esds_f15_bytes = true.
Proof. vm_compute. reflexivity. Qed.
Example esds_f15_decodes : forall m,
  run (dec_esds m 42) (stream_at esds_f15_bytes 8) = (Ok (esds_f15_v 1), stream_at esds_f15_bytes 42).
Proof. intros []; vm_compute; reflexivity. Qed.
Example esds_f15_not_wf : esds_wf (esds_f15_v 1) = false.
Proof. vm_compute. reflexivity. Qed.
Example esds_f15_reencodes : forall m, wfin (enc_esds m (esds_f15_v 1)) = Ok (esds_size (esds_f15_v 1)).
Proof. intros []; vm_compute; reflexivity. Qed.
Example esds_f15_not_fixpoint : forall m m',
  fst (run (dec_esds m' (esds_size (esds_f15_v 1))) (stream_at (wout (enc_esds m (esds_f15_v 1))) 8))
  = Ok (esds_f15_v 0).
Proof. intros [] []; vm_compute; reflexivity. Qed.
Example esds_f15_differs : esds_f15_v 0 <> esds_f15_v 1.
Proof. discriminate. Qed.

(** (2) audio object type 40 (escape form, finding D80): decoded, not well formed, re-encoding
    succeeds even in a debug build and reads back as object type 8. *)
Definition esds_aot40_bytes : bytes :=
  be 4 40 ++ be 4 0x65736473 ++
  [0;0;0;0; 3;26; 0;2;0; 4;18; 64;21;0;0;0; 0;1;8;111; 0;1;8;111; 5;3;249;0;64; 6;1;2].
Definition esds_aot_v (profile : N) : esds :=
  mkEsds 0 0 (mkEsDesc 2 (mkDecConfig 64 5 0 0 67695 67695 (mkDecSpecific profile 0 2)) mkSlConfig).

Example esds_aot40_decodes : forall m,
  fst (run (dec_esds m 40) (stream_at esds_aot40_bytes 8)) = Ok (esds_aot_v 40)
  /\ bytes_ok esds_aot40_bytes = true /\ esds_wf (esds_aot_v 40) = false.
Proof. intros []; vm_compute; auto. Qed.
Example esds_aot40_not_fixpoint : forall m m',
  wfin (enc_esds m (esds_aot_v 40)) = Ok 39 /\
  fst (run (dec_esds m' 39) (stream_at (wout (enc_esds m (esds_aot_v 40))) 8)) = Ok (esds_aot_v 8).
Proof. intros [] []; vm_compute; auto. Qed.

Print Assumptions avcc_reencode_fixpoint.
Print Assumptions avc1_reencode_fixpoint.
Print Assumptions hvcc_reencode_fixpoint.
Print Assumptions hev1_reencode_fixpoint.
Print Assumptions esds_reencode_fixpoint.
Print Assumptions mp4a_reencode_fixpoint.
Print Assumptions slconfig_reencode_fixpoint.
Print Assumptions decspecific_reencode_fixpoint.
Print Assumptions decconfig_reencode_fixpoint.
Print Assumptions esdesc_reencode_fixpoint.
