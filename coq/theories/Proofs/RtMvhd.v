(** Round trip of [MvhdBox] *)
From MP4 Require Import Kit BoxMvhd.
From Coq Require Import ZifyN ZifyNat ZifyBool.
Open Scope string_scope.
Open Scope list_scope.
Open Scope N_scope.

Lemma mvhd_code : u32_of_boxtype (box_type_of "MvhdBox") = 0x6d766864.
Proof. vm_compute. reflexivity. Qed.

Definition mvhd_payload (v : mvhd) : bytes :=
  be 1 (mvhd_version v) ++ be 3 (mvhd_flags v) ++
  (if mvhd_version v =? 1 then
     be 8 (mvhd_creation_time v) ++ be 8 (mvhd_modification_time v) ++ be 4 (mvhd_timescale v) ++ be 8 (mvhd_duration v)
   else be 4 (mvhd_creation_time v) ++ be 4 (mvhd_modification_time v) ++ be 4 (mvhd_timescale v) ++ be 4 (mvhd_duration v)) ++
  be 4 (mvhd_rate v) ++ be 2 (mvhd_volume v) ++ be 2 0 ++ be 8 0 ++
  be 4 (of_signed (8 * N.of_nat 4) (mx_a (mvhd_matrix v))) ++ be 4 (of_signed (8 * N.of_nat 4) (mx_b (mvhd_matrix v))) ++
  be 4 (of_signed (8 * N.of_nat 4) (mx_u (mvhd_matrix v))) ++ be 4 (of_signed (8 * N.of_nat 4) (mx_c (mvhd_matrix v))) ++
  be 4 (of_signed (8 * N.of_nat 4) (mx_d (mvhd_matrix v))) ++ be 4 (of_signed (8 * N.of_nat 4) (mx_v (mvhd_matrix v))) ++
  be 4 (of_signed (8 * N.of_nat 4) (mx_x (mvhd_matrix v))) ++ be 4 (of_signed (8 * N.of_nat 4) (mx_y (mvhd_matrix v))) ++
  be 4 (of_signed (8 * N.of_nat 4) (mx_w (mvhd_matrix v))) ++
  repeat 0 24 ++ be 4 (mvhd_next_track_id v).

Lemma mvhd_size_eq v : mvhd_version v < 2 ->
  mvhd_size v = if mvhd_version v =? 1 then 120 else 108.
Proof.
  intros H. unfold mvhd_size, HEADER_SIZE, HEADER_EXT_SIZE, Tables.HEADER_SIZE, Tables.HEADER_EXT_SIZE.
  destruct (N.eqb_spec (mvhd_version v) 1), (N.eqb_spec (mvhd_version v) 0); lia.
Qed.

Lemma mvhd_enc v : mvhd_wf v = true ->
  wfin (enc_mvhd v) = Ok (mvhd_size v) /\
  wout (enc_mvhd v) = be 4 (mvhd_size v) ++ be 4 0x6d766864 ++ mvhd_payload v.
Proof.
  intros H. unfold enc_mvhd, mvhd_payload.
  unfold mvhd_wf in H. split_andb.
  match goal with H : mvhd_version v <? 2 = true |- _ => apply N.ltb_lt in H; pose proof (mvhd_size_eq v H) as Hsz end.
  rewrite write_header_small by (rewrite Hsz; destruct (mvhd_version v =? 1); reflexivity).
  rewrite mvhd_code.
  rewrite write_header_ext_small by assumption.
  unfold wr_matrix.
  destruct (N.eqb_spec (mvhd_version v) 1) as [E1|E1].
  - enc_norm. rewrite wfin_wr_zeros_bind, wout_wr_zeros_bind. enc_norm. split; [reflexivity|].
    rewrite <- !app_assoc. reflexivity.
  - destruct (N.eqb_spec (mvhd_version v) 0) as [E0|E0]; [|exfalso; clear -H E0 E1; lia].
    enc_norm. rewrite wfin_wr_zeros_bind, wout_wr_zeros_bind. enc_norm. split; [reflexivity|].
    split_andb. rewrite !cast_u32_small by assumption.
    rewrite <- !app_assoc. reflexivity.
Qed.

Lemma mvhd_dec m v d l p post : mvhd_wf v = true -> p + mvhd_size v < 2^63 -> 
  run (dec_mvhd m (mvhd_size v)) (mkStream d l (p + 8) (mvhd_payload v ++ post))
  = (Ok v, mkStream d l (p + mvhd_size v) post).
Proof.
  intros H Hp. unfold dec_mvhd, mvhd_payload. 
  unfold mvhd_wf, matrix_wf in H. split_andb.
  match goal with H : mvhd_version v <? 2 = true |- _ => 
     pose proof (ufit_version _ H) as Hv1; apply N.ltb_lt in H; pose proof (mvhd_size_eq v H) as Hsz end.
  rewrite <- !app_assoc.
  prog_norm. cbn [run s_pos].
  rewrite run_sub64_ok by (clear; unfold HEADER_SIZE, Tables.HEADER_SIZE; lia).
  do 2 rd_step.
  destruct (N.eqb_spec (mvhd_version v) 1) as [E1|E1].
  - cbv iota in *. split_andb. rewrite <- !app_assoc.
    do 8 rd_step. unfold rd_matrix. do 9 rd_step.
    prog_norm.
    rewrite (run_SeekRel_app _ 24 (repeat 0 24)) by (first [reflexivity | clear -Hsz Hp; lia]).
    rd_step.
    rewrite run_add64_ok by (clear -Hsz Hp; unfold HEADER_SIZE, Tables.HEADER_SIZE, U64; lia).
    prog_norm.
    rewrite run_SeekTo_here by (clear -Hsz; unfold HEADER_SIZE, Tables.HEADER_SIZE; lia).
    cbn [run]. f_equal.
    + destruct v as [? ? ? ? ? ? ? ? [] ?]; reflexivity.
    + f_equal. clear -Hsz. lia.
  - destruct (N.eqb_spec (mvhd_version v) 0) as [E0|E0]; [|exfalso; clear -H E0 E1; lia].
    cbv iota in *. split_andb. rewrite <- !app_assoc.
    do 8 rd_step. unfold rd_matrix. do 9 rd_step.
    prog_norm.
    rewrite (run_SeekRel_app _ 24 (repeat 0 24)) by (first [reflexivity | clear -Hsz Hp; lia]).
    rd_step.
    rewrite run_add64_ok by (clear -Hsz Hp; unfold HEADER_SIZE, Tables.HEADER_SIZE, U64; lia).
    prog_norm.
    rewrite run_SeekTo_here by (clear -Hsz; unfold HEADER_SIZE, Tables.HEADER_SIZE; lia).
    cbn [run]. f_equal.
    + destruct v as [? ? ? ? ? ? ? ? [] ?]; reflexivity.
    + f_equal. clear -Hsz. lia.
Qed.

Lemma mvhd_payload_len v : mvhd_wf v = true -> lenN (mvhd_payload v) + 8 = mvhd_size v.
Proof.
  intros H. unfold mvhd_wf in H. split_andb.
  match goal with H : mvhd_version v <? 2 = true |- _ => apply N.ltb_lt in H; rewrite (mvhd_size_eq v H) end.
  unfold mvhd_payload. destruct (mvhd_version v =? 1);
    rewrite ?lenN_app, ?lenN_be, ?lenN_repeat; reflexivity.
Qed.

Lemma mvhd_appender v : mvhd_wf v = true -> mvhd_size v < U32 -> appender (enc_mvhd v).
Proof.
  intros H Hs. unfold enc_mvhd. rewrite write_header_small by exact Hs.
  unfold mvhd_wf in H. split_andb.
  rewrite write_header_ext_small by assumption. unfold wr_matrix.
  destruct (mvhd_version v =? 1); [|destruct (mvhd_version v =? 0)];
    cbn [wbind appender wr wr_u8 wr_u16 wr_u32 wr_u64 wr_u wr_i32 wr_i];
    repeat (apply appender_bind; [try exact I; apply wr_zeros_out | intros]); exact I.
Qed.

Theorem mvhd_roundtrip : leaf_roundtrip mvhd_wf mvhd_size 0x6d766864 enc_mvhd dec_mvhd mvhd_payload.
Proof.
  intros v H Hs. destruct (mvhd_enc v H) as [H1 H2].
  split; [exact H1|]. split; [now apply mvhd_appender|]. split; [exact H2|].
  split; [now apply mvhd_payload_len|].
  intros m d l p post Hp. now apply mvhd_dec.
Qed.
