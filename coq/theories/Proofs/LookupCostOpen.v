(** * C07, the lookups (part 3): the weight of the tables of an opened file is at most the number of
      stream calls the opening made, hence linear in the length of the file

    [LookupCost.v] bounds the loop iterations of every lookup by [table_weight] (the number of entries
    of all tables and runs of the track).  Here: every table entry a decoder returns was read by at
    least one successful [read_exact], and every traf was announced by a header that was read; so
    for a reader [r] returned by [open_fuel],

      [table_weight (track_view t) <= c_ops k]      for every track [t] of [r]

    where [k] is the cost of the opening run ([mrun], Base/Cost.v), and [c_ops k] is bounded by
    [open_A * lenN data + open_B] ([CostOpen.open_mrun], the C07 theorem).

    The argument is compositional and independent of the stream state: [ow c w a0] says that whenever
    [c] returns [Ok a] (from any position of any data, with any fuel), [w a <= a0 + c_ops k].  So the
    core fact [open_table_weight_ops] has no hypothesis at all; the hypotheses of
    [open_table_weight] (valid bytes, length below 2^62, fuel above the length) are those of the C07
    cost theorem, which bounds the stream calls.  (The direct argument "each entry was decoded from
    at least 4 bytes of its box and the boxes are disjoint pieces of the file" is not used: boxes are
    not disjoint in general — a child may overhang its parent, whose epilogue then seeks backwards,
    so bytes can be decoded more than once, a bounded number of times per nesting level; the
    constants of [CostOpen] account for exactly that.) *)
From MP4 Require Import Cost Loop Reader CostOpen LookupCost.
From MP4 Require Track.
From Coq Require Import ZArith Lia List.
Open Scope list_scope.
Open Scope N_scope.

(** ** The judgement *)
Definition ow {A} (c : prog A) (w : A -> N) (a0 : N) : Prop :=
  forall d p a p' k, mrun c d p = (Ok a, p', k) -> w a <= a0 + c_ops k.

Lemma ow_Ret {A} (a : A) (w : A -> N) a0 : w a <= a0 -> ow (Ret a) w a0.
Proof.
  intros H d p a' p' k E. rewrite mrun_Ret in E. injection E as E1 E2 E3. subst. cbn [c_ops c0]. lia.
Qed.
Lemma ow_Throw {A} e (w : A -> N) a0 : ow (Throw e) w a0.
Proof. intros d p a' p' k E. rewrite mrun_Throw in E. discriminate E. Qed.
Lemma ow_Crash {A} x (w : A -> N) a0 : ow (Crash x) w a0.
Proof. intros d p a' p' k E. rewrite mrun_Crash in E. discriminate E. Qed.
Lemma ow_Spin {A} (w : A -> N) a0 : ow Spin w a0.
Proof. intros d p a' p' k E. rewrite mrun_Spin in E. discriminate E. Qed.

Lemma ow_lift {A} (r : res A) (w : A -> N) a0 : (forall a, r = Ok a -> w a <= a0) -> ow (lift r) w a0.
Proof.
  intros H d p a' p' k E. rewrite mrun_lift in E. injection E as E1 E2 E3. subst.
  specialize (H a' eq_refl). cbn [c_ops c0]. lia.
Qed.

Lemma ow_bind {A B} (c : prog A) (f : A -> prog B) (w1 : A -> N) (w : B -> N) a0 :
  ow c w1 a0 -> (forall x, ow (f x) w (w1 x)) -> ow (bind c f) w a0.
Proof.
  intros Hc Hf d p b p' k E. rewrite mrun_bind in E.
  destruct (mrun c d p) as [[r p1] k1] eqn:Ec. destruct r as [x|e|s|]; try discriminate E.
  destruct (mrun (f x) d p1) as [[r2 p2] k2] eqn:Ef. injection E as E1 E2 E3. subst.
  specialize (Hc _ _ _ _ _ Ec). specialize (Hf x _ _ _ _ _ Ef). cbn [cadd c_ops]. lia.
Qed.

Lemma ow_const {A} (c : prog A) a0 : ow c (fun _ => a0) a0.
Proof. intros d p a p' k _. lia. Qed.

(** a part whose result carries no weight *)
Lemma ow_bind_skip {A B} (c : prog A) (f : A -> prog B) (w : B -> N) a0 :
  (forall x, ow (f x) w a0) -> ow (bind c f) w a0.
Proof. intros H. eapply ow_bind; [apply ow_const|exact H]. Qed.

Lemma ow_weaken {A} (c : prog A) (w w' : A -> N) a0 a1 :
  ow c w a0 -> a0 <= a1 -> (forall a, w' a <= w a) -> ow c w' a1.
Proof. intros H H1 H2 d p a p' k E. specialize (H _ _ _ _ _ E). specialize (H2 a). lia. Qed.

(** the weight may be stated relative to what was spent before *)
Lemma ow_shift {A} (c : prog A) (w : A -> N) a0 : ow c w 0 -> ow c (fun x => a0 + w x) a0.
Proof. intros H d p a p' k E. specialize (H _ _ _ _ _ E). lia. Qed.

(** ** Computations whose success costs at least one stream call *)
Definition costs1 {A} (c : prog A) : Prop :=
  forall d p a p' k, mrun c d p = (Ok a, p', k) -> 1 <= c_ops k.

Lemma costs1_RdExact {A} n (k : bytes -> prog A) : n <> 0 -> costs1 (RdExact n k).
Proof.
  intros Hn d p a p' k0 E.
  destruct (mrun_RdExact n k d p Hn) as [(_ & h & _ & _ & E1)|(_ & E1)]; rewrite E1 in E.
  - destruct (mrun (k h) d (p + n)) as [[r q] c]. injection E as _ _ E3. subst k0.
    cbn [cadd c_rd c_ops]. lia.
  - discriminate E.
Qed.

Lemma costs1_bind {A B} (c : prog A) (f : A -> prog B) : costs1 c -> costs1 (bind c f).
Proof.
  intros Hc d p b p' k E. rewrite mrun_bind in E.
  destruct (mrun c d p) as [[r p1] k1] eqn:Ec. destruct r as [x|e|s|]; try discriminate E.
  destruct (mrun (f x) d p1) as [[r2 p2] k2]. injection E as _ _ E3. subst k.
  specialize (Hc _ _ _ _ _ Ec). cbn [cadd c_ops]. lia.
Qed.

Lemma costs1_rd_u32 : costs1 rd_u32.
Proof. apply costs1_RdExact. discriminate. Qed.
Lemma costs1_rd_u64 : costs1 rd_u64.
Proof. apply costs1_RdExact. discriminate. Qed.
Lemma costs1_read_header : costs1 read_header.
Proof. unfold read_header. apply costs1_bind. apply costs1_RdExact. discriminate. Qed.

Lemma ow_bind1 {A B} (c : prog A) (f : A -> prog B) (w : B -> N) a0 :
  costs1 c -> (forall x, ow (f x) w (a0 + 1)) -> ow (bind c f) w a0.
Proof.
  intros Hc H. apply (ow_bind c f (fun _ => a0 + 1)); [|exact H].
  intros d p a p' k E. specialize (Hc _ _ _ _ _ E). lia.
Qed.

(** ** Sums of weights *)
Fixpoint sumw {A} (w : A -> N) (l : list A) : N :=
  match l with
  | [] => 0
  | x :: t => w x + sumw w t
  end.

Lemma sumw_app {A} (w : A -> N) l1 l2 : sumw w (l1 ++ l2) = sumw w l1 + sumw w l2.
Proof. induction l1 as [|x t IH]; cbn [app sumw]; [reflexivity|]. rewrite IH. lia. Qed.

Lemma sumw_one {A} (l : list A) : sumw (fun _ => 1) l = lenN l.
Proof. induction l as [|x t IH]; [reflexivity|]. cbn [sumw]. rewrite lenN_cons, IH. reflexivity. Qed.

Lemma sumw_In {A} (w : A -> N) l x : In x l -> w x <= sumw w l.
Proof.
  induction l as [|y t IH]; cbn [In sumw]; [contradiction|]. intros [->|H]; [lia|]. specialize (IH H). lia.
Qed.

Lemma lenN_map {A B} (f : A -> B) l : lenN (map f l) = lenN l.
Proof. unfold lenN. now rewrite map_length. Qed.

(** ** Counted loops *)
Lemma ow_rd_n {A} (body : prog A) (wx : A -> N) : ow body wx 0 ->
  forall n a0, ow (rd_n n body) (fun l => a0 + sumw wx l) a0.
Proof.
  intros Hb. induction n as [|n IH]; intros a0; cbn [rd_n].
  - apply ow_Ret. cbn [sumw]. lia.
  - apply (ow_bind body _ (fun x => a0 + wx x)); [now apply ow_shift|]. intros x.
    eapply ow_bind; [apply (IH (a0 + wx x))|]. intros r. apply ow_Ret. cbn [sumw]. lia.
Qed.

Lemma ow_rd_n_len {A} (body : prog A) : costs1 body ->
  forall n a0, ow (rd_n n body) (fun l => a0 + lenN l) a0.
Proof.
  intros Hb n a0. eapply ow_weaken; [apply (ow_rd_n body (fun _ => 1))|apply N.le_refl|].
  - intros d p a p' k E. specialize (Hb _ _ _ _ _ E). lia.
  - intros l. cbn beta. rewrite sumw_one. lia.
Qed.

(** ** The child-box loop: every iteration has read a header (one stream call), so [dispatch] may
    add one more than it spends *)
Lemma ow_children_loop_gen {Acc R : Type} m cs cz end_
      (dispatch : nat -> N -> boxtype -> N -> Acc -> prog Acc) (fin : Acc -> N -> R)
      (wacc : Acc -> N) (w : R -> N) :
  (forall acc c, w (fin acc c) <= wacc acc) ->
  (forall f cur name s acc, ow (dispatch f cur name s acc) wacc (wacc acc + 1)) ->
  forall fuel acc cur, ow (children_loop_gen fuel m cs cz end_ dispatch fin acc cur) w (wacc acc).
Proof.
  intros Hfin Hdisp. induction fuel as [|fuel IH]; intros acc cur; rewrite children_loop_gen_eq.
  - destruct (cur <? end_); [apply ow_Spin|apply ow_Ret, Hfin].
  - destruct (cur <? end_); [|apply ow_Ret, Hfin].
    apply ow_bind1; [exact costs1_read_header|]. intros [name s]. cbn beta iota.
    destruct (match cs with Some size => size <? s | None => false end); [apply ow_Throw|].
    destruct (cz && (s =? 0)).
    + apply ow_Ret. specialize (Hfin acc cur). lia.
    + eapply ow_bind; [apply Hdisp|]. intros acc'. apply ow_bind_skip. intros cur'. apply IH.
Qed.

Lemma ow_children_loop {Acc : Type} m cs cz end_
      (dispatch : nat -> boxtype -> N -> Acc -> prog Acc) (wacc : Acc -> N) :
  (forall f name s acc, ow (dispatch f name s acc) wacc (wacc acc + 1)) ->
  forall fuel acc cur, ow (children_loop fuel m cs cz end_ dispatch acc cur) wacc (wacc acc).
Proof.
  intros H fuel acc cur. unfold children_loop. apply ow_children_loop_gen.
  - intros a c. apply N.le_refl.
  - intros f c name s a. apply H.
Qed.

(** ** Stepping *)
Ltac ow_skip :=
  apply ow_bind_skip; let x := fresh "x" in intros x;
  try (lazymatch type of x with (_ * _)%type => destruct x as [? ?] end); cbn beta iota zeta.

(** an arm [x <- dec .. ;; Ret (..)] or [skip_box .. ;;; Ret a] of a dispatch whose result weighs no
    more than the accumulator did *)
Ltac ow_arm_same := apply ow_bind_skip; intros ?; apply ow_Ret.

(** ** The sample-table boxes: one weight unit per entry *)
Lemma ow_dec_stco m size a0 : ow (dec_stco m size) (fun v => a0 + lenN (stco_entries v)) a0.
Proof.
  unfold dec_stco. do 3 ow_skip. destruct (_ <? _); [apply ow_Throw|]. ow_skip.
  eapply ow_bind; [apply (ow_rd_n_len rd_u32 costs1_rd_u32)|]. intros l. cbn beta.
  do 2 ow_skip. apply ow_Ret. cbn [stco_entries]. lia.
Qed.

Lemma ow_dec_co64 m size a0 : ow (dec_co64 m size) (fun v => a0 + lenN (co64_entries v)) a0.
Proof.
  unfold dec_co64. do 3 ow_skip. destruct (_ <? _); [apply ow_Throw|]. ow_skip.
  eapply ow_bind; [apply (ow_rd_n_len rd_u64 costs1_rd_u64)|]. intros l. cbn beta.
  do 2 ow_skip. apply ow_Ret. cbn [co64_entries]. lia.
Qed.

Lemma ow_dec_stss m size a0 : ow (dec_stss m size) (fun v => a0 + lenN (stss_entries v)) a0.
Proof.
  unfold dec_stss. do 3 ow_skip. destruct (_ <? _); [apply ow_Throw|]. ow_skip.
  eapply ow_bind; [apply (ow_rd_n_len rd_u32 costs1_rd_u32)|]. intros l. cbn beta.
  do 2 ow_skip. apply ow_Ret. cbn [stss_entries]. lia.
Qed.

Lemma costs1_stts_rd_entry : costs1 stts_rd_entry.
Proof. unfold stts_rd_entry. apply costs1_bind, costs1_rd_u32. Qed.
Lemma costs1_ctts_rd_entry : costs1 ctts_rd_entry.
Proof. unfold ctts_rd_entry. apply costs1_bind, costs1_rd_u32. Qed.
Lemma costs1_stsc_rd_entry : costs1 stsc_rd_entry.
Proof. unfold stsc_rd_entry. apply costs1_bind, costs1_rd_u32. Qed.

Lemma ow_dec_stts m size a0 : ow (dec_stts m size) (fun v => a0 + lenN (stts_entries v)) a0.
Proof.
  unfold dec_stts. do 3 ow_skip. destruct (_ <? _); [apply ow_Throw|]. ow_skip.
  eapply ow_bind; [apply (ow_rd_n_len stts_rd_entry costs1_stts_rd_entry)|]. intros l. cbn beta.
  do 2 ow_skip. apply ow_Ret. cbn [stts_entries]. lia.
Qed.

Lemma ow_dec_ctts m size a0 : ow (dec_ctts m size) (fun v => a0 + lenN (ctts_entries v)) a0.
Proof.
  unfold dec_ctts. do 3 ow_skip. destruct (_ <? _); [apply ow_Throw|]. ow_skip.
  eapply ow_bind; [apply (ow_rd_n_len ctts_rd_entry costs1_ctts_rd_entry)|]. intros l. cbn beta.
  do 2 ow_skip. apply ow_Ret. cbn [ctts_entries]. lia.
Qed.

(** [stsc_fill] returns as many entries as it was given *)
Lemma ow_stsc_fill es : forall sid a0, ow (stsc_fill es sid) (fun r => a0 + lenN r) (a0 + lenN es).
Proof.
  induction es as [|e t IH]; intros sid a0; cbn [stsc_fill].
  - apply ow_Ret. cbn beta. lia.
  - rewrite lenN_cons, N.add_assoc. apply ow_bind_skip. intros _. cbn zeta. destruct t as [|nx t'].
    + apply ow_Ret. cbn beta. rewrite lenN_cons, !lenN_nil. lia.
    + destruct (stsc_next_id e nx sid) as [sid'|]; [|apply ow_Throw].
      eapply ow_bind; [apply (IH sid' (a0 + 1))|]. intros r. apply ow_Ret. cbn beta.
      rewrite (lenN_cons _ r). lia.
Qed.

Lemma ow_dec_stsc m size a0 : ow (dec_stsc m size) (fun v => a0 + lenN (stsc_entries v)) a0.
Proof.
  unfold dec_stsc. do 3 ow_skip. destruct (_ <? _); [apply ow_Throw|]. ow_skip.
  eapply ow_bind; [apply (ow_rd_n_len stsc_rd_entry costs1_stsc_rd_entry)|]. intros l. cbn beta.
  eapply ow_bind; [apply ow_stsc_fill|]. intros l'. cbn beta.
  do 2 ow_skip. apply ow_Ret. cbn [stsc_entries]. lia.
Qed.

Lemma ow_dec_stsz m size a0 : ow (dec_stsz m size) (fun v => a0 + lenN (stsz_sample_sizes v)) a0.
Proof.
  unfold dec_stsz. do 4 ow_skip.
  apply (ow_bind _ _ (fun l => a0 + lenN l)).
  - destruct (_ =? 0).
    + ow_skip. destruct (_ <? _); [apply ow_Throw|]. ow_skip.
      apply (ow_rd_n_len rd_u32 costs1_rd_u32).
    + apply ow_Ret. rewrite lenN_nil. lia.
  - intros l. do 2 ow_skip. apply ow_Ret. cbn [stsz_sample_sizes]. lia.
Qed.

(** ** trun: a row weighs the per-sample fields it holds for the lookups (duration, size, cts) *)
Definition trun_row_w (r : trun_row) : N :=
  lenN (trun_olist (trun_row_d r)) + lenN (trun_olist (trun_row_s r)) + lenN (trun_olist (trun_row_c r)).

Lemma ow_trun_rd_opt b a0 : ow (trun_rd_opt b) (fun o => a0 + lenN (trun_olist o)) a0.
Proof.
  unfold trun_rd_opt. destruct b.
  - apply ow_bind1; [exact costs1_rd_u32|]. intros x. apply ow_Ret. cbn [trun_olist]. rewrite lenN_cons, lenN_nil. lia.
  - apply ow_Ret. cbn [trun_olist]. rewrite lenN_nil. lia.
Qed.

Lemma ow_trun_rd_row flags : ow (trun_rd_row flags) trun_row_w 0.
Proof.
  unfold trun_rd_row.
  eapply ow_bind; [apply (ow_trun_rd_opt _ 0)|]. intros d. cbn beta.
  eapply ow_bind; [apply ow_trun_rd_opt|]. intros s. cbn beta.
  apply ow_bind_skip. intros f.
  eapply ow_bind; [apply ow_trun_rd_opt|]. intros c. cbn beta.
  apply ow_Ret. unfold trun_row_w, trun_row_d, trun_row_s, trun_row_c. cbn [fst snd]. lia.
Qed.

Definition w_trun (v : trun) : N :=
  lenN (trun_sample_durations v) + lenN (trun_sample_sizes v) + lenN (trun_sample_cts v).

Lemma trun_rows_w rows :
  lenN (flat_map (fun r => trun_olist (trun_row_d r)) rows)
  + lenN (flat_map (fun r => trun_olist (trun_row_s r)) rows)
  + lenN (flat_map (fun r => trun_olist (trun_row_c r)) rows) = sumw trun_row_w rows.
Proof.
  induction rows as [|r t IH]; cbn [flat_map sumw]; [reflexivity|].
  rewrite !lenN_app, <- IH. unfold trun_row_w. lia.
Qed.

Lemma ow_dec_trun m size a0 : ow (dec_trun m size) (fun v => a0 + w_trun v) a0.
Proof.
  unfold dec_trun. do 5 ow_skip. destruct (_ <? _); [apply ow_Throw|]. do 4 ow_skip.
  eapply ow_bind; [apply (ow_rd_n _ _ (ow_trun_rd_row _))|]. intros rows. cbn beta.
  do 2 ow_skip. apply ow_Ret. unfold w_trun.
  cbn [trun_sample_durations trun_sample_sizes trun_sample_cts]. rewrite trun_rows_w. lia.
Qed.

(** ** stbl *)
Definition ow_opt {A} (w : A -> N) (o : option A) : N := match o with Some x => w x | None => 0 end.

Definition w_stbl (v : stbl) : N :=
  lenN (stsc_entries (stbl_stsc v)) + lenN (stsz_sample_sizes (stbl_stsz v))
  + ow_opt (fun x => lenN (stco_entries x)) (stbl_stco v)
  + ow_opt (fun x => lenN (co64_entries x)) (stbl_co64 v)
  + lenN (stts_entries (stbl_stts v))
  + ow_opt (fun x => lenN (ctts_entries x)) (stbl_ctts v)
  + ow_opt (fun x => lenN (stss_entries x)) (stbl_stss v).

Definition w_stbl_acc (a : stbl_acc) : N :=
  ow_opt (fun x => lenN (stsc_entries x)) (sa_stsc a) + ow_opt (fun x => lenN (stsz_sample_sizes x)) (sa_stsz a)
  + ow_opt (fun x => lenN (stco_entries x)) (sa_stco a)
  + ow_opt (fun x => lenN (co64_entries x)) (sa_co64 a)
  + ow_opt (fun x => lenN (stts_entries x)) (sa_stts a)
  + ow_opt (fun x => lenN (ctts_entries x)) (sa_ctts a)
  + ow_opt (fun x => lenN (stss_entries x)) (sa_stss a).

Ltac stbl_arm L :=
  eapply ow_bind; [apply L|]; intros ?; apply ow_Ret; unfold w_stbl_acc;
  cbn [sa_stsd sa_stts sa_ctts sa_stss sa_stsc sa_stsz sa_stco sa_co64 ow_opt]; lia.

Lemma ow_stbl_dispatch m b f name s a :
  ow (stbl_dispatch m f name s a) (fun a' => b + w_stbl_acc a') (b + w_stbl_acc a + 1).
Proof.
  destruct name; cbn [stbl_dispatch];
    try (ow_arm_same; unfold w_stbl_acc;
         cbn [sa_stsd sa_stts sa_ctts sa_stss sa_stsc sa_stsz sa_stco sa_co64 ow_opt]; lia).
  - stbl_arm ow_dec_stts.
  - stbl_arm ow_dec_ctts.
  - stbl_arm ow_dec_stss.
  - stbl_arm ow_dec_stsc.
  - stbl_arm ow_dec_stsz.
  - stbl_arm ow_dec_stco.
  - stbl_arm ow_dec_co64.
Qed.

Lemma ow_dec_stbl fuel m size a0 : ow (dec_stbl_fuel fuel m size) (fun v => a0 + w_stbl v) a0.
Proof.
  unfold dec_stbl_fuel. do 3 ow_skip.
  apply (ow_bind _ _ (fun a => a0 + w_stbl_acc a)).
  - eapply ow_weaken; [apply (ow_children_loop m _ _ _ _ (fun a => a0 + w_stbl_acc a))| |intros; apply N.le_refl].
    + intros f name s a. apply ow_stbl_dispatch.
    + unfold w_stbl_acc, stbl_acc0. cbn [sa_stsd sa_stts sa_ctts sa_stss sa_stsc sa_stsz sa_stco sa_co64 ow_opt]. lia.
  - intros [sd ts ct ss sc sz co c64]. cbn [sa_stsd sa_stts sa_ctts sa_stss sa_stsc sa_stsz sa_stco sa_co64].
    destruct sd as [sd|]; [|apply ow_Throw]. destruct ts as [ts|]; [|apply ow_Throw].
    destruct sc as [sc|]; [|apply ow_Throw]. destruct sz as [sz|]; [|apply ow_Throw].
    destruct co as [co|], c64 as [c64|]; try apply ow_Throw;
      (do 2 ow_skip; apply ow_Ret; unfold w_stbl, w_stbl_acc;
       cbn [sa_stsd sa_stts sa_ctts sa_stss sa_stsc sa_stsz sa_stco sa_co64 ow_opt
            stbl_stsd stbl_stts stbl_ctts stbl_stss stbl_stsc stbl_stsz stbl_stco stbl_co64]; lia).
Qed.

(** ** minf, mdia, trak *)
Definition w_minf (v : minf) : N := w_stbl (minf_stbl v).
Definition w_mdia (v : mdia) : N := w_minf (mdia_minf v).
Definition w_trak (v : trak) : N := w_mdia (trak_mdia v).

Lemma ow_minf_dispatch m b f name s a :
  ow (minf_dispatch m f name s a) (fun a' => b + ow_opt w_stbl (snd a')) (b + ow_opt w_stbl (snd a) + 1).
Proof.
  destruct a as [[[vm sm] di] st]. destruct name; cbn [minf_dispatch];
    try (ow_arm_same; cbn [snd]; lia).
  eapply ow_bind; [apply ow_dec_stbl|]. intros x. apply ow_Ret. cbn [snd ow_opt]. lia.
Qed.

Lemma ow_dec_minf fuel m size a0 : ow (dec_minf_fuel fuel m size) (fun v => a0 + w_minf v) a0.
Proof.
  unfold dec_minf_fuel. do 3 ow_skip.
  apply (ow_bind _ _ (fun a => a0 + ow_opt w_stbl (snd a))).
  - eapply ow_weaken; [apply (ow_children_loop m _ _ _ _ (fun a => a0 + ow_opt w_stbl (snd a)))| |intros; apply N.le_refl].
    + intros f name s a. apply ow_minf_dispatch.
    + cbn [snd ow_opt]. lia.
  - intros [[[vm sm] di] st]. cbn [snd]. destruct di as [di|]; [|apply ow_Throw].
    destruct st as [st|]; [|apply ow_Throw]. do 2 ow_skip. apply ow_Ret.
    unfold w_minf. cbn [minf_stbl ow_opt]. lia.
Qed.

Lemma ow_mdia_dispatch m b f name s a :
  ow (mdia_dispatch m f name s a) (fun a' => b + ow_opt w_minf (snd a')) (b + ow_opt w_minf (snd a) + 1).
Proof.
  destruct a as [[md hd] mi]. destruct name; cbn [mdia_dispatch];
    try (ow_arm_same; cbn [snd]; lia).
  eapply ow_bind; [apply ow_dec_minf|]. intros x. apply ow_Ret. cbn [snd ow_opt]. lia.
Qed.

Lemma ow_dec_mdia fuel m size a0 : ow (dec_mdia_fuel fuel m size) (fun v => a0 + w_mdia v) a0.
Proof.
  unfold dec_mdia_fuel. do 3 ow_skip.
  apply (ow_bind _ _ (fun a => a0 + ow_opt w_minf (snd a))).
  - eapply ow_weaken; [apply (ow_children_loop m _ _ _ _ (fun a => a0 + ow_opt w_minf (snd a)))| |intros; apply N.le_refl].
    + intros f name s a. apply ow_mdia_dispatch.
    + cbn [snd ow_opt]. lia.
  - intros [[md hd] mi]. cbn [snd]. destruct md as [md|]; [|apply ow_Throw].
    destruct hd as [hd|]; [|apply ow_Throw]. destruct mi as [mi|]; [|apply ow_Throw].
    do 2 ow_skip. apply ow_Ret. unfold w_mdia. cbn [mdia_minf ow_opt]. lia.
Qed.

Lemma ow_trak_dispatch m b f name s a :
  ow (trak_dispatch m f name s a) (fun a' => b + ow_opt w_mdia (snd a')) (b + ow_opt w_mdia (snd a) + 1).
Proof.
  destruct a as [[[tk ed] me] md]. destruct name; cbn [trak_dispatch];
    try (ow_arm_same; cbn [snd]; lia).
  eapply ow_bind; [apply ow_dec_mdia|]. intros x. apply ow_Ret. cbn [snd ow_opt]. lia.
Qed.

Lemma ow_dec_trak fuel m size a0 : ow (dec_trak_fuel fuel m size) (fun v => a0 + w_trak v) a0.
Proof.
  unfold dec_trak_fuel. do 3 ow_skip.
  apply (ow_bind _ _ (fun a => a0 + ow_opt w_mdia (snd a))).
  - eapply ow_weaken; [apply (ow_children_loop m _ _ _ _ (fun a => a0 + ow_opt w_mdia (snd a)))| |intros; apply N.le_refl].
    + intros f name s a. apply ow_trak_dispatch.
    + cbn [snd ow_opt]. lia.
  - intros [[[tk ed] me] md]. cbn [snd]. destruct tk as [tk|]; [|apply ow_Throw].
    destruct md as [md|]; [|apply ow_Throw]. do 2 ow_skip. apply ow_Ret.
    unfold w_trak. cbn [trak_mdia ow_opt]. lia.
Qed.

(** ** moov: the sum over its traks *)
Definition w_moov (v : moov) : N := sumw w_trak (moov_traks v).

Lemma ow_moov_dispatch m b f name s a :
  ow (moov_dispatch m f name s a) (fun a' => b + sumw w_trak (snd a')) (b + sumw w_trak (snd a) + 1).
Proof.
  destruct a as [[[[mh me] ud] mx] tr]. destruct name; cbn [moov_dispatch];
    try (ow_arm_same; cbn [snd]; lia).
  eapply ow_bind; [apply ow_dec_trak|]. intros x. apply ow_Ret. cbn [snd].
  rewrite sumw_app. cbn [sumw]. lia.
Qed.

Lemma ow_dec_moov fuel m size a0 : ow (dec_moov_fuel fuel m size) (fun v => a0 + w_moov v) a0.
Proof.
  unfold dec_moov_fuel. do 3 ow_skip.
  apply (ow_bind _ _ (fun a => a0 + sumw w_trak (snd a))).
  - eapply ow_weaken; [apply (ow_children_loop m _ _ _ _ (fun a => a0 + sumw w_trak (snd a)))| |intros; apply N.le_refl].
    + intros f name s a. apply ow_moov_dispatch.
    + cbn [snd sumw]. lia.
  - intros [[[[mh me] ud] mx] tr]. cbn [snd]. destruct mh as [mh|]; [|apply ow_Throw].
    do 2 ow_skip. apply ow_Ret. unfold w_moov. cbn [moov_traks]. lia.
Qed.

(** ** traf (one unit for the traf itself, granted by the loop of the moof), moof *)
Definition w_traf0 (v : traf) : N := ow_opt w_trun (traf_trun v).
Definition w_traf (v : traf) : N := 1 + w_traf0 v.
Definition w_moof (v : moof) : N := sumw w_traf (moof_trafs v).

Lemma ow_traf_dispatch m b f name s a :
  ow (traf_dispatch m f name s a) (fun a' => b + ow_opt w_trun (snd a')) (b + ow_opt w_trun (snd a) + 1).
Proof.
  destruct a as [[fh fd] ru]. destruct name; cbn [traf_dispatch];
    try (ow_arm_same; cbn [snd]; lia).
  eapply ow_bind; [apply ow_dec_trun|]. intros x. apply ow_Ret. cbn [snd ow_opt]. lia.
Qed.

Lemma ow_dec_traf fuel m size a0 : ow (dec_traf_fuel fuel m size) (fun v => a0 + w_traf0 v) a0.
Proof.
  unfold dec_traf_fuel. do 3 ow_skip.
  apply (ow_bind _ _ (fun a => a0 + ow_opt w_trun (snd a))).
  - eapply ow_weaken; [apply (ow_children_loop m _ _ _ _ (fun a => a0 + ow_opt w_trun (snd a)))| |intros; apply N.le_refl].
    + intros f name s a. apply ow_traf_dispatch.
    + cbn [snd ow_opt]. lia.
  - intros [[fh fd] ru]. cbn [snd]. destruct fh as [fh|]; [|apply ow_Throw].
    do 2 ow_skip. apply ow_Ret. unfold w_traf0. cbn [traf_trun]. lia.
Qed.

Lemma ow_moof_dispatch m b f name s a :
  ow (moof_dispatch m f name s a) (fun a' => b + sumw w_traf (snd a')) (b + sumw w_traf (snd a) + 1).
Proof.
  destruct a as [mh tr]. destruct name; cbn [moof_dispatch];
    try (ow_arm_same; cbn [snd]; lia).
  eapply ow_bind; [apply ow_dec_traf|]. intros x. apply ow_Ret. cbn [snd].
  rewrite sumw_app. cbn [sumw]. unfold w_traf. lia.
Qed.

Lemma ow_dec_moof fuel m size a0 : ow (dec_moof_fuel fuel m size) (fun v => a0 + w_moof v) a0.
Proof.
  unfold dec_moof_fuel. do 3 ow_skip.
  apply (ow_bind _ _ (fun a => a0 + sumw w_traf (snd a))).
  - eapply ow_weaken; [apply (ow_children_loop m _ _ _ _ (fun a => a0 + sumw w_traf (snd a)))| |intros; apply N.le_refl].
    + intros f name s a. apply ow_moof_dispatch.
    + cbn [snd sumw]. lia.
  - intros [mh tr]. cbn [snd]. destruct mh as [mh|]; [|apply ow_Throw].
    do 2 ow_skip. apply ow_Ret. unfold w_moof. cbn [moof_trafs]. lia.
Qed.

(** ** The views: the weight of [track_view t] is the weight of its trak plus that of its trafs *)
Lemma tables_weight_stbl s : tables_weight (stbl_tables s) = w_stbl s.
Proof.
  unfold tables_weight, stbl_tables, w_stbl.
  cbn [Track.t_stsc Track.t_stsz_sizes Track.t_stco Track.t_co64 Track.t_stts Track.t_ctts Track.t_stss].
  rewrite !lenN_map.
  destruct (stbl_stco s), (stbl_co64 s), (stbl_ctts s), (stbl_stss s); cbn [option_map olen ow_opt];
    rewrite ?lenN_map; reflexivity.
Qed.

Lemma fragrun_weight_traf t off : fragrun_weight (traf_fragrun t off) = w_traf t.
Proof.
  unfold fragrun_weight, traf_fragrun, w_traf, w_traf0, w_trun.
  cbn [Track.fr_durations Track.fr_sizes Track.fr_cts]. destruct (traf_trun t) as [x|]; cbn [ow_opt].
  - lia.
  - rewrite !lenN_nil. lia.
Qed.

Lemma frags_weight_views trafs : forall offs, frags_weight (frag_views trafs offs) = sumw w_traf trafs.
Proof.
  induction trafs as [|t ts IH]; intros offs; cbn [frag_views frags_weight sumw]; [reflexivity|].
  now rewrite fragrun_weight_traf, IH.
Qed.

Lemma table_weight_view t :
  table_weight (track_view t) = w_trak (mt_trak t) + sumw w_traf (mt_trafs t).
Proof.
  unfold table_weight, track_view. cbn [Track.tr_tables Track.tr_frags].
  now rewrite tables_weight_stbl, frags_weight_views.
Qed.

(** ** The track map: every track holds one trak of the moov and some of the trafs of the moofs *)
Definition track_le (Wm B : N) (kv : N * mp4track) : Prop :=
  w_trak (mt_trak (snd kv)) <= Wm /\ sumw w_traf (mt_trafs (snd kv)) <= B.

Lemma track_le_mono Wm B B' kv : B <= B' -> track_le Wm B kv -> track_le Wm B' kv.
Proof. intros H [H1 H2]. split; [exact H1|lia]. Qed.

Lemma Forall_filter' {A} (P : A -> Prop) f (l : list A) : Forall P l -> Forall P (filter f l).
Proof.
  induction l as [|x t IH]; cbn [filter]; intros H; [constructor|].
  inversion H as [|? ? Hx Ht]; subst. destruct (f x); [constructor|]; auto.
Qed.

Lemma tracks_insert_le Wm B k v l :
  track_le Wm B (k, v) -> Forall (track_le Wm B) l -> Forall (track_le Wm B) (tracks_insert k v l).
Proof.
  intros Hv Hl. unfold tracks_insert. apply Forall_app. split; [now apply Forall_filter'|].
  constructor; [exact Hv|constructor].
Qed.

Lemma tracks_collect_le Wm ts : (forall t, In t ts -> w_trak t <= Wm) ->
  Forall (track_le Wm 0) (tracks_collect ts).
Proof.
  unfold tracks_collect. intros H.
  assert (G : forall acc, Forall (track_le Wm 0) acc ->
              Forall (track_le Wm 0)
                (fold_left (fun acc t => tracks_insert (tkhd_track_id (trak_tkhd t)) (mp4track_from t) acc) ts acc)).
  { induction ts as [|t ts IH]; intros acc Ha; cbn [fold_left]; [exact Ha|].
    apply IH; [intros t' Ht'; apply H; now right|].
    apply tracks_insert_le; [|exact Ha]. split; cbn [snd mp4track_from mt_trak mt_trafs sumw]; [|lia].
    apply H. now left. }
  apply G. constructor.
Qed.

Lemma attach_trafs_le Wm dsd off trafs : forall B tracks tracks',
  Forall (track_le Wm B) tracks -> attach_trafs dsd off trafs tracks = Ok tracks' ->
  Forall (track_le Wm (B + sumw w_traf trafs)) tracks'.
Proof.
  induction trafs as [|tf rest IH]; intros B tracks tracks' Hl E; cbn [attach_trafs] in E.
  - injection E as <-. cbn [sumw]. rewrite N.add_0_r. exact Hl.
  - destruct (tracks_get (tfhd_track_id (traf_tfhd tf)) tracks); [|discriminate E].
    cbn [sumw]. rewrite N.add_assoc. eapply IH; [|exact E].
    unfold tracks_update. apply Forall_map. revert Hl. apply Forall_impl. intros [k t] [H1 H2].
    cbn [fst snd] in *. destruct (k =? tfhd_track_id (traf_tfhd tf)).
    + split; cbn [snd mt_trak mt_trafs]; [exact H1|]. rewrite sumw_app. cbn [sumw]. lia.
    + split; cbn [snd]; [exact H1|lia].
Qed.

Lemma attach_moofs_le Wm dsd ms : forall B tracks tracks',
  Forall (track_le Wm B) tracks -> attach_moofs dsd ms tracks = Ok tracks' ->
  Forall (track_le Wm (B + sumw (fun p => w_moof (fst p)) ms)) tracks'.
Proof.
  induction ms as [|[mf off] rest IH]; intros B tracks tracks' Hl E; cbn [attach_moofs] in E.
  - injection E as <-. cbn [sumw]. rewrite N.add_0_r. exact Hl.
  - destruct (attach_trafs dsd off (moof_trafs mf) tracks) as [t1| | |] eqn:E1; cbn [res_bind] in E; try discriminate E.
    cbn [sumw fst]. rewrite N.add_assoc. eapply IH; [|exact E].
    unfold w_moof. eapply attach_trafs_le; [exact Hl|exact E1].
Qed.

Lemma sumw_combine_le {A B} (w : A -> N) (l : list A) : forall l' : list B,
  sumw (fun p => w (fst p)) (combine l l') <= sumw w l.
Proof.
  induction l as [|x t IH]; intros l'; cbn [combine sumw]; [lia|].
  destruct l' as [|y t']; cbn [sumw fst]; [lia|]. specialize (IH t'). lia.
Qed.

(** the heaviest track of a track map *)
Fixpoint tracks_maxw (l : list (N * mp4track)) : N :=
  match l with
  | [] => 0
  | kv :: t => N.max (table_weight (track_view (snd kv))) (tracks_maxw t)
  end.

Lemma tracks_maxw_le Wm B l : Forall (track_le Wm B) l -> tracks_maxw l <= Wm + B.
Proof.
  induction l as [|kv t IH]; intros H; cbn [tracks_maxw]; [lia|].
  inversion H as [|? ? [H1 H2] Ht]; subst. specialize (IH Ht). rewrite table_weight_view. lia.
Qed.

Lemma tracks_get_maxw k l t : tracks_get k l = Some t -> table_weight (track_view t) <= tracks_maxw l.
Proof.
  induction l as [|[k' v] rest IH]; cbn [tracks_get tracks_maxw]; [discriminate|]. intros H. cbn [snd].
  destruct (tracks_get k rest) as [v'|].
  - injection H as ->. specialize (IH eq_refl). lia.
  - destruct (k' =? k); [|discriminate H]. injection H as ->. lia.
Qed.

(** ** [Mp4Reader::read_header] *)
Definition w_open_acc (a : open_acc) : N :=
  let '(ft, mv, moofs, offs, emsgs) := a in ow_opt w_moov mv + sumw w_moof moofs.

Lemma ow_open_dispatch m f cur name s a :
  ow (open_dispatch m f cur name s a) w_open_acc (w_open_acc a + 1).
Proof.
  destruct a as [[[[ft mv] moofs] offs] emsgs]. destruct name; cbn [open_dispatch];
    try (ow_arm_same; cbn [w_open_acc]; lia).
  - eapply ow_bind; [apply ow_dec_moov|]. intros x. apply ow_Ret. cbn [w_open_acc ow_opt]. lia.
  - eapply ow_bind; [apply ow_dec_moof|]. intros x. apply ow_Ret. cbn [w_open_acc].
    rewrite sumw_app. cbn [sumw]. lia.
Qed.

Theorem ow_open_fuel fuel m size : ow (open_fuel fuel m size) (fun r => tracks_maxw (rd_tracks r)) 0.
Proof.
  unfold open_fuel. apply ow_bind_skip. intros start.
  apply (ow_bind _ _ (fun r => w_open_acc (fst r))).
  - eapply ow_weaken; [apply (ow_children_loop_gen m _ _ _ _ pair w_open_acc (fun r => w_open_acc (fst r)))| |intros; apply N.le_refl].
    + intros acc c. cbn [fst]. apply N.le_refl.
    + intros f cur name s acc. apply ow_open_dispatch.
    + cbn [w_open_acc ow_opt sumw]. lia.
  - intros [[[[[ft mv] moofs] offs] emsgs] current]. cbn [fst w_open_acc].
    destruct ft as [ft|]; [|apply ow_Throw]. destruct mv as [mv|]; [|apply ow_Throw]. cbn [ow_opt].
    apply ow_bind_skip. intros sz. destruct (existsb _ _); [apply ow_Throw|]. cbn zeta.
    assert (Hc : Forall (track_le (w_moov mv) 0) (tracks_collect (moov_traks mv))).
    { apply tracks_collect_le. intros t Ht. unfold w_moov. now apply sumw_In. }
    apply (ow_bind _ _ tracks_maxw).
    + destruct moofs as [|mf moofs].
      * apply ow_Ret. cbn [sumw]. now apply tracks_maxw_le.
      * apply ow_lift. intros tr E.
        pose proof (attach_moofs_le _ _ _ _ _ _ Hc E) as H. apply tracks_maxw_le in H.
        pose proof (sumw_combine_le w_moof (mf :: moofs) offs). lia.
    + intros tr. apply ow_Ret. cbn [rd_tracks]. apply N.le_refl.
Qed.

(** ** The weight against the stream calls of the opening run: no hypothesis on the data, the
    declared size, the start position or the fuel *)
Theorem open_table_weight_ops : forall data m fuel size p,
  let '(r, _, mt) := runm (open_fuel fuel m size) (stream_at data p) (meter0 None) in
  forall rd, r = Ok rd -> forall tid t, tracks_get tid (rd_tracks rd) = Some t ->
    table_weight (track_view t) <= m_ops mt.
Proof.
  intros data m fuel size p. pose proof (mrun_unfold (open_fuel fuel m size) data p) as U.
  destruct (runm (open_fuel fuel m size) (stream_at data p) (meter0 None)) as [[r s] mt].
  cbn [fst snd] in U. intros rd -> tid t Ht.
  pose proof (ow_open_fuel fuel m size _ _ _ _ _ U) as Hw. cbn beta in Hw.
  pose proof (tracks_get_maxw _ _ _ Ht) as Hg. cbn [cost_of c_ops] in Hw. lia.
Qed.

(** ** The link to the length of the file *)
Theorem open_table_weight : forall data m fuel r s',
  bytes_ok data = true -> lenN data < 2 ^ 62 -> lenN data < N.of_nat fuel ->
  run (open_fuel fuel m (lenN data)) (stream_at data 0) = (Ok r, s') ->
  forall tid t, tracks_get tid (rd_tracks r) = Some t ->
    table_weight (track_view t) <= open_A * lenN data + open_B.
Proof.
  intros data m fuel r s' Hd Hlen Hf E tid t Ht.
  pose proof (open_mrun data Hd Hlen m fuel Hf) as Hc.
  pose proof (mrun_run (open_fuel fuel m (lenN data)) data 0) as Hr.
  destruct (mrun (open_fuel fuel m (lenN data)) data 0) as [[r0 p'] k] eqn:Em.
  rewrite E in Hr. injection Hr as Hr _. subst r0.
  pose proof (ow_open_fuel fuel m (lenN data) _ _ _ _ _ Em) as Hw. cbn beta in Hw.
  pose proof (tracks_get_maxw _ _ _ Ht) as Hg.
  destruct Hc as (_ & Hwork & _). unfold cwork in Hwork. lia.
Qed.

(** the lookups of an opened file: loop iterations linear in the length of the file *)
Definition lookup_A : N := 5 * open_A.
Definition lookup_B : N := 5 * open_B + 1.

Theorem open_read_sample_steps : forall data m fuel r s',
  bytes_ok data = true -> lenN data < 2 ^ 62 -> lenN data < N.of_nat fuel ->
  run (open_fuel fuel m (lenN data)) (stream_at data 0) = (Ok r, s') ->
  forall m' tid t sid, tracks_get tid (rd_tracks r) = Some t ->
    read_sample_steps m' (track_view t) sid <= lookup_A * lenN data + lookup_B
    /\ sample_offset_steps m' (track_view t) sid <= lookup_A * lenN data + lookup_B
    /\ sample_count_steps (track_view t) <= lookup_A * lenN data + lookup_B.
Proof.
  intros data m fuel r s' Hd Hlen Hf E m' tid t sid Ht.
  pose proof (open_table_weight data m fuel r s' Hd Hlen Hf E tid t Ht) as H.
  pose proof (read_sample_steps_weight m' (track_view t) sid) as H1.
  pose proof (sample_offset_steps_weight m' (track_view t) sid) as H2.
  pose proof (sample_count_steps_weight (track_view t)) as H3.
  unfold lookup_A, lookup_B. repeat split; lia.
Qed.

Print Assumptions open_table_weight_ops.
Print Assumptions open_table_weight.
Print Assumptions open_read_sample_steps.
