(** Round trip of [MdiaBox] (mdia.rs) *)
From MP4 Require Import KitCont BoxMdia IsoMdia IsoMdhd IsoHdlr IsoMinf RtMdhd RtHdlr RtMinf.
From Coq Require Import ZifyN ZifyNat ZifyBool.
Open Scope string_scope.
Open Scope list_scope.
Open Scope N_scope.

Lemma mdia_code : u32_of_boxtype (box_type_of "MdiaBox") = 0x6d646961.
Proof. vm_compute. reflexivity. Qed.

Definition mdia_rt_wf (v : mdia) : bool :=
  mdhd_wf (mdia_mdhd v) && hdlr_wf (mdia_hdlr v) && minf_rt_wf (mdia_minf v).

Lemma mdia_bt_mdhd : boxtype_of_u32 0x6d646864 = MdhdBox. Proof. vm_compute. reflexivity. Qed.
Lemma mdia_bt_hdlr : boxtype_of_u32 0x68646c72 = HdlrBox. Proof. vm_compute. reflexivity. Qed.
Lemma mdia_bt_minf : boxtype_of_u32 0x6d696e66 = MinfBox. Proof. vm_compute. reflexivity. Qed.

Definition mdia_u_mdhd (x : mdhd) (a : mdia_acc) : mdia_acc := let '(md, hd, mi) := a in (Some x, hd, mi).
Definition mdia_u_hdlr (x : hdlr) (a : mdia_acc) : mdia_acc := let '(md, hd, mi) := a in (md, Some x, mi).
Definition mdia_u_minf (x : minf) (a : mdia_acc) : mdia_acc := let '(md, hd, mi) := a in (md, hd, Some x).

Definition mdia_i_mdhd := ci_of mdhd_size 0x6d646864 iso_mdhd_payload (fun _ => 0%nat) mdia_u_mdhd.
Definition mdia_i_hdlr := ci_of hdlr_size 0x68646c72 iso_hdlr_payload (fun _ => 0%nat) mdia_u_hdlr.
Definition mdia_i_minf := ci_of minf_size 0x6d696e66 iso_minf_payload (fun _ => 13%nat) mdia_u_minf.

Definition mdia_items (v : mdia) : list (citem mdia_acc) :=
  [mdia_i_mdhd (mdia_mdhd v)] ++ [mdia_i_hdlr (mdia_hdlr v)] ++ [mdia_i_minf (mdia_minf v)].

Ltac mdia_unfold_items := unfold mdia_items, mdia_i_mdhd, mdia_i_hdlr, mdia_i_minf.

Lemma mdia_items_iso v : flat_map ci_iso (mdia_items v) = iso_mdia_payload v.
Proof.
  unfold iso_mdia_payload. mdia_unfold_items.
  cbn [flat_map ci_opt app iso_opt ci_iso ci_of ci_code ci_pl]; rewrite ?app_nil_r; reflexivity.
Qed.

Lemma mdia_items_size v : mdia_size v = 8 + ci_total (mdia_items v).
Proof.
  unfold mdia_size. mdia_unfold_items. rewrite !ci_total_app.
  unfold ci_total; cbn [ci_opt map ci_of ci_size sumN fold_right]; hdr_consts; lia.
Qed.

Lemma mdia_items_fuel v : (length (mdia_items v) + ci_maxneed (mdia_items v) <= 16)%nat.
Proof.
  mdia_unfold_items. rewrite !app_length, !ci_maxneed_app.
  cbn [length ci_opt ci_maxneed ci_need ci_of]; lia.
Qed.

Lemma mdia_items_ok m v : mdia_rt_wf v = true -> mdia_size v < U32 ->
  Forall (ci_ok (mdia_dispatch m)) (mdia_items v).
Proof.
  intros H Hs. apply Forall_ci_ok_total; [| rewrite mdia_items_size in Hs; clear -Hs; lia].
  unfold mdia_rt_wf in H. split_andb.
  unfold mdia_items. repeat apply Forall_app_intro.
  - apply Forall_one. ci_leaf_t (cont_of_leaf _ _ _ _ _ _ mdhd_roundtrip) mdia_bt_mdhd.
  - apply Forall_one. ci_leaf_t (cont_of_leaf _ _ _ _ _ _ hdlr_roundtrip) mdia_bt_hdlr.
  - apply Forall_one. ci_leaf_t (minf_roundtrip Dbg) mdia_bt_minf.
Qed.

Lemma mdia_payload_len v : mdia_rt_wf v = true -> mdia_size v < U32 ->
  lenN (iso_mdia_payload v) + 8 = mdia_size v.
Proof.
  intros H Hs. apply (cont_payload_len (mdia_dispatch Dbg) (mdia_items v)).
  - now apply mdia_items_ok.
  - apply mdia_items_iso.
  - apply mdia_items_size.
Qed.

Ltac mdia_child me Hs :=
  lazymatch goal with
  | |- wspec (enc_mdhd _) _ _ => apply (cont_rt_wspec _ _ _ _ _ _ _ _ (cont_of_leaf _ _ _ _ _ _ mdhd_roundtrip))
  | |- wspec (enc_hdlr _) _ _ => apply (cont_rt_wspec _ _ _ _ _ _ _ _ (cont_of_leaf _ _ _ _ _ _ hdlr_roundtrip))
  | |- wspec (enc_minf _ _) _ _ => apply (cont_rt_wspec _ _ _ _ _ _ _ _ (minf_roundtrip me))
  end;
  [ assumption | let Hs' := fresh "Hs" in pose proof Hs as Hs'; unfold mdia_size in Hs'; cont_size_tac Hs' ].

Lemma mdia_enc me v : mdia_rt_wf v = true -> mdia_size v < U32 ->
  wspec (enc_mdia me v) (mdia_size v) (be 4 (mdia_size v) ++ be 4 0x6d646961 ++ iso_mdia_payload v).
Proof.
  intros H Hs. rewrite <- mdia_code. unfold mdia_rt_wf in H. split_andb.
  unfold enc_mdia, iso_mdia_payload.
  eapply wspec_out.
  - wspec_go; mdia_child me Hs.
  - rewrite <- ?app_assoc, ?app_nil_r. reflexivity.
Qed.

Lemma mdia_dec v fuel m d l p post : mdia_rt_wf v = true -> mdia_size v < U32 ->
  (16 <= fuel)%nat -> p + mdia_size v < 2 ^ 63 ->
  run (dec_mdia_fuel fuel m (mdia_size v)) (mkStream d l (p + 8) (iso_mdia_payload v ++ post))
  = (Ok v, mkStream d l (p + mdia_size v) post).
Proof.
  intros H Hs Hf Hp. unfold dec_mdia_fuel.
  rewrite (cont_dec_items m _ (mdia_size v) (mdia_dispatch m) (mdia_items v) (iso_mdia_payload v));
    [ | now apply mdia_items_ok | apply mdia_items_iso | apply mdia_items_size | exact Hp
      | pose proof (mdia_items_fuel v); lia ].
  mdia_unfold_items. rewrite !ci_fold_app.
  destruct v as [md hd mi].
  cbn [mdia_mdhd mdia_hdlr mdia_minf] in *.
  cbn [ci_fold fold_left ci_opt ci_of ci_upd mdia_u_mdhd mdia_u_hdlr mdia_u_minf];
    apply run_cont_finish; (clear -Hp; lia).
Qed.

Theorem mdia_roundtrip me :
  cont_roundtrip mdia_rt_wf mdia_size 0x6d646961 (enc_mdia me) dec_mdia_fuel iso_mdia_payload (fun _ => 16%nat).
Proof.
  apply cont_roundtrip_intro.
  - apply mdia_enc.
  - apply mdia_payload_len.
  - intros; now apply mdia_dec.
Qed.

Print Assumptions mdia_roundtrip.
