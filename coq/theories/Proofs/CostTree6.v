(** * C07/C08, composition (6): stbl, minf, mdia *)
From MP4 Require Import Cost CostLeaf CostLoop CostCont CostTree CostTree2 CostTree3 CostTree4 CostTree5.
From MP4 Require Import BoxStbl BoxMinf BoxMdia.
From Coq Require Import ZArith ZifyN ZifyNat ZifyBool Lia.
Open Scope N_scope.

Section Tree6.
  Variable d : bytes.
  Hypothesis Hd : bytes_ok d = true.
  Hypothesis Hlen : lenN d < 2 ^ 62.

  Lemma stbl_ok m : fok d 3 (fun f s => dec_stbl_fuel f m s).
  Proof.
    eapply (std_ok d Hd Hlen 2) with (m := m) (dispatch := stbl_dispatch m).
    - intros f size. unfold dec_stbl_fuel. reflexivity.
    - intros f name s acc p size H8 Hp Hs1 Hs2 Hsz Hf.
      destruct name; cbn [stbl_dispatch];
        first [ disp_child (stsd_ok d Hd Hlen m) | disp_child (stts_ok d Hd Hlen m)
              | disp_child (ctts_ok d Hd Hlen m) | disp_child (stss_ok d Hd Hlen m)
              | disp_child (stsc_ok d Hd Hlen m) | disp_child (stsz_ok d Hd Hlen m)
              | disp_child (stco_ok d Hd Hlen m) | disp_child (co64_ok d Hd Hlen m) | disp_skip ].
    - intros start size acc. tail_bnd.
    - intros start size acc q Hov. tail_sat.
  Qed.

  Lemma minf_ok m : fok d 4 (fun f s => dec_minf_fuel f m s).
  Proof.
    eapply (std_ok d Hd Hlen 3) with (m := m) (dispatch := minf_dispatch m).
    - intros f size. unfold dec_minf_fuel. reflexivity.
    - intros f name s [[[vm sm] di] st] p size H8 Hp Hs1 Hs2 Hsz Hf.
      destruct name; cbn [minf_dispatch];
        first [ disp_child (vmhd_ok d Hd Hlen m) | disp_child (smhd_ok d Hd Hlen m)
              | disp_child (dinf_ok d Hd Hlen m) | disp_child (stbl_ok m) | disp_skip ].
    - intros start size [[[vm sm] di] st]. tail_bnd.
    - intros start size [[[vm sm] di] st] q Hov. tail_sat.
  Qed.

  Lemma mdia_ok m : fok d 5 (fun f s => dec_mdia_fuel f m s).
  Proof.
    eapply (std_ok d Hd Hlen 4) with (m := m) (dispatch := mdia_dispatch m).
    - intros f size. unfold dec_mdia_fuel. reflexivity.
    - intros f name s [[md hd] mi] p size H8 Hp Hs1 Hs2 Hsz Hf.
      destruct name; cbn [mdia_dispatch];
        first [ disp_child (mdhd_ok d Hd Hlen m) | disp_child (hdlr_ok d Hd Hlen m)
              | disp_child (minf_ok m) | disp_skip ].
    - intros start size [[md hd] mi]. tail_bnd.
    - intros start size [[md hd] mi] q Hov. tail_sat.
  Qed.

End Tree6.
