(** Round trip of [StblBox] (stbl.rs) *)
From MP4 Require Import KitCont BoxStbl IsoStbl IsoStsd IsoStts IsoCtts IsoStss IsoStsc IsoStsz IsoStco IsoCo64
     RtStsd RtStts RtCtts RtStss RtStsc RtStsz RtStco RtCo64.
From Coq Require Import ZifyN ZifyNat ZifyBool.
Open Scope string_scope.
Open Scope list_scope.
Open Scope N_scope.

Lemma stbl_code : u32_of_boxtype (box_type_of "StblBox") = 0x7374626c.
Proof. vm_compute. reflexivity. Qed.

(** what the format can represent with this struct: a representable stsd, and a chunk offset
    table (the reader rejects a sample table with neither stco nor co64) *)
Definition stbl_rt_wf (v : stbl) : bool :=
  stsd_rt_wf (stbl_stsd v) && stts_wf (stbl_stts v)
  && match stbl_ctts v with Some x => ctts_wf x | None => true end
  && match stbl_stss v with Some x => stss_wf x | None => true end
  && stsc_wf (stbl_stsc v) && stsz_wf (stbl_stsz v)
  && match stbl_stco v with Some x => stco_wf x | None => true end
  && match stbl_co64 v with Some x => co64_wf x | None => true end
  && match stbl_stco v, stbl_co64 v with None, None => false | _, _ => true end.

Lemma stbl_bt_stsd : boxtype_of_u32 0x73747364 = StsdBox. Proof. vm_compute. reflexivity. Qed.
Lemma stbl_bt_stts : boxtype_of_u32 0x73747473 = SttsBox. Proof. vm_compute. reflexivity. Qed.
Lemma stbl_bt_ctts : boxtype_of_u32 0x63747473 = CttsBox. Proof. vm_compute. reflexivity. Qed.
Lemma stbl_bt_stss : boxtype_of_u32 0x73747373 = StssBox. Proof. vm_compute. reflexivity. Qed.
Lemma stbl_bt_stsc : boxtype_of_u32 0x73747363 = StscBox. Proof. vm_compute. reflexivity. Qed.
Lemma stbl_bt_stsz : boxtype_of_u32 0x7374737a = StszBox. Proof. vm_compute. reflexivity. Qed.
Lemma stbl_bt_stco : boxtype_of_u32 0x7374636f = StcoBox. Proof. vm_compute. reflexivity. Qed.
Lemma stbl_bt_co64 : boxtype_of_u32 0x636f3634 = Co64Box. Proof. vm_compute. reflexivity. Qed.

(** the accumulator updates of [stbl_dispatch] *)
Definition stbl_u_stsd x a := mkStblAcc (Some x) (sa_stts a) (sa_ctts a) (sa_stss a) (sa_stsc a) (sa_stsz a) (sa_stco a) (sa_co64 a).
Definition stbl_u_stts x a := mkStblAcc (sa_stsd a) (Some x) (sa_ctts a) (sa_stss a) (sa_stsc a) (sa_stsz a) (sa_stco a) (sa_co64 a).
Definition stbl_u_ctts x a := mkStblAcc (sa_stsd a) (sa_stts a) (Some x) (sa_stss a) (sa_stsc a) (sa_stsz a) (sa_stco a) (sa_co64 a).
Definition stbl_u_stss x a := mkStblAcc (sa_stsd a) (sa_stts a) (sa_ctts a) (Some x) (sa_stsc a) (sa_stsz a) (sa_stco a) (sa_co64 a).
Definition stbl_u_stsc x a := mkStblAcc (sa_stsd a) (sa_stts a) (sa_ctts a) (sa_stss a) (Some x) (sa_stsz a) (sa_stco a) (sa_co64 a).
Definition stbl_u_stsz x a := mkStblAcc (sa_stsd a) (sa_stts a) (sa_ctts a) (sa_stss a) (sa_stsc a) (Some x) (sa_stco a) (sa_co64 a).
Definition stbl_u_stco x a := mkStblAcc (sa_stsd a) (sa_stts a) (sa_ctts a) (sa_stss a) (sa_stsc a) (sa_stsz a) (Some x) (sa_co64 a).
Definition stbl_u_co64 x a := mkStblAcc (sa_stsd a) (sa_stts a) (sa_ctts a) (sa_stss a) (sa_stsc a) (sa_stsz a) (sa_stco a) (Some x).

Definition stbl_i_stsd := ci_of stsd_size 0x73747364 iso_stsd_payload (fun _ => 1%nat) stbl_u_stsd.
Definition stbl_i_stts := ci_of stts_size 0x73747473 iso_stts_payload (fun _ => 0%nat) stbl_u_stts.
Definition stbl_i_ctts := ci_of ctts_size 0x63747473 iso_ctts_payload (fun _ => 0%nat) stbl_u_ctts.
Definition stbl_i_stss := ci_of stss_size 0x73747373 iso_stss_payload (fun _ => 0%nat) stbl_u_stss.
Definition stbl_i_stsc := ci_of stsc_size 0x73747363 iso_stsc_payload (fun _ => 0%nat) stbl_u_stsc.
Definition stbl_i_stsz := ci_of stsz_size 0x7374737a iso_stsz_payload (fun _ => 0%nat) stbl_u_stsz.
Definition stbl_i_stco := ci_of stco_size 0x7374636f iso_stco_payload (fun _ => 0%nat) stbl_u_stco.
Definition stbl_i_co64 := ci_of co64_size 0x636f3634 iso_co64_payload (fun _ => 0%nat) stbl_u_co64.

Definition stbl_items (v : stbl) : list (citem stbl_acc) :=
  [stbl_i_stsd (stbl_stsd v)] ++ [stbl_i_stts (stbl_stts v)] ++
  ci_opt stbl_i_ctts (stbl_ctts v) ++ ci_opt stbl_i_stss (stbl_stss v) ++
  [stbl_i_stsc (stbl_stsc v)] ++ [stbl_i_stsz (stbl_stsz v)] ++
  ci_opt stbl_i_stco (stbl_stco v) ++ ci_opt stbl_i_co64 (stbl_co64 v).

Ltac stbl_unfold_items :=
  unfold stbl_items, stbl_i_stsd, stbl_i_stts, stbl_i_ctts, stbl_i_stss, stbl_i_stsc, stbl_i_stsz,
    stbl_i_stco, stbl_i_co64.

Lemma stbl_items_iso v : flat_map ci_iso (stbl_items v) = iso_stbl_payload v.
Proof.
  unfold iso_stbl_payload. stbl_unfold_items.
  destruct (stbl_ctts v), (stbl_stss v), (stbl_stco v), (stbl_co64 v);
    cbn [flat_map ci_opt app iso_opt ci_iso ci_of ci_code ci_pl]; rewrite ?app_nil_r; reflexivity.
Qed.

Lemma stbl_items_size v : stbl_size v = 8 + ci_total (stbl_items v).
Proof.
  unfold stbl_size. stbl_unfold_items. rewrite !ci_total_app.
  destruct (stbl_ctts v), (stbl_stss v), (stbl_stco v), (stbl_co64 v);
    unfold ci_total; cbn [ci_opt map ci_of ci_size sumN fold_right]; hdr_consts; lia.
Qed.

Lemma stbl_items_fuel v : (length (stbl_items v) + ci_maxneed (stbl_items v) <= 9)%nat.
Proof.
  stbl_unfold_items. rewrite !app_length, !ci_maxneed_app.
  destruct (stbl_ctts v), (stbl_stss v), (stbl_stco v), (stbl_co64 v);
    cbn [length ci_opt ci_maxneed ci_need ci_of]; lia.
Qed.


Lemma stbl_items_ok m v : stbl_rt_wf v = true -> stbl_size v < U32 ->
  Forall (ci_ok (stbl_dispatch m)) (stbl_items v).
Proof.
  intros H Hs. apply Forall_ci_ok_total; [| rewrite stbl_items_size in Hs; clear -Hs; lia].
  unfold stbl_rt_wf in H. split_andb.
  unfold stbl_items. repeat apply Forall_app_intro.
  - apply Forall_one. ci_leaf (stsd_roundtrip Dbg) stbl_bt_stsd.
  - apply Forall_one. ci_leaf (cont_of_leaf _ _ _ _ _ _ stts_roundtrip) stbl_bt_stts.
  - apply Forall_ci_opt. intros x Hx. rewrite Hx in *. ci_leaf (cont_of_leaf _ _ _ _ _ _ ctts_roundtrip) stbl_bt_ctts.
  - apply Forall_ci_opt. intros x Hx. rewrite Hx in *. ci_leaf (cont_of_leaf _ _ _ _ _ _ stss_roundtrip) stbl_bt_stss.
  - apply Forall_one. ci_leaf (cont_of_leaf _ _ _ _ _ _ stsc_roundtrip) stbl_bt_stsc.
  - apply Forall_one. ci_leaf (cont_of_leaf _ _ _ _ _ _ stsz_roundtrip) stbl_bt_stsz.
  - apply Forall_ci_opt. intros x Hx. rewrite Hx in *. ci_leaf (cont_of_leaf _ _ _ _ _ _ stco_roundtrip) stbl_bt_stco.
  - apply Forall_ci_opt. intros x Hx. rewrite Hx in *. ci_leaf (cont_of_leaf _ _ _ _ _ _ co64_roundtrip) stbl_bt_co64.
Qed.

Lemma stbl_payload_len v : stbl_rt_wf v = true -> stbl_size v < U32 ->
  lenN (iso_stbl_payload v) + 8 = stbl_size v.
Proof.
  intros H Hs. apply (cont_payload_len (stbl_dispatch Dbg) (stbl_items v)).
  - now apply stbl_items_ok.
  - apply stbl_items_iso.
  - apply stbl_items_size.
Qed.

Ltac stbl_size_tac Hs :=
  repeat match type of Hs with context [match ?o with Some _ => _ | None => _ end] => destruct o end;
  hdr_consts; lia.

Ltac stbl_child me Hs :=
  lazymatch goal with
  | |- wspec (enc_stsd _ _) _ _ => apply (cont_rt_wspec _ _ _ _ _ _ _ _ (stsd_roundtrip me))
  | |- wspec (enc_stts _) _ _ => apply (cont_rt_wspec _ _ _ _ _ _ _ _ (cont_of_leaf _ _ _ _ _ _ stts_roundtrip))
  | |- wspec (enc_ctts _) _ _ => apply (cont_rt_wspec _ _ _ _ _ _ _ _ (cont_of_leaf _ _ _ _ _ _ ctts_roundtrip))
  | |- wspec (enc_stss _) _ _ => apply (cont_rt_wspec _ _ _ _ _ _ _ _ (cont_of_leaf _ _ _ _ _ _ stss_roundtrip))
  | |- wspec (enc_stsc _) _ _ => apply (cont_rt_wspec _ _ _ _ _ _ _ _ (cont_of_leaf _ _ _ _ _ _ stsc_roundtrip))
  | |- wspec (enc_stsz _) _ _ => apply (cont_rt_wspec _ _ _ _ _ _ _ _ (cont_of_leaf _ _ _ _ _ _ stsz_roundtrip))
  | |- wspec (enc_stco _) _ _ => apply (cont_rt_wspec _ _ _ _ _ _ _ _ (cont_of_leaf _ _ _ _ _ _ stco_roundtrip))
  | |- wspec (enc_co64 _) _ _ => apply (cont_rt_wspec _ _ _ _ _ _ _ _ (cont_of_leaf _ _ _ _ _ _ co64_roundtrip))
  end;
  [ assumption | let Hs' := fresh "Hs" in pose proof Hs as Hs'; unfold stbl_size in Hs'; clear -Hs'; stbl_size_tac Hs' ].

Ltac stbl_opt me Hs :=
  let x := fresh "x" in let Hx := fresh "Hx" in
  apply wspec_opt_child; intros x Hx; unfold stbl_size in Hs; rewrite Hx in *; eexists; stbl_child me Hs.

Lemma stbl_enc me v : stbl_rt_wf v = true -> stbl_size v < U32 ->
  wspec (enc_stbl me v) (stbl_size v) (be 4 (stbl_size v) ++ be 4 0x7374626c ++ iso_stbl_payload v).
Proof.
  intros H Hs. rewrite <- stbl_code. unfold stbl_rt_wf in H. split_andb.
  unfold enc_stbl, iso_stbl_payload.
  eapply wspec_out.
  - wspec_go.
    + stbl_child me Hs.
    + stbl_child me Hs.
    + stbl_opt me Hs.
    + stbl_opt me Hs.
    + stbl_child me Hs.
    + stbl_child me Hs.
    + stbl_opt me Hs.
    + stbl_opt me Hs.
  - rewrite <- ?app_assoc, ?app_nil_r. reflexivity.
Qed.

Lemma stbl_dec v fuel m d l p post : stbl_rt_wf v = true -> stbl_size v < U32 ->
  (9 <= fuel)%nat -> p + stbl_size v < 2 ^ 63 ->
  run (dec_stbl_fuel fuel m (stbl_size v)) (mkStream d l (p + 8) (iso_stbl_payload v ++ post))
  = (Ok v, mkStream d l (p + stbl_size v) post).
Proof.
  intros H Hs Hf Hp. unfold dec_stbl_fuel.
  rewrite (cont_dec_items m _ (stbl_size v) (stbl_dispatch m) (stbl_items v) (iso_stbl_payload v));
    [ | now apply stbl_items_ok | apply stbl_items_iso | apply stbl_items_size | exact Hp
      | pose proof (stbl_items_fuel v); lia ].
  unfold stbl_rt_wf in H. apply andb_true_iff in H as [_ Hc].
  stbl_unfold_items. rewrite !ci_fold_app.
  destruct v as [sd ts ct ss sc sz co c64].
  cbn [stbl_stsd stbl_stts stbl_ctts stbl_stss stbl_stsc stbl_stsz stbl_stco stbl_co64] in *.
  destruct ct, ss, co, c64; try discriminate Hc;
    cbn [ci_fold fold_left ci_opt ci_of ci_upd stbl_u_stsd stbl_u_stts stbl_u_ctts stbl_u_stss stbl_u_stsc
         stbl_u_stsz stbl_u_stco stbl_u_co64 stbl_acc0
         sa_stsd sa_stts sa_ctts sa_stss sa_stsc sa_stsz sa_stco sa_co64];
    apply run_cont_finish; (clear -Hp; lia).
Qed.

Theorem stbl_roundtrip me :
  cont_roundtrip stbl_rt_wf stbl_size 0x7374626c (enc_stbl me) dec_stbl_fuel iso_stbl_payload (fun _ => 9%nat).
Proof.
  apply cont_roundtrip_intro.
  - apply stbl_enc.
  - apply stbl_payload_len.
  - intros; now apply stbl_dec.
Qed.

(** the [Default] value (no stco, no co64) is written but rejected when read back *)
Lemma stbl_default_rejected :
  stbl_wf stbl_default = true /\
  fst (run (dec_stbl_fuel 20 Dbg (stbl_size stbl_default)) (stream_at (wout (enc_stbl Dbg stbl_default)) 8))
  = Err EData.
Proof. vm_compute. split; reflexivity. Qed.

Print Assumptions stbl_roundtrip.
