(** * Kit for "every value a decoder returns is well formed" (second half of property C04)

    [post c Q]: partial correctness over [run], from ANY stream whose view and data are lists of
    bytes (no relation between view, data, length and position is assumed): if [c] returns
    [Ok a] then [Q a] (and the final stream still consists of bytes).  Nothing is claimed for
    [Err]/[Panic]/[OutOfFuel].

    Since [sok] is preserved by every program ([run_sok]), every program satisfies
    [post c (fun _ => True)]; calls whose result value is irrelevant for well-formedness
    ([box_start], [add64], [skip_bytes], [skip_bytes_to], [read_header], ...) are stepped over
    with [post_bind_any]. *)
From MP4 Require Export Kit Hoare.
From Coq Require Import ZArith ZifyN ZifyNat ZifyBool Lia.
Open Scope string_scope.
Open Scope list_scope.
Open Scope N_scope.

(** ** The stream consists of bytes *)
Definition sok (s : stream) : Prop := bytes_ok (s_view s) = true /\ bytes_ok (s_data s) = true.

Lemma seek_abs_sok s q : sok s -> sok (seek_abs s q).
Proof.
  intros [Hv Hd]. unfold seek_abs, sok.
  destruct (s_pos s <=? q); cbn [s_view s_data]; split; auto using bytes_ok_dropN.
Qed.

Lemma seek_cur_sok s dz s' : sok s -> seek_cur s dz = Some s' -> sok s'.
Proof.
  intros Hs. unfold seek_cur.
  destruct ((Z.of_N (s_pos s) + dz <? 0) || (Z.of_N U64 <=? Z.of_N (s_pos s) + dz))%Z; [discriminate|].
  intros [= <-]. now apply seek_abs_sok.
Qed.

Lemma splitN_sok s n h r : sok s -> splitN n (s_view s) = Some (h, r) ->
  bytes_ok h = true /\ lenN h = n /\ sok (mkStream (s_data s) (s_len s) (s_pos s + n) r).
Proof.
  intros [Hv Hd] E. apply splitN_some in E as [E1 E2].
  rewrite E1, bytes_ok_app in Hv. apply andb_true_iff in Hv as [Hh Hr].
  repeat split; auto.
Qed.

Lemma eof_sok s : sok s -> sok (eof_stream s).
Proof. intros [Hv Hd]. split; [reflexivity|exact Hd]. Qed.

(** [sok] is an invariant of [run], whatever the program and its outcome *)
Lemma run_sok {A} (c : prog A) s : sok s -> sok (snd (run c s)).
Proof.
  revert s; induction c as [a|e|x| |n k IH|q k IH|d k IH|k IH|n k IH|k IH]; intros s Hs;
    cbn [run snd]; auto.
  - destruct (n =? 0); [now apply IH|].
    destruct (splitN n (s_view s)) as [[h r]|] eqn:E.
    + apply IH. eapply splitN_sok; eauto.
    + cbn [snd]. now apply eof_sok.
  - apply IH. now apply seek_abs_sok.
  - destruct (seek_cur s d) as [s1|] eqn:E; [|exact Hs]. apply IH. eapply seek_cur_sok; eauto.
Qed.

(** ** The judgement *)
Definition post {A} (c : prog A) (Q : A -> Prop) : Prop :=
  forall s, sok s -> match run c s with (Ok a, s') => sok s' /\ Q a | _ => True end.

(** how a box lemma is read off *)
Lemma post_run {A} (c : prog A) (Q : A -> Prop) : post c Q ->
  forall s v s', run c s = (Ok v, s') -> bytes_ok (s_view s) = true -> bytes_ok (s_data s) = true -> Q v.
Proof. intros H s v s' E Hv Hd. specialize (H s (conj Hv Hd)). rewrite E in H. apply H. Qed.

Lemma post_any {A} (c : prog A) : post c (fun _ => True).
Proof.
  intros s Hs. pose proof (run_sok c s Hs) as H.
  destruct (run c s) as [[a|e|x|] s']; cbn [snd] in H; auto.
Qed.

(** ** Structural rules *)
Lemma post_ret {A} (a : A) (Q : A -> Prop) : Q a -> post (Ret a) Q.
Proof. intros H s Hs. cbn [run]. auto. Qed.

Lemma post_throw {A} e (Q : A -> Prop) : post (Throw e) Q.
Proof. intros s Hs. exact I. Qed.
Lemma post_crash {A} x (Q : A -> Prop) : post (Crash x) Q.
Proof. intros s Hs. exact I. Qed.
Lemma post_spin {A} (Q : A -> Prop) : post Spin Q.
Proof. intros s Hs. exact I. Qed.

Lemma post_bind {A B} (c : prog A) (R : A -> Prop) (f : A -> prog B) Q :
  post c R -> (forall a, R a -> post (f a) Q) -> post (bind c f) Q.
Proof.
  intros Hc Hf s Hs. rewrite run_bind. specialize (Hc s Hs).
  destruct (run c s) as [[a|e|x|] s1]; auto. destruct Hc as [Hs1 Ha]. exact (Hf a Ha s1 Hs1).
Qed.

(** the result of the first call does not matter *)
Lemma post_bind_any {A B} (c : prog A) (f : A -> prog B) Q :
  (forall a, post (f a) Q) -> post (bind c f) Q.
Proof. intros Hf. eapply post_bind; [apply post_any|]. intros a _. apply Hf. Qed.

Lemma post_conseq {A} (c : prog A) (Q Q' : A -> Prop) :
  (forall a, Q a -> Q' a) -> post c Q -> post c Q'.
Proof.
  intros HQ H s Hs. specialize (H s Hs). destruct (run c s) as [[a|e|x|] s1]; auto.
  destruct H; auto.
Qed.

Lemma post_bind_assoc {A B C} (c : prog A) (f : A -> prog B) (g : B -> prog C) Q :
  post (bind c (fun a => bind (f a) g)) Q -> post (bind (bind c f) g) Q.
Proof. intros H s Hs. rewrite bind_bind. exact (H s Hs). Qed.

Lemma post_bind_ret {A} (c : prog A) Q : post (bind c (fun a => Ret a)) Q -> post c Q.
Proof.
  intros H s Hs. specialize (H s Hs). rewrite run_bind in H.
  destruct (run c s) as [[a|e|x|] s1]; auto.
Qed.

Lemma post_lift_bind {A B} (r : res A) (k : A -> prog B) Q :
  (forall a, r = Ok a -> post (k a) Q) -> post (bind (lift r) k) Q.
Proof.
  intros H. destruct r as [a|e|x|]; cbn [lift bind];
    [now apply H|apply post_throw|apply post_crash|apply post_spin].
Qed.

Lemma post_lift {A} (r : res A) (Q : A -> Prop) :
  (forall a, r = Ok a -> Q a) -> post (lift r) Q.
Proof.
  intros H. destruct r as [a|e|x|]; cbn [lift];
    [apply post_ret; now apply H|apply post_throw|apply post_crash|apply post_spin].
Qed.

(** ** Primitive rules *)
Lemma post_RdExact {A} n (k : bytes -> prog A) Q :
  (forall l, lenN l = n -> bytes_ok l = true -> post (k l) Q) -> post (RdExact n k) Q.
Proof.
  intros H s Hs. cbn [run]. destruct (N.eqb_spec n 0) as [E|E].
  - subst n. exact (H [] eq_refl eq_refl s Hs).
  - destruct (splitN n (s_view s)) as [[h r]|] eqn:Es; [|exact I].
    destruct (splitN_sok s n h r Hs Es) as (Hh & Hl & Hs1). exact (H h Hl Hh _ Hs1).
Qed.

Lemma post_SeekTo {A} q (k : prog A) Q : post k Q -> post (SeekTo q k) Q.
Proof. intros H s Hs. cbn [run]. apply H. now apply seek_abs_sok. Qed.

Lemma post_SeekRel {A} dz (k : prog A) Q : post k Q -> post (SeekRel dz k) Q.
Proof.
  intros H s Hs. cbn [run]. destruct (seek_cur s dz) as [s1|] eqn:E; [|exact I].
  apply H. eapply seek_cur_sok; eauto.
Qed.

Lemma post_GetPos {A} (k : N -> prog A) Q : (forall p, post (k p) Q) -> post (GetPos k) Q.
Proof. intros H s Hs. cbn [run]. now apply H. Qed.

Lemma post_Alloc {A} n (k : prog A) Q : post k Q -> post (Alloc n k) Q.
Proof. intros H s Hs. cbn [run]. now apply H. Qed.

Lemma post_Step {A} (k : prog A) Q : post k Q -> post (Step k) Q.
Proof. intros H s Hs. cbn [run]. now apply H. Qed.

(** ** The reads of Prim.v *)

(** [rd_u w]: the value read is below [256^w] *)
Lemma post_rd_u_bind {A} w (k : N -> prog A) Q :
  (forall x, x < 256 ^ N.of_nat w -> post (k x) Q) -> post (bind (rd_u w) k) Q.
Proof.
  intros H. unfold rd_u. cbn [bind]. apply post_RdExact. intros l Hl Hb.
  apply H. now apply unbe_bound.
Qed.

Lemma post_rd_u w : post (rd_u w) (fun x => x < 256 ^ N.of_nat w).
Proof. apply post_bind_ret. apply post_rd_u_bind. intros x Hx. now apply post_ret. Qed.

Lemma pow256_pow2 w : 256 ^ N.of_nat w = 2 ^ (8 * N.of_nat w).
Proof. rewrite N.pow_mul_r. reflexivity. Qed.

(** [rd_i w]: the value read fits in [8w] bits, two's complement *)
Lemma post_rd_i_bind {A} w (k : Z -> prog A) Q : (0 < w)%nat ->
  (forall z, fits_signed (8 * N.of_nat w) z = true -> post (k z) Q) -> post (bind (rd_i w) k) Q.
Proof.
  intros Hw H. unfold rd_i. cbn [bind]. apply post_RdExact. intros l Hl Hb.
  apply H. apply to_signed_fits; [lia|]. rewrite <- pow256_pow2. now apply unbe_bound.
Qed.

Lemma post_rd_arr_bind {A} n (k : bytes -> prog A) Q :
  (forall l, lenN l = n -> bytes_ok l = true -> post (k l) Q) -> post (bind (rd_arr n) k) Q.
Proof. intros H. unfold rd_arr. cbn [bind]. now apply post_RdExact. Qed.

Lemma post_rd_vec_bind {A} n (k : bytes -> prog A) Q :
  (forall l, lenN l = n -> bytes_ok l = true -> post (k l) Q) -> post (bind (rd_vec n) k) Q.
Proof. intros H. unfold rd_vec. cbn [bind]. apply post_Alloc. now apply post_RdExact. Qed.

Lemma post_read_header_ext_bind {A} (k : N * N -> prog A) Q :
  (forall v f, v < 256 ^ N.of_nat 1 -> f < 256 ^ N.of_nat 3 -> post (k (v, f)) Q) ->
  post (bind read_header_ext k) Q.
Proof.
  intros H. unfold read_header_ext, rd_u8, rd_u24. apply post_bind_assoc. apply post_rd_u_bind.
  intros v Hv. apply post_bind_assoc. apply post_rd_u_bind. intros f Hf. cbn [bind]. now apply H.
Qed.

(** ** Counted loops *)
Lemma post_rd_n {A} (body : prog A) (R : A -> Prop) n :
  post body R -> post (rd_n n body) (fun l => length l = n /\ Forall R l).
Proof.
  intros Hb. induction n as [|n IH]; cbn [rd_n].
  - apply post_ret. auto.
  - eapply post_bind; [exact Hb|]. intros x Hx. cbn beta.
    eapply post_bind; [exact IH|]. intros r [Hl Hr]. apply post_ret. cbn [length]. auto.
Qed.

Lemma post_rd_n_bind {A B} (body : prog A) (R : A -> Prop) n (k : list A -> prog B) Q :
  post body R -> (forall l, length l = n -> Forall R l -> post (k l) Q) ->
  post (bind (rd_n n body) k) Q.
Proof.
  intros Hb Hk. eapply post_bind; [apply (post_rd_n body R n Hb)|]. intros l [H1 H2]. now apply Hk.
Qed.

Lemma Forall_forallb {A} (f : A -> bool) (P : A -> Prop) l :
  (forall x, P x -> f x = true) -> Forall P l -> forallb f l = true.
Proof.
  intros H HF. induction HF as [|x t Hx _ IH]; cbn [forallb]; auto. rewrite (H x Hx), IH. reflexivity.
Qed.

(** ** Bounds to booleans *)
Lemma ufit_true w x : x < 256 ^ N.of_nat w -> ufit w x = true.
Proof. intros H. unfold ufit. now apply N.ltb_lt. Qed.

Lemma sfit_true w z : fits_signed (8 * N.of_nat w) z = true -> sfit w z = true.
Proof. intros H. exact H. Qed.

(** the version tests of the full boxes *)
Lemma version_lt2_1 v : (v =? 1) = true -> (v <? 2) = true.
Proof. intros H. apply N.eqb_eq in H. subst v. reflexivity. Qed.
Lemma version_lt2_0 v : (v =? 0) = true -> (v <? 2) = true.
Proof. intros H. apply N.eqb_eq in H. subst v. reflexivity. Qed.

(** ** Automation: one step through a straight-line decoder *)
Ltac post_norm :=
  unfold rd_u8, rd_u16, rd_u24, rd_u32, rd_u48, rd_u64, rd_i8, rd_i16, rd_i32;
  cbn [bind].

Ltac post_step :=
  post_norm;
  lazymatch goal with
  | |- post (Ret _) _ => apply post_ret
  | |- post (Throw _) _ => apply post_throw
  | |- post (Crash _) _ => apply post_crash
  | |- post Spin _ => apply post_spin
  | |- post (bind (rd_u ?w) _) _ =>
      apply post_rd_u_bind; let x := fresh "x" in let H := fresh "Hx" in intros x H
  | |- post (bind (rd_i ?w) _) _ =>
      apply post_rd_i_bind; [clear; lia|]; let z := fresh "z" in let H := fresh "Hz" in intros z H
  | |- post (bind (rd_arr _) _) _ =>
      apply post_rd_arr_bind;
      let l := fresh "l" in let H1 := fresh "Hl" in let H2 := fresh "Hb" in intros l H1 H2
  | |- post (bind (rd_vec _) _) _ =>
      apply post_rd_vec_bind;
      let l := fresh "l" in let H1 := fresh "Hl" in let H2 := fresh "Hb" in intros l H1 H2
  | |- post (bind read_header_ext _) _ =>
      apply post_read_header_ext_bind;
      let v := fresh "version" in let f := fresh "flags" in
      let H1 := fresh "Hv" in let H2 := fresh "Hf" in intros v f H1 H2
  | |- post (bind (box_start _) _) _ => apply post_bind_any; intros ?
  | |- post (bind (add64 _ _ _ _) _) _ => apply post_bind_any; intros ?
  | |- post (bind (sub64 _ _ _ _) _) _ => apply post_bind_any; intros ?
  | |- post (bind (skip_bytes _) _) _ => apply post_bind_any; intros ?
  | |- post (bind (skip_bytes_to _) _) _ => apply post_bind_any; intros ?
  | |- post (bind (skip_box _ _) _) _ => apply post_bind_any; intros ?
  | |- post (bind (bind _ _) _) _ => apply post_bind_assoc
  | |- post (bind (if ?b then _ else _) _) _ => destruct b eqn:?
  | |- post (if ?b then _ else _) _ => destruct b eqn:?
  | |- post (bind (match ?x with Some _ => _ | None => _ end) _) _ => destruct x eqn:?
  | |- post (match ?x with Some _ => _ | None => _ end) _ => destruct x eqn:?
  | |- post (bind (let '(_, _) := ?x in _) _) _ => destruct x
  | |- post (let '(_, _) := ?x in _) _ => destruct x
  end.

Ltac post_go := repeat post_step.

(** discharge a conjunction of width facts *)
Ltac wf_atom :=
  first [ assumption
        | apply ufit_true; assumption
        | apply sfit_true; assumption
        | reflexivity ].

Ltac wf_split :=
  repeat match goal with
         | |- _ && _ = true => apply andb_true_iff; split
         end.

(** ** From well-formedness of what is decoded to "re-encoding is a fixpoint" *)
Lemma dropN_header {A} (a b rest : list A) : lenN a = 4 -> lenN b = 4 -> dropN 8 (a ++ b ++ rest) = rest.
Proof.
  intros Ha Hb. rewrite app_assoc. apply dropN_app_n. rewrite lenN_app, Ha, Hb. reflexivity.
Qed.

Lemma reencode_fixpoint {X} (wf : X -> bool) (size : X -> N) (code : N)
      (enc : X -> wprog N) (dec : mode -> N -> prog X) (payload : X -> bytes) :
  leaf_roundtrip wf size code enc dec payload ->
  forall v, wf v = true -> size v < U32 ->
    wfin (enc v) = Ok (size v) /\
    forall m' d l p post, p + size v < 2 ^ 63 ->
      run (dec m' (size v)) (mkStream d l (p + 8) (dropN 8 (wout (enc v)) ++ post))
      = (Ok v, mkStream d l (p + size v) post).
Proof.
  intros Hrt v Hwf Hsz. destruct (Hrt v Hwf Hsz) as (H1 & _ & H3 & _ & H5).
  split; [exact H1|]. intros m' d l p post0 Hp.
  rewrite H3, dropN_header by apply lenN_be. now apply H5.
Qed.

(** the two box-level statements, from the round trip and the [post] lemma of the decoder *)
Lemma wf_of_post {X} (wf : X -> bool) (dec : mode -> N -> prog X) :
  (forall m size, post (dec m size) (fun v => wf v = true)) ->
  forall m size s v s', run (dec m size) s = (Ok v, s') ->
    bytes_ok (s_view s) = true -> bytes_ok (s_data s) = true -> wf v = true.
Proof. intros H m size. exact (post_run _ _ (H m size)). Qed.

Lemma fixpoint_of_post {X} (wf : X -> bool) (size : X -> N) (code : N)
      (enc : X -> wprog N) (dec : mode -> N -> prog X) (payload : X -> bytes) :
  leaf_roundtrip wf size code enc dec payload ->
  (forall m sz, post (dec m sz) (fun v => wf v = true)) ->
  forall m sz s v s', run (dec m sz) s = (Ok v, s') ->
    bytes_ok (s_view s) = true -> bytes_ok (s_data s) = true -> size v < U32 ->
    wfin (enc v) = Ok (size v) /\
    forall m' d l p post, p + size v < 2 ^ 63 ->
      run (dec m' (size v)) (mkStream d l (p + 8) (dropN 8 (wout (enc v)) ++ post))
      = (Ok v, mkStream d l (p + size v) post).
Proof.
  intros Hrt Hp m sz s v s' E Hv Hd Hsz.
  exact (reencode_fixpoint _ _ _ _ _ _ Hrt v (wf_of_post wf dec Hp m sz s v s' E Hv Hd) Hsz).
Qed.
