(** * Lemmas behind property C16 (code and enumeration mappings) *)
From MP4 Require Import Types IsoTables.
From MP4 Require Tables.
From Coq Require Import ZifyN ZifyNat ZifyBool.
Open Scope string_scope.
Open Scope list_scope.
Open Scope N_scope.

(** ** Finite ranges of [N] for proofs by exhaustion *)
Definition rangeN (n : N) : list N := N.recursion [] (fun k l => k :: l) n.

Lemma rangeN_In n k : In k (rangeN n) <-> k < n.
Proof.
  unfold rangeN. induction n as [|n IH] using N.peano_ind.
  - rewrite N.recursion_0. cbn. lia.
  - rewrite N.recursion_succ; [|reflexivity|intros ? ? -> ? ? ->; reflexivity].
    cbn [In]. rewrite IH. lia.
Qed.

Lemma forall_range (P : N -> bool) n :
  forallb P (rangeN n) = true -> forall k, k < n -> P k = true.
Proof. intros H k Hk. rewrite forallb_forall in H. apply H. now apply rangeN_In. Qed.

(** ** String-keyed and N-keyed association lists *)
Definition keys_s {V} (l : list (string * V)) := map fst l.
Definition keys_n {V} (l : list (N * V)) := map fst l.

Fixpoint nodup_s (l : list string) : bool :=
  match l with
  | [] => true
  | x :: t => negb (existsb (String.eqb x) t) && nodup_s t
  end.
Fixpoint nodup_n (l : list N) : bool :=
  match l with
  | [] => true
  | x :: t => negb (existsb (N.eqb x) t) && nodup_n t
  end.

Lemma nodup_n_NoDup l : nodup_n l = true -> NoDup l.
Proof.
  induction l as [|x t IH]; cbn [nodup_n]; intros H; constructor.
  - apply andb_true_iff in H as [H _]. apply negb_true_iff in H.
    intros Hin. assert (existsb (N.eqb x) t = true); [|congruence].
    apply existsb_exists. exists x. split; auto. apply N.eqb_refl.
  - apply IH. now apply andb_true_iff in H as [_ H].
Qed.

Lemma nodup_s_NoDup l : nodup_s l = true -> NoDup l.
Proof.
  induction l as [|x t IH]; cbn [nodup_s]; intros H; constructor.
  - apply andb_true_iff in H as [H _]. apply negb_true_iff in H.
    intros Hin. assert (existsb (String.eqb x) t = true); [|congruence].
    apply existsb_exists. exists x. split; auto. apply String.eqb_refl.
  - apply IH. now apply andb_true_iff in H as [_ H].
Qed.

Lemma lookup_s_In {V} k (v : V) l : NoDup (keys_s l) -> In (k, v) l -> lookup_s k l = Some v.
Proof.
  induction l as [|[k' v'] t IH]; cbn [lookup_s keys_s map In fst]; intros Hnd Hin; [tauto|].
  inversion Hnd as [|? ? Hx Ht]; subst.
  destruct Hin as [E|Hin].
  - inversion E; subst. now rewrite String.eqb_refl.
  - destruct (String.eqb_spec k k') as [->|Hne].
    + exfalso. apply Hx. change k' with (fst (k', v)). now apply in_map.
    + now apply IH.
Qed.

Lemma lookup_n_In {V} k (v : V) l : NoDup (keys_n l) -> In (k, v) l -> lookup_n k l = Some v.
Proof.
  induction l as [|[k' v'] t IH]; cbn [lookup_n keys_n map In fst]; intros Hnd Hin; [tauto|].
  inversion Hnd as [|? ? Hx Ht]; subst.
  destruct Hin as [E|Hin].
  - inversion E; subst. now rewrite N.eqb_refl.
  - destruct (N.eqb_spec k k') as [->|Hne].
    + exfalso. apply Hx. change k' with (fst (k', v)). now apply in_map.
    + now apply IH.
Qed.

Lemma lookup_n_Some_In {V} k (v : V) l : lookup_n k l = Some v -> In (k, v) l.
Proof.
  induction l as [|[k' v'] t IH]; cbn [lookup_n In]; [discriminate|].
  destruct (N.eqb_spec k k') as [->|Hne]; intros H.
  - inversion H; subst. now left.
  - right. now apply IH.
Qed.

Lemma lookup_n_None {V} k (l : list (N * V)) : lookup_n k l = None -> ~ In k (keys_n l).
Proof.
  induction l as [|[k' v'] t IH]; cbn [lookup_n keys_n map In fst]; [tauto|].
  destruct (N.eqb_spec k k') as [->|Hne]; [discriminate|].
  intros H [E|Hin]; [congruence|]. now apply IH.
Qed.

(** two N-keyed tables denote the same finite map *)
Definition pair_eqb_ns (a b : N * string) : bool := (fst a =? fst b) && String.eqb (snd a) (snd b).
Definition incl_ns (a b : list (N * string)) : bool := forallb (fun x => existsb (pair_eqb_ns x) b) a.
Definition same_map_ns (a b : list (N * string)) : bool :=
  nodup_n (keys_n a) && nodup_n (keys_n b) && incl_ns a b && incl_ns b a.

Lemma incl_ns_In a b x : incl_ns a b = true -> In x a -> In x b.
Proof.
  unfold incl_ns. rewrite forallb_forall. intros H Hin. apply H in Hin.
  apply existsb_exists in Hin as (y & Hy & E). unfold pair_eqb_ns in E.
  apply andb_true_iff in E as [E1 E2]. apply N.eqb_eq in E1. apply String.eqb_eq in E2.
  destruct x, y; cbn in *; subst; auto.
Qed.

Lemma same_map_lookup a b : same_map_ns a b = true -> forall k, lookup_n k a = lookup_n k b.
Proof.
  unfold same_map_ns. intros H k.
  apply andb_true_iff in H as [H Hba]. apply andb_true_iff in H as [H Hab].
  apply andb_true_iff in H as [Ha Hb]. apply nodup_n_NoDup in Ha, Hb.
  destruct (lookup_n k a) as [v|] eqn:Ea.
  - symmetry. apply lookup_n_In; auto. eapply incl_ns_In; eauto. now apply lookup_n_Some_In.
  - destruct (lookup_n k b) as [v|] eqn:Eb; auto.
    exfalso. apply lookup_n_None in Ea. apply Ea.
    apply lookup_n_Some_In in Eb. eapply incl_ns_In in Eb; eauto.
    change k with (fst (k, v)). now apply in_map.
Qed.

Definition pair_eqb_sn (a b : string * N) : bool := String.eqb (fst a) (fst b) && (snd a =? snd b).
Definition incl_sn (a b : list (string * N)) : bool := forallb (fun x => existsb (pair_eqb_sn x) b) a.
Definition same_set_sn (a b : list (string * N)) : bool := incl_sn a b && incl_sn b a.

Lemma incl_sn_In a b x : incl_sn a b = true -> In x a -> In x b.
Proof.
  unfold incl_sn. rewrite forallb_forall. intros H Hin. apply H in Hin.
  apply existsb_exists in Hin as (y & Hy & E). unfold pair_eqb_sn in E.
  apply andb_true_iff in E as [E1 E2]. apply N.eqb_eq in E2. apply String.eqb_eq in E1.
  destruct x, y; cbn in *; subst; auto.
Qed.

Definition pair_eqb_ss (a b : string * string) : bool := String.eqb (fst a) (fst b) && String.eqb (snd a) (snd b).
Definition incl_ss (a b : list (string * string)) : bool := forallb (fun x => existsb (pair_eqb_ss x) b) a.
Definition same_set_ss (a b : list (string * string)) : bool := incl_ss a b && incl_ss b a.

(** ** The box-type table: a boolean well-formedness check, discharged by
    computation on the regenerated table, from which the unbounded round-trip
    statements follow by a generic argument (no 2^32 sweep inside Coq). *)
(** Names and codes are unique and the codes are 32-bit values.  A name the MODEL has no constructor for (a box type added to the
    enumeration in the source that no decoder of the library dispatches on) is allowed: [boxtype_of_u32] maps its code to
    [UnknownBox c], which is how every dispatch of the library treats it (the [_ =>] arm), and [UnknownBox c] converts back to [c]. *)
Definition table_ok (tbl : list (string * N)) : bool :=
  nodup_s (keys_s tbl) && nodup_n (map snd tbl)
  && forallb (fun e => snd e <? U32) tbl.

Lemma of_name_name b n : of_name n = Some b -> name_of b = n.
Proof.
  unfold of_name. intros H. apply find_some in H as [_ H]. now apply String.eqb_eq in H.
Qed.

Lemma of_name_known b : (forall c, b <> UnknownBox c) -> of_name (name_of b) = Some b.
Proof. intros H. destruct b; try reflexivity. exfalso. eapply H. reflexivity. Qed.

Lemma find_code_In tbl c n c' :
  find (fun e : string * N => snd e =? c) tbl = Some (n, c') -> In (n, c) tbl /\ c' = c.
Proof.
  intros H. apply find_some in H as [Hin E]. cbn in E. apply N.eqb_eq in E. subst. auto.
Qed.

Lemma of_name_not_unknown n c : of_name n <> Some (UnknownBox c).
Proof.
  unfold of_name. intros H. apply find_some in H as [Hin _]. unfold known_boxtypes in Hin. cbn [In] in Hin.
  repeat (destruct Hin as [E|Hin]; [discriminate E|]). exact Hin.
Qed.

Lemma table_ok_parts tbl : table_ok tbl = true ->
  NoDup (keys_s tbl) /\ NoDup (map snd tbl)
  /\ (forall e, In e tbl -> snd e < U32).
Proof.
  intros Hok. unfold table_ok in Hok.
  apply andb_true_iff in Hok as [H H4]. apply andb_true_iff in H as [H1 H2].
  repeat split.
  - now apply nodup_s_NoDup.
  - now apply nodup_n_NoDup.
  - intros e He. rewrite forallb_forall in H4. specialize (H4 e He). now apply N.ltb_lt.
Qed.

Lemma codes_unique (l : list (string * N)) n n' c :
  NoDup (map snd l) -> In (n, c) l -> In (n', c) l -> n' = n.
Proof.
  induction l as [|[k v] t IH]; cbn [map In snd]; intros Hnd H1 H2; [tauto|].
  inversion Hnd as [|? ? Hx Ht]; subst.
  destruct H1 as [E1|H1], H2 as [E2|H2].
  - congruence.
  - inversion E1; subst. exfalso. apply Hx. change c with (snd (n', c)). now apply in_map.
  - inversion E2; subst. exfalso. apply Hx. change c with (snd (n, c)). now apply in_map.
  - now apply IH.
Qed.

Section BoxTypeTable.
  Hypothesis Hok : table_ok Tables.boxtype_table = true.

  Let Hparts :
    NoDup (keys_s Tables.boxtype_table) /\ NoDup (map snd Tables.boxtype_table)
    /\ (forall e, In e Tables.boxtype_table -> snd e < U32).
  Proof. exact (table_ok_parts _ Hok). Qed.

  (** every 32-bit code survives code -> box type -> code (also beyond 32 bits) *)
  Lemma u32_boxtype_u32 c : u32_of_boxtype (boxtype_of_u32 c) = c.
  Proof.
    destruct Hparts as (Hn & Hc & _).
    unfold boxtype_of_u32.
    destruct (find _ Tables.boxtype_table) as [[n c']|] eqn:E; [|reflexivity].
    apply find_code_In in E as [Hin ->].
    destruct (of_name n) as [b|] eqn:Hb; [|reflexivity].
    pose proof (of_name_name _ _ Hb) as Hnb.
    unfold u32_of_boxtype.
    assert (L : lookup_s (name_of b) Tables.boxtype_table = Some c).
    { rewrite Hnb. now apply lookup_s_In. }
    rewrite L. destruct b; try reflexivity.
    (* b = UnknownBox: [of_name] never returns it *)
    exfalso. eapply of_name_not_unknown. exact Hb.
  Qed.

  Definition bt_wf (b : boxtype) : bool :=
    match b with
    | UnknownBox c => negb (existsb (fun e => snd e =? c) Tables.boxtype_table)
    | _ => existsb (fun e => String.eqb (fst e) (name_of b)) Tables.boxtype_table
    end.

  Lemma find_none_existsb {A} (f : A -> bool) l : existsb f l = false -> find f l = None.
  Proof.
    induction l as [|x t IH]; cbn; auto. destruct (f x); cbn; [discriminate|auto].
  Qed.

  (** every box type survives box type -> code -> box type *)
  Lemma boxtype_u32_boxtype b : bt_wf b = true -> boxtype_of_u32 (u32_of_boxtype b) = b.
  Proof.
    destruct Hparts as (Hn & Hc & _).
    intros Hwf.
    assert (K : forall b', (forall c, b' <> UnknownBox c) ->
                 existsb (fun e => String.eqb (fst e) (name_of b')) Tables.boxtype_table = true ->
                 boxtype_of_u32 (match lookup_s (name_of b') Tables.boxtype_table with Some c => c | None => 0 end) = b').
    { intros b' Hnu Hex. apply existsb_exists in Hex as ([n c] & Hin & E). cbn [fst] in E.
      apply String.eqb_eq in E. subst n.
      rewrite (lookup_s_In _ c) by auto.
      unfold boxtype_of_u32.
      destruct (find _ Tables.boxtype_table) as [[n' c']|] eqn:F.
      - apply find_code_In in F as [Hin' ->].
        assert (n' = name_of b') by (eapply codes_unique; eauto).
        subst n'. rewrite of_name_known by exact Hnu. reflexivity.
      - exfalso. assert (X : existsb (fun e : string * N => snd e =? c) Tables.boxtype_table = true).
        { apply existsb_exists. exists (name_of b', c). split; auto. cbn. apply N.eqb_refl. }
        clear -F X. induction Tables.boxtype_table as [|x t IH]; cbn in *; [discriminate|].
        destruct (snd x =? c); [discriminate|]. auto. }
    destruct b; try (apply K; [intros c; discriminate | exact Hwf]).
    (* UnknownBox *)
    cbn [bt_wf] in Hwf. apply negb_true_iff in Hwf. cbn [u32_of_boxtype].
    unfold boxtype_of_u32. now rewrite (find_none_existsb _ _ Hwf).
  Qed.
End BoxTypeTable.

(** ** FourCC *)
Lemma fourcc_u32_bytes c : c < U32 -> unbe (fourcc_bytes c) = c.
Proof. intros H. unfold fourcc_bytes. apply unbe_be. rewrite pow256_4. exact H. Qed.

Lemma fourcc_bytes_u32 l : length l = 4%nat -> bytes_ok l = true -> fourcc_bytes (unbe l) = l.
Proof. intros H Hok. unfold fourcc_bytes. rewrite <- H. now apply be_unbe. Qed.

Lemma skipn_length_le {A} n (l : list A) : (length (skipn n l) <= length l)%nat.
Proof. rewrite skipn_length. lia. Qed.

Lemma utf8_head_pos b t : (1 <= snd (utf8_head (b :: t)))%nat.
Proof.
  unfold utf8_head.
  repeat match goal with
         | |- context [if ?c then _ else _] => destruct c
         | |- context [match ?l with [] => _ | _ :: _ => _ end] => destruct l
         end; cbn [snd]; lia.
Qed.

Lemma utf8_lossy_valid_fuel fuel l : (length l < fuel)%nat ->
  utf8_valid_fuel fuel l = true -> utf8_lossy_fuel fuel l = l.
Proof.
  revert l; induction fuel as [|f IH]; intros l Hlen Hv; [lia|].
  destruct l as [|b t]; [reflexivity|].
  cbn [utf8_valid_fuel utf8_lossy_fuel] in *.
  pose proof (utf8_head_pos b t) as Hpos.
  destruct (utf8_head (b :: t)) as [ok n] eqn:E. cbn [snd] in Hpos.
  apply andb_true_iff in Hv as [-> Hv].
  rewrite IH; auto.
  - apply firstn_skipn.
  - rewrite skipn_length. cbn [length] in *. lia.
Qed.

Lemma utf8_lossy_valid l : utf8_valid l = true -> utf8_lossy l = l.
Proof. unfold utf8_valid, utf8_lossy. apply utf8_lossy_valid_fuel. lia. Qed.

(** text -> code -> text and code -> text -> code for codes that are valid UTF-8 *)
Lemma fourcc_text_roundtrip c : c < U32 -> utf8_valid (fourcc_bytes c) = true ->
  fourcc_from_str (fourcc_display c) = Ok c.
Proof.
  intros Hc Hv. unfold fourcc_display. rewrite utf8_lossy_valid by exact Hv.
  unfold fourcc_from_str.
  pose proof (be_length 4 c) as Hl. unfold fourcc_bytes.
  destruct (be 4 c) as [|a [|b [|d [|e [|]]]]] eqn:E; try discriminate Hl.
  f_equal. rewrite <- E. apply unbe_be. rewrite pow256_4. exact Hc.
Qed.

Lemma fourcc_from_str_bytes s : length s = 4%nat -> bytes_ok s = true ->
  exists c, fourcc_from_str s = Ok c /\ fourcc_bytes c = s /\ c < U32.
Proof.
  intros Hl Hok. destruct s as [|a [|b [|d [|e [|]]]]]; try discriminate Hl.
  eexists. split; [reflexivity|]. split.
  - now apply fourcc_bytes_u32.
  - pose proof (unbe_lt _ Hok) as H. unfold lenN in H. rewrite Hl in H. exact H.
Qed.

Lemma fourcc_from_str_len s : length s <> 4%nat -> fourcc_from_str s = Err EData.
Proof. intros H. destruct s as [|a [|b [|d [|e [|]]]]]; try reflexivity. now elim H. Qed.

(** The textual form is lossy for codes that are not UTF-8 — e.g. the
    library's own (c)nam = 0xA96E616D: finding D91. *)
Lemma fourcc_text_refuted : exists c, c < U32 /\ fourcc_from_str (fourcc_display c) <> Ok c.
Proof. exists 0xa96e616d. split; [reflexivity|]. vm_compute. discriminate. Qed.

(** ** Packed language *)
Definition lang_code_check (c : N) : bool :=
  (language_code (language_string c) =? c mod 32768)
  && (if list_eq_dec N.eq_dec (language_string c) (iso_lang_unpack (c mod 32768)) then true else false).

Lemma lang_code_all : forallb lang_code_check (rangeN 65536) = true.
Proof. vm_compute. reflexivity. Qed.

Definition letters : list N := map (fun k => k + 97) (rangeN 26).
Definition lang_str_check (abc : N * N * N) : bool :=
  let '(a, b, c) := abc in
  (if list_eq_dec N.eq_dec (language_string (language_code [a; b; c])) [a; b; c] then true else false)
  && (language_code [a; b; c] =? iso_lang_pack a b c).
Definition triples : list (N * N * N) :=
  flat_map (fun a => flat_map (fun b => map (fun c => (a, b, c)) letters) letters) letters.
Lemma lang_str_all : forallb lang_str_check triples = true.
Proof. vm_compute. reflexivity. Qed.

Lemma letters_In a : 97 <= a <= 122 -> In a letters.
Proof.
  intros H. unfold letters. apply in_map_iff. exists (a - 97). split; [lia|].
  apply rangeN_In. lia.
Qed.

(** ** Fixed point *)
Lemma fp8_new_value v : v < 256 -> fp8_value (fp8_new v) = v.
Proof. intros H. unfold fp8_value, fp8_new. lia. Qed.
Lemma fp8_raw_value r : r < 65536 -> fp8_value r = r / 256.
Proof. intros H. unfold fp8_value. lia. Qed.
Lemma fp16_new_value v : v < 65536 -> fp16_value (fp16_new v) = v.
Proof. intros H. unfold fp16_value, fp16_new. lia. Qed.
Lemma fp16_raw_value r : r < U32 -> fp16_value r = r / 65536.
Proof. intros H. unfold fp16_value, U32 in *. lia. Qed.
Lemma fpi8_new_value v : (-128 <= v < 128)%Z -> fpi8_value (fpi8_new v) = v.
Proof. intros H. unfold fpi8_value, fpi8_new. rewrite Z.quot_mul; lia. Qed.

(** ** AVC profile: exhaustive over the 2^16 (profile, compatibility) pairs *)
Definition avc_check (pc : N * N) : bool :=
  let '(p, c) := pc in
  match avc_profile_try_from p c, iso_avc_profile p c with
  | Ok a, Some b => String.eqb a b
  | Err EData, None => true
  | _, _ => false
  end.
Definition byte_pairs : list (N * N) :=
  flat_map (fun p => map (fun c => (p, c)) (rangeN 256)) (rangeN 256).

Lemma byte_pairs_In p c : p < 256 -> c < 256 -> In (p, c) byte_pairs.
Proof.
  intros Hp Hc. unfold byte_pairs. apply in_flat_map. exists p. split.
  - now apply rangeN_In.
  - apply in_map. now apply rangeN_In.
Qed.
