(** * The muxer invariant: what the track writer's tables say about the accepted samples
      (proofs for properties C01 and C02; statements in Props/C01.v, Props/C02.v) *)
From MP4 Require Import Writer SampleTable IsoFile MuxProofs.
From Coq Require Import ZArith ZifyN ZifyNat ZifyBool Lia.
Open Scope list_scope.
Open Scope N_scope.

(** ** generic list facts *)
Lemma repeatN_succ {A} (x : A) n : repeatN x (n + 1) = repeatN x n ++ [x].
Proof.
  unfold repeatN. replace (N.to_nat (n + 1)) with (N.to_nat n + 1)%nat by lia.
  rewrite repeat_app. reflexivity.
Qed.

Lemma repeatN_0 {A} (x : A) : repeatN x 0 = [].
Proof. reflexivity. Qed.

Lemma repeatN_1 {A} (x : A) : repeatN x 1 = [x].
Proof. reflexivity. Qed.

Lemma repeatN_add {A} (x : A) a b : repeatN x (a + b) = repeatN x a ++ repeatN x b.
Proof.
  unfold repeatN. replace (N.to_nat (a + b)) with (N.to_nat a + N.to_nat b)%nat by lia.
  apply repeat_app.
Qed.

Lemma sumN_cons_eq a l : sumN (a :: l) = a + sumN l.
Proof. reflexivity. Qed.

Lemma sumN_nil_eq : sumN [] = 0.
Proof. reflexivity. Qed.

Lemma sumN_repeatN x n : sumN (repeatN x n) = n * x.
Proof.
  unfold repeatN. rewrite <- (N2Nat.id n) at 2. induction (N.to_nat n) as [|k IH].
  - reflexivity.
  - cbn [repeat]. rewrite sumN_cons_eq, IH. lia.
Qed.

Lemma lenN_map_eq {A B} (f : A -> B) l : lenN (map f l) = lenN l.
Proof. unfold lenN. now rewrite map_length. Qed.

Lemma lenN_zero_nil {A} (l : list A) : lenN l = 0 -> l = [].
Proof. destruct l; [reflexivity|]. rewrite lenN_cons. lia. Qed.

Lemma rev_cons_inv {A} (l : list A) x r : rev l = x :: r -> l = rev r ++ [x].
Proof. intros H. apply (f_equal (@rev A)) in H. rewrite rev_involutive in H. exact H. Qed.

Lemma rev_nil_inv {A} (l : list A) : rev l = [] -> l = [].
Proof. intros H. apply (f_equal (@rev A)) in H. rewrite rev_involutive in H. exact H. Qed.

(** ** run-length lists *)
Definition rl_flat {V} (l : list (N * V)) : list V := flat_map (fun e => repeatN (snd e) (fst e)) l.

Lemma rl_flat_app {V} (a b : list (N * V)) : rl_flat (a ++ b) = rl_flat a ++ rl_flat b.
Proof. apply flat_map_app. Qed.

Lemma rl_flat_one {V} c (v : V) : rl_flat [(c, v)] = repeatN v c.
Proof. unfold rl_flat. cbn [flat_map fst snd]. apply app_nil_r. Qed.

Lemma lenN_rl_flat {V} (l : list (N * V)) : lenN (rl_flat l) = sumN (map fst l).
Proof.
  induction l as [|[c v] t IH]; [reflexivity|].
  unfold rl_flat in *. cbn [flat_map map fst snd]. rewrite lenN_app, lenN_repeatN, sumN_cons_eq, IH. reflexivity.
Qed.

Lemma sumN_In_le x l : In x l -> x <= sumN l.
Proof.
  induction l as [|a t IH]; [intros []|]. intros [->|H]; rewrite sumN_cons_eq; [lia|]. specialize (IH H). lia.
Qed.

Lemma rl_entry_le {V} (l : list (N * V)) e : In e l -> fst e <= lenN (rl_flat l).
Proof. intros H. rewrite lenN_rl_flat. apply sumN_In_le. now apply in_map. Qed.

Lemma rl_dur_total (l : list (N * N)) : dur_total l = sumN (rl_flat l).
Proof.
  unfold dur_total. induction l as [|[c v] t IH]; [reflexivity|].
  unfold rl_flat in *. cbn [flat_map map fst snd]. rewrite sumN_app, sumN_cons_eq, sumN_repeatN, IH. reflexivity.
Qed.

Lemma rl_push_ok {V} m (eqb : V -> V -> bool) site l v l' :
  (forall a b, eqb a b = true -> a = b) ->
  rl_push m eqb site l v = Ok l' ->
  lenN (rl_flat l) + 1 < U32 ->
  rl_flat l' = rl_flat l ++ [v] /\
  (forall Q : V -> Prop, Forall (fun e => Q (snd e)) l -> Q v -> Forall (fun e => Q (snd e)) l').
Proof.
  intros Heq H Hb. unfold rl_push in H. destruct (rev l) as [|[cnt v'] before] eqn:E.
  - injection H as <-. split.
    + rewrite rl_flat_app, rl_flat_one. reflexivity.
    + intros Q HQ Hv. apply Forall_app. split; [exact HQ|]. constructor; [exact Hv|constructor].
  - apply rev_cons_inv in E. subst l. destruct (eqb v' v) eqn:Ev.
    + apply Heq in Ev. subst v'.
      assert (Hc : cnt <= lenN (rl_flat (rev before ++ [(cnt, v)]))).
      { apply (rl_entry_le _ (cnt, v)). apply in_or_app. right. now left. }
      rewrite add_w_ok in H by lia. cbn [res_bind] in H. injection H as <-. split.
      * rewrite !rl_flat_app, !rl_flat_one, repeatN_succ, app_assoc. reflexivity.
      * intros Q HQ Hv. apply Forall_app in HQ as [HQ1 _]. apply Forall_app. split; [exact HQ1|].
        constructor; [exact Hv|constructor].
    + injection H as <-. split.
      * rewrite (rl_flat_app (rev before ++ _)), rl_flat_one. reflexivity.
      * intros Q HQ Hv. apply Forall_app. split; [exact HQ|]. constructor; [exact Hv|constructor].
Qed.

(** ** sample sizes *)
Definition sizes_inv (ssize : N) (sizes : list N) (fixed : N) (isfixed : bool) (vs : list N) : Prop :=
  if isfixed then ssize = fixed /\ 0 < fixed /\ sizes = [] /\ vs = repeatN fixed (lenN vs) /\ 0 < lenN vs
  else ssize = 0 /\ sizes = vs.

Lemma update_sample_sizes_okf m t c size t' c' vs :
  update_sample_sizes m t c size = Ok (t', c') ->
  wt_stsz_count t = lenN vs -> lenN vs + 1 < U32 ->
  sizes_inv (wt_stsz_size t) (wt_stsz_sizes t) (wc_fixed_sample_size c) (wc_is_fixed_sample_size c) vs ->
  exists ssize' sizes' fixed' isfixed',
    t' = mkWt (wt_stsc t) ssize' (lenN vs + 1) sizes' (wt_co64 t) (wt_stts t) (wt_ctts t) (wt_stss t) /\
    c' = mkWc (wc_sample_id c) fixed' isfixed' (wc_chunk_samples c) (wc_chunk_duration c) (wc_chunk_buffer c) /\
    sizes_inv ssize' sizes' fixed' isfixed' (vs ++ [size]).
Proof.
  intros H Hc Hb Hi. unfold update_sample_sizes in H. rewrite Hc in H.
  rewrite add_w_ok in H by lia. unfold sizes_inv in Hi.
  destruct (N.eqb_spec (lenN vs) 0) as [E0|E0].
  - (* first sample *)
    apply lenN_zero_nil in E0. subst vs.
    destruct (wc_is_fixed_sample_size c);
      [destruct Hi as (_ & _ & _ & _ & Hn); change (lenN (@nil N)) with 0 in Hn; lia|]. destruct Hi as [Hs Hz].
    destruct (N.eqb_spec size 0) as [Es|Es]; cbn [res_bind] in H; injection H as <- <-.
    + do 4 eexists. split; [reflexivity|]. split; [reflexivity|]. unfold sizes_inv. rewrite Hz. subst size. auto.
    + do 4 eexists. split; [reflexivity|]. split; [reflexivity|]. unfold sizes_inv. cbn [app].
      change (lenN [size]) with 1. rewrite repeatN_1. repeat split; try lia. exact Hz.
  - destruct (wc_is_fixed_sample_size c).
    + destruct Hi as (Hs & Hf & Hz & Hv & Hn).
      destruct (N.eqb_spec (wc_fixed_sample_size c) size) as [Es|Es]; cbn [negb res_bind] in H.
      * injection H as <- <-. do 4 eexists. split; [reflexivity|]. split; [reflexivity|].
        unfold sizes_inv. rewrite lenN_app. change (lenN [size]) with 1.
        rewrite repeatN_succ, <- Hv, Es. repeat split; try lia. exact Hz.
      * assert (Hp : (0 <? wt_stsz_size t) = true) by (apply N.ltb_lt; lia). rewrite Hp in H.
        injection H as <- <-. do 4 eexists. split; [reflexivity|]. split; [reflexivity|].
        unfold sizes_inv. split; [reflexivity|]. rewrite Hz. cbn [app]. rewrite <- Hv. reflexivity.
    + destruct Hi as [Hs Hz]. cbn [res_bind] in H. injection H as <- <-.
      do 4 eexists. split; [reflexivity|]. split; [reflexivity|]. unfold sizes_inv. rewrite Hz. auto.
Qed.

(** ** composition offsets *)
Definition ctts_inv (ctts : option (list (N * Z))) (os : list Z) : Prop :=
  match ctts with
  | Some es => rl_flat es = os /\ Forall (fun e => fits_signed 32 (snd e) = true) es
  | None => os = repeatN 0%Z (lenN os)
  end.

Lemma Zeqb_sound a b : Z.eqb a b = true -> a = b.
Proof. apply Z.eqb_eq. Qed.
Lemma Neqb_sound a b : N.eqb a b = true -> a = b.
Proof. apply N.eqb_eq. Qed.

Lemma update_rendering_offsets_okf m t sid o t' os :
  update_rendering_offsets m t sid o = Ok t' ->
  sid = lenN os + 1 -> lenN os + 1 < U32 -> fits_signed 32 o = true ->
  ctts_inv (wt_ctts t) os ->
  exists ctts',
    t' = mkWt (wt_stsc t) (wt_stsz_size t) (wt_stsz_count t) (wt_stsz_sizes t) (wt_co64 t) (wt_stts t) ctts' (wt_stss t) /\
    ctts_inv ctts' (os ++ [o]).
Proof.
  intros H Hsid Hb Ho Hi. destruct t as [stsc ssize cnt sizes co64 stts ctts stss].
  unfold update_rendering_offsets in H. cbn [wt_stsc wt_stsz_size wt_stsz_count wt_stsz_sizes wt_co64 wt_stts wt_ctts wt_stss] in *.
  unfold ctts_inv in Hi. destruct ctts as [es|].
  - destruct Hi as [Hf Hq]. destruct (rl_push m Z.eqb _ es o) as [es'| | |] eqn:E; try discriminate.
    cbn [res_bind] in H. injection H as <-.
    apply rl_push_ok in E as [E1 E2]; [|exact Zeqb_sound|rewrite Hf; exact Hb].
    eexists. split; [reflexivity|]. unfold ctts_inv. split; [rewrite E1, Hf; reflexivity|].
    apply (E2 (fun v => fits_signed 32 v = true)); assumption.
  - destruct (Z.eqb_spec o 0) as [Eo|Eo].
    + injection H as <-. eexists. split; [reflexivity|]. unfold ctts_inv. rewrite lenN_app.
      change (lenN [o]) with 1. rewrite repeatN_succ, <- Hi, Eo. reflexivity.
    + destruct (N.ltb_spec 1 sid) as [E1|E1].
      * rewrite sub_w_ok in H by lia. cbn [res_bind] in H.
        destruct (rl_push m Z.eqb _ [(sid - 1, 0%Z)] o) as [es'| | |] eqn:E; try discriminate.
        cbn [res_bind] in H. injection H as <-.
        replace (sid - 1) with (lenN os) in E by lia.
        apply rl_push_ok in E as [E3 E2]; [|exact Zeqb_sound|rewrite rl_flat_one, lenN_repeatN; exact Hb].
        eexists. split; [reflexivity|]. unfold ctts_inv. split.
        -- rewrite E3, rl_flat_one, <- Hi. reflexivity.
        -- apply (E2 (fun v => fits_signed 32 v = true)); [|exact Ho]. constructor; [reflexivity|constructor].
      * assert (os = []) by (apply lenN_zero_nil; lia). subst os.
        destruct (rl_push m Z.eqb _ [] o) as [es'| | |] eqn:E; try discriminate.
        cbn [res_bind] in H. injection H as <-.
        apply rl_push_ok in E as [E3 E2]; [|exact Zeqb_sound|exact Hb].
        eexists. split; [reflexivity|]. unfold ctts_inv. split; [exact E3|].
        apply (E2 (fun v => fits_signed 32 v = true)); [constructor|exact Ho].
Qed.

(** ** sync samples *)
Fixpoint sync_ids_from (k : N) (ss : list wsample) : list N :=
  match ss with
  | [] => []
  | s :: t => (if ws_is_sync s then [k] else []) ++ sync_ids_from (k + 1) t
  end.

Definition stss_of (ss : list wsample) : option (list N) :=
  match ss with [] => None | _ => Some (sync_ids_from 1 ss) end.

Lemma sync_ids_from_app k ss s :
  sync_ids_from k (ss ++ [s]) = sync_ids_from k ss ++ (if ws_is_sync s then [k + lenN ss] else []).
Proof.
  revert k; induction ss as [|a t IH]; intros k; cbn [app sync_ids_from].
  - change (lenN (@nil wsample)) with 0. rewrite N.add_0_r, app_nil_r. reflexivity.
  - rewrite IH, lenN_cons, <- app_assoc. replace (k + 1 + lenN t) with (k + (1 + lenN t)) by lia. reflexivity.
Qed.

Lemma update_sync_samples_ok t sid s ss :
  wt_stss t = stss_of ss -> sid = lenN ss + 1 ->
  wt_stss (update_sync_samples t sid (ws_is_sync s)) = stss_of (ss ++ [s]).
Proof.
  intros H ->. unfold update_sync_samples. cbn [wt_stss]. rewrite H.
  destruct ss as [|a r].
  - cbn [stss_of app sync_ids_from]. change (lenN (@nil wsample)) with 0. rewrite app_nil_r. reflexivity.
  - unfold stss_of. cbn [app]. change (a :: r ++ [s]) with ((a :: r) ++ [s]).
    rewrite sync_ids_from_app. rewrite (N.add_comm 1). destruct (ws_is_sync s); [reflexivity|].
    rewrite app_nil_r. reflexivity.
Qed.

(** ** sample-to-chunk runs *)
Lemma runs_ok_grow runs exp nc : runs_ok runs exp nc = true -> runs_ok runs exp (nc + 1) = true.
Proof.
  revert exp; induction runs as [|e t IH]; intros exp H; [reflexivity|].
  cbn [runs_ok] in *. rewrite !andb_true_iff in *.
  destruct H as [[[[[[H1 H2] H3] H4] H5] H6] H7]. repeat split; auto.
  apply N.leb_le in H4. apply N.leb_le. lia.
Qed.

Lemma runs_ok_snoc r e0 e exp nc :
  runs_ok (r ++ [e0]) exp nc = true ->
  sc_first_chunk e = nc + 1 -> 1 <= sc_samples_per_chunk e < U32 -> sc_sample_description_index e < U32 ->
  runs_ok ((r ++ [e0]) ++ [e]) exp (nc + 1) = true.
Proof.
  intros H Hf Hs Hd. revert exp H; induction r as [|a t IH]; intros exp H.
  - cbn [app runs_ok] in *. rewrite !andb_true_iff in *.
    destruct H as [[[[[[H1 H2] H3] H4] H5] H6] H7].
    apply N.leb_le in H4. repeat split; auto; try (apply N.leb_le; lia); try (apply N.ltb_lt; lia).
  - cbn [app] in *. cbn [runs_ok] in H. cbn [runs_ok].
    destruct (t ++ [e0]) as [|b u] eqn:E; [destruct t; discriminate|].
    cbn [app]. rewrite !andb_true_iff in *.
    destruct H as [[[[[[H1 H2] H3] H4] H5] H6] H7].
    apply N.leb_le in H4. repeat split; auto; try (apply N.leb_le; lia).
    all: try (apply (IH None); exact H7).
Qed.

Lemma runs_ok_single e nc :
  sc_first_chunk e = 1 -> 1 <= sc_samples_per_chunk e < U32 -> sc_sample_description_index e < U32 ->
  runs_ok [e] (Some 1) (nc + 1) = true.
Proof.
  intros Hf Hs Hd. cbn [runs_ok]. rewrite !andb_true_iff.
  repeat split; auto; try (apply N.leb_le; lia); try (apply N.ltb_lt; lia); try (apply N.eqb_eq; lia).
Qed.

Lemma runs_ok_last_le r e exp nc : runs_ok (r ++ [e]) exp nc = true -> sc_first_chunk e <= nc.
Proof.
  revert exp; induction r as [|a t IH]; intros exp H.
  - cbn [app runs_ok] in H. rewrite !andb_true_iff in H.
    destruct H as [[[[[[H1 H2] H3] H4] H5] H6] H7]. now apply N.leb_le in H4.
  - cbn [app runs_ok] in H. rewrite !andb_true_iff in H.
    destruct H as [[[[[[H1 H2] H3] H4] H5] H6] H7]. exact (IH _ H7).
Qed.

Lemma chunk_counts_grow r e nc :
  sc_first_chunk e <= nc + 1 ->
  chunk_counts (r ++ [e]) (nc + 1) = chunk_counts (r ++ [e]) nc ++ [sc_samples_per_chunk e].
Proof.
  intros H. induction r as [|a t IH].
  - cbn [app chunk_counts]. rewrite !app_nil_r.
    replace (nc + 1 + 1 - sc_first_chunk e) with (nc + 1 - sc_first_chunk e + 1) by lia.
    apply repeatN_succ.
  - cbn [app chunk_counts]. destruct (t ++ [e]) as [|b u] eqn:E; [destruct t; discriminate|].
    rewrite IH, app_assoc. reflexivity.
Qed.

Lemma chunk_counts_snoc r e0 e nc :
  sc_first_chunk e = nc + 1 ->
  chunk_counts ((r ++ [e0]) ++ [e]) (nc + 1) = chunk_counts (r ++ [e0]) nc ++ [sc_samples_per_chunk e].
Proof.
  intros H. induction r as [|a t IH].
  - cbn [app chunk_counts]. rewrite !app_nil_r, H.
    replace (nc + 1 + 1 - (nc + 1)) with 1 by lia. rewrite repeatN_1. reflexivity.
  - cbn [app chunk_counts]. destruct (t ++ [e0]) as [|b u] eqn:E; [destruct t; discriminate|].
    cbn [app]. cbn [app] in IH. rewrite IH, app_assoc. reflexivity.
Qed.

Lemma write_chunk_okf m t c pos t' c' wrote :
  write_chunk m t c pos = Ok (t', c', wrote) ->
  1 <= wc_chunk_samples c < U32 -> lenN (wt_co64 t) + 1 < U32 ->
  runs_ok (wt_stsc t) (Some 1) (lenN (wt_co64 t)) = true ->
  (wt_stsc t = [] -> wt_co64 t = []) ->
  exists stsc',
    t' = mkWt stsc' (wt_stsz_size t) (wt_stsz_count t) (wt_stsz_sizes t) (wt_co64 t ++ [pos]) (wt_stts t) (wt_ctts t) (wt_stss t) /\
    c' = mkWc (wc_sample_id c) (wc_fixed_sample_size c) (wc_is_fixed_sample_size c) 0 0 [] /\
    wrote = Some (pos, wc_chunk_buffer c) /\
    stsc' <> [] /\
    runs_ok stsc' (Some 1) (lenN (wt_co64 t) + 1) = true /\
    chunk_counts stsc' (lenN (wt_co64 t) + 1) = chunk_counts (wt_stsc t) (lenN (wt_co64 t)) ++ [wc_chunk_samples c].
Proof.
  intros H Hcs Hnc Hr Hnil. unfold write_chunk in H.
  destruct (N.eqb_spec (wc_chunk_samples c) 0) as [E|_]; [lia|].
  unfold cast_w in H. rewrite N.mod_small in H by lia. rewrite add_w_ok in H by lia. cbn [res_bind] in H.
  destruct (rev (wt_stsc t)) as [|e before] eqn:Er.
  - apply rev_nil_inv in Er. specialize (Hnil Er). rewrite Er, Hnil in *.
    destruct (sub_w m U32 _ (wc_sample_id c) (wc_chunk_samples c)) as [d| | |]; try discriminate. cbn [res_bind] in H.
    destruct (add_w m U32 _ d 1) as [fs| | |]; try discriminate. cbn [res_bind] in H.
    injection H as <- <- <-. eexists. split; [reflexivity|]. split; [reflexivity|]. split; [reflexivity|].
    split; [discriminate|]. change (lenN (@nil N)) with 0. split.
    + apply runs_ok_single; cbn [sc_first_chunk sc_samples_per_chunk sc_sample_description_index]; try lia;
      try (unfold U32; lia).
    + cbn [app chunk_counts sc_first_chunk sc_samples_per_chunk]. rewrite app_nil_r. reflexivity.
  - apply rev_cons_inv in Er. rewrite Er in *.
    pose proof (runs_ok_last_le _ _ _ _ Hr) as Hle.
    destruct (N.eqb_spec (sc_samples_per_chunk e) (wc_chunk_samples c)) as [Es|Es].
    + cbn [res_bind] in H. injection H as <- <- <-. eexists. split; [reflexivity|]. split; [reflexivity|].
      split; [reflexivity|]. split; [destruct (rev before); discriminate|]. split.
      * now apply runs_ok_grow.
      * rewrite chunk_counts_grow by lia. rewrite Es. reflexivity.
    + destruct (sub_w m U32 _ (wc_sample_id c) (wc_chunk_samples c)) as [d| | |]; try discriminate. cbn [res_bind] in H.
      destruct (add_w m U32 _ d 1) as [fs| | |]; try discriminate. cbn [res_bind] in H.
      injection H as <- <- <-. eexists. split; [reflexivity|]. split; [reflexivity|]. split; [reflexivity|].
      split; [destruct (rev before ++ [e]); discriminate|]. split.
      * apply runs_ok_snoc; cbn [sc_first_chunk sc_samples_per_chunk sc_sample_description_index]; try lia; auto;
        try (unfold U32; lia).
      * rewrite chunk_counts_snoc by reflexivity. reflexivity.
Qed.

(** ** header durations *)
Definition tkhd_sat (md mts ts : N) : N := if md * mts / ts <? U64 then md * mts / ts else U64MAX.

Lemma update_durations_okf m w h dur mts h' :
  update_durations m w h dur mts = Ok h' -> wh_mdhd_duration h + dur < U64 ->
  wh_mdhd_duration h' = wh_mdhd_duration h + dur /\
  wh_tkhd_duration h' = tkhd_sat (wh_mdhd_duration h + dur) mts (tc_timescale (tw_conf w)) /\
  (U32MAX < wh_mdhd_duration h' -> wh_mdhd_version h' = 1) /\
  (U32MAX < wh_tkhd_duration h' -> wh_tkhd_version h' = 1).
Proof.
  intros H Hb. unfold update_durations in H. rewrite add_w_ok in H by exact Hb. cbn [res_bind] in H.
  unfold div_w in H. destruct (tc_timescale (tw_conf w) =? 0); [discriminate|]. cbn [res_bind] in H.
  injection H as <-. cbn [wh_mdhd_duration wh_tkhd_duration wh_mdhd_version wh_tkhd_version].
  split; [reflexivity|]. split; [reflexivity|]. split; intros Hlt; apply N.ltb_lt in Hlt; rewrite Hlt; reflexivity.
Qed.

(** ** the track-writer invariant *)
Definition sz (s : wsample) : N := lenN (ws_bytes s).
Definition chunk_bytes (ch : list wsample) : bytes := flat_map ws_bytes ch.
Definition csize (ch : list wsample) : N := sumN (map sz ch).
Definition sliceN (off len : N) (l : bytes) : bytes := firstn (N.to_nat len) (dropN off l).
Definition hist (chs : list (list wsample)) (pend : list wsample) : list wsample := concat chs ++ pend.

Lemma lenN_chunk_bytes ch : lenN (chunk_bytes ch) = csize ch.
Proof.
  unfold chunk_bytes, csize. induction ch as [|s t IH]; [reflexivity|].
  cbn [flat_map map]. rewrite lenN_app, sumN_cons_eq, IH. reflexivity.
Qed.

Lemma chunk_bytes_app a b : chunk_bytes (a ++ b) = chunk_bytes a ++ chunk_bytes b.
Proof. apply flat_map_app. Qed.

Lemma csize_app a b : csize (a ++ b) = csize a + csize b.
Proof. unfold csize. rewrite map_app, sumN_app. reflexivity. Qed.

Definition sample_typed (s : wsample) : Prop :=
  ws_duration s < U32 /\ fits_signed 32 (ws_rendering_offset s) = true.
Definition sample_ok (s : wsample) : Prop := sz s < U32 /\ sample_typed s.

Definition chunk_at (lo base : N) (out : bytes) (o : N) (ch : list wsample) : Prop :=
  lo <= o /\ o + csize ch <= base + lenN out /\ sliceN (o - base) (csize ch) out = chunk_bytes ch.

Record twf_inv (lo base : N) (out : bytes) (mts : N) (w : twriter)
              (chs : list (list wsample)) (pend : list wsample) : Prop := mkTwfInv {
  twf_lo : base <= lo;
  twf_ok : Forall sample_ok (hist chs pend);
  twf_id : wc_sample_id (tw_c w) = lenN (hist chs pend) + 1;
  twf_idb : lenN (hist chs pend) + 1 < U32;
  twf_cnt : wt_stsz_count (tw_t w) = lenN (hist chs pend);
  twf_sizes : sizes_inv (wt_stsz_size (tw_t w)) (wt_stsz_sizes (tw_t w))
                       (wc_fixed_sample_size (tw_c w)) (wc_is_fixed_sample_size (tw_c w)) (map sz (hist chs pend));
  twf_stts : rl_flat (wt_stts (tw_t w)) = map ws_duration (hist chs pend);
  twf_stts_v : Forall (fun e => snd e < U32) (wt_stts (tw_t w));
  twf_ctts : ctts_inv (wt_ctts (tw_t w)) (map ws_rendering_offset (hist chs pend));
  twf_stss : wt_stss (tw_t w) = stss_of (hist chs pend);
  twf_runs : runs_ok (wt_stsc (tw_t w)) (Some 1) (lenN (wt_co64 (tw_t w))) = true;
  twf_nil : wt_stsc (tw_t w) = [] -> wt_co64 (tw_t w) = [];
  twf_counts : chunk_counts (wt_stsc (tw_t w)) (lenN (wt_co64 (tw_t w))) = map lenN chs;
  twf_ne : Forall (fun ch : list wsample => 1 <= lenN ch) chs;
  twf_offs : Forall2 (chunk_at lo base out) (wt_co64 (tw_t w)) chs;
  twf_pn : wc_chunk_samples (tw_c w) = lenN pend;
  twf_pb : wc_chunk_buffer (tw_c w) = chunk_bytes pend;
  twf_md : wh_mdhd_duration (tw_h w) = sumN (map ws_duration (hist chs pend));
  twf_td : wh_tkhd_duration (tw_h w) = tkhd_sat (wh_mdhd_duration (tw_h w)) mts (tc_timescale (tw_conf w));
  twf_mv : U32MAX < wh_mdhd_duration (tw_h w) -> wh_mdhd_version (tw_h w) = 1;
  twf_tv : U32MAX < wh_tkhd_duration (tw_h w) -> wh_tkhd_version (tw_h w) = 1 }.

Lemma lenN_concat_ge (chs : list (list wsample)) :
  Forall (fun ch : list wsample => 1 <= lenN ch) chs -> lenN chs <= lenN (concat chs).
Proof.
  induction 1 as [|ch t H _ IH]; [change (lenN (@nil (list wsample))) with 0; lia|].
  cbn [concat]. rewrite lenN_cons, lenN_app. lia.
Qed.

Lemma Forall2_lenN {A B} (R : A -> B -> Prop) l1 l2 : Forall2 R l1 l2 -> lenN l1 = lenN l2.
Proof. induction 1 as [|a b l1 l2 _ _ IH]; [reflexivity|]. rewrite !lenN_cons, IH. reflexivity. Qed.

Lemma sumN_bound B l : Forall (fun x => x < B) l -> sumN l <= lenN l * B.
Proof.
  induction 1 as [|x t H _ IH]; [change (lenN (@nil N)) with 0; rewrite sumN_nil_eq; lia|].
  rewrite sumN_cons_eq, lenN_cons. lia.
Qed.

Lemma dropN_app_le {A} n (l1 l2 : list A) : n <= lenN l1 -> dropN n (l1 ++ l2) = dropN n l1 ++ l2.
Proof.
  revert n; induction l1 as [|x t IH]; intros n H.
  - change (lenN (@nil A)) with 0 in H. replace n with 0 by lia. rewrite !dropN_0. reflexivity.
  - cbn [app dropN]. destruct (N.eqb_spec n 0); [reflexivity|]. apply IH. rewrite lenN_cons in H. lia.
Qed.

Lemma sliceN_app_l off n l x : off + n <= lenN l -> sliceN off n (l ++ x) = sliceN off n l.
Proof.
  intros H. unfold sliceN. rewrite dropN_app_le by lia.
  rewrite firstn_app. replace (N.to_nat n - length (dropN off l))%nat with 0%nat.
  - cbn [firstn]. apply app_nil_r.
  - pose proof (dropN_lenN off l) as E. unfold lenN in E, H. lia.
Qed.

Lemma sliceN_end l b : sliceN (lenN l) (lenN b) (l ++ b) = b.
Proof.
  unfold sliceN. rewrite dropN_app. replace (N.to_nat (lenN b)) with (length b) by (unfold lenN; lia).
  apply firstn_all.
Qed.

Lemma chunk_at_grow lo base out x o ch : base <= lo -> chunk_at lo base out o ch -> chunk_at lo base (out ++ x) o ch.
Proof.
  intros Hb (H1 & H2 & H3). unfold chunk_at. rewrite lenN_app. split; [exact H1|]. split; [lia|].
  rewrite sliceN_app_l by lia. exact H3.
Qed.

Lemma Forall2_weaken {A B} (R R' : A -> B -> Prop) l1 l2 :
  (forall a b, R a b -> R' a b) -> Forall2 R l1 l2 -> Forall2 R' l1 l2.
Proof. intros H. induction 1; constructor; auto. Qed.

Lemma hist_pend_snoc chs pend s : hist chs (pend ++ [s]) = hist chs pend ++ [s].
Proof. unfold hist. apply app_assoc. Qed.

Lemma hist_flush chs pend : hist (chs ++ [pend]) [] = hist chs pend.
Proof. unfold hist. rewrite concat_app. cbn [concat]. rewrite !app_nil_r. reflexivity. Qed.

Lemma tw_write_sample_inv m lo base out mts w chs pend pos s w' wrote td :
  twf_inv lo base out mts w chs pend -> sample_typed s -> pos = base + lenN out -> lo <= pos ->
  tw_write_sample m w pos s mts = Ok (w', wrote, td) ->
  td = wh_tkhd_duration (tw_h w') /\ tw_conf w' = tw_conf w /\
  ((wrote = None /\ wt_co64 (tw_t w') = wt_co64 (tw_t w) /\ twf_inv lo base out mts w' chs (pend ++ [s])) \/
   (wrote = Some (pos, chunk_bytes (pend ++ [s])) /\ wt_co64 (tw_t w') = wt_co64 (tw_t w) ++ [pos] /\
    twf_inv lo base (out ++ chunk_bytes (pend ++ [s])) mts w' (chs ++ [pend ++ [s]]) [])).
Proof.
  intros [Hlo Hok Hid Hidb Hcnt Hsz Hstts Hsv Hctts Hstss Hruns Hnil Hcounts Hne Hoffs Hpn Hpb Hmd Htd Hmv Htv]
         [Hd Ho] Hpos Hlp H.
  unfold tw_write_sample in H.
  destruct (N.ltb_spec U32MAX (lenN (ws_bytes s))) as [|Hlen]; [discriminate|].
  destruct (N.eqb_spec (wc_sample_id (tw_c w)) U32MAX) as [|Hmax]; [discriminate|].
  set (ss := hist chs pend) in *.
  assert (Hn2 : lenN ss + 2 < U32) by (unfold U32MAX in *; lia).
  assert (Hpl : lenN pend <= lenN ss) by (unfold ss, hist; rewrite lenN_app; lia).
  assert (Hlen' : sz s < U32) by (unfold sz, U32MAX in *; lia).
  rewrite Hpn in H. rewrite add_w_ok in H by lia. cbn [res_bind] in H.
  unfold cast_w in H. rewrite N.mod_small in H by exact Hlen'.
  match type of H with res_bind (update_sample_sizes ?m ?t ?c ?z) _ = _ =>
    destruct (update_sample_sizes m t c z) as [[t1 c2]| | |] eqn:E1; try discriminate end.
  destruct (update_sample_sizes_okf _ _ _ _ _ _ (map sz ss) E1) as (ssize' & sizes' & fixed' & isf' & -> & -> & Hsz');
    [rewrite lenN_map_eq; exact Hcnt | rewrite lenN_map_eq; lia | exact Hsz |].
  clear E1. rewrite lenN_map_eq in H.
  cbn [res_bind wt_stsc wt_stsz_size wt_stsz_count wt_stsz_sizes wt_co64 wt_stts wt_ctts wt_stss
       wc_sample_id wc_fixed_sample_size wc_is_fixed_sample_size wc_chunk_samples wc_chunk_duration wc_chunk_buffer] in H.
  unfold update_sample_times in H.
  cbn [res_bind wt_stsc wt_stsz_size wt_stsz_count wt_stsz_sizes wt_co64 wt_stts wt_ctts wt_stss] in H.
  destruct (rl_push m N.eqb _ (wt_stts (tw_t w)) (ws_duration s)) as [stts'| | |] eqn:E2; try discriminate.
  apply rl_push_ok in E2 as [E2a E2b]; [|exact Neqb_sound|rewrite Hstts, lenN_map_eq; lia].
  cbn [res_bind] in H.
  match type of H with res_bind (update_rendering_offsets ?m ?t ?i ?z) _ = _ =>
    destruct (update_rendering_offsets m t i z) as [t3| | |] eqn:E3; try discriminate end.
  destruct (update_rendering_offsets_okf _ _ _ _ _ (map ws_rendering_offset ss) E3) as (ctts' & -> & Hctts');
    [rewrite lenN_map_eq; exact Hid | rewrite lenN_map_eq; lia | exact Ho | exact Hctts |].
  clear E3.
  cbn [res_bind wt_stsc wt_stsz_size wt_stsz_count wt_stsz_sizes wt_co64 wt_stts wt_ctts wt_stss] in H.
  unfold update_sync_samples in H.
  cbn [res_bind wt_stsc wt_stsz_size wt_stsz_count wt_stsz_sizes wt_co64 wt_stts wt_ctts wt_stss] in H.
  pose proof (update_sync_samples_ok (tw_t w) _ s ss Hstss Hid) as Hstss'.
  unfold update_sync_samples in Hstss'. cbn [wt_stss] in Hstss'. rewrite Hid in Hstss'.
  assert (Hmdb : wh_mdhd_duration (tw_h w) + ws_duration s < U64).
  { rewrite Hmd. assert (Hf : Forall (fun x => x < U32) (map ws_duration ss)).
    { apply Forall_map. eapply Forall_impl; [|exact Hok]. intros a [_ [Ha _]]. exact Ha. }
    apply sumN_bound in Hf. rewrite lenN_map_eq in Hf. clear - Hf Hn2 Hd. unfold U32, U64 in *. lia. }
  assert (Hnc : lenN (wt_co64 (tw_t w)) <= lenN ss).
  { rewrite (Forall2_lenN _ _ _ Hoffs). pose proof (lenN_concat_ge _ Hne). unfold ss, hist. rewrite lenN_app. lia. }
  assert (Hok' : Forall sample_ok (ss ++ [s])).
  { apply Forall_app. split; [exact Hok|]. constructor; [|constructor]. split; [exact Hlen'|split; assumption]. }
  assert (Hl1 : lenN (ss ++ [s]) = lenN ss + 1) by (rewrite lenN_app; reflexivity).
  assert (Hcb : wc_chunk_buffer (tw_c w) ++ ws_bytes s = chunk_bytes (pend ++ [s])).
  { rewrite Hpb, chunk_bytes_app. unfold chunk_bytes at 3. cbn [flat_map]. rewrite app_nil_r. reflexivity. }
  rewrite Hcb in H.
  destruct (is_chunk_full w _) eqn:Ef.
  - (* the chunk is flushed *)
    match type of H with res_bind (write_chunk ?m ?t ?c ?p) _ = _ =>
      destruct (write_chunk m t c p) as [[[t5 c3] wr]| | |] eqn:E5; try discriminate end.
    apply write_chunk_okf in E5 as (stsc' & -> & -> & -> & Hne' & Hruns' & Hcounts');
      cbn [wt_stsc wt_stsz_size wt_stsz_count wt_stsz_sizes wt_co64 wt_stts wt_ctts wt_stss
           wc_sample_id wc_fixed_sample_size wc_is_fixed_sample_size wc_chunk_samples wc_chunk_duration wc_chunk_buffer] in *;
      [| lia | lia | exact Hruns | exact Hnil].
    cbn [res_bind] in H.
    destruct (update_durations m w (tw_h w) (ws_duration s) mts) as [h1| | |] eqn:E6; try discriminate.
    apply update_durations_okf in E6 as (E6a & E6b & E6c & E6d); [|exact Hmdb].
    cbn [res_bind wc_sample_id] in H. rewrite Hid in H. rewrite add_w_ok in H by lia. cbn [res_bind] in H.
    injection H as <- <- <-.
    cbn [tw_h tw_conf tw_t tw_c wt_co64]. split; [reflexivity|]. split; [reflexivity|]. right.
    split; [reflexivity|]. split; [reflexivity|].
    constructor;
      cbn [tw_h tw_conf tw_t tw_c wt_stsc wt_stsz_size wt_stsz_count wt_stsz_sizes wt_co64 wt_stts wt_ctts wt_stss
           wc_sample_id wc_fixed_sample_size wc_is_fixed_sample_size wc_chunk_samples wc_chunk_duration wc_chunk_buffer];
      rewrite ?hist_flush, ?hist_pend_snoc; change (hist chs pend) with ss.
    + exact Hlo.
    + exact Hok'.
    + lia.
    + lia.
    + lia.
    + rewrite map_app. exact Hsz'.
    + rewrite map_app, E2a, Hstts. reflexivity.
    + apply (E2b (fun v => v < U32)); assumption.
    + rewrite map_app. exact Hctts'.
    + exact Hstss'.
    + rewrite lenN_app. exact Hruns'.
    + intros E. contradiction.
    + rewrite lenN_app. change (lenN [pos]) with 1. rewrite Hcounts', Hcounts, map_app. cbn [map].
      rewrite lenN_app. reflexivity.
    + apply Forall_app. split; [exact Hne|]. constructor; [|constructor]. rewrite lenN_app. change (lenN [s]) with 1. lia.
    + apply Forall2_app.
      * eapply Forall2_weaken; [|exact Hoffs]. intros a b Hab. apply chunk_at_grow; assumption.
      * constructor; [|constructor]. unfold chunk_at. rewrite lenN_app, lenN_chunk_bytes.
        split; [exact Hlp|]. split; [lia|].
        replace (pos - base) with (lenN out) by lia. rewrite <- lenN_chunk_bytes. apply sliceN_end.
    + reflexivity.
    + reflexivity.
    + rewrite E6a, Hmd, map_app, sumN_app. cbn [map]. rewrite sumN_cons_eq, sumN_nil_eq. lia.
    + rewrite E6b, E6a. reflexivity.
    + exact E6c.
    + exact E6d.
  - (* the sample stays pending *)
    cbn [res_bind] in H.
    destruct (update_durations m w (tw_h w) (ws_duration s) mts) as [h1| | |] eqn:E6; try discriminate.
    apply update_durations_okf in E6 as (E6a & E6b & E6c & E6d); [|exact Hmdb].
    cbn [res_bind wc_sample_id wc_fixed_sample_size wc_is_fixed_sample_size wc_chunk_samples wc_chunk_duration wc_chunk_buffer] in H.
    rewrite Hid in H. rewrite add_w_ok in H by lia. cbn [res_bind] in H.
    injection H as <- <- <-.
    cbn [tw_h tw_conf tw_t tw_c wt_co64]. split; [reflexivity|]. split; [reflexivity|]. left.
    split; [reflexivity|]. split; [reflexivity|].
    constructor;
      cbn [tw_h tw_conf tw_t tw_c wt_stsc wt_stsz_size wt_stsz_count wt_stsz_sizes wt_co64 wt_stts wt_ctts wt_stss
           wc_sample_id wc_fixed_sample_size wc_is_fixed_sample_size wc_chunk_samples wc_chunk_duration wc_chunk_buffer];
      rewrite ?hist_pend_snoc; change (hist chs pend) with ss.
    + exact Hlo.
    + exact Hok'.
    + lia.
    + lia.
    + lia.
    + rewrite map_app. exact Hsz'.
    + rewrite map_app, E2a, Hstts. reflexivity.
    + apply (E2b (fun v => v < U32)); assumption.
    + rewrite map_app. exact Hctts'.
    + exact Hstss'.
    + exact Hruns.
    + exact Hnil.
    + exact Hcounts.
    + exact Hne.
    + exact Hoffs.
    + rewrite lenN_app. reflexivity.
    + reflexivity.
    + rewrite E6a, Hmd, map_app, sumN_app. cbn [map]. rewrite sumN_cons_eq, sumN_nil_eq. lia.
    + rewrite E6b, E6a. reflexivity.
    + exact E6c.
    + exact E6d.
Qed.

Lemma twf_inv_grow lo base out mts w chs pend x :
  twf_inv lo base out mts w chs pend -> twf_inv lo base (out ++ x) mts w chs pend.
Proof.
  intros [Hlo Hok Hid Hidb Hcnt Hsz Hstts Hsv Hctts Hstss Hruns Hnil Hcounts Hne Hoffs Hpn Hpb Hmd Htd Hmv Htv].
  constructor; try assumption.
  eapply Forall2_weaken; [|exact Hoffs]. intros a b Hab. apply chunk_at_grow; assumption.
Qed.

Lemma twf_new_inv lo base out mts id c w :
  tw_new id c = Ok w -> base <= lo -> twf_inv lo base out mts w [] [] /\ wt_co64 (tw_t w) = [].
Proof.
  intros H Hlo. unfold tw_new in H. destruct (conf_check c); try discriminate. cbn [res_bind] in H.
  injection H as <-. split; [|reflexivity].
  constructor;
    cbn [tw_h tw_conf tw_t tw_c wt_stsc wt_stsz_size wt_stsz_count wt_stsz_sizes wt_co64 wt_stts wt_ctts wt_stss
         wc_sample_id wc_fixed_sample_size wc_is_fixed_sample_size wc_chunk_samples wc_chunk_duration wc_chunk_buffer
         wh_mdhd_duration wh_tkhd_duration wh_mdhd_version wh_tkhd_version];
    unfold hist; cbn [concat app map]; try reflexivity; try constructor; try (unfold U32; change (lenN (@nil wsample)) with 0; lia);
    try (unfold U32MAX, U32; lia).
  all: reflexivity.
Qed.

(** ** [write_end] of one track *)
Definition tables_of (t : wtables) : tables :=
  let fits := forallb (fun o => o <=? U32MAX) (wt_co64 t) in
  mkTables (wt_stsc t) (wt_stsz_size t) (wt_stsz_count t) (wt_stsz_sizes t)
           (if fits then Some (wt_co64 t) else None) (if fits then None else Some (wt_co64 t))
           (wt_stts t) (wt_ctts t) (wt_stss t).

Definition final_of (w : twriter) : tfinal :=
  mkTf (tw_conf w) (tw_track_id w) (tables_of (tw_t w)) (tw_h w) (max_sample_size (tw_t w)).

Lemma tw_write_end_inv m lo base out mts w chs pend pos w' wrote tf :
  twf_inv lo base out mts w chs pend -> pos = base + lenN out -> lo <= pos ->
  tw_write_end m w pos = Ok (w', wrote, tf) ->
  tf = final_of w' /\
  ((wrote = None /\ pend = [] /\ wt_co64 (tw_t w') = wt_co64 (tw_t w) /\ twf_inv lo base out mts w' chs []) \/
   (wrote = Some (pos, chunk_bytes pend) /\ wt_co64 (tw_t w') = wt_co64 (tw_t w) ++ [pos] /\
    twf_inv lo base (out ++ chunk_bytes pend) mts w' (chs ++ [pend]) [])).
Proof.
  intros [Hlo Hok Hid Hidb Hcnt Hsz Hstts Hsv Hctts Hstss Hruns Hnil Hcounts Hne Hoffs Hpn Hpb Hmd Htd Hmv Htv] Hpos Hlp H.
  unfold tw_write_end in H.
  destruct (write_chunk m (tw_t w) (tw_c w) pos) as [[[t1 c1] wr]| | |] eqn:E; try discriminate.
  cbn [res_bind] in H. injection H as <- <- <-. split; [reflexivity|].
  cbn [tw_t].
  assert (Hpl : lenN pend <= lenN (hist chs pend)) by (unfold hist; rewrite lenN_app; lia).
  assert (Hnc : lenN (wt_co64 (tw_t w)) <= lenN (hist chs pend)).
  { rewrite (Forall2_lenN _ _ _ Hoffs). pose proof (lenN_concat_ge _ Hne). unfold hist. rewrite lenN_app. lia. }
  destruct (N.eqb_spec (lenN pend) 0) as [E0|E0].
  - left. apply lenN_zero_nil in E0. subst pend. unfold write_chunk in E. rewrite Hpn in E.
    change (lenN (@nil wsample) =? 0) with true in E. cbn iota in E. injection E as <- <- <-.
    split; [reflexivity|]. split; [reflexivity|]. split; [reflexivity|].
    constructor; cbn [tw_h tw_conf tw_t tw_c]; assumption.
  - right. apply write_chunk_okf in E as (stsc' & -> & -> & -> & Hne' & Hruns' & Hcounts'); [| lia | lia | exact Hruns | exact Hnil].
    rewrite Hpb. split; [reflexivity|]. split; [reflexivity|].
    constructor;
      cbn [tw_h tw_conf tw_t tw_c wt_stsc wt_stsz_size wt_stsz_count wt_stsz_sizes wt_co64 wt_stts wt_ctts wt_stss
           wc_sample_id wc_fixed_sample_size wc_is_fixed_sample_size wc_chunk_samples wc_chunk_duration wc_chunk_buffer];
      rewrite ?hist_flush; try assumption.
    + rewrite lenN_app. exact Hruns'.
    + intros E. contradiction.
    + rewrite lenN_app. change (lenN [pos]) with 1. rewrite Hcounts', Hcounts, map_app, Hpn. reflexivity.
    + apply Forall_app. split; [exact Hne|]. constructor; [|constructor]. lia.
    + apply Forall2_app.
      * eapply Forall2_weaken; [|exact Hoffs]. intros a b Hab. apply chunk_at_grow; assumption.
      * constructor; [|constructor]. unfold chunk_at. rewrite lenN_app, lenN_chunk_bytes.
        split; [exact Hlp|]. split; [lia|].
        replace (pos - base) with (lenN out) by lia. rewrite <- lenN_chunk_bytes. apply sliceN_end.
    + reflexivity.
    + reflexivity.
Qed.

(** ** what the final tables of a track say *)
Lemma nthN_map_eq {A B} (f : A -> B) l n : nthN (map f l) n = option_map f (nthN l n).
Proof.
  revert n; induction l as [|x t IH]; intros n; cbn [map nthN]; [reflexivity|].
  destruct (n =? 0); [reflexivity|]. apply IH.
Qed.

Lemma nth1_map {A B} (f : A -> B) l k : nth1 (map f l) k = option_map f (nth1 l k).
Proof. unfold nth1. destruct (k =? 0); [reflexivity|]. apply nthN_map_eq. Qed.

Lemma nthN_app_l {A} (l1 l2 : list A) n : n < lenN l1 -> nthN (l1 ++ l2) n = nthN l1 n.
Proof.
  intros H. rewrite !nthN_nth_error. apply nth_error_app1. unfold lenN in H. lia.
Qed.

Lemma nthN_app_r {A} (l1 l2 : list A) n : lenN l1 <= n -> nthN (l1 ++ l2) n = nthN l2 (n - lenN l1).
Proof.
  intros H. rewrite !nthN_nth_error. unfold lenN in *. rewrite nth_error_app2 by lia. f_equal. lia.
Qed.

Lemma nthN_some_ltN {A} (l : list A) n x : nthN l n = Some x -> n < lenN l.
Proof.
  intros H. destruct (N.ltb_spec n (lenN l)); [assumption|]. rewrite nthN_ge in H by assumption. discriminate.
Qed.

Lemma nthN_split {A} (l : list A) n x : nthN l n = Some x ->
  exists l1 l2, l = l1 ++ x :: l2 /\ lenN l1 = n.
Proof.
  rewrite nthN_nth_error. intros H. apply nth_error_split in H as (l1 & l2 & -> & Hl).
  exists l1, l2. split; [reflexivity|]. unfold lenN. lia.
Qed.

Lemma sumN_map_lenN {A} (chs : list (list A)) : sumN (map lenN chs) = lenN (concat chs).
Proof.
  induction chs as [|c t IH]; [reflexivity|]. cbn [map concat]. rewrite sumN_cons_eq, lenN_app, IH. reflexivity.
Qed.

Lemma sync_ids_range k ss : Forall (fun x => k <= x < k + lenN ss) (sync_ids_from k ss).
Proof.
  revert k; induction ss as [|a t IH]; intros k; cbn [sync_ids_from]; [constructor|].
  rewrite lenN_cons. apply Forall_app. split.
  - destruct (ws_is_sync a); constructor; [lia|constructor].
  - eapply Forall_impl; [|apply IH]. cbn beta. intros x Hx. lia.
Qed.

Lemma strictly_increasing_app p l1 l2 q :
  strictly_increasing p l1 = true -> Forall (fun x => x <= q) l1 -> p <= q -> strictly_increasing q l2 = true ->
  strictly_increasing p (l1 ++ l2) = true.
Proof.
  revert p; induction l1 as [|x t IH]; intros p H1 Hf Hp H2; cbn [app].
  - destruct l2 as [|y u]; [reflexivity|]. cbn [strictly_increasing] in *.
    apply andb_true_iff in H2 as [Ha Hb]. apply N.ltb_lt in Ha. rewrite Hb.
    replace (p <? y) with true by (symmetry; apply N.ltb_lt; lia). reflexivity.
  - cbn [strictly_increasing] in *. apply andb_true_iff in H1 as [Ha Hb]. rewrite Ha. cbn [andb].
    inversion Hf; subst. apply IH; assumption.
Qed.

Lemma sync_ids_increasing p k ss : p < k -> strictly_increasing p (sync_ids_from k ss) = true.
Proof.
  revert p k; induction ss as [|a t IH]; intros p k H; cbn [sync_ids_from]; [reflexivity|].
  destruct (ws_is_sync a); cbn [app strictly_increasing].
  - replace (p <? k) with true by (symmetry; apply N.ltb_lt; lia). apply IH. lia.
  - apply IH. lia.
Qed.

Lemma existsb_eqb_false k l : Forall (fun x => x <> k) l -> existsb (N.eqb k) l = false.
Proof.
  induction 1 as [|x t H _ IH]; [reflexivity|]. cbn [existsb]. rewrite IH.
  destruct (N.eqb_spec k x); [congruence|reflexivity].
Qed.

Lemma sync_ids_spec ss : forall k0 k s, k0 <= k -> nthN ss (k - k0) = Some s ->
  existsb (N.eqb k) (sync_ids_from k0 ss) = ws_is_sync s.
Proof.
  induction ss as [|a t IH]; intros k0 k s Hk H; [discriminate|].
  cbn [nthN] in H. cbn [sync_ids_from]. rewrite existsb_app.
  destruct (N.eqb_spec (k - k0) 0) as [E|E].
  - injection H as <-. assert (k = k0) by lia. subst k0.
    rewrite (existsb_eqb_false k (sync_ids_from (k + 1) t)).
    + destruct (ws_is_sync a); cbn [existsb]; rewrite ?N.eqb_refl; reflexivity.
    + eapply Forall_impl; [|apply sync_ids_range]. cbn beta. intros x Hx. lia.
  - replace (k - k0 - 1) with (k - (k0 + 1)) in H by lia. rewrite (IH (k0 + 1) k s) by (lia || assumption).
    destruct (ws_is_sync a); cbn [existsb]; [|reflexivity].
    destruct (N.eqb_spec k k0); [lia|reflexivity].
Qed.

(** slices inside slices *)
Lemma sliceN_sub off n l a b c :
  sliceN off n l = a ++ b ++ c -> sliceN (off + lenN a) (lenN b) l = b.
Proof.
  unfold sliceN. intros H.
  assert (E : dropN off l = (a ++ b ++ c) ++ skipn (N.to_nat n) (dropN off l)).
  { rewrite <- H. symmetry. apply firstn_skipn. }
  rewrite N.add_comm, <- dropN_dropN, E, <- app_assoc, dropN_app, <- app_assoc.
  replace (N.to_nat (lenN b)) with (length b + 0)%nat by (unfold lenN; lia).
  rewrite firstn_app_2. cbn [firstn]. apply app_nil_r.
Qed.

Lemma firstn_lenN_app_l {A} (l1 l2 : list A) : firstn (N.to_nat (lenN l1)) (l1 ++ l2) = l1.
Proof.
  replace (N.to_nat (lenN l1)) with (length l1 + 0)%nat by (unfold lenN; lia).
  rewrite firstn_app_2. cbn [firstn]. apply app_nil_r.
Qed.

Lemma skipn_lenN_app {A} (l1 l2 : list A) : skipn (N.to_nat (lenN l1)) (l1 ++ l2) = l2.
Proof.
  replace (N.to_nat (lenN l1)) with (length l1) by (unfold lenN; lia). rewrite skipn_app.
  rewrite skipn_all, Nat.sub_diag. reflexivity.
Qed.

(** where the specification finds sample [k], the muxer put its bytes *)
Lemma locate_chunks lo base out offs chs :
  Forall2 (chunk_at lo base out) offs chs -> base <= lo ->
  forall pre c0 f0 k s, f0 = lenN pre + 1 -> f0 <= k -> nthN (concat chs) (k - f0) = Some s ->
  exists c first o,
    locate (map lenN chs) c0 f0 k = Some (c, first) /\ c0 <= c /\ nthN offs (c - c0) = Some o /\ base <= o /\
    o + sum_range (map sz (pre ++ concat chs)) first k + sz s <= base + lenN out /\
    sliceN (o + sum_range (map sz (pre ++ concat chs)) first k - base) (sz s) out = ws_bytes s.
Proof.
  intros HF Hlo. induction HF as [|o ch offs chs Hat HF IH]; intros pre c0 f0 k s Hf Hk Hn; [discriminate|].
  cbn [concat map locate] in *. destruct (N.ltb_spec k (f0 + lenN ch)) as [Hin|Hout].
  - exists c0, f0, o. split; [reflexivity|]. split; [lia|].
    replace (c0 - c0) with 0 by lia. split; [reflexivity|]. destruct Hat as (H1 & H2 & H3).
    split; [lia|]. rewrite nthN_app_l in Hn by lia.
    apply nthN_split in Hn as (l1 & l2 & -> & Hl1).
    assert (Es : sum_range (map sz (pre ++ (l1 ++ s :: l2) ++ concat chs)) f0 k = csize l1).
    { unfold sum_range. rewrite map_app. replace (f0 - 1) with (lenN (map sz pre)) by (rewrite lenN_map_eq; lia).
      rewrite skipn_lenN_app. rewrite <- app_assoc, map_app.
      replace (k - f0) with (lenN (map sz l1)) by (rewrite lenN_map_eq; lia). rewrite firstn_lenN_app_l. reflexivity. }
    rewrite Es. rewrite csize_app in H2, H3. rewrite chunk_bytes_app in H3.
    change (s :: l2) with ([s] ++ l2) in H2, H3. rewrite csize_app in H2, H3. rewrite chunk_bytes_app in H3.
    assert (Eb : chunk_bytes [s] = ws_bytes s) by (unfold chunk_bytes; cbn [flat_map]; apply app_nil_r).
    assert (Ec : csize [s] = sz s) by (unfold csize; cbn [map]; rewrite sumN_cons_eq, sumN_nil_eq; lia).
    rewrite Eb in H3. rewrite Ec in H2, H3. split; [lia|].
    apply sliceN_sub in H3. rewrite lenN_chunk_bytes in H3. unfold sz.
    replace (o + csize l1 - base) with (o - base + csize l1) by lia. exact H3.
  - rewrite nthN_app_r in Hn by lia.
    destruct (IH (pre ++ ch) (c0 + 1) (f0 + lenN ch) k s) as (c & first & o' & L1 & L2 & L3 & L4 & L5 & L6).
    + rewrite lenN_app. lia.
    + lia.
    + replace (k - (f0 + lenN ch)) with (k - f0 - lenN ch) by lia. exact Hn.
    + exists c, first, o'. split; [exact L1|]. split; [lia|]. split.
      * cbn [nthN]. destruct (N.eqb_spec (c - c0) 0); [lia|]. replace (c - c0 - 1) with (c - (c0 + 1)) by lia. exact L3.
      * rewrite <- app_assoc in L5, L6. auto.
Qed.

Definition exts_of (offs : list N) (chs : list (list wsample)) : list (N * N) :=
  map (fun p => (fst p, csize (snd p))) (combine offs chs).

Lemma chunk_extents_exts offs chs : lenN offs = lenN chs ->
  chunk_extents offs (map lenN chs) (map sz (concat chs)) = exts_of offs chs.
Proof.
  revert offs; induction chs as [|ch t IH]; intros offs H.
  - destruct offs; reflexivity.
  - destruct offs as [|o os]; [rewrite lenN_cons in H; change (lenN (@nil N)) with 0 in H; lia|].
    rewrite !lenN_cons in H. cbn [map concat chunk_extents]. unfold exts_of. cbn [combine map fst snd].
    unfold takeN. rewrite map_app. replace (lenN ch) with (lenN (map sz ch)) by apply lenN_map_eq.
    rewrite firstn_lenN_app_l, dropN_app. f_equal. apply IH. lia.
Qed.

Lemma chunks_fit_ok lo base out offs chs :
  Forall2 (chunk_at lo base out) offs chs -> base + lenN out < U64 ->
  chunks_fit offs (map lenN chs) (map sz (concat chs)) = true.
Proof.
  intros HF Hb. induction HF as [|o ch offs chs (H1 & H2 & H3) HF IH]; [reflexivity|].
  cbn [map concat chunks_fit]. rewrite map_app. replace (lenN ch) with (lenN (map sz ch)) by apply lenN_map_eq.
  rewrite firstn_lenN_app_l, skipn_lenN_app, IH. fold (csize ch).
  replace (o + csize ch <? U64) with true by (symmetry; apply N.ltb_lt; lia). reflexivity.
Qed.

Lemma repeatN_In {A} (x : A) n : 0 < n -> In x (repeatN x n).
Proof.
  intros H. replace n with (1 + (n - 1)) by lia. rewrite repeatN_add, repeatN_1. now left.
Qed.

Section Final.
  Variables (lo base : N) (out : bytes) (mts : N) (w : twriter) (chs : list (list wsample)).
  Hypothesis Hinv : twf_inv lo base out mts w chs [].
  Let ss := concat chs.
  Let tb := tables_of (tw_t w).

  Lemma fin_hist : hist chs [] = ss.
  Proof. unfold hist. apply app_nil_r. Qed.

  Lemma fin_count : t_stsz_count tb = lenN ss.
  Proof. rewrite <- fin_hist. exact (twf_cnt _ _ _ _ _ _ _ Hinv). Qed.

  Lemma fin_sizes : sizes_flat tb = map sz ss.
  Proof.
    pose proof (twf_sizes _ _ _ _ _ _ _ Hinv) as H. pose proof fin_count as Hc. rewrite fin_hist in H.
    unfold sizes_flat, tb, tables_of in *. cbn [t_stsz_size t_stsz_count t_stsz_sizes] in *.
    unfold sizes_inv in H. destruct (wc_is_fixed_sample_size (tw_c w)).
    - destruct H as (H1 & H2 & H3 & H4 & H5). rewrite H1, Hc.
      replace (0 <? wc_fixed_sample_size (tw_c w)) with true by (symmetry; apply N.ltb_lt; lia).
      rewrite lenN_map_eq in H4. symmetry. exact H4.
    - destruct H as [H1 H2]. rewrite H1. exact H2.
  Qed.

  Lemma fin_deltas : deltas_flat tb = map ws_duration ss.
  Proof. rewrite <- fin_hist. exact (twf_stts _ _ _ _ _ _ _ Hinv). Qed.

  Lemma fin_cts : cts_flat tb = map ws_rendering_offset ss.
  Proof.
    pose proof (twf_ctts _ _ _ _ _ _ _ Hinv) as H. pose proof fin_count as Hc. rewrite fin_hist in H.
    unfold cts_flat, tb, tables_of in *. cbn [t_ctts t_stsz_count] in *. unfold ctts_inv in H.
    destruct (wt_ctts (tw_t w)) as [es|].
    - exact (proj1 H).
    - rewrite Hc. rewrite lenN_map_eq in H. symmetry. exact H.
  Qed.

  Lemma fin_stss : t_stss tb = stss_of ss.
  Proof. rewrite <- fin_hist. exact (twf_stss _ _ _ _ _ _ _ Hinv). Qed.

  Lemma fin_offsets : chunk_offsets tb = wt_co64 (tw_t w).
  Proof. unfold chunk_offsets, tb, tables_of. cbn [t_stco t_co64]. destruct (forallb _ _); reflexivity. Qed.

  Lemma fin_offsets_of : offsets_of tb = wt_co64 (tw_t w).
  Proof. unfold offsets_of, tb, tables_of. cbn [t_stco t_co64]. destruct (forallb _ _); reflexivity. Qed.

  Lemma fin_sizes_of : sizes_of tb = map sz ss.
  Proof.
    rewrite <- fin_sizes. unfold sizes_of, sizes_flat.
    destruct (N.eqb_spec (t_stsz_size tb) 0) as [E|E].
    - rewrite E. reflexivity.
    - replace (0 <? t_stsz_size tb) with true by (symmetry; apply N.ltb_lt; lia). reflexivity.
  Qed.

  Lemma fin_nchunks : lenN (wt_co64 (tw_t w)) = lenN chs.
  Proof. exact (Forall2_lenN _ _ _ (twf_offs _ _ _ _ _ _ _ Hinv)). Qed.

  Lemma fin_counts : chunk_counts (t_stsc tb) (lenN (chunk_offsets tb)) = map lenN chs.
  Proof. rewrite fin_offsets. exact (twf_counts _ _ _ _ _ _ _ Hinv). Qed.

  Lemma fin_ss_ok : Forall sample_ok ss.
  Proof. rewrite <- fin_hist. exact (twf_ok _ _ _ _ _ _ _ Hinv). Qed.

  Lemma fin_n_bound : lenN ss + 1 < U32.
  Proof. rewrite <- fin_hist. exact (twf_idb _ _ _ _ _ _ _ Hinv). Qed.

  Lemma fin_nchunks_le : lenN chs <= lenN ss.
  Proof. apply lenN_concat_ge. exact (twf_ne _ _ _ _ _ _ _ Hinv). Qed.

  Lemma fin_consistent : base + lenN out < U64 -> consistent tb = true.
  Proof.
    intros Hout. pose proof fin_count as Hc. pose proof fin_n_bound as Hn. pose proof fin_nchunks as Hnc.
    pose proof fin_nchunks_le as Hle. pose proof fin_ss_ok as Hok.
    unfold consistent. rewrite fin_counts, fin_offsets, fin_sizes, Hc, fin_stss.
    repeat (apply andb_true_intro; split).
    - apply N.ltb_lt. unfold U32 in *. lia.
    - unfold tb, tables_of. cbn [t_stco t_co64]. destruct (forallb _ _); reflexivity.
    - apply N.ltb_lt. unfold U32 in *. lia.
    - apply forallb_forall. intros o Ho. unfold tb, tables_of. cbn [t_stco].
      destruct (forallb (fun o => o <=? U32MAX) (wt_co64 (tw_t w))) eqn:Ef.
      + rewrite forallb_forall in Ef. specialize (Ef o Ho). apply N.leb_le in Ef. apply N.ltb_lt.
        unfold U32MAX in Ef. unfold U32 in *. lia.
      + pose proof (twf_offs _ _ _ _ _ _ _ Hinv) as HF. apply N.ltb_lt. clear - HF Ho Hout.
        induction HF as [|a ch l1 l2 (H1 & H2 & H3) HF IH]; [destruct Ho|].
        destruct Ho as [<-|Ho]; [lia|auto].
    - unfold tb, tables_of. cbn [t_stsc]. pose proof (twf_runs _ _ _ _ _ _ _ Hinv) as Hr.
      pose proof (twf_nil _ _ _ _ _ _ _ Hinv) as Hnil. destruct (wt_stsc (tw_t w)) as [|e r].
      + specialize (Hnil eq_refl). rewrite Hnil in *. change (lenN (@nil N)) with 0 in *.
        assert (chs = []) by (apply lenN_zero_nil; lia). subst chs. reflexivity.
      + cbn [runs_ok] in Hr. rewrite !andb_true_iff in Hr. destruct Hr as [[[[[[H1 H2] H3] H4] H5] H6] H7].
        apply N.eqb_eq in H1. apply N.leb_le in H4. apply N.leb_le. lia.
    - exact (twf_runs _ _ _ _ _ _ _ Hinv).
    - apply N.eqb_eq. apply sumN_map_lenN.
    - pose proof (twf_sizes _ _ _ _ _ _ _ Hinv) as H. rewrite fin_hist in H. unfold sizes_inv in H.
      unfold tb, tables_of. cbn [t_stsz_size]. apply N.ltb_lt.
      destruct (wc_is_fixed_sample_size (tw_c w)).
      + destruct H as (H1 & H2 & H3 & H4 & H5). rewrite H1.
        assert (Hin : In (wc_fixed_sample_size (tw_c w)) (map sz ss)) by (rewrite H4; apply repeatN_In; exact H5).
        apply in_map_iff in Hin as (s & <- & Hs). rewrite Forall_forall in Hok. exact (proj1 (Hok s Hs)).
      + rewrite (proj1 H). unfold U32. lia.
    - pose proof fin_sizes as Hs. unfold sizes_flat in Hs. destruct (0 <? t_stsz_size tb); [reflexivity|].
      apply N.eqb_eq. rewrite Hs. apply lenN_map_eq.
    - pose proof (twf_sizes _ _ _ _ _ _ _ Hinv) as H. rewrite fin_hist in H. unfold sizes_inv in H.
      unfold tb, tables_of. cbn [t_stsz_sizes]. destruct (wc_is_fixed_sample_size (tw_c w)).
      + destruct H as (H1 & H2 & H3 & H4 & H5). rewrite H3. reflexivity.
      + rewrite (proj2 H). apply forallb_forall. intros x Hx. apply in_map_iff in Hx as (s & <- & Hs).
        rewrite Forall_forall in Hok. apply N.ltb_lt. exact (proj1 (Hok s Hs)).
    - apply N.eqb_eq. unfold count_of_runs. rewrite <- lenN_rl_flat. change (rl_flat (t_stts tb)) with (deltas_flat tb).
      rewrite fin_deltas. apply lenN_map_eq.
    - apply forallb_forall. intros e He. pose proof (rl_entry_le _ _ He) as Hle2.
      change (rl_flat (t_stts tb)) with (deltas_flat tb) in Hle2. rewrite fin_deltas, lenN_map_eq in Hle2.
      pose proof (twf_stts_v _ _ _ _ _ _ _ Hinv) as Hv. rewrite Forall_forall in Hv. specialize (Hv e He).
      apply andb_true_intro. split; apply N.ltb_lt; [|exact Hv]. lia.
    - pose proof (twf_ctts _ _ _ _ _ _ _ Hinv) as H. rewrite fin_hist in H. unfold ctts_inv in H.
      unfold tb, tables_of. cbn [t_ctts]. destruct (wt_ctts (tw_t w)) as [es|]; [|reflexivity].
      destruct H as [H1 H2]. apply andb_true_intro. split.
      + apply N.eqb_eq. unfold count_of_runs. rewrite <- lenN_rl_flat, H1. apply lenN_map_eq.
      + apply forallb_forall. intros e He. pose proof (rl_entry_le _ _ He) as Hle2. rewrite H1, lenN_map_eq in Hle2.
        rewrite Forall_forall in H2. rewrite (H2 e He). apply andb_true_intro. split; [|reflexivity].
        apply N.ltb_lt. lia.
    - unfold stss_of. destruct ss as [|a r] eqn:Ess; [reflexivity|]. rewrite <- Ess in *.
      apply andb_true_intro. split.
      + apply sync_ids_increasing. lia.
      + apply forallb_forall. intros x Hx. pose proof (sync_ids_range 1 ss) as Hr. rewrite Forall_forall in Hr.
        specialize (Hr x Hx). apply N.leb_le. lia.
    - eapply chunks_fit_ok; [exact (twf_offs _ _ _ _ _ _ _ Hinv)|exact Hout].
  Qed.
End Final.

Lemma iso_chunk_counts_eq runs nc : iso_chunk_counts runs nc = chunk_counts runs nc.
Proof. induction runs as [|e t IH]; [reflexivity|]. cbn [iso_chunk_counts chunk_counts]. rewrite IH. reflexivity. Qed.

Lemma increasing_eq p l : increasing p l = strictly_increasing p l.
Proof. revert p; induction l as [|x t IH]; intros p; [reflexivity|]. cbn [increasing strictly_increasing]. rewrite IH. reflexivity. Qed.

Lemma runs_ok_iso runs exp nc : runs_ok runs exp nc = true -> stsc_runs_ok runs exp nc = true.
Proof.
  revert exp; induction runs as [|e t IH]; intros exp H; [reflexivity|].
  cbn [runs_ok stsc_runs_ok] in *. rewrite !andb_true_iff in *.
  destruct H as [[[[[[H1 H2] H3] H4] H5] H6] H7]. repeat split; auto.
Qed.

Section Final2.
  Variables (lo base : N) (out : bytes) (mts : N) (w : twriter) (chs : list (list wsample)).
  Hypothesis Hinv : twf_inv lo base out mts w chs [].
  Let ss := concat chs.
  Let tb := tables_of (tw_t w).

  Lemma fin_sample_spec k s : nth1 ss k = Some s ->
    spec_size tb k = Some (sz s) /\ spec_delta tb k = Some (ws_duration s) /\
    spec_start tb k = sumN (map ws_duration (firstn (N.to_nat (k - 1)) ss)) /\
    spec_cts tb k = Some (ws_rendering_offset s) /\ spec_sync tb k = ws_is_sync s /\
    exists off, spec_offset tb k = Some off /\ lo <= off /\ off + sz s <= base + lenN out /\
                sliceN (off - base) (sz s) out = ws_bytes s.
  Proof.
    intros Hk. pose proof (twf_lo _ _ _ _ _ _ _ Hinv) as Hlo.
    unfold spec_size, spec_delta, spec_start, spec_cts, tb.
    rewrite (fin_sizes _ _ _ _ _ _ Hinv), (fin_deltas _ _ _ _ _ _ Hinv), (fin_cts _ _ _ _ _ _ Hinv).
    fold ss. rewrite !nth1_map, Hk, firstn_map. cbn [option_map].
    split; [reflexivity|]. split; [reflexivity|]. split; [reflexivity|]. split; [reflexivity|].
    unfold nth1 in Hk. destruct (N.eqb_spec k 0) as [|Hk0]; [discriminate|]. split.
    - unfold spec_sync, tb. rewrite (fin_stss _ _ _ _ _ _ Hinv). fold ss. unfold stss_of.
      destruct ss as [|a r] eqn:Ess; [discriminate|]. rewrite <- Ess in *.
      apply sync_ids_spec; [lia|exact Hk].
    - unfold spec_offset, tb. rewrite (fin_counts _ _ _ _ _ _ Hinv), fin_offsets, (fin_sizes _ _ _ _ _ _ Hinv).
      destruct (locate_chunks _ _ _ _ _ (twf_offs _ _ _ _ _ _ _ Hinv) Hlo [] 1 1 k s) as (c & first & o & L1 & L2 & L3 & L4 & L5 & L6);
        [reflexivity | lia | exact Hk |].
      cbn [app] in L5, L6. rewrite L1. unfold nth1. destruct (N.eqb_spec c 0); [lia|]. rewrite L3.
      eexists. split; [reflexivity|]. fold ss.
      assert (Ho : lo <= o).
      { pose proof (twf_offs _ _ _ _ _ _ _ Hinv) as HF. apply nthN_some_ltN in L3 as Hlt.
        rewrite nthN_nth_error in L3. clear - HF L3. revert L3. generalize (N.to_nat (c - 1)). intros n.
        revert n; induction HF as [|a ch l1 l2 (H1 & H2 & H3) HF IH]; intros [|n] E; try discriminate.
        - injection E as <-. exact H1.
        - exact (IH n E). }
      split; [lia|]. split; [exact L5|exact L6].
  Qed.

  Lemma fin_tables_ok :
    track_tables_ok tb (lenN ss) (sumN (map ws_duration ss)) = true.
  Proof.
    pose proof (fin_count _ _ _ _ _ _ Hinv) as Hc. fold ss in Hc.
    unfold track_tables_ok, tb. rewrite iso_chunk_counts_eq, fin_offsets_of, (fin_sizes_of _ _ _ _ _ _ Hinv).
    fold ss. rewrite Hc. change (t_stsc (tables_of (tw_t w))) with (wt_stsc (tw_t w)).
    rewrite (twf_counts _ _ _ _ _ _ _ Hinv).
    repeat (apply andb_true_intro; split).
    - unfold tb, tables_of. cbn [t_stco t_co64]. destruct (forallb _ _); reflexivity.
    - apply N.eqb_refl.
    - apply N.eqb_eq. apply lenN_map_eq.
    - apply N.eqb_eq. unfold run_total. rewrite <- lenN_rl_flat. change (rl_flat (t_stts (tables_of (tw_t w)))) with (deltas_flat (tables_of (tw_t w))).
      rewrite (fin_deltas _ _ _ _ _ _ Hinv). apply lenN_map_eq.
    - apply N.eqb_eq. rewrite rl_dur_total. change (rl_flat (t_stts (tables_of (tw_t w)))) with (deltas_flat (tables_of (tw_t w))).
      rewrite (fin_deltas _ _ _ _ _ _ Hinv). reflexivity.
    - pose proof (twf_ctts _ _ _ _ _ _ _ Hinv) as H. rewrite (fin_hist chs) in H. unfold ctts_inv in H.
      unfold tb, tables_of. cbn [t_ctts]. destruct (wt_ctts (tw_t w)) as [es|]; [|reflexivity].
      apply N.eqb_eq. unfold run_total. rewrite <- lenN_rl_flat, (proj1 H). apply lenN_map_eq.
    - apply runs_ok_iso. exact (twf_runs _ _ _ _ _ _ _ Hinv).
    - pose proof (twf_nil _ _ _ _ _ _ _ Hinv) as Hnil. destruct (wt_stsc (tw_t w)); [|reflexivity].
      rewrite (Hnil eq_refl). reflexivity.
    - apply N.eqb_eq. apply sumN_map_lenN.
    - apply N.eqb_eq. rewrite lenN_map_eq. symmetry. exact (fin_nchunks _ _ _ _ _ _ Hinv).
    - rewrite (fin_stss _ _ _ _ _ _ Hinv). fold ss. unfold stss_of.
      destruct ss as [|a r] eqn:Ess; [reflexivity|]. rewrite <- Ess in *.
      apply andb_true_intro. split.
      + rewrite increasing_eq. apply sync_ids_increasing. lia.
      + apply forallb_forall. intros x Hx. pose proof (sync_ids_range 1 ss) as Hr. rewrite Forall_forall in Hr.
        specialize (Hr x Hx). apply N.leb_le. lia.
  Qed.

  Lemma fin_extents :
    chunk_extents (offsets_of tb) (iso_chunk_counts (t_stsc tb) (lenN (offsets_of tb))) (sizes_of tb)
    = exts_of (wt_co64 (tw_t w)) chs.
  Proof.
    unfold tb. rewrite iso_chunk_counts_eq, fin_offsets_of, (fin_sizes_of _ _ _ _ _ _ Hinv).
    change (t_stsc (tables_of (tw_t w))) with (wt_stsc (tw_t w)). rewrite (twf_counts _ _ _ _ _ _ _ Hinv).
    apply chunk_extents_exts. exact (fin_nchunks _ _ _ _ _ _ Hinv).
  Qed.
End Final2.

(** ** all tracks of a writer *)
Definition ghost : Type := list (list wsample) * list wsample.
Definition tg_ext (tg : twriter * ghost) : list (N * N) := exts_of (wt_co64 (tw_t (fst tg))) (fst (snd tg)).
Definition tg_hist (tg : twriter * ghost) : list wsample := hist (fst (snd tg)) (snd (snd tg)).
Definition tg_inv (lo base : N) (out : bytes) (mts : N) (tg : twriter * ghost) : Prop :=
  twf_inv lo base out mts (fst tg) (fst (snd tg)) (snd (snd tg)).

Definition disj (a b : N * N) : Prop :=
  fst a + snd a <= fst b \/ fst b + snd b <= fst a \/ snd a = 0 \/ snd b = 0.

Lemma FOP_insert {A} (R : A -> A -> Prop) l1 l2 e :
  ForallOrdPairs R (l1 ++ l2) -> Forall (fun y => R y e) l1 -> Forall (R e) l2 ->
  ForallOrdPairs R (l1 ++ e :: l2).
Proof.
  induction l1 as [|a t IH]; intros H H1 H2; cbn [app] in *.
  - constructor; assumption.
  - inversion H as [|? ? Ha Ht]; subst. inversion H1 as [|? ? Hae Hte]; subst. constructor.
    + apply Forall_app in Ha as [Ha1 Ha2]. apply Forall_app. split; [exact Ha1|]. constructor; assumption.
    + apply IH; assumption.
Qed.

Lemma pairwise_disjoint_ok l : ForallOrdPairs disj l -> pairwise_disjoint l = true.
Proof.
  induction 1 as [|e t He _ IH]; [reflexivity|]. cbn [pairwise_disjoint]. rewrite IH, andb_true_r.
  clear IH. induction He as [|[s n] u Hd _ IHu]; [reflexivity|]. cbn [disjoint_from]. rewrite IHu, andb_true_r.
  unfold disj in Hd. cbn [fst snd] in Hd. rewrite !orb_true_iff, !N.leb_le, !N.eqb_eq. tauto.
Qed.

Lemma exts_of_snoc offs chs o ch : lenN offs = lenN chs ->
  exts_of (offs ++ [o]) (chs ++ [ch]) = exts_of offs chs ++ [(o, csize ch)].
Proof.
  revert chs; induction offs as [|a t IH]; intros chs H.
  - destruct chs; [reflexivity|]. rewrite lenN_cons in H. change (lenN (@nil N)) with 0 in H. lia.
  - destruct chs as [|c u]; [rewrite lenN_cons in H; change (lenN (@nil (list wsample))) with 0 in H; lia|].
    rewrite !lenN_cons in H. unfold exts_of in *. cbn [app combine map]. rewrite IH by lia. reflexivity.
Qed.

Lemma exts_within lo base out offs chs :
  Forall2 (chunk_at lo base out) offs chs ->
  Forall (fun e => lo <= fst e /\ fst e + snd e <= base + lenN out) (exts_of offs chs).
Proof.
  induction 1 as [|o ch l1 l2 (H1 & H2 & H3) _ IH]; [constructor|].
  unfold exts_of. cbn [combine map fst snd]. constructor; [split; assumption|exact IH].
Qed.

Lemma sum_exts offs chs : lenN offs = lenN chs -> sumN (map snd (exts_of offs chs)) = csize (concat chs).
Proof.
  revert offs; induction chs as [|ch t IH]; intros offs H.
  - destruct offs; reflexivity.
  - destruct offs as [|o os]; [rewrite lenN_cons in H; change (lenN (@nil N)) with 0 in H; lia|].
    rewrite !lenN_cons in H. unfold exts_of. cbn [combine map fst snd concat]. rewrite sumN_cons_eq, csize_app.
    f_equal. apply IH. lia.
Qed.

Record tracks_inv (lo base : N) (out : bytes) (mts : N) (tgs : list (twriter * ghost)) : Prop := mkTracksInv {
  tk_each : Forall (tg_inv lo base out mts) tgs;
  tk_disj : ForallOrdPairs disj (concat (map tg_ext tgs));
  tk_len : base + lenN out = lo + sumN (map snd (concat (map tg_ext tgs))) }.

Lemma tg_ext_within lo base out mts tg : tg_inv lo base out mts tg ->
  Forall (fun e => lo <= fst e /\ fst e + snd e <= base + lenN out) (tg_ext tg).
Proof. intros H. apply exts_within. exact (twf_offs _ _ _ _ _ _ _ H). Qed.

Lemma all_ext_within lo base out mts tgs : Forall (tg_inv lo base out mts) tgs ->
  Forall (fun e => lo <= fst e /\ fst e + snd e <= base + lenN out) (concat (map tg_ext tgs)).
Proof.
  induction 1 as [|tg t H _ IH]; [constructor|]. cbn [map concat]. apply Forall_app. split; [|exact IH].
  eapply tg_ext_within. exact H.
Qed.

Lemma tracks_inv_same lo base out mts l1 x l2 x' :
  tracks_inv lo base out mts (l1 ++ x :: l2) -> tg_inv lo base out mts x' -> tg_ext x' = tg_ext x ->
  tracks_inv lo base out mts (l1 ++ x' :: l2).
Proof.
  intros [H1 H2 H3] Hx He. constructor.
  - apply Forall_app in H1 as [Ha Hb]. inversion Hb; subst. apply Forall_app. split; [exact Ha|]. constructor; assumption.
  - rewrite map_app in *. cbn [map] in *. rewrite He. exact H2.
  - rewrite map_app in *. cbn [map] in *. rewrite He. exact H3.
Qed.

Lemma tracks_inv_write lo base out mts l1 x l2 x' b :
  tracks_inv lo base out mts (l1 ++ x :: l2) -> tg_inv lo base (out ++ b) mts x' ->
  tg_ext x' = tg_ext x ++ [(base + lenN out, lenN b)] ->
  tracks_inv lo base (out ++ b) mts (l1 ++ x' :: l2).
Proof.
  intros [H1 H2 H3] Hx He. pose proof (all_ext_within _ _ _ _ _ H1) as Hw. constructor.
  - apply Forall_app in H1 as [Ha Hb]. inversion Hb; subst. apply Forall_app. split.
    + eapply Forall_impl; [|exact Ha]. intros a. apply twf_inv_grow.
    + constructor; [exact Hx|]. eapply Forall_impl; [|eassumption]. intros a. apply twf_inv_grow.
  - rewrite map_app in *. cbn [map] in *. rewrite He. rewrite concat_app in *. cbn [concat] in *.
    rewrite <- app_assoc. cbn [app]. rewrite app_assoc. apply FOP_insert.
    + rewrite <- app_assoc. exact H2.
    + apply Forall_app in Hw as [Hw1 Hw2]. apply Forall_app in Hw2 as [Hw2 Hw3]. apply Forall_app. split.
      * eapply Forall_impl; [|exact Hw1]. intros e [_ Hle]. left. cbn [fst]. exact Hle.
      * eapply Forall_impl; [|exact Hw2]. intros e [_ Hle]. left. cbn [fst]. exact Hle.
    + apply Forall_app in Hw as [Hw1 Hw2]. apply Forall_app in Hw2 as [Hw2 Hw3].
      eapply Forall_impl; [|exact Hw3]. intros e [_ Hle]. right. left. cbn [fst]. exact Hle.
  - rewrite map_app in *. cbn [map] in *. rewrite He. rewrite concat_app in *. cbn [concat] in *.
    rewrite !map_app, !sumN_app in *. cbn [map snd]. rewrite sumN_cons_eq, sumN_nil_eq, lenN_app. lia.
Qed.

(** ** the whole writer *)
Fixpoint maxl (l : list N) : N := match l with [] => 0 | x :: t => N.max x (maxl t) end.

Lemma maxl_app a b : maxl (a ++ b) = N.max (maxl a) (maxl b).
Proof. induction a as [|x t IH]; cbn [app maxl]; [lia|]. rewrite IH. lia. Qed.

Lemma fold_left_max l a : fold_left N.max l a = N.max a (maxl l).
Proof. revert a; induction l as [|x t IH]; intros a; cbn [fold_left maxl]; [lia|]. rewrite IH. lia. Qed.

Definition tg_tkhd (tg : twriter * ghost) : N := wh_tkhd_duration (tw_h (fst tg)).

Record mwf_inv (w : mwriter) (tgs : list (twriter * ghost)) : Prop := mkMwfInv {
  mwf_pos : mw_pos w = mw_base w + lenN (mw_out w);
  mwf_mdat : mw_base w <= mw_mdat_pos w;
  mwf_lo : mw_mdat_pos w + 16 <= mw_pos w;
  mwf_tracks : map fst tgs = mw_tracks w;
  mwf_tinv : tracks_inv (mw_mdat_pos w + 16) (mw_base w) (mw_out w) (mw_timescale w) tgs;
  mwf_dur : mw_duration w = maxl (map tg_tkhd tgs) }.

Lemma mwf_write_start_inv base c : mwf_inv (mw_write_start base c) [].
Proof.
  unfold mw_write_start. constructor; cbn [mw_pos mw_base mw_out mw_mdat_pos mw_tracks mw_timescale mw_duration map maxl].
  - reflexivity.
  - lia.
  - rewrite lenN_app. change (lenN mdat_wide_headers) with 16. lia.
  - reflexivity.
  - constructor; cbn [map concat]; [constructor|constructor|].
    rewrite lenN_app. change (lenN mdat_wide_headers) with 16. rewrite sumN_nil_eq. lia.
  - reflexivity.
Qed.

Lemma tracks_inv_add lo base out mts tgs t : tracks_inv lo base out mts tgs ->
  twf_inv lo base out mts t [] [] -> wt_co64 (tw_t t) = [] -> tracks_inv lo base out mts (tgs ++ [(t, ([], []))]).
Proof.
  intros [H1 H2 H3] Ht Hc.
  assert (E : concat (map tg_ext (tgs ++ [(t, ([], []))])) = concat (map tg_ext tgs)).
  { rewrite map_app, concat_app. cbn [map concat]. unfold tg_ext at 2. cbn [fst snd]. rewrite Hc.
    unfold exts_of. cbn [combine map]. rewrite !app_nil_r. reflexivity. }
  constructor; rewrite ?E; try assumption.
  apply Forall_app. split; [exact H1|]. constructor; [exact Ht|constructor].
Qed.

Lemma mw_add_track_inv m w c w' tgs : mwf_inv w tgs -> mw_add_track m w c = Ok w' ->
  exists t, mwf_inv w' (tgs ++ [(t, ([], []))]).
Proof.
  intros [H1 H2 H3 H4 H5 H6] H. unfold mw_add_track in H.
  destruct (add_w m U32 _ _ 1) as [id| | |]; try discriminate. cbn [res_bind] in H.
  destruct (tw_new id c) as [t| | |] eqn:Et; try discriminate. cbn [res_bind] in H. injection H as <-.
  exists t. destruct (twf_new_inv (mw_mdat_pos w + 16) (mw_base w) (mw_out w) (mw_timescale w) _ _ _ Et) as [Hi Hc]; [lia|].
  constructor; cbn [mw_pos mw_base mw_out mw_mdat_pos mw_tracks mw_timescale mw_duration]; try assumption.
  - rewrite map_app, H4. reflexivity.
  - apply tracks_inv_add; assumption.
  - rewrite map_app, maxl_app, <- H6. cbn [map maxl]. unfold tg_tkhd. cbn [fst].
    unfold tw_new in Et. destruct (conf_check c); try discriminate. cbn [res_bind] in Et. injection Et as <-.
    cbn [tw_h wh_tkhd_duration]. lia.
Qed.

Lemma nthN_replace {A} (l : list A) i x : nthN l i = Some x ->
  exists l1 l2, l = l1 ++ x :: l2 /\ lenN l1 = i /\ forall y, replace_nth l (N.to_nat i) y = l1 ++ y :: l2.
Proof.
  intros H. apply nthN_split in H as (l1 & l2 & -> & Hl). exists l1, l2. split; [reflexivity|]. split; [exact Hl|].
  intros y. subst i. replace (N.to_nat (lenN l1)) with (length l1) by (unfold lenN; lia).
  clear. induction l1 as [|a t IH]; cbn [length app replace_nth]; [reflexivity|]. rewrite IH. reflexivity.
Qed.

Lemma map_fst_split {A B} (l : list (A * B)) l1 x l2 : map fst l = l1 ++ x :: l2 ->
  exists g1 g g2, l = g1 ++ (x, g) :: g2 /\ map fst g1 = l1 /\ map fst g2 = l2.
Proof.
  revert l; induction l1 as [|a t IH]; intros l H.
  - destruct l as [|[y g] r]; [discriminate|]. cbn [map fst app] in H. injection H as -> <-.
    exists [], g, r. repeat split.
  - destruct l as [|[y g] r]; [discriminate|]. cbn [map fst app] in H. injection H as -> Hr.
    destruct (IH r Hr) as (g1 & g' & g2 & -> & E1 & E2). exists ((a, g) :: g1), g', g2. cbn [map fst app]. rewrite E1, E2.
    repeat split.
Qed.

Lemma Ndiv_zero a : a / 0 = 0.
Proof. destruct a; reflexivity. Qed.

Lemma tkhd_sat_mono md d mts ts : tkhd_sat md mts ts <= tkhd_sat (md + d) mts ts.
Proof.
  unfold tkhd_sat. destruct (N.eqb_spec ts 0) as [->|Hts].
  - rewrite !Ndiv_zero. destruct (0 <? U64); lia.
  - assert (H : md * mts / ts <= (md + d) * mts / ts) by (apply N.div_le_mono; [exact Hts|nia]).
    unfold U64MAX. destruct (N.ltb_spec (md * mts / ts) U64), (N.ltb_spec ((md + d) * mts / ts) U64); lia.
Qed.

Lemma tg_tkhd_mono lo base out out' mts t g t' g' s :
  tg_inv lo base out mts (t, g) -> tg_inv lo base out' mts (t', g') -> tw_conf t' = tw_conf t ->
  tg_hist (t', g') = tg_hist (t, g) ++ [s] -> tg_tkhd (t, g) <= tg_tkhd (t', g').
Proof.
  intros H H' Hc Hh. unfold tg_tkhd, tg_inv, tg_hist in *. cbn [fst snd] in *.
  rewrite (twf_td _ _ _ _ _ _ _ H), (twf_td _ _ _ _ _ _ _ H'), (twf_md _ _ _ _ _ _ _ H), (twf_md _ _ _ _ _ _ _ H'), Hh, Hc.
  rewrite map_app, sumN_app. apply tkhd_sat_mono.
Qed.

Lemma mw_write_sample_inv m w id s w' tgs :
  mwf_inv w tgs -> sample_typed s -> mw_write_sample m w id s = Ok w' ->
  exists g1 x g2 x', tgs = g1 ++ x :: g2 /\ lenN g1 + 1 = id /\ mwf_inv w' (g1 ++ x' :: g2) /\
                     tg_hist x' = tg_hist x ++ [s].
Proof.
  intros [H1 H2 H3 H4 H5 H6] Hs H. unfold mw_write_sample in H.
  destruct (N.eqb_spec id 0) as [|Hid]; [discriminate|].
  destruct (nthN (mw_tracks w) (id - 1)) as [t|] eqn:En; [|discriminate].
  destruct (tw_write_sample m t (mw_pos w) s (mw_timescale w)) as [[[t' wrote] td]| | |] eqn:Ew; try discriminate.
  cbn [res_bind] in H. injection H as <-.
  apply nthN_replace in En as (l1 & l2 & Htr & Hl & Hrep). rewrite Hrep. clear Hrep.
  rewrite <- H4 in Htr. apply map_fst_split in Htr as (g1 & g & g2 & -> & E1 & E2).
  assert (Hx : tg_inv (mw_mdat_pos w + 16) (mw_base w) (mw_out w) (mw_timescale w) (t, g)).
  { pose proof (tk_each _ _ _ _ _ H5) as Hf. apply Forall_app in Hf as [_ Hf]. inversion Hf; assumption. }
  destruct g as [chs pend].
  destruct (tw_write_sample_inv _ _ _ _ _ _ _ _ _ _ _ _ _ Hx Hs H1 H3 Ew) as (Htd & Hconf & [(-> & Hco & Hi)|(-> & Hco & Hi)]).
  - exists g1, (t, (chs, pend)), g2, (t', (chs, pend ++ [s])). split; [reflexivity|].
    split; [rewrite <- E1 in Hl; rewrite lenN_map_eq in Hl; lia|]. split.
    + assert (Hm : tg_tkhd (t, (chs, pend)) <= tg_tkhd (t', (chs, pend ++ [s]))).
      { eapply tg_tkhd_mono; [exact Hx|exact Hi|exact Hconf|]. unfold tg_hist. cbn [fst snd]. apply hist_pend_snoc. }
      constructor; cbn [emit mw_pos mw_base mw_out mw_mdat_pos mw_tracks mw_timescale mw_duration]; try assumption.
      * rewrite map_app. cbn [map fst]. rewrite E1, E2. reflexivity.
      * eapply tracks_inv_same; [exact H5|exact Hi|]. unfold tg_ext. cbn [fst snd]. rewrite Hco. reflexivity.
      * rewrite H6, !map_app, !maxl_app. cbn [map maxl]. unfold tg_tkhd in Hm |- *. cbn [fst] in Hm |- *.
        rewrite Htd. match goal with |- (if ?a <? ?b then _ else _) = _ => destruct (N.ltb_spec a b) end; lia.
    + unfold tg_hist. cbn [fst snd]. apply hist_pend_snoc.
  - exists g1, (t, (chs, pend)), g2, (t', (chs ++ [pend ++ [s]], [])). split; [reflexivity|].
    split; [rewrite <- E1 in Hl; rewrite lenN_map_eq in Hl; lia|]. split.
    + assert (Hm : tg_tkhd (t, (chs, pend)) <= tg_tkhd (t', (chs ++ [pend ++ [s]], []))).
      { eapply tg_tkhd_mono; [exact Hx|exact Hi|exact Hconf|]. unfold tg_hist. cbn [fst snd].
        rewrite hist_flush. apply hist_pend_snoc. }
      constructor; cbn [emit mw_pos mw_base mw_out mw_mdat_pos mw_tracks mw_timescale mw_duration]; try assumption.
      * rewrite lenN_app. lia.
      * lia.
      * rewrite map_app. cbn [map fst]. rewrite E1, E2. reflexivity.
      * eapply tracks_inv_write; [exact H5|exact Hi|]. unfold tg_ext. cbn [fst snd]. rewrite Hco.
        rewrite exts_of_snoc by (exact (Forall2_lenN _ _ _ (twf_offs _ _ _ _ _ _ _ Hx))).
        rewrite lenN_chunk_bytes, H1. reflexivity.
      * rewrite H6, !map_app, !maxl_app. cbn [map maxl]. unfold tg_tkhd in Hm |- *. cbn [fst] in Hm |- *.
        rewrite Htd. match goal with |- (if ?a <? ?b then _ else _) = _ => destruct (N.ltb_spec a b) end; lia.
    + unfold tg_hist. cbn [fst snd]. rewrite hist_flush. apply hist_pend_snoc.
Qed.

(** ** histories *)
Definition op_typedP (op : mux_op) : Prop :=
  match op with OpWrite _ s => sample_typed s | OpAddTrack _ => True end.

(** the samples of the calls [write_sample(id, _)] that returned [Ok], in call order *)
Definition accepted_samples (ops : list mux_op) (cls : list rclass) (id : N) : list wsample :=
  flat_map (fun oc => match oc with
                      | (OpWrite i s, COk) => if i =? id then [s] else []
                      | _ => []
                      end) (combine ops cls).

(** total payload of the accepted [write_sample] calls *)
Definition accepted_bytes (ops : list mux_op) (cls : list rclass) : N :=
  sumN (map (fun oc => match oc with
                       | (OpWrite _ s, COk) => lenN (ws_bytes s)
                       | _ => 0
                       end) (combine ops cls)).

Definition hist_bytes (tgs : list (twriter * ghost)) : N := sumN (map (fun tg => csize (tg_hist tg)) tgs).

Lemma apply_op_frame m w op w' : apply_op m w op = Ok w' ->
  mw_base w' = mw_base w /\ mw_mdat_pos w' = mw_mdat_pos w /\ mw_timescale w' = mw_timescale w.
Proof.
  destruct op as [c|id s]; cbn [apply_op]; intros H.
  - unfold mw_add_track in H. destruct (add_w m U32 _ _ 1); try discriminate. cbn [res_bind] in H.
    destruct (tw_new _ c); try discriminate. cbn [res_bind] in H. injection H as <-. repeat split.
  - unfold mw_write_sample in H. destruct (id =? 0); [discriminate|].
    destruct (nthN (mw_tracks w) (id - 1)); [|discriminate].
    destruct (tw_write_sample m _ _ s _) as [[[t' [[o b]|]] td]| | |]; try discriminate;
      cbn [res_bind] in H; injection H as <-; repeat split.
Qed.

Lemma nth_snoc_nil {A} i (l : list (list A)) : nth i (l ++ [[]]) [] = nth i l [].
Proof.
  destruct (Nat.lt_ge_cases i (length l)) as [H|H].
  - apply app_nth1. exact H.
  - rewrite app_nth2 by exact H. rewrite (nth_overflow l) by exact H.
    destruct (i - length l)%nat as [|[|k]]; reflexivity.
Qed.

Lemma nth_middle_hist {A} (f : A -> list wsample) g1 x x' g2 s i :
  f x' = f x ++ [s] ->
  nth i (map f (g1 ++ x' :: g2)) [] =
  nth i (map f (g1 ++ x :: g2)) [] ++ (if lenN g1 + 1 =? N.of_nat i + 1 then [s] else []).
Proof.
  intros Hf. rewrite !map_app. cbn [map]. destruct (Nat.lt_ge_cases i (length g1)) as [H|H].
  - rewrite !app_nth1 by (rewrite map_length; exact H).
    destruct (N.eqb_spec (lenN g1 + 1) (N.of_nat i + 1)) as [E|_]; [unfold lenN in E; lia|]. now rewrite app_nil_r.
  - rewrite !app_nth2 by (rewrite map_length; exact H). rewrite map_length.
    destruct (i - length g1)%nat as [|k] eqn:Ek.
    + cbn [nth]. destruct (N.eqb_spec (lenN g1 + 1) (N.of_nat i + 1)) as [_|E]; [exact Hf|unfold lenN in E; lia].
    + cbn [nth]. destruct (N.eqb_spec (lenN g1 + 1) (N.of_nat i + 1)) as [E|_]; [unfold lenN in E; lia|]. now rewrite app_nil_r.
Qed.

Lemma run_ops_inv m : forall ops w acc w1 cls tgs,
  run_ops m w ops acc = Ok (w1, cls) -> mwf_inv w tgs -> Forall op_typedP ops ->
  exists cls' tgs1, cls = acc ++ cls' /\ length cls' = length ops /\ mwf_inv w1 tgs1 /\
    mw_base w1 = mw_base w /\ mw_mdat_pos w1 = mw_mdat_pos w /\ mw_timescale w1 = mw_timescale w /\
    hist_bytes tgs1 = hist_bytes tgs + accepted_bytes ops cls' /\
    forall i, nth i (map tg_hist tgs1) [] = nth i (map tg_hist tgs) [] ++ accepted_samples ops cls' (N.of_nat i + 1).
Proof.
  induction ops as [|op rest IH]; intros w acc w1 cls tgs H Hinv Hty.
  - cbn [run_ops] in H. injection H as <- <-. exists [], tgs. rewrite app_nil_r. split; [reflexivity|]. split; [reflexivity|]. split; [exact Hinv|].
    split; [reflexivity|]. split; [reflexivity|]. split; [reflexivity|].
    split; [unfold accepted_bytes; cbn [combine map]; rewrite sumN_nil_eq; lia|].
    intros i. unfold accepted_samples. cbn [combine flat_map]. now rewrite app_nil_r.
  - inversion Hty as [|? ? Hop Hrest]; subst.
    destruct (apply_op m w op) as [w'|e|x|] eqn:E.
    + rewrite (run_ops_accepted _ _ _ _ _ _ E) in H.
      destruct (apply_op_frame _ _ _ _ E) as (F1 & F2 & F3).
      destruct op as [c|id s]; cbn [apply_op] in E.
      * destruct (mw_add_track_inv _ _ _ _ _ Hinv E) as [t Hinv'].
        destruct (IH _ _ _ _ _ H Hinv' Hrest) as (cls' & tgs1 & -> & Hlen & Hi1 & G1 & G2 & G3 & Hb & Hh).
        exists (COk :: cls'), tgs1. rewrite <- app_assoc. split; [reflexivity|]. split; [cbn [length]; lia|].
        split; [exact Hi1|]. split; [congruence|]. split; [congruence|]. split; [congruence|].
        split.
        { rewrite Hb. unfold hist_bytes, accepted_bytes. rewrite map_app, sumN_app. cbn [combine map].
          rewrite !sumN_cons_eq, sumN_nil_eq. unfold tg_hist at 2. cbn [fst snd]. unfold hist, csize. cbn [concat app map].
          rewrite sumN_nil_eq. lia. }
        intros i. rewrite Hh, map_app. cbn [map]. unfold tg_hist at 2. cbn [fst snd]. unfold hist. cbn [concat app].
        rewrite nth_snoc_nil. reflexivity.
      * destruct (mw_write_sample_inv _ _ _ _ _ _ Hinv Hop E) as (g1 & x & g2 & x' & -> & Hid & Hinv' & Hx).
        destruct (IH _ _ _ _ _ H Hinv' Hrest) as (cls' & tgs1 & -> & Hlen & Hi1 & G1 & G2 & G3 & Hb & Hh).
        exists (COk :: cls'), tgs1. rewrite <- app_assoc. split; [reflexivity|]. split; [cbn [length]; lia|].
        split; [exact Hi1|]. split; [congruence|]. split; [congruence|]. split; [congruence|].
        split.
        { rewrite Hb. unfold hist_bytes, accepted_bytes. rewrite !map_app, !sumN_app. cbn [combine map].
          rewrite !sumN_cons_eq, Hx, csize_app. unfold csize at 3. cbn [map]. rewrite sumN_cons_eq, sumN_nil_eq. unfold sz. lia. }
        intros i. rewrite Hh, (nth_middle_hist tg_hist g1 x x' g2 s i Hx), <- app_assoc. f_equal.
        unfold accepted_samples. cbn [combine flat_map]. rewrite Hid. reflexivity.
    + rewrite (run_ops_rejected _ _ _ _ _ _ E) in H.
      destruct (IH _ _ _ _ _ H Hinv Hrest) as (cls' & tgs1 & -> & Hlen & Hi1 & G1 & G2 & G3 & Hb & Hh).
      exists (class_of (@Err unit e) :: cls'), tgs1. rewrite <- app_assoc. split; [reflexivity|]. split; [cbn [length]; lia|].
      split; [exact Hi1|]. split; [exact G1|]. split; [exact G2|]. split; [exact G3|].
      split.
      { rewrite Hb. f_equal. unfold accepted_bytes. cbn [combine map]. rewrite sumN_cons_eq. destruct op, e; cbn [class_of]; lia. }
      intros i. rewrite Hh. f_equal. unfold accepted_samples. cbn [combine flat_map].
      destruct op, e; reflexivity.
    + cbn [run_ops] in H. unfold apply_op in E. destruct op; rewrite E in H; discriminate.
    + cbn [run_ops] in H. unfold apply_op in E. destruct op; rewrite E in H; discriminate.
Qed.

(** ** [write_end] *)
Lemma tw_write_end_frame m w pos w' wrote tf : tw_write_end m w pos = Ok (w', wrote, tf) ->
  tw_h w' = tw_h w /\ tw_conf w' = tw_conf w.
Proof.
  unfold tw_write_end. intros H. destruct (write_chunk m (tw_t w) (tw_c w) pos) as [[[t1 c1] wr]| | |]; try discriminate.
  cbn [res_bind] in H. injection H as <- _ _. split; reflexivity.
Qed.

Definition fin_rel (tf : tfinal) (tg : twriter * ghost) : Prop := tf = final_of (fst tg) /\ snd (snd tg) = [].

Lemma end_tracks_inv m : forall ts w acc w1 tfs done todo lo,
  end_tracks m ts w acc = Ok (w1, tfs) ->
  lo = mw_mdat_pos w + 16 ->
  mw_pos w = mw_base w + lenN (mw_out w) -> lo <= mw_pos w ->
  map fst todo = ts ->
  tracks_inv lo (mw_base w) (mw_out w) (mw_timescale w) (done ++ todo) ->
  Forall2 fin_rel acc done ->
  exists done',
    mw_pos w1 = mw_base w1 + lenN (mw_out w1) /\ lo <= mw_pos w1 /\
    mw_base w1 = mw_base w /\ mw_mdat_pos w1 = mw_mdat_pos w /\ mw_timescale w1 = mw_timescale w /\
    mw_duration w1 = mw_duration w /\
    tracks_inv lo (mw_base w) (mw_out w1) (mw_timescale w) done' /\
    Forall2 fin_rel tfs done' /\
    map tg_hist done' = map tg_hist (done ++ todo) /\
    map tg_tkhd done' = map tg_tkhd (done ++ todo).
Proof.
  induction ts as [|t rest IH]; intros w acc w1 tfs done todo lo H Hlo Hpos Hlp Hts Hinv Hacc.
  - cbn [end_tracks] in H. injection H as <- <-. destruct todo; [|discriminate]. rewrite app_nil_r in *.
    exists done. split; [exact Hpos|]. split; [exact Hlp|]. do 4 (split; [reflexivity|]).
    split; [exact Hinv|]. split; [exact Hacc|]. split; reflexivity.
  - destruct todo as [|[t0 [chs pend]] todo']; [discriminate|]. cbn [map fst] in Hts. injection Hts as -> Hts.
    cbn [end_tracks] in H.
    destruct (tw_write_end m t (mw_pos w)) as [[[t' wrote] tf]| | |] eqn:Ew; try discriminate. cbn [res_bind] in H.
    assert (Hx : tg_inv lo (mw_base w) (mw_out w) (mw_timescale w) (t, (chs, pend))).
    { pose proof (tk_each _ _ _ _ _ Hinv) as Hf. apply Forall_app in Hf as [_ Hf]. inversion Hf; assumption. }
    unfold tg_inv in Hx. cbn [fst snd] in Hx.
    destruct (tw_write_end_frame _ _ _ _ _ _ Ew) as [Fh Fc].
    destruct (tw_write_end_inv _ _ _ _ _ _ _ _ _ _ _ _ Hx Hpos Hlp Ew) as (Htf & [(-> & -> & Hco & Hi)|(-> & Hco & Hi)]).
    + cbn [emit] in H.
      destruct (IH _ _ _ _ (done ++ [(t', (chs, []))]) todo' lo H) as (done' & R1 & R2 & R3 & R4 & R5 & R6 & R7 & R8 & R9 & R10);
        cbn [mw_pos mw_base mw_out mw_mdat_pos mw_tracks mw_timescale mw_duration]; try assumption.
      * rewrite <- app_assoc. cbn [app]. eapply tracks_inv_same; [exact Hinv|exact Hi|].
        unfold tg_ext. cbn [fst snd]. rewrite Hco. reflexivity.
      * apply Forall2_app; [exact Hacc|]. constructor; [|constructor]. split; [exact Htf|reflexivity].
      * exists done'. cbn [mw_pos mw_base mw_out mw_mdat_pos mw_tracks mw_timescale mw_duration] in *.
        repeat (split; [assumption|]). rewrite R9, R10, <- !app_assoc. cbn [app]. rewrite !map_app. cbn [map].
        unfold tg_tkhd. cbn [fst]. rewrite Fh. split; reflexivity.
    + cbn [emit] in H.
      destruct (IH _ _ _ _ (done ++ [(t', (chs ++ [pend], []))]) todo' lo H) as (done' & R1 & R2 & R3 & R4 & R5 & R6 & R7 & R8 & R9 & R10);
        cbn [mw_pos mw_base mw_out mw_mdat_pos mw_tracks mw_timescale mw_duration]; try assumption.
      * rewrite lenN_app. lia.
      * lia.
      * rewrite <- app_assoc. cbn [app]. eapply tracks_inv_write; [exact Hinv|exact Hi|].
        unfold tg_ext. cbn [fst snd]. rewrite Hco.
        rewrite exts_of_snoc by (exact (Forall2_lenN _ _ _ (twf_offs _ _ _ _ _ _ _ Hx))).
        rewrite lenN_chunk_bytes, Hpos. reflexivity.
      * apply Forall2_app; [exact Hacc|]. constructor; [|constructor]. split; [exact Htf|reflexivity].
      * exists done'. cbn [mw_pos mw_base mw_out mw_mdat_pos mw_tracks mw_timescale mw_duration] in *.
        repeat (split; [assumption|]). rewrite R9, R10, <- !app_assoc. cbn [app]. rewrite !map_app. cbn [map].
        unfold tg_tkhd, tg_hist. cbn [fst snd]. rewrite Fh, hist_flush. split; reflexivity.
Qed.

(** patching the mdat header leaves the payload alone *)
Lemma dropN_app_ge {A} n (l1 l2 : list A) : lenN l1 <= n -> dropN n (l1 ++ l2) = dropN (n - lenN l1) l2.
Proof.
  intros H. replace n with ((n - lenN l1) + lenN l1) at 1 by lia. rewrite <- dropN_dropN, dropN_app. reflexivity.
Qed.

Lemma lenN_firstn {A} n (l : list A) : n <= lenN l -> lenN (firstn (N.to_nat n) l) = n.
Proof. intros H. unfold lenN in *. rewrite firstn_length. lia. Qed.

Lemma write_at_len off l buf : off + lenN l <= lenN buf -> lenN (write_at off l buf) = lenN buf.
Proof.
  intros H. unfold write_at. replace (off <=? lenN buf) with true by (symmetry; apply N.leb_le; lia).
  rewrite !lenN_app, lenN_firstn, dropN_lenN by lia. lia.
Qed.

Lemma write_at_drop off l buf k : off + lenN l <= lenN buf -> off + lenN l <= k ->
  dropN k (write_at off l buf) = dropN k buf.
Proof.
  intros H Hk. unfold write_at. replace (off <=? lenN buf) with true by (symmetry; apply N.leb_le; lia).
  rewrite dropN_app_ge by (rewrite lenN_firstn; lia). rewrite lenN_firstn by lia.
  rewrite dropN_app_ge by lia. rewrite dropN_dropN. f_equal. lia.
Qed.

Lemma twf_inv_patch lo base out out' mts w chs pend :
  twf_inv lo base out mts w chs pend -> lenN out' = lenN out ->
  (forall k, lo - base <= k -> dropN k out' = dropN k out) ->
  twf_inv lo base out' mts w chs pend.
Proof.
  intros [Hlo Hok Hid Hidb Hcnt Hsz Hstts Hsv Hctts Hstss Hruns Hnil Hcounts Hne Hoffs Hpn Hpb Hmd Htd Hmv Htv] Hl Hd.
  constructor; try assumption.
  eapply Forall2_weaken; [|exact Hoffs]. intros o ch (H1 & H2 & H3). unfold chunk_at. rewrite Hl.
  split; [exact H1|]. split; [exact H2|]. unfold sliceN in *. rewrite Hd by lia. exact H3.
Qed.

Lemma tracks_inv_patch lo base out out' mts tgs :
  tracks_inv lo base out mts tgs -> lenN out' = lenN out ->
  (forall k, lo - base <= k -> dropN k out' = dropN k out) ->
  tracks_inv lo base out' mts tgs.
Proof.
  intros [H1 H2 H3] Hl Hd. constructor; [|exact H2|rewrite Hl; exact H3].
  eapply Forall_impl; [|exact H1]. intros tg Htg. eapply twf_inv_patch; eassumption.
Qed.

Lemma mw_write_end_inv m w f tgs : mwf_inv w tgs -> mw_write_end m w = Ok f ->
  exists done,
    tracks_inv (mf_mdat_pos f + 16) (mf_base f) (mf_out f) (mf_mvhd_timescale f) done /\
    Forall2 fin_rel (mf_tracks f) done /\
    map tg_hist done = map tg_hist tgs /\
    mf_mvhd_duration f = maxl (map tg_tkhd done) /\
    mf_base f = mw_base w /\ mf_mdat_pos f = mw_mdat_pos w /\ mf_mvhd_timescale f = mw_timescale w.
Proof.
  intros [H1 H2 H3 H4 H5 H6] H. unfold mw_write_end in H.
  destruct (end_tracks m (mw_tracks w) w []) as [[w1 tfs]| | |] eqn:Ee; try discriminate. cbn [res_bind] in H.
  destruct (end_tracks_inv m _ _ _ _ _ [] tgs (mw_mdat_pos w + 16) Ee eq_refl H1 H3 H4 H5 (Forall2_nil _))
    as (done & R1 & R2 & R3 & R4 & R5 & R6 & R7 & R8 & R9 & R10).
  cbn [app] in R9, R10.
  destruct (sub_w m U64 _ (mw_pos w1) (mw_mdat_pos w1)) as [msz| | |]; try discriminate. cbn [res_bind] in H.
  assert (Hoff : mw_mdat_pos w1 - mw_base w1 + 16 <= lenN (mw_out w1)) by lia.
  match type of H with res_bind ?X _ = _ => destruct X as [out'| | |] eqn:Eo; try discriminate end.
  cbn [res_bind] in H. injection H as <-.
  cbn [mf_mdat_pos mf_base mf_out mf_mvhd_timescale mf_tracks mf_mvhd_duration].
  exists done. rewrite R3, R4, R5, R6, H6, R10.
  split; [|repeat split; auto].
  eapply tracks_inv_patch; [exact R7| |].
  - destruct (U32MAX <? msz).
    + destruct (add_w m U64 _ (mw_mdat_pos w1) 8); try discriminate. cbn [res_bind] in Eo. injection Eo as <-.
      unfold patch. rewrite !write_at_len; rewrite ?write_at_len; rewrite ?lenN_be; try reflexivity; cbn; lia.
    + injection Eo as <-. unfold patch. rewrite write_at_len; rewrite ?lenN_be; try reflexivity; cbn; lia.
  - intros k Hk. destruct (U32MAX <? msz).
    + destruct (add_w m U64 _ (mw_mdat_pos w1) 8); try discriminate. cbn [res_bind] in Eo. injection Eo as <-.
      unfold patch. rewrite !write_at_drop; rewrite ?write_at_len; rewrite ?lenN_be; try reflexivity; cbn; lia.
    + injection Eo as <-. unfold patch. rewrite write_at_drop; rewrite ?lenN_be; try reflexivity; cbn; lia.
Qed.

(** ** the whole run *)
Definition op_typedb (op : mux_op) : bool :=
  match op with
  | OpWrite _ s => (ws_duration s <? U32) && fits_signed 32 (ws_rendering_offset s)   (* [u32] / [i32] fields *)
  | OpAddTrack _ => true
  end.
Definition ops_typed (ops : list mux_op) : bool := forallb op_typedb ops.

Lemma ops_typed_Forall ops : ops_typed ops = true -> Forall op_typedP ops.
Proof.
  unfold ops_typed. rewrite forallb_forall, Forall_forall. intros H op Hop. specialize (H op Hop).
  destruct op as [c|id s]; [exact I|]. cbn [op_typedb op_typedP] in *. apply andb_true_iff in H as [Ha Hb].
  split; [apply N.ltb_lt; exact Ha|exact Hb].
Qed.

Lemma run_mux_inv m base cfg ops cls f :
  run_mux m base cfg ops = Ok (cls, f) -> ops_typed ops = true ->
  exists done,
    length cls = length ops /\
    tracks_inv (mf_mdat_pos f + 16) (mf_base f) (mf_out f) (mf_mvhd_timescale f) done /\
    Forall2 fin_rel (mf_tracks f) done /\
    (forall i, nth i (map tg_hist done) [] = accepted_samples ops cls (N.of_nat i + 1)) /\
    hist_bytes done = accepted_bytes ops cls /\
    mf_mvhd_duration f = maxl (map tg_tkhd done) /\
    mf_base f = base /\ mf_mdat_pos f = base + lenN (ftyp_bytes cfg) /\ mf_mvhd_timescale f = mc_timescale cfg.
Proof.
  intros H Hty. apply ops_typed_Forall in Hty. unfold run_mux in H.
  destruct (run_ops m (mw_write_start base cfg) ops []) as [[w cls0]| | |] eqn:Er; try discriminate. cbn [res_bind] in H.
  destruct (mw_write_end m w) as [f0| | |] eqn:Ee; try discriminate. cbn [res_bind] in H. injection H as <- <-.
  destruct (run_ops_inv m _ _ _ _ _ [] Er (mwf_write_start_inv base cfg) Hty)
    as (cls' & tgs1 & -> & Hlen & Hi1 & G1 & G2 & G3 & Hb & Hh).
  destruct (mw_write_end_inv _ _ _ _ Hi1 Ee) as (done & R1 & R2 & R3 & R4 & R5 & R6 & R7).
  exists done. cbn [app]. split; [exact Hlen|]. split; [exact R1|]. split; [exact R2|]. split.
  { intros i. rewrite R3, Hh. cbn [map]. destruct i; reflexivity. }
  split.
  { unfold hist_bytes in *. rewrite <- map_map, R3, map_map, Hb. cbn [map]. rewrite sumN_nil_eq. lia. }
  split; [exact R4|]. rewrite R5, R6, R7, G1, G2, G3. repeat split.
Qed.

(** ** C01: what was muxed is what the tables describe *)
Definition sample_fidelity (f : mfinal) (tb : tables) (ss : list wsample) : Prop :=
  forall k s, nth1 ss k = Some s ->
    spec_size tb k = Some (lenN (ws_bytes s)) /\
    spec_delta tb k = Some (ws_duration s) /\
    spec_start tb k = sumN (map ws_duration (firstn (N.to_nat (k - 1)) ss)) /\
    spec_cts tb k = Some (ws_rendering_offset s) /\
    spec_sync tb k = ws_is_sync s /\
    exists off, spec_offset tb k = Some off /\ mf_mdat_pos f + 16 <= off /\
                off + lenN (ws_bytes s) <= mf_base f + lenN (mf_out f) /\
                sliceN (off - mf_base f) (lenN (ws_bytes s)) (mf_out f) = ws_bytes s.

Lemma Forall2_nth_error {A B} (R : A -> B -> Prop) l1 l2 i a :
  Forall2 R l1 l2 -> nth_error l1 i = Some a -> exists b, nth_error l2 i = Some b /\ R a b.
Proof.
  intros H. revert i. induction H as [|x y l1 l2 Hxy _ IH]; intros [|i] E; try discriminate.
  - injection E as <-. exists y. split; [reflexivity|exact Hxy].
  - exact (IH i E).
Qed.

Lemma nth_map_nth_error {A B} (g : A -> B) l i x d : nth_error l i = Some x -> nth i (map g l) d = g x.
Proof.
  revert i; induction l as [|a t IH]; intros [|i] E; try discriminate.
  - injection E as <-. reflexivity.
  - cbn [map nth]. exact (IH i E).
Qed.

Lemma final_track m base cfg ops cls f i tf :
  run_mux m base cfg ops = Ok (cls, f) -> ops_typed ops = true -> nth_error (mf_tracks f) i = Some tf ->
  exists t chs,
    twf_inv (mf_mdat_pos f + 16) (mf_base f) (mf_out f) (mf_mvhd_timescale f) t chs [] /\
    tf = final_of t /\ concat chs = accepted_samples ops cls (N.of_nat i + 1).
Proof.
  intros H Hty Hn. destruct (run_mux_inv _ _ _ _ _ _ H Hty) as (done & _ & R1 & R2 & R3 & _).
  destruct (Forall2_nth_error _ _ _ _ _ R2 Hn) as ([t [chs pend]] & Hd & Htf & Hp). cbn [fst snd] in *. subst pend.
  exists t, chs. split; [|split; [exact Htf|]].
  - pose proof (tk_each _ _ _ _ _ R1) as Hf. rewrite Forall_forall in Hf. exact (Hf _ (nth_error_In _ _ Hd)).
  - rewrite <- R3, (nth_map_nth_error tg_hist _ _ _ _ Hd). unfold tg_hist, hist. cbn [fst snd]. now rewrite app_nil_r.
Qed.

Theorem mux_fidelity m base cfg ops cls f :
  run_mux m base cfg ops = Ok (cls, f) -> ops_typed ops = true ->
  (mf_base f + lenN (mf_out f) <? U64) = true ->
  forall i tf, nth_error (mf_tracks f) i = Some tf ->
    let ss := accepted_samples ops cls (N.of_nat i + 1) in
    consistent (tf_tables tf) = true /\
    t_stsz_count (tf_tables tf) = lenN ss /\
    sample_fidelity f (tf_tables tf) ss.
Proof.
  intros H Hty Hb i tf Hn ss. apply N.ltb_lt in Hb.
  destruct (final_track _ _ _ _ _ _ _ _ H Hty Hn) as (t & chs & Hinv & -> & Hss). fold ss in Hss.
  cbn [final_of tf_tables]. rewrite <- Hss. split; [|split].
  - exact (fin_consistent _ _ _ _ _ _ Hinv Hb).
  - exact (fin_count _ _ _ _ _ _ Hinv).
  - intros k s Hk. exact (fin_sample_spec _ _ _ _ _ _ Hinv k s Hk).
Qed.

(** the output consists of the two headers and the accepted payload: the size bound is a bound on the history *)
Lemma mux_out_length m base cfg ops cls f :
  run_mux m base cfg ops = Ok (cls, f) -> ops_typed ops = true ->
  mf_base f = base /\ lenN (mf_out f) = lenN (ftyp_bytes cfg) + 16 + accepted_bytes ops cls.
Proof.
  intros H Hty. destruct (run_mux_inv _ _ _ _ _ _ H Hty) as (done & _ & R1 & R2 & _ & R4 & _ & R6 & R7 & _).
  split; [exact R6|]. pose proof (tk_len _ _ _ _ _ R1) as Hl. rewrite <- R4.
  assert (E : sumN (map snd (concat (map tg_ext done))) = hist_bytes done).
  { pose proof (tk_each _ _ _ _ _ R1) as Hf. clear - Hf R2. revert Hf R2. generalize (mf_tracks f). intros tfs Hf R2.
    revert tfs R2. unfold hist_bytes. induction Hf as [|[t [chs pend]] r Hx _ IH]; intros tfs R2; [reflexivity|].
    inversion R2 as [|tf ? tfs' ? [_ Hp] Hr]; subst. cbn [fst snd] in Hp. subst pend.
    cbn [map concat]. rewrite map_app, sumN_app, sumN_cons_eq, (IH _ Hr). f_equal.
    unfold tg_ext, tg_hist, hist. cbn [fst snd]. rewrite app_nil_r.
    apply sum_exts. exact (Forall2_lenN _ _ _ (twf_offs _ _ _ _ _ _ _ Hx)). }
  rewrite E in Hl. lia.
Qed.

Definition history_fits (base : N) (cfg : mp4_conf) (ops : list mux_op) (cls : list rclass) : bool :=
  base + lenN (ftyp_bytes cfg) + 16 + accepted_bytes ops cls <? 2 ^ 63.

Theorem mux_fidelity_history m base cfg ops cls f :
  run_mux m base cfg ops = Ok (cls, f) -> ops_typed ops = true -> history_fits base cfg ops cls = true ->
  forall i tf, nth_error (mf_tracks f) i = Some tf ->
    let ss := accepted_samples ops cls (N.of_nat i + 1) in
    consistent (tf_tables tf) = true /\
    t_stsz_count (tf_tables tf) = lenN ss /\
    sample_fidelity f (tf_tables tf) ss.
Proof.
  intros H Hty Hfit. apply (mux_fidelity _ _ _ _ _ _ H Hty).
  destruct (mux_out_length _ _ _ _ _ _ H Hty) as [E1 E2]. rewrite E1, E2. unfold history_fits in Hfit.
  apply N.ltb_lt in Hfit. apply N.ltb_lt. unfold U64. change (2 ^ 63) with 9223372036854775808 in Hfit. lia.
Qed.

(** ** C02: the tables are valid and the chunks tile disjoint parts of the mdat payload *)
Definition track_extents (tf : tfinal) : list (N * N) :=
  let tb := tf_tables tf in
  chunk_extents (offsets_of tb) (iso_chunk_counts (t_stsc tb) (lenN (offsets_of tb))) (sizes_of tb).

Lemma fin_rel_maps lo base out mts tfs done :
  Forall2 fin_rel tfs done -> Forall (tg_inv lo base out mts) done ->
  map track_extents tfs = map tg_ext done /\
  map (fun tf => wh_tkhd_duration (tf_hdr tf)) tfs = map tg_tkhd done.
Proof.
  induction 1 as [|tf [t [chs pend]] tfs done [Htf Hp] _ IH]; intros Hf; [split; reflexivity|].
  inversion Hf as [|? ? Hx Hr]; subst. cbn [fst snd] in *. subst pend. destruct (IH Hr) as [E1 E2].
  cbn [map]. rewrite E1, E2. split; f_equal.
  unfold track_extents, tg_ext. cbn [final_of tf_tables fst snd]. exact (fin_extents _ _ _ _ _ _ Hx).
Qed.

Theorem mux_valid m base cfg ops cls f :
  run_mux m base cfg ops = Ok (cls, f) -> ops_typed ops = true ->
  (forall i tf, nth_error (mf_tracks f) i = Some tf ->
     let ss := accepted_samples ops cls (N.of_nat i + 1) in
     track_tables_ok (tf_tables tf) (lenN ss) (sumN (map ws_duration ss)) = true /\
     wh_mdhd_duration (tf_hdr tf) = sumN (map ws_duration ss) /\
     wh_tkhd_duration (tf_hdr tf) =
       tkhd_sat (wh_mdhd_duration (tf_hdr tf)) (mf_mvhd_timescale f) (tc_timescale (tf_conf tf))) /\
  forallb (forallb (within (mf_mdat_pos f + 16) (mf_base f + lenN (mf_out f)))) (map track_extents (mf_tracks f)) = true /\
  pairwise_disjoint (concat (map track_extents (mf_tracks f))) = true /\
  mf_mvhd_duration f = fold_left N.max (map (fun tf => wh_tkhd_duration (tf_hdr tf)) (mf_tracks f)) 0.
Proof.
  intros H Hty. split.
  - intros i tf Hn ss. destruct (final_track _ _ _ _ _ _ _ _ H Hty Hn) as (t & chs & Hinv & -> & Hss). fold ss in Hss.
    cbn [final_of tf_tables tf_hdr tf_conf]. rewrite <- Hss. split; [|split].
    + exact (fin_tables_ok _ _ _ _ _ _ Hinv).
    + rewrite (twf_md _ _ _ _ _ _ _ Hinv), fin_hist. reflexivity.
    + exact (twf_td _ _ _ _ _ _ _ Hinv).
  - destruct (run_mux_inv _ _ _ _ _ _ H Hty) as (done & _ & R1 & R2 & _ & _ & R5 & _).
    destruct (fin_rel_maps _ _ _ _ _ _ R2 (tk_each _ _ _ _ _ R1)) as [E1 E2]. rewrite E1, E2. split; [|split].
    + apply forallb_forall. intros l Hl. apply in_map_iff in Hl as (tg & <- & Htg).
      pose proof (tk_each _ _ _ _ _ R1) as Hf. rewrite Forall_forall in Hf.
      pose proof (tg_ext_within _ _ _ _ _ (Hf _ Htg)) as Hw. rewrite Forall_forall in Hw.
      apply forallb_forall. intros e He. destruct (Hw e He) as [Ha Hb]. unfold within.
      apply andb_true_intro. split; apply N.leb_le; assumption.
    + apply pairwise_disjoint_ok. exact (tk_disj _ _ _ _ _ R1).
    + rewrite fold_left_max, R5. lia.
Qed.

(** the chunk extents are also exactly the payload: header + extents = output length *)
Theorem mux_extents_cover m base cfg ops cls f :
  run_mux m base cfg ops = Ok (cls, f) -> ops_typed ops = true ->
  mf_base f + lenN (mf_out f) = mf_mdat_pos f + 16 + sumN (map snd (concat (map track_extents (mf_tracks f)))).
Proof.
  intros H Hty. destruct (run_mux_inv _ _ _ _ _ _ H Hty) as (done & _ & R1 & R2 & _).
  destruct (fin_rel_maps _ _ _ _ _ _ R2 (tk_each _ _ _ _ _ R1)) as [E1 _]. rewrite E1. exact (tk_len _ _ _ _ _ R1).
Qed.

(** header versions can hold the durations *)
Lemma mw_write_end_version m w f : mw_write_end m w = Ok f ->
  mf_mvhd_version f = if U32MAX <? mf_mvhd_duration f then 1 else 0.
Proof.
  unfold mw_write_end. intros H. destruct (end_tracks m (mw_tracks w) w []) as [[w1 tfs]| | |]; try discriminate.
  cbn [res_bind] in H. destruct (sub_w m U64 _ (mw_pos w1) (mw_mdat_pos w1)) as [msz| | |]; try discriminate.
  cbn [res_bind] in H. match type of H with res_bind ?X _ = _ => destruct X as [out'| | |]; try discriminate end.
  cbn [res_bind] in H. injection H as <-. reflexivity.
Qed.

Theorem mux_versions m base cfg ops cls f :
  run_mux m base cfg ops = Ok (cls, f) -> ops_typed ops = true ->
  ((mf_mvhd_version f =? 1) || (mf_mvhd_duration f <? U32)) = true /\
  forall i tf, nth_error (mf_tracks f) i = Some tf ->
    ((wh_mdhd_version (tf_hdr tf) =? 1) || (wh_mdhd_duration (tf_hdr tf) <? U32)) = true /\
    ((wh_tkhd_version (tf_hdr tf) =? 1) || (wh_tkhd_duration (tf_hdr tf) <? U32)) = true.
Proof.
  intros H Hty. split.
  - unfold run_mux in H. destruct (run_ops m _ ops []) as [[w cls0]| | |]; try discriminate. cbn [res_bind] in H.
    destruct (mw_write_end m w) as [f0| | |] eqn:Ee; try discriminate. cbn [res_bind] in H. injection H as _ <-.
    rewrite (mw_write_end_version _ _ _ Ee). unfold U32MAX.
    destruct (N.ltb_spec (U32 - 1) (mf_mvhd_duration f0)); [reflexivity|].
    apply orb_true_iff. right. apply N.ltb_lt. unfold U32 in *. lia.
  - intros i tf Hn. destruct (final_track _ _ _ _ _ _ _ _ H Hty Hn) as (t & chs & Hinv & -> & _).
    cbn [final_of tf_hdr]. pose proof (twf_mv _ _ _ _ _ _ _ Hinv) as Hm. pose proof (twf_tv _ _ _ _ _ _ _ Hinv) as Ht.
    unfold U32MAX in *. split; apply orb_true_iff.
    + destruct (N.ltb_spec (U32 - 1) (wh_mdhd_duration (tw_h t))) as [Hl|Hl].
      * left. apply N.eqb_eq. exact (Hm Hl).
      * right. apply N.ltb_lt. unfold U32 in *. lia.
    + destruct (N.ltb_spec (U32 - 1) (wh_tkhd_duration (tw_h t))) as [Hl|Hl].
      * left. apply N.eqb_eq. exact (Ht Hl).
      * right. apply N.ltb_lt. unfold U32 in *. lia.
Qed.

(** the writer itself enforces the per-track domain: sample sizes and sample counts fit their fields *)
Theorem mux_domain m base cfg ops cls f :
  run_mux m base cfg ops = Ok (cls, f) -> ops_typed ops = true ->
  forall i tf, nth_error (mf_tracks f) i = Some tf ->
    let ss := accepted_samples ops cls (N.of_nat i + 1) in
    lenN ss < U32 - 1 /\ Forall (fun s => lenN (ws_bytes s) < U32) ss.
Proof.
  intros H Hty i tf Hn ss. destruct (final_track _ _ _ _ _ _ _ _ H Hty Hn) as (t & chs & Hinv & -> & Hss).
  fold ss in Hss. rewrite <- Hss. split.
  - pose proof (fin_n_bound _ _ _ _ _ _ Hinv). unfold U32 in *. lia.
  - eapply Forall_impl; [|exact (fin_ss_ok _ _ _ _ _ _ Hinv)]. intros s [Hs _]. exact Hs.
Qed.

(** tracks are numbered in the order of the accepted [add_track] calls; no other track exists *)
Theorem mux_no_stray_samples m base cfg ops cls f :
  run_mux m base cfg ops = Ok (cls, f) -> ops_typed ops = true ->
  forall i, (length (mf_tracks f) <= i)%nat -> accepted_samples ops cls (N.of_nat i + 1) = [].
Proof.
  intros H Hty i Hi. destruct (run_mux_inv _ _ _ _ _ _ H Hty) as (done & _ & _ & R2 & R3 & _).
  rewrite <- R3. apply nth_overflow. rewrite map_length. unfold lenN in *.
  clear - R2 Hi. induction R2 in i, Hi |- *; cbn [length] in *; [lia|]. destruct i; [lia|]. apply le_n_S. apply IHR2. lia.
Qed.

(** ** A concrete history (non-vacuity of C01/C02): a rejected write before any track exists, two tracks
      written interleaved, equal sizes then a zero-length sample (fixed -> per-sample size switch with back-fill),
      a composition offset that first appears on the fourth sample, a negative one, non-sync samples,
      writes to a missing track and to track 0, a rejected [add_track] (timescale 0), zero-length last samples
      (a zero-byte final chunk). *)
Open Scope string_scope.
Definition ex_cfg : mp4_conf := mkMp4Conf 0x69736f6d 512 [0x69736f6d; 0x61766331] 1000.
Definition ex_video : track_conf := mkTrackConf "Video" 1000 [117; 110; 100] (AvcConf 320 240 [103; 66; 0; 30] [104; 206]).
Definition ex_audio : track_conf := mkTrackConf "Audio" 48000 [117; 110; 100] (AacConf 128000 "AAC-LC" "48000" "Stereo").
Definition ex_ops : list mux_op :=
  [ OpWrite 1 (mkWSample 500 0 true [1; 2; 3]);
    OpAddTrack ex_video; OpAddTrack ex_audio;
    OpWrite 1 (mkWSample 500 0 true [1; 2; 3]);
    OpWrite 2 (mkWSample 24000 0 true [9; 9]);
    OpWrite 1 (mkWSample 500 0 false [4; 5; 6]);
    OpWrite 1 (mkWSample 500 0 false []);
    OpWrite 2 (mkWSample 24000 0 true [8; 8]);
    OpWrite 1 (mkWSample 500 250 true [7]);
    OpWrite 3 (mkWSample 1 0 true [1]);
    OpWrite 0 (mkWSample 1 0 true [1]);
    OpAddTrack (mkTrackConf "Video" 0 [117; 110; 100] (Vp9Conf 1 1));
    OpWrite 1 (mkWSample 300 (-20) false []);
    OpWrite 2 (mkWSample 24000 0 true []) ].
Definition ex_cls : list rclass := [CData; COk; COk; COk; COk; COk; COk; COk; COk; CData; CData; CData; COk; COk].

(** ** The writer's own [first_sample] bookkeeping (not serialised) is off by one for a run created in [write_end] *)
Definition ex2_ops : list mux_op :=
  [ OpAddTrack (mkTrackConf "Video" 1000 [117; 110; 100] (Vp9Conf 320 240));
    OpWrite 1 (mkWSample 400 0 true [1]); OpWrite 1 (mkWSample 400 0 true [2; 2]); OpWrite 1 (mkWSample 400 0 true [3; 3; 3]);
    OpWrite 1 (mkWSample 100 0 true [4; 4; 4; 4]); OpWrite 1 (mkWSample 100 0 true [5; 5; 5; 5; 5]) ].

Lemma writer_first_sample_refuted :
  exists cls f tf,
    run_mux Dbg 0 ex_cfg ex2_ops = Ok (cls, f) /\ nth_error (mf_tracks f) 0 = Some tf /\
    derive_first_samples (t_stsc (tf_tables tf)) 1 <> Some (t_stsc (tf_tables tf)) /\
    spec_offset (tf_tables tf) 5 = Some 50 /\
    sample_offset Dbg (mkTrack 1 (tf_tables tf) [] 0) 5 = Ok 46.
Proof.
  do 3 eexists. split; [vm_compute; reflexivity|]. split; [reflexivity|].
  split; [vm_compute; discriminate|]. split; vm_compute; reflexivity.
Qed.

Lemma mux_consistent m base cfg ops cls f :
  run_mux m base cfg ops = Ok (cls, f) -> ops_typed ops = true -> history_fits base cfg ops cls = true ->
  forall i tf, nth_error (mf_tracks f) i = Some tf -> consistent (tf_tables tf) = true.
Proof. intros H1 H2 H3 i tf H4. exact (proj1 (mux_fidelity_history m base cfg ops cls f H1 H2 H3 i tf H4)). Qed.
