(** Round trip of [StsdBox] (stsd.rs), and the sample entries on the caller's fuel *)
From MP4 Require Import KitCont KitCodecs BoxStsd IsoStsd IsoAvc1 IsoHev1 IsoVp09 IsoMp4a IsoTx3g
     RtAvc1 RtHev1 RtVp09 RtMp4a RtTx3g.
From Coq Require Import ZifyN ZifyNat ZifyBool.
Open Scope string_scope.
Open Scope list_scope.
Open Scope N_scope.

(** ** [Avc1Box] and [Mp4aBox] with the fuel of the caller: one unit is enough *)
Lemma avc1_fuel_dec f m v d l p post : avc1_wf v = true -> avc1_size v < U32 -> p + avc1_size v < 2^63 ->
  run (dec_avc1_fuel (S f) m (avc1_size v)) (mkStream d l (p + 8) (iso_avc1_payload v ++ post))
  = (Ok v, mkStream d l (p + avc1_size v) post).
Proof.
  intros H Hs Hp. rewrite avc1_payload_iso. unfold dec_avc1_fuel, avc1_payload.
  unfold avc1_wf in H. split_andb.
  assert (Hsz : avc1_size v = 86 + avcc_size (avc1_avcc v)) by reflexivity.
  assert (Hc : 15 <= avcc_size (avc1_avcc v)) by (rewrite avcc_size_eq; lia).
  rewrite <- !app_assoc.
  prog_norm. cbn [run s_pos].
  rewrite run_sub64_ok by (clear; unfold HEADER_SIZE, Tables.HEADER_SIZE; lia).
  do 12 rd_step.
  prog_norm.
  rewrite (run_SeekRel_app _ 32 (repeat 0 32)) by (first [reflexivity | clear -Hsz Hp; lia]).
  do 2 rd_step.
  rewrite run_add64_ok by (clear -Hsz Hp; unfold HEADER_SIZE, Tables.HEADER_SIZE, U64; lia).
  cbn [avc1_find]. prog_norm. cbn [run s_pos].
  match goal with |- context [mkStream d l ?q (be 4 (avcc_size _) ++ _)] =>
    replace q with (p + 78 + 8) by (clear; lia) end.
  replace (p + 8 - HEADER_SIZE + avc1_size v <=? p + 78 + 8) with false
    by (symmetry; apply N.leb_gt; clear -Hsz Hc; unfold HEADER_SIZE, Tables.HEADER_SIZE; lia).
  cbv iota. rewrite bind_bind.
  rewrite run_read_header_bind
    by (first [ clear -Hs Hsz; lia | clear -Hc; lia | clear; vm_compute; reflexivity ]).
  cbv beta iota.
  replace (avc1_size v <? avcc_size (avc1_avcc v)) with false
    by (symmetry; apply N.ltb_ge; clear -Hsz; lia).
  replace (avcc_size (avc1_avcc v) =? 0) with false
    by (symmetry; apply N.eqb_neq; clear -Hc; lia).
  rewrite avc1_boxtype_avcc, avc1_eqb_avcc. cbv iota.
  rewrite bind_bind, run_bind.
  rewrite (avcc_dec m (avc1_avcc v) d l (p + 78 + 8)) by (first [assumption | clear -Hsz Hp; lia]).
  cbv beta iota. rewrite bind_bind.
  rewrite run_add64_ok by (clear -Hsz Hp; unfold HEADER_SIZE, Tables.HEADER_SIZE, U64; lia).
  prog_norm.
  rewrite run_SeekTo_here by (clear -Hsz; unfold HEADER_SIZE, Tables.HEADER_SIZE; lia).
  cbn [run bind]. f_equal.
  - destruct v; reflexivity.
  - f_equal. clear -Hsz. lia.
Qed.

Theorem avc1_fuel_roundtrip :
  cont_roundtrip avc1_wf avc1_size 0x61766331 enc_avc1 dec_avc1_fuel iso_avc1_payload (fun _ => 1%nat).
Proof.
  intros v H Hs. destruct (avc1_roundtrip v H Hs) as (H1 & H2 & H3 & H4 & _).
  repeat split; auto.
  intros fuel m d l p post Hf Hp. destruct fuel as [|f]; [lia|]. now apply avc1_fuel_dec.
Qed.

Lemma mp4a_fuel_dec f m v d l p post : mp4a_wf v = true -> p + mp4a_size v < 2 ^ 63 ->
  run (dec_mp4a_fuel (S f) m (mp4a_size v)) (mkStream d l (p + 8) (iso_mp4a_payload v ++ post))
  = (Ok v, mkStream d l (p + mp4a_size v) post).
Proof.
  intros H Hp. rewrite mp4a_payload_iso by exact H. mp4a_bounds H.
  pose proof (mp4a_size_eq v) as Hsz.
  unfold dec_mp4a_fuel, mp4a_payload.
  rewrite <- !app_assoc.
  prog_norm. rewrite run_GetPos.
  rewrite run_sub64_ok by (clear; unfold HEADER_SIZE, Tables.HEADER_SIZE; lia).
  do 10 rd_step.
  change (0 =? 1) with false. cbv iota. cbn [bind].
  rewrite ?bind_bind.
  rewrite run_add64_ok
    by (clear -Hsz Hp; destruct (mp4a_esds v); unfold HEADER_SIZE, Tables.HEADER_SIZE, U64; lia).
  cbn [mp4a_find]. prog_norm. rewrite run_GetPos.
  destruct (mp4a_esds v) as [e|] eqn:Ee.
  - match goal with |- context [?a <=? ?b] =>
      replace (a <=? b) with false
        by (symmetry; apply N.leb_gt; clear -Hsz; unfold HEADER_SIZE, Tables.HEADER_SIZE; lia) end.
    cbv iota. rewrite !bind_bind. rewrite <- !app_assoc.
    rewrite run_read_header_bind by (clear; vm_compute; first [reflexivity | discriminate]).
    cbv beta iota.
    rewrite Hsz. change (75 <? 39) with false. change (39 =? 0) with false.
    rewrite mp4a_boxtype_esds, mp4a_eqb_esds. cbv iota.
    rewrite !bind_bind, run_bind.
    match goal with |- context [mkStream d l ?q (iso_esds_payload e ++ _)] =>
      replace q with (p + 36 + 8) by (clear; lia) end.
    change 39 with (esds_size e) at 1.
    rewrite (esds_dec m e d l (p + 36)) by (first [assumption | rewrite esds_size_eq; clear -Hsz Hp; lia]).
    cbv beta iota. cbn [bind].
    rewrite run_SeekTo_here by (rewrite esds_size_eq; clear; unfold HEADER_SIZE, Tables.HEADER_SIZE; lia).
    cbn [run]. f_equal; [f_equal; destruct v; cbn in Ee; subst; reflexivity | f_equal; rewrite esds_size_eq; clear; lia].
  - match goal with |- context [?a <=? ?b] =>
      replace (a <=? b) with true
        by (symmetry; apply N.leb_le; clear -Hsz; unfold HEADER_SIZE, Tables.HEADER_SIZE; lia) end.
    cbv iota. cbn [bind].
    rewrite run_SeekTo_here by (clear -Hsz; unfold HEADER_SIZE, Tables.HEADER_SIZE; lia).
    cbn [run app]. f_equal; [f_equal; destruct v; cbn in Ee; subst; reflexivity | f_equal; clear -Hsz; lia].
Qed.

Theorem mp4a_fuel_roundtrip m0 :
  cont_roundtrip mp4a_wf mp4a_size 0x6d703461 (enc_mp4a m0) dec_mp4a_fuel iso_mp4a_payload (fun _ => 1%nat).
Proof.
  intros v H Hs. destruct (mp4a_roundtrip m0 v H Hs) as (H1 & H2 & H3 & H4 & _).
  repeat split; auto.
  intros fuel m d l p post Hf Hp. destruct fuel as [|f]; [lia|]. now apply mp4a_fuel_dec.
Qed.

(** ** StsdBox *)
Lemma stsd_code : u32_of_boxtype (box_type_of "StsdBox") = 0x73747364.
Proof. vm_compute. reflexivity. Qed.

(** what the format can represent with this struct: at most one of the five entries *)
Definition stsd_count (v : stsd) : N :=
  iso_present (stsd_avc1 v) + iso_present (stsd_hev1 v) + iso_present (stsd_vp09 v)
  + iso_present (stsd_mp4a v) + iso_present (stsd_tx3g v).

Definition stsd_rt_wf (v : stsd) : bool := stsd_wf v && (stsd_count v <=? 1).

Definition stsd_tuple : Type := (option avc1 * option hev1 * option vp09 * option mp4a * option tx3g)%type.

Definition stsd_arm (fuel : nat) (m : mode) (name : boxtype) (s : N) : prog stsd_tuple :=
  match name with
  | Avc1Box => x <- dec_avc1_fuel fuel m s ;; Ret (Some x, None, None, None, None)
  | Hev1Box => x <- dec_hev1 m s ;; Ret (None, Some x, None, None, None)
  | Vp09Box => x <- dec_vp09 m s ;; Ret (None, None, Some x, None, None)
  | Mp4aBox => x <- dec_mp4a_fuel fuel m s ;; Ret (None, None, None, Some x, None)
  | Tx3gBox => x <- dec_tx3g m s ;; Ret (None, None, None, None, Some x)
  | _ => Ret (None, None, None, None, None)
  end.

Definition stsd_of_tuple (ver fl : N) (t : stsd_tuple) : stsd :=
  let '(a, h, p9, a4, t) := t in mkStsd ver fl a h p9 a4 t.

Lemma stsd_dec_entry {X} (wf : X -> bool) size code enc dec payload fb (inj : X -> stsd_tuple)
      x ver fl fuel m d l p post :
  cont_roundtrip wf size code enc dec payload fb -> code < U32 ->
  (forall s, stsd_arm fuel m (boxtype_of_u32 code) s = bind (dec fuel m s) (fun y => Ret (inj y))) ->
  wf x = true -> ver < 256 ^ N.of_nat 1 -> fl < 256 ^ N.of_nat 3 -> (fb x <= fuel)%nat ->
  16 + size x < U32 -> p + (16 + size x) < 2 ^ 63 ->
  run (dec_stsd_fuel fuel m (16 + size x))
      (mkStream d l (p + 8) (be 1 ver ++ be 3 fl ++ be 4 1 ++ iso_box code (payload x) ++ post))
  = (Ok (stsd_of_tuple ver fl (inj x)), mkStream d l (p + (16 + size x)) post).
Proof.
  intros Hrt Hc Harm Hw Hv Hfl Hf Hs Hp.
  assert (Hsx : size x < U32) by (clear -Hs; lia).
  destruct (Hrt x Hw Hsx) as (_ & _ & _ & Hlen & Hdec).
  unfold dec_stsd_fuel, iso_box.
  replace (8 + lenN (payload x)) with (size x) by (clear -Hlen; lia).
  rewrite <- !app_assoc.
  rewrite run_box_start. do 2 rd_step. rd_step.
  prog_norm. rewrite run_GetPos.
  rewrite run_add64_ok by (clear -Hp; hdr_consts; unfold U64; lia).
  rewrite run_add64_ok by (clear -Hp; unfold U64; lia).
  match goal with |- context [if ?a <=? ?b then _ else _] =>
    replace (a <=? b) with true by (symmetry; apply N.leb_le; clear -Hlen; hdr_consts; lia) end.
  rewrite !bind_bind.
  match goal with |- context [mkStream d l ?q (be 4 (size x) ++ _)] =>
    replace q with (p + 16) by (clear; lia) end.
  rewrite run_read_header_bind by (first [assumption | clear -Hlen; lia]).
  cbv beta iota.
  match goal with |- context [if ?a <? ?b then _ else _] =>
    replace (a <? b) with false by (symmetry; apply N.ltb_ge; clear; lia) end.
  change (match boxtype_of_u32 code with
          | Avc1Box => _ | Hev1Box => _ | Vp09Box => _ | Mp4aBox => _ | Tx3gBox => _ | _ => _ end)
    with (stsd_arm fuel m (boxtype_of_u32 code) (size x)).
  rewrite Harm. rewrite !bind_bind.
  erewrite run_bind_ok; [| apply Hdec; [exact Hf | clear -Hp; lia]].
  cbn [bind]. destruct (inj x) as [[[[a h] p9] a4] t]. cbv beta iota.
  rewrite run_finish; [| clear; lia | clear -Hp; unfold U64; lia].
  cbn [stsd_of_tuple]. f_equal. f_equal. clear. lia.
Qed.

Lemma stsd_bt_avc1 : boxtype_of_u32 0x61766331 = Avc1Box. Proof. vm_compute. reflexivity. Qed.
Lemma stsd_bt_hev1 : boxtype_of_u32 0x68657631 = Hev1Box. Proof. vm_compute. reflexivity. Qed.
Lemma stsd_bt_vp09 : boxtype_of_u32 0x76703039 = Vp09Box. Proof. vm_compute. reflexivity. Qed.
Lemma stsd_bt_mp4a : boxtype_of_u32 0x6d703461 = Mp4aBox. Proof. vm_compute. reflexivity. Qed.
Lemma stsd_bt_tx3g : boxtype_of_u32 0x74783367 = Tx3gBox. Proof. vm_compute. reflexivity. Qed.

Lemma stsd_dec_empty ver fl fuel m d l p post :
  ver < 256 ^ N.of_nat 1 -> fl < 256 ^ N.of_nat 3 -> p + 16 < 2 ^ 63 ->
  run (dec_stsd_fuel fuel m 16) (mkStream d l (p + 8) (be 1 ver ++ be 3 fl ++ be 4 0 ++ post))
  = (Ok (mkStsd ver fl None None None None None), mkStream d l (p + 16) post).
Proof.
  intros Hv Hfl Hp. unfold dec_stsd_fuel.
  rewrite run_box_start. do 2 rd_step. rd_step.
  prog_norm. rewrite run_GetPos.
  rewrite run_add64_ok by (clear -Hp; hdr_consts; unfold U64; lia).
  rewrite run_add64_ok by (clear -Hp; unfold U64; lia).
  match goal with |- context [if ?a <=? ?b then _ else _] =>
    replace (a <=? b) with false by (symmetry; apply N.leb_gt; clear; hdr_consts; lia) end.
  cbn [bind].
  rewrite run_finish; [| clear; lia | clear -Hp; unfold U64; lia].
  f_equal. f_equal. clear. lia.
Qed.

(** the six shapes a representable [StsdBox] has *)
Ltac stsd_cases v H :=
  let Hc := fresh "Hc" in
  unfold stsd_rt_wf in H; apply andb_true_iff in H as [H Hc];
  destruct v as [ver fl [a|] [h|] [p9|] [a4|] [t|]];
  try (exfalso; vm_compute in Hc; discriminate Hc); clear Hc;
  unfold stsd_wf in H; cbn [stsd_version stsd_flags stsd_avc1 stsd_hev1 stsd_vp09 stsd_mp4a stsd_tx3g] in H;
  split_andb.

Lemma stsd_payload_len v : stsd_rt_wf v = true -> stsd_size v < U32 ->
  lenN (iso_stsd_payload v) + 8 = stsd_size v.
Proof.
  intros H Hs. stsd_cases v H;
    unfold iso_stsd_payload, stsd_size in *;
    cbn [stsd_version stsd_flags stsd_avc1 stsd_hev1 stsd_vp09 stsd_mp4a stsd_tx3g iso_opt iso_present app] in *;
    rewrite ?app_nil_r, ?lenN_app, ?lenN_be, ?lenN_iso_box.
  - rewrite <- (cont_rt_len _ _ _ _ _ _ _ a avc1_fuel_roundtrip) by (first [assumption | clear -Hs; hdr_consts; lia]).
    hdr_consts. lia.
  - rewrite <- (cont_rt_len _ _ _ _ _ _ _ h (cont_of_leaf _ _ _ _ _ _ hev1_roundtrip)) by (first [assumption | clear -Hs; hdr_consts; lia]).
    hdr_consts. lia.
  - rewrite <- (cont_rt_len _ _ _ _ _ _ _ p9 (cont_of_leaf _ _ _ _ _ _ vp09_roundtrip)) by (first [assumption | clear -Hs; hdr_consts; lia]).
    hdr_consts. lia.
  - rewrite <- (cont_rt_len _ _ _ _ _ _ _ a4 (mp4a_fuel_roundtrip Dbg)) by (first [assumption | clear -Hs; hdr_consts; lia]).
    hdr_consts. lia.
  - rewrite <- (cont_rt_len _ _ _ _ _ _ _ t (cont_of_leaf _ _ _ _ _ _ tx3g_roundtrip)) by (first [assumption | clear -Hs; hdr_consts; lia]).
    hdr_consts. lia.
  - rewrite ?lenN_nil. hdr_consts. lia.
Qed.

Ltac stsd_child_size Hs :=
  clear -Hs; unfold stsd_size in Hs;
  cbn [stsd_avc1 stsd_hev1 stsd_vp09 stsd_mp4a stsd_tx3g] in Hs; hdr_consts; lia.

Ltac stsd_child me Hs :=
  lazymatch goal with
  | |- wspec (enc_avc1 _) _ _ => apply (cont_rt_wspec _ _ _ _ _ _ _ _ avc1_fuel_roundtrip)
  | |- wspec (enc_hev1 _) _ _ => apply (cont_rt_wspec _ _ _ _ _ _ _ _ (cont_of_leaf _ _ _ _ _ _ hev1_roundtrip))
  | |- wspec (enc_vp09 _) _ _ => apply (cont_rt_wspec _ _ _ _ _ _ _ _ (cont_of_leaf _ _ _ _ _ _ vp09_roundtrip))
  | |- wspec (enc_mp4a _ _) _ _ => apply (cont_rt_wspec _ _ _ _ _ _ _ _ (mp4a_fuel_roundtrip me))
  | |- wspec (enc_tx3g _) _ _ => apply (cont_rt_wspec _ _ _ _ _ _ _ _ (cont_of_leaf _ _ _ _ _ _ tx3g_roundtrip))
  end;
  [assumption | stsd_child_size Hs].

Lemma stsd_enc me v : stsd_rt_wf v = true -> stsd_size v < U32 ->
  wspec (enc_stsd me v) (stsd_size v) (be 4 (stsd_size v) ++ be 4 0x73747364 ++ iso_stsd_payload v).
Proof.
  intros H Hs. rewrite <- stsd_code. stsd_cases v H;
    unfold enc_stsd, iso_stsd_payload;
    cbn [stsd_version stsd_flags stsd_avc1 stsd_hev1 stsd_vp09 stsd_mp4a stsd_tx3g iso_opt iso_present app];
    change (1 + 0 + 0 + 0 + 0) with 1; change (0 + 1 + 0 + 0 + 0) with 1; change (0 + 0 + 1 + 0 + 0) with 1;
    change (0 + 0 + 0 + 1 + 0) with 1; change (0 + 0 + 0 + 0 + 1) with 1; change (0 + 0 + 0 + 0 + 0) with 0;
    (eapply wspec_out; [wspec_go; try stsd_child me Hs | rewrite <- ?app_assoc, ?app_nil_r; reflexivity]).
Qed.

Ltac stsd_side Hbt :=
  lazymatch goal with
  | |- forall s, _ = _ => intros s; rewrite Hbt; reflexivity
  | |- (_ <= _)%nat => first [assumption | clear; lia]
  | |- _ < U32 => first [assumption | clear; vm_compute; reflexivity]
  | |- _ => assumption
  end.

Lemma stsd_dec v fuel m d l p post : stsd_rt_wf v = true -> stsd_size v < U32 ->
  (1 <= fuel)%nat -> p + stsd_size v < 2 ^ 63 ->
  run (dec_stsd_fuel fuel m (stsd_size v)) (mkStream d l (p + 8) (iso_stsd_payload v ++ post))
  = (Ok v, mkStream d l (p + stsd_size v) post).
Proof.
  intros H Hs Hf Hp. stsd_cases v H;
    unfold iso_stsd_payload, stsd_size in *;
    cbn [stsd_version stsd_flags stsd_avc1 stsd_hev1 stsd_vp09 stsd_mp4a stsd_tx3g iso_opt iso_present app] in *;
    change (1 + 0 + 0 + 0 + 0) with 1; change (0 + 1 + 0 + 0 + 0) with 1; change (0 + 0 + 1 + 0 + 0) with 1;
    change (0 + 0 + 0 + 1 + 0) with 1; change (0 + 0 + 0 + 0 + 1) with 1; change (0 + 0 + 0 + 0 + 0) with 0;
    change (HEADER_SIZE + HEADER_EXT_SIZE + 4) with 16 in *;
    rewrite <- ?app_assoc, ?app_nil_r.
  - apply (stsd_dec_entry _ _ _ _ _ _ _ (fun x => (Some x, None, None, None, None)) a ver fl fuel m d l p post
             avc1_fuel_roundtrip); stsd_side stsd_bt_avc1.
  - apply (stsd_dec_entry _ _ _ _ _ _ _ (fun x => (None, Some x, None, None, None)) h ver fl fuel m d l p post
             (cont_of_leaf _ _ _ _ _ _ hev1_roundtrip)); stsd_side stsd_bt_hev1.
  - apply (stsd_dec_entry _ _ _ _ _ _ _ (fun x => (None, None, Some x, None, None)) p9 ver fl fuel m d l p post
             (cont_of_leaf _ _ _ _ _ _ vp09_roundtrip)); stsd_side stsd_bt_vp09.
  - apply (stsd_dec_entry _ _ _ _ _ _ _ (fun x => (None, None, None, Some x, None)) a4 ver fl fuel m d l p post
             (mp4a_fuel_roundtrip Dbg)); stsd_side stsd_bt_mp4a.
  - apply (stsd_dec_entry _ _ _ _ _ _ _ (fun x => (None, None, None, None, Some x)) t ver fl fuel m d l p post
             (cont_of_leaf _ _ _ _ _ _ tx3g_roundtrip)); stsd_side stsd_bt_tx3g.
  - change (16 + 0) with 16 in *. apply stsd_dec_empty; assumption.
Qed.

Theorem stsd_roundtrip me :
  cont_roundtrip stsd_rt_wf stsd_size 0x73747364 (enc_stsd me) dec_stsd_fuel iso_stsd_payload (fun _ => 1%nat).
Proof.
  apply cont_roundtrip_intro.
  - apply stsd_enc.
  - apply stsd_payload_len.
  - intros; now apply stsd_dec.
Qed.

(** an [StsdBox] holding two sample entries is written with [entry_count = 1] and only the first
    entry (stsd.rs [write_box]/[get_size] are [if let .. else if let ..] chains): it does not
    come back *)
Lemma stsd_two_entries_lost :
  let v := mkStsd 0 0 (Some avc1_default) None None (Some mp4a_default) None in
  stsd_wf v = true /\
  fst (run (dec_stsd_fuel 5 Dbg (stsd_size v)) (stream_at (wout (enc_stsd Dbg v)) 8))
  = Ok (mkStsd 0 0 (Some avc1_default) None None None None).
Proof. vm_compute. split; reflexivity. Qed.

Print Assumptions avc1_fuel_roundtrip.
Print Assumptions mp4a_fuel_roundtrip.
Print Assumptions stsd_roundtrip.
