(** * C07/C08, composition (2): traf, moof, ilst, edts *)
From MP4 Require Import Cost CostLeaf CostLoop CostCont CostTree.
From MP4 Require Import BoxTraf BoxMoof BoxIlst BoxEdts BoxElst.
From Coq Require Import ZArith ZifyN ZifyNat ZifyBool Lia.
Open Scope N_scope.

Section Tree2.
  Variable d : bytes.
  Hypothesis Hd : bytes_ok d = true.
  Hypothesis Hlen : lenN d < 2 ^ 62.

  Lemma traf_ok m : fok d 1 (fun f s => dec_traf_fuel f m s).
  Proof.
    eapply (std_ok d Hd Hlen 0) with (m := m) (dispatch := traf_dispatch m).
    - intros f size. unfold dec_traf_fuel. reflexivity.
    - intros f name s [[fh fd] ru] p size H8 Hp Hs1 Hs2 Hsz Hf.
      destruct name; cbn [traf_dispatch];
        first [disp_child (tfhd_ok d Hd Hlen m) | disp_child (tfdt_ok d Hd Hlen m)
              | disp_child (trun_ok d Hd Hlen m) | disp_skip].
    - intros start size [[fh fd] ru]. tail_bnd.
    - intros start size [[fh fd] ru] q Hov. tail_sat.
  Qed.

  Lemma moof_ok m : fok d 2 (fun f s => dec_moof_fuel f m s).
  Proof.
    eapply (std_ok d Hd Hlen 1) with (m := m) (dispatch := moof_dispatch m).
    - intros f size. unfold dec_moof_fuel. reflexivity.
    - intros f name s [mh tr] p size H8 Hp Hs1 Hs2 Hsz Hf.
      destruct name; cbn [moof_dispatch];
        first [disp_child (mfhd_ok d Hd Hlen m) | disp_child (traf_ok m) | disp_skip].
    - intros start size [mh tr]. tail_bnd.
    - intros start size [mh tr] q Hov. tail_sat.
  Qed.

  Lemma ilst_item_ok m : fok d 1 (fun f s => dec_ilst_item_fuel f m s).
  Proof.
    eapply (std_ok d Hd Hlen 0) with (m := m) (dispatch := ilst_item_dispatch m).
    - intros f size. unfold dec_ilst_item_fuel. reflexivity.
    - intros f name s acc p size H8 Hp Hs1 Hs2 Hsz Hf.
      destruct name; cbn [ilst_item_dispatch];
        first [disp_child (data_ok d Hd Hlen m) | disp_skip].
    - intros start size acc. tail_bnd.
    - intros start size acc q Hov. tail_sat.
  Qed.

  Lemma ilst_ok m : fok d 2 (fun f s => dec_ilst_fuel f m s).
  Proof.
    eapply (std_ok d Hd Hlen 1) with (m := m) (dispatch := ilst_dispatch m).
    - intros f size. unfold dec_ilst_fuel. reflexivity.
    - intros f name s acc p size H8 Hp Hs1 Hs2 Hsz Hf.
      destruct name; cbn [ilst_dispatch];
        first [disp_child (ilst_item_ok m) | disp_skip].
    - intros start size acc. tail_bnd.
    - intros start size acc q Hov. tail_sat.
  Qed.
End Tree2.
