(** * Layout invariance (property C12): the top level ([Mp4Reader::read_header])

    The reader's loop hands every dispatch step the position [current] of the child's header
    (it is recorded as the moof offset), so the pure update of a child depends on where the
    child is: [loop_gen_children] is [loop_children] with positions.  [open_fuel_children]:
    a file that is the rendering of a list of top-level children whose bodies decode to items
    opens to [open_result] of the fold of the positioned puts and the number of bytes read.
    [layout_invariance_open]: for files without moof boxes, two such renderings with
    equivalent item sequences open to readers that differ in [rd_size] only. *)
From MP4 Require Import LayoutKit LayoutProofs LayoutMore Reader RtFtyp IsoFtyp.
From Coq Require Import ZifyN ZifyNat ZifyBool.
Open Scope string_scope.
Open Scope list_scope.
Open Scope N_scope.

(** ** The loop with positions *)
Definition body_ok_at {Acc} (dispatch : nat -> N -> boxtype -> N -> Acc -> prog Acc) (F0 : nat)
           (c : child) (upd : N -> Acc -> Acc) : Prop :=
  forall f cur a d l q rest, (F0 <= f)%nat -> q + c_s c < 2 ^ 63 ->
    run (dispatch f cur (boxtype_of_u32 (c_code c)) (c_s c) a) (mkStream d l (q + 8) (c_payload c ++ rest))
    = (Ok (upd cur a), mkStream d l (q + c_s c) rest).

Fixpoint apply_at {Acc} (p : N) (cs : list child) (upds : list (N -> Acc -> Acc)) (a : Acc) : Acc :=
  match cs, upds with
  | c :: cs', u :: upds' => apply_at (p + c_len c) cs' upds' (u p a)
  | _, _ => a
  end.

Theorem loop_gen_children {Acc R} m csz (dispatch : nat -> N -> boxtype -> N -> Acc -> prog Acc)
        (fin : Acc -> N -> R) F0 :
  forall (cs : list child) (upds : list (N -> Acc -> Acc)),
  Forall2 (body_ok_at dispatch F0) cs upds ->
  Forall child_wf cs ->
  Forall (fun c => guard_ok csz (c_s c)) cs ->
  forall fuel acc d l p rest,
  (F0 + length cs <= fuel)%nat ->
  p + total_len cs < 2 ^ 63 ->
  run (children_loop_gen fuel m csz true (p + total_len cs) dispatch fin acc p)
      (mkStream d l p (render cs ++ rest))
  = (Ok (fin (apply_at p cs upds acc) (p + total_len cs)), mkStream d l (p + total_len cs) rest).
Proof.
  intros cs upds H2. induction H2 as [|c u cs upds Hc H2 IH]; intros Hwf Hsz fuel acc d l p rest Hf Hp.
  - unfold total_len. cbn [map sumN fold_right render flat_map app apply_at].
    rewrite N.add_0_r. rewrite children_loop_gen_done by (clear; lia). reflexivity.
  - inversion Hwf as [|? ? Hw1 Hw2]; subst. inversion Hsz as [|? ? Hs1 Hs2]; subst.
    destruct fuel as [|fuel]; [exfalso; cbn [length] in Hf; clear -Hf; lia|].
    assert (Hlen : total_len (c :: cs) = c_len c + total_len cs) by reflexivity.
    assert (Hpos : 0 < c_len c) by (unfold c_len, c_hlen; destruct (c_w64 c); clear; lia).
    unfold render. cbn [flat_map apply_at]. rewrite <- app_assoc.
    rewrite (loop_gen_step fuel m csz true _ _ _ acc (u p acc) c).
    + fold (render cs). rewrite Hlen.
      replace (p + (c_len c + total_len cs)) with (p + c_len c + total_len cs) by (clear; lia).
      apply (IH Hw2 Hs2 fuel (u p acc) d l (p + c_len c) rest).
      * cbn [length] in Hf. clear -Hf. lia.
      * rewrite Hlen in Hp. clear -Hp. lia.
    + exact Hw1.
    + rewrite Hlen. clear -Hpos. lia.
    + exact Hs1.
    + rewrite Hlen in Hp. cbn [length] in Hf.
      unfold c_len, c_hlen, c_s in *. destruct (c_w64 c).
      * replace (p + 16) with (p + 8 + 8) by (clear; lia).
        rewrite Hc by (first [ clear -Hf; lia | unfold c_s; clear -Hp; lia ]).
        unfold c_s; stream_eq.
      * rewrite Hc by (first [ clear -Hf; lia | unfold c_s; clear -Hp; lia ]).
        unfold c_s; stream_eq.
Qed.

Lemma c_s_le_total_len c cs : In c cs -> c_s c <= total_len cs.
Proof.
  induction cs as [|x t IH]; intros H; [destruct H|].
  change (total_len (x :: t)) with (c_len x + total_len t). destruct H as [->|H].
  - unfold c_s, c_len, c_hlen. destruct (c_w64 c); lia.
  - specialize (IH H). lia.
Qed.

(** ** The reader's items *)
Inductive open_item :=
| OI_ftyp (x : ftyp) | OI_moov (x : moov) | OI_moof (x : moof) | OI_emsg (x : emsg) | OI_skip.

Definition open_body (m : mode) (fuel : nat) (name : boxtype) (s : N) : prog open_item :=
  match name with
  | FtypBox => x <- dec_ftyp m s ;; Ret (OI_ftyp x)
  | MoovBox => x <- dec_moov_fuel fuel m s ;; Ret (OI_moov x)
  | MoofBox => x <- dec_moof_fuel fuel m s ;; Ret (OI_moof x)
  | EmsgBox => x <- dec_emsg m s ;; Ret (OI_emsg x)
  | _ => skip_box m s ;;; Ret OI_skip
  end.

(** [cur] is the position of the child's header: the moof offset *)
Definition open_put (cur : N) (it : open_item) (a : open_acc) : open_acc :=
  let '(ft, mv, moofs, offs, emsgs) := a in
  match it with
  | OI_ftyp x => (Some x, mv, moofs, offs, emsgs)
  | OI_moov x => (ft, Some x, moofs, offs, emsgs)
  | OI_moof x => (ft, mv, moofs ++ [x], offs ++ [cur], emsgs)
  | OI_emsg x => (ft, mv, moofs, offs, emsgs ++ [x])
  | OI_skip => (ft, mv, moofs, offs, emsgs)
  end.

Lemma open_shape m f cur name s a st :
  run (open_dispatch m f cur name s a) st = run (it <- open_body m f name s ;; Ret (open_put cur it a)) st.
Proof.
  destruct a as [[[[ft mv] moofs] offs] emsgs].
  destruct name; cbn [open_dispatch open_body]; rewrite bind_bind; reflexivity.
Qed.

Lemma open_body_ok_at m F0 c it :
  decodes_to (open_body m) F0 c it -> body_ok_at (open_dispatch m) F0 c (fun cur => open_put cur it).
Proof.
  intros H f cur a d l q rest Hf Hq. rewrite open_shape, run_bind, (H f d l q rest Hf Hq). reflexivity.
Qed.

Fixpoint open_put_all (p : N) (cs : list child) (items : list open_item) (a : open_acc) : open_acc :=
  match cs, items with
  | c :: cs', it :: items' => open_put_all (p + c_len c) cs' items' (open_put p it a)
  | _, _ => a
  end.

Lemma apply_at_open_put p cs items a :
  apply_at p cs (map (fun it cur => open_put cur it) items) a = open_put_all p cs items a.
Proof.
  revert p items a. induction cs as [|c cs IH]; intros p [|it items] a; cbn [map apply_at open_put_all]; auto.
Qed.

(** what [read_header] makes of the accumulator once the loop is over; [sz = current - start] *)
Definition open_result (a : open_acc) (sz : N) : res mp4reader :=
  let '(ft, mv, moofs, offs, emsgs) := a in
  match ft, mv with
  | Some f, Some v =>
      if existsb (fun t => tkhd_track_id (trak_tkhd t) =? 0) (moov_traks v) then Err EData
      else
        res_bind (match moofs with
                  | [] => Ok (tracks_collect (moov_traks v))
                  | _ => attach_moofs (moov_default_sample_duration v) (combine moofs offs)
                                      (tracks_collect (moov_traks v))
                  end)
                 (fun tracks' => Ok (mkReader f v moofs emsgs tracks' sz))
  | _, _ => Err EData
  end.

Theorem open_fuel_children m fuel cs items F0 d l p rest :
  Forall2 (decodes_to (open_body m) F0) cs items -> Forall child_wf cs ->
  (F0 + length cs <= fuel)%nat -> p + total_len cs < 2 ^ 63 ->
  run (open_fuel fuel m (p + total_len cs)) (mkStream d l p (render cs ++ rest))
  = (open_result (open_put_all p cs items (None, None, [], [], [])) (total_len cs),
     mkStream d l (p + total_len cs) rest).
Proof.
  intros H2 Hwf Hf Hp. unfold open_fuel. cbn [bind get_pos run s_pos].
  rewrite run_bind. unfold children_loop_at.
  rewrite (loop_gen_children m (Some (p + total_len cs)) (open_dispatch m) pair F0 cs
             (map (fun it cur => open_put cur it) items)).
  - rewrite apply_at_open_put.
    destruct (open_put_all p cs items (None, None, [], [], [])) as [[[[ft mv] moofs] offs] emsgs].
    cbn [open_result]. destruct ft as [f|]; [|reflexivity]. destruct mv as [v|]; [|reflexivity].
    rewrite run_sub64_ok by (clear; lia).
    replace (p + total_len cs - p) with (total_len cs) by (clear; lia).
    destruct (existsb (fun t => tkhd_track_id (trak_tkhd t) =? 0) (moov_traks v)); [reflexivity|].
    rewrite run_bind.
    destruct moofs as [|mf moofs].
    + reflexivity.
    + rewrite run_lift.
      destruct (attach_moofs (moov_default_sample_duration v) (combine (mf :: moofs) offs)
                             (tracks_collect (moov_traks v))); reflexivity.
  - clear -H2. induction H2; cbn [map]; constructor; auto. now apply open_body_ok_at.
  - exact Hwf.
  - apply Forall_forall. intros c Hc. cbn [guard_ok]. pose proof (c_s_le_total_len c cs Hc). lia.
  - exact Hf.
  - exact Hp.
Qed.

(** ** Files without moof boxes: the puts do not depend on positions *)
Definition open_static (it : open_item) : Prop := match it with OI_moof _ => False | _ => True end.
Definition open_kind (it : open_item) : nat :=
  match it with OI_ftyp _ => 1 | OI_moov _ => 2 | OI_moof _ => 3 | OI_emsg _ => 4 | OI_skip => 0 end%nat.
Definition open_indep (i j : open_item) : Prop := open_kind i <> open_kind j.
Definition open_neutral (i : open_item) : Prop := i = OI_skip.

Lemma open_put_all_static p cs items a :
  length cs = length items -> Forall open_static items ->
  open_put_all p cs items a = put_all (open_put 0) items a.
Proof.
  revert p items a. induction cs as [|c cs IH]; intros p [|it items] a Hl Hs; try discriminate Hl; [reflexivity|].
  inversion Hs as [|? ? H1 H2]; subst. cbn [open_put_all]. rewrite put_all_cons.
  rewrite IH by (first [ cbn [length] in Hl; lia | exact H2 ]).
  f_equal. destruct a as [[[[ft mv] moofs] offs] emsgs]. destruct it; try reflexivity. destruct H1.
Qed.

Lemma open_put_comm i j a : open_indep i j -> open_put 0 i (open_put 0 j a) = open_put 0 j (open_put 0 i a).
Proof.
  unfold open_indep. destruct a as [[[[ft mv] moofs] offs] emsgs].
  destruct i, j; cbn [open_kind]; intros H; try reflexivity; now elim H.
Qed.
Lemma open_put_neutral i a : open_neutral i -> open_put 0 i a = a.
Proof. intros ->. destruct a as [[[[ft mv] moofs] offs] emsgs]. reflexivity. Qed.

Lemma Forall2_len {A B} (R : A -> B -> Prop) l l' : Forall2 R l l' -> length l = length l'.
Proof. induction 1; cbn [length]; auto. Qed.

(** the reader without its [size] field *)
Definition reader_modulo_size (r : res mp4reader) : res mp4reader :=
  res_map (fun x => mkReader (rd_ftyp x) (rd_moov x) (rd_moofs x) (rd_emsgs x) (rd_tracks x) 0) r.

Lemma open_result_modulo_size a n n' :
  reader_modulo_size (open_result a n) = reader_modulo_size (open_result a n').
Proof.
  destruct a as [[[[[f|] [v|]] moofs] offs] emsgs]; try reflexivity. cbn [open_result].
  destruct (existsb (fun t => tkhd_track_id (trak_tkhd t) =? 0) (moov_traks v)); [reflexivity|].
  destruct (match moofs with [] => _ | _ => _ end); reflexivity.
Qed.

Lemma open_result_size a n r : open_result a n = Ok r -> rd_size r = n.
Proof.
  destruct a as [[[[[f|] [v|]] moofs] offs] emsgs]; try discriminate. cbn [open_result].
  destruct (existsb (fun t => tkhd_track_id (trak_tkhd t) =? 0) (moov_traks v)); [discriminate|].
  destruct (match moofs with [] => _ | _ => _ end); try discriminate.
  cbn [res_bind]. intros H. inversion H. reflexivity.
Qed.

Theorem layout_invariance_open m F0 cs items cs' items' :
  Forall2 (decodes_to (open_body m) F0) cs items -> Forall child_wf cs ->
  Forall2 (decodes_to (open_body m) F0) cs' items' -> Forall child_wf cs' ->
  Forall open_static items -> Forall open_static items' ->
  items_equiv open_indep open_neutral items items' ->
  forall fuel fuel' d l p rest d' l' p' rest',
  (F0 + length cs <= fuel)%nat -> p + total_len cs < 2 ^ 63 ->
  (F0 + length cs' <= fuel')%nat -> p' + total_len cs' < 2 ^ 63 ->
  exists r r',
    run (open_fuel fuel m (p + total_len cs)) (mkStream d l p (render cs ++ rest))
    = (r, mkStream d l (p + total_len cs) rest) /\
    run (open_fuel fuel' m (p' + total_len cs')) (mkStream d' l' p' (render cs' ++ rest'))
    = (r', mkStream d' l' (p' + total_len cs') rest') /\
    reader_modulo_size r = reader_modulo_size r' /\
    (forall x, r = Ok x -> rd_size x = total_len cs) /\
    (forall x, r' = Ok x -> rd_size x = total_len cs').
Proof.
  intros H2 Hwf H2' Hwf' Hs Hs' Heq fuel fuel' d l p rest d' l' p' rest' Hf Hp Hf' Hp'.
  eexists. eexists. split; [|split; [|split; [|split]]].
  - now apply (open_fuel_children m fuel cs items F0).
  - now apply (open_fuel_children m fuel' cs' items' F0).
  - rewrite (open_put_all_static p cs items _ (Forall2_len _ _ _ H2) Hs),
            (open_put_all_static p' cs' items' _ (Forall2_len _ _ _ H2') Hs').
    rewrite (items_equiv_put_all (open_put 0) open_indep open_neutral open_put_comm open_put_neutral
               items items' Heq).
    apply open_result_modulo_size.
  - intros x. apply open_result_size.
  - intros x. apply open_result_size.
Qed.

(** ** Top-level children that decode *)
Lemma bt_ftyp : boxtype_of_u32 0x66747970 = FtypBox. Proof. vm_compute. reflexivity. Qed.
Lemma bt_moov : boxtype_of_u32 0x6d6f6f76 = MoovBox. Proof. vm_compute. reflexivity. Qed.
Lemma bt_mdat : boxtype_of_u32 0x6d646174 = MdatBox. Proof. vm_compute. reflexivity. Qed.

Lemma open_child_skip m c : open_known (boxtype_of_u32 (c_code c)) = false -> decodes_to (open_body m) 0 c OI_skip.
Proof.
  intros H f d l q rest _ Hq. destruct (boxtype_of_u32 (c_code c)); try discriminate H; cbn [open_body];
    rewrite (run_skip_box_bind m (c_s c)) by (first [reflexivity | exact Hq]); reflexivity.
Qed.

(** the media data box, either header form, any payload *)
Lemma open_child_mdat m w64 payload : decodes_to (open_body m) 0 (mkChild w64 0x6d646174 payload) OI_skip.
Proof. apply open_child_skip. cbn [c_code]. rewrite bt_mdat. reflexivity. Qed.

Lemma open_child_ftyp m w64 v : ftyp_wf v = true -> ftyp_size v < U32 ->
  decodes_to (open_body m) 0 (mkChild w64 0x66747970 (iso_ftyp_payload v)) (OI_ftyp v).
Proof.
  intros Hw Hs. apply (decodes_to_leaf (open_body m) dec_ftyp m OI_ftyp FtypBox); [exact bt_ftyp | reflexivity |].
  exact (leaf_child_decodes0 _ _ _ _ _ _ ftyp_roundtrip v Hw Hs).
Qed.

Lemma open_child_moov m w64 cs items F0 v :
  Forall2 (decodes_to (moov_body m) F0) cs items -> Forall child_wf cs ->
  moov_finish (put_all moov_put items (None, None, None, None, [])) = Some v ->
  decodes_to (open_body m) (F0 + length cs) (mkChild w64 0x6d6f6f76 (render cs)) (OI_moov v).
Proof.
  intros H2 Hwf Hfin.
  apply (decodes_to_nested (open_body m) dec_moov_fuel m OI_moov MoovBox _ cs); [exact bt_moov | reflexivity | reflexivity |].
  intros fuel d l p rest Hf Hp. rewrite (dec_moov_children m fuel cs items F0) by assumption.
  now rewrite Hfin.
Qed.

Lemma open_child_moof m w64 cs items F0 v :
  Forall2 (decodes_to (moof_body m) F0) cs items -> Forall child_wf cs ->
  moof_finish (put_all moof_put items (None, [])) = Some v ->
  decodes_to (open_body m) (F0 + length cs) (mkChild w64 0x6d6f6f66 (render cs)) (OI_moof v).
Proof.
  intros H2 Hwf Hfin.
  apply (decodes_to_nested (open_body m) dec_moof_fuel m OI_moof MoofBox _ cs); [exact bt_moof | reflexivity | reflexivity |].
  intros fuel d l p rest Hf Hp. rewrite (dec_moof_children m fuel cs items F0) by assumption.
  now rewrite Hfin.
Qed.

(** ** Fragmented files: the recorded moof offsets are the positions of the moof boxes, so a
    box inserted before a moof moves its recorded offset by exactly the length of the box *)
Lemma open_put_all_app p l1 l2 i1 i2 a :
  length l1 = length i1 ->
  open_put_all p (l1 ++ l2) (i1 ++ i2) a
  = open_put_all (p + total_len l1) l2 i2 (open_put_all p l1 i1 a).
Proof.
  revert p i1 a. induction l1 as [|c l1 IH]; intros p [|i i1] a Hl; try discriminate Hl.
  - cbn [app open_put_all]. change (total_len []) with 0. now rewrite N.add_0_r.
  - cbn [app open_put_all]. rewrite IH by (cbn [length] in Hl; lia).
    change (total_len (c :: l1)) with (c_len c + total_len l1). now rewrite N.add_assoc.
Qed.

Lemma open_put_all_skip p c cs items a :
  open_put_all p (c :: cs) (OI_skip :: items) a = open_put_all (p + c_len c) cs items a.
Proof. destruct a as [[[[ft mv] moofs] offs] emsgs]. reflexivity. Qed.

Lemma open_put_all_moof p c cs items x ft mv moofs offs emsgs :
  open_put_all p (c :: cs) (OI_moof x :: items) (ft, mv, moofs, offs, emsgs)
  = open_put_all (p + c_len c) cs items (ft, mv, moofs ++ [x], offs ++ [p], emsgs).
Proof. reflexivity. Qed.
