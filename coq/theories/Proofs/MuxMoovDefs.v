(** * Shared vocabulary of the end-to-end theorem "the reader opens what the muxer wrote"
    (definitions only; proofs in MuxMoovConf.v, MuxMoovTables.v, MuxOpen.v).

    [WriterMoov.v] builds the [moov] the muxer encodes ([moov_of_mfinal]).  Its stsc entries carry
    the writer's own in-memory [first_sample] values, which are never serialised (and are wrong for
    a run created by the final flush, [C01_writer_first_sample_refuted]).  The reader's stsc decoder
    re-derives them ([derive_first_samples], the model of the second pass of [StscBox::read_box]).
    [tfinal_rd] is a finished track with the re-derived values: the encoder writes the same bytes for
    it ([MuxMoovTables.v]) and the decoder returns exactly it ([MuxOpen.v]). *)
From MP4 Require Export WriterMoov Reader SampleTable.
Open Scope string_scope.
Open Scope list_scope.
Open Scope N_scope.

Definition tables_with_stsc (tb : tables) (es : list stsc_entry) : tables :=
  mkTables es (t_stsz_size tb) (t_stsz_count tb) (t_stsz_sizes tb) (t_stco tb) (t_co64 tb)
           (t_stts tb) (t_ctts tb) (t_stss tb).

Definition tfinal_with_stsc (tf : tfinal) (es : list stsc_entry) : tfinal :=
  mkTf (tf_conf tf) (tf_track_id tf) (tables_with_stsc (tf_tables tf) es) (tf_hdr tf) (tf_max_sample_size tf).

(** the finished track as the reader will see it *)
Definition tfinal_rd (tf : tfinal) : option tfinal :=
  option_map (tfinal_with_stsc tf) (derive_first_samples (t_stsc (tf_tables tf)) 1).

Fixpoint tfinals_rd (tfs : list tfinal) : option (list tfinal) :=
  match tfs with
  | [] => Some []
  | tf :: rest =>
      match tfinal_rd tf, tfinals_rd rest with
      | Some tf', Some rest' => Some (tf' :: rest')
      | _, _ => None
      end
  end.

Definition mfinal_with_tracks (f : mfinal) (ts : list tfinal) : mfinal :=
  mkMf (mf_base f) (mf_out f) (mf_mdat_pos f) (mf_mdat_size f) ts
       (mf_mvhd_timescale f) (mf_mvhd_duration f) (mf_mvhd_version f).

Definition mfinal_rd (f : mfinal) : option mfinal :=
  option_map (mfinal_with_tracks f) (tfinals_rd (mf_tracks f)).

(** the sample tables of a [tfinal], seen through the [stbl] the muxer builds from them and the
    view the reader's lookups take of a parsed [stbl] *)
Definition strip_first_sample (e : stsc_entry) : N * N * N :=
  (sc_first_chunk e, sc_samples_per_chunk e, sc_sample_description_index e).

(** ** Representable configurations: what the wire format can carry (C04's hypothesis, for the
    values the muxer builds from a configuration) *)

(** [TrackConfig.language]: three bytes in 0x60..0x7f pack into the 15-bit ISO-639-2/T code and
    unpack to themselves *)
Definition lang_rep (s : bytes) : bool :=
  match s with
  | [a; b; c] => in_range 96 127 a && in_range 96 127 b && in_range 96 127 c
  | _ => false
  end.

Definition mp4_conf_rep (c : mp4_conf) : bool :=
  ufit 4 (mc_major_brand c) && ufit 4 (mc_minor_version c) && forallb (ufit 4) (mc_compatible_brands c)
  && ufit 4 (mc_timescale c)
  && (16 + 4 * lenN (mc_compatible_brands c) <? U32).
