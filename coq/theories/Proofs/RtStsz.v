(** Round trip of [StszBox] *)
From MP4 Require Import TblKit BoxStsz IsoStsz.
From Coq Require Import ZifyN ZifyNat ZifyBool.
Open Scope string_scope.
Open Scope list_scope.
Open Scope N_scope.

Lemma stsz_code : u32_of_boxtype (box_type_of "StszBox") = 0x7374737a.
Proof. vm_compute. reflexivity. Qed.

Lemma stsz_size_eq v : stsz_size v = 8 + 4 + 8 + 4 * lenN (stsz_sample_sizes v).
Proof. reflexivity. Qed.

Lemma stsz_wr_entry_ok x : wfin (wr_u32 x) = Ok tt /\ wout (wr_u32 x) = be 4 x.
Proof. split; [reflexivity|]. cbn [wr_u32 wr_u wr wout]. apply app_nil_r. Qed.

Lemma stsz_enc v : stsz_wf v = true -> stsz_size v < U32 ->
  wfin (enc_stsz v) = Ok (stsz_size v) /\
  wout (enc_stsz v) = be 4 (stsz_size v) ++ be 4 0x7374737a ++ iso_stsz_payload v.
Proof.
  intros H Hs. unfold enc_stsz, iso_stsz_payload. unfold stsz_wf in H. split_andb.
  rewrite write_header_small by exact Hs. rewrite stsz_code.
  rewrite write_header_ext_small by assumption.
  destruct (N.eqb_spec (stsz_sample_size v) 0) as [E0|E0]; cbv iota in *.
  - split_andb.
    match goal with H : (_ =? _) = true |- _ => pose proof H as Eb; apply N.eqb_eq in H; rename H into Ec end.
    rewrite cast_u32_small by (rewrite <- Ec; assumption).
    rewrite Eb. cbn [negb].
    set (W := tbl_wr_each wr_u32 (stsz_sample_sizes v)).
    enc_norm. subst W.
    rewrite (tbl_wfin_each_bind _ (be 4)), (tbl_wout_each_bind _ (be 4))
      by (first [intros; exact I | intros; apply stsz_wr_entry_ok]).
    cbn [wfin wout]. split; [reflexivity|]. rewrite app_nil_r. reflexivity.
  - enc_norm. split; reflexivity.
Qed.

Lemma stsz_rd_entry_ok {B} es d l x (k' : N -> prog B) p' rest' :
  forallb (ufit 4) es = true -> In x es ->
  run (bind rd_u32 k') (mkStream d l p' (be 4 x ++ rest')) = run (k' x) (mkStream d l (p' + 4) rest').
Proof.
  intros Hall Hin. rewrite forallb_forall in Hall. apply Hall in Hin. split_andb.
  rd_step. reflexivity.
Qed.

Lemma stsz_dec m v d l p post : stsz_wf v = true -> p + stsz_size v < 2^63 ->
  run (dec_stsz m (stsz_size v)) (mkStream d l (p + 8) (iso_stsz_payload v ++ post))
  = (Ok v, mkStream d l (p + stsz_size v) post).
Proof.
  intros H Hp. unfold dec_stsz, iso_stsz_payload. unfold stsz_wf in H. split_andb.
  pose proof (stsz_size_eq v) as Hsz.
  rewrite <- !app_assoc.
  prog_norm. cbn [run s_pos].
  rewrite run_sub64_ok by (clear; unfold HEADER_SIZE, Tables.HEADER_SIZE; lia).
  do 4 rd_step.
  destruct (N.eqb_spec (stsz_sample_size v) 0) as [E0|E0]; cbv iota in *.
  - split_andb.
    match goal with H : (_ =? _) = true |- _ => apply N.eqb_eq in H; rename H into Ec end.
    rewrite div_w_ok by (clear; lia). prog_norm.
    rewrite Ec at 1.
    rewrite tbl_guard_false by (first [ clear; lia | rewrite Hsz; reflexivity ]).
    prog_norm. rewrite run_Alloc. rewrite Ec at 1.
    rewrite (run_rd_n_lenN_bind _ (be 4) 4) by (intros; now apply (stsz_rd_entry_ok (stsz_sample_sizes v))).
    rewrite run_add64_ok by (clear -Hsz Hp; unfold HEADER_SIZE, Tables.HEADER_SIZE, U64; lia).
    prog_norm.
    rewrite run_SeekTo_here by (clear -Hsz; unfold HEADER_SIZE, Tables.HEADER_SIZE; lia).
    cbn [run]. f_equal.
    + destruct v; reflexivity.
    + f_equal. clear -Hsz. lia.
  - destruct (stsz_sample_sizes v) as [|? ?] eqn:Es; [|discriminate].
    change (lenN (@nil N)) with 0 in Hsz.
    prog_norm. cbn [app].
    rewrite run_add64_ok by (clear -Hsz Hp; unfold HEADER_SIZE, Tables.HEADER_SIZE, U64; lia).
    prog_norm.
    rewrite run_SeekTo_here by (clear -Hsz; unfold HEADER_SIZE, Tables.HEADER_SIZE; lia).
    cbn [run]. f_equal.
    + rewrite <- Es. destruct v; reflexivity.
    + f_equal. clear -Hsz. lia.
Qed.

Lemma stsz_payload_len v : stsz_wf v = true -> lenN (iso_stsz_payload v) + 8 = stsz_size v.
Proof.
  intros H. unfold stsz_wf in H. split_andb.
  rewrite stsz_size_eq. unfold iso_stsz_payload.
  destruct (stsz_sample_size v =? 0).
  - rewrite !lenN_app, !lenN_be, (lenN_flat_map_const (be 4) 4) by (intros; apply lenN_be). lia.
  - destruct (stsz_sample_sizes v); [|discriminate].
    rewrite !lenN_app, !lenN_be. reflexivity.
Qed.

Lemma stsz_appender v : stsz_wf v = true -> stsz_size v < U32 -> appender (enc_stsz v).
Proof.
  intros H Hs. unfold enc_stsz. rewrite write_header_small by exact Hs.
  unfold stsz_wf in H. split_andb.
  rewrite write_header_ext_small by assumption.
  cbn [wbind appender wr wr_u32 wr_u].
  apply appender_bind; [|intros; exact I].
  destruct (stsz_sample_size v =? 0); [|exact I].
  destruct (negb _); [exact I|]. apply tbl_wr_each_appender. intros; exact I.
Qed.

Theorem stsz_roundtrip : leaf_roundtrip stsz_wf stsz_size 0x7374737a enc_stsz dec_stsz iso_stsz_payload.
Proof.
  intros v H Hs. destruct (stsz_enc v H Hs) as [H1 H2].
  split; [exact H1|]. split; [now apply stsz_appender|]. split; [exact H2|].
  split; [now apply stsz_payload_len|].
  intros m d l p post Hp. now apply stsz_dec.
Qed.

Print Assumptions stsz_roundtrip.
