(** * Fragmented files from BYTES: what [open_fuel] returns, and the C09 lookups on the reader it returns

    A fragmented file (one stream) is the rendering of the top-level boxes
      ftyp, moov, (moof, mdat)*
    for a well-formed [moov] value [v] and well-formed [moof] values, rendered by the ISO layouts
    ([iso_ftyp_payload], [iso_moov_payload], [iso_moof_payload]), every box with either header form.

    Part 1 ([ff_open], [ff_tracks]): [open_fuel] on those bytes (position 0, true length, enough fuel)
    returns a reader [r] with [rd_moov r = v], [rd_moofs r] the moof values in file order, and the
    lookup view of every track holds as its fragments exactly [traf_fragrun traf off] for the trafs
    naming the track, in file order, [off] being the byte position of the enclosing moof box.
    A traf naming a track that [v] does not have makes [open_fuel] fail ([ff_open_unknown_track]).

    Part 2 ([ff_lookup]): composition with [frag_lookup_sound] / [frag_read_sample_sound] (C09). *)
From MP4 Require Import Reader Fragment FragProofs MuxOpenKit LayoutOpenS.
From MP4 Require Import LayoutKit LayoutProofs LayoutMore LayoutOpen KitCont RtMoov RtMoof RtFtyp IsoFtyp IsoMoov IsoMoof IsoFile.
From Coq Require Import Lia ZifyN ZifyNat ZifyBool.
Open Scope string_scope.
Open Scope list_scope.
Open Scope N_scope.

(** ** The track map: [attach_trafs] / [attach_moofs] as folds *)

Definition traf_tid (tf : traf) : N := tfhd_track_id (traf_tfhd tf).

(** what [attach_trafs] does to the track it finds *)
Definition mt_attach (dsd : N) (tf : traf) (off : N) (t : mp4track) : mp4track :=
  mkMp4Track (mt_trak t) (mt_trafs t ++ [tf]) (mt_moof_offsets t ++ [off]) dsd.

Definition attach1 (dsd : N) (tracks : list (N * mp4track)) (p : traf * N) : list (N * mp4track) :=
  tracks_update (traf_tid (fst p)) (mt_attach dsd (fst p) (snd p)) tracks.

(** every traf of every moof with the offset of its moof, in file order *)
Definition flat_trafs (mps : list (moof * N)) : list (traf * N) :=
  flat_map (fun mp => map (fun tf => (tf, snd mp)) (moof_trafs (fst mp))) mps.

Lemma tracks_update_keys k f l : map fst (tracks_update k f l) = map fst l.
Proof.
  unfold tracks_update. rewrite map_map. apply map_ext. intros [k' v]. cbn [fst snd].
  destruct (k' =? k); reflexivity.
Qed.

Lemma tracks_get_in k l : In k (map fst l) -> exists v, tracks_get k l = Some v.
Proof.
  induction l as [|[k' v'] l IH]; intros H; [destruct H|]. cbn [tracks_get].
  destruct (tracks_get k l) as [v|] eqn:E; [eauto|].
  cbn [map fst] in H. destruct H as [->|H].
  - rewrite N.eqb_refl. eauto.
  - destruct (IH H) as (v & Hv). discriminate.
Qed.

Lemma tracks_get_notin k l : ~ In k (map fst l) -> tracks_get k l = None.
Proof.
  induction l as [|[k' v'] l IH]; intros H; [reflexivity|]. cbn [tracks_get].
  rewrite IH by (intros H'; apply H; right; exact H').
  destruct (N.eqb_spec k' k) as [E|E]; [|reflexivity]. exfalso. apply H. left. exact E.
Qed.

Lemma tracks_get_update k k' f l :
  tracks_get k (tracks_update k' f l) = if k =? k' then option_map f (tracks_get k l) else tracks_get k l.
Proof.
  induction l as [|[k2 v2] l IH]; cbn [tracks_update map tracks_get fst snd].
  - destruct (k =? k'); reflexivity.
  - fold (tracks_update k' f l).
    assert (Hs : forall (b : bool) (x y : mp4track),
              (let (k3, v3) := if b then (k2, x) else (k2, y) in
               match tracks_get k (tracks_update k' f l) with Some v' => Some v' | None => if k3 =? k then Some v3 else None end)
              = match tracks_get k (tracks_update k' f l) with Some v' => Some v'
                | None => if k2 =? k then Some (if b then x else y) else None end)
      by (intros [|] x y; reflexivity).
    rewrite Hs, IH. clear Hs.
    destruct (N.eqb_spec k k') as [E|E].
    + subst k'. destruct (tracks_get k l) as [v|]; cbn [option_map]; [reflexivity|].
      destruct (N.eqb_spec k2 k) as [E2|E2]; reflexivity.
    + destruct (tracks_get k l) as [v|]; [reflexivity|].
      destruct (N.eqb_spec k2 k) as [E3|E3]; [|reflexivity].
      destruct (N.eqb_spec k2 k') as [E2|E2]; [exfalso; apply E; congruence|reflexivity].
Qed.

Lemma attach_trafs_fold dsd off : forall trafs tracks,
  (forall tf, In tf trafs -> In (traf_tid tf) (map fst tracks)) ->
  attach_trafs dsd off trafs tracks
  = Ok (fold_left (attach1 dsd) (map (fun tf => (tf, off)) trafs) tracks).
Proof.
  induction trafs as [|tf trafs IH]; intros tracks H; cbn [attach_trafs map fold_left]; [reflexivity|].
  destruct (tracks_get_in (tfhd_track_id (traf_tfhd tf)) tracks (H tf (or_introl eq_refl))) as (v & Hv).
  rewrite Hv. rewrite IH; [reflexivity|].
  intros tf' Hin. rewrite tracks_update_keys. apply H. now right.
Qed.

Lemma attach1_fold_keys dsd l : forall tracks, map fst (fold_left (attach1 dsd) l tracks) = map fst tracks.
Proof.
  induction l as [|p l IH]; intros tracks; cbn [fold_left]; [reflexivity|].
  rewrite IH. unfold attach1. apply tracks_update_keys.
Qed.

Lemma attach_moofs_fold dsd : forall mps tracks,
  (forall p, In p (flat_trafs mps) -> In (traf_tid (fst p)) (map fst tracks)) ->
  attach_moofs dsd mps tracks = Ok (fold_left (attach1 dsd) (flat_trafs mps) tracks).
Proof.
  induction mps as [|[mf off] mps IH]; intros tracks H; cbn [attach_moofs]; [reflexivity|].
  unfold flat_trafs in *. cbn [flat_map fst snd] in *.
  rewrite attach_trafs_fold.
  - cbn [res_bind]. rewrite fold_left_app. apply IH. intros p Hp. rewrite attach1_fold_keys.
    apply H. apply in_or_app. now right.
  - intros tf Hin. apply (H (tf, off)). apply in_or_app. left.
    apply (in_map (fun tf => (tf, off))). exact Hin.
Qed.

(** a traf for a track that is not there: [TrakNotFound] *)
Lemma attach_trafs_unknown dsd off : forall trafs tracks,
  (exists tf, In tf trafs /\ ~ In (traf_tid tf) (map fst tracks)) ->
  attach_trafs dsd off trafs tracks = Err EData.
Proof.
  induction trafs as [|tf trafs IH]; intros tracks (tf0 & Hin & Hn); [destruct Hin|]. cbn [attach_trafs].
  destruct (tracks_get (tfhd_track_id (traf_tfhd tf)) tracks) as [v|] eqn:E; [|reflexivity].
  apply IH. destruct Hin as [->|Hin].
  - exfalso. unfold traf_tid in Hn. rewrite (tracks_get_notin _ _ Hn) in E. discriminate.
  - exists tf0. split; [exact Hin|]. rewrite tracks_update_keys. exact Hn.
Qed.

Lemma attach_trafs_keys dsd off : forall trafs tracks tracks',
  attach_trafs dsd off trafs tracks = Ok tracks' -> map fst tracks' = map fst tracks.
Proof.
  induction trafs as [|tf trafs IH]; intros tracks tracks' H; cbn [attach_trafs] in H.
  - injection H as <-. reflexivity.
  - destruct (tracks_get (tfhd_track_id (traf_tfhd tf)) tracks); [|discriminate].
    rewrite (IH _ _ H). apply tracks_update_keys.
Qed.

Lemma attach_trafs_res dsd off : forall trafs tracks,
  (exists x, attach_trafs dsd off trafs tracks = Ok x) \/ attach_trafs dsd off trafs tracks = Err EData.
Proof.
  induction trafs as [|tf l IH]; intros tracks; cbn [attach_trafs]; [left; eauto|].
  destruct (tracks_get (tfhd_track_id (traf_tfhd tf)) tracks); [apply IH|right; reflexivity].
Qed.

Lemma attach_moofs_unknown dsd : forall mps tracks,
  (exists p, In p (flat_trafs mps) /\ ~ In (traf_tid (fst p)) (map fst tracks)) ->
  attach_moofs dsd mps tracks = Err EData.
Proof.
  induction mps as [|[mf off] mps IH]; intros tracks (p & Hin & Hn); [destruct Hin|]. cbn [attach_moofs].
  unfold flat_trafs in Hin. cbn [flat_map fst snd] in Hin. apply in_app_or in Hin.
  destruct (attach_trafs_res dsd off (moof_trafs mf) tracks) as [(tracks' & E)|E]; rewrite E; [|reflexivity].
  cbn [res_bind]. apply IH. exists p. destruct Hin as [Hin|Hin].
  - exfalso. apply in_map_iff in Hin as (tf & <- & Hin). cbn [fst] in Hn.
    rewrite (attach_trafs_unknown dsd off (moof_trafs mf) tracks) in E; [discriminate|]. eauto.
  - split; [exact Hin|]. rewrite (attach_trafs_keys _ _ _ _ _ E). exact Hn.
Qed.

(** the binding of one key after the fold *)
Definition mt_attach_all (dsd k : N) (l : list (traf * N)) (t : mp4track) : mp4track :=
  fold_left (fun t p => if k =? traf_tid (fst p) then mt_attach dsd (fst p) (snd p) t else t) l t.

Lemma tracks_get_attach_fold dsd k : forall l tracks,
  tracks_get k (fold_left (attach1 dsd) l tracks) = option_map (mt_attach_all dsd k l) (tracks_get k tracks).
Proof.
  induction l as [|p l IH]; intros tracks; cbn [fold_left].
  - unfold mt_attach_all. cbn [fold_left]. destruct (tracks_get k tracks); reflexivity.
  - rewrite IH. unfold attach1 at 1. rewrite tracks_get_update.
    unfold mt_attach_all. cbn [fold_left].
    destruct (k =? traf_tid (fst p)); destruct (tracks_get k tracks); reflexivity.
Qed.

(** the trafs naming track [k], with their moof offsets *)
Definition trafs_of_track (k : N) (l : list (traf * N)) : list (traf * N) :=
  filter (fun p => traf_tid (fst p) =? k) l.

Lemma mt_attach_all_eq dsd k : forall l tk trafs offs d,
  mt_attach_all dsd k l (mkMp4Track tk trafs offs d)
  = mkMp4Track tk (trafs ++ map fst (trafs_of_track k l)) (offs ++ map snd (trafs_of_track k l))
               (match trafs_of_track k l with [] => d | _ => dsd end).
Proof.
  induction l as [|p l IH]; intros tk trafs offs d; unfold mt_attach_all, trafs_of_track in *; cbn [fold_left filter].
  - cbn [map]. now rewrite !app_nil_r.
  - rewrite (N.eqb_sym (traf_tid (fst p)) k).
    destruct (k =? traf_tid (fst p)).
    + unfold mt_attach at 2. cbn [mt_trak mt_trafs mt_moof_offsets]. rewrite IH. cbn [map].
      rewrite <- !app_assoc. cbn [app].
      destruct (filter (fun p0 => traf_tid (fst p0) =? k) l); reflexivity.
    + apply IH.
Qed.

Lemma frag_views_pairs : forall l : list (traf * N),
  frag_views (map fst l) (map snd l) = map (fun p => traf_fragrun (fst p) (snd p)) l.
Proof.
  induction l as [|p l IH]; cbn [map frag_views hd tl]; [reflexivity|]. now rewrite IH.
Qed.

(** the fragments of track [k] as the lookups will see them: one [fragrun] per traf naming the track,
    in file order, each with the offset of its moof *)
Definition file_fragruns (k : N) (mps : list (moof * N)) : list Track.fragrun :=
  map (fun p => traf_fragrun (fst p) (snd p)) (trafs_of_track k (flat_trafs mps)).

(** the track map [read_header] builds for a moov with distinct track ids and moofs naming only those *)
Theorem attach_moofs_tracks dsd ts mps :
  NoDup (map trak_id ts) ->
  (forall p, In p (flat_trafs mps) -> In (traf_tid (fst p)) (map trak_id ts)) ->
  exists tracks',
    attach_moofs dsd mps (tracks_collect ts) = Ok tracks' /\
    map fst tracks' = map trak_id ts /\
    (forall k, ~ In k (map trak_id ts) -> tracks_get k tracks' = None) /\
    forall t, In t ts ->
      exists t', tracks_get (trak_id t) tracks' = Some t' /\ mt_trak t' = t /\
        track_view t' = Track.mkTrack (trak_id t) (stbl_tables (minf_stbl (mdia_minf (trak_mdia t))))
                                      (file_fragruns (trak_id t) mps)
                                      (match file_fragruns (trak_id t) mps with [] => 0 | _ => dsd end).
Proof.
  intros Hnd Hall. rewrite (tracks_collect_nodup ts Hnd).
  set (tr0 := map (fun t => (trak_id t, mp4track_from t)) ts).
  assert (Hk0 : map fst tr0 = map trak_id ts) by (unfold tr0; rewrite map_map; reflexivity).
  eexists. split; [apply attach_moofs_fold; intros p Hp; rewrite Hk0; now apply Hall|].
  split; [rewrite attach1_fold_keys; exact Hk0|]. split.
  - intros k Hk. apply tracks_get_notin. rewrite attach1_fold_keys, Hk0. exact Hk.
  - intros t Hin. apply In_nth_error in Hin as (i & Hi).
    rewrite tracks_get_attach_fold. unfold tr0. rewrite (tracks_get_map_nodup ts Hnd i t Hi).
    cbn [option_map]. eexists. split; [reflexivity|].
    unfold mp4track_from. rewrite mt_attach_all_eq. cbn [app mt_trak]. split; [reflexivity|].
    unfold track_view. cbn [mt_trak mt_trafs mt_moof_offsets mt_default_sample_duration].
    rewrite frag_views_pairs. unfold file_fragruns, trak_id.
    destruct (trafs_of_track (tkhd_track_id (trak_tkhd t)) (flat_trafs mps)); reflexivity.
Qed.

(** ** The file *)

(** one movie fragment followed by its media data; both header forms *)
Record fragment := mkFragment { fg_moof : moof; fg_moof_w64 : bool; fg_mdat_w64 : bool; fg_media : bytes }.

Definition MOOF : N := 0x6d6f6f66.

Definition fg_moof_child (g : fragment) : child := mkChild (fg_moof_w64 g) MOOF (iso_moof_payload (fg_moof g)).
Definition fg_mdat_child (g : fragment) : child := mkChild (fg_mdat_w64 g) MDAT (fg_media g).
Definition fg_children (g : fragment) : list child := [fg_moof_child g; fg_mdat_child g].
Definition fg_items (g : fragment) : list open_item := [OI_moof (fg_moof g); OI_skip].
Definition fg_len (g : fragment) : N := c_len (fg_moof_child g) + c_len (fg_mdat_child g).

Definition ff_ftyp_child (w : bool) (ft : ftyp) : child := mkChild w FTYP (iso_ftyp_payload ft).
Definition ff_moov_child (w : bool) (v : moov) : child := mkChild w MOOV (iso_moov_payload v).

(** the top-level boxes of the file *)
Definition ff_children (wf wv : bool) (ft : ftyp) (v : moov) (frags : list fragment) : list child :=
  ff_ftyp_child wf ft :: ff_moov_child wv v :: flat_map fg_children frags.
Definition ff_items (ft : ftyp) (v : moov) (frags : list fragment) : list open_item :=
  OI_ftyp ft :: OI_moov v :: flat_map fg_items frags.

Definition ff_bytes (wf wv : bool) (ft : ftyp) (v : moov) (frags : list fragment) : bytes :=
  render (ff_children wf wv ft v frags).

(** the position of the first byte of every moof box, the first fragment starting at [p] *)
Fixpoint frag_positions (p : N) (frags : list fragment) : list N :=
  match frags with
  | [] => []
  | g :: t => p :: frag_positions (p + fg_len g) t
  end.

(** where the first fragment starts *)
Definition ff_head_len (wf wv : bool) (ft : ftyp) (v : moov) : N :=
  c_len (ff_ftyp_child wf ft) + c_len (ff_moov_child wv v).

(** the moofs of the file with their positions *)
Definition ff_moofs (wf wv : bool) (ft : ftyp) (v : moov) (frags : list fragment) : list (moof * N) :=
  combine (map fg_moof frags) (frag_positions (ff_head_len wf wv ft v) frags).

Lemma ff_render_app a b : render (a ++ b) = render a ++ render b.
Proof. unfold render. apply flat_map_app. Qed.
Lemma ff_total_len_app a b : total_len (a ++ b) = total_len a + total_len b.
Proof. rewrite <- !lenN_render, ff_render_app, lenN_app. reflexivity. Qed.
Lemma ff_total_len_cons c l : total_len (c :: l) = c_len c + total_len l.
Proof. reflexivity. Qed.

(** the recorded positions are positions: the [i]-th moof box starts [frag_positions .. !! i] bytes into the file *)
Lemma frag_positions_nth : forall frags p i g, nth_error frags i = Some g ->
  nth_error (frag_positions p frags) i = Some (p + total_len (flat_map fg_children (firstn i frags))).
Proof.
  induction frags as [|g0 frags IH]; intros p [|i] g H; cbn [nth_error] in H; try discriminate.
  - cbn [frag_positions nth_error firstn flat_map]. change (total_len []) with 0. now rewrite N.add_0_r.
  - cbn [frag_positions nth_error firstn flat_map]. rewrite (IH _ i g H). f_equal.
    rewrite ff_total_len_app. change (fg_children g0) with [fg_moof_child g0; fg_mdat_child g0].
    rewrite !ff_total_len_cons. change (total_len []) with 0.
    unfold fg_len. clear. lia.
Qed.

Lemma frag_positions_length : forall frags p, length (frag_positions p frags) = length frags.
Proof. induction frags as [|g frags IH]; intros p; cbn [frag_positions length]; [reflexivity|]. now rewrite IH. Qed.

Theorem ff_moof_position wf wv ft v frags i g : nth_error frags i = Some g ->
  exists q pre post,
    nth_error (ff_moofs wf wv ft v frags) i = Some (fg_moof g, q) /\
    ff_bytes wf wv ft v frags = pre ++ c_bytes (fg_moof_child g) ++ post /\ lenN pre = q.
Proof.
  intros Hi.
  exists (ff_head_len wf wv ft v + total_len (flat_map fg_children (firstn i frags))).
  exists (render ([ff_ftyp_child wf ft; ff_moov_child wv v] ++ flat_map fg_children (firstn i frags))).
  exists (c_bytes (fg_mdat_child g) ++ render (flat_map fg_children (skipn (S i) frags))).
  split; [|split].
  - unfold ff_moofs.
    assert (Hc : forall (A B : Type) (l1 : list A) (l2 : list B) n a b, nth_error l1 n = Some a -> nth_error l2 n = Some b ->
                 nth_error (combine l1 l2) n = Some (a, b)).
    { induction l1 as [|x l1 IHl]; intros l2 [|n] a b H1 H2; destruct l2 as [|y l2]; cbn [nth_error combine] in *; try discriminate.
      - congruence. - now apply IHl. }
    apply Hc.
    + rewrite nth_error_map, Hi. reflexivity.
    + now apply (frag_positions_nth frags _ i g).
  - unfold ff_bytes, ff_children.
    rewrite <- (firstn_skipn i frags) at 1. rewrite flat_map_app.
    assert (Hs : skipn i frags = g :: skipn (S i) frags).
    { clear -Hi. revert i Hi. induction frags as [|g0 frags IH]; intros [|i] Hi; cbn [nth_error] in Hi; try discriminate.
      - injection Hi as ->. reflexivity.
      - cbn [skipn]. apply (IH i Hi). }
    rewrite Hs. cbn [flat_map]. unfold fg_children at 2. cbn [app].
    change (ff_ftyp_child wf ft :: ff_moov_child wv v :: flat_map fg_children (firstn i frags) ++ fg_moof_child g :: fg_mdat_child g :: flat_map fg_children (skipn (S i) frags))
      with (([ff_ftyp_child wf ft; ff_moov_child wv v] ++ flat_map fg_children (firstn i frags)) ++ [fg_moof_child g] ++ [fg_mdat_child g] ++ flat_map fg_children (skipn (S i) frags)).
    rewrite (ff_render_app ([ff_ftyp_child wf ft; ff_moov_child wv v] ++ flat_map fg_children (firstn i frags))).
    f_equal.
  - rewrite lenN_render, ff_total_len_app. f_equal. rewrite !ff_total_len_cons. change (total_len []) with 0.
    unfold ff_head_len. clear. lia.
Qed.

(** ** The accumulator of the top-level loop *)
Lemma open_put_all_frags : forall frags p ft mv moofs offs emsgs,
  open_put_all p (flat_map fg_children frags) (flat_map fg_items frags) (ft, mv, moofs, offs, emsgs)
  = (ft, mv, moofs ++ map fg_moof frags, offs ++ frag_positions p frags, emsgs).
Proof.
  induction frags as [|g frags IH]; intros p ft mv moofs offs emsgs.
  - cbn [flat_map open_put_all map frag_positions]. now rewrite !app_nil_r.
  - cbn [flat_map map frag_positions]. unfold fg_children at 1, fg_items at 1. cbn [app].
    rewrite open_put_all_moof, open_put_all_skip, IH, <- !app_assoc. cbn [app].
    unfold fg_len. rewrite N.add_assoc. reflexivity.
Qed.

Lemma ff_open_acc wf wv ft v frags :
  open_put_all 0 (ff_children wf wv ft v frags) (ff_items ft v frags) (None, None, [], [], [])
  = (Some ft, Some v, map fg_moof frags, frag_positions (ff_head_len wf wv ft v) frags, []).
Proof.
  unfold ff_children, ff_items. cbn [open_put_all open_put].
  rewrite open_put_all_frags. cbn [app]. rewrite N.add_0_l. reflexivity.
Qed.

(** ** The children decode *)
Lemma open_child_moof_rt m w64 v : moof_rt_wf v = true -> moof_size v < U32 ->
  decodes_to (open_body m) (moof_fuel v) (mkChild w64 MOOF (iso_moof_payload v)) (OI_moof v).
Proof.
  intros Hw Hs f d l q rest Hf Hq.
  destruct (moof_roundtrip Dbg v Hw Hs) as (_ & _ & _ & Hlen & Hdec).
  unfold c_s in *. cbn [c_code c_payload] in *. unfold MOOF. rewrite bt_moof. cbn [open_body]. rewrite run_bind.
  replace (8 + lenN (iso_moof_payload v)) with (moof_size v) in * by (clear -Hlen; lia).
  rewrite (Hdec f m d l q rest Hf Hq). reflexivity.
Qed.

Lemma child_wf_sized w code (pl : bytes) size : code < U32 -> lenN pl + 8 = size -> size < U32 -> child_wf (mkChild w code pl).
Proof.
  intros Hc Hl Hs. unfold child_wf. cbn [c_w64 c_code c_payload]. split; [exact Hc|].
  destruct w; unfold U32, U64 in *; lia.
Qed.

(** what the file has to satisfy box by box *)
Definition fragment_ok (g : fragment) : Prop :=
  moof_rt_wf (fg_moof g) = true /\ moof_size (fg_moof g) < U32 /\
  (fg_mdat_w64 g = false -> 8 + lenN (fg_media g) < U32).

Definition ff_fuel0 (v : moov) (frags : list fragment) : nat :=
  Nat.max (moov_fuel v) (list_max (map (fun g => moof_fuel (fg_moof g)) frags)).

(** fuel that is enough for [open_fuel] *)
Definition ff_fuel (v : moov) (frags : list fragment) : nat := (ff_fuel0 v frags + 2 + 2 * length frags)%nat.

Lemma list_max_in_le l n : In n l -> (n <= list_max l)%nat.
Proof.
  induction l as [|x l IH]; intros H; [destruct H|]. change (list_max (x :: l)) with (Nat.max x (list_max l)). destruct H as [->|H]; [lia|].
  specialize (IH H). lia.
Qed.

Lemma fg_children_wf : forall l, Forall fragment_ok l -> (forall g, In g l -> lenN (fg_media g) < 2 ^ 63) ->
  Forall child_wf (flat_map fg_children l).
Proof.
  intros l H. induction H as [|g l (Hw & Hs & Hm) _ IH]; intros Hl; cbn [flat_map]; [constructor|].
  change (fg_children g) with [fg_moof_child g; fg_mdat_child g]. cbn [app].
  destruct (moof_roundtrip Dbg (fg_moof g) Hw Hs) as (_ & _ & _ & Hplen & _).
  constructor; [|constructor].
  - apply (child_wf_sized _ MOOF _ (moof_size (fg_moof g))); [vm_compute; reflexivity | exact Hplen | exact Hs].
  - unfold child_wf, fg_mdat_child. cbn [c_w64 c_code c_payload]. split; [vm_compute; reflexivity|].
    specialize (Hl g (or_introl eq_refl)).
    destruct (fg_mdat_w64 g); [|now apply Hm]. unfold U64. change (2 ^ 63) with 9223372036854775808 in Hl.
    change (2 ^ 64) with 18446744073709551616. clear -Hl. lia.
  - apply IH. intros g' Hin. apply Hl. now right.
Qed.

Lemma fg_children_decode m F : forall l, Forall fragment_ok l ->
  (forall g, In g l -> (moof_fuel (fg_moof g) <= F)%nat) ->
  Forall2 (decodes_to_s (open_body m) F) (flat_map fg_children l) (flat_map fg_items l).
Proof.
  intros l H. induction H as [|g l (Hw & Hs & Hm) _ IH]; intros Hmx; cbn [flat_map]; [constructor|].
  change (fg_children g) with [fg_moof_child g; fg_mdat_child g].
  change (fg_items g) with [OI_moof (fg_moof g); OI_skip]. cbn [app]. constructor; [|constructor].
  - apply decodes_to_s_mono with (F0 := moof_fuel (fg_moof g)); [apply Hmx; now left|].
    apply decodes_to_s_of. unfold fg_moof_child. now apply open_child_moof_rt.
  - apply decodes_to_s_mono with (F0 := 0%nat); [lia|]. apply decodes_to_s_of. unfold fg_mdat_child, MDAT. apply open_child_mdat.
  - apply IH. intros g' Hin. apply Hmx. now right.
Qed.

Lemma fg_children_length : forall l, length (flat_map fg_children l) = (2 * length l)%nat.
Proof.
  induction l as [|g l IH]; cbn [flat_map length]; [reflexivity|].
  change (fg_children g) with [fg_moof_child g; fg_mdat_child g]. cbn [app length]. rewrite IH. lia.
Qed.

Section FragFile.
  Variables (m : mode) (wf wv : bool) (ft : ftyp) (v : moov) (frags : list fragment).
  Hypothesis Hftw : ftyp_wf ft = true.
  Hypothesis Hfts : ftyp_size ft < U32.
  Hypothesis Hvw : moov_rt_wf v = true.
  Hypothesis Hvs : moov_size v < U32.
  Hypothesis Hfr : Forall fragment_ok frags.

  Let b := ff_bytes wf wv ft v frags.
  Hypothesis Hlen : lenN b < 2 ^ 63.

  Let cs := ff_children wf wv ft v frags.

  Lemma ff_total : total_len cs = lenN b.
  Proof. unfold b, ff_bytes. symmetry. apply lenN_render. Qed.

  Lemma ff_children_wf : Forall child_wf cs.
  Proof.
    unfold cs, ff_children.
    destruct (moov_roundtrip Dbg v Hvw Hvs) as (_ & _ & _ & Hplen & _).
    destruct (ftyp_roundtrip ft Hftw Hfts) as (_ & _ & _ & Fplen & _).
    constructor; [|constructor].
    - apply (child_wf_sized wf FTYP _ (ftyp_size ft)); [vm_compute; reflexivity | exact Fplen | exact Hfts].
    - apply (child_wf_sized wv MOOV _ (moov_size v)); [vm_compute; reflexivity | exact Hplen | exact Hvs].
    - apply fg_children_wf; [exact Hfr|].
      intros g Hin. apply in_split in Hin as (l1 & l2 & E).
      assert (Hle : c_len (fg_mdat_child g) <= lenN b).
      { unfold b, ff_bytes. rewrite lenN_render. unfold ff_children. rewrite !ff_total_len_cons, E, flat_map_app, ff_total_len_app.
        cbn [flat_map]. change (fg_children g) with [fg_moof_child g; fg_mdat_child g]. cbn [app]. rewrite !ff_total_len_cons. clear. lia. }
      unfold c_len, fg_mdat_child in Hle. cbn [c_payload] in Hle. clear -Hle Hlen. lia.
  Qed.

  Lemma ff_children_decode :
    Forall2 (decodes_to_s (open_body m) (ff_fuel0 v frags)) cs (ff_items ft v frags).
  Proof.
    unfold cs, ff_children, ff_items. constructor; [|constructor].
    - apply decodes_to_s_mono with (F0 := 0%nat); [lia|]. apply decodes_to_s_of. unfold ff_ftyp_child, FTYP. now apply open_child_ftyp.
    - apply decodes_to_s_mono with (F0 := moov_fuel v); [unfold ff_fuel0; lia|].
      unfold ff_moov_child, MOOV. apply (open_child_moov_rt m wv Dbg); assumption.
    - apply fg_children_decode; [exact Hfr|].
      intros g Hin. unfold ff_fuel0.
      pose proof (list_max_in_le (map (fun g => moof_fuel (fg_moof g)) frags) _ (in_map (fun g => moof_fuel (fg_moof g)) _ _ Hin)). lia.
  Qed.

  Lemma ff_children_length : length cs = (2 + 2 * length frags)%nat.
  Proof. unfold cs, ff_children. cbn [length]. rewrite fg_children_length. lia. Qed.

  (** [open_fuel] on the file: the loop reads all of it; the result is [open_result] of the accumulator *)
  Theorem ff_open_result : forall fuel, (ff_fuel v frags <= fuel)%nat ->
    run (open_fuel fuel m (lenN b)) (stream_at b 0)
    = (open_result (Some ft, Some v, map fg_moof frags, frag_positions (ff_head_len wf wv ft v) frags, []) (lenN b),
       stream_at b (lenN b)).
  Proof.
    intros fuel Hfuel.
    pose proof (open_fuel_children_s m fuel (ff_children wf wv ft v frags) (ff_items ft v frags) (ff_fuel0 v frags) b (lenN b) 0 []) as Hopen.
    rewrite ff_open_acc in Hopen.
    change (ff_children wf wv ft v frags) with cs in Hopen.
    rewrite N.add_0_l, app_nil_r, ff_total in Hopen.
    change (render cs) with b in Hopen.
    unfold stream_at. rewrite dropN_0.
    rewrite Hopen.
    - f_equal. f_equal. symmetry. apply dropN_all. lia.
    - exact ff_children_decode.
    - exact ff_children_wf.
    - rewrite ff_children_length. unfold ff_fuel in Hfuel. lia.
    - exact Hlen.
    - rewrite dropN_0. reflexivity.
  Qed.
End FragFile.

(** ** What [read_header] makes of the accumulator of a fragmented file *)
Lemma open_result_frag ft v moofs offs sz :
  ~ In 0 (map trak_id (moov_traks v)) ->
  open_result (Some ft, Some v, moofs, offs, []) sz
  = res_bind (attach_moofs (moov_default_sample_duration v) (combine moofs offs) (tracks_collect (moov_traks v)))
             (fun tr => Ok (mkReader ft v moofs [] tr sz)).
Proof.
  intros Hn0. cbn [open_result].
  assert (Hex : existsb (fun t => tkhd_track_id (trak_tkhd t) =? 0) (moov_traks v) = false).
  { apply Bool.not_true_is_false. intros E. apply existsb_exists in E as (t & Hin & Et).
    apply N.eqb_eq in Et. apply Hn0. rewrite <- Et. apply (in_map trak_id). exact Hin. }
  rewrite Hex. destruct moofs; reflexivity.
Qed.

Lemma flat_trafs_in mps p : In p (flat_trafs mps) ->
  exists mp, In mp mps /\ In (fst p) (moof_trafs (fst mp)) /\ snd p = snd mp.
Proof.
  unfold flat_trafs. intros H. apply in_flat_map in H as (mp & Hmp & Hin).
  apply in_map_iff in Hin as (tf & <- & Hin). exists mp. cbn [fst snd]. auto.
Qed.

Lemma in_combine_ex {A B} (l1 : list A) (l2 : list B) a : length l1 = length l2 -> In a l1 -> exists b, In (a, b) (combine l1 l2).
Proof.
  revert l2. induction l1 as [|x l1 IH]; intros [|y l2] Hl Hin; try discriminate Hl; [destruct Hin|].
  cbn [combine]. destruct Hin as [->|Hin].
  - exists y. now left.
  - destruct (IH l2) as (b0 & Hb); [cbn [length] in Hl; lia | exact Hin |]. exists b0. now right.
Qed.

(** [b = b[..off] ++ b[off..off+sz] ++ b[off+sz..]] *)
Lemma slice_split (b : bytes) off sz : off + sz <= lenN b ->
  b = firstn (N.to_nat off) b ++ firstn (N.to_nat sz) (skipn (N.to_nat off) b) ++ skipn (N.to_nat sz) (skipn (N.to_nat off) b)
  /\ lenN (firstn (N.to_nat off) b) = off
  /\ lenN (firstn (N.to_nat sz) (skipn (N.to_nat off) b)) = sz.
Proof.
  intros H. split; [now rewrite !firstn_skipn|].
  unfold lenN in *. rewrite !firstn_length, skipn_length. lia.
Qed.

(** ** The C09 lookups on a reader whose track holds a consistent fragment list *)
Theorem reader_frag_lookup m (r : mp4reader) k t' tb fs d (b : bytes) :
  tracks_get k (rd_tracks r) = Some t' ->
  track_view t' = Track.mkTrack k tb fs d ->
  fs <> [] -> frag_consistent fs d = true ->
  rd_sample_count r k = Ok (lenN (frag_expand fs d)) /\
  lenN (frag_expand fs d) = sumN (map Track.fr_sample_count fs) /\
  (forall j, 1 <= j <= lenN (frag_expand fs d) ->
     exists off sz st du ct,
       nthN (frag_expand fs d) (j - 1) = Some (off, sz, st, du, ct) /\
       rd_sample_offset m r k j = Ok off /\
       (lenN fs < U32 -> off + sz <= lenN b -> forall pos, exists sync,
          fst (run (rd_read_sample m r k j) (stream_at b pos))
          = Ok (Some (Track.mkSample st du ct sync (firstn (N.to_nat sz) (skipn (N.to_nat off) b)))))) /\
  (forall j, j = 0 \/ lenN (frag_expand fs d) < j ->
     forall s, run (rd_read_sample m r k j) s = (Err EData, s)).
Proof.
  intros Hget Hview Hne Hc.
  destruct (frag_lookup_sound_lemma m k tb fs d Hne Hc) as (H1 & H2 & H3 & H4).
  unfold rd_sample_count, rd_sample_offset, rd_read_sample. rewrite Hget, Hview.
  split; [now rewrite H1|]. split; [exact H2|]. split.
  - intros j Hj. destruct (H3 j Hj) as (off & sz & st & du & ct & E & Eo & _).
    exists off, sz, st, du, ct. split; [exact E|]. split; [exact Eo|].
    intros Hlen Hfit pos.
    destruct (frag_read_sample_sound_lemma m k tb fs d j Hne Hc Hlen Hj) as (off' & sz' & st' & du' & ct' & E' & Hr).
    rewrite E in E'. injection E' as <- <- <- <- <-.
    destruct (slice_split b off sz Hfit) as (Hb & Hl1 & Hl2).
    destruct (Hr _ _ (skipn (N.to_nat sz) (skipn (N.to_nat off) b)) pos Hl1 Hl2) as (sync & Hs).
    exists sync. rewrite <- Hb in Hs. exact Hs.
  - exact H4.
Qed.

(** ** The fragmented file opened *)
Section FragFileOpen.
  Variables (m : mode) (wf wv : bool) (ft : ftyp) (v : moov) (frags : list fragment).
  Hypothesis Hftw : ftyp_wf ft = true.
  Hypothesis Hfts : ftyp_size ft < U32.
  Hypothesis Hvw : moov_rt_wf v = true.
  Hypothesis Hvs : moov_size v < U32.
  Hypothesis Hfr : Forall fragment_ok frags.
  Hypothesis Hlen : lenN (ff_bytes wf wv ft v frags) < 2 ^ 63.
  Hypothesis Hnd : NoDup (map trak_id (moov_traks v)).
  Hypothesis Hn0 : ~ In 0 (map trak_id (moov_traks v)).

  Let b := ff_bytes wf wv ft v frags.
  Let mps := ff_moofs wf wv ft v frags.
  Let dsd := moov_default_sample_duration v.

  (** a traf that names a track the moov does not have: [read_header] fails (TrakNotFound) *)
  Theorem ff_open_unknown_track :
    (exists g tf, In g frags /\ In tf (moof_trafs (fg_moof g)) /\ ~ In (traf_tid tf) (map trak_id (moov_traks v))) ->
    forall fuel, (ff_fuel v frags <= fuel)%nat ->
      run (open_fuel fuel m (lenN b)) (stream_at b 0) = (Err EData, stream_at b (lenN b)).
  Proof.
    intros (g & tf & Hg & Htf & Hnin) fuel Hfuel.
    unfold b. rewrite (ff_open_result m wf wv ft v frags) by assumption.
    rewrite open_result_frag by exact Hn0. fold mps dsd.
    change (combine (map fg_moof frags) (frag_positions (ff_head_len wf wv ft v) frags)) with mps.
    rewrite attach_moofs_unknown; [reflexivity|].
    destruct (in_combine_ex (map fg_moof frags) (frag_positions (ff_head_len wf wv ft v) frags) (fg_moof g)) as (off & Hoff).
    { now rewrite map_length, frag_positions_length. }
    { now apply in_map. }
    exists (tf, off). cbn [fst]. split.
    - unfold flat_trafs. apply in_flat_map. exists (fg_moof g, off). split; [exact Hoff|].
      cbn [fst snd]. apply (in_map (fun tf => (tf, off))). exact Htf.
    - rewrite (tracks_collect_nodup _ Hnd), map_map. exact Hnin.
  Qed.

  (** every traf names a track of the moov *)
  Hypothesis Hall : forall g tf, In g frags -> In tf (moof_trafs (fg_moof g)) -> In (traf_tid tf) (map trak_id (moov_traks v)).

  Theorem ff_open : exists r,
    (forall fuel, (ff_fuel v frags <= fuel)%nat ->
       run (open_fuel fuel m (lenN b)) (stream_at b 0) = (Ok r, stream_at b (lenN b))) /\
    rd_ftyp r = ft /\ rd_moov r = v /\ rd_moofs r = map fg_moof frags /\ rd_emsgs r = [] /\ rd_size r = lenN b /\
    map fst (rd_tracks r) = map trak_id (moov_traks v) /\
    (forall k, ~ In k (map trak_id (moov_traks v)) -> tracks_get k (rd_tracks r) = None) /\
    forall t, In t (moov_traks v) ->
      exists t', tracks_get (trak_id t) (rd_tracks r) = Some t' /\ mt_trak t' = t /\
        track_view t' = Track.mkTrack (trak_id t) (stbl_tables (minf_stbl (mdia_minf (trak_mdia t))))
                                      (file_fragruns (trak_id t) mps)
                                      (match file_fragruns (trak_id t) mps with [] => 0 | _ => dsd end).
  Proof.
    destruct (attach_moofs_tracks dsd (moov_traks v) mps Hnd) as (tracks' & Hat & Hkeys & Hnone & Htr).
    { intros p Hp. destruct (flat_trafs_in _ _ Hp) as ([mf off] & Hmp & Hin & _). cbn [fst] in Hin.
      unfold mps, ff_moofs in Hmp. apply in_combine_l in Hmp. apply in_map_iff in Hmp as (g & <- & Hg).
      exact (Hall g (fst p) Hg Hin). }
    exists (mkReader ft v (map fg_moof frags) [] tracks' (lenN b)).
    split.
    { intros fuel Hfuel. unfold b. rewrite (ff_open_result m wf wv ft v frags) by assumption.
      rewrite open_result_frag by exact Hn0.
      change (combine (map fg_moof frags) (frag_positions (ff_head_len wf wv ft v) frags)) with mps.
      fold dsd. rewrite Hat. reflexivity. }
    cbn [rd_ftyp rd_moov rd_moofs rd_emsgs rd_size rd_tracks].
    repeat (split; [reflexivity|]). split; [exact Hkeys|]. split; [exact Hnone|]. exact Htr.
  Qed.

  (** Part 2: the lookups on the reader [open_fuel] returns follow the movie-fragment specification *)
  Theorem ff_lookup (m' : mode) : exists r,
    (forall fuel, (ff_fuel v frags <= fuel)%nat ->
       run (open_fuel fuel m (lenN b)) (stream_at b 0) = (Ok r, stream_at b (lenN b))) /\
    rd_moov r = v /\ rd_moofs r = map fg_moof frags /\
    (forall k, ~ In k (map trak_id (moov_traks v)) ->
       rd_sample_count r k = Err EData /\ forall j s, run (rd_read_sample m' r k j) s = (Err EData, s)) /\
    forall t, In t (moov_traks v) ->
      let k := trak_id t in
      let fs := file_fragruns k mps in
      fs <> [] -> frag_consistent fs dsd = true ->
      rd_sample_count r k = Ok (lenN (frag_expand fs dsd)) /\
      lenN (frag_expand fs dsd) = sumN (map Track.fr_sample_count fs) /\
      (forall j, 1 <= j <= lenN (frag_expand fs dsd) ->
         exists off sz st du ct,
           nthN (frag_expand fs dsd) (j - 1) = Some (off, sz, st, du, ct) /\
           rd_sample_offset m' r k j = Ok off /\
           (lenN fs < U32 -> off + sz <= lenN b -> forall pos, exists sync,
              fst (run (rd_read_sample m' r k j) (stream_at b pos))
              = Ok (Some (Track.mkSample st du ct sync (firstn (N.to_nat sz) (skipn (N.to_nat off) b)))))) /\
      (forall j, j = 0 \/ lenN (frag_expand fs dsd) < j ->
         forall s, run (rd_read_sample m' r k j) s = (Err EData, s)).
  Proof.
    destruct ff_open as (r & Hopen & _ & Hmoov & Hmoofs & _ & _ & _ & Hnone & Htr).
    exists r. split; [exact Hopen|]. split; [exact Hmoov|]. split; [exact Hmoofs|]. split.
    - intros k Hk. unfold rd_sample_count, rd_read_sample. rewrite (Hnone k Hk). split; [reflexivity|]. intros j s. reflexivity.
    - intros t Hin k fs Hne Hc.
      destruct (Htr t Hin) as (t' & Hget & _ & Hview). fold k fs in Hget, Hview.
      assert (Hview' : track_view t' = Track.mkTrack k (stbl_tables (minf_stbl (mdia_minf (trak_mdia t)))) fs dsd).
      { rewrite Hview. destruct fs; [now elim Hne | reflexivity]. }
      exact (reader_frag_lookup m' r k t' _ fs dsd b Hget Hview' Hne Hc).
  Qed.
End FragFileOpen.

Print Assumptions attach_moofs_tracks.
Print Assumptions ff_moof_position.
Print Assumptions ff_open_result.
Print Assumptions ff_open_unknown_track.
Print Assumptions ff_open.
Print Assumptions reader_frag_lookup.
Print Assumptions ff_lookup.
