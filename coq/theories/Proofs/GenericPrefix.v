(** * Proofs for C11: what a program computes on a prefix of the data it computes on the data

    [prefix_run] is about EVERY stream program; the rest instantiates it for [read_sample] and
    for the top-level loop of [open_fuel]. *)
From MP4 Require Import Hoare Reader GenericProofs.
Open Scope list_scope.
Open Scope N_scope.

(** ** Lists *)
Lemma dropN_nil {A} n : dropN n (@nil A) = [].
Proof. cbn [dropN]. destruct (n =? 0); reflexivity. Qed.

Lemma dropN_app_ex {A} (l1 l2 : list A) : forall n, exists rest, dropN n (l1 ++ l2) = dropN n l1 ++ rest.
Proof.
  induction l1 as [|x t IH]; intros n.
  - rewrite dropN_nil. cbn [app]. eexists; reflexivity.
  - cbn [app dropN]. destruct (n =? 0).
    + exists l2. reflexivity.
    + apply IH.
Qed.

Lemma dropN_firstn_ex {A} (d : list A) k n : exists rest, dropN n d = dropN n (firstn k d) ++ rest.
Proof.
  destruct (dropN_app_ex (firstn k d) (skipn k d) n) as [rest H].
  rewrite firstn_skipn in H. exists rest. exact H.
Qed.

Lemma splitN_prefix n l rest h r : splitN n l = Some (h, r) -> splitN n (l ++ rest) = Some (h, r ++ rest).
Proof.
  intros H. apply splitN_some in H as [-> Hn]. rewrite <- app_assoc. now apply splitN_app_n.
Qed.

Lemma splitN_stream_at n d pos h r : splitN n (dropN pos d) = Some (h, r) ->
  mkStream d (lenN d) (pos + n) r = stream_at d (pos + n).
Proof.
  intros H. apply splitN_dropN in H. subst r. unfold stream_at. f_equal.
  rewrite dropN_dropN. f_equal. lia.
Qed.

(** ** The general theorem.
    Run a program on a stream over [firstn k d] and on a stream over [d], both at position
    [pos].  Unless the first run ends with an I/O error (it hit the end of the prefix, or a
    seek failed), the second run ends with the same result at the same position. *)
Lemma prefix_run {A} (p : prog A) : forall d k pos,
  match run p (stream_at (firstn k d) pos) with
  | (Err EIo, _) => True
  | (r, s') => run p (stream_at d pos) = (r, stream_at d (s_pos s'))
  end.
Proof.
  induction p as [a|e|x| |n c IH|q c IH|dz c IH|c IH|n c IH|c IH]; intros d k pos; cbn [run].
  - reflexivity.
  - destruct e; reflexivity.
  - reflexivity.
  - reflexivity.
  - destruct (n =? 0); [apply IH|].
    cbn [stream_at s_view s_data s_len s_pos].
    destruct (splitN n (dropN pos (firstn k d))) as [[h r]|] eqn:E; [|exact I].
    destruct (dropN_firstn_ex d k pos) as [rest Hrest].
    pose proof (splitN_prefix _ _ rest _ _ E) as E2. rewrite <- Hrest in E2. rewrite E2.
    rewrite (splitN_stream_at _ _ _ _ _ E), (splitN_stream_at _ _ _ _ _ E2). apply IH.
  - rewrite !seek_abs_at. apply IH.
  - unfold seek_cur. cbn [stream_at s_pos].
    destruct ((Z.of_N pos + dz <? 0) || (Z.of_N U64 <=? Z.of_N pos + dz))%Z; [exact I|].
    fold (stream_at (firstn k d) pos). fold (stream_at d pos). rewrite !seek_abs_at. apply IH.
  - cbn [stream_at s_pos]. apply IH.
  - apply IH.
  - apply IH.
Qed.

Lemma prefix_stable_lemma {A} (p : prog A) d k pos r s' :
  run p (stream_at (firstn k d) pos) = (r, s') -> r <> Err EIo ->
  run p (stream_at d pos) = (r, stream_at d (s_pos s')).
Proof.
  intros H Hr. pose proof (prefix_run p d k pos) as P. rewrite H in P.
  destruct r as [a|[]|x|]; auto. congruence.
Qed.

Lemma prefix_stable_ok {A} (p : prog A) d k pos a s' :
  run p (stream_at (firstn k d) pos) = (Ok a, s') ->
  run p (stream_at d pos) = (Ok a, stream_at d (s_pos s')).
Proof. intros H. apply (prefix_stable_lemma p d k pos _ _ H). congruence. Qed.

(** no panic on the data implies no panic on any prefix, at any position *)
Lemma prefix_no_panic {A} (p : prog A) d k pos :
  is_panic (fst (run p (stream_at d pos))) = false ->
  is_panic (fst (run p (stream_at (firstn k d) pos))) = false.
Proof.
  intros H. pose proof (prefix_run p d k pos) as P.
  destruct (run p (stream_at (firstn k d) pos)) as [[a|[]|x|] s']; cbn [fst is_panic]; auto.
  rewrite P in H. cbn in H. congruence.
Qed.

(** ** [read_sample] *)
Lemma read_sample_prefix_lemma m r tid sid d k pos pos' x :
  fst (run (rd_read_sample m r tid sid) (stream_at (firstn k d) pos)) = Ok x ->
  fst (run (rd_read_sample m r tid sid) (stream_at d pos')) = Ok x.
Proof.
  intros H.
  destruct (run (rd_read_sample m r tid sid) (stream_at (firstn k d) pos)) as [r0 s'] eqn:E.
  cbn [fst] in H. subst r0. apply prefix_stable_ok in E.
  rewrite (read_sample_position_independent_lemma m r tid sid d pos' pos).
  now rewrite E.
Qed.

(** ** The top-level loop of [open_fuel], executed box by box

    [lexec f size d a c] is the loop of [Mp4Reader::read_header] ([children_loop_at] with
    [open_dispatch]) on the file [d], from accumulator [a] and position [c], written as a
    function that calls [run] for the header and for each child: its result, the final stream
    position, and the list of top-level boxes (position, type, size) whose decoding succeeded.
    [lexec_run] shows it is the loop. *)
Section OpenLoop.
Variable m : mode.

Definition titem : Type := (N * boxtype * N)%type.
Definition tnames (tr : list titem) : list boxtype := map (fun x => snd (fst x)) tr.

Fixpoint lexec (f : nat) (size : N) (d : bytes) (a : open_acc) (c : N) {struct f}
  : res (open_acc * N) * N * list titem :=
  if c <? size then
    match f with
    | O => (OutOfFuel, c, [])
    | S f' =>
        match run read_header (stream_at d c) with
        | (Ok (name, s), sh) =>
            if size <? s then (Err EData, s_pos sh, [])
            else if s =? 0 then (Ok (a, c), s_pos sh, [])
            else match run (open_dispatch m f' c name s a) sh with
                 | (Ok a', sd) =>
                     let '(r, p, tr) := lexec f' size d a' (s_pos sd) in (r, p, (c, name, s) :: tr)
                 | (Err e, sd) => (Err e, s_pos sd, [])
                 | (Panic x, sd) => (Panic x, s_pos sd, [])
                 | (OutOfFuel, sd) => (OutOfFuel, s_pos sd, [])
                 end
        | (Err e, sh) => (Err e, s_pos sh, [])
        | (Panic x, sh) => (Panic x, s_pos sh, [])
        | (OutOfFuel, sh) => (OutOfFuel, s_pos sh, [])
        end
    end
  else (Ok (a, c), c, []).

Lemma run_at_eq {A} (p : prog A) d c r s : run p (stream_at d c) = (r, s) -> s = stream_at d (s_pos s).
Proof. intros H. pose proof (run_at p d c) as P. rewrite H in P. exact P. Qed.

Lemma lexec_run : forall f size d a c,
  let '(r, p, _) := lexec f size d a c in
  run (children_loop_at f m (Some size) true size (open_dispatch m) a c) (stream_at d c)
  = (r, stream_at d p).
Proof.
  induction f as [|f IH]; intros size d a c; unfold children_loop_at in *;
    rewrite children_loop_gen_eq; cbn [lexec]; destruct (c <? size); try reflexivity.
  rewrite run_bind.
  destruct (run read_header (stream_at d c)) as [[[name s]|e|x|] sh] eqn:Eh;
    pose proof (run_at_eq _ _ _ _ _ Eh) as Hsh; try (rewrite Hsh at 1; reflexivity).
  cbn beta iota.
  destruct (size <? s); [cbn [run]; rewrite Hsh at 1; reflexivity|].
  cbn [andb]. destruct (s =? 0); [cbn [run]; rewrite Hsh at 1; reflexivity|].
  rewrite run_bind.
  destruct (run (open_dispatch m f c name s a) sh) as [[a'|e|x|] sd] eqn:Ed;
    rewrite Hsh in Ed; pose proof (run_at_eq _ _ _ _ _ Ed) as Hsd; try (rewrite Hsd at 1; reflexivity).
  unfold get_pos. cbn [bind run].
  specialize (IH size d a' (s_pos sd)).
  destruct (lexec f size d a' (s_pos sd)) as [[r p] tr].
  remember (s_pos sd) as pd eqn:Hpd. clear Hpd Ed. subst sd. exact IH.
Qed.

(** *** prefix to full: the loop on the data passes through the final state of the loop on the prefix *)
Lemma lexec_prefix : forall f n L d k a c ap cp pp trp,
  n <= L ->
  lexec f n (firstn k d) a c = (Ok (ap, cp), pp, trp) ->
  exists f', lexec f L d a c = (let '(r, p, tr) := lexec f' L d ap cp in (r, p, trp ++ tr)).
Proof.
  induction f as [|f IH]; intros n L d k a c ap cp pp trp HnL H.
  - cbn [lexec] in H. destruct (c <? n); [discriminate|]. inversion H; subst.
    exists O. destruct (lexec 0 L d _ _) as [[r p] tr]. reflexivity.
  - cbn [lexec] in H. destruct (N.ltb_spec c n) as [Hc|Hc].
    2:{ inversion H; subst. exists (S f). destruct (lexec (S f) L d _ _) as [[r p] tr]. reflexivity. }
    destruct (run read_header (stream_at (firstn k d) c)) as [[[name s]|e|x|] sh] eqn:Eh; try discriminate.
    pose proof (run_at_eq _ _ _ _ _ Eh) as Hsh.
    pose proof (prefix_stable_ok _ _ _ _ _ _ Eh) as Eh'.
    destruct (N.ltb_spec n s) as [Hs|Hs]; [discriminate|].
    destruct (s =? 0) eqn:Es0.
    { inversion H; subst. exists (S f). destruct (lexec (S f) L d _ _) as [[r p] tr]. reflexivity. }
    rewrite Hsh in H.
    destruct (run (open_dispatch m f c name s a) (stream_at (firstn k d) (s_pos sh))) as [[a'|e|x|] sd] eqn:Ed;
      try discriminate.
    pose proof (prefix_stable_ok _ _ _ _ _ _ Ed) as Ed'.
    destruct (lexec f n (firstn k d) a' (s_pos sd)) as [[r1 p1] tr1] eqn:El.
    inversion H; subst r1 p1 trp. clear H.
    destruct (IH _ L _ _ _ _ _ _ _ _ HnL El) as [f' Hf'].
    exists f'. cbn [lexec].
    destruct (N.ltb_spec c L) as [_|HcL]; [|exfalso; clear -Hc HnL HcL; lia].
    rewrite Eh'.
    destruct (N.ltb_spec L s) as [HLs|_]; [exfalso; clear -Hs HnL HLs; lia|].
    rewrite Es0, Ed'. cbn [s_pos stream_at]. rewrite Hf'.
    destruct (lexec f' L d ap cp) as [[r p] tr]. reflexivity.
Qed.

(** *** what an iteration does to the accumulator *)
Definition acc_ft (a : open_acc) : option ftyp := let '(ft, _, _, _, _) := a in ft.
Definition acc_mv (a : open_acc) : option moov := let '(_, mv, _, _, _) := a in mv.
Definition acc_moofs (a : open_acc) : list moof := let '(_, _, x, _, _) := a in x.
Definition acc_offs (a : open_acc) : list N := let '(_, _, _, x, _) := a in x.
Definition acc_emsgs (a : open_acc) : list emsg := let '(_, _, _, _, x) := a in x.

Definition is_moov (b : boxtype) : bool := match b with MoovBox => true | _ => false end.
Definition is_ftyp (b : boxtype) : bool := match b with FtypBox => true | _ => false end.

Definition acc_step (names : list boxtype) (a a' : open_acc) : Prop :=
  (existsb is_ftyp names = false -> acc_ft a' = acc_ft a) /\
  (existsb is_moov names = false -> acc_mv a' = acc_mv a) /\
  (exists more, acc_moofs a' = acc_moofs a ++ more) /\
  (exists more, acc_offs a' = acc_offs a ++ more) /\
  (exists more, acc_emsgs a' = acc_emsgs a ++ more).

Lemma acc_step_refl a : acc_step [] a a.
Proof. repeat split; auto; exists []; now rewrite app_nil_r. Qed.

Lemma acc_step_trans n1 n2 a b c : acc_step n1 a b -> acc_step n2 b c -> acc_step (n1 ++ n2) a c.
Proof.
  intros (F1 & M1 & [x1 X1] & [y1 Y1] & [z1 Z1]) (F2 & M2 & [x2 X2] & [y2 Y2] & [z2 Z2]).
  repeat split.
  - rewrite existsb_app. intros H. apply Bool.orb_false_iff in H as [H1 H2].
    rewrite F2, F1; auto.
  - rewrite existsb_app. intros H. apply Bool.orb_false_iff in H as [H1 H2].
    rewrite M2, M1; auto.
  - exists (x1 ++ x2). rewrite X2, X1. now rewrite app_assoc.
  - exists (y1 ++ y2). rewrite Y2, Y1. now rewrite app_assoc.
  - exists (z1 ++ z2). rewrite Z2, Z1. now rewrite app_assoc.
Qed.

Lemma dispatch_step f c name s a sh a' sd :
  run (open_dispatch m f c name s a) sh = (Ok a', sd) -> acc_step [name] a a'.
Proof.
  destruct a as [[[[ft mv] moofs] offs] emsgs].
  destruct name; cbn [open_dispatch]; rewrite run_bind;
    match goal with |- context [run ?p sh] => destruct (run p sh) as [[x|e|x|] s1] end;
    cbn [run]; intros H; try discriminate; inversion H; subst;
    (repeat split; cbn [existsb is_ftyp is_moov orb acc_ft acc_mv acc_moofs acc_offs acc_emsgs];
     try congruence; try reflexivity;
     try (eexists; reflexivity); try (exists []; now rewrite app_nil_r)).
Qed.

Lemma lexec_step : forall f size d a c a' c' p tr,
  lexec f size d a c = (Ok (a', c'), p, tr) -> acc_step (tnames tr) a a'.
Proof.
  induction f as [|f IH]; intros size d a c a' c' p tr H; cbn [lexec] in H.
  - destruct (c <? size); [discriminate|]. inversion H; subst. apply acc_step_refl.
  - destruct (c <? size); [|inversion H; subst; apply acc_step_refl].
    destruct (run read_header (stream_at d c)) as [[[name s]|e|x|] sh]; try discriminate.
    destruct (size <? s); [discriminate|].
    destruct (s =? 0); [inversion H; subst; apply acc_step_refl|].
    destruct (run (open_dispatch m f c name s a) sh) as [[a1|e|x|] sd] eqn:Ed; try discriminate.
    destruct (lexec f size d a1 (s_pos sd)) as [[r1 p1] tr1] eqn:El.
    inversion H; subst. clear H.
    change (tnames ((c, name, s) :: tr1)) with ([name] ++ tnames tr1).
    eapply acc_step_trans; [eapply dispatch_step; exact Ed | eapply IH; exact El].
Qed.

(** *** [open_fuel] is the loop followed by stream-free code *)
Definition acc0 : open_acc := (None, None, [], [], []).

Lemma open_fuel_inv f size d pos r s :
  run (open_fuel f m size) (stream_at d pos) = (Ok r, s) ->
  exists ft mv moofs offs emsgs cur p tr,
    lexec f size d acc0 pos = (Ok ((Some ft, Some mv, moofs, offs, emsgs), cur), p, tr) /\
    rd_ftyp r = ft /\ rd_moov r = mv /\ rd_moofs r = moofs /\ rd_emsgs r = emsgs /\
    attach_moofs (moov_default_sample_duration mv) (combine moofs offs) (tracks_collect (moov_traks mv))
    = Ok (rd_tracks r).
Proof.
  unfold open_fuel. rewrite run_bind.
  change (run get_pos (stream_at d pos)) with (Ok pos, stream_at d pos). cbn beta iota.
  rewrite run_bind.
  pose proof (lexec_run f size d acc0 pos) as HL. fold acc0.
  destruct (lexec f size d acc0 pos) as [[rl pl] trl]. rewrite HL. clear HL.
  destruct rl as [[acc cur]|e|x|]; try discriminate.
  destruct acc as [[[[ft mv] moofs] offs] emsgs]. cbn beta iota.
  destruct ft as [ft|]; [|cbn [run]; discriminate].
  destruct mv as [mv|]; [|cbn [run]; discriminate].
  rewrite run_bind. unfold sub64. rewrite run_lift.
  destruct (sub_w m U64 _ cur pos) as [sz|e|x|]; try discriminate.
  destruct (existsb _ (moov_traks mv)); [cbn [run]; discriminate|].
  rewrite run_bind.
  destruct moofs as [|mf moofs].
  - cbn [run]. intros H. inversion H; subst.
    exists ft, mv, [], offs, emsgs, cur, pl, trl. repeat split; reflexivity.
  - rewrite run_lift.
    destruct (attach_moofs _ _ _) as [tracks'|e|x|] eqn:Eatt; try discriminate.
    cbn [run]. intros H. inversion H; subst.
    exists ft, mv, (mf :: moofs), offs, emsgs, cur, pl, trl. repeat split; try reflexivity.
    cbn [rd_tracks]. assumption.
Qed.

(** the top-level boxes the reader processes in a file *)
Definition top_boxes (f : nat) (d : bytes) (pos : N) : list titem := snd (lexec f (lenN d) d acc0 pos).

Lemma existsb_filter {A} (p : A -> bool) l : existsb p l = true -> (1 <= length (filter p l))%nat.
Proof.
  induction l as [|x t IH]; cbn [existsb filter]; [discriminate|].
  destruct (p x); cbn [orb length]; [lia | exact IH].
Qed.
Lemma filter_nil_existsb {A} (p : A -> bool) l : length (filter p l) = O -> existsb p l = false.
Proof.
  induction l as [|x t IH]; cbn [existsb filter]; [reflexivity|].
  destruct (p x); cbn [orb length]; [discriminate | exact IH].
Qed.

Lemma at_most_one_split {A} (p : A -> bool) l1 l2 :
  (length (filter p (l1 ++ l2)) <= 1)%nat -> existsb p l1 = true -> existsb p l2 = false.
Proof.
  intros H H1. apply existsb_filter in H1. rewrite filter_app, app_length in H.
  apply filter_nil_existsb. lia.
Qed.

Lemma not_false_true b : b <> false -> b = true.
Proof. destruct b; congruence. Qed.

(** the reader pushes a moof and its offset together *)
Definition acc_len (a : open_acc) : Prop := length (acc_moofs a) = length (acc_offs a).

Lemma dispatch_len f c name s a sh a' sd :
  run (open_dispatch m f c name s a) sh = (Ok a', sd) -> acc_len a -> acc_len a'.
Proof.
  destruct a as [[[[ft mv] moofs] offs] emsgs]. unfold acc_len. cbn [acc_moofs acc_offs].
  destruct name; cbn [open_dispatch]; rewrite run_bind;
    match goal with |- context [run ?p sh] => destruct (run p sh) as [[x|e|x|] s1] end;
    cbn [run]; intros H; try discriminate; inversion H; subst; cbn [acc_moofs acc_offs]; auto.
  intros L. rewrite !app_length, L. reflexivity.
Qed.

Lemma lexec_len : forall f size d a c a' c' p tr,
  lexec f size d a c = (Ok (a', c'), p, tr) -> acc_len a -> acc_len a'.
Proof.
  induction f as [|f IH]; intros size d a c a' c' p tr H; cbn [lexec] in H.
  - destruct (c <? size); [discriminate|]. inversion H; subst. auto.
  - destruct (c <? size); [|inversion H; subst; auto].
    destruct (run read_header (stream_at d c)) as [[[name s]|e|x|] sh]; try discriminate.
    destruct (size <? s); [discriminate|].
    destruct (s =? 0); [inversion H; subst; auto|].
    destruct (run (open_dispatch m f c name s a) sh) as [[a1|e|x|] sd] eqn:Ed; try discriminate.
    destruct (lexec f size d a1 (s_pos sd)) as [[r1 p1] tr1] eqn:El.
    inversion H; subst. clear H. intros L.
    eapply IH; [exact El|]. eapply dispatch_len; [exact Ed | exact L].
Qed.

Lemma combine_app_len {A B} (l1 l2 : list A) (o1 o2 : list B) :
  length l1 = length o1 -> combine (l1 ++ l2) (o1 ++ o2) = combine l1 o1 ++ combine l2 o2.
Proof.
  revert o1; induction l1 as [|x t IH]; intros [|y o1] H; cbn in H; try discriminate; cbn [app combine].
  - reflexivity.
  - rewrite IH; [reflexivity | lia].
Qed.

Lemma attach_moofs_app dsd l1 l2 T :
  attach_moofs dsd (l1 ++ l2) T = res_bind (attach_moofs dsd l1 T) (attach_moofs dsd l2).
Proof.
  revert T; induction l1 as [|[mf off] t IH]; intros T; cbn [app attach_moofs res_bind]; [reflexivity|].
  destruct (attach_trafs dsd off (moof_trafs mf) T) as [T1|e|x|]; cbn [res_bind]; auto.
Qed.

(** everything the reader of the prefix and the reader of the file have in common *)
Lemma open_prefix_core f n d k pos rp sp r s :
  n <= lenN d ->
  run (open_fuel f m n) (stream_at (firstn k d) pos) = (Ok rp, sp) ->
  run (open_fuel f m (lenN d)) (stream_at d pos) = (Ok r, s) ->
  (length (filter is_moov (tnames (top_boxes f d pos))) <= 1)%nat ->
  (length (filter is_ftyp (tnames (top_boxes f d pos))) <= 1)%nat ->
  rd_moov rp = rd_moov r /\ rd_ftyp rp = rd_ftyp r /\
  (exists more, rd_moofs r = rd_moofs rp ++ more) /\
  (exists more, rd_emsgs r = rd_emsgs rp ++ more) /\
  (attach_moofs (moov_default_sample_duration (rd_moov r)) [] (tracks_collect (moov_traks (rd_moov r)))
   = Ok (tracks_collect (moov_traks (rd_moov r)))) /\
  (exists ms0, attach_moofs (moov_default_sample_duration (rd_moov r)) ms0
                 (tracks_collect (moov_traks (rd_moov r))) = Ok (rd_tracks rp)) /\
  (exists ms, attach_moofs (moov_default_sample_duration (rd_moov r)) ms (rd_tracks rp) = Ok (rd_tracks r)).
Proof.
  intros Hn Hp Hr Um Uf.
  apply open_fuel_inv in Hp as (ftp & mvp & moofsp & offsp & emsgsp & curp & pp & trp & Lp & P1 & P2 & P3 & P4 & PT).
  apply open_fuel_inv in Hr as (ftr & mvr & moofsr & offsr & emsgsr & curr & pr & trr & Lr & R1 & R2 & R3 & R4 & RT).
  unfold top_boxes in Um, Uf. rewrite Lr in Um, Uf. cbn [snd] in Um, Uf.
  destruct (lexec_prefix _ _ (lenN d) _ _ _ _ _ _ _ _ Hn Lp) as [f' Hf'].
  rewrite Lr in Hf'.
  destruct (lexec f' (lenN d) d (Some ftp, Some mvp, moofsp, offsp, emsgsp) curp) as [[r1 p1] tr1] eqn:Ec.
  inversion Hf'; subst r1 p1 trr. clear Hf'.
  pose proof (lexec_step _ _ _ _ _ _ _ _ _ Lp) as (SF & SM & _).
  pose proof (lexec_step _ _ _ _ _ _ _ _ _ Ec) as (CF & CM & [x X] & [y Y] & [z Z]).
  pose proof (lexec_len _ _ _ _ _ _ _ _ _ Lp eq_refl) as LEN.
  unfold acc_len in LEN.
  cbn [acc_ft acc_mv acc_moofs acc_offs acc_emsgs acc0] in *.
  unfold tnames in Um, Uf. rewrite map_app in Um, Uf. fold (tnames trp) in Um, Uf. fold (tnames tr1) in Um, Uf.
  assert (Hm : existsb is_moov (tnames trp) = true).
  { apply not_false_true. intros E. specialize (SM E). discriminate. }
  assert (Hf : existsb is_ftyp (tnames trp) = true).
  { apply not_false_true. intros E. specialize (SF E). discriminate. }
  specialize (CM (at_most_one_split _ _ _ Um Hm)).
  specialize (CF (at_most_one_split _ _ _ Uf Hf)).
  injection CM as CM. injection CF as CF.
  rewrite <- CM in PT. rewrite <- R2 in PT, RT.
  split; [rewrite P2, R2; symmetry; exact CM|].
  split; [rewrite P1, R1; symmetry; exact CF|].
  split; [exists x; rewrite R3, P3; exact X|].
  split; [exists z; rewrite R4, P4; exact Z|].
  split; [reflexivity|].
  split; [exists (combine moofsp offsp); exact PT|].
  exists (combine x y). rewrite X, Y in RT. rewrite combine_app_len in RT by exact LEN.
  rewrite attach_moofs_app, PT in RT. exact RT.
Qed.

Lemma open_prefix_lemma f n d k pos rp sp r s :
  n <= lenN d ->
  run (open_fuel f m n) (stream_at (firstn k d) pos) = (Ok rp, sp) ->
  run (open_fuel f m (lenN d)) (stream_at d pos) = (Ok r, s) ->
  (length (filter is_moov (tnames (top_boxes f d pos))) <= 1)%nat ->
  (length (filter is_ftyp (tnames (top_boxes f d pos))) <= 1)%nat ->
  rd_moov rp = rd_moov r /\ rd_ftyp rp = rd_ftyp r /\
  (exists more, rd_moofs r = rd_moofs rp ++ more) /\
  (exists more, rd_emsgs r = rd_emsgs rp ++ more).
Proof.
  intros Hn Hp Hr Um Uf.
  destruct (open_prefix_core _ _ _ _ _ _ _ _ _ Hn Hp Hr Um Uf) as (A & B & C & D & _). auto.
Qed.

(** *** the complete statement for files without movie fragments *)
Lemma c11_unfragmented_lemma f n d k pos rp sp r s :
  n <= lenN d ->
  run (open_fuel f m n) (stream_at (firstn k d) pos) = (Ok rp, sp) ->
  run (open_fuel f m (lenN d)) (stream_at d pos) = (Ok r, s) ->
  (length (filter is_moov (tnames (top_boxes f d pos))) <= 1)%nat ->
  (length (filter is_ftyp (tnames (top_boxes f d pos))) <= 1)%nat ->
  rd_moofs r = [] ->
  forall tid sid p p' x,
    fst (run (rd_read_sample m rp tid sid) (stream_at (firstn k d) p)) = Ok x ->
    fst (run (rd_read_sample m r tid sid) (stream_at d p')) = Ok x.
Proof.
  intros Hn Hp Hr Um Uf Hnf tid sid p p' x Hx.
  destruct (open_prefix_lemma _ _ _ _ _ _ _ _ _ Hn Hp Hr Um Uf) as (Emv & _ & [more Hmore] & _).
  rewrite Hnf in Hmore. symmetry in Hmore. apply app_eq_nil in Hmore as [Hpnf _].
  apply open_fuel_inv in Hp as (? & ? & ? & ? & ? & ? & ? & ? & _ & _ & P2 & P3 & _ & PT).
  apply open_fuel_inv in Hr as (? & ? & ? & ? & ? & ? & ? & ? & _ & _ & R2 & R3 & _ & RT).
  subst. rewrite Hpnf in PT. rewrite Hnf in RT. cbn [combine attach_moofs] in PT, RT.
  assert (Et : rd_tracks rp = rd_tracks r) by (rewrite Emv in PT; congruence).
  unfold rd_read_sample in *. rewrite <- Et.
  fold (rd_read_sample m rp tid sid) in *.
  eapply read_sample_prefix_lemma. exact Hx.
Qed.
End OpenLoop.
