(** * C07/C08: reading one sample — [Mp4Reader::read_sample] after the lookups: one seek, one
      read of the sample's size; the buffer is only requested for data that was delivered, so
      neither the bytes moved nor the allocation can exceed what the input holds. *)
From MP4 Require Import Cost Reader.
From MP4 Require Track.
From Coq Require Import ZArith ZifyN ZifyNat ZifyBool Lia.
Open Scope N_scope.

(** no [OutOfFuel], from every position of every input *)
Definition bnd' {A} (c : prog A) : Prop := forall d p, fst (fst (mrun c d p)) <> OutOfFuel.

Definition sample_cost_ok (n : N) (k : cost) : Prop :=
  c_ops k <= 2 /\ c_bytes k <= n /\ c_steps k = 0
  /\ c_amax k <= 2 * n + 32 /\ c_asum k <= 2 * n + 32.

Local Ltac fin :=
  cbn [cadd c0 c_op c_rd c_alloc c_ops c_bytes c_steps c_amax c_asum];
  (split; [repeat split; lia | intros ? [= <-]; split; lia]).

Lemma track_read_sample_cost m t sid d p :
  let '(_, _, k) := mrun (Track.read_sample m t sid) d p in
  sample_cost_ok (lenN d) k
  /\ (forall sz, Track.sample_size t sid = Ok sz -> c_bytes k <= sz /\ c_asum k <= 2 * sz + 32).
Proof.
  assert (G : msat d p c0 (Track.read_sample m t sid) (fun _ _ k =>
            sample_cost_ok (lenN d) k
            /\ (forall sz, Track.sample_size t sid = Ok sz -> c_bytes k <= sz /\ c_asum k <= 2 * sz + 32))).
  { unfold Track.read_sample, sample_cost_ok.
    destruct (Track.sample_offset m t sid) as [off|[]|x|];
      try (first [apply msat_Ret | apply msat_Throw | apply msat_Crash | apply msat_Spin];
           cbn; split; [repeat split; lia|intros sz0 _; split; lia]).
    destruct (Track.sample_size t sid) as [sz|[]|x|] eqn:Es;
      try (first [apply msat_Ret | apply msat_Throw | apply msat_Crash | apply msat_Spin];
           cbn; split; [repeat split; lia|intros sz0 E0; discriminate E0]).
    unfold seek_to, rd_exact, alloc. cbn [bind]. apply msat_SeekTo.
    apply msat_RdExact.
    - intros ->. apply msat_Alloc. apply msat_lift_bind.
      destruct (Track.sample_time m t sid) as [[st dur]|e|x|]; try fin.
      apply msat_lift_bind.
      destruct (Track.is_sync_sample t sid) as [sy|e|x|]; try fin.
      apply msat_Ret. fin.
    - intros Hn Hle l Hl _. apply msat_Alloc. apply msat_lift_bind.
      destruct (Track.sample_time m t sid) as [[st dur]|e|x|]; try fin.
      apply msat_lift_bind.
      destruct (Track.is_sync_sample t sid) as [sy|e|x|]; try fin.
      apply msat_Ret. fin.
    - intros Hn Hlt. fin. }
  unfold msat in G. destruct (mrun (Track.read_sample m t sid) d p) as [[r p'] k].
  rewrite cadd_0_l in G. exact G.
Qed.

(** [Mp4Reader::read_sample]: an unknown track id costs nothing *)
Theorem read_sample_cost m r tid sid data p :
  let mt := snd (runm (rd_read_sample m r tid sid) (stream_at data p) (meter0 None)) in
  m_ops mt <= 2 /\ m_bytes mt <= lenN data /\ m_steps mt = 0
  /\ m_alloc_max mt <= 2 * lenN data + 32 /\ m_alloc_sum mt <= 2 * lenN data + 32.
Proof.
  unfold rd_read_sample. destruct (tracks_get tid (rd_tracks r)) as [t|].
  - pose proof (track_read_sample_cost m (track_view t) sid data p) as H.
    rewrite mrun_unfold in H. destruct H as [H _]. exact H.
  - cbn. repeat split; lia.
Qed.

(** ... and within the sample's own size when the lookup finds one *)
Theorem read_sample_cost_size m r tid sid data p t sz :
  tracks_get tid (rd_tracks r) = Some t -> Track.sample_size (track_view t) sid = Ok sz ->
  let mt := snd (runm (rd_read_sample m r tid sid) (stream_at data p) (meter0 None)) in
  m_ops mt <= 2 /\ m_bytes mt <= sz /\ m_alloc_sum mt <= 2 * sz + 32 /\ m_alloc_max mt <= 2 * sz + 32.
Proof.
  intros Ht Hs. unfold rd_read_sample. rewrite Ht.
  pose proof (track_read_sample_cost m (track_view t) sid data p) as H.
  pose proof (mrun_amax_le_asum (Track.read_sample m (track_view t) sid) data p) as Hm.
  rewrite mrun_unfold in H, Hm. cbn [snd] in Hm. destruct H as [(H1 & _) H2]. specialize (H2 sz Hs).
  cbn zeta. unfold cost_of in *. cbn [c_ops c_bytes c_steps c_asum c_amax] in *. repeat split; lia.
Qed.

(** ** [read_sample] terminates: the lookups are structural recursions over the parsed tables;
       none of them can produce the model's [OutOfFuel] *)
Lemma res_bind_not_oof {A B} (r : res A) (k : A -> res B) :
  r <> OutOfFuel -> (forall a, k a <> OutOfFuel) -> res_bind r k <> OutOfFuel.
Proof. intros Hr Hk. destruct r; cbn; auto; discriminate. Qed.

Ltac noof :=
  repeat first
    [ discriminate
    | apply add_w_not_oof | apply sub_w_not_oof | apply mul_w_not_oof
    | apply div_w_not_oof | apply rem_w_not_oof
    | match goal with
      | H : _ |- _ => apply H
      | |- res_bind _ _ <> OutOfFuel => apply res_bind_not_oof; [|intros ?]
      | |- (if ?b then _ else _) <> OutOfFuel => destruct b
      | |- (let '(_, _) := ?x in _) <> OutOfFuel => destruct x
      | |- (match ?x with _ => _ end) <> OutOfFuel => destruct x eqn:?
      end ].

Section Lookups.
  Variable m : mode.

  Lemma stsc_index_from_not_oof es : forall i last sid, Track.stsc_index_from es i last sid <> OutOfFuel.
  Proof. induction es as [|e t IH]; intros; cbn [Track.stsc_index_from]; noof. Qed.

  Lemma sum_sizes_not_oof l : forall cnt acc, Track.sum_sizes l cnt acc <> OutOfFuel.
  Proof. induction l as [|x t IH]; intros; cbn [Track.sum_sizes]; noof. Qed.

  Lemma sum_run_sizes_not_oof l : forall cnt acc, Track.sum_run_sizes l cnt acc <> OutOfFuel.
  Proof. induction l as [|x t IH]; intros; cbn [Track.sum_run_sizes]; noof. Qed.

  Lemma stts_scan_not_oof es : forall sc el sid, Track.stts_scan m es sc el sid <> OutOfFuel.
  Proof. induction es as [|[cnt delta] t IH]; intros; cbn [Track.stts_scan]; noof. Qed.

  Lemma sum_durations_go_not_oof l : forall cnt acc, Track.sum_durations_go l cnt acc <> OutOfFuel.
  Proof. induction l as [|x t IH]; intros; cbn [Track.sum_durations_go]; noof. Qed.

  Lemma chunk_offset_not_oof tb c : Track.chunk_offset tb c <> OutOfFuel.
  Proof. unfold Track.chunk_offset. noof. Qed.

  Lemma stsc_index_not_oof tb sid : Track.stsc_index tb sid <> OutOfFuel.
  Proof. unfold Track.stsc_index. destruct (Track.t_stsc tb); [discriminate|apply stsc_index_from_not_oof]. Qed.

  Lemma sample_size_not_oof t sid : Track.sample_size t sid <> OutOfFuel.
  Proof. unfold Track.sample_size. noof. Qed.

  Lemma is_sync_sample_not_oof t sid : Track.is_sync_sample t sid <> OutOfFuel.
  Proof. unfold Track.is_sync_sample. noof. Qed.

  Lemma sample_time_not_oof t sid : Track.sample_time m t sid <> OutOfFuel.
  Proof.
    pose proof stts_scan_not_oof. pose proof sum_durations_go_not_oof.
    unfold Track.sample_time, Track.sum_durations. noof.
  Qed.

  Lemma sample_offset_not_oof t sid : Track.sample_offset m t sid <> OutOfFuel.
  Proof.
    pose proof stsc_index_not_oof. pose proof chunk_offset_not_oof. pose proof sum_sizes_not_oof.
    pose proof sum_run_sizes_not_oof.
    unfold Track.sample_offset. noof.
  Qed.
End Lookups.

Theorem read_sample_terminates m r tid sid data p :
  fst (fst (runm (rd_read_sample m r tid sid) (stream_at data p) (meter0 None))) <> OutOfFuel.
Proof.
  assert (G : forall t, bnd' (Track.read_sample m t sid)).
  2:{ unfold rd_read_sample. destruct (tracks_get tid (rd_tracks r)) as [t|]; [|cbn; discriminate].
      specialize (G (track_view t) data p). rewrite mrun_unfold in G. exact G. }
  intros t d q. unfold Track.read_sample.
  pose proof (sample_offset_not_oof m t sid) as H1. pose proof (sample_size_not_oof t sid) as H2.
  pose proof (sample_time_not_oof m t sid) as H3. pose proof (is_sync_sample_not_oof t sid) as H4.
  destruct (Track.sample_offset m t sid) as [off|[]|x|]; try (cbn; discriminate); try congruence.
  destruct (Track.sample_size t sid) as [sz|[]|x|]; try (cbn; discriminate); try congruence.
  unfold seek_to, rd_exact, alloc. cbn [bind]. rewrite mrun_SeekTo.
  assert (K : forall l q', fst (fst (mrun (Alloc (2 * sz + 32)
               (x <- lift (Track.sample_time m t sid);;
                (let '(st, dur) := x in
                 sync <- lift (Track.is_sync_sample t sid);;
                 Ret (Some (Track.mkSample st dur (Track.sample_rendering_offset t sid) sync l))))) d q'))
              <> OutOfFuel).
  { intros l q'. rewrite mrun_Alloc, mrun_bind, mrun_lift.
    destruct (Track.sample_time m t sid) as [[st dur]|e|x|]; try (cbn; discriminate); try congruence.
    all: rewrite mrun_bind, mrun_lift.
    all: destruct (Track.is_sync_sample t sid) as [sy|e|x|]; try (cbn; discriminate); try congruence.
    all: rewrite mrun_Ret; cbn; discriminate. }
  destruct (N.eq_dec sz 0) as [->|Hn].
  - rewrite mrun_RdExact_0. specialize (K [] off).
    destruct (mrun (Alloc _ _) d off) as [[r0 p0] k0]. exact K.
  - destruct (mrun_RdExact sz (fun l => Alloc (2 * sz + 32)
               (x <- lift (Track.sample_time m t sid);;
                (let '(st, dur) := x in
                 sync <- lift (Track.is_sync_sample t sid);;
                 Ret (Some (Track.mkSample st dur (Track.sample_rendering_offset t sid) sync l))))) d off Hn)
      as [(_ & h & _ & _ & E)|(_ & E)]; rewrite E.
    + specialize (K h (off + sz)). destruct (mrun (Alloc _ _) d (off + sz)) as [[r0 p0] k0]. exact K.
    + cbn. discriminate.
Qed.

Print Assumptions read_sample_cost.
Print Assumptions read_sample_terminates.
