(** Round trip of [TrakBox] (trak.rs) *)
From MP4 Require Import KitCont BoxTrak IsoEdts IsoMdia IsoMetaBox IsoTkhd IsoTrak RtEdts RtMdia RtMeta RtTkhd.
From Coq Require Import ZifyN ZifyNat ZifyBool.
Open Scope string_scope.
Open Scope list_scope.
Open Scope N_scope.


Lemma trak_code : u32_of_boxtype (box_type_of "TrakBox") = 0x7472616b.
Proof. vm_compute. reflexivity. Qed.


Definition trak_rt_wf (v : trak) : bool :=
  tkhd_wf (trak_tkhd v)
  && match trak_edts v with Some x => edts_wf x | None => true end
  && match trak_meta v with Some x => meta_rt_wf x | None => true end
  && mdia_rt_wf (trak_mdia v).

Lemma trak_bt_tkhd : boxtype_of_u32 0x746b6864 = TkhdBox. Proof. vm_compute. reflexivity. Qed.
Lemma trak_bt_edts : boxtype_of_u32 0x65647473 = EdtsBox. Proof. vm_compute. reflexivity. Qed.
Lemma trak_bt_mdia : boxtype_of_u32 0x6d646961 = MdiaBox. Proof. vm_compute. reflexivity. Qed.
Lemma trak_bt_meta : boxtype_of_u32 0x6d657461 = MetaBox. Proof. vm_compute. reflexivity. Qed.

Definition trak_u_tkhd (x : tkhd) (a : trak_acc) : trak_acc := let '(a0, a1, a2, a3) := a in (Some x, a1, a2, a3).
Definition trak_u_edts (x : edts) (a : trak_acc) : trak_acc := let '(a0, a1, a2, a3) := a in (a0, Some x, a2, a3).
Definition trak_u_mdia (x : mdia) (a : trak_acc) : trak_acc := let '(a0, a1, a2, a3) := a in (a0, a1, a2, Some x).
Definition trak_u_meta (x : meta) (a : trak_acc) : trak_acc := let '(a0, a1, a2, a3) := a in (a0, a1, Some x, a3).

Definition trak_i_tkhd := ci_of tkhd_size 0x746b6864 iso_tkhd_payload (fun _ => 0%nat) trak_u_tkhd.
Definition trak_i_edts := ci_of edts_size 0x65647473 iso_edts_payload (fun _ => 0%nat) trak_u_edts.
Definition trak_i_mdia := ci_of mdia_size 0x6d646961 iso_mdia_payload (fun _ => 16%nat) trak_u_mdia.
Definition trak_i_meta := ci_of meta_size 0x6d657461 iso_meta_payload meta_fuel trak_u_meta.

Definition trak_items (v : trak) : list (citem (trak_acc)) :=
  [trak_i_tkhd (trak_tkhd v)] ++
  ci_opt trak_i_edts (trak_edts v) ++
  [trak_i_mdia (trak_mdia v)] ++
  ci_opt trak_i_meta (trak_meta v).

Ltac trak_unfold_items := unfold trak_items.
Ltac trak_unfold_i := unfold trak_i_tkhd, trak_i_edts, trak_i_mdia, trak_i_meta in *.

Lemma trak_items_iso v : flat_map ci_iso (trak_items v) = iso_trak_payload v.
Proof.
  unfold iso_trak_payload. trak_unfold_items. rewrite ?flat_map_app, ?flat_map_ci_iso_map. trak_unfold_i.
  destruct (trak_edts v), (trak_meta v);
    cbn [flat_map ci_opt app iso_opt ci_iso ci_of ci_code ci_pl]; rewrite <- ?app_assoc, ?app_nil_r; reflexivity.
Qed.

Lemma trak_items_size v : trak_size v = 8 + ci_total (trak_items v).
Proof.
  unfold trak_size. trak_unfold_items. rewrite ?ci_total_app.
  trak_unfold_i.
  destruct (trak_edts v), (trak_meta v);
    unfold ci_total; cbn [ci_opt map ci_of ci_size sumN fold_right]; hdr_consts; lia.
Qed.

Definition trak_fuel (v : trak) : nat := (4 + Nat.max 16 (match trak_meta v with Some x => meta_fuel x | None => 0 end))%nat.

Lemma trak_items_fuel v : (length (trak_items v) + ci_maxneed (trak_items v) <= trak_fuel v)%nat.
Proof.
  unfold trak_fuel. trak_unfold_items. rewrite ?app_length, ?ci_maxneed_app, ?map_length.
  trak_unfold_i.
  destruct (trak_edts v), (trak_meta v);
    cbn [length ci_opt ci_maxneed ci_need ci_of]; lia.
Qed.

Lemma trak_items_ok m v : trak_rt_wf v = true -> trak_size v < U32 ->
  Forall (ci_ok_s (trak_dispatch m)) (trak_items v).
Proof.
  intros H Hs. apply Forall_ci_ok_total; [| rewrite trak_items_size in Hs; clear -Hs; lia].
  unfold trak_rt_wf in H. split_andb.
  unfold trak_items. repeat apply Forall_app_intro.
  - apply Forall_one. ci_leaf_t (cont_of_leaf _ _ _ _ _ _ tkhd_roundtrip) trak_bt_tkhd.
  - apply Forall_ci_opt. intros x Hx. rewrite Hx in *. ci_leaf_t edts_roundtrip trak_bt_edts.
  - apply Forall_one. ci_leaf_t (mdia_roundtrip Dbg) trak_bt_mdia.
  - apply Forall_ci_opt. intros x Hx. rewrite Hx in *. ci_leaf_ts meta_roundtrip trak_bt_meta.
Qed.

Lemma trak_payload_len v : trak_rt_wf v = true -> trak_size v < U32 ->
  lenN (iso_trak_payload v) + 8 = trak_size v.
Proof.
  intros H Hs. apply (cont_payload_len_s (trak_dispatch Dbg) (trak_items v)).
  - now apply trak_items_ok.
  - apply trak_items_iso.
  - apply trak_items_size.
Qed.

Ltac trak_child me Hs :=
  lazymatch goal with
  | |- wspec (enc_tkhd _) _ _ => apply (cont_rt_wspec _ _ _ _ _ _ _ _ (cont_of_leaf _ _ _ _ _ _ tkhd_roundtrip))
  | |- wspec (enc_edts _) _ _ => apply (cont_rt_wspec _ _ _ _ _ _ _ _ edts_roundtrip)
  | |- wspec (enc_mdia _ _) _ _ => apply (cont_rt_wspec _ _ _ _ _ _ _ _ (mdia_roundtrip me))
  | |- wspec (enc_meta _) _ _ => apply (cont_rt_wspec_s _ _ _ _ _ _ _ _ meta_roundtrip)
  end;
  [ assumption | let Hs' := fresh "Hs" in pose proof Hs as Hs'; unfold trak_size in Hs'; cont_size_tac Hs' ].

Ltac trak_opt me Hs :=
  let x := fresh "x" in let Hx := fresh "Hx" in
  apply wspec_opt_child; intros x Hx; unfold trak_size in Hs; rewrite Hx in *; eexists; trak_child me Hs.

Lemma trak_enc (me : mode) v : trak_rt_wf v = true -> trak_size v < U32 ->
  wspec (enc_trak me v) (trak_size v) (be 4 (trak_size v) ++ be 4 0x7472616b ++ iso_trak_payload v).
Proof.
  intros H Hs. rewrite <- trak_code. unfold trak_rt_wf in H. split_andb.
  unfold enc_trak, iso_trak_payload.
  eapply wspec_out.
  - wspec_go.
    + trak_child me Hs.
    + trak_opt me Hs.
    + trak_child me Hs.
    + trak_opt me Hs.
  - unfold iso_all. rewrite <- ?app_assoc, ?app_nil_r. reflexivity.
Qed.

Lemma trak_dec v fuel m d l p post : trak_rt_wf v = true -> trak_size v < U32 ->
  (trak_fuel v <= fuel)%nat -> p + trak_size v < 2 ^ 63 ->
  dropN (p + 8) d = iso_trak_payload v ++ post ->
  run (dec_trak_fuel fuel m (trak_size v)) (mkStream d l (p + 8) (iso_trak_payload v ++ post))
  = (Ok v, mkStream d l (p + trak_size v) post).
Proof.
  intros H Hs Hf Hp Hd. unfold dec_trak_fuel.
  rewrite (cont_dec_items_s m _ (trak_size v) (trak_dispatch m) (trak_items v) (iso_trak_payload v));
    [ | now apply trak_items_ok | apply trak_items_iso | apply trak_items_size | exact Hp
      | pose proof (trak_items_fuel v); lia | exact Hd ].
  trak_unfold_items. rewrite ?ci_fold_app.
  destruct v as [f_tkhd f_edts f_meta f_mdia].
  cbn [trak_tkhd trak_edts trak_meta trak_mdia] in *.
  trak_unfold_i.
  destruct f_edts, f_meta;
    cbn [ci_fold fold_left ci_opt ci_of ci_upd trak_u_tkhd trak_u_edts trak_u_mdia trak_u_meta];
    cbn [ci_fold fold_left ci_opt ci_of ci_upd trak_u_tkhd trak_u_edts trak_u_mdia trak_u_meta app];
    apply run_cont_finish; (clear -Hp; lia).
Qed.

Theorem trak_roundtrip (me : mode) :
  cont_roundtrip_s trak_rt_wf trak_size 0x7472616b (enc_trak me) dec_trak_fuel iso_trak_payload trak_fuel.
Proof.
  apply cont_roundtrip_s_intro.
  - apply (trak_enc me).
  - apply trak_payload_len.
  - intros; now apply trak_dec.
Qed.

(** the [Default] value (its sample table has neither stco nor co64) is written but rejected
    when read back; [trak_rt_wf] excludes it through [stbl_rt_wf] *)
Lemma trak_default_rejected :
  trak_wf trak_default = true /\ trak_rt_wf trak_default = false /\
  fst (run (dec_trak_fuel 30 Dbg (trak_size trak_default)) (stream_at (wout (enc_trak Dbg trak_default)) 8))
  = Err EData.
Proof. vm_compute. repeat split; reflexivity. Qed.

Print Assumptions trak_roundtrip.
