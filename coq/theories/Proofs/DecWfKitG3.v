(** * Kit for "every decoded value is well formed" (property C04, second half), group G3

    A partial-correctness predicate [post c Q]: on every stream whose bytes are bytes
    (every element below 256), IF [run c] returns [Ok a] THEN [Q a].  The stream condition
    [sok] is an invariant of [run] for every program ([run_sok]), so postconditions never
    have to mention the stream, and a sub-program whose result is irrelevant is discharged
    by [post_true]. *)
From MP4 Require Export KitCodecs.
From Coq Require Import ZifyN ZifyNat ZifyBool.
Open Scope string_scope.
Open Scope list_scope.
Open Scope N_scope.

(** ** bytes stay bytes *)
Definition sok (s : stream) : Prop :=
  bytes_ok (s_view s) = true /\ bytes_ok (s_data s) = true.

Lemma bytes_ok_dropN n l : bytes_ok l = true -> bytes_ok (dropN n l) = true.
Proof.
  revert n; induction l as [|b t IH]; intros n H; cbn [dropN].
  - destruct (n =? 0); reflexivity.
  - destruct (n =? 0); [exact H|].
    cbn [bytes_ok forallb] in H. apply andb_true_iff in H as [_ Ht]. apply IH. exact Ht.
Qed.

Lemma splitN_ok n l h r : splitN n l = Some (h, r) -> bytes_ok l = true ->
  lenN h = n /\ bytes_ok h = true /\ bytes_ok r = true.
Proof.
  intros E H. apply splitN_some in E as [-> E]. rewrite bytes_ok_app in H.
  apply andb_true_iff in H as [Hh Hr]. auto.
Qed.

Lemma seek_abs_sok s p : sok s -> sok (seek_abs s p).
Proof.
  intros [Hv Hd]. unfold seek_abs. destruct (s_pos s <=? p); split; cbn [s_view s_data]; auto;
    apply bytes_ok_dropN; assumption.
Qed.

Lemma run_sok {A} (c : prog A) s : sok s -> sok (snd (run c s)).
Proof.
  revert s; induction c as [a|e|x| |n k IH|q k IH|d k IH|k IH|n k IH|k IH]; intros s Hs;
    cbn [run snd]; auto.
  - destruct (n =? 0); [now apply IH|].
    destruct (splitN n (s_view s)) as [[h r]|] eqn:E.
    + apply IH. destruct Hs as [Hv Hd]. destruct (splitN_ok _ _ _ _ E Hv) as (_ & _ & Hr).
      split; cbn [s_view s_data]; assumption.
    + cbn [snd]. destruct Hs as [Hv Hd]. split; cbn [eof_stream s_view s_data]; auto.
  - apply IH. now apply seek_abs_sok.
  - unfold seek_cur.
    destruct ((Z.of_N (s_pos s) + d <? 0) || (Z.of_N U64 <=? Z.of_N (s_pos s) + d))%Z; cbn [snd]; auto.
    apply IH. now apply seek_abs_sok.
Qed.

(** ** the predicate and its rules *)
Definition post {A} (c : prog A) (Q : A -> Prop) : Prop :=
  forall s a s', sok s -> run c s = (Ok a, s') -> Q a.

Lemma post_true {A} (c : prog A) : post c (fun _ => True).
Proof. intros s a s' _ _. exact I. Qed.

Lemma post_conseq {A} (c : prog A) (P Q : A -> Prop) :
  post c P -> (forall a, P a -> Q a) -> post c Q.
Proof. intros H HPQ s a s' Hs E. apply HPQ. exact (H s a s' Hs E). Qed.

Lemma post_ret {A} (a : A) (Q : A -> Prop) : Q a -> post (Ret a) Q.
Proof. intros H s a' s' _ E. cbn [run] in E. inversion E; subst. exact H. Qed.

Lemma post_throw {A} e (Q : A -> Prop) : post (Throw e) Q.
Proof. intros s a s' _ E. cbn [run] in E. discriminate. Qed.

Lemma post_crash {A} x (Q : A -> Prop) : post (Crash x) Q.
Proof. intros s a s' _ E. cbn [run] in E. discriminate. Qed.

Lemma post_spin {A} (Q : A -> Prop) : post (@Spin A) Q.
Proof. intros s a s' _ E. cbn [run] in E. discriminate. Qed.

Lemma post_bind {A B} (c : prog A) (f : A -> prog B) (P : A -> Prop) (Q : B -> Prop) :
  post c P -> (forall a, P a -> post (f a) Q) -> post (bind c f) Q.
Proof.
  intros Hc Hf s b s' Hs E. rewrite run_bind in E.
  destruct (run c s) as [[a|e|x|] s1] eqn:E1; try discriminate.
  pose proof (run_sok c s Hs) as Hs1. rewrite E1 in Hs1. cbn [snd] in Hs1.
  exact (Hf a (Hc s a s1 Hs E1) s1 b s' Hs1 E).
Qed.

(** a bind whose first result carries no information *)
Lemma post_bind_any {A B} (c : prog A) (f : A -> prog B) (Q : B -> Prop) :
  (forall a, post (f a) Q) -> post (bind c f) Q.
Proof. intros Hf. apply (post_bind c f (fun _ => True)); [apply post_true | intros a _; apply Hf]. Qed.

Lemma post_RdExact {A} n (k : bytes -> prog A) (Q : A -> Prop) :
  (forall l, lenN l = n -> bytes_ok l = true -> post (k l) Q) -> post (RdExact n k) Q.
Proof.
  intros Hk s a s' Hs E. cbn [run] in E.
  destruct (N.eqb_spec n 0) as [->|Hn].
  - exact (Hk [] eq_refl eq_refl s a s' Hs E).
  - destruct (splitN n (s_view s)) as [[h r]|] eqn:E1; [|discriminate].
    destruct Hs as [Hv Hd]. destruct (splitN_ok _ _ _ _ E1 Hv) as (Hl & Hh & Hr).
    refine (Hk h Hl Hh _ a s' _ E). split; cbn [s_view s_data]; assumption.
Qed.

Lemma post_rd_u w : post (rd_u w) (fun x => x < 256 ^ N.of_nat w).
Proof.
  unfold rd_u. apply post_RdExact. intros l Hl Hok. apply post_ret.
  rewrite <- Hl. now apply unbe_lt.
Qed.

Lemma post_rd_vec n : post (rd_vec n) (fun l => lenN l = n /\ bytes_ok l = true).
Proof.
  unfold rd_vec. intros s a s' Hs E. cbn [run] in E. revert s a s' Hs E.
  change (post (RdExact n (fun l => Ret l)) (fun l => lenN l = n /\ bytes_ok l = true)).
  apply post_RdExact. intros l Hl Hok. apply post_ret. auto.
Qed.

Lemma post_rd_arr n : post (rd_arr n) (fun l => lenN l = n /\ bytes_ok l = true).
Proof. unfold rd_arr. apply post_RdExact. intros l Hl Hok. apply post_ret. auto. Qed.

Lemma post_lift {A} (r : res A) : post (lift r) (fun a => r = Ok a).
Proof. intros s a s' _ E. rewrite run_lift in E. inversion E; subst. reflexivity. Qed.

Lemma post_if {A} (b : bool) (c1 c2 : prog A) (Q : A -> Prop) :
  (b = true -> post c1 Q) -> (b = false -> post c2 Q) -> post (if b then c1 else c2) Q.
Proof. destruct b; auto. Qed.

(** the counted loop *)
Lemma post_rd_n {A} (n : nat) (body : prog A) (f : A -> bool) :
  post body (fun x => f x = true) ->
  post (rd_n n body) (fun l => length l = n /\ forallb f l = true).
Proof.
  intros Hb. induction n as [|n IH]; cbn [rd_n].
  - apply post_ret. auto.
  - eapply post_bind; [exact Hb|]. intros x Hx. cbv beta.
    eapply post_bind; [exact IH|]. intros r [Hl Hr]. cbv beta.
    apply post_ret. cbn [length forallb]. rewrite Hx, Hr, Hl. auto.
Qed.

Lemma lenN_of_length {A} (l : list A) n : length l = N.to_nat n -> lenN l = n.
Proof. intros H. unfold lenN. rewrite H. apply N2Nat.id. Qed.

(** ** the statement of the task, from [post] *)
Lemma post_elim {A} (c : prog A) (Q : A -> Prop) : post c Q ->
  forall s v s', run c s = (Ok v, s') -> bytes_ok (s_view s) = true -> bytes_ok (s_data s) = true -> Q v.
Proof. intros H s v s' E Hv Hd. exact (H s v s' (conj Hv Hd) E). Qed.

(** ** re-encoding is a fixpoint, generically over [leaf_roundtrip] *)
Lemma dropN_header a b rest : dropN 8 (be 4 a ++ be 4 b ++ rest) = rest.
Proof.
  rewrite app_assoc. apply dropN_app_n. rewrite lenN_app, !lenN_be. reflexivity.
Qed.

Definition reencode_fixpoint_for {X} (size : X -> N) (enc : X -> wprog N) (dec : mode -> N -> prog X)
           (v : X) : Prop :=
  wfin (enc v) = Ok (size v) /\
  forall m' d l p post, p + size v < 2 ^ 63 ->
    run (dec m' (size v)) (mkStream d l (p + 8) (dropN 8 (wout (enc v)) ++ post))
    = (Ok v, mkStream d l (p + size v) post).

Lemma reencode_fixpoint_of_wf {X} (wf : X -> bool) (size : X -> N) (code : N)
      (enc : X -> wprog N) (dec : mode -> N -> prog X) (payload : X -> bytes) :
  leaf_roundtrip wf size code enc dec payload ->
  forall v, wf v = true -> size v < U32 -> reencode_fixpoint_for size enc dec v.
Proof.
  intros Hrt v Hwf Hsz. destruct (Hrt v Hwf Hsz) as (H1 & _ & H3 & _ & H5).
  split; [exact H1|]. intros m' d l p post0 Hp. rewrite H3, dropN_header. now apply H5.
Qed.

(** ** tactics *)

(** [ufit]/[<?] goals from [<] hypotheses *)
Lemma ufit_of_lt w x : x < 256 ^ N.of_nat w -> ufit w x = true.
Proof. intros H. unfold ufit. now apply N.ltb_lt. Qed.

(** one step through a [bind] whose head is a primitive *)
Ltac pstep :=
  lazymatch goal with
  | |- post (bind rd_u8 _) _ => eapply post_bind; [apply (post_rd_u 1)|]; cbv beta
  | |- post (bind rd_u16 _) _ => eapply post_bind; [apply (post_rd_u 2)|]; cbv beta
  | |- post (bind rd_u24 _) _ => eapply post_bind; [apply (post_rd_u 3)|]; cbv beta
  | |- post (bind rd_u32 _) _ => eapply post_bind; [apply (post_rd_u 4)|]; cbv beta
  | |- post (bind rd_u48 _) _ => eapply post_bind; [apply (post_rd_u 6)|]; cbv beta
  | |- post (bind rd_u64 _) _ => eapply post_bind; [apply (post_rd_u 8)|]; cbv beta
  | |- post (bind (rd_vec _) _) _ => eapply post_bind; [apply post_rd_vec|]; cbv beta
  | |- post (bind (rd_arr _) _) _ => eapply post_bind; [apply post_rd_arr|]; cbv beta
  end.

(** skip a [bind] whose first result is irrelevant *)
Ltac pskip := apply post_bind_any; cbv beta.

Ltac pif :=
  lazymatch goal with
  | |- post (if ?c then _ else _) _ => apply post_if; intros ?
  end.
