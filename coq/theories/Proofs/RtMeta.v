(** Round trip of [MetaBox] (meta.rs).  [read_box] runs the child loop twice over the same bytes
    with a seek back in between (and, since the fix "leave the stream at the end of the meta box",
    ends with the usual seek to [start + size]), so the statement is [cont_roundtrip_s] (KitCont.v). *)
From MP4 Require Import KitCont BoxMeta IsoMetaBox IsoHdlr IsoIlst RtHdlr RtIlst.
From Coq Require Import ZifyN ZifyNat ZifyBool.
Open Scope string_scope.
Open Scope list_scope.
Open Scope N_scope.

Lemma meta_code : u32_of_boxtype (box_type_of "MetaBox") = 0x6d657461.
Proof. vm_compute. reflexivity. Qed.
Lemma meta_bt_hdlr : boxtype_of_u32 0x68646c72 = HdlrBox. Proof. vm_compute. reflexivity. Qed.
Lemma meta_bt_ilst : boxtype_of_u32 0x696c7374 = IlstBox. Proof. vm_compute. reflexivity. Qed.

(** what the format can represent: [meta_wf], and the raw children of the [Unknown] shape carry
    the type their code reads back as ([BoxType::UnknownBox(c)] with the code [c] of a type the
    library knows is written as [c] and read back as that known type) *)
Notation meta_raw_ok :=
  (fun p : boxtype * bytes => boxtype_eqb (boxtype_of_u32 (u32_of_boxtype (fst p))) (fst p)).

Definition meta_rt_wf (v : meta) : bool :=
  meta_wf v && match v with MetaMdir _ => true | MetaUnknown _ d => forallb meta_raw_ok d end.

Definition meta_fuel (v : meta) : nat :=
  match v with
  | MetaMdir il => 2 + match il with Some i => ilst_fuel i | None => 0 end
  | MetaUnknown _ d => 1 + length d
  end.

Lemma boxtype_eqb_eq a b : boxtype_eqb a b = true -> a = b.
Proof.
  destruct a, b; try (intros H; vm_compute in H; discriminate H); try reflexivity.
  cbn [boxtype_eqb]. intros H. apply N.eqb_eq in H. now subst.
Qed.

(** ** The children, as the three dispatch functions see them *)
Definition meta_i1_hdlr := ci_of hdlr_size 0x68646c72 iso_hdlr_payload (fun _ => 0%nat)
                                 (fun x (_ : option hdlr) => Some x).
Definition meta_skip_hdlr {Acc} (h : hdlr) : citem Acc := ci_skip (hdlr_size h) 0x68646c72 (iso_hdlr_payload h).
Definition meta_skip_ilst {Acc} (i : ilst) : citem Acc := ci_skip (ilst_size i) 0x696c7374 (iso_ilst_payload i).
Definition meta_skip_raw {Acc} (p : boxtype * bytes) : citem Acc :=
  ci_skip (lenN (snd p) + 8) (u32_of_boxtype (fst p)) (snd p).
Definition meta_i2_ilst := ci_of ilst_size 0x696c7374 iso_ilst_payload ilst_fuel
                                 (fun x (_ : option ilst) => Some x).
Definition meta_i2_raw (p : boxtype * bytes) : citem (list (boxtype * bytes)) :=
  mkCitem (lenN (snd p) + 8) (u32_of_boxtype (fst p)) (snd p) (fun a => a ++ [p]) 0%nat.

Definition meta_items1_mdir (il : option ilst) : list (citem (option hdlr)) :=
  [meta_i1_hdlr iso_meta_mdir_hdlr] ++ ci_opt meta_skip_ilst il.
Definition meta_items1_unknown h (d : list (boxtype * bytes)) : list (citem (option hdlr)) :=
  [meta_i1_hdlr h] ++ map meta_skip_raw d.
Definition meta_items2_mdir (il : option ilst) : list (citem (option ilst)) :=
  [meta_skip_hdlr iso_meta_mdir_hdlr] ++ ci_opt meta_i2_ilst il.
Definition meta_items2_unknown h (d : list (boxtype * bytes)) : list (citem (list (boxtype * bytes))) :=
  [meta_skip_hdlr h] ++ map meta_i2_raw d.

Lemma meta_iso1_mdir il : flat_map ci_iso (meta_items1_mdir il) = iso_meta_children (MetaMdir il).
Proof.
  destruct il; cbn [meta_items1_mdir ci_opt app flat_map iso_meta_children iso_opt]; rewrite ?app_nil_r; reflexivity.
Qed.
Lemma meta_iso2_mdir il : flat_map ci_iso (meta_items2_mdir il) = iso_meta_children (MetaMdir il).
Proof.
  destruct il; cbn [meta_items2_mdir ci_opt app flat_map iso_meta_children iso_opt]; rewrite ?app_nil_r; reflexivity.
Qed.
Lemma meta_iso1_unknown h d : flat_map ci_iso (meta_items1_unknown h d) = iso_meta_children (MetaUnknown h d).
Proof.
  unfold meta_items1_unknown. rewrite flat_map_app, flat_map_ci_iso_map. cbn [flat_map iso_meta_children].
  rewrite app_nil_r. reflexivity.
Qed.
Lemma meta_iso2_unknown h d : flat_map ci_iso (meta_items2_unknown h d) = iso_meta_children (MetaUnknown h d).
Proof.
  unfold meta_items2_unknown. rewrite flat_map_app, flat_map_ci_iso_map. cbn [flat_map iso_meta_children].
  rewrite app_nil_r. reflexivity.
Qed.

Lemma meta_size1_mdir il : meta_size (MetaMdir il) = 12 + ci_total (meta_items1_mdir il).
Proof.
  unfold meta_size, meta_items1_mdir, ci_total.
  destruct il; cbn [ci_opt app map sumN fold_right meta_i1_hdlr meta_skip_ilst ci_of ci_skip ci_size];
    change (hdlr_size hdlr_default) with 33; change (hdlr_size iso_meta_mdir_hdlr) with 33; hdr_consts; lia.
Qed.
Lemma meta_size2_mdir il : meta_size (MetaMdir il) = 12 + ci_total (meta_items2_mdir il).
Proof.
  unfold meta_size, meta_items2_mdir, ci_total.
  destruct il; cbn [ci_opt app map sumN fold_right meta_skip_hdlr meta_i2_ilst ci_of ci_skip ci_size];
    change (hdlr_size hdlr_default) with 33; change (hdlr_size iso_meta_mdir_hdlr) with 33; hdr_consts; lia.
Qed.
Lemma meta_size1_unknown h d : meta_size (MetaUnknown h d) = 12 + ci_total (meta_items1_unknown h d).
Proof.
  unfold meta_size, meta_items1_unknown. rewrite ci_total_app.
  rewrite (ci_total_map meta_skip_raw (fun p => lenN (snd p) + HEADER_SIZE)) by reflexivity.
  change (ci_total [meta_i1_hdlr h]) with (hdlr_size h + 0). hdr_consts. change (8 + 4) with 12. rewrite N.add_0_r. reflexivity.
Qed.
Lemma meta_size2_unknown h d : meta_size (MetaUnknown h d) = 12 + ci_total (meta_items2_unknown h d).
Proof.
  unfold meta_size, meta_items2_unknown. rewrite ci_total_app.
  rewrite (ci_total_map meta_i2_raw (fun p => lenN (snd p) + HEADER_SIZE)) by reflexivity.
  change (ci_total [@meta_skip_hdlr (list (boxtype * bytes)) h]) with (hdlr_size h + 0). hdr_consts. change (8 + 4) with 12. rewrite N.add_0_r. reflexivity.
Qed.

Lemma meta_hdlr_wf_mdir : hdlr_wf iso_meta_mdir_hdlr = true.
Proof. vm_compute. reflexivity. Qed.

Lemma meta_hdlr_eqb : boxtype_eqb HdlrBox HdlrBox = true.
Proof. vm_compute. reflexivity. Qed.

Lemma meta_raw_inv p :
  ufit 4 (u32_of_boxtype (fst p)) && bytes_ok (snd p) && negb (boxtype_eqb (fst p) HdlrBox) = true ->
  meta_raw_ok p = true ->
  u32_of_boxtype (fst p) < U32 /\ boxtype_of_u32 (u32_of_boxtype (fst p)) = fst p /\ fst p <> HdlrBox.
Proof.
  intros H Hr. split_andb. cbv beta in Hr. apply boxtype_eqb_eq in Hr.
  split; [| split; [exact Hr|]].
  - rewrite pow256_4 in H. exact H.
  - intros E. rewrite E, meta_hdlr_eqb in H0. discriminate H0.
Qed.

Lemma meta_find_hdlr_other m f bt s a : bt <> HdlrBox ->
  meta_find_hdlr m f bt s a = bind (skip_box m s) (fun _ => Ret a).
Proof. intros H. destruct bt; try reflexivity. now destruct H. Qed.

Lemma meta_ilst_len i : ilst_wf i = true -> ilst_size i < U32 -> lenN (iso_ilst_payload i) + 8 = ilst_size i.
Proof. intros H Hs. exact (cont_rt_len _ _ _ _ _ _ _ i ilst_roundtrip H Hs). Qed.

Lemma meta_hdlr_len h : hdlr_wf h = true -> hdlr_size h < U32 -> lenN (iso_hdlr_payload h) + 8 = hdlr_size h.
Proof. intros H Hs. exact (cont_rt_len _ _ _ _ _ _ _ h (cont_of_leaf _ _ _ _ _ _ hdlr_roundtrip) H Hs). Qed.

(** first loop *)
Lemma meta_ok1_mdir m il : meta_rt_wf (MetaMdir il) = true -> meta_size (MetaMdir il) < U32 ->
  Forall (ci_ok_s (meta_find_hdlr m)) (meta_items1_mdir il).
Proof.
  intros H Hs. apply Forall_ci_ok_total; [| rewrite meta_size1_mdir in Hs; clear -Hs; lia].
  unfold meta_rt_wf, meta_wf in H. rewrite andb_true_r in H.
  unfold meta_items1_mdir. apply Forall_app_intro.
  - apply Forall_one. ci_leaf (cont_of_leaf _ _ _ _ _ _ hdlr_roundtrip) meta_bt_hdlr.
    exact meta_hdlr_wf_mdir.
  - apply Forall_ci_opt. intros i ->. intros Hsz. apply (ci_ok_skip _ m).
    + apply meta_ilst_len; assumption.
    + exact Hsz.
    + clear; vm_compute; reflexivity.
    + intros f s acc. rewrite meta_bt_ilst. reflexivity.
Qed.

Lemma meta_ok1_unknown m h d : meta_rt_wf (MetaUnknown h d) = true -> meta_size (MetaUnknown h d) < U32 ->
  Forall (ci_ok_s (meta_find_hdlr m)) (meta_items1_unknown h d).
Proof.
  intros H Hs. apply Forall_ci_ok_total; [| rewrite meta_size1_unknown in Hs; clear -Hs; lia].
  unfold meta_rt_wf, meta_wf in H. apply andb_true_iff in H as [H Hraw].
  apply andb_true_iff in H as [H Hd]. apply andb_true_iff in H as [Hh Hm].
  unfold meta_items1_unknown. apply Forall_app_intro.
  - apply Forall_one. ci_leaf (cont_of_leaf _ _ _ _ _ _ hdlr_roundtrip) meta_bt_hdlr.
  - apply Forall_ci_map. intros x Hx Hsz.
    destruct (meta_raw_inv x (forallb_In _ _ _ Hd Hx) (forallb_In _ _ _ Hraw Hx)) as (H1 & H2 & H3).
    apply (ci_ok_skip _ m).
    + reflexivity.
    + exact Hsz.
    + exact H1.
    + intros f s acc. rewrite H2. now apply meta_find_hdlr_other.
Qed.

(** second loop, handler type mdir *)
Lemma meta_ok2_mdir m il : meta_rt_wf (MetaMdir il) = true -> meta_size (MetaMdir il) < U32 ->
  Forall (ci_ok_s (meta_mdir_dispatch m)) (meta_items2_mdir il).
Proof.
  intros H Hs. apply Forall_ci_ok_total; [| rewrite meta_size2_mdir in Hs; clear -Hs; lia].
  unfold meta_rt_wf, meta_wf in H. rewrite andb_true_r in H.
  unfold meta_items2_mdir. apply Forall_app_intro.
  - apply Forall_one. intros Hsz. apply (ci_ok_skip _ m).
    + apply meta_hdlr_len; [exact meta_hdlr_wf_mdir | exact Hsz].
    + exact Hsz.
    + clear; vm_compute; reflexivity.
    + intros f s acc. rewrite meta_bt_hdlr. reflexivity.
  - apply Forall_ci_opt. intros i ->. ci_leaf ilst_roundtrip meta_bt_ilst.
Qed.

(** second loop, any other handler type *)
Lemma meta_unknown_other m f bt s a : bt <> HdlrBox ->
  meta_unknown_dispatch m f bt s a =
  match checked_sub s HEADER_SIZE with
  | None => Throw EData
  | Some box_data_size => box_data <- rd_vec box_data_size ;; Ret (a ++ [(bt, box_data)])
  end.
Proof. intros H. destruct bt; try reflexivity. now destruct H. Qed.

Lemma meta_ok2_unknown m h d : meta_rt_wf (MetaUnknown h d) = true -> meta_size (MetaUnknown h d) < U32 ->
  Forall (ci_ok_s (meta_unknown_dispatch m)) (meta_items2_unknown h d).
Proof.
  intros H Hs. apply Forall_ci_ok_total; [| rewrite meta_size2_unknown in Hs; clear -Hs; lia].
  unfold meta_rt_wf, meta_wf in H. apply andb_true_iff in H as [H Hraw].
  apply andb_true_iff in H as [H Hd]. apply andb_true_iff in H as [Hh Hm].
  unfold meta_items2_unknown. apply Forall_app_intro.
  - apply Forall_one. intros Hsz. apply (ci_ok_skip _ m).
    + apply meta_hdlr_len; [exact Hh | exact Hsz].
    + exact Hsz.
    + clear; vm_compute; reflexivity.
    + intros f s acc. rewrite meta_bt_hdlr. reflexivity.
  - apply Forall_ci_map. intros x Hx Hsz.
    destruct (meta_raw_inv x (forallb_In _ _ _ Hd Hx) (forallb_In _ _ _ Hraw Hx)) as (H1 & H2 & H3).
    destruct x as [bt b]. cbn [fst snd] in *.
    unfold ci_ok_g, meta_i2_raw. cbn [ci_size ci_code ci_pl ci_upd ci_need fst snd] in *.
    repeat split; auto.
    intros f acc dd l p rest _ Hp _. rewrite H2, meta_unknown_other by exact H3.
    rewrite checked_sub_ok by (clear; hdr_consts; lia).
    rewrite (run_rd_vec_bind _ b) by (clear; hdr_consts; lia).
    cbn [run]. f_equal. f_equal. clear. hdr_consts. lia.
Qed.

(** ** Encoder *)
Definition meta_raw_size (p : boxtype * bytes) : N := lenN (snd p) + 8.

Lemma meta_raw_enc p : lenN (snd p) + 8 < U32 ->
  wspec (enc_meta_raw p) tt (iso_box (u32_of_boxtype (fst p)) (snd p)).
Proof.
  intros H. unfold enc_meta_raw, iso_box.
  assert (Hh : lenN (snd p) + HEADER_SIZE < U32) by (hdr_consts; exact H).
  eapply wspec_out; [wspec_go|].
  replace (8 + lenN (snd p)) with (lenN (snd p) + HEADER_SIZE) by (clear; hdr_consts; lia).
  rewrite <- ?app_assoc, ?app_nil_r. reflexivity.
Qed.

Lemma meta_enc v : meta_rt_wf v = true -> meta_size v < U32 ->
  wspec (enc_meta v) (meta_size v) (be 4 (meta_size v) ++ be 4 0x6d657461 ++ iso_meta_payload v).
Proof.
  intros H Hs. rewrite <- meta_code. unfold iso_meta_payload, enc_meta.
  assert (H0 : 0 < 256 ^ N.of_nat 3) by (clear; vm_compute; reflexivity).
  destruct v as [il | h d].
  - unfold meta_rt_wf, meta_wf in H. rewrite andb_true_r in H.
    change (mkHdlr (hdlr_version hdlr_default) (hdlr_flags hdlr_default) meta_MDIR (hdlr_name hdlr_default))
      with iso_meta_mdir_hdlr.
    pose proof Hs as Hs'. rewrite meta_size1_mdir in Hs'.
    eapply wspec_out.
    + wspec_go.
      * apply (cont_rt_wspec _ _ _ _ _ _ _ _ (cont_of_leaf _ _ _ _ _ _ hdlr_roundtrip));
          [exact meta_hdlr_wf_mdir | clear; vm_compute; reflexivity].
      * apply wspec_opt_child. intros i Hi. rewrite Hi in H, Hs'. eexists.
        apply (cont_rt_wspec _ _ _ _ _ _ _ _ ilst_roundtrip); [exact H|].
        clear -Hs'. unfold meta_items1_mdir in Hs'. rewrite ci_total_app in Hs'.
        unfold ci_total in Hs'. cbn [ci_opt map sumN fold_right meta_skip_ilst ci_skip ci_size] in Hs'. lia.
    + cbn [iso_meta_children]. rewrite <- ?app_assoc, ?app_nil_r. reflexivity.
  - unfold meta_rt_wf, meta_wf in H. apply andb_true_iff in H as [H Hraw].
    apply andb_true_iff in H as [H Hd]. apply andb_true_iff in H as [Hh Hm].
    pose proof Hs as Hs'. rewrite meta_size1_unknown in Hs'.
    unfold meta_items1_unknown in Hs'. rewrite ci_total_app in Hs'.
    rewrite (ci_total_map meta_skip_raw meta_raw_size) in Hs' by reflexivity.
    change (ci_total [meta_i1_hdlr h]) with (hdlr_size h + 0) in Hs'.
    eapply wspec_out.
    + wspec_go.
      * apply (cont_rt_wspec _ _ _ _ _ _ _ _ (cont_of_leaf _ _ _ _ _ _ hdlr_roundtrip));
          [exact Hh | clear -Hs'; lia].
      * apply (wspec_wr_each _ (fun p => iso_box (u32_of_boxtype (fst p)) (snd p))).
        intros x Hx. eexists. apply meta_raw_enc.
        pose proof (sumN_map_In_le meta_raw_size _ _ Hx) as Hle.
        unfold meta_raw_size at 1 in Hle. apply (N.le_lt_trans _ _ _ Hle). clear -Hs'. lia.
    + cbn [iso_meta_children]. unfold iso_all. rewrite <- ?app_assoc, ?app_nil_r. reflexivity.
Qed.

Lemma meta_payload_len v : meta_rt_wf v = true -> meta_size v < U32 ->
  lenN (iso_meta_payload v) + 8 = meta_size v.
Proof.
  intros H Hs. unfold iso_meta_payload. rewrite !lenN_app, !lenN_be.
  destruct v as [il | h d].
  - pose proof (cont_payload_len_s (meta_find_hdlr Dbg) (meta_items1_mdir il) _ _
                  (meta_ok1_mdir Dbg il H Hs) (meta_iso1_mdir il) eq_refl) as L.
    rewrite meta_size1_mdir. clear -L. lia.
  - pose proof (cont_payload_len_s (meta_find_hdlr Dbg) (meta_items1_unknown h d) _ _
                  (meta_ok1_unknown Dbg h d H Hs) (meta_iso1_unknown h d) eq_refl) as L.
    rewrite meta_size1_unknown. clear -L. lia.
Qed.

(** ** Decoder *)
Lemma meta_fullbox x : be 1 0 ++ be 3 0 ++ x = be 4 0 ++ x.
Proof. reflexivity. Qed.

Lemma meta_inv_children d p ch post :
  dropN (p + 8) d = (be 1 0 ++ be 3 0 ++ ch) ++ post -> dropN (p + 12) d = ch ++ post.
Proof.
  intros H. rewrite meta_fullbox, <- app_assoc in H.
  pose proof (inv_data_adv d (p + 8) (be 4 0) (ch ++ post) H) as H'.
  unfold inv_data in H'. rewrite lenN_be in H'.
  replace (p + 12) with (p + 8 + N.of_nat 4) by lia. exact H'.
Qed.

Lemma run_SeekTo_back {A} (k : prog A) d l p v q :
  q < p -> run (SeekTo q k) (mkStream d l p v) = run k (mkStream d l q (dropN q d)).
Proof.
  intros H. cbn [run]. unfold seek_abs. cbn [s_pos s_data s_len s_view].
  apply N.leb_gt in H. now rewrite H.
Qed.

Lemma meta_fold_raw dd acc : ci_fold (map meta_i2_raw dd) acc = acc ++ dd.
Proof.
  revert acc. induction dd as [|x t IH]; intros acc; cbn [map]; unfold ci_fold in *; cbn [fold_left].
  - now rewrite app_nil_r.
  - cbn [meta_i2_raw ci_upd]. rewrite IH, <- app_assoc. reflexivity.
Qed.

Lemma meta_mdir_not : (hdlr_handler_type iso_meta_mdir_hdlr =? meta_MDIR) = true.
Proof. reflexivity. Qed.

Lemma meta_dec v fuel m d l p post : meta_rt_wf v = true -> meta_size v < U32 ->
  (meta_fuel v <= fuel)%nat -> p + meta_size v < 2 ^ 63 ->
  dropN (p + 8) d = iso_meta_payload v ++ post ->
  run (dec_meta_fuel fuel m (meta_size v)) (mkStream d l (p + 8) (iso_meta_payload v ++ post))
  = (Ok v, mkStream d l (p + meta_size v) post).
Proof.
  intros H Hs Hf Hp Hd. unfold iso_meta_payload in *.
  pose proof (meta_inv_children d p _ post Hd) as Hd2.
  assert (Hpos : 12 < meta_size v)
    by (clear; unfold meta_size, hdlr_size; destruct v; hdr_consts; lia).
  unfold dec_meta_fuel. rewrite meta_fullbox, <- app_assoc.
  rewrite run_box_start. rd_step.
  change (negb (0 =? 0)) with false. cbv iota. cbn [bind].
  rewrite run_GetPos.
  rewrite run_add64_ok by (clear -Hp; unfold U64; lia).
  replace (p + 8 + N.of_nat 4) with (p + 12) in * by (clear; lia).
  destruct v as [il | h dd].
  - (* mdir *)
    pose proof (meta_ok1_mdir m il H Hs) as Hok1. pose proof (meta_ok2_mdir m il H Hs) as Hok2.
    pose proof (meta_size1_mdir il) as Hz1. pose proof (meta_size2_mdir il) as Hz2.
    rewrite <- (meta_iso1_mdir il) in *. rewrite <- (ci_flat_iso _ _ _ Hok1) in *.
    rewrite (children_loop_items_g inv_data m _ _ _ inv_data_adv Hok1 fuel None d l (p + 12) post
               (p + meta_size (MetaMdir il)));
      [ | unfold meta_fuel in Hf; unfold meta_items1_mdir; destruct il; cbn; cbn in Hf; lia
        | clear -Hz1; lia | clear -Hz1; lia | exact Hp | exact Hd2 ].
    replace (ci_fold (meta_items1_mdir il) None) with (Some iso_meta_mdir_hdlr) by (destruct il; reflexivity).
    cbv iota.
    rewrite run_SeekTo_back by (clear -Hpos; lia).
    rewrite run_GetPos. rewrite meta_mdir_not. cbv iota.
    rewrite Hd2.
    rewrite (ci_flat_iso _ _ _ Hok1), (meta_iso1_mdir il), <- (meta_iso2_mdir il), <- (ci_flat_iso _ _ _ Hok2) in *.
    rewrite (children_loop_items_g inv_data m _ _ _ inv_data_adv Hok2 fuel None d l (p + 12) post
               (p + meta_size (MetaMdir il)));
      [ | unfold meta_fuel in Hf; unfold meta_items2_mdir; destruct il; cbn; cbn in Hf; lia
        | clear -Hz2; lia | clear -Hz2; lia | exact Hp | exact Hd2 ].
    rewrite run_finish; [| clear; lia | clear -Hp; unfold U64; lia].
    destruct il; reflexivity.
  - (* any other handler *)
    pose proof (meta_ok1_unknown m h dd H Hs) as Hok1. pose proof (meta_ok2_unknown m h dd H Hs) as Hok2.
    pose proof (meta_size1_unknown h dd) as Hz1. pose proof (meta_size2_unknown h dd) as Hz2.
    assert (Hm : (hdlr_handler_type h =? meta_MDIR) = false).
    { unfold meta_rt_wf, meta_wf in H. apply andb_true_iff in H as [H _].
      apply andb_true_iff in H as [H _]. apply andb_true_iff in H as [_ H]. now apply negb_true_iff in H. }
    rewrite <- (meta_iso1_unknown h dd) in *. rewrite <- (ci_flat_iso _ _ _ Hok1) in *.
    rewrite (children_loop_items_g inv_data m _ _ _ inv_data_adv Hok1 fuel None d l (p + 12) post
               (p + meta_size (MetaUnknown h dd)));
      [ | unfold meta_fuel in Hf; unfold meta_items1_unknown; rewrite app_length, ci_maxneed_app, map_length;
          pose proof (ci_maxneed_map_le (@meta_skip_raw (option hdlr)) dd 0%nat (fun _ => le_n _)); cbn; lia
        | clear -Hz1; lia | clear -Hz1; lia | exact Hp | exact Hd2 ].
    replace (ci_fold (meta_items1_unknown h dd) None) with (Some h).
    2:{ unfold meta_items1_unknown. rewrite ci_fold_app. cbn [ci_fold fold_left meta_i1_hdlr ci_of ci_upd].
        clear. induction dd as [|x t IH]; [reflexivity | exact IH]. }
    cbv iota.
    rewrite run_SeekTo_back by (clear -Hpos; lia).
    rewrite run_GetPos. rewrite Hm. cbv iota.
    rewrite Hd2.
    rewrite (ci_flat_iso _ _ _ Hok1), (meta_iso1_unknown h dd), <- (meta_iso2_unknown h dd),
      <- (ci_flat_iso _ _ _ Hok2) in *.
    rewrite (children_loop_items_g inv_data m _ _ _ inv_data_adv Hok2 fuel [] d l (p + 12) post
               (p + meta_size (MetaUnknown h dd)));
      [ | unfold meta_fuel in Hf; unfold meta_items2_unknown; rewrite app_length, ci_maxneed_app, map_length;
          pose proof (ci_maxneed_map_le meta_i2_raw dd 0%nat (fun _ => le_n _)); cbn; lia
        | clear -Hz2; lia | clear -Hz2; lia | exact Hp | exact Hd2 ].
    rewrite run_finish; [| clear; lia | clear -Hp; unfold U64; lia].
    f_equal. f_equal. f_equal.
    unfold meta_items2_unknown. rewrite ci_fold_app. cbn [ci_fold fold_left meta_skip_hdlr ci_skip ci_upd].
    rewrite meta_fold_raw. reflexivity.
Qed.

Theorem meta_roundtrip :
  cont_roundtrip_s meta_rt_wf meta_size 0x6d657461 enc_meta dec_meta_fuel iso_meta_payload meta_fuel.
Proof.
  apply cont_roundtrip_s_intro.
  - apply meta_enc.
  - apply meta_payload_len.
  - intros; now apply meta_dec.
Qed.

(** REFUTED for [meta_wf] alone: a raw child whose type is [BoxType::UnknownBox(c)] with [c] the
    code of a box type the library knows ('free' here) is written with the four bytes of [c] and
    read back as the known type: [From<BoxType> for u32] and [From<u32> for BoxType] are not
    inverse on [UnknownBox] of a known code.  [meta_rt_wf] excludes exactly these values. *)
Theorem meta_roundtrip_refuted :
  exists v v', meta_wf v = true /\ meta_size v < U32 /\ v <> v' /\
    fst (run (dec_meta_fuel 10 Dbg (meta_size v)) (stream_at (wout (enc_meta v)) 8)) = Ok v'.
Proof.
  exists (MetaUnknown hdlr_default [(UnknownBox 0x66726565, [1; 2; 3])]).
  exists (MetaUnknown hdlr_default [(FreeBox, [1; 2; 3])]).
  split; [vm_compute; reflexivity|]. split; [vm_compute; reflexivity|].
  split; [intros E; discriminate E|]. vm_compute. reflexivity.
Qed.

(** the literal [leaf_roundtrip] form (any [s_data]) is false for this box: after the seek back
    the view is what the data holds *)
Lemma meta_needs_consistent_stream :
  fst (run (dec_meta_fuel 10 Dbg (meta_size meta_default))
           (mkStream [] 0 8 (iso_meta_payload meta_default))) = Err EIo.
Proof. vm_compute. reflexivity. Qed.

Print Assumptions meta_roundtrip.
Print Assumptions meta_roundtrip_refuted.
