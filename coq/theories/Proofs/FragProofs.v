(** * Proofs for property C09: the fragmented branches of [Track.v] compute the
    movie-fragment semantics of [Spec/Fragment.v]. *)
From MP4 Require Import Fragment.
From Coq Require Import ZArith ZifyN ZifyNat ZifyBool Lia.
Open Scope list_scope.
Open Scope N_scope.
Ltac Zify.zify_post_hook ::= Z.div_mod_to_equations.

(** ** List helpers *)

Lemma sumN_cons x l : sumN (x :: l) = x + sumN l.
Proof. reflexivity. Qed.

Lemma nthN_cons_0 {A} (x : A) l : nthN (x :: l) 0 = Some x.
Proof. reflexivity. Qed.

Lemma nthN_cons_pos {A} (x : A) l n : n <> 0 -> nthN (x :: l) n = nthN l (n - 1).
Proof. intros H. cbn [nthN]. destruct (N.eqb_spec n 0); [contradiction|reflexivity]. Qed.

Lemma nthN_app {A} (l1 l2 : list A) n :
  nthN (l1 ++ l2) n = if n <? lenN l1 then nthN l1 n else nthN l2 (n - lenN l1).
Proof.
  revert n; induction l1 as [|x l1 IH]; intros n.
  - cbn [app]. change (lenN (@nil A)) with 0.
    destruct (N.ltb_spec n 0); [lia|]. now rewrite N.sub_0_r.
  - cbn [app]. rewrite lenN_cons. destruct (N.eqb_spec n 0) as [->|Hn].
    + rewrite !nthN_cons_0. destruct (N.ltb_spec 0 (1 + lenN l1)); [reflexivity|lia].
    + rewrite !nthN_cons_pos by exact Hn. rewrite IH.
      destruct (N.ltb_spec (n - 1) (lenN l1)), (N.ltb_spec n (1 + lenN l1)); try lia; auto.
      f_equal. lia.
Qed.

Lemma nthN_map {A B} (g : A -> B) l n : nthN (map g l) n = option_map g (nthN l n).
Proof.
  revert n; induction l as [|x l IH]; intros n; cbn [map nthN option_map]; auto.
  destruct (n =? 0); auto.
Qed.

Lemma nthN_some_lt {A} (l : list A) n x : nthN l n = Some x -> n < lenN l.
Proof.
  intros H. destruct (N.lt_ge_cases n (lenN l)) as [|Hge]; auto.
  rewrite (nthN_ge _ _ Hge) in H. discriminate.
Qed.

Lemma lenN_map {A B} (g : A -> B) l : lenN (map g l) = lenN l.
Proof. unfold lenN. now rewrite map_length. Qed.

Lemma lenN_0_nil {A} (l : list A) : lenN l = 0 -> l = [].
Proof. destruct l; auto. rewrite lenN_cons. lia. Qed.

Lemma tup5 {A B C D E} (a a' : A) (b b' : B) (c c' : C) (d d' : D) (e e' : E) :
  a = a' -> b = b' -> c = c' -> d = d' -> e = e' -> (a, b, c, d, e) = (a', b', c', d', e').
Proof. congruence. Qed.

(** ** The specification's layout, index by index *)

Lemma lay_out_len sizes : forall durs cts off time,
  lenN durs = lenN sizes -> lenN cts = lenN sizes ->
  lenN (lay_out off time sizes durs cts) = lenN sizes.
Proof.
  induction sizes as [|s sizes IH]; intros durs cts off time Hd Hc; [reflexivity|].
  destruct durs as [|d durs]; [rewrite lenN_cons in Hd; change (lenN (@nil N)) with 0 in Hd; lia|].
  destruct cts as [|c cts]; [rewrite lenN_cons in Hc; change (lenN (@nil Z)) with 0 in Hc; lia|].
  cbn [lay_out]. rewrite !lenN_cons in *. rewrite IH; lia.
Qed.

(** closed form of the layout: a sanity check of the specification itself *)
Lemma lay_out_nth sizes : forall durs cts off time j x,
  nthN (lay_out off time sizes durs cts) j = Some x ->
  exists s d c, nthN sizes j = Some s /\ nthN durs j = Some d /\ nthN cts j = Some c /\
    x = ((off + Z.of_N (sumN (firstn (N.to_nat j) sizes)))%Z, s,
         time + sumN (firstn (N.to_nat j) durs), d, c).
Proof.
  induction sizes as [|s sizes IH]; intros durs cts off time j x H; [discriminate|].
  destruct durs as [|d durs]; [discriminate|]. destruct cts as [|c cts]; [discriminate|].
  cbn [lay_out] in H. destruct (N.eqb_spec j 0) as [->|Hj].
  - rewrite nthN_cons_0 in H. injection H as <-. exists s, d, c.
    rewrite !nthN_cons_0. change (N.to_nat 0) with O. cbn [firstn]. unfold sumN; cbn [fold_right].
    repeat split; auto. apply tup5; try reflexivity; lia.
  - rewrite nthN_cons_pos in H by exact Hj. apply IH in H as (s' & d' & c' & H1 & H2 & H3 & ->).
    exists s', d', c'. rewrite !nthN_cons_pos by exact Hj. repeat split; auto.
    replace (N.to_nat j) with (S (N.to_nat (j - 1))) by lia. cbn [firstn]. rewrite !sumN_cons.
    apply tup5; try reflexivity; lia.
Qed.

Lemma nthN_In {A} (l : list A) n x : nthN l n = Some x -> In x l.
Proof. rewrite nthN_nth_error. apply nth_error_In. Qed.

Lemma sumN_firstn_const {A} (d : N) (l : list A) : forall j, j <= lenN l ->
  sumN (firstn (N.to_nat j) (map (fun _ => d) l)) = j * d.
Proof.
  induction l as [|x l IH]; intros j Hj.
  - change (lenN (@nil A)) with 0 in Hj. replace j with 0 by lia. reflexivity.
  - rewrite lenN_cons in Hj. destruct (N.eqb_spec j 0) as [->|Hn]; [reflexivity|].
    replace (N.to_nat j) with (S (N.to_nat (j - 1))) by lia. cbn [map firstn].
    rewrite sumN_cons, IH by lia.
    replace j with (1 + (j - 1)) at 2 by lia. rewrite N.mul_add_distr_r. lia.
Qed.

Lemma sumN_firstn_0 l : sumN (firstn (N.to_nat 0) l) = 0.
Proof. reflexivity. Qed.

(** ** The model's loops compute prefix sums *)

Lemma sum_run_sizes_ok l : forall j acc, j <= lenN l ->
  acc + sumN (firstn (N.to_nat j) l) < U64 ->
  sum_run_sizes l j acc = Ok (acc + sumN (firstn (N.to_nat j) l)).
Proof.
  induction l as [|x l IH]; intros j acc Hj Hb.
  - change (lenN (@nil N)) with 0 in Hj. replace j with 0 by lia. cbn [sum_run_sizes].
    change (0 =? 0) with true. cbv iota. rewrite sumN_firstn_0. f_equal. lia.
  - cbn [sum_run_sizes]. rewrite lenN_cons in Hj. destruct (N.eqb_spec j 0) as [->|Hn].
    + rewrite sumN_firstn_0. f_equal. lia.
    + replace (N.to_nat j) with (S (N.to_nat (j - 1))) in * by lia. cbn [firstn] in *.
      rewrite sumN_cons in *. unfold checked_add. destruct (N.ltb_spec (acc + x) U64); [|lia].
      rewrite IH by lia. f_equal. lia.
Qed.

Lemma sum_durations_go_ok l : forall j acc, j <= lenN l ->
  acc + sumN (firstn (N.to_nat j) l) < U64 ->
  sum_durations_go l j acc = Ok (acc + sumN (firstn (N.to_nat j) l)).
Proof.
  induction l as [|x l IH]; intros j acc Hj Hb.
  - change (lenN (@nil N)) with 0 in Hj. replace j with 0 by lia. cbn [sum_durations_go].
    change (0 =? 0) with true. cbv iota. rewrite sumN_firstn_0. f_equal. lia.
  - cbn [sum_durations_go]. rewrite lenN_cons in Hj. destruct (N.eqb_spec j 0) as [->|Hn].
    + rewrite sumN_firstn_0. f_equal. lia.
    + replace (N.to_nat j) with (S (N.to_nat (j - 1))) in * by lia. cbn [firstn] in *.
      rewrite sumN_cons in *. unfold checked_add. destruct (N.ltb_spec (acc + x) U64); [|lia].
      rewrite IH by lia. f_equal. lia.
Qed.

Lemma sum_durations_ok l j : j <= lenN l ->
  sumN (firstn (N.to_nat j) l) < U64 ->
  sum_durations l j 0 = Ok (sumN (firstn (N.to_nat j) l)).
Proof.
  intros Hj Hb. unfold sum_durations. destruct (N.ltb_spec (lenN l) j); [lia|].
  rewrite sum_durations_go_ok by lia. f_equal.
Qed.

(** ** Counting and locating *)

Definition total (fs : list fragrun) : N := sumN (map fr_sample_count fs).

Lemma total_cons f fs : total (f :: fs) = fr_sample_count f + total fs.
Proof. reflexivity. Qed.

(** a fragment without a run is skipped by the code; it counts for nothing in [total] because its
    sample count is 0 *)
Lemma frag_sample_count_fold fs : forall acc,
  (forall f, In f fs -> fr_has_trun f = false -> fr_sample_count f = 0) -> acc + total fs < U32 - 1 ->
  fold_left (fun acc f => if fr_has_trun f then sat_add U32 acc (fr_sample_count f) else acc) fs acc
  = acc + total fs.
Proof.
  induction fs as [|f fs IH]; intros acc Ht Hb.
  - cbn [fold_left]. unfold total, sumN. cbn [map fold_right]. lia.
  - cbn [fold_left]. rewrite total_cons in *.
    assert (Hrest : forall g, In g fs -> fr_has_trun g = false -> fr_sample_count g = 0)
      by (intros g Hg; apply Ht; now right).
    destruct (fr_has_trun f) eqn:Etrun.
    + unfold sat_add. destruct (N.ltb_spec (acc + fr_sample_count f) U32); [|lia].
      rewrite IH; [lia|exact Hrest|lia].
    + rewrite (Ht f (or_introl eq_refl) Etrun) in *. rewrite IH; [lia|exact Hrest|lia].
Qed.

Lemma find_traf_from_spec {X} (E : fragrun -> list X) fs : forall idx offset g,
  (forall f, In f fs -> (fr_has_trun f = false -> fr_sample_count f = 0) /\ lenN (E f) = fr_sample_count f) ->
  offset <= g -> offset + total fs < U32 ->
  (g - offset < total fs ->
     exists i f j, find_traf_from fs idx offset g = Some (idx + i, j) /\ nthN fs i = Some f /\
                   j < fr_sample_count f /\ j <= g /\
                   nthN (flat_map E fs) (g - offset) = nthN (E f) j) /\
  (total fs <= g - offset -> find_traf_from fs idx offset g = None).
Proof.
  induction fs as [|f fs IH]; intros idx offset g Hall Hle Hb.
  - split; [|reflexivity]. unfold total, sumN; cbn [map fold_right]. lia.
  - destruct (Hall f (or_introl eq_refl)) as [Ht Hl].
    cbn [find_traf_from]. rewrite total_cons in *.
    destruct (fr_has_trun f) eqn:Etrun; cycle 1.
    { (* no run: the search walks over the fragment; the index keeps counting *)
      specialize (Ht eq_refl). rewrite Ht in *. apply lenN_0_nil in Hl.
      destruct (IH (idx + 1) offset g) as [IH1 IH2];
        [intros f' Hf'; apply Hall; now right|lia|lia|].
      split.
      * intros Hlt. destruct IH1 as (i & f' & j & E1 & E2 & E3 & E4 & E5); [lia|].
        exists (i + 1), f', j. split; [rewrite E1; f_equal; f_equal; lia|].
        split; [rewrite nthN_cons_pos by lia; replace (i + 1 - 1) with i by lia; exact E2|].
        split; [exact E3|]. split; [exact E4|].
        cbn [flat_map]. rewrite Hl. cbn [app]. exact E5.
      * intros Hge'. apply IH2. lia. }
    destruct (N.ltb_spec (g - offset) (fr_sample_count f)) as [Hlt|Hge].
    + split; [intros _|lia]. exists 0, f, (g - offset).
      split; [f_equal; f_equal; lia|]. split; [reflexivity|]. split; [exact Hlt|]. split; [lia|].
      cbn [flat_map]. rewrite nthN_app, Hl. destruct (N.ltb_spec (g - offset) (fr_sample_count f)); [reflexivity|lia].
    + unfold checked_add. destruct (N.ltb_spec (offset + fr_sample_count f) U32); [|lia].
      destruct (IH (idx + 1) (offset + fr_sample_count f) g) as [IH1 IH2];
        [intros f' Hf'; apply Hall; now right|lia|lia|].
      split.
      * intros Hlt. destruct IH1 as (i & f' & j & E1 & E2 & E3 & E4 & E5); [lia|].
        exists (i + 1), f', j. split; [rewrite E1; f_equal; f_equal; lia|].
        split; [rewrite nthN_cons_pos by lia; replace (i + 1 - 1) with i by lia; exact E2|].
        split; [exact E3|]. split; [exact E4|].
        cbn [flat_map]. rewrite nthN_app, Hl.
        destruct (N.ltb_spec (g - offset) (fr_sample_count f)); [lia|].
        rewrite <- E5. f_equal. lia.
      * intros Hge'. apply IH2. lia.
Qed.

(** ** One run *)

Lemma FLAG_SAMPLE_DURATION_value : FLAG_SAMPLE_DURATION = iso_sample_duration_present.
Proof. reflexivity. Qed.

Lemma s32_to_signed c : to_signed 32 c = s32 c.
Proof.
  unfold to_signed, s32. change (2 ^ (32 - 1)) with 0x80000000. change (2 ^ 32) with 0x100000000.
  destruct (c <? 0x80000000); reflexivity.
Qed.

Lemma run_consistent_parts d f : run_consistent d f = true -> fr_has_trun f = true ->
  lenN (fr_sizes f) = fr_sample_count f /\
  (if run_has_durations f then lenN (fr_durations f) = fr_sample_count f else fr_durations f = []) /\
  (fr_cts f = [] \/ lenN (fr_cts f) = fr_sample_count f) /\
  (exists t, fr_tfdt f = Some t) /\
  (match fr_default_duration f with Some x => x < U32 | None => True end) /\
  fr_sample_count f < U32 /\
  (forall o s t du c, In (o, s, t, du, c) (run_samples f d) -> (0 <= o < Z.of_N U64)%Z /\ t < U64).
Proof.
  unfold run_consistent. intros H Htrun. rewrite Htrun in H. unfold with_run_consistent in H.
  apply andb_true_iff in H as [H Hsamp]. apply andb_true_iff in H as [H _].
  apply andb_true_iff in H as [H _]. apply andb_true_iff in H as [H _].
  apply andb_true_iff in H as [H _]. apply andb_true_iff in H as [H Hcnt].
  apply andb_true_iff in H as [H _]. apply andb_true_iff in H as [H Hhdr].
  apply andb_true_iff in H as [H Htfdt].
  apply andb_true_iff in H as [H Hcts]. apply andb_true_iff in H as [Hsz Hdur].
  unfold header_fits in Hhdr.
  apply andb_true_iff in Hhdr as [Hhdr _]. apply andb_true_iff in Hhdr as [_ Hdd].
  split; [now apply N.eqb_eq|].
  split. { destruct (run_has_durations f); [now apply N.eqb_eq|]. destruct (fr_durations f); [reflexivity|discriminate]. }
  split. { destruct (fr_cts f) as [|c0 l]; [now left|right; now apply N.eqb_eq]. }
  split. { destruct (fr_tfdt f) as [t|]; [now exists t|discriminate]. }
  split. { destruct (fr_default_duration f); [now apply N.ltb_lt|exact I]. }
  split; [now apply N.ltb_lt|].
  intros o s t du c Hin. rewrite forallb_forall in Hsamp. specialize (Hsamp _ Hin). cbv beta iota in Hsamp.
  apply andb_true_iff in Hsamp as [Ho Ht]. apply andb_true_iff in Ho as [Ho1 Ho2].
  apply Z.leb_le in Ho1. apply Z.ltb_lt in Ho2. apply N.ltb_lt in Ht. lia.
Qed.

(** a consistent fragment without a run has sample count 0 and no run data *)
Lemma run_consistent_without_run d f : run_consistent d f = true -> fr_has_trun f = false ->
  fr_sample_count f = 0 /\ fr_sizes f = [] /\ fr_durations f = [] /\ fr_cts f = [] /\
  fr_flags f = 0 /\ fr_data_offset f = None.
Proof.
  unfold run_consistent. intros H Htrun. rewrite Htrun in H. unfold without_run_consistent in H.
  apply andb_true_iff in H as [H _]. apply andb_true_iff in H as [H Hdo].
  apply andb_true_iff in H as [H Hfl]. apply andb_true_iff in H as [H Hcts].
  apply andb_true_iff in H as [H Hdur]. apply andb_true_iff in H as [Hcnt Hsz].
  apply N.eqb_eq in Hcnt, Hfl.
  repeat split; try assumption.
  - destruct (fr_sizes f); [reflexivity|discriminate].
  - destruct (fr_durations f); [reflexivity|discriminate].
  - destruct (fr_cts f); [reflexivity|discriminate].
  - destruct (fr_data_offset f); [discriminate|reflexivity].
Qed.

Lemma run_consistent_count0 d f : run_consistent d f = true -> fr_has_trun f = false -> fr_sample_count f = 0.
Proof. intros H Ht. apply (run_consistent_without_run d f H Ht). Qed.

(** a fragment that holds a sample has a run *)
Lemma run_consistent_has_trun d f j : run_consistent d f = true -> j < fr_sample_count f -> fr_has_trun f = true.
Proof.
  intros H Hj. destruct (fr_has_trun f) eqn:E; [reflexivity|].
  rewrite (run_consistent_count0 d f H E) in Hj. lia.
Qed.

Lemma run_samples_len d f : run_consistent d f = true -> fr_has_trun f = true ->
  lenN (run_samples f d) = fr_sample_count f.
Proof.
  intros H Htrun. destruct (run_consistent_parts d f H Htrun) as (Hsz & Hdur & Hcts & _).
  unfold run_samples. rewrite lay_out_len; [exact Hsz| |].
  - unfold run_durations. destruct (run_has_durations f); [lia|apply lenN_map].
  - unfold run_cts. destruct Hcts as [->|Hc]; [apply lenN_map|].
    destruct (fr_cts f) as [|c0 l] eqn:E; [apply lenN_map|]. rewrite lenN_map. lia.
Qed.

Lemma frag_samples_len d f : run_consistent d f = true -> lenN (frag_samples f d) = fr_sample_count f.
Proof.
  intros H. unfold frag_samples. destruct (fr_has_trun f) eqn:E.
  - now apply run_samples_len.
  - now rewrite (run_consistent_count0 d f H E).
Qed.

Lemma frag_samples_with_run d f : fr_has_trun f = true -> frag_samples f d = run_samples f d.
Proof. intros H. unfold frag_samples. now rewrite H. Qed.

(** the bodies of the model's fragmented branches once the run [f] and the index [j] in it are known *)
Definition offset_body (m : mode) (f : fragrun) (j k : N) : res N :=
  let base := match fr_base_data_offset f with Some b => b | None => fr_moof_offset f end in
  res_bind
    (match (if fr_has_trun f then fr_data_offset f else None) with
     | Some d =>
         let s := (Z.of_N base + d)%Z in
         if ((s <? 0) || (Z.of_N U64 <=? s))%Z then Err EData else Ok (Z.to_N s)
     | None => Ok base
     end) (fun off =>
  res_bind (sub_w m U32 "sample_id - sample_idx" k (cast_w U32 j)) (fun _ =>
  sum_run_sizes (if fr_has_trun f then fr_sizes f else []) j off)).

Definition time_body (m : mode) (dflt : N) (f : fragrun) (j : N) : res (N * N) :=
  let base := match fr_tfdt f with Some b => b | None => 0 end in
  let dd := match fr_default_duration f with Some d => d | None => dflt end in
  if fr_has_trun f && negb (N.land FLAG_SAMPLE_DURATION (fr_flags f) =? 0) then
    res_bind (sum_durations (fr_durations f) j 0) (fun so =>
    match nthN (fr_durations f) j with
    | None => Panic "sample_durations[sample_idx]"
    | Some d =>
        match checked_add U64 base so with
        | Some st => Ok (st, d)
        | None => Err EData
        end
    end)
  else
    res_bind (mul_w m U64 "idx_in_run * default" j dd) (fun so =>
    match checked_add U64 base so with
    | Some st => Ok (st, dd)
    | None => Err EData
    end).

Definition cts_body (f : fragrun) (j : N) : Z :=
  match (if fr_has_trun f then nthN (fr_cts f) j else None) with
  | Some c => to_signed 32 c
  | None => 0%Z
  end.

Lemma run_sample_sound m d f j k :
  d < U32 -> run_consistent d f = true -> j < fr_sample_count f -> j <= k ->
  exists o s t du c,
    nthN (run_samples f d) j = Some (o, s, t, du, c) /\
    offset_body m f j k = Ok (Z.to_N o) /\
    nthN (fr_sizes f) j = Some s /\
    time_body m d f j = Ok (t, du) /\
    cts_body f j = c.
Proof.
  intros Hd Hc Hj Hjk.
  pose proof (run_consistent_has_trun d f j Hc Hj) as Htrun.
  pose proof (run_samples_len d f Hc Htrun) as Hlen.
  destruct (run_consistent_parts d f Hc Htrun) as (Hsz & Hdur & Hcts & (t0 & Htfdt) & Hdd & Hcnt & Hbounds).
  destruct (nthN_lt (run_samples f d) j) as ([[[[o s] t] du] c] & Hnth); [lia|].
  destruct (nthN_lt (run_samples f d) 0) as ([[[[o0 s0] t00] du0] c0] & Hnth0); [lia|].
  exists o, s, t, du, c. split; [exact Hnth|].
  pose proof (Hbounds _ _ _ _ _ (nthN_In _ _ _ Hnth)) as [Ho Ht].
  pose proof (Hbounds _ _ _ _ _ (nthN_In _ _ _ Hnth0)) as [Ho0 _].
  unfold run_samples in Hnth, Hnth0.
  apply lay_out_nth in Hnth as (s' & du' & c' & Hs & Hdu & Hct & E).
  apply lay_out_nth in Hnth0 as (s0' & du0' & c0' & _ & _ & _ & E0).
  injection E as -> -> -> -> ->. injection E0 as -> _ _ _ _.
  set (S := sumN (firstn (N.to_nat j) (fr_sizes f))) in *.
  split; [|split; [exact Hs|split]].
  - (* offset *)
    unfold offset_body. rewrite Htrun. cbv zeta.
    assert (Eoff : match fr_data_offset f with
                   | Some d0 =>
                       if (((Z.of_N (match fr_base_data_offset f with Some b => b | None => fr_moof_offset f end) + d0) <? 0)
                           || (Z.of_N U64 <=? (Z.of_N (match fr_base_data_offset f with Some b => b | None => fr_moof_offset f end) + d0)))%Z
                       then Err EData
                       else Ok (Z.to_N (Z.of_N (match fr_base_data_offset f with Some b => b | None => fr_moof_offset f end) + d0))
                   | None => Ok (match fr_base_data_offset f with Some b => b | None => fr_moof_offset f end)
                   end = Ok (Z.to_N (run_data_start f))).
    { unfold run_data_start in *. destruct (fr_data_offset f) as [d0|].
      - destruct (Z.ltb_spec (Z.of_N match fr_base_data_offset f with Some b => b | None => fr_moof_offset f end + d0) 0); [lia|].
        destruct (Z.leb_spec (Z.of_N U64) (Z.of_N match fr_base_data_offset f with Some b => b | None => fr_moof_offset f end + d0)); [lia|].
        reflexivity.
      - f_equal. lia. }
    rewrite Eoff. cbn [res_bind].
    assert (Ecast : cast_w U32 j = j) by (unfold cast_w; apply N.mod_small; lia).
    rewrite Ecast, sub_w_ok by exact Hjk. cbn [res_bind].
    rewrite sum_run_sizes_ok; [f_equal; fold S; lia|lia|fold S; lia].
  - (* time *)
    unfold time_body. rewrite Htrun, FLAG_SAMPLE_DURATION_value, N.land_comm.
    fold (run_has_durations f). cbn [andb].
    unfold run_decode_start in *. rewrite Htfdt in *.
    unfold run_durations in *. destruct (run_has_durations f).
    + set (D := sumN (firstn (N.to_nat j) (fr_durations f))) in *.
      rewrite sum_durations_ok; [|lia|fold D; lia]. cbn [res_bind]. rewrite Hdu.
      fold D. unfold checked_add. destruct (N.ltb_spec (t0 + D) U64); [reflexivity|lia].
    + set (dd := match fr_default_duration f with Some d0 => d0 | None => d end) in *.
      assert (Hddb : dd < U32) by (subst dd; destruct (fr_default_duration f); assumption).
      rewrite nthN_map, Hs in Hdu. cbn [option_map] in Hdu. injection Hdu as <-.
      rewrite sumN_firstn_const in Ht by lia.
      assert (Hmul : j * dd < U64).
      { change U64 with (U32 * U32). apply N.mul_lt_mono; lia. }
      rewrite mul_w_ok by exact Hmul. cbn [res_bind].
      rewrite sumN_firstn_const by lia.
      unfold checked_add. destruct (N.ltb_spec (t0 + j * dd) U64); [reflexivity|lia].
  - (* composition offset *)
    unfold cts_body. rewrite Htrun. unfold run_cts in Hct.
    destruct (fr_cts f) as [|x l] eqn:Ects.
    + rewrite nthN_map, Hs in Hct. cbn [option_map nthN] in *. now injection Hct.
    + rewrite nthN_map in Hct. destruct (nthN (x :: l) j) as [y|]; [|discriminate].
      cbn [option_map] in Hct. injection Hct as <-. apply s32_to_signed.
Qed.

(** ** The model's fragmented branches, once [find_traf] has answered *)

Section Unfold.
  Variables (m : mode) (id : N) (tb : tables) (fs : list fragrun) (dflt : N).
  Hypothesis Hne : fs <> [].
  Let t := mkTrack id tb fs dflt.

  Lemma sample_count_frag : sample_count t = frag_sample_count fs.
  Proof. subst t. destruct fs; [congruence|reflexivity]. Qed.

  Lemma find_traf_pos k : 1 <= k -> find_traf t k = find_traf_from fs 0 0 (k - 1).
  Proof.
    intros Hk. unfold find_traf, checked_sub. destruct (N.leb_spec 1 k); [reflexivity|lia].
  Qed.

  Lemma find_traf_zero : find_traf t 0 = None.
  Proof. reflexivity. Qed.

  Section Found.
    Variables (k i j : N) (f : fragrun).
    Hypothesis Hfind : find_traf t k = Some (i, j).
    Hypothesis Hnth : nthN fs i = Some f.

    Lemma sample_size_found :
      sample_size t k = match nthN (fr_sizes f) j with Some s => Ok s | None => Err EData end.
    Proof.
      unfold sample_size. rewrite Hfind. subst t. cbn [tr_frags] in *.
      destruct fs; [congruence|]. rewrite Hnth. reflexivity.
    Qed.

    Lemma sample_offset_found : sample_offset m t k = offset_body m f j k.
    Proof.
      unfold sample_offset. rewrite Hfind. subst t. cbn [tr_frags] in *.
      destruct fs; [congruence|]. rewrite Hnth. reflexivity.
    Qed.

    Lemma sample_time_found : sample_time m t k = time_body m dflt f j.
    Proof.
      unfold sample_time. rewrite Hfind. subst t. cbn [tr_frags tr_default_sample_duration] in *.
      destruct fs; [congruence|]. rewrite Hnth. unfold time_body.
      destruct (fr_has_trun f && negb (N.land FLAG_SAMPLE_DURATION (fr_flags f) =? 0)); reflexivity.
    Qed.

    Lemma sample_rendering_offset_found : sample_rendering_offset t k = cts_body f j.
    Proof.
      unfold sample_rendering_offset. rewrite Hfind. subst t. cbn [tr_frags] in *.
      destruct fs; [congruence|]. rewrite Hnth. reflexivity.
    Qed.
  End Found.

  Lemma sample_offset_notfound k : find_traf t k = None -> sample_offset m t k = Err EData.
  Proof.
    intros H. unfold sample_offset. rewrite H. subst t. cbn [tr_frags]. destruct fs; [congruence|reflexivity].
  Qed.
End Unfold.

(** ** The whole track *)

Lemma frag_consistent_parts fs dflt : frag_consistent fs dflt = true ->
  dflt < U32 /\ (forall f, In f fs -> run_consistent dflt f = true) /\ total fs < U32 - 1.
Proof.
  unfold frag_consistent. intros H.
  apply andb_true_iff in H as [H Ht]. apply andb_true_iff in H as [Hd Hall].
  apply N.ltb_lt in Hd, Ht. rewrite forallb_forall in Hall. auto.
Qed.

Lemma frag_expand_len fs dflt : (forall f, In f fs -> run_consistent dflt f = true) ->
  lenN (frag_expand fs dflt) = total fs.
Proof.
  induction fs as [|f fs IH]; intros H; [reflexivity|].
  unfold frag_expand in *. cbn [flat_map]. rewrite lenN_app, lenN_map, total_cons.
  rewrite frag_samples_len by (apply H; now left). rewrite IH; [reflexivity|].
  intros g Hg. apply H. now right.
Qed.

Lemma frag_count_sound id tb fs dflt : fs <> [] -> frag_consistent fs dflt = true ->
  sample_count (mkTrack id tb fs dflt) = lenN (frag_expand fs dflt) /\
  lenN (frag_expand fs dflt) = sumN (map fr_sample_count fs).
Proof.
  intros Hne Hc. destruct (frag_consistent_parts _ _ Hc) as (Hd & Hall & Ht).
  rewrite sample_count_frag by exact Hne. rewrite frag_expand_len by exact Hall.
  split; [|reflexivity]. unfold frag_sample_count. rewrite frag_sample_count_fold; [lia| |lia].
  intros f Hf. apply (run_consistent_count0 dflt f). now apply Hall.
Qed.

Lemma frag_locate fs dflt k : frag_consistent fs dflt = true ->
  (1 <= k <= total fs ->
     exists i f j, find_traf_from fs 0 0 (k - 1) = Some (i, j) /\ nthN fs i = Some f /\
       run_consistent dflt f = true /\ j < fr_sample_count f /\ j <= k /\
       nthN (frag_expand fs dflt) (k - 1) = option_map sample_to_N (nthN (run_samples f dflt) j)) /\
  (total fs < k -> find_traf_from fs 0 0 (k - 1) = None).
Proof.
  intros Hc. destruct (frag_consistent_parts _ _ Hc) as (Hd & Hall & Ht).
  destruct (find_traf_from_spec (fun f => map sample_to_N (frag_samples f dflt)) fs 0 0 (k - 1)) as [H1 H2].
  - intros f Hf. split; [apply (run_consistent_count0 dflt f); now apply Hall|].
    rewrite lenN_map. apply frag_samples_len. now apply Hall.
  - lia.
  - lia.
  - split.
    + intros Hk. destruct H1 as (i & f & j & E1 & E2 & E3 & E4 & E5); [lia|].
      exists i, f, j. rewrite N.add_0_l in E1. rewrite N.sub_0_r in E5.
      assert (Hrc : run_consistent dflt f = true) by (apply Hall; eapply nthN_In; exact E2).
      split; [exact E1|]. split; [exact E2|]. split; [exact Hrc|].
      split; [exact E3|]. split; [lia|]. unfold frag_expand. rewrite E5.
      rewrite (frag_samples_with_run dflt f (run_consistent_has_trun dflt f j Hrc E3)). apply nthN_map.
    + intros Hk. apply H2. lia.
Qed.

Lemma frag_sample_sound m id tb fs dflt k : fs <> [] -> frag_consistent fs dflt = true ->
  1 <= k <= lenN (frag_expand fs dflt) ->
  exists off sz st du ct,
    nthN (frag_expand fs dflt) (k - 1) = Some (off, sz, st, du, ct) /\
    sample_offset m (mkTrack id tb fs dflt) k = Ok off /\
    sample_size (mkTrack id tb fs dflt) k = Ok sz /\
    sample_time m (mkTrack id tb fs dflt) k = Ok (st, du) /\
    sample_rendering_offset (mkTrack id tb fs dflt) k = ct.
Proof.
  intros Hne Hc Hk. destruct (frag_consistent_parts _ _ Hc) as (Hd & Hall & Ht).
  rewrite frag_expand_len in Hk by exact Hall.
  destruct (frag_locate fs dflt k Hc) as [H1 _].
  destruct H1 as (i & f & j & Hfind & Hnth & Hrc & Hj & Hjk & Hexp); [exact Hk|].
  destruct (run_sample_sound m dflt f j k Hd Hrc Hj Hjk) as (o & s & st & du & c & E1 & E2 & E3 & E4 & E5).
  exists (Z.to_N o), s, st, du, c.
  assert (Hf : find_traf (mkTrack id tb fs dflt) k = Some (i, j)).
  { rewrite find_traf_pos by lia. exact Hfind. }
  split; [rewrite Hexp, E1; reflexivity|].
  split; [rewrite (sample_offset_found m id tb fs dflt Hne k i j f Hf Hnth); exact E2|].
  split; [rewrite (sample_size_found id tb fs dflt Hne k i j f Hf Hnth), E3; reflexivity|].
  split; [rewrite (sample_time_found m id tb fs dflt Hne k i j f Hf Hnth); exact E4|].
  rewrite (sample_rendering_offset_found id tb fs dflt Hne k i j f Hf Hnth); exact E5.
Qed.

Lemma frag_out_of_range m id tb fs dflt k : fs <> [] -> frag_consistent fs dflt = true ->
  k = 0 \/ lenN (frag_expand fs dflt) < k ->
  forall s, run (read_sample m (mkTrack id tb fs dflt) k) s = (Err EData, s).
Proof.
  intros Hne Hc Hk s. destruct (frag_consistent_parts _ _ Hc) as (Hd & Hall & Ht).
  rewrite frag_expand_len in Hk by exact Hall.
  assert (Hf : find_traf (mkTrack id tb fs dflt) k = None).
  { destruct Hk as [->|Hk]; [reflexivity|].
    rewrite find_traf_pos by lia. now apply (frag_locate fs dflt k Hc). }
  unfold read_sample. rewrite (sample_offset_notfound m id tb fs dflt Hne k Hf). reflexivity.
Qed.

(** ** [read_sample] *)

Lemma seek_abs_view s p : stream_wf s -> s_view (seek_abs s p) = dropN p (s_data s).
Proof.
  intros Hs. destruct (seek_abs_wf s p Hs) as [_ Hv]. rewrite Hv.
  unfold seek_abs. destruct (s_pos s <=? p); reflexivity.
Qed.

(** [lenN fs < U32]: the code divides by [trafs.len() as u32]; the proof does not depend on
    whether the model represents the division by zero as a panic *)
Lemma is_sync_sample_frag_ok id tb fs dflt k : fs <> [] -> lenN fs < U32 ->
  exists b, is_sync_sample (mkTrack id tb fs dflt) k = Ok b.
Proof.
  intros Hne Hlen. unfold is_sync_sample. cbn [tr_frags]. destruct fs as [|f0 fs']; [congruence|].
  repeat match goal with |- context [if ?c then _ else _] => destruct c eqn:? end;
    try (eexists; reflexivity).
  all: exfalso; match goal with H : (cast_w U32 _ =? 0) = true |- _ => apply N.eqb_eq in H; unfold cast_w in H;
         rewrite N.mod_small in H by exact Hlen; rewrite lenN_cons in H; lia end.
Qed.

Lemma frag_read_sample m id tb fs dflt k off sz st du ct : fs <> [] -> lenN fs < U32 ->
  sample_offset m (mkTrack id tb fs dflt) k = Ok off ->
  sample_size (mkTrack id tb fs dflt) k = Ok sz ->
  sample_time m (mkTrack id tb fs dflt) k = Ok (st, du) ->
  sample_rendering_offset (mkTrack id tb fs dflt) k = ct ->
  forall pre bytes post pos, lenN pre = off -> lenN bytes = sz ->
  exists sync,
    fst (run (read_sample m (mkTrack id tb fs dflt) k) (stream_at (pre ++ bytes ++ post) pos))
    = Ok (Some (mkSample st du ct sync bytes)).
Proof.
  intros Hne Hlen Eo Es Et Ec pre bytes post pos Hpre Hbytes.
  destruct (is_sync_sample_frag_ok id tb fs dflt k Hne Hlen) as [sync Esync].
  exists sync. unfold read_sample. rewrite Eo, Es, Et, Ec, Esync.
  cbn [bind seek_to rd_exact alloc lift run].
  destruct (N.eqb_spec sz 0) as [Hz|Hnz].
  - rewrite Hz in Hbytes. apply lenN_0_nil in Hbytes. subst bytes. reflexivity.
  - rewrite seek_abs_view by apply stream_at_wf. cbn [stream_at s_data].
    rewrite (dropN_app_n off pre (bytes ++ post) Hpre).
    rewrite (splitN_app_n sz bytes post Hbytes). reflexivity.
Qed.

Lemma frag_read_sample_sound_lemma m id tb fs dflt k : fs <> [] -> frag_consistent fs dflt = true ->
  lenN fs < U32 -> 1 <= k <= lenN (frag_expand fs dflt) ->
  exists off sz st du ct,
    nthN (frag_expand fs dflt) (k - 1) = Some (off, sz, st, du, ct) /\
    forall pre bytes post pos, lenN pre = off -> lenN bytes = sz ->
    exists sync,
      fst (run (read_sample m (mkTrack id tb fs dflt) k) (stream_at (pre ++ bytes ++ post) pos))
      = Ok (Some (mkSample st du ct sync bytes)).
Proof.
  intros Hne Hc Hlen Hk.
  destruct (frag_sample_sound m id tb fs dflt k Hne Hc Hk) as (off & sz & st & du & ct & E & Eo & Es & Et & Ec).
  exists off, sz, st, du, ct. split; [exact E|].
  intros pre bytes post pos Hpre Hbytes.
  exact (frag_read_sample m id tb fs dflt k off sz st du ct Hne Hlen Eo Es Et Ec pre bytes post pos Hpre Hbytes).
Qed.

(** ** The statements of [Props/C09.v] *)

Lemma frag_lookup_sound_lemma : forall m id tb fs dflt,
  fs <> [] -> frag_consistent fs dflt = true ->
  let t := mkTrack id tb fs dflt in
  sample_count t = lenN (frag_expand fs dflt) /\
  lenN (frag_expand fs dflt) = sumN (map fr_sample_count fs) /\
  (forall k, 1 <= k <= lenN (frag_expand fs dflt) ->
     exists off sz st du ct,
       nthN (frag_expand fs dflt) (k - 1) = Some (off, sz, st, du, ct) /\
       sample_offset m t k = Ok off /\ sample_size t k = Ok sz /\
       sample_time m t k = Ok (st, du) /\ sample_rendering_offset t k = ct) /\
  (forall k, k = 0 \/ lenN (frag_expand fs dflt) < k ->
     forall s, run (read_sample m t k) s = (Err EData, s)).
Proof.
  intros m id tb fs dflt Hne Hc t. subst t.
  destruct (frag_count_sound id tb fs dflt Hne Hc) as [H1 H2].
  split; [exact H1|]. split; [exact H2|]. split.
  - intros k Hk. exact (frag_sample_sound m id tb fs dflt k Hne Hc Hk).
  - intros k Hk s. exact (frag_out_of_range m id tb fs dflt k Hne Hc Hk s).
Qed.

(** the out-of-range clause in the weaker "no sample, no panic" form *)
Lemma frag_out_of_range_weak m id tb fs dflt k : fs <> [] -> frag_consistent fs dflt = true ->
  k = 0 \/ lenN (frag_expand fs dflt) < k -> forall s,
  match fst (run (read_sample m (mkTrack id tb fs dflt) k) s) with
  | Ok (Some _) => False | Panic _ => False | _ => True
  end.
Proof. intros Hne Hc Hk s. rewrite (frag_out_of_range m id tb fs dflt k Hne Hc Hk s). exact I. Qed.

(** the specification on a fragment without a run: it contributes no sample *)
Lemma frag_expand_without_run f fs d : fr_has_trun f = false -> frag_expand (f :: fs) d = frag_expand fs d.
Proof. intros H. unfold frag_expand, frag_samples. cbn [flat_map]. rewrite H. reflexivity. Qed.

Lemma frag_expand_with_run f fs d : fr_has_trun f = true ->
  frag_expand (f :: fs) d = map sample_to_N (run_samples f d) ++ frag_expand fs d.
Proof. intros H. unfold frag_expand, frag_samples. cbn [flat_map]. rewrite H. reflexivity. Qed.

(** the specification in closed form: sample [j] of a consistent run *)
Lemma run_samples_closed_form d f j : run_consistent d f = true -> j < fr_sample_count f ->
  exists s du c,
    nthN (fr_sizes f) j = Some s /\ nthN (run_durations f d) j = Some du /\ nthN (run_cts f) j = Some c /\
    nthN (run_samples f d) j =
      Some ((run_data_start f + Z.of_N (sumN (firstn (N.to_nat j) (fr_sizes f))))%Z, s,
            run_decode_start f + sumN (firstn (N.to_nat j) (run_durations f d)), du, c).
Proof.
  intros Hc Hj. pose proof (run_samples_len d f Hc (run_consistent_has_trun d f j Hc Hj)) as Hlen.
  destruct (nthN_lt (run_samples f d) j) as (x & Hx); [lia|].
  rewrite Hx. unfold run_samples in Hx. apply lay_out_nth in Hx as (s & du & c & H1 & H2 & H3 & ->).
  exists s, du, c. auto.
Qed.
