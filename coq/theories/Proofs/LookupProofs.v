(** * Proofs for property C03: sample lookup in non-fragmented files follows the
    ISO/IEC 14496-12 sample-table semantics ([Spec/SampleTable.v]).

    Statements of the main theorems are repeated in [Props/C03.v]. *)
From MP4 Require Import SampleTable.
From Coq Require Import ZifyN ZifyNat ZifyBool.
Open Scope list_scope.
Open Scope N_scope.

Ltac Zify.zify_post_hook ::= Z.div_mod_to_equations.

(** ** List utilities ([N]-indexed views of [firstn]/[skipn]/[nth_error]) *)

Lemma lk_dropN_skipn {A} n (l : list A) : dropN n l = skipn (N.to_nat n) l.
Proof.
  revert n; induction l as [|x t IH]; intros n; cbn [dropN].
  - destruct (n =? 0); now rewrite skipn_nil.
  - destruct (N.eqb_spec n 0).
    + subst. reflexivity.
    + rewrite IH. replace (N.to_nat n) with (S (N.to_nat (n - 1))) by lia. reflexivity.
Qed.

Lemma lk_skipn_skipn {A} a b (l : list A) : skipn a (skipn b l) = skipn (a + b) l.
Proof.
  revert l; induction b as [|b IH]; intros l.
  - now rewrite Nat.add_0_r.
  - rewrite Nat.add_succ_r. destruct l as [|x t]; cbn [skipn].
    + now rewrite skipn_nil.
    + apply IH.
Qed.

Lemma lk_sumN_cons x l : sumN (x :: l) = x + sumN l.
Proof. reflexivity. Qed.

Lemma lk_sumN_nil : sumN [] = 0.
Proof. reflexivity. Qed.

Lemma lk_sumN_repeat x n : sumN (repeat x n) = N.of_nat n * x.
Proof.
  induction n as [|n IH]; cbn [repeat].
  - rewrite lk_sumN_nil. lia.
  - rewrite lk_sumN_cons, IH. lia.
Qed.

Lemma lk_sumN_repeatN x n : sumN (repeatN x n) = n * x.
Proof. unfold repeatN. rewrite lk_sumN_repeat. lia. Qed.

Lemma lk_sumN_firstn_mono l : forall a b, (a <= b)%nat -> sumN (firstn a l) <= sumN (firstn b l).
Proof.
  induction l as [|x t IH]; intros a b H.
  - rewrite !firstn_nil. lia.
  - destruct a as [|a]; destruct b as [|b]; cbn [firstn]; rewrite ?lk_sumN_cons, ?lk_sumN_nil; try lia.
    specialize (IH a b ltac:(lia)). lia.
Qed.

Lemma lk_firstn_repeat {A} (x : A) a b : (a <= b)%nat -> firstn a (repeat x b) = repeat x a.
Proof.
  revert b; induction a as [|a IH]; intros b H; [reflexivity|].
  destruct b as [|b]; [lia|]. cbn [repeat firstn]. f_equal. apply IH. lia.
Qed.

Lemma lk_nthN_app_l {A} (l1 l2 : list A) n : n < lenN l1 -> nthN (l1 ++ l2) n = nthN l1 n.
Proof. intros H. rewrite !nthN_nth_error. apply nth_error_app1. unfold lenN in H. lia. Qed.

Lemma lk_nthN_app_r {A} (l1 l2 : list A) n : lenN l1 <= n -> nthN (l1 ++ l2) n = nthN l2 (n - lenN l1).
Proof.
  intros H. rewrite !nthN_nth_error. unfold lenN in *. rewrite nth_error_app2 by lia.
  f_equal. lia.
Qed.

Lemma lk_nthN_repeatN {A} (x : A) c n : n < c -> nthN (repeatN x c) n = Some x.
Proof. intros H. rewrite nthN_nth_error. unfold repeatN. apply nth_error_repeat. lia. Qed.

Lemma lk_nthN_some_lt {A} (l : list A) n x : nthN l n = Some x -> n < lenN l.
Proof.
  intros H. destruct (N.lt_ge_cases n (lenN l)) as [|G]; auto.
  rewrite nthN_ge in H by exact G. discriminate.
Qed.

Lemma lk_lenN_repeat {A} (x : A) n : lenN (repeat x n) = N.of_nat n.
Proof. unfold lenN. now rewrite repeat_length. Qed.

(** a prefix no longer than the first block lies inside it; a longer one contains it *)
Lemma lk_firstn_app_short {A} (l1 l2 : list A) n : (n <= length l1)%nat -> firstn n (l1 ++ l2) = firstn n l1.
Proof.
  intros H. rewrite firstn_app. replace (n - length l1)%nat with 0%nat by lia.
  cbn [firstn]. apply app_nil_r.
Qed.

Lemma lk_firstn_app_long {A} (l1 l2 : list A) n : (length l1 <= n)%nat ->
  firstn n (l1 ++ l2) = l1 ++ firstn (n - length l1) l2.
Proof. intros H. rewrite firstn_app. now rewrite firstn_all2 by lia. Qed.

Lemma lk_splitN_firstn n (l : bytes) : n <= lenN l ->
  splitN n l = Some (firstn (N.to_nat n) l, skipn (N.to_nat n) l).
Proof.
  intros H. rewrite <- (firstn_skipn (N.to_nat n) l) at 1.
  apply splitN_app_n. unfold lenN in *. rewrite firstn_length_le by lia. lia.
Qed.

(** ** Boolean plumbing *)
Ltac lk_bool :=
  repeat match goal with
  | H : _ && _ = true |- _ => apply andb_true_iff in H; destruct H
  | H : (_ <? _) = true |- _ => apply N.ltb_lt in H
  | H : (_ <=? _) = true |- _ => apply N.leb_le in H
  | H : (_ =? _) = true |- _ => apply N.eqb_eq in H
  end.

Lemma lk_ltb_true a b : a < b -> (a <? b) = true.
Proof. intros; now apply N.ltb_lt. Qed.
Lemma lk_ltb_false a b : b <= a -> (a <? b) = false.
Proof. intros; now apply N.ltb_ge. Qed.
Lemma lk_leb_true a b : a <= b -> (a <=? b) = true.
Proof. intros; now apply N.leb_le. Qed.
Lemma lk_eqb_false a b : a <> b -> (a =? b) = false.
Proof. intros; now apply N.eqb_neq. Qed.

Lemma lk_checked_add_ok W a b : a + b < W -> checked_add W a b = Some (a + b).
Proof. intros H. unfold checked_add. now rewrite lk_ltb_true. Qed.
Lemma lk_checked_sub_ok a b : b <= a -> checked_sub a b = Some (a - b).
Proof. intros H. unfold checked_sub. now rewrite lk_leb_true. Qed.
Lemma lk_checked_mul_ok W a b : a * b < W -> checked_mul W a b = Some (a * b).
Proof. intros H. unfold checked_mul. now rewrite lk_ltb_true. Qed.

Lemma lk_mul_lt_U64 a b : a < U32 -> b < U32 -> a * b < U64.
Proof.
  intros Ha Hb. unfold U32, U64 in *.
  assert (a * b <= 4294967295 * 4294967295) by (apply N.mul_le_mono; lia). lia.
Qed.

(** ** stsc: the run found by [stsc_index] and the chunk arithmetic of [sample_offset]
    against [locate (chunk_counts ..)] *)

Lemma lk_div_step a s : 1 <= s -> s <= a -> a / s = 1 + (a - s) / s /\ a mod s = (a - s) mod s.
Proof.
  intros Hs Ha. assert (E : a = (a - s) + 1 * s) by lia.
  split.
  - rewrite E at 1. rewrite N.div_add by lia. lia.
  - rewrite E at 1. rewrite N.mod_add by lia. reflexivity.
Qed.

Lemma lk_locate_repeat spc rest k : 1 <= spc -> forall cnt c first, first <= k ->
  locate (repeat spc cnt ++ rest) c first k =
  if k <? first + N.of_nat cnt * spc
  then Some (c + (k - first) / spc, k - (k - first) mod spc)
  else locate rest (c + N.of_nat cnt) (first + N.of_nat cnt * spc) k.
Proof.
  intros Hs. induction cnt as [|cnt IH]; intros c first Hk.
  - cbn [repeat app]. rewrite lk_ltb_false by lia. f_equal; lia.
  - cbn [repeat app locate]. destruct (N.ltb_spec k (first + spc)).
    + rewrite lk_ltb_true by lia. rewrite N.div_small, N.mod_small by lia. f_equal. f_equal; lia.
    + rewrite IH by lia. rewrite N.sub_add_distr.
      assert (Hle : spc <= k - first) by lia.
      destruct (lk_div_step (k - first) spc Hs Hle) as [E1 E2].
      rewrite E1, E2. clear E1 E2 IH.
      set (q := (k - first - spc) / spc). set (r := (k - first - spc) mod spc).
      destruct (N.ltb_spec k (first + spc + N.of_nat cnt * spc)).
      * rewrite lk_ltb_true by lia. f_equal. f_equal; lia.
      * rewrite lk_ltb_false by lia. f_equal; lia.
Qed.

Definition lk_with_fs (e : stsc_entry) (fs : N) : stsc_entry :=
  mkStsc (sc_first_chunk e) (sc_samples_per_chunk e) (sc_sample_description_index e) fs.

(** the entry [stsc_index] selects: the last one whose [first_sample] is not above [k] *)
Fixpoint lk_find (es : list stsc_entry) (prev : stsc_entry) (k : N) : stsc_entry :=
  match es with
  | [] => prev
  | e :: t => if k <? sc_first_sample e then prev else lk_find t e k
  end.

Lemma lk_stsc_index_from k : forall es pre prev, pre <> [] ->
  nthN (pre ++ es) (lenN pre - 1) = Some prev ->
  exists idx, stsc_index_from es (lenN pre) (lenN pre - 1) k = Ok idx
              /\ nthN (pre ++ es) idx = Some (lk_find es prev k).
Proof.
  induction es as [|e t IH]; intros pre prev Hne Hprev.
  - cbn [stsc_index_from lk_find]. eauto.
  - cbn [stsc_index_from lk_find].
    assert (Hl : 1 <= lenN pre).
    { destruct pre; [congruence|]. rewrite lenN_cons. lia. }
    destruct (k <? sc_first_sample e).
    + rewrite lk_eqb_false by lia. eauto.
    + specialize (IH (pre ++ [e]) e).
      rewrite <- app_assoc in IH. cbn [app] in IH.
      rewrite lenN_app in IH. change (lenN [e]) with 1 in IH.
      replace (lenN pre + 1 - 1) with (lenN pre) in IH by lia.
      apply IH.
      * destruct pre; discriminate.
      * rewrite lk_nthN_app_r by lia. replace (lenN pre - lenN pre) with 0 by lia. reflexivity.
Qed.

Lemma lk_chunk_counts_cons2 e nx t NC :
  chunk_counts (e :: nx :: t) NC =
  repeatN (sc_samples_per_chunk e) (sc_first_chunk nx - sc_first_chunk e) ++ chunk_counts (nx :: t) NC.
Proof. reflexivity. Qed.

Lemma lk_chunk_counts_single e NC :
  chunk_counts [e] NC = repeatN (sc_samples_per_chunk e) (NC + 1 - sc_first_chunk e) ++ [].
Proof. reflexivity. Qed.

Lemma lk_runs_ok_cons e t NC : runs_ok (e :: t) None NC = true ->
  1 <= sc_samples_per_chunk e /\ sc_first_chunk e <= NC
  /\ match t with [] => True | nx :: _ => sc_first_chunk e < sc_first_chunk nx end
  /\ runs_ok t None NC = true.
Proof.
  cbn [runs_ok]. intros H. lk_bool. repeat split; auto.
  destruct t; auto. now apply N.ltb_lt.
Qed.

Lemma lk_derive_cons2 e nx t first :
  derive_first_samples (e :: nx :: t) first =
  match checked_sub (sc_first_chunk nx) (sc_first_chunk e) with
  | None => None
  | Some d =>
      match checked_mul U32 d (sc_samples_per_chunk e) with
      | None => None
      | Some dm =>
          match checked_add U32 dm first with
          | None => None
          | Some sid' =>
              match derive_first_samples (nx :: t) sid' with
              | Some r => Some (lk_with_fs e first :: r)
              | None => None
              end
          end
      end
  end.
Proof. reflexivity. Qed.

Lemma lk_stsc_core NC : forall t e first,
  runs_ok (e :: t) None NC = true ->
  first + sumN (chunk_counts (e :: t) NC) < U32 ->
  exists t', derive_first_samples (e :: t) first = Some (lk_with_fs e first :: t') /\
    (forall k, first <= k -> k < first + sumN (chunk_counts (e :: t) NC) ->
      let r := lk_find t' (lk_with_fs e first) k in
      sc_first_sample r <= k /\ 1 <= sc_samples_per_chunk r /\
      locate (chunk_counts (e :: t) NC) (sc_first_chunk e) first k =
        Some ((k - sc_first_sample r) / sc_samples_per_chunk r + sc_first_chunk r,
              k - (k - sc_first_sample r) mod sc_samples_per_chunk r)) /\
    (forall k, first + sumN (chunk_counts (e :: t) NC) <= k ->
      let r := lk_find t' (lk_with_fs e first) k in
      sc_first_sample r <= k /\ 1 <= sc_samples_per_chunk r /\
      NC + 1 <= (k - sc_first_sample r) / sc_samples_per_chunk r + sc_first_chunk r).
Proof.
  induction t as [|nx t2 IH]; intros e first Hok Hsum.
  - exists []. split; [reflexivity|].
    apply lk_runs_ok_cons in Hok as (Hs & Hfc & _ & _).
    rewrite lk_chunk_counts_single in *. rewrite sumN_app, lk_sumN_repeatN, lk_sumN_nil in *.
    split.
    + intros k Hk1 Hk2.
      cbv zeta. cbn [lk_find]. unfold lk_with_fs; cbn [sc_first_sample sc_samples_per_chunk sc_first_chunk].
      split; [exact Hk1|]. split; [exact Hs|].
      unfold repeatN. rewrite lk_locate_repeat by assumption.
      rewrite lk_ltb_true by lia. f_equal. f_equal. lia.
    + intros k Hk.
      cbv zeta. cbn [lk_find]. unfold lk_with_fs; cbn [sc_first_sample sc_samples_per_chunk sc_first_chunk].
      remember (NC + 1 - sc_first_chunk e) as cnt eqn:Hcnt.
      remember (sc_samples_per_chunk e) as spc eqn:Hspc.
      assert (Hfk : first <= k) by (clear - Hk; pose proof (N.le_0_l (cnt * spc)); lia).
      split; [exact Hfk|]. split; [exact Hs|].
      assert (cnt <= (k - first) / spc).
      { apply N.div_le_lower_bound; [lia|]. rewrite N.mul_comm. clear - Hk Hfk. lia. }
      lia.
  - apply lk_runs_ok_cons in Hok as (Hs & Hfc & Hlt & Hok2).
    rewrite lk_chunk_counts_cons2 in *. rewrite sumN_app, lk_sumN_repeatN in *.
    set (d := sc_first_chunk nx - sc_first_chunk e) in *.
    set (spc := sc_samples_per_chunk e) in *.
    destruct (IH nx (d * spc + first) Hok2) as (t2' & Hd & Hloc & Hbey); [lia|].
    exists (lk_with_fs nx (d * spc + first) :: t2'). split; [|split].
    + rewrite lk_derive_cons2. rewrite lk_checked_sub_ok by lia. fold d. fold spc.
      rewrite lk_checked_mul_ok by lia. rewrite lk_checked_add_ok by lia. now rewrite Hd.
    + intros k Hk1 Hk2.
      cbv zeta. cbn [lk_find].
      change (sc_first_sample (lk_with_fs nx (d * spc + first))) with (d * spc + first).
      unfold repeatN. rewrite lk_locate_repeat by assumption.
      replace (first + N.of_nat (N.to_nat d) * spc) with (d * spc + first) by lia.
      destruct (N.ltb_spec k (d * spc + first)).
      * unfold lk_with_fs; cbn [sc_first_sample sc_samples_per_chunk sc_first_chunk]. fold spc.
        split; [exact Hk1|]. split; [exact Hs|]. f_equal. f_equal. lia.
      * replace (sc_first_chunk e + N.of_nat (N.to_nat d)) with (sc_first_chunk nx) by lia.
        apply Hloc; lia.
    + intros k Hk.
      cbv zeta. cbn [lk_find].
      change (sc_first_sample (lk_with_fs nx (d * spc + first))) with (d * spc + first).
      rewrite lk_ltb_false by lia. apply Hbey. lia.
Qed.

Lemma lk_chunk_counts_len NC : forall t e, runs_ok (e :: t) None NC = true ->
  lenN (chunk_counts (e :: t) NC) = NC + 1 - sc_first_chunk e.
Proof.
  induction t as [|nx t IH]; intros e Hok.
  - rewrite lk_chunk_counts_single, lenN_app, lenN_repeatN. change (lenN (@nil N)) with 0. lia.
  - apply lk_runs_ok_cons in Hok as (Hs & Hfc & Hlt & Hok2).
    rewrite lk_chunk_counts_cons2, lenN_app, lenN_repeatN, (IH nx Hok2).
    apply lk_runs_ok_cons in Hok2 as (_ & Hfc2 & _ & _). lia.
Qed.

(** the located chunk has an offset, and [chunks_fit] bounds the bytes of that chunk *)
Lemma lk_locate_fit S k : forall counts offs c first c' f,
  1 <= first -> first <= k -> lenN counts <= lenN offs ->
  locate counts c first k = Some (c', f) ->
  chunks_fit offs counts (skipn (N.to_nat (first - 1)) S) = true ->
  exists o n, nthN offs (c' - c) = Some o /\ c <= c' /\ 1 <= f /\ f <= k /\ k < f + n /\
              o + sumN (firstn (N.to_nat n) (skipn (N.to_nat (f - 1)) S)) < U64.
Proof.
  induction counts as [|n t IH]; intros offs c first c' f H1 Hk Hlen Hloc Hfit.
  - discriminate.
  - destruct offs as [|o os]; [rewrite lenN_cons in Hlen; change (lenN (@nil N)) with 0 in Hlen; lia|].
    cbn [locate] in Hloc. cbn [chunks_fit] in Hfit. apply andb_true_iff in Hfit as [Hb Hfit].
    apply N.ltb_lt in Hb.
    destruct (N.ltb_spec k (first + n)).
    + inversion Hloc; subst c' f. exists o, n.
      replace (c - c) with 0 by lia. cbn [nthN]. change (0 =? 0) with true. cbn iota.
      repeat split; try lia.
    + rewrite lk_skipn_skipn in Hfit.
      replace (N.to_nat n + N.to_nat (first - 1))%nat with (N.to_nat (first + n - 1)) in Hfit by lia.
      rewrite !lenN_cons in Hlen.
      destruct (IH os (c + 1) (first + n) c' f) as (o' & n' & Hn & Hc & Hr); auto; try lia.
      exists o', n'. split; [|split; [lia|exact Hr]].
      cbn [nthN]. rewrite lk_eqb_false by lia.
      replace (c' - c - 1) with (c' - (c + 1)) by lia. exact Hn.
Qed.

(** ** stsz: bytes of the samples of the chunk that precede sample [k] *)
Lemma lk_sum_sizes : forall l cnt acc, cnt <= lenN l ->
  sum_sizes l cnt acc = Ok (acc + sumN (firstn (N.to_nat cnt) l)).
Proof.
  induction l as [|x t IH]; intros cnt acc H.
  - change (lenN (@nil N)) with 0 in H. assert (cnt = 0) by lia. subst.
    cbn [sum_sizes]. change (0 =? 0) with true. cbn iota. rewrite firstn_nil, lk_sumN_nil. f_equal. lia.
  - cbn [sum_sizes]. destruct (N.eqb_spec cnt 0).
    + subst. change (N.to_nat 0) with 0%nat. cbn [firstn]. rewrite lk_sumN_nil. f_equal. lia.
    + rewrite lenN_cons in H. rewrite IH by lia.
      replace (N.to_nat cnt) with (S (N.to_nat (cnt - 1))) by lia. cbn [firstn].
      rewrite lk_sumN_cons. f_equal. lia.
Qed.

Lemma lk_skipn_repeat {A} (x : A) a b : skipn a (repeat x b) = repeat x (b - a).
Proof.
  revert b; induction a as [|a IH]; intros b.
  - now rewrite Nat.sub_0_r.
  - destruct b as [|b]; [reflexivity|]. cbn [repeat skipn]. rewrite IH. reflexivity.
Qed.

Lemma lk_sum_range_fixed s n f k : 1 <= f -> f <= k -> k <= n ->
  sum_range (repeatN s n) f k = (k - f) * s.
Proof.
  intros H1 H2 H3. unfold sum_range, repeatN. rewrite lk_skipn_repeat.
  rewrite lk_firstn_repeat by lia. rewrite lk_sumN_repeat. lia.
Qed.

Lemma lk_nth1_repeatN {A} (x : A) n k : 1 <= k -> k <= n -> nth1 (repeatN x n) k = Some x.
Proof.
  intros H1 H2. unfold nth1. rewrite lk_eqb_false by lia. apply lk_nthN_repeatN. lia.
Qed.

(** ** stts / ctts: run-length tables against their flattened meaning *)
Definition lk_flat {V} (es : list (N * V)) : list V := flat_map (fun e => repeatN (snd e) (fst e)) es.

Lemma lk_flat_cons {V} c (d : V) t : lk_flat ((c, d) :: t) = repeatN d c ++ lk_flat t.
Proof. reflexivity. Qed.

Lemma lk_count_cons {V} c (d : V) t : count_of_runs ((c, d) :: t) = c + count_of_runs t.
Proof. reflexivity. Qed.

Lemma lk_lenN_flat {V} (es : list (N * V)) : lenN (lk_flat es) = count_of_runs es.
Proof.
  induction es as [|[c d] t IH]; [reflexivity|].
  rewrite lk_flat_cons, lk_count_cons, lenN_app, lenN_repeatN, IH. reflexivity.
Qed.

Lemma lk_sumN_flat_bound (es : list (N * N)) :
  forallb (fun e => (fst e <? U32) && (snd e <? U32)) es = true ->
  sumN (lk_flat es) <= count_of_runs es * (U32 - 1).
Proof.
  induction es as [|[c d] t IH]; intros H.
  - change (sumN (lk_flat (@nil (N * N)))) with 0. apply N.le_0_l.
  - cbn [forallb fst snd] in H. lk_bool. specialize (IH H0).
    rewrite lk_flat_cons, lk_count_cons, sumN_app, lk_sumN_repeatN.
    assert (c * d <= c * (U32 - 1)) by (apply N.mul_le_mono_l; lia).
    rewrite N.mul_add_distr_r. lia.
Qed.

Lemma lk_length_repeatN {A} (x : A) n : length (repeatN x n) = N.to_nat n.
Proof. unfold repeatN. apply repeat_length. Qed.

Lemma lk_stts_scan m k : forall es sc el,
  sc + count_of_runs es < U32 -> sc <= k -> k < sc + count_of_runs es ->
  el + sumN (lk_flat es) < U64 ->
  exists d, nthN (lk_flat es) (k - sc) = Some d /\
    stts_scan m es sc el k = Ok (el + sumN (firstn (N.to_nat (k - sc)) (lk_flat es)), d).
Proof.
  induction es as [|[c d] t IH]; intros sc el Hc Hk1 Hk2 Hel.
  - change (count_of_runs (@nil (N * N))) with 0 in Hk2. lia.
  - rewrite lk_count_cons in *. rewrite lk_flat_cons in *. rewrite sumN_app, lk_sumN_repeatN in Hel.
    cbn [stts_scan]. rewrite lk_checked_add_ok by lia.
    destruct (N.ltb_spec k (sc + c)).
    + exists d. split.
      * rewrite lk_nthN_app_l by (rewrite lenN_repeatN; lia). apply lk_nthN_repeatN. lia.
      * assert ((k - sc) * d <= c * d) by (apply N.mul_le_mono_r; lia).
        rewrite sub_w_ok by lia. cbn [res_bind]. rewrite mul_w_ok by lia. cbn [res_bind].
        rewrite add_w_ok by lia. cbn [res_bind].
        rewrite lk_firstn_app_short by (rewrite lk_length_repeatN; lia).
        unfold repeatN. rewrite lk_firstn_repeat by lia. rewrite lk_sumN_repeat.
        f_equal. f_equal. lia.
    + rewrite mul_w_ok by lia. cbn [res_bind]. rewrite add_w_ok by lia. cbn [res_bind].
      destruct (IH (sc + c) (el + c * d)) as (d' & Hn & Hs); try lia.
      exists d'. split.
      * rewrite lk_nthN_app_r by (rewrite lenN_repeatN; lia). rewrite lenN_repeatN.
        replace (k - sc - c) with (k - (sc + c)) by lia. exact Hn.
      * rewrite Hs. rewrite lk_firstn_app_long by (rewrite lk_length_repeatN; lia).
        rewrite lk_length_repeatN, sumN_app, lk_sumN_repeatN.
        replace (N.to_nat (k - sc) - N.to_nat c)%nat with (N.to_nat (k - (sc + c))) by lia.
        f_equal. f_equal. lia.
Qed.

Lemma lk_ctts_index k : forall (es : list (N * Z)) i sc,
  sc + count_of_runs es < U32 -> sc <= k -> k < sc + count_of_runs es ->
  exists j sc' cnt o, ctts_index_from es i sc k = Ok (i + j, sc') /\ nthN es j = Some (cnt, o)
                      /\ nthN (lk_flat es) (k - sc) = Some o.
Proof.
  induction es as [|[c o] t IH]; intros i sc Hc Hk1 Hk2.
  - change (count_of_runs (@nil (N * Z))) with 0 in Hk2. lia.
  - rewrite lk_count_cons in *. rewrite lk_flat_cons.
    cbn [ctts_index_from]. rewrite lk_checked_add_ok by lia.
    destruct (N.ltb_spec k (sc + c)).
    + exists 0, sc, c, o. split; [f_equal; f_equal; lia|]. split; [reflexivity|].
      rewrite lk_nthN_app_l by (rewrite lenN_repeatN; lia). apply lk_nthN_repeatN. lia.
    + destruct (IH (i + 1) (sc + c)) as (j & sc' & cnt & o' & H1 & H2 & H3); try lia.
      exists (j + 1), sc', cnt, o'. split; [rewrite H1; f_equal; f_equal; lia|]. split.
      * cbn [nthN]. rewrite lk_eqb_false by lia. replace (j + 1 - 1) with j by lia. exact H2.
      * rewrite lk_nthN_app_r by (rewrite lenN_repeatN; lia). rewrite lenN_repeatN.
        replace (k - sc - c) with (k - (sc + c)) by lia. exact H3.
Qed.

(** ** stss: [slice::binary_search] on a strictly increasing list decides membership *)
Definition lk_sorted (l : list N) : Prop :=
  forall i j a b, i < j -> nthN l i = Some a -> nthN l j = Some b -> a < b.

Lemma lk_strictly_increasing_sorted : forall l p, strictly_increasing p l = true ->
  (forall j b, nthN l j = Some b -> p < b) /\ lk_sorted l.
Proof.
  induction l as [|x t IH]; intros p H.
  - split; [intros j b Hj; discriminate|]. intros i j a b _ Hi. discriminate.
  - cbn [strictly_increasing] in H. apply andb_true_iff in H as [Hp Ht]. apply N.ltb_lt in Hp.
    destruct (IH x Ht) as [Hall Hs].
    assert (Hall' : forall j b, nthN (x :: t) j = Some b -> p < b).
    { intros j b Hj. cbn [nthN] in Hj. destruct (N.eqb_spec j 0).
      - inversion Hj; subst; exact Hp.
      - apply Hall in Hj. lia. }
    split; [exact Hall'|].
    intros i j a b Hij Hi Hj. cbn [nthN] in Hi, Hj.
    rewrite (lk_eqb_false j 0) in Hj by lia.
    destruct (N.eqb_spec i 0).
    + inversion Hi; subst. apply Hall in Hj. exact Hj.
    + apply (Hs (i - 1) (j - 1)); auto. lia.
Qed.

Lemma lk_bsearch_loop l x : lk_sorted l -> forall fuel base size,
  1 <= size -> size <= N.of_nat fuel -> base + size <= lenN l ->
  base <= bsearch_loop fuel l base size x < base + size /\
  forall j, nthN l j = Some x -> base <= j < base + size -> j = bsearch_loop fuel l base size x.
Proof.
  intros Hs. induction fuel as [|f IH]; intros base size H1 Hf Hlen; [lia|].
  cbn [bsearch_loop]. destruct (N.leb_spec size 1).
  - split; [lia|]. intros j _ Hj. lia.
  - assert (Hm : base + size / 2 < lenN l) by lia.
    destruct (nthN_lt l _ Hm) as [y Hy]. rewrite Hy.
    set (base' := if x <? y then base else base + size / 2).
    assert (Hb : base' = base \/ base' = base + size / 2) by (unfold base'; destruct (x <? y); auto).
    destruct (IH base' (size - size / 2)) as [Hr Hu]; try lia.
    split; [lia|]. intros j Hj Hjr. apply Hu; auto.
    unfold base'. destruct (N.ltb_spec x y).
    + assert (j < base + size / 2); [|lia].
      destruct (N.lt_ge_cases j (base + size / 2)) as [|G]; auto. exfalso.
      destruct (N.eq_dec j (base + size / 2)) as [->|Hne]; [rewrite Hy in Hj; inversion Hj; lia|].
      assert (y < x) by (apply (Hs (base + size / 2) j); auto; lia). lia.
    + assert (base + size / 2 <= j); [|lia].
      destruct (N.lt_ge_cases j (base + size / 2)) as [G|]; auto. exfalso.
      assert (x < y) by (apply (Hs j (base + size / 2)); auto). lia.
Qed.

Lemma lk_existsb_nth l x : existsb (N.eqb x) l = true <-> exists j, nthN l j = Some x.
Proof.
  rewrite existsb_exists. split.
  - intros (y & Hin & He). apply N.eqb_eq in He. subst y.
    apply In_nth_error in Hin as [n Hn]. exists (N.of_nat n).
    rewrite nthN_nth_error. now rewrite Nat2N.id.
  - intros (j & Hj). rewrite nthN_nth_error in Hj. apply nth_error_In in Hj.
    exists x. split; auto. apply N.eqb_refl.
Qed.

Lemma lk_binary_search_ok l x : strictly_increasing 0 l = true ->
  binary_search_ok l x = existsb (N.eqb x) l.
Proof.
  intros H. apply lk_strictly_increasing_sorted in H as [_ Hs].
  destruct l as [|x0 t]; [reflexivity|].
  set (l := x0 :: t) in *. unfold binary_search_ok. fold l.
  assert (Hl : 1 <= lenN l) by (unfold l; rewrite lenN_cons; lia).
  destruct (lk_bsearch_loop l x Hs (S (length l)) 0 (lenN l)) as [Hr Hu];
    [exact Hl | unfold lenN; lia | lia |].
  set (b := bsearch_loop (S (length l)) l 0 (lenN l) x) in *.
  destruct (nthN_lt l b) as [y Hy]; [lia|]. rewrite Hy.
  destruct (N.eqb_spec y x) as [->|Hne].
  - symmetry. apply lk_existsb_nth. eauto.
  - symmetry. apply not_true_iff_false. intros He. apply lk_existsb_nth in He as [j Hj].
    assert (j = b) by (apply Hu; auto; apply lk_nthN_some_lt in Hj; lia). subst j.
    rewrite Hy in Hj. congruence.
Qed.

(** ** Assembly *)
Definition lk_tables_of (tb : tables) (es : list stsc_entry) : tables :=
  mkTables es (t_stsz_size tb) (t_stsz_count tb) (t_stsz_sizes tb) (t_stco tb) (t_co64 tb)
           (t_stts tb) (t_ctts tb) (t_stss tb).

Definition lk_track_of (tb : tables) : option track :=
  match derive_first_samples (t_stsc tb) 1 with
  | Some es => Some (mkTrack 1 (lk_tables_of tb es) [] 0)
  | None => None
  end.

Record lk_facts (tb : tables) : Prop := mkLkFacts {
  lkf_n : t_stsz_count tb < U32 - 1;
  lkf_has_offs : match t_stco tb, t_co64 tb with None, None => False | _, _ => True end;
  lkf_nchunks : lenN (chunk_offsets tb) < U32 - 1;
  lkf_empty : match t_stsc tb with
              | [] => t_stsz_count tb = 0
              | _ => 1 <= lenN (chunk_offsets tb)
              end;
  lkf_runs : runs_ok (t_stsc tb) (Some 1) (lenN (chunk_offsets tb)) = true;
  lkf_sum : sumN (chunk_counts (t_stsc tb) (lenN (chunk_offsets tb))) = t_stsz_count tb;
  lkf_size : t_stsz_size tb < U32;
  lkf_sizes : t_stsz_size tb = 0 -> lenN (t_stsz_sizes tb) = t_stsz_count tb;
  lkf_stts : count_of_runs (t_stts tb) = t_stsz_count tb;
  lkf_stts_w : forallb (fun e => (fst e <? U32) && (snd e <? U32)) (t_stts tb) = true;
  lkf_ctts : match t_ctts tb with Some es => count_of_runs es = t_stsz_count tb | None => True end;
  lkf_stss : match t_stss tb with Some l => strictly_increasing 0 l = true | None => True end;
  lkf_fit : chunks_fit (chunk_offsets tb) (chunk_counts (t_stsc tb) (lenN (chunk_offsets tb)))
                       (sizes_flat tb) = true
}.

Lemma lk_consistent_facts tb : consistent tb = true -> lk_facts tb.
Proof.
  unfold consistent. cbv zeta. intros H.
  apply andb_true_iff in H as [H Hfit].
  apply andb_true_iff in H as [H Hstss].
  apply andb_true_iff in H as [H Hctts].
  apply andb_true_iff in H as [H Hsttsw].
  apply andb_true_iff in H as [H Hstts].
  apply andb_true_iff in H as [H Hszw].
  apply andb_true_iff in H as [H Hsizes].
  apply andb_true_iff in H as [H Hsize].
  apply andb_true_iff in H as [H Hsum].
  apply andb_true_iff in H as [H Hruns].
  apply andb_true_iff in H as [H Hempty].
  apply andb_true_iff in H as [H Hoffw].
  apply andb_true_iff in H as [H Hnch].
  apply andb_true_iff in H as [Hn Hhas].
  lk_bool. constructor; auto.
  - destruct (t_stco tb), (t_co64 tb); auto. discriminate.
  - destruct (t_stsc tb); lk_bool; auto.
  - intros Hz. rewrite Hz in Hsizes. change (0 <? 0) with false in Hsizes. cbn iota in Hsizes.
    now apply N.eqb_eq.
  - destruct (t_ctts tb); auto. lk_bool. auto.
  - destruct (t_stss tb); auto. lk_bool. auto.
Qed.

Lemma lk_runs_ok_some e t NC : runs_ok (e :: t) (Some 1) NC = true ->
  sc_first_chunk e = 1 /\ runs_ok (e :: t) None NC = true.
Proof.
  cbn [runs_ok]. rewrite <- !andb_assoc. intros H. apply andb_true_iff in H as [H1 H2].
  apply N.eqb_eq in H1. split; [exact H1|]. exact H2.
Qed.

Definition lk_stsc_in (tb : tables) (es : list stsc_entry) : Prop :=
  forall k, 1 <= k <= t_stsz_count tb ->
      exists idx e,
        (forall tbl, t_stsc tbl = es -> stsc_index tbl k = Ok idx) /\ nthN es idx = Some e /\
        sc_first_sample e <= k /\ 1 <= sc_samples_per_chunk e /\
        locate (chunk_counts (t_stsc tb) (lenN (chunk_offsets tb))) 1 1 k =
          Some ((k - sc_first_sample e) / sc_samples_per_chunk e + sc_first_chunk e,
                k - (k - sc_first_sample e) mod sc_samples_per_chunk e).

Definition lk_stsc_out (tb : tables) (es : list stsc_entry) : Prop :=
  (forall tbl, t_stsc tbl = es -> stsc_index tbl 0 = Err EData) /\
  (forall k, t_stsz_count tb < k ->
      es = [] \/
      exists idx e,
        (forall tbl, t_stsc tbl = es -> stsc_index tbl k = Ok idx) /\ nthN es idx = Some e /\
        sc_first_sample e <= k /\ 1 <= sc_samples_per_chunk e /\
        lenN (chunk_offsets tb) + 1 <=
          (k - sc_first_sample e) / sc_samples_per_chunk e + sc_first_chunk e).

Lemma lk_stsc_sound tb : lk_facts tb ->
  exists es, derive_first_samples (t_stsc tb) 1 = Some es /\ lk_stsc_in tb es /\ lk_stsc_out tb es.
Proof.
  intros F. destruct F as [Hn _ _ Hempty Hruns Hsum _ _ _ _ _ _ _].
  unfold lk_stsc_in, lk_stsc_out.
  set (NC := lenN (chunk_offsets tb)) in *.
  destruct (t_stsc tb) as [|e0 t0].
  - exists []. split; [reflexivity|]. split; [intros k Hk; lia|]. split.
    + intros tbl Htbl. unfold stsc_index. now rewrite Htbl.
    + intros k _. now left.
  - apply lk_runs_ok_some in Hruns as [Hfc Hok].
    destruct (lk_stsc_core NC t0 e0 1 Hok) as (t' & Hd & Hloc & Hbey); [lia|].
    exists (lk_with_fs e0 1 :: t'). split; [exact Hd|].
    assert (Hix : forall k, 1 <= k -> exists idx,
               (forall tbl, t_stsc tbl = lk_with_fs e0 1 :: t' -> stsc_index tbl k = Ok idx) /\
               nthN (lk_with_fs e0 1 :: t') idx = Some (lk_find t' (lk_with_fs e0 1) k)).
    { intros k Hk.
      destruct (lk_stsc_index_from k t' [lk_with_fs e0 1] (lk_with_fs e0 1)) as (idx & Hi & Hnth);
        [discriminate|reflexivity|].
      change (lenN [lk_with_fs e0 1]) with 1 in Hi. change (1 - 1) with 0 in Hi.
      cbn [app] in Hnth. exists idx. split; [|exact Hnth].
      intros tbl Htbl. unfold stsc_index. rewrite Htbl. cbn [stsc_index_from].
      change (sc_first_sample (lk_with_fs e0 1)) with 1. rewrite lk_ltb_false by lia.
      change (0 + 1) with 1. exact Hi. }
    split; [|split].
    + intros k Hk.
      destruct (Hloc k) as (H1 & H2 & H3); [lia|lia|]. cbv zeta in H1, H2, H3.
      destruct (Hix k) as (idx & Hi & Hnth); [lia|].
      exists idx, (lk_find t' (lk_with_fs e0 1) k). split; [exact Hi|]. split; [exact Hnth|].
      split; [exact H1|]. split; [exact H2|]. rewrite Hfc in H3 at 1. exact H3.
    + intros tbl Htbl. unfold stsc_index. rewrite Htbl. cbn [stsc_index_from].
      change (sc_first_sample (lk_with_fs e0 1)) with 1. reflexivity.
    + intros k Hk. right.
      destruct (Hbey k) as (H1 & H2 & H3); [lia|]. cbv zeta in H1, H2, H3.
      destruct (Hix k) as (idx & Hi & Hnth); [lia|].
      exists idx, (lk_find t' (lk_with_fs e0 1) k). auto.
Qed.

Lemma lk_inchunk m tb f k : lk_facts tb -> 1 <= f -> f <= k -> k <= t_stsz_count tb ->
  (if 0 <? t_stsz_size tb
   then res_bind (sub_w m U32 "sample_id - first_in_chunk" k f) (fun j =>
        mul_w m U64 "in-chunk offset" j (t_stsz_size tb))
   else match checked_sub f 1 with
        | Some skip => sum_sizes (dropN skip (t_stsz_sizes tb)) (k - f) 0
        | None => if k - f =? 0 then Ok 0 else Err ENotFound
        end) = Ok (sum_range (sizes_flat tb) f k).
Proof.
  intros F H1 H2 H3. pose proof (lkf_n _ F) as Hn. pose proof (lkf_size _ F) as Hsz.
  pose proof (lkf_sizes _ F) as Hlen. unfold sizes_flat.
  destruct (N.ltb_spec 0 (t_stsz_size tb)) as [Hpos|Hz].
  - rewrite sub_w_ok by lia. cbn [res_bind].
    rewrite mul_w_ok by (apply lk_mul_lt_U64; unfold U32 in *; lia).
    now rewrite lk_sum_range_fixed by lia.
  - rewrite lk_checked_sub_ok by lia. specialize (Hlen ltac:(lia)).
    rewrite lk_sum_sizes by (rewrite dropN_lenN; lia).
    rewrite lk_dropN_skipn. unfold sum_range. f_equal.
Qed.

Lemma lk_offset_sound m tb es k : lk_facts tb -> lk_stsc_in tb es ->
  1 <= k <= t_stsz_count tb ->
  exists off, spec_offset tb k = Some off /\
              sample_offset m (mkTrack 1 (lk_tables_of tb es) [] 0) k = Ok off.
Proof.
  intros F Hst Hk. destruct (Hst k Hk) as (idx & e & Hidx & Hnth & Hfs & Hspc & Hloc).
  pose proof (lkf_n _ F) as Hn. pose proof (lkf_nchunks _ F) as Hnc.
  set (c := (k - sc_first_sample e) / sc_samples_per_chunk e + sc_first_chunk e) in *.
  set (f := k - (k - sc_first_sample e) mod sc_samples_per_chunk e) in *.
  assert (Hlen : lenN (chunk_counts (t_stsc tb) (lenN (chunk_offsets tb))) <= lenN (chunk_offsets tb)).
  { pose proof (lkf_runs _ F) as Hr. destruct (t_stsc tb) as [|e0 t0].
    - change (lenN (chunk_counts [] (lenN (chunk_offsets tb)))) with 0. lia.
    - apply lk_runs_ok_some in Hr as [Hfc Hok]. rewrite (lk_chunk_counts_len _ _ _ Hok). lia. }
  destruct (lk_locate_fit (sizes_flat tb) k (chunk_counts (t_stsc tb) (lenN (chunk_offsets tb)))
                          (chunk_offsets tb) 1 1 c f) as
    (o & n & Ho & Hc1 & Hf1 & Hfk & Hkn & Hfit); try lia; auto.
  { change (N.to_nat (1 - 1)) with 0%nat. cbn [skipn]. exact (lkf_fit _ F). }
  assert (Hcn : c <= lenN (chunk_offsets tb)) by (apply lk_nthN_some_lt in Ho; lia).
  assert (Hle : sum_range (sizes_flat tb) f k <=
                sumN (firstn (N.to_nat n) (skipn (N.to_nat (f - 1)) (sizes_flat tb)))).
  { unfold sum_range. apply lk_sumN_firstn_mono. lia. }
  exists (o + sum_range (sizes_flat tb) f k). split.
  - unfold spec_offset. rewrite Hloc. unfold nth1. rewrite lk_eqb_false by lia. now rewrite Ho.
  - unfold sample_offset. cbn [tr_frags tr_tables].
    rewrite (Hidx (lk_tables_of tb es) eq_refl). cbn [res_bind].
    change (t_stsc (lk_tables_of tb es)) with es.
    change (t_stsz_size (lk_tables_of tb es)) with (t_stsz_size tb).
    change (t_stsz_sizes (lk_tables_of tb es)) with (t_stsz_sizes tb).
    rewrite Hnth.
    rewrite lk_eqb_false by lia. rewrite lk_checked_sub_ok by lia.
    fold c. rewrite lk_checked_add_ok by (unfold U32 in *; fold c; lia).
    assert (Hco : chunk_offset (lk_tables_of tb es) c = Ok o).
    { unfold chunk_offset. cbn [lk_tables_of t_stco t_co64].
      pose proof (lkf_has_offs _ F) as Hh. unfold chunk_offsets in Ho.
      rewrite lk_checked_sub_ok by lia.
      destruct (t_stco tb), (t_co64 tb); try (now rewrite Ho). contradiction. }
    fold c. rewrite Hco. cbn [res_bind].
    rewrite sub_w_ok by lia. cbn [res_bind].
    rewrite sub_w_ok by (pose proof (N.mod_le (k - sc_first_sample e) (sc_samples_per_chunk e)); lia).
    cbn [res_bind]. fold f.
    rewrite (lk_inchunk m tb f k F) by lia. cbn [res_bind].
    rewrite lk_checked_add_ok by lia. reflexivity.
Qed.

Lemma lk_size_sound tb es k : lk_facts tb -> 1 <= k <= t_stsz_count tb ->
  exists sz, spec_size tb k = Some sz /\ sample_size (mkTrack 1 (lk_tables_of tb es) [] 0) k = Ok sz.
Proof.
  intros F Hk. unfold sample_size, spec_size, sizes_flat. cbn [tr_frags tr_tables].
  change (t_stsz_size (lk_tables_of tb es)) with (t_stsz_size tb).
  change (t_stsz_sizes (lk_tables_of tb es)) with (t_stsz_sizes tb).
  destruct (N.ltb_spec 0 (t_stsz_size tb)) as [Hpos|Hz].
  - exists (t_stsz_size tb). split; [|reflexivity]. apply lk_nth1_repeatN; lia.
  - pose proof (lkf_sizes _ F ltac:(lia)) as Hlen.
    destruct (nthN_lt (t_stsz_sizes tb) (k - 1)) as [sz Hsz]; [lia|].
    exists sz. unfold nth1. rewrite lk_eqb_false by lia. split; [exact Hsz|].
    rewrite lk_checked_sub_ok by lia. now rewrite Hsz.
Qed.

Lemma lk_time_sound m tb es k : lk_facts tb -> 1 <= k <= t_stsz_count tb ->
  exists dl, spec_delta tb k = Some dl /\
    sample_time m (mkTrack 1 (lk_tables_of tb es) [] 0) k = Ok (spec_start tb k, dl).
Proof.
  intros F Hk. pose proof (lkf_n _ F) as Hn. pose proof (lkf_stts _ F) as Hc.
  pose proof (lk_sumN_flat_bound _ (lkf_stts_w _ F)) as Hb. rewrite Hc in Hb.
  unfold sample_time, spec_delta, spec_start, deltas_flat. cbn [tr_frags tr_tables].
  change (t_stts (lk_tables_of tb es)) with (t_stts tb).
  fold (lk_flat (t_stts tb)).
  destruct (lk_stts_scan m k (t_stts tb) 1 0) as (d & Hd & Hs); try lia.
  { unfold U32, U64 in *. lia. }
  exists d. unfold nth1. rewrite lk_eqb_false by lia. split; [exact Hd|].
  rewrite Hs. now rewrite N.add_0_l.
Qed.

Lemma lk_cts_sound tb es k : lk_facts tb -> 1 <= k <= t_stsz_count tb ->
  spec_cts tb k = Some (sample_rendering_offset (mkTrack 1 (lk_tables_of tb es) [] 0) k).
Proof.
  intros F Hk. pose proof (lkf_n _ F) as Hn. pose proof (lkf_ctts _ F) as Hc.
  unfold sample_rendering_offset, spec_cts, cts_flat. cbn [tr_frags tr_tables].
  change (t_ctts (lk_tables_of tb es)) with (t_ctts tb).
  destruct (t_ctts tb) as [l|].
  - fold (lk_flat l).
    destruct (lk_ctts_index k l 0 1) as (j & sc' & cnt & o & H1 & H2 & H3); try lia.
    rewrite H1, N.add_0_l, H2. unfold nth1. rewrite lk_eqb_false by lia. exact H3.
  - apply lk_nth1_repeatN; lia.
Qed.

Lemma lk_sync_sound tb es k : lk_facts tb ->
  is_sync_sample (mkTrack 1 (lk_tables_of tb es) [] 0) k = Ok (spec_sync tb k).
Proof.
  intros F. pose proof (lkf_stss _ F) as Hs.
  unfold is_sync_sample, spec_sync. cbn [tr_frags tr_tables].
  change (t_stss (lk_tables_of tb es)) with (t_stss tb).
  destruct (t_stss tb) as [l|]; [|reflexivity].
  now rewrite lk_binary_search_ok.
Qed.

(** ids outside [1..count]: [sample_offset] fails with an error (never [Ok], never a panic) *)
Lemma lk_offset_out m tb es k : lk_facts tb -> lk_stsc_out tb es ->
  k = 0 \/ t_stsz_count tb < k ->
  exists e, sample_offset m (mkTrack 1 (lk_tables_of tb es) [] 0) k = Err e.
Proof.
  intros F [H0 Hbig] Hk. unfold sample_offset. cbn [tr_frags tr_tables].
  destruct Hk as [->|Hk].
  - rewrite (H0 (lk_tables_of tb es) eq_refl). cbn [res_bind]. eauto.
  - destruct (Hbig k Hk) as [->|(idx & e & Hidx & Hnth & Hfs & Hspc & Hc)].
    + unfold stsc_index. cbn [lk_tables_of t_stsc res_bind]. eauto.
    + rewrite (Hidx (lk_tables_of tb es) eq_refl). cbn [res_bind].
      change (t_stsc (lk_tables_of tb es)) with es. rewrite Hnth.
      rewrite lk_eqb_false by lia. rewrite lk_checked_sub_ok by lia.
      remember ((k - sc_first_sample e) / sc_samples_per_chunk e + sc_first_chunk e) as c eqn:Ec.
      unfold checked_add. rewrite <- Ec. destruct (c <? U32); [|eauto].
      assert (Hco : chunk_offset (lk_tables_of tb es) c = Err ENotFound \/
                    chunk_offset (lk_tables_of tb es) c = Err EData).
      { unfold chunk_offset. cbn [lk_tables_of t_stco t_co64].
        rewrite lk_checked_sub_ok by lia. unfold chunk_offsets in Hc.
        destruct (t_stco tb) as [l|]; [|destruct (t_co64 tb) as [l|]]; auto;
          left; rewrite nthN_ge by lia; reflexivity. }
      destruct Hco as [-> | ->]; cbn [res_bind]; eauto.
Qed.

Lemma lk_read_sample_out m tb es k s : lk_facts tb -> lk_stsc_out tb es ->
  k = 0 \/ t_stsz_count tb < k ->
  match fst (run (read_sample m (mkTrack 1 (lk_tables_of tb es) [] 0) k) s) with
  | Ok (Some _) => False
  | Panic _ => False
  | _ => True
  end.
Proof.
  intros F Hout Hk. destruct (lk_offset_out m tb es k F Hout Hk) as [e He].
  unfold read_sample. rewrite He. destruct e; cbn [run fst]; exact I.
Qed.

(** the bytes [read_sample] delivers *)
Lemma lk_run_read m t k data pos off sz st dl sync :
  sample_offset m t k = Ok off -> sample_size t k = Ok sz ->
  sample_time m t k = Ok (st, dl) -> is_sync_sample t k = Ok sync ->
  off + sz <= lenN data ->
  exists s', run (read_sample m t k) (stream_at data pos) =
    (Ok (Some (mkSample st dl (sample_rendering_offset t k) sync
                        (firstn (N.to_nat sz) (skipn (N.to_nat off) data)))), s')
    /\ s_data s' = data /\ s_pos s' = off + sz.
Proof.
  intros Ho Hs Ht Hy Hlen. unfold read_sample. rewrite Ho, Hs.
  unfold seek_to. cbn [bind run].
  pose proof (seek_abs_wf _ off (stream_at_wf data pos)) as [Hl Hv].
  assert (Hd : s_data (seek_abs (stream_at data pos) off) = data).
  { unfold seek_abs. destruct (s_pos (stream_at data pos) <=? off); reflexivity. }
  assert (Hp : s_pos (seek_abs (stream_at data pos) off) = off).
  { unfold seek_abs. destruct (s_pos (stream_at data pos) <=? off); reflexivity. }
  set (s1 := seek_abs (stream_at data pos) off) in *.
  rewrite Hd in Hv. rewrite Hp in Hv. rewrite lk_dropN_skipn in Hv.
  unfold rd_exact. cbn [bind run]. destruct (N.eqb_spec sz 0) as [->|Hz].
  - cbn [bind run alloc]. rewrite Ht. cbn [lift bind run]. rewrite Hy. cbn [lift bind run].
    exists s1. split; [reflexivity|]. split; [exact Hd|]. rewrite Hp. lia.
  - rewrite Hv. rewrite lk_splitN_firstn.
    + cbn [bind run alloc]. rewrite Ht. cbn [lift bind run]. rewrite Hy. cbn [lift bind run].
      eexists. split; [reflexivity|]. cbn [s_data s_pos]. split; [exact Hd|]. now rewrite Hp.
    + unfold lenN in *. rewrite skipn_length. lia.
Qed.

(** ** Main theorems (restated with their definitions unfolded in [Props/C03.v]) *)
Theorem lk_lookup_sound : forall m tb, consistent tb = true ->
  exists t, lk_track_of tb = Some t /\ sample_count t = t_stsz_count tb /\
    (forall k, 1 <= k <= t_stsz_count tb ->
       exists off sz dl ct,
         spec_offset tb k = Some off /\ spec_size tb k = Some sz /\
         spec_delta tb k = Some dl /\ spec_cts tb k = Some ct /\
         sample_offset m t k = Ok off /\ sample_size t k = Ok sz /\
         sample_time m t k = Ok (spec_start tb k, dl) /\
         sample_rendering_offset t k = ct /\
         is_sync_sample t k = Ok (spec_sync tb k)) /\
    (forall k, k = 0 \/ t_stsz_count tb < k ->
       forall s, match fst (run (read_sample m t k) s) with
                 | Ok (Some _) => False
                 | Panic _ => False
                 | _ => True
                 end).
Proof.
  intros m tb Hc. apply lk_consistent_facts in Hc as F.
  destruct (lk_stsc_sound tb F) as (es & Hd & Hin & Hout).
  exists (mkTrack 1 (lk_tables_of tb es) [] 0). split; [unfold lk_track_of; now rewrite Hd|].
  split; [reflexivity|]. split.
  - intros k Hk.
    destruct (lk_offset_sound m tb es k F Hin Hk) as (off & Ho1 & Ho2).
    destruct (lk_size_sound tb es k F Hk) as (sz & Hs1 & Hs2).
    destruct (lk_time_sound m tb es k F Hk) as (dl & Ht1 & Ht2).
    exists off, sz, dl, (sample_rendering_offset (mkTrack 1 (lk_tables_of tb es) [] 0) k).
    repeat (split; [assumption|]). split; [apply lk_cts_sound; assumption|].
    repeat (split; [assumption|]). split; [reflexivity|]. apply lk_sync_sound; assumption.
  - intros k Hk s. apply lk_read_sample_out; assumption.
Qed.

Theorem lk_read_sample_sound : forall m tb, consistent tb = true ->
  exists t, lk_track_of tb = Some t /\
    forall k, 1 <= k <= t_stsz_count tb ->
      exists off sz dl ct,
        spec_offset tb k = Some off /\ spec_size tb k = Some sz /\
        spec_delta tb k = Some dl /\ spec_cts tb k = Some ct /\
        forall data pos, off + sz <= lenN data ->
          exists s',
            run (read_sample m t k) (stream_at data pos) =
              (Ok (Some (mkSample (spec_start tb k) dl ct (spec_sync tb k)
                                  (firstn (N.to_nat sz) (skipn (N.to_nat off) data)))), s')
            /\ s_data s' = data /\ s_pos s' = off + sz.
Proof.
  intros m tb Hc. destruct (lk_lookup_sound m tb Hc) as (t & Ht & _ & Hin & _).
  exists t. split; [exact Ht|]. intros k Hk.
  destruct (Hin k Hk) as (off & sz & dl & ct & H1 & H2 & H3 & H4 & H5 & H6 & H7 & H8 & H9).
  exists off, sz, dl, ct. repeat (split; [assumption|]).
  intros data pos Hlen. subst ct. now apply lk_run_read.
Qed.
