(** * C07/C08, composition (7): udta, trak, moov *)
From MP4 Require Import Cost CostLeaf CostLoop CostCont CostTree CostTree2 CostTree3 CostMeta CostTree6.
From MP4 Require Import BoxUdta BoxTrak BoxMoov.
From Coq Require Import ZArith ZifyN ZifyNat ZifyBool Lia.
Open Scope N_scope.

Section Tree7.
  Variable d : bytes.
  Hypothesis Hd : bytes_ok d = true.
  Hypothesis Hlen : lenN d < 2 ^ 62.

  Lemma udta_ok m : fok d 4 (fun f s => dec_udta_fuel f m s).
  Proof.
    eapply (std_ok d Hd Hlen 3) with (m := m) (dispatch := udta_dispatch m).
    - intros f size. unfold dec_udta_fuel. reflexivity.
    - intros f name s acc p size H8 Hp Hs1 Hs2 Hsz Hf.
      destruct name; cbn [udta_dispatch];
        first [ disp_child (meta_ok d Hd Hlen m) | disp_skip ].
    - intros start size acc. tail_bnd.
    - intros start size acc q Hov. tail_sat.
  Qed.

  Lemma trak_ok m : fok d 6 (fun f s => dec_trak_fuel f m s).
  Proof.
    eapply (std_ok d Hd Hlen 5) with (m := m) (dispatch := trak_dispatch m).
    - intros f size. unfold dec_trak_fuel. reflexivity.
    - intros f name s [[[tk ed] me] md] p size H8 Hp Hs1 Hs2 Hsz Hf.
      destruct name; cbn [trak_dispatch];
        first [ disp_child (tkhd_ok d Hd Hlen m) | disp_child (edts_ok d Hd Hlen m)
              | disp_child (meta_ok d Hd Hlen m) | disp_child (mdia_ok d Hd Hlen m) | disp_skip ].
    - intros start size [[[tk ed] me] md]. tail_bnd.
    - intros start size [[[tk ed] me] md] q Hov. tail_sat.
  Qed.

  Lemma moov_ok m : fok d 7 (fun f s => dec_moov_fuel f m s).
  Proof.
    eapply (std_ok d Hd Hlen 6) with (m := m) (dispatch := moov_dispatch m).
    - intros f size. unfold dec_moov_fuel. reflexivity.
    - intros f name s [[[[mh me] ud] mx] tr] p size H8 Hp Hs1 Hs2 Hsz Hf.
      destruct name; cbn [moov_dispatch];
        first [ disp_child (mvhd_ok d Hd Hlen m) | disp_child (meta_ok d Hd Hlen m)
              | disp_child (mvex_ok d Hd Hlen m) | disp_child (trak_ok m)
              | disp_child (udta_ok m) | disp_skip ].
    - intros start size [[[[mh me] ud] mx] tr]. tail_bnd.
    - intros start size [[[[mh me] ud] mx] tr] q Hov. tail_sat.
  Qed.
End Tree7.
