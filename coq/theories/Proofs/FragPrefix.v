(** * C11 composed with C09: prefixes of a FRAGMENTED file, from bytes

    The file is [ff_bytes wf wv ft v frags] of [Proofs/FragFile.v]: the rendering of
      ftyp, moov, (moof, mdat)*.
    - [lexec_children_prefix]: the top-level loop of [open_fuel] on ANY prefix of a rendering of children whose
      bodies decode, when it ends with success, has processed exactly the first [i] children, [i] being the least
      number of children whose rendering covers the prefix's length.
    - [ff_prefix_open] (part 1): the reader of any prefix that opens (any fuel) has the ftyp and the moov of the file,
      its movie fragments are the first [j] of the file, [j] = the number of moof boxes that START before the cut,
      and the lookup view of every track holds the fragment list [file_fragruns k (firstn j mps)].
    - [ff_prefix_lookup] (part 2): a sample such a reader returns on the prefix is the sample the movie-fragment
      specification [frag_expand] lists for the COMPLETE file's fragment list of the track: start, duration,
      composition offset, and the bytes of the complete file at the specified place, which lies inside the prefix.
      Direct route: the fragment list of the prefix's reader is an initial segment of the complete one
      ([file_fragruns_firstn]), so [frag_expand] of it is an initial segment of the complete [frag_expand]
      ([frag_expand_app]) and consistency is inherited ([frag_consistent_app_l]); [Props/C11.v]'s
      [truncated_fragmented] is not used. *)
From MP4 Require Import Hoare Reader GenericProofs GenericPrefix GenericFrag.
From MP4 Require Import Fragment FragProofs MuxOpenKit LayoutOpenS.
From MP4 Require Import LayoutKit LayoutProofs LayoutMore LayoutOpen LayoutTreeMono KitCont RtMoov RtMoof RtFtyp IsoFtyp IsoMoov IsoMoof IsoFile.
From MP4 Require Import FragFile MuxPrefix.
From Coq Require Import Lia ZifyN ZifyNat ZifyBool.
Open Scope string_scope.
Open Scope list_scope.
Open Scope N_scope.

(** ** The loop of [open_fuel] on a prefix of a rendering *)
Lemma lexec_children_prefix m F0 : forall cs items,
  Forall2 (decodes_to_s (open_body m) F0) cs items -> Forall child_wf cs ->
  forall fuel a d k p rest n ap cp pp trp,
  (F0 + length cs <= fuel)%nat -> p + total_len cs < 2 ^ 63 -> n <= p + total_len cs ->
  dropN p d = render cs ++ rest ->
  lexec m fuel n (firstn k d) a p = (Ok (ap, cp), pp, trp) ->
  exists i, (i <= length cs)%nat /\ ap = open_put_all p (firstn i cs) (firstn i items) a /\
    cp = p + total_len (firstn i cs) /\ n <= cp /\
    (forall i', (i' < i)%nat -> p + total_len (firstn i' cs) < n).
Proof.
  intros cs items H2. induction H2 as [|c it cs items Hc H2 IH]; intros Hwf fuel a d k p rest n ap cp pp trp Hf Hsz Hn Hd Hl.
  - change (total_len []) with 0 in Hn. rewrite N.add_0_r in Hn.
    assert (E : lexec m fuel n (firstn k d) a p = (Ok (a, p), p, [])).
    { destruct fuel; cbn [lexec]; (destruct (N.ltb_spec p n) as [Hlt|_]; [exfalso; clear -Hlt Hn; lia | reflexivity]). }
    rewrite E in Hl. inversion Hl; subst. exists O. cbn [firstn open_put_all length]. change (total_len []) with 0.
    split; [lia|]. split; [reflexivity|]. split; [lia|]. split; [lia|]. intros i' Hi'. exfalso. lia.
  - assert (Hlen : total_len (c :: cs) = c_len c + total_len cs) by reflexivity.
    rewrite Hlen in Hsz, Hn.
    inversion Hwf as [|? ? Hw1 Hw2]; subst.
    destruct fuel as [|fuel]; [exfalso; cbn [length] in Hf; clear -Hf; lia|].
    assert (Hpos : 0 < c_len c) by (unfold c_len, c_hlen; destruct (c_w64 c); clear; lia).
    assert (Hcs : c_s c <= c_len c) by (unfold c_s, c_len, c_hlen; destruct (c_w64 c); clear; lia).
    cbn [lexec] in Hl.
    destruct (N.ltb_spec p n) as [Hpn|Hpn].
    2:{ inversion Hl; subst. exists O. cbn [firstn open_put_all]. change (total_len []) with 0.
        split; [lia|]. split; [reflexivity|]. split; [lia|]. split; [lia|]. intros i' Hi'. exfalso. lia. }
    unfold render in Hd. cbn [flat_map] in Hd. rewrite <- app_assoc in Hd. fold (render cs) in Hd.
    assert (Hd' : dropN (p + c_len c) d = render cs ++ rest).
    { apply (dropN_split p (c_len c) d (c_bytes c)); [exact Hd | apply lenN_c_bytes]. }
    assert (Hdp : dropN (p + c_hlen c) d = c_payload c ++ render cs ++ rest).
    { unfold c_bytes in Hd. rewrite <- app_assoc in Hd.
      apply (dropN_split p (c_hlen c) d (c_hdr c)); [exact Hd | apply lenN_c_hdr]. }
    destruct (run read_header (stream_at (firstn k d) p)) as [[[name s]|e|x|] sh] eqn:Eh; try discriminate Hl.
    pose proof (run_at_eq _ _ _ _ _ Eh) as Hsh.
    pose proof (prefix_stable_ok _ _ _ _ _ _ Eh) as Eh'.
    rewrite (run_read_header_at c (render cs ++ rest) d p Hw1 Hd) in Eh'.
    injection Eh' as En Es Ep. subst name s.
    destruct (N.ltb_spec n (c_s c)) as [Hns|Hns]; [discriminate Hl|].
    destruct (N.eqb_spec (c_s c) 0) as [E|_]; [exfalso; unfold c_s in E; clear -E; lia|].
    rewrite Hsh in Hl. rewrite <- Ep in Hl.
    destruct (run (open_dispatch m fuel p (boxtype_of_u32 (c_code c)) (c_s c) a) (stream_at (firstn k d) (p + c_hlen c)))
      as [[a'|e|x|] sd] eqn:Ed; try discriminate Hl.
    pose proof (prefix_stable_ok _ _ _ _ _ _ Ed) as Ed'.
    pose proof (open_body_ok_at_s m F0 c it Hc) as Hb.
    assert (Hrun : run (open_dispatch m fuel p (boxtype_of_u32 (c_code c)) (c_s c) a)
                       (mkStream d (lenN d) (p + c_hlen c) (c_payload c ++ render cs ++ rest))
                   = (Ok (open_put p it a), mkStream d (lenN d) (p + c_len c) (render cs ++ rest))).
    { cbn [length] in Hf.
      unfold c_len, c_hlen, c_s in *. destruct (c_w64 c).
      - replace (p + 16) with (p + 8 + 8) in Hdp |- * by (clear; lia).
        rewrite Hb by (first [ clear -Hf; lia | unfold c_s; clear -Hsz; lia | exact Hdp ]).
        unfold c_s; stream_eq.
      - rewrite Hb by (first [ clear -Hf; lia | unfold c_s; clear -Hsz; lia | exact Hdp ]).
        unfold c_s; stream_eq. }
    unfold stream_at in Ed' at 1. rewrite Hdp, Hrun in Ed'.
    injection Ed' as Ea Epd. subst a'.
    destruct (lexec m fuel n (firstn k d) (open_put p it a) (s_pos sd)) as [[r1 p1] tr1] eqn:El.
    inversion Hl; subst r1 p1 trp. clear Hl.
    rewrite <- Epd in El.
    destruct (IH Hw2 fuel (open_put p it a) d k (p + c_len c) rest n ap cp pp tr1) as (i & Hi & Hap & Hcp & Hncp & Hmin).
    + cbn [length] in Hf. clear -Hf. lia.
    + clear -Hsz. lia.
    + clear -Hn. lia.
    + exact Hd'.
    + exact El.
    + exists (S i). cbn [firstn open_put_all length].
      change (total_len (c :: firstn i cs)) with (c_len c + total_len (firstn i cs)).
      split; [lia|]. split; [exact Hap|]. split; [rewrite Hcp; clear; lia|]. split; [exact Hncp|].
      intros [|i'] Hi'.
      * cbn [firstn]. change (total_len []) with 0. clear -Hpn. lia.
      * cbn [firstn]. change (total_len (c :: firstn i' cs)) with (c_len c + total_len (firstn i' cs)).
        specialize (Hmin i'). assert (Hlt : (i' < i)%nat) by (clear -Hi'; lia). specialize (Hmin Hlt). clear -Hmin. lia.
Qed.

(** ** Initial segments of the list of fragments *)

(** the first [i] of the boxes moof, mdat, moof, mdat, ... contain the first [div2 (i + 1)] moofs *)
Lemma open_put_all_frags_firstn : forall frags i p ft mv moofs offs emsgs,
  open_put_all p (firstn i (flat_map fg_children frags)) (firstn i (flat_map fg_items frags)) (ft, mv, moofs, offs, emsgs)
  = (ft, mv, moofs ++ map fg_moof (firstn (Nat.div2 (S i)) frags),
     offs ++ frag_positions p (firstn (Nat.div2 (S i)) frags), emsgs).
Proof.
  induction frags as [|g frags IH]; intros i p ft mv moofs offs emsgs.
  - cbn [flat_map]. rewrite !firstn_nil. cbn [open_put_all map frag_positions]. now rewrite !app_nil_r.
  - cbn [flat_map]. unfold fg_children at 1, fg_items at 1. cbn [app].
    destruct i as [|[|i]].
    + cbn [firstn Nat.div2 open_put_all map frag_positions]. now rewrite !app_nil_r.
    + cbn [firstn Nat.div2 open_put_all open_put map frag_positions]. reflexivity.
    + change (Nat.div2 (S (S (S i)))) with (S (Nat.div2 (S i))).
      cbn [firstn]. rewrite open_put_all_moof, open_put_all_skip, IH.
      cbn [map frag_positions]. rewrite <- !app_assoc. cbn [app].
      unfold fg_len. rewrite N.add_assoc. reflexivity.
Qed.

Lemma frag_positions_firstn : forall frags j p,
  frag_positions p (firstn j frags) = firstn j (frag_positions p frags).
Proof.
  induction frags as [|g frags IH]; intros [|j] p; cbn [firstn frag_positions]; try reflexivity.
  now rewrite IH.
Qed.

Lemma ff_moofs_firstn wf wv ft v frags j :
  combine (map fg_moof (firstn j frags)) (frag_positions (ff_head_len wf wv ft v) (firstn j frags))
  = firstn j (ff_moofs wf wv ft v frags).
Proof. unfold ff_moofs. now rewrite combine_firstn, firstn_map, frag_positions_firstn. Qed.

Lemma flat_trafs_app a b : flat_trafs (a ++ b) = flat_trafs a ++ flat_trafs b.
Proof. unfold flat_trafs. apply flat_map_app. Qed.

Lemma file_fragruns_app k a b : file_fragruns k (a ++ b) = file_fragruns k a ++ file_fragruns k b.
Proof. unfold file_fragruns, trafs_of_track. now rewrite flat_trafs_app, filter_app, map_app. Qed.

(** the fragments of a track in the first [j] movie fragments are an initial segment of its fragments *)
Lemma file_fragruns_firstn k mps j :
  file_fragruns k mps = file_fragruns k (firstn j mps) ++ file_fragruns k (skipn j mps).
Proof. now rewrite <- file_fragruns_app, firstn_skipn. Qed.

(** ** The specification [Spec/Fragment.v] on an initial segment of the fragment list *)
Lemma frag_expand_app fs gs d : frag_expand (fs ++ gs) d = frag_expand fs d ++ frag_expand gs d.
Proof. unfold frag_expand. apply flat_map_app. Qed.

Lemma frag_consistent_app_l fs gs d : frag_consistent (fs ++ gs) d = true -> frag_consistent fs d = true.
Proof.
  unfold frag_consistent. rewrite forallb_app, map_app, KitCont.sumN_app. intros H.
  apply andb_true_iff in H as [H H3]. apply andb_true_iff in H as [H1 H2]. apply andb_true_iff in H2 as [H2 _].
  rewrite H1, H2. cbn [andb]. apply N.ltb_lt in H3. apply N.ltb_lt. clear -H3. lia.
Qed.

(** the samples of an initial segment of the fragments are the first samples, with the same numbers *)
Lemma frag_expand_prefix_nth fs gs d i y :
  nthN (frag_expand fs d) i = Some y -> nthN (frag_expand (fs ++ gs) d) i = Some y.
Proof.
  intros H. rewrite frag_expand_app.
  destruct (N.lt_ge_cases i (lenN (frag_expand fs d))) as [Hlt|Hge].
  - rewrite nthN_app_l by exact Hlt. exact H.
  - exfalso. revert i H Hge. generalize (frag_expand fs d). intros l.
    induction l as [|x l IH]; intros i H Hge; [discriminate H|].
    cbn [nthN] in H. destruct (N.eqb_spec i 0) as [E|E].
    + subst i. unfold lenN in Hge. cbn [length] in Hge. clear -Hge. lia.
    + apply (IH (i - 1) H). unfold lenN in *. cbn [length] in Hge. clear -Hge E. lia.
Qed.

Lemma firstn_fg_children : forall frags x,
  firstn (2 * x) (flat_map fg_children frags) = flat_map fg_children (firstn x frags).
Proof.
  induction frags as [|g frags IH]; intros x.
  - cbn [flat_map]. now rewrite !firstn_nil.
  - destruct x as [|x]; [reflexivity|].
    replace (2 * S x)%nat with (S (S (2 * x))) by lia.
    cbn [flat_map firstn]. unfold fg_children at 1 3. cbn [app firstn]. now rewrite IH.
Qed.

Lemma total_len_firstn_mono : forall (l : list child) a b, (a <= b)%nat ->
  total_len (firstn a l) <= total_len (firstn b l).
Proof.
  induction l as [|c l IH]; intros a b Hab.
  - rewrite !firstn_nil. lia.
  - destruct a as [|a]; [cbn [firstn]; change (total_len []) with 0; lia|].
    destruct b as [|b]; [exfalso; lia|].
    cbn [firstn]. rewrite !ff_total_len_cons.
    assert (H : (a <= b)%nat) by lia. specialize (IH a b H). lia.
Qed.

Lemma in_firstn {A} (x : A) : forall n l, In x (firstn n l) -> In x l.
Proof.
  induction n as [|n IH]; intros [|y l] H; cbn [firstn] in H; try destruct H as [H|H]; try contradiction.
  - left; exact H.
  - right; apply IH; exact H.
Qed.

(** ** The prefix of a fragmented file *)
Section FragPrefix.
  Variables (m : mode) (wf wv : bool) (ft : ftyp) (v : moov) (frags : list fragment).
  Hypothesis Hftw : ftyp_wf ft = true.
  Hypothesis Hfts : ftyp_size ft < U32.
  Hypothesis Hvw : moov_rt_wf v = true.
  Hypothesis Hvs : moov_size v < U32.
  Hypothesis Hfr : Forall fragment_ok frags.
  Hypothesis Hlen : lenN (ff_bytes wf wv ft v frags) < 2 ^ 63.
  Hypothesis Hnd : NoDup (map trak_id (moov_traks v)).
  (* [~ In 0 (map trak_id (moov_traks v))] of [FragFileOpen] is not needed here: [open_fuel] on the prefix succeeded *)
  Hypothesis Hall : forall g tf, In g frags -> In tf (moof_trafs (fg_moof g)) -> In (traf_tid tf) (map trak_id (moov_traks v)).

  Let b := ff_bytes wf wv ft v frags.
  Let mps := ff_moofs wf wv ft v frags.
  Let dsd := moov_default_sample_duration v.

  (** Part 1: what the reader of a prefix that opens holds *)
  Theorem ff_prefix_open : forall n fp rp sp, n <= lenN b ->
    run (open_fuel fp m n) (stream_at (firstn (N.to_nat n) b) 0) = (Ok rp, sp) ->
    exists j, (j <= length frags)%nat /\
      (forall x q, nth_error (frag_positions (ff_head_len wf wv ft v) frags) x = Some q -> (q < n <-> (x < j)%nat)) /\
      rd_ftyp rp = ft /\ rd_moov rp = v /\ rd_moofs rp = firstn j (map fg_moof frags) /\ rd_emsgs rp = [] /\
      map fst (rd_tracks rp) = map trak_id (moov_traks v) /\
      (forall k, ~ In k (map trak_id (moov_traks v)) -> tracks_get k (rd_tracks rp) = None) /\
      forall t, In t (moov_traks v) ->
        exists t', tracks_get (trak_id t) (rd_tracks rp) = Some t' /\ mt_trak t' = t /\
          track_view t' = Track.mkTrack (trak_id t) (stbl_tables (minf_stbl (mdia_minf (trak_mdia t))))
                                        (file_fragruns (trak_id t) (firstn j mps))
                                        (match file_fragruns (trak_id t) (firstn j mps) with [] => 0 | _ => dsd end).
  Proof.
    intros n fp rp sp Hn Hp.
    set (F := Nat.max fp (ff_fuel v frags)).
    assert (HpF : run (open_fuel F m n) (stream_at (firstn (N.to_nat n) b) 0) = (Ok rp, sp)).
    { rewrite (open_fuel_more m n fp F); [exact Hp | unfold F; lia | rewrite Hp; discriminate]. }
    apply open_fuel_inv in HpF as (ft' & mv' & moofs & offs & emsgs & cur & pp & tr & Hl & P1 & P2 & P3 & P4 & PT).
    pose proof (ff_children_length wf wv ft v frags Hftw Hfts Hvw Hvs Hlen) as Hcl.
    assert (Hf1 : (ff_fuel0 v frags + length (ff_children wf wv ft v frags) <= F)%nat) by (rewrite Hcl; unfold F, ff_fuel; lia).
    assert (Hf2 : 0 + total_len (ff_children wf wv ft v frags) < 2 ^ 63) by (rewrite N.add_0_l, ff_total; exact Hlen).
    assert (Hf3 : n <= 0 + total_len (ff_children wf wv ft v frags)) by (rewrite N.add_0_l, ff_total; exact Hn).
    assert (Hf4 : dropN 0 b = render (ff_children wf wv ft v frags) ++ []) by (rewrite dropN_0, app_nil_r; reflexivity).
    destruct (lexec_children_prefix m (ff_fuel0 v frags) (ff_children wf wv ft v frags) (ff_items ft v frags)
                (ff_children_decode m wf wv ft v frags Hftw Hfts Hvw Hvs Hfr Hlen)
                (ff_children_wf wf wv ft v frags Hftw Hfts Hvw Hvs Hfr Hlen)
                F acc0 b (N.to_nat n) 0 [] n _ _ _ _ Hf1 Hf2 Hf3 Hf4 Hl) as (i & Hi & Hap & Hcur & Hncp & Hmin).
    unfold ff_children, ff_items, acc0 in Hap.
    destruct i as [|[|i]]; cbn [firstn open_put_all open_put] in Hap; try discriminate Hap.
    rewrite open_put_all_frags_firstn in Hap. cbn [app] in Hap.
    remember (Nat.div2 (S i)) as j eqn:Ej.
    injection Hap as Eft Emv Emoofs Eoffs Eemsgs.
    assert (Hj : (j <= length frags)%nat).
    { rewrite Hcl in Hi. rewrite Ej. clear -Hi.
      pose proof (Nat.div2_odd (S i)) as E. destruct (Nat.odd (S i)); cbn [Nat.b2n] in E; lia. }
    rewrite Eft in P1. rewrite Emv in P2, PT. rewrite Emoofs, Eoffs in PT.
    replace (0 + c_len (ff_ftyp_child wf ft) + c_len (ff_moov_child wv v)) with (ff_head_len wf wv ft v) in PT
      by (unfold ff_head_len; clear; lia).
    rewrite ff_moofs_firstn in PT. fold mps dsd in PT.
    destruct (attach_moofs_tracks dsd (moov_traks v) (firstn j mps) Hnd) as (tracks' & Hat & Hkeys & Hnone & Htr).
    { intros p Hpin. destruct (flat_trafs_in _ _ Hpin) as ([mf off] & Hmp & Hin & _). cbn [fst] in Hin.
      apply in_firstn in Hmp.
      unfold mps, ff_moofs in Hmp. apply in_combine_l in Hmp. apply in_map_iff in Hmp as (g & <- & Hg).
      exact (Hall g (fst p) Hg Hin). }
    rewrite Hat in PT. injection PT as PT. subst tracks'.
    exists j. split; [exact Hj|]. split.
    { intros x q Hq.
      assert (Hx : (x < length frags)%nat).
      { rewrite <- (frag_positions_length frags (ff_head_len wf wv ft v)). apply nth_error_Some. rewrite Hq. discriminate. }
      destruct (nth_error frags x) as [g|] eqn:Eg; [|apply nth_error_None in Eg; exfalso; clear -Eg Hx; lia].
      rewrite (frag_positions_nth frags _ x g Eg) in Hq. injection Hq as Hq.
      assert (Hpos : 0 + total_len (firstn (S (S (2 * x))) (ff_children wf wv ft v frags)) = q).
      { unfold ff_children. cbn [firstn]. rewrite !ff_total_len_cons, firstn_fg_children, <- Hq.
        unfold ff_head_len. clear. lia. }
      pose proof (Nat.div2_odd (S i)) as Ed. rewrite <- Ej in Ed.
      split.
      - intros Hlt. destruct (Nat.lt_ge_cases x j) as [Hxj|Hxj]; [exact Hxj|exfalso].
        assert (Hle : (S (S i) <= S (S (2 * x)))%nat) by (clear -Ed Hxj; destruct (Nat.odd (S i)); cbn [Nat.b2n] in Ed; lia).
        pose proof (total_len_firstn_mono (ff_children wf wv ft v frags) _ _ Hle) as Hm.
        clear -Hm Hncp Hcur Hpos Hlt. lia.
      - intros Hxj.
        assert (Hlt : (S (S (2 * x)) < S (S i))%nat) by (clear -Ed Hxj; destruct (Nat.odd (S i)); cbn [Nat.b2n] in Ed; lia).
        specialize (Hmin _ Hlt). clear -Hmin Hpos. lia. }
    split; [exact P1|]. split; [exact P2|].
    split; [rewrite P3, Emoofs; symmetry; apply firstn_map|].
    split; [rewrite P4; exact Eemsgs|].
    split; [exact Hkeys|]. split; [exact Hnone|]. exact Htr.
  Qed.

  (** Part 2: the samples read through the reader of the prefix are the samples the specification lists for the
      fragment list of the COMPLETE file *)
  Theorem ff_prefix_lookup (m' : mode) : forall n fp rp sp, n <= lenN b ->
    run (open_fuel fp m n) (stream_at (firstn (N.to_nat n) b) 0) = (Ok rp, sp) ->
    exists j, (j <= length frags)%nat /\
      (forall x q, nth_error (frag_positions (ff_head_len wf wv ft v) frags) x = Some q -> (q < n <-> (x < j)%nat)) /\
      rd_ftyp rp = ft /\ rd_moov rp = v /\ rd_moofs rp = firstn j (map fg_moof frags) /\
      (forall tid, ~ In tid (map trak_id (moov_traks v)) ->
         forall sid s, run (rd_read_sample m' rp tid sid) s = (Err EData, s)) /\
      forall t, In t (moov_traks v) ->
        let k := trak_id t in
        let fs := file_fragruns k mps in
        file_fragruns k (firstn j mps) <> [] -> frag_consistent fs dsd = true ->
        forall sid p x,
          fst (run (rd_read_sample m' rp k sid) (stream_at (firstn (N.to_nat n) b) p)) = Ok (Some x) ->
          1 <= sid <= lenN (frag_expand (file_fragruns k (firstn j mps)) dsd) /\
          exists off sz st du ct,
            nthN (frag_expand fs dsd) (sid - 1) = Some (off, sz, st, du, ct) /\
            Track.sm_start_time x = st /\ Track.sm_duration x = du /\ Track.sm_rendering_offset x = ct /\
            Track.sm_bytes x = firstn (N.to_nat sz) (skipn (N.to_nat off) b) /\
            (sz = 0 \/ off + sz <= n).
  Proof.
    intros n fp rp sp Hn Hp.
    destruct (ff_prefix_open n fp rp sp Hn Hp) as (j & Hj & Hwhich & E1 & E2 & E3 & _ & _ & Hnone & Htr).
    exists j. split; [exact Hj|]. split; [exact Hwhich|]. split; [exact E1|]. split; [exact E2|]. split; [exact E3|]. split.
    { intros tid Htid sid s. unfold rd_read_sample. rewrite (Hnone tid Htid). reflexivity. }
    intros t Hin k fs Hne Hc sid p x Hx.
    destruct (Htr t Hin) as (t' & Hget & _ & Hview). fold k in Hget, Hview.
    set (fsp := file_fragruns k (firstn j mps)) in *.
    set (tb := stbl_tables (minf_stbl (mdia_minf (trak_mdia t)))) in *.
    assert (Hview' : track_view t' = Track.mkTrack k tb fsp dsd).
    { rewrite Hview. destruct fsp; [now elim Hne | reflexivity]. }
    assert (Hfs : fs = fsp ++ file_fragruns k (skipn j mps)) by apply file_fragruns_firstn.
    assert (Hcp : frag_consistent fsp dsd = true) by (rewrite Hfs in Hc; exact (frag_consistent_app_l _ _ _ Hc)).
    destruct (frag_lookup_sound_lemma m' k tb fsp dsd Hne Hcp) as (_ & _ & H3 & H4).
    pose proof (read_sample_prefix_lemma m' rp k sid b (N.to_nat n) p 0 (Some x) Hx) as Hfull.
    unfold rd_read_sample in Hx, Hfull. rewrite Hget, Hview' in Hx, Hfull.
    assert (Hr : 1 <= sid <= lenN (frag_expand fsp dsd)).
    { destruct (N.eq_dec sid 0) as [E0|E0].
      { exfalso. rewrite (H4 sid (or_introl E0)) in Hx. discriminate Hx. }
      destruct (N.lt_ge_cases (lenN (frag_expand fsp dsd)) sid) as [E5|E5].
      { exfalso. rewrite (H4 sid (or_intror E5)) in Hx. discriminate Hx. }
      clear -E0 E5. lia. }
    split; [exact Hr|].
    destruct (H3 sid Hr) as (off & sz & st & du & ct & E & Eo & Es & Et & Ec).
    destruct (is_sync_sample_ok (Track.mkTrack k tb fsp dsd) sid) as (sync & Ey).
    exists off, sz, st, du, ct.
    split; [rewrite Hfs; apply frag_expand_prefix_nth; exact E|].
    destruct (read_sample_some_inv _ _ _ _ _ _ _ _ _ _ _ Eo Es Et Ey Hx) as (_ & Hfit).
    destruct (read_sample_some_inv _ _ _ _ _ _ _ _ _ _ _ Eo Es Et Ey Hfull) as (-> & _).
    cbn [Track.sm_start_time Track.sm_duration Track.sm_rendering_offset Track.sm_bytes].
    repeat (split; [first [reflexivity | exact Ec]|]).
    destruct Hfit as [Hz|Hfit]; [now left|right].
    assert (lenN (firstn (N.to_nat n) b) <= n) by (unfold lenN; rewrite firstn_length; lia). lia.
  Qed.
End FragPrefix.

Print Assumptions lexec_children_prefix.
Print Assumptions ff_prefix_open.
Print Assumptions ff_prefix_lookup.
