(** Round trip of [Tx3gBox] *)
From MP4 Require Import Kit VlKit BoxTx3g IsoTx3g.
From Coq Require Import ZifyN ZifyNat ZifyBool.
Open Scope string_scope.
Open Scope list_scope.
Open Scope N_scope.

Lemma tx3g_code : u32_of_boxtype (box_type_of "Tx3gBox") = 0x74783367.
Proof. vm_compute. reflexivity. Qed.

(** a list of known length is that many elements *)
Ltac explode l H :=
  repeat (destruct l as [|? l]; cbn [length] in H;
          [ try discriminate H | first [ discriminate H | apply eq_add_S in H ] ]).

Lemma tx3g_shape v : tx3g_wf v = true ->
  exists b0 b1 b2 b3 s0 s1 s2 s3 s4 s5 s6 s7 s8 s9 s10 s11,
    tx3g_box_record v = [b0; b1; b2; b3] /\
    tx3g_style_record v = [s0; s1; s2; s3; s4; s5; s6; s7; s8; s9; s10; s11].
Proof.
  intros H. unfold tx3g_wf in H. split_andb.
  repeat match goal with H : (lenN _ =? _) = true |- _ => apply N.eqb_eq in H end.
  destruct v as [dri df hj vj c br sr]. cbn [tx3g_box_record tx3g_style_record] in *.
  assert (Hb : length br = 4%nat) by (unfold lenN in *; lia).
  assert (Hs : length sr = 12%nat) by (unfold lenN in *; lia).
  clear - Hb Hs. explode br Hb. explode sr Hs. repeat eexists.
Qed.

Lemma tx3g_size_eq v : tx3g_size v = 46.
Proof. reflexivity. Qed.

Lemma tx3g_enc v : tx3g_wf v = true -> tx3g_size v < U32 ->
  wspec (enc_tx3g v) (tx3g_size v) (be 4 (tx3g_size v) ++ be 4 0x74783367 ++ iso_tx3g_payload v).
Proof.
  intros H Hs.
  destruct (tx3g_shape v H) as (b0 & b1 & b2 & b3 & s0 & s1 & s2 & s3 & s4 & s5 & s6 & s7 & s8 & s9 & s10 & s11 & Hb & Hsr).
  unfold enc_tx3g, iso_tx3g_payload, tx3g_box_at, tx3g_style_at. rewrite <- tx3g_code.
  rewrite Hb, Hsr. cbn [seq vl_wr_each nth flat_map].
  eapply wspec_out.
  - wspec_go.
  - rewrite <- !app_assoc, ?app_nil_r. reflexivity.
Qed.

Lemma tx3g_payload_len v : tx3g_wf v = true -> lenN (iso_tx3g_payload v) + 8 = tx3g_size v.
Proof.
  intros H.
  destruct (tx3g_shape v H) as (b0 & b1 & b2 & b3 & s0 & s1 & s2 & s3 & s4 & s5 & s6 & s7 & s8 & s9 & s10 & s11 & Hb & Hsr).
  unfold iso_tx3g_payload. rewrite Hb, Hsr. cbn [flat_map]. unfold iso_tx3g_i8, iso_tx3g_i16.
  rewrite ?lenN_app, ?lenN_be, ?lenN_repeat. reflexivity.
Qed.

Lemma tx3g_dec m v d l p post : tx3g_wf v = true -> p + tx3g_size v < 2 ^ 63 ->
  run (dec_tx3g m (tx3g_size v)) (mkStream d l (p + 8) (iso_tx3g_payload v ++ post))
  = (Ok v, mkStream d l (p + tx3g_size v) post).
Proof.
  intros H Hp.
  destruct (tx3g_shape v H) as (b0 & b1 & b2 & b3 & s0 & s1 & s2 & s3 & s4 & s5 & s6 & s7 & s8 & s9 & s10 & s11 & Hb & Hsr).
  unfold tx3g_wf, rgba_wf in H. rewrite Hb, Hsr in H. cbn [forallb] in H. split_andb.
  rewrite tx3g_size_eq in *.
  unfold dec_tx3g, iso_tx3g_payload, iso_tx3g_i8, iso_tx3g_i16. rewrite Hb, Hsr. cbn [flat_map].
  change (of_signed 8) with (of_signed (8 * N.of_nat 1)).
  change (of_signed 16) with (of_signed (8 * N.of_nat 2)).
  change (repeat 0 6) with (be 4 0 ++ be 2 0).
  rewrite <- !app_assoc. cbn [app].
  rewrite run_box_start.
  do 26 rd_step.
  prog_norm. rewrite run_finish; [| clear; lia | clear -Hp; unfold U64; lia].
  f_equal.
  - destruct v as [a1 a2 a3 a4 [c1 c2 c3 c4] br sr]. cbn [tx3g_box_record tx3g_style_record] in Hb, Hsr. subst. reflexivity.
  - f_equal. clear. lia.
Qed.

Theorem tx3g_roundtrip : leaf_roundtrip tx3g_wf tx3g_size 0x74783367 enc_tx3g dec_tx3g iso_tx3g_payload.
Proof.
  apply leaf_roundtrip_intro.
  - apply tx3g_enc.
  - apply tx3g_payload_len.
  - intros; now apply tx3g_dec.
Qed.

Print Assumptions tx3g_roundtrip.
